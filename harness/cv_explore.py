"""Differential: real callVariant vs the Lean definition `Spec.callVariant`
(C01 missing / C02 extra / C03 header witnesses / C05 paired runs), per generated input.
"""
from __future__ import annotations
import json
import random
import re
import traceback
from typing import Dict, List, Optional, Set, Tuple

from . import common, gen_ref, pipe, graph_stages

CLS = {'SNV': 'S', 'RNAEditingSite': 'S', 'INDEL': 'I', 'Deletion': 'D', 'Insertion': 'O',
       'Substitution': 'O'}


def tx_inputs(case: gen_ref.Case, anno, genome):
    """transcript-level inputs for Layer S, through the repository's own loaders
    (VariantRecordPool.load_variants -> transcript coordinates)."""
    from moPepGen import seqvar
    pool = seqvar.VariantRecordPool()
    pool.anno = anno
    for path in case.gvfs:
        with open(path) as handle:
            pool.load_variants(handle=handle, anno=anno, genome=genome)
    out = {}
    for tx_id in pool.data.keys():
        tx_model = anno.transcripts[tx_id]
        tx_seq = tx_model.get_transcript_sequence(genome[tx_model.transcript.chrom])
        series = pool[tx_id]
        out[tx_id] = {
            'seq': str(tx_seq.seq),
            'coding': bool(tx_model.is_protein_coding),
            'orf': (int(tx_seq.orf.start), int(tx_seq.orf.end)) if tx_seq.orf else None,
            'start_nf': tx_model.is_cds_start_nf(),
            'end_nf': tx_model.is_mrna_end_nf(),
            'sec': [int(s.start) for s in tx_seq.selenocysteine],
            'vars': [x for v in series.transcriptional
                     for x in as_vars(v, tx_seq, gene_seq_of(anno, genome, tx_model), series.intronic)],
            'n_fusion': len(series.fusion), 'n_circ': len(series.circ_rna),
            'n_intronic': len(series.intronic),
            'edge_nested': sorted(x for v in series.transcriptional for x in edge_nested(v, series.intronic)),
        }
    return out


def gene_seq_of(anno, genome, tx_model):
    gm = anno.genes[tx_model.transcript.gene_id]
    return str(gm.get_gene_sequence(genome[gm.chrom]).seq)


def as_var(v, tx_seq, gene_seq):
    """(start, end, ref, alt, type, id) in transcript coordinates; alternative-splicing records
    are written out as the replacement the documented semantics prescribes"""
    s, e = int(v.location.start), int(v.location.end)
    tx = str(tx_seq.seq)
    if v.type == 'Deletion':
        return (s, e, tx[s:e], tx[s:s + 1], 'Deletion', v.id)
    if v.type in ('Insertion', 'Substitution'):
        donor = gene_seq[v.get_donor_start():v.get_donor_end()]
        if v.type == 'Insertion':
            return (s, e, tx[s:e], tx[s:s + 1] + donor, 'Insertion', v.id)
        return (s, e, tx[s:e], donor, 'Substitution', v.id)
    return (s, e, str(v.ref), str(v.alt), v.type, v.id)


def _sep_subsets(items):
    """non-empty sub-collections of (start, end, …) tuples that are ascending and strictly
    separated (neither overlapping nor adjacent)"""
    items = sorted(items, key=lambda x: x[0])
    out = []

    def go(i, cur):
        if i == len(items):
            if cur:
                out.append(list(cur))
            return
        go(i + 1, cur)
        if not cur or cur[-1][1] < items[i][0]:
            cur.append(items[i])
            go(i + 1, cur)
            cur.pop()
    go(0, [])
    return out


def as_vars(v, tx_seq, gene_seq, intronic):
    """`as_var(v)` plus, for an alternative-splicing Insertion / Substitution whose inserted
    stretch (donor range of the gene) contains small records, one further replacement per
    separated combination of those records: same span, the inserted stretch carrying the
    combination, ids = (record id, nested ids…).  Such a replacement can only be used when the
    splicing record is, and never together with another form of it (they overlap)."""
    base = as_var(v, tx_seq, gene_seq)
    if v.type not in ('Insertion', 'Substitution'):
        return [base]
    ds, de = v.get_donor_start(), v.get_donor_end()
    nested = []
    for w in intronic:
        if w.type in ('SNV', 'INDEL', 'RNAEditingSite', 'MNV'):
            a, b = int(w.location.start), int(w.location.end)
            if ds <= a and b <= de:
                nested.append((a, b, str(w.ref), str(w.alt), w.id))
    out = [base]
    if not nested or len(nested) > 4:
        return out
    s, e = base[0], base[1]
    tx = str(tx_seq.seq)
    for comb in _sep_subsets(nested):
        donor, pos = [], ds
        for (a, b, _r, alt, _i) in comb:
            donor.append(gene_seq[pos:a])
            donor.append(alt)
            pos = b
        donor.append(gene_seq[pos:de])
        d = ''.join(donor)
        alt = (tx[s:s + 1] + d) if v.type == 'Insertion' else d
        out.append((s, e, base[2], alt, v.type, (v.id,) + tuple(c[4] for c in comb)))
    return out


def edge_nested(v, intronic) -> List[Tuple[str, str]]:
    """(splicing record id, small record id) for every small record that lies inside the stretch
    the alternative-splicing Insertion / Substitution `v` inserts AND touches its edge: its first
    base is the first inserted base or its last base is the last inserted base (open finding
    record-on-edge-of-inserted-stretch: the command never applies such a record)"""
    if v.type not in ('Insertion', 'Substitution'):
        return []
    ds, de = v.get_donor_start(), v.get_donor_end()
    out = []
    for w in intronic:
        if w.type in ('SNV', 'INDEL', 'RNAEditingSite', 'MNV'):
            a, b = int(w.location.start), int(w.location.end)
            if ds <= a and b <= de and (a == ds or b == de):
                out.append((v.id, w.id))
    return out


def vid_field(vid, idmap: Dict[str, int]) -> str:
    ids = vid if isinstance(vid, tuple) else (vid,)
    return '+'.join(str(idmap.setdefault(i, len(idmap))) for i in ids)


def resolve_exc(kw: dict) -> Optional[str]:
    exc = kw.get('cleavage_exception')
    if exc == 'auto':
        exc = 'trypsin_exception' if kw['cleavage_rule'] == 'trypsin' else None
    return exc


def tx_fields(tx: dict) -> List[str]:
    orf = tx['orf'] or (0, 0)
    return [tx['seq'], '1' if tx['coding'] else '0', str(orf[0]), str(orf[1]),
            '1' if tx['start_nf'] else '0', '1' if tx['end_nf'] else '0',
            ','.join(str(x) for x in tx['sec'])]


def var_field(tx: dict, idmap: Dict[str, int]) -> Optional[str]:
    vs = []
    for (s, e, r, a, t, vid) in tx['vars']:
        if t not in CLS:
            return None
        vs.append(f'{s}:{e}:{r}:{a}:{CLS[t]}:{vid_field(vid, idmap)}')
    return ';'.join(vs)


def cleave_fields(kw: dict, exc: Optional[str]) -> List[str]:
    return [kw['cleavage_rule'], exc or '-', str(kw['miscleavage']), str(pipe.mw_int(kw['min_mw'])),
            str(kw['min_length']), str(kw['max_length'])]


def spec_line(tx: dict, kw: dict, canon: Set[str], idmap: Dict[str, int],
              exc: Optional[str]) -> Optional[str]:
    vf = var_field(tx, idmap)
    if vf is None:
        return None
    return '\t'.join(['S', 'cv'] + tx_fields(tx) + [vf] + cleave_fields(kw, exc) + [
        '1' if kw['selenocysteine_termination'] else '0', '1' if kw['w2f_reassignment'] else '0',
        ','.join(sorted(canon))])


def set_line(tx: dict, kw: dict, idmap: Dict[str, int], exc: Optional[str]) -> Optional[str]:
    vf = var_field(tx, idmap)
    if vf is None:
        return None
    return '\t'.join(['S', 'set'] + tx_fields(tx) + [vf] + cleave_fields(kw, exc))


def parse_entry(entry: str, tx_id: str, idmap: Dict[str, int], seq: Optional[str] = None):
    """(ids, sect, w2f, problem) of a header entry `TX|id|…|[SECT-n]|[W2F-n]|[ORFk]|index`"""
    parts = entry.split('|')
    # (record ids can legitimately repeat: a merged pair is written as its individual ids next to
    # other records) — a generated SECT-/W2F- event is named once
    dup = sorted({p for p in parts[1:-1] if parts[1:-1].count(p) > 1 and p.startswith(('SECT-', 'W2F-'))})
    if dup:
        return None, False, False, f'the entry names the event(s) {dup} more than once'
    if seq is not None:
        for p in parts[1:-1]:
            if re.match(r'^W2F-\d+$', p):
                n = int(p[4:])
                # W2F-<n>: the n-th residue (1-based) of the peptide was reassigned W>F
                if not (1 <= n <= len(seq)) or seq[n - 1] != 'F':
                    return None, False, True, (f'{p} names residue {n} of the peptide, which is '
                                               f'{seq[n - 1] if 1 <= n <= len(seq) else "outside it"}, not a reassigned F')
    if parts[0] != tx_id:
        return None, False, False, f'backbone {parts[0]} is not the transcript {tx_id}'
    if len(parts) < 2 or not parts[-1].isdigit():
        return None, False, False, 'no trailing index'
    ids, sect, w2f = [], False, False
    for p in parts[1:-1]:
        if p.startswith('SECT-'):
            sect = True
        elif p.startswith('W2F-'):
            w2f = True
        elif re.match(r'^ORF\d+$', p):
            pass
        elif p in idmap:
            ids.append(idmap[p])
        else:
            return None, sect, w2f, f'variant id {p} does not occur in the input GVF for {tx_id}'
    return ids, sect, w2f, None


def default_kw(rng: random.Random, vary: bool, exception=None, enzymes=None) -> dict:
    kw = dict(cleavage_rule='trypsin', cleavage_exception=exception, miscleavage=2, min_mw=500.,
              min_length=7, max_length=25, selenocysteine_termination=False,
              w2f_reassignment=False)
    if vary:
        if enzymes:
            kw['cleavage_rule'] = rng.choice(enzymes)
            if kw['cleavage_rule'] != 'trypsin' and kw['cleavage_exception'] not in (None, 'auto'):
                kw['cleavage_exception'] = None
        kw['miscleavage'] = rng.choice([0, 1, 2, 2, 3])
        kw['min_length'] = rng.choice([5, 7, 7, 9])
        kw['max_length'] = rng.choice([15, 25, 25, 40])
        kw['min_mw'] = rng.choice([300., 500., 500., 800.])
        kw['selenocysteine_termination'] = rng.random() < 0.4
        kw['w2f_reassignment'] = rng.random() < 0.3
    return kw


def build_input(seed: int, opts: dict):
    rng = random.Random(seed)
    case = gen_ref.Case(gen_ref.work_dir('cv'))
    with gen_ref.quiet():
        gen_ref.make_reference(case, seed, 1, sec_near_start=opts.get('sec_near_start', 0.25),
                               context=opts.get('context', 0.3),
                               **({'sec_lys': opts['sec_lys']} if 'sec_lys' in opts else {}),
                               start_context=opts.get('start_context', 0.5),
                               trp=opts.get('trp', 0.0))
        genome, anno, _ = gen_ref.load_reference(case)
        recs = []
        if opts.get('coding_only') and not any(m.is_protein_coding for m in anno.transcripts.values()):
            return case, genome, anno, recs, rng      # no GVF written: the worker counts it as empty
        special = rng.choice(opts['special']) if opts.get('special') else None
        case.meta['special'] = special
        for tx_id in anno.transcripts:
            n = rng.randint(*opts.get('per_tx', (1, 6)))
            recs += gen_ref.dense_variants(anno, genome, tx_id, rng, n,
                                           max_size=opts.get('max_size', 4),
                                           snv_frac=opts.get('snv_frac', 0.55),
                                           window=opts.get('window', 40),
                                           special=special,
                                           focus_at=case.meta.get('planted_trp', {}).get(tx_id))
        for (ptx, ppos, palt, _motif) in case.meta.get('planted_context', []):
            # the SNV that flips the planted cleavage context (+ sometimes nothing else near it)
            try:
                rec = gen_ref.make_snv(anno, genome, ptx, ppos, palt)
            except Exception:   # noqa
                rec = None
            if rec is not None and rec.id not in {r.id for r in recs}:
                recs.append(rec)
                case.meta['context_snv'] = case.meta.get('context_snv', 0) + 1
        if opts.get('internal_met', 0) > 0:
            # M>K at an internal methionine that STARTS a tryptic product (…K|M…): the variant peptide
            # is the reference product without its first residue — canonical only if the pool wrongly
            # holds Met-removed forms of internal products
            from Bio.Seq import Seq as _Seq
            for tx_id, m_ in anno.transcripts.items():
                if not m_.is_protein_coding or rng.random() > opts['internal_met']:
                    continue
                ts_ = m_.get_transcript_sequence(genome[m_.transcript.chrom])
                if not ts_.orf:
                    continue
                o0_ = int(ts_.orf.start)
                cds_ = str(ts_.seq)[o0_:int(ts_.orf.end)]
                aa_ = str(_Seq(cds_[:len(cds_) // 3 * 3]).translate())
                cand_ = [i for i in range(2, len(aa_) - 8) if aa_[i] == 'M' and aa_[i - 1] in 'KR'
                         and aa_[i + 1] != 'P' and '*' not in aa_[:i + 8]]
                if not cand_:
                    continue
                i_ = rng.choice(cand_)
                try:
                    rec = gen_ref.make_snv(anno, genome, tx_id, o0_ + 3 * i_ + 1, 'A')
                except Exception:   # noqa
                    rec = None
                if rec is not None and rec.id not in {r.id for r in recs}:
                    recs.append(rec)
                    case.meta['internal_met'] = 1
        if opts.get('silent_pair', 0) > 0:
            for tx_id in anno.transcripts:
                if rng.random() < opts['silent_pair']:
                    trip = gen_ref.silent_pair(anno, genome, tx_id, rng)
                    have = {r.id for r in recs}
                    if len(trip) == 3 and not any(r.id in have for r in trip):
                        recs += trip
                        case.meta['silent_pair'] = 1
        if opts.get('junction_mnv', 0) > 0:
            for tx_id in anno.transcripts:
                if rng.random() < opts['junction_mnv']:
                    trip = gen_ref.junction_mnv(anno, genome, tx_id, rng)
                    have = {r.id for r in recs}
                    if len(trip) == 3 and not any(r.id in have for r in trip):
                        recs += trip
                        case.meta['junction_mnv'] = 1
        if opts.get('as_frac', 0) > 0:
            import random as _r
            from moPepGen import fake
            for tx_id in anno.transcripts:
                if rng.random() < opts['as_frac'] and len(anno.transcripts[tx_id].exon) >= 3:
                    _r.seed(rng.randrange(1 << 30))
                    for _ in range(rng.choice([1, 1, 2])):
                        try:
                            rec = fake.fake_rmats_record(anno, genome, tx_id)
                        except Exception:   # noqa
                            continue
                        if rec.id not in {r.id for r in recs}:
                            recs.append(rec)
                            if rng.random() < opts.get('nested_frac', 0.0):
                                try:
                                    for nv in gen_ref.nested_variants(anno, genome, tx_id, rec, rng,
                                                                      rng.choice([1, 1, 2]),
                                                                      opts.get('nested_kinds', ('SNV', 'SNV', 'INS', 'DEL'))):
                                        if nv.id not in {r.id for r in recs}:
                                            recs.append(nv)
                                            case.meta['nested'] = case.meta.get('nested', 0) + 1
                                except Exception:   # noqa
                                    pass
        gen_ref.write_gvfs(case, recs)
    return case, genome, anno, recs, rng


MAX_FORMS = 40


def collapse_worker(job):
    """indel-rich dense clusters, run with the default node-collapsing parameters and with three
    binding settings (`--min-nodes-to-collapse` 1-3, `--naa-to-collapse` 3-5): pop-collapsing
    must not change the peptide set.  No definition needed: pure metamorphic."""
    seed, tier, opts = job
    out = {'stats': {}, 'seed': seed}
    case = None
    try:
        case, genome, anno, recs, rng = build_input(seed, dict(
            per_tx=(4, 7), max_size=4, snv_frac=0.35, window=30, sec_near_start=0.0, context=0.0))
        if not case.gvfs:
            out['stats']['empty'] = 1
            return out
        kw = default_kw(rng, True, None)
        kw['miscleavage'] = rng.choice([1, 2, 2, 3])
        base = gen_ref.run_call_variant(case, tag='cv', **kw)
        out['desc'] = {'seed': seed, 'kw': kw, 'n_records': len(recs),
                       'records': [r.id for r in recs]}
        out['base'] = {'status': base.status, 'real': sorted(base.fasta.keys())}
        out['runs'] = []
        for mn, na in rng.sample([(1, 3), (2, 3), (1, 5), (3, 3), (2, 5)], 3):
            r2 = gen_ref.run_call_variant(case, tag='v', **dict(kw, min_nodes_to_collapse=mn,
                                                                 naa_to_collapse=na))
            out['runs'].append({'what': {'min_nodes_to_collapse': mn, 'naa_to_collapse': na},
                                'status': r2.status, 'real': sorted(r2.fasta.keys())})
        out['stats']['runs'] = 1
        return out
    except Exception:   # noqa
        out['stats']['worker_error'] = 1
        out['error'] = traceback.format_exc()[-1500:]
        return out
    finally:
        if case is not None:
            case.cleanup()


def cv_worker(job):
    """one generated single-gene input: real callVariant (+ requested variations) and the
    protocol lines for Spec.callVariant / Spec.witness"""
    seed, tier, opts = job
    out = {'stats': {}, 'seed': seed}
    case = None
    try:
        case, genome, anno, recs, rng = build_input(seed, opts)
        if not case.gvfs:
            out['stats']['empty'] = 1
            return out
        kw = default_kw(rng, opts.get('vary', True), opts.get('exception'), opts.get('enzymes'))
        kw.update(opts.get('kw', {}))
        for k_, choices in opts.get('kw_choices', {}).items():
            kw[k_] = rng.choice(choices)
        if case.meta.get('special') == 'sec' and rng.random() < 0.8 \
                and 'selenocysteine_termination' not in opts.get('kw', {}):
            kw['selenocysteine_termination'] = True
        if case.meta.get('special'):
            kw['min_length'] = min(kw['min_length'], 7)
            out['stats']['special_' + case.meta['special']] = 1
        canon = pipe.model_canonical_pool(case, **kw)
        store: list = []
        if opts.get('stages'):
            with graph_stages.capture(store):
                run = gen_ref.run_call_variant(case, tag='cv', **kw)
        else:
            run = gen_ref.run_call_variant(case, tag='cv', **kw)
        txs = tx_inputs(case, anno, genome)
        desc = {'seed': seed, 'kw': kw, 'n_records': len(recs)}
        out['desc'] = desc
        if len(txs) != 1:
            out['stats']['not_single_tx'] = 1
            return out
        tx_id, tx = list(txs.items())[0]
        desc.update(tx=tx_id, orf=tx['orf'], coding=tx['coding'], start_nf=tx['start_nf'],
                    end_nf=tx['end_nf'], sec=tx['sec'], vars=tx['vars'], tx_seq=tx['seq'])
        out['stats']['coding' if tx['coding'] else 'noncoding'] = 1
        for k in ('start_nf', 'end_nf'):
            if tx[k]:
                out['stats'][k] = 1
        if tx['sec']:
            out['stats']['selenoprotein'] = 1
        out['stats'][f'nvars_{min(len(tx["vars"]), 9)}'] = 1
        if len(tx['vars']) > MAX_FORMS:
            # a splicing record with several nested records expands into 2^k mutually overlapping
            # forms.  The DEFINITION Spec.haplotypes enumerates all 2^n sub-collections of the pool;
            # the compiled driver evaluates the pruned enumerator Spec.haplotypesFast instead (proved
            # equal, `@[csimp] haplotypes_eq_fast`), whose cost is the number of COMPATIBLE
            # sub-collections, so the cap is only a guard against absurd inputs (was 17 before the
            # pruned enumerator); beyond it the definition is not evaluated (counted, never judged)
            out['stats']['skipped_too_many_forms'] = 1
            return out
        if case.meta.get('context_snv'):
            out['stats']['planted_cleavage_context_snv'] = 1
        if case.meta.get('junction_mnv'):
            out['stats']['junction_snv_pair_with_exon_deletion'] = 1
        if case.meta.get('planted_start_context'):
            out['stats']['planted_start_context'] = 1
        if case.meta.get('internal_met'):
            out['stats']['internal_met_to_lys'] = 1
        if case.meta.get('silent_pair'):
            out['stats']['synonymous_snv_pair_in_one_codon'] = 1
        if case.meta.get('planted_trp'):
            out['stats']['planted_tryptophan_cluster'] = 1
        if any(isinstance(v[5], tuple) for v in tx['vars']):
            out['stats']['with_nested_in_splicing_insertion'] = 1
        if tx.get('edge_nested'):
            desc['edge_nested'] = [list(x) for x in tx['edge_nested']]
            out['stats']['with_record_on_edge_of_inserted_stretch'] = 1
        out['stats'][f'enzyme_{kw["cleavage_rule"]}'] = 1
        if run.status != 'ok':
            out['stats']['crash'] = 1
            out['crash'] = (run.status, run.error)
            return out
        idmap: Dict[str, int] = {}
        exc = resolve_exc(kw)
        la = spec_line(tx, kw, canon, idmap, exc)
        if la is None:
            out['stats']['unsupported_type'] = 1
            return out
        out['line_A'] = la
        out['line_B'] = spec_line(tx, kw, canon, idmap, None) if exc else None
        if opts.get('stages'):
            # Layer G: the graphs the real run built, for the checkpoint predicates
            rs = [r for r in store if 'tvg1' in r.stages and r.gid == tx_id]
            if len(rs) == 1:
                out['cp'] = graph_stages.cp_lines(rs[0], tx_fields(tx), var_field(tx, dict(idmap)),
                                                  dict(idmap), kw['cleavage_rule'], exc)
                # function-level model of the third stage (Model/Translate.lean): the real graph
                # `translate` found and the one it returned
                tc = graph_stages.translate_case(rs[0], idmap)
                if tc is not None:
                    out['translate'] = tc
                if opts.get('tvgbuild'):
                    # structural correspondence with the function-level model (Model/Tvg.lean)
                    tb = graph_stages.tvgbuild_case(rs[0], tx, tx_fields(tx), idmap)
                    if tb is None:
                        out['stats']['tvgbuild_skipped_not_small_records'] = 1
                    else:
                        out['tvgbuild'] = tb[:2]
                        out['tvglang'] = tb[3:5]
                        if not tb[2]:
                            out['stats']['tvgbuild_records_differ_from_loader'] = 1
                        elif [v[:5] for v in tx['vars']] != [v[:5] for v in rs[0].tvg_given]:
                            out['stats']['tvgbuild_record_order_differs_from_loader'] = 1
            else:
                out['stats']['stage_dumps_%d' % len(rs)] = 1
        out['real'] = sorted(run.fasta.keys())
        out['stats']['runs'] = 1
        out['stats']['real_peptides'] = len(run.fasta)
        # header entries for the witness check
        out['set_line'] = set_line(tx, kw, idmap, exc)
        # forms of a splicing record that carry nested records (see as_vars): an entry naming
        # nested records is checked against the record list in which that splicing record has
        # only the form the entry names
        multi = [v for v in tx['vars'] if isinstance(v[5], tuple)]
        nested_num = {idmap[i] for v in multi for i in v[5][1:] if i in idmap}
        wl = []
        for seq_, hdrs in run.fasta.items():
            for h in hdrs:
                for entry in h.split(' '):
                    ids, sect, w2f, problem = parse_entry(entry, tx_id, idmap, seq_)
                    if problem:
                        wl.append((None, seq_, entry, problem, None))
                        continue
                    override = None
                    if nested_num and set(ids) & nested_num:
                        named = set(ids)
                        inv = {n: k for k, n in idmap.items()}
                        names = {inv[i] for i in named}

                        def idset(v):
                            return set(v[5]) if isinstance(v[5], tuple) else {v[5]}
                        keep = []
                        for v in tx['vars']:
                            forms = [w for w in tx['vars'] if w[0] == v[0] and w[1] == v[1] and w[4] == v[4]
                                     and idset(w) <= names and idset(v) < idset(w)]
                            if isinstance(v[5], tuple) and not idset(v) <= names:
                                continue
                            if forms:
                                continue        # a larger named form of the same record exists
                            keep.append(v)
                        override = set_line(dict(tx, vars=keep), kw, idmap, exc)
                    wl.append(('\t'.join(['S', 'w', '1' if sect else '0', '1' if w2f else '0',
                                          ','.join(str(i) for i in ids), seq_]), seq_, entry, None,
                               override))
        out['witness'] = wl
        out['entries'] = [e for _s, hdrs in run.fasta.items() for h in hdrs for e in h.split(' ')]
        out['headers'] = {s: h for s, h in run.fasta.items()}
        # variations of the same input
        var = []
        for name in opts.get('variations', []):
            if name == 'collapse':
                kw2 = dict(kw, min_nodes_to_collapse=rng.choice([1, 2, 5]),
                           naa_to_collapse=rng.choice([1, 2, 3, 5, 8]))
                r2 = gen_ref.run_call_variant(case, tag='v', **kw2)
                var.append({'name': 'collapse', 'relation': 'equal', 'status': r2.status,
                            'what': {k: kw2[k] for k in ('min_nodes_to_collapse', 'naa_to_collapse')},
                            'real': sorted(r2.fasta.keys())})
            elif name == 'limits':
                kw2 = dict(kw, max_variants_per_node=(rng.choice([1, 2, 3]),),
                           additional_variants_per_misc=(rng.choice([0, 1]),))
                r2 = gen_ref.run_call_variant(case, tag='v', **kw2)
                var.append({'name': 'limits', 'relation': 'subset', 'status': r2.status,
                            'what': {k: list(kw2[k]) for k in ('max_variants_per_node',
                                                               'additional_variants_per_misc')},
                            'real': sorted(r2.fasta.keys())})
            elif name == 'timeout':
                k = rng.choice([1, 2, 3])
                kw2 = dict(kw, max_variants_per_node=rng.choice([(7, 2), (3,), (4, 3, 1)]),
                           additional_variants_per_misc=rng.choice([(2,), (2, 0), (1,)]))
                r2 = gen_ref.run_call_variant(case, tag='v', timeouts=f'wrapper:{tx_id}@{k}', **kw2)
                params = [r['params'] for r in r2.trace if r['kind'] == 'wrapper']
                var.append({'name': 'timeout', 'relation': 'subset', 'status': r2.status,
                            'what': {'timeouts': k, 'mv': list(kw2['max_variants_per_node']),
                                     'av': list(kw2['additional_variants_per_misc'])},
                            'final_params': params, 'real': sorted(r2.fasta.keys())})
            elif name in ('misc', 'minlen', 'maxlen', 'minmw', 'sect', 'w2f'):
                kw2 = dict(kw)
                if name == 'misc':
                    kw2['miscleavage'] = kw['miscleavage'] + rng.choice([1, 2])
                elif name == 'minlen':
                    kw2['min_length'] = max(1, kw['min_length'] - rng.choice([1, 2, 3]))
                elif name == 'maxlen':
                    kw2['max_length'] = kw['max_length'] + rng.choice([1, 5, 10])
                elif name == 'minmw':
                    kw2['min_mw'] = max(0., kw['min_mw'] - rng.choice([100., 200.]))
                elif name == 'sect':
                    if kw['selenocysteine_termination']:
                        continue
                    kw2['selenocysteine_termination'] = True
                elif name == 'w2f':
                    if kw['w2f_reassignment']:
                        continue
                    kw2['w2f_reassignment'] = True
                canon2 = pipe.canonical_pool(case, **kw2)
                r2 = gen_ref.run_call_variant(case, tag='v', **kw2)
                var.append({'name': name, 'relation': 'superset', 'status': r2.status,
                            'what': {k: kw2[k] for k in kw2 if kw2[k] != kw.get(k)},
                            'kw2': kw2, 'real': sorted(r2.fasta.keys()),
                            'headers': {s: h for s, h in r2.fasta.items()},
                            'line_A': spec_line(tx, kw2, canon2, dict(idmap), resolve_exc(kw2)),
                            'canon_gained': sorted(canon2 - canon)})
            elif name == 'cno':
                # --coding-novel-orf on a coding transcript: every ATG of every frame may open an
                # ORF on top of the known one
                if not tx['coding']:
                    continue
                kw2 = dict(kw, coding_novel_orf=True)
                r2 = gen_ref.run_call_variant(case, tag='v', **kw2)
                # soundness side: the definition with every ATG allowed, over the records the
                # coding graph can carry (those behind the known start codon)
                s0 = tx['orf'][0] + 3
                tx2 = dict(tx, coding=False, orf=None,
                           vars=[v_ for v_ in tx['vars'] if v_[0] >= s0 or (v_[0] == s0 - 1 and v_[4] == 'INDEL')])
                var.append({'name': 'cno', 'relation': 'superset', 'status': r2.status,
                            'what': {'coding_novel_orf': True}, 'kw2': kw2,
                            'real': sorted(r2.fasta.keys()),
                            'headers': {s: h for s, h in r2.fasta.items()},
                            'line_A': spec_line(tx2, kw, canon, dict(idmap), exc)})
            elif name == 'addvar':
                if len(recs) < 2:
                    continue
                keep = sorted(rng.sample(range(len(recs)), rng.randint(1, len(recs) - 1)))
                with gen_ref.quiet():
                    gv0 = list(case.gvfs)
                    gen_ref.write_gvfs(case, [recs[i] for i in keep], names=['sub.gvf'])
                    gsub = list(case.gvfs)
                    case.gvfs = gv0
                r2 = gen_ref.run_call_variant(case, tag='v', input_path=gsub, **kw)
                kept_ids = [recs[i].id for i in keep]
                var.append({'name': 'addvar', 'relation': 'subset', 'status': r2.status,
                            'what': {'subset_of_records': kept_ids},
                            'added_ids': [r.id for r in recs if r.id not in kept_ids],
                            'real': sorted(r2.fasta.keys())})
        out['variations'] = var
        return out
    except Exception:   # noqa
        out['stats']['worker_error'] = 1
        out['error'] = traceback.format_exc()[-1500:]
        return out
    finally:
        if case is not None:
            case.cleanup()
