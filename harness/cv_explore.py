"""Differential: real callVariant vs the Lean definition `Spec.callVariant`
(C01 missing / C02 extra / C03 header witnesses), per generated input.
"""
from __future__ import annotations
import random
import traceback
from typing import Dict, List, Optional, Set, Tuple

from . import common, gen_ref, pipe

ENZ_OK = ['trypsin']


def tx_inputs(case: gen_ref.Case, anno, genome):
    """transcript-level inputs for Layer S, through the repository's own loaders
    (VariantRecordPool.load_variants -> transcript coordinates)."""
    from moPepGen import seqvar
    pool = seqvar.VariantRecordPool()
    pool.anno = anno
    for path in case.gvfs:
        with open(path) as handle:
            pool.load_variants(handle=handle, anno=anno, genome=genome)
    out = {}
    for tx_id in pool.data.keys():
        tx_model = anno.transcripts[tx_id]
        tx_seq = tx_model.get_transcript_sequence(genome[tx_model.transcript.chrom])
        series = pool[tx_id]
        out[tx_id] = {
            'seq': str(tx_seq.seq),
            'coding': bool(tx_model.is_protein_coding),
            'orf': (int(tx_seq.orf.start), int(tx_seq.orf.end)) if tx_seq.orf else None,
            'start_nf': tx_model.is_cds_start_nf(),
            'end_nf': tx_model.is_mrna_end_nf(),
            'sec': [int(s.start) for s in tx_seq.selenocysteine],
            'vars': [(int(v.location.start), int(v.location.end), str(v.ref), str(v.alt),
                      v.type, v.id) for v in series.transcriptional],
            'n_fusion': len(series.fusion), 'n_circ': len(series.circ_rna),
            'n_intronic': len(series.intronic),
        }
    return out


CLS = {'SNV': 'S', 'RNAEditingSite': 'S', 'INDEL': 'I'}


def spec_line(tx: dict, kw: dict, canon: Set[str], idmap: Dict[str, int]) -> str:
    vs = []
    for (s, e, r, a, t, vid) in tx['vars']:
        if t not in CLS:
            return ''
        vs.append(f'{s}:{e}:{r}:{a}:{CLS[t]}:{idmap.setdefault(vid, len(idmap))}')
    orf = tx['orf'] or (0, 0)
    exc = kw.get('cleavage_exception')
    if exc == 'auto':
        exc = 'trypsin_exception' if kw['cleavage_rule'] == 'trypsin' else None
    return '\t'.join([
        'S', 'cv', tx['seq'], '1' if tx['coding'] else '0', str(orf[0]), str(orf[1]),
        '1' if tx['start_nf'] else '0', '1' if tx['end_nf'] else '0',
        ','.join(str(x) for x in tx['sec']), ';'.join(vs),
        kw['cleavage_rule'], exc or '-', str(kw['miscleavage']), str(pipe.mw_int(kw['min_mw'])),
        str(kw['min_length']), str(kw['max_length']),
        '1' if kw['selenocysteine_termination'] else '0', '1' if kw['w2f_reassignment'] else '0',
        ','.join(sorted(canon))])


def default_kw(rng: random.Random, vary: bool, opts_exc=None) -> dict:
    kw = dict(cleavage_rule='trypsin', cleavage_exception=opts_exc, miscleavage=2, min_mw=500.,
              min_length=7, max_length=25, selenocysteine_termination=False,
              w2f_reassignment=False)
    if vary:
        kw['miscleavage'] = rng.choice([0, 1, 2, 2, 3])
        kw['min_length'] = rng.choice([5, 7, 7, 9])
        kw['max_length'] = rng.choice([15, 25, 25, 40])
        kw['min_mw'] = rng.choice([300., 500., 500., 800.])
        kw['selenocysteine_termination'] = rng.random() < 0.4
        kw['w2f_reassignment'] = rng.random() < 0.3
    return kw


def cv_worker(job):
    """one generated single-gene input: real callVariant vs Spec.callVariant"""
    seed, tier, opts = job
    rng = random.Random(seed)
    out = {'cases': [], 'violations': [], 'stats': {}}
    case = None
    try:
        case = gen_ref.Case(gen_ref.work_dir('cv'))
        with gen_ref.quiet():
            gen_ref.make_reference(case, seed, 1)
            genome, anno, _ = gen_ref.load_reference(case)
            recs = []
            for tx_id in anno.transcripts:
                n = rng.randint(*opts.get('per_tx', (1, 6)))
                recs += gen_ref.dense_variants(anno, genome, tx_id, rng, n,
                                               max_size=opts.get('max_size', 4),
                                               snv_frac=opts.get('snv_frac', 0.55),
                                               window=opts.get('window', 40))
            gen_ref.write_gvfs(case, recs)
        if not case.gvfs:
            out['stats']['empty'] = 1
            return out
        kw = default_kw(rng, opts.get('vary', True), opts.get('exception'))
        canon = pipe.canonical_pool(case, **kw)
        run = gen_ref.run_call_variant(case, tag='cv', **kw)
        txs = tx_inputs(case, anno, genome)
        desc = {'seed': seed, 'kw': kw, 'n_records': len(recs)}
        if run.status != 'ok':
            out['stats']['crash'] = 1
            out['stats']['crash_' + run.status] = 1
            out['crashes'] = [(run.status, run.error, desc)]
            return out
        idmap: Dict[str, int] = {}
        lines = []
        for tx_id, tx in txs.items():
            ln = spec_line(tx, kw, canon, idmap)
            if not ln:
                out['stats']['unsupported_type'] = 1
                return out
            lines.append((tx_id, ln, tx))
        out['stats']['runs'] = 1
        tx0 = list(txs.values())[0] if txs else None
        if tx0:
            out['stats']['coding' if tx0['coding'] else 'noncoding'] = 1
            if tx0['start_nf']:
                out['stats']['cds_start_nf'] = 1
            if tx0['end_nf']:
                out['stats']['mrna_end_nf'] = 1
            out['stats'][f'nvars_{min(len(tx0["vars"]), 8)}'] = 1
        real = ','.join(sorted(run.fasta.keys()))
        out['stats']['real_peptides'] = len(run.fasta)
        if len(lines) == 1:
            out['cases'].append(('cv', lines[0][1], real,
                                 dict(desc, tx=lines[0][0], orf=lines[0][2]['orf'],
                                      coding=lines[0][2]['coding'],
                                      start_nf=lines[0][2]['start_nf'], end_nf=lines[0][2]['end_nf'],
                                      sec=lines[0][2]['sec'], vars=lines[0][2]['vars'],
                                      headers={s: h for s, h in run.fasta.items()})))
        return out
    except Exception:   # noqa
        out['stats']['worker_error'] = 1
        out['error'] = traceback.format_exc()[-1500:]
        return out
    finally:
        if case is not None:
            case.cleanup()
