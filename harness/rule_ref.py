"""The ExPASy PeptideCutter rules as shipped at the pinned commit (translator/expasy_reference.json,
the file is only touched by the snapshot commit) are the REFERENCE reading of "the chosen enzyme":
the Lean tables are regenerated from the working tree on every run, so an edit that changes a rule
in both tables consistently would otherwise move the definition together with the code.  A table
that differs from the reference is a broken translation obligation; the failing-input search looks
for a string on which the real site finder (current tables) and the reference pattern disagree."""
import itertools
import json
import os
import re

from . import common


def check_rule_tables(ctx: common.Ctx, max_len: int = 5) -> int:
    import sys
    sys.path.insert(0, common.REPO)
    from moPepGen.aa import expasy_rules as er
    from moPepGen.aa.AminoAcidSeqRecord import AminoAcidSeqRecord
    from Bio.Seq import Seq
    ref = json.load(open(os.path.join(common.VERIF, 'translator', 'expasy_reference.json')))
    nbad = 0
    cur = {'EXPASY_RULES': dict(er.EXPASY_RULES), 'EXPASY_RULES2': dict(er.EXPASY_RULES2)}
    for tab in ('EXPASY_RULES', 'EXPASY_RULES2'):
        for name in sorted(set(ref[tab]) | set(cur[tab])):
            a, b = ref[tab].get(name), cur[tab].get(name)
            if a == b:
                continue
            nbad += 1
            if a is None or b is None:
                ctx.add_broken('translation', f'{tab}[{name}]',
                               f'rule {"added to" if a is None else "removed from"} {tab} (reference: {a!r}, now: {b!r})')
                continue
            if tab != 'EXPASY_RULES':
                ctx.add_broken('translation', f'{tab}[{name}]', f'reference {a!r}, now {b!r}')
                continue
            # failing-input search: all strings over the letters either pattern mentions (+ one
            # neutral letter) up to max_len, real site finder vs the reference pattern
            letters = sorted(set(c for c in a + b if c.isalpha() and c.isupper()) | {'A'})[:9]
            found = None
            for n in range(1, max_len + 1):
                for tup in itertools.product(letters, repeat=n):
                    s = ''.join(tup)
                    want = [m.end() for m in re.finditer(a, s) if m.end() < len(s)]
                    if name == 'trypsin_exception':
                        got = [m.end() for m in re.finditer(b, s) if m.end() < len(s)]
                    else:
                        try:
                            got = [x for x in AminoAcidSeqRecord(Seq(s)).find_all_enzymatic_cleave_sites(name, None)]
                        except Exception as e:   # noqa
                            got = [f'raises {type(e).__name__}']
                    if sorted(set(want)) != sorted(set(got)):
                        found = (s, want, got)
                        break
                if found:
                    break
            if found:
                ctx.add_violation(
                    f'the cleavage rule {name!r} no longer is the ExPASy rule of the reference table: on '
                    f'{found[0]!r} the sites are {found[2]}, the reference rule {a!r} gives {found[1]}',
                    {'kind': 'rule-table', 'rule': name, 'reference_pattern': a, 'current_pattern': b,
                     'seq': found[0], 'sites_now': found[2], 'sites_reference': found[1]})
            else:
                ctx.add_broken('translation', f'{tab}[{name}]',
                               f'pattern differs from the reference ({a!r} -> {b!r}); no string up to length '
                               f'{max_len} separates them')
    ctx.coverage['rule_tables_vs_reference'] = {'rules': len(ref['EXPASY_RULES']), 'differing': nbad}
    return nbad
