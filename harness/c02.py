"""C02 — callVariant never reports an unrealizable peptide (soundness), also under binding
complexity limits and timeout-driven retries."""
from . import common, cv_checks
from .cv_checks import KF_EXC, KF_WIDE, KF_NESTED


def judge(ctx, res, stream):
    red_lines, red_meta = [], []
    for r in res:
        if 'line_A' not in r or r.get('no_spec'):
            continue
        SA, SB, real = r['S_A'], r['S_B'], r['real_set']
        ctx.evaluated(stream, str(r['seed']), bool(real),
                      {'seed': r['seed'], 'kw': r['desc']['kw'], 'vars': r['desc']['vars'],
                       'n_reported': len(real)})
        union = SA | SB
        bad = real - union
        exc_extra = (real - SA) - bad
        if bad:
            ctx.add_violation(
                f'{len(bad)} reported peptide(s) are not digestion products of any compatible '
                f'variant combination, e.g. {sorted(bad)[:3]} (headers '
                f'{[r["headers"][p] for p in sorted(bad)[:2]]})',
                cv_checks.replay_of(r, kind='unrealizable', extra=sorted(bad)),
                finding_key=KF_WIDE if cv_checks.wide_lookahead(r['desc']['kw']['cleavage_rule'])
                else (KF_NESTED if cv_checks.has_nested(r) else None))
        elif exc_extra:
            ctx.add_violation(
                f'peptide(s) {sorted(exc_extra)[:3]} cut at a position the cleavage exception forbids: '
                'exception context split across graph nodes',
                cv_checks.replay_of(r, kind='extra-exception', extra=sorted(exc_extra)),
                finding_key=KF_EXC)
        for v in r.get('variations', []):
            ctx.count(stream, v['name'] + '_runs')
            got = set(v['real'])
            if v['name'] in ('limits', 'timeout'):
                if v['status'] != 'ok':
                    if v['name'] == 'timeout' and v['status'] == 'crash:ValueError':
                        pass      # "Failed to finish transcript": checked against the reducer model
                    else:
                        ctx.add_violation(f'run with {v["what"]} crashed: {v["status"]}',
                                          cv_checks.replay_of(r, kind=v['name'], what=v['what']))
                        continue
                inv = got - union - real
                if inv:
                    ctx.add_violation(
                        f'with {v["what"]} callVariant invented peptide(s) {sorted(inv)[:3]} that neither '
                        'the unrestricted run nor the definition has',
                        cv_checks.replay_of(r, kind=v['name'], what=v['what'], invented=sorted(inv)))
                if v['name'] == 'timeout':
                    w = v['what']
                    red_lines.append('\t'.join(['P', 'reducer', ','.join(map(str, w['mv'])),
                                                ','.join(map(str, w['av'])), '1' * w['timeouts'] + '0']))
                    real_p = ('fail' if v['status'] != 'ok' else
                              ','.join(str(x) for x in (v['final_params'][-1] if v['final_params'] else [])))
                    red_meta.append((red_lines[-1], real_p, {'seed': r['seed'], **w}))
    if red_lines:
        ctx.diff_stream('reducer', red_meta, True, lambda o: o, lambda o: True,
                        'limits used after timeout-driven retries differ from the model of caller_reducer')


def run(ctx: common.Ctx):
    ctx.coverage['rule'] = (
        'same generated inputs as C01 (dense SNV/indel clusters, both strands, coding / non-coding, '
        'NF tags, Sec); every reported sequence must be in Spec.callVariant (all compatible subsets, '
        'evaluated by the Lean driver); each case is re-run with binding limits '
        '(max-variants-per-node 1-3, additional-variants-per-misc 0-1) and with 1-3 injected timeouts '
        '(guarded hook) over several limit schedules: those runs may only lose peptides, and the '
        'limits of the completing attempt must equal the Lean model of caller_reducer; fusion and '
        'circRNA inputs (one backbone each) against Spec.callBackbone / Spec.callCirc. '
        'non-trivial = run reporting >= 1 peptide. Layer G checkpoints (see C01) on the graphs of the '
        'trypsin-noexc and lookahead-enzymes streams: no stage graph denotes a sequence outside the '
        'definition')
    from . import rule_ref
    rule_ref.check_rule_tables(ctx)
    base = dict(vary=True, per_tx=(1, 7), max_size=6, window=24, witness=False, as_frac=0.3)
    res = cv_checks.explore(ctx, ctx.n(200, 4000),
                            dict(base, exception=None, variations=['limits', 'timeout'], stages=True))
    s1 = dict(ctx.coverage['worker_stats'])
    judge(ctx, res, 'trypsin-noexc')
    cv_checks.judge_checkpoints(ctx, res, 'extra')
    res = cv_checks.explore(ctx, ctx.n(120, 2000), dict(base, exception='auto', variations=['limits']))
    s2 = dict(ctx.coverage['worker_stats'])
    judge(ctx, res, 'trypsin-exc')
    enz = cv_checks.enzymes_all()      # enzymes without look-ahead no longer crash (fix 434ebbe)
    res = cv_checks.explore(ctx, ctx.n(100, 2000), dict(base, exception=None, enzymes=enz, stages=True))
    judge(ctx, res, 'lookahead-enzymes')
    cv_checks.judge_checkpoints(ctx, res, 'extra')
    s3 = dict(ctx.coverage['worker_stats'])
    res = cv_checks.explore(ctx, ctx.n(240, 5000),
                            dict(base, exception=None, per_tx=(1, 4), special=['sec', 'sec', 'start', 'stop', 'junction'], sec_near_start=0.6, coding_only=True))
    judge(ctx, res, 'special-codons')
    s4 = dict(ctx.coverage['worker_stats'])
    # Sec termination inside the START node: Sec a few codons behind the ATG with no K / R in between, a
    # long in-frame 5'UTR run without K / R / stop in front of the ATG (the start codon lies in the
    # second half of its node), records between the ATG and the Sec, SECT on
    res = cv_checks.explore(ctx, ctx.n(200, 3000),
                            dict(base, exception=None, per_tx=(1, 3), max_size=4, window=16, as_frac=0.0,
                                 special=['sec_prefix', 'sec_prefix', 'start'], sec_near_start=0.9,
                                 start_context=1.0, coding_only=True, variations=[], stages=False,
                                 tvgbuild=False, kw=dict(selenocysteine_termination=True)))
    judge(ctx, res, 'sec-in-start-node')
    res = cv_checks.explore(ctx, ctx.n(60, 1500), dict(base, exception=None, per_tx=(1, 4), as_frac=1.0, nested_frac=1.0, stages=True))
    judge(ctx, res, 'nested-in-splicing')
    cv_checks.judge_checkpoints(ctx, res, 'extra')
    s5 = dict(ctx.coverage['worker_stats'])
    # binding node-collapsing parameters on indel-rich clusters: nothing may appear
    cv_checks.collapse_stream(ctx, ctx.n(240, 3000), 'gained')
    for kind, n in (('fusion', ctx.n(110, 1800)), ('circ', ctx.n(90, 1500)), ('combo', ctx.n(70, 1200))):
        # fusion: + a witness input of the open finding frameshifts-in-both-retained-stretches-of-fusion
        bres = cv_checks.explore_backbone(ctx, kind, n, dict(exception=None),
                                          extra_seeds=(151238392,) if kind == 'fusion' else ())
        for r in bres:
            if 'S' not in r:
                continue
            ctx.evaluated(kind, str(r['seed']), bool(r['real_set']),
                          dict(r['desc'], n_reported=len(r['real_set'])))
            extra = r['real_set'] - r['S']
            if not extra:
                continue
            key = None
            if kind in ('circ', 'combo') and 'S_mixed' in r and not (extra - r['S_mixed']):
                key = cv_checks.KF_CIRC
            known = cv_checks.fusion_both_fs_extra(r, extra) if kind == 'fusion' else set()
            if known:
                ctx.add_violation(
                    f'{len(known)} reported fusion peptide(s) whose entries name a frameshifting record of the LEFT '
                    f'and of the RIGHT retained intronic stretch are not products of the backbone carrying one '
                    f'compatible combination of the records, e.g. {sorted(known)[:3]} (headers '
                    f'{[r["headers"][p] for p in sorted(known)[:2]]})',
                    dict(r['desc'], kind='unrealizable-' + kind, extra=sorted(known)[:20]),
                    finding_key=cv_checks.KF_FUSION_FS)
                extra = extra - known
                if not extra:
                    continue
            d_ = r['desc']
            if key is None and kind in ('fusion', 'combo') and d_.get('breakpoint_tx') is not None and any(
                    s_ + 3 == d_['breakpoint_tx'] for s_ in d_.get('donor_sec', [])):
                # a donor Sec codon that ends exactly at the breakpoint is read as a stop: peptides
                # ending in front of it are reported although the fused transcript reads U there
                key = 'sec-codon-ends-at-fusion-breakpoint'
            ctx.add_violation(
                f'{len(extra)} reported {kind} peptide(s) are not products of the backbone carrying one '
                f'compatible combination of the records, e.g. {sorted(extra)[:3]} (headers '
                f'{[r["headers"][p] for p in sorted(extra)[:2]]})',
                dict(r['desc'], kind='unrealizable-' + kind, extra=sorted(extra)[:20]), finding_key=key)
    ctx.coverage['worker_stats'] = {'trypsin-noexc': s1, 'trypsin-exc': s2,
                                    'lookahead-enzymes': s3, 'special-codons': s4,
                                    'nested-in-splicing': s5}
    ctx.assumptions += [
        'PARTIAL: graph construction is not modelled; soundness of the real output is decided per '
        'input by the Lean definition (proved declarative) — not proved for all inputs',
        'real timeouts (signal.alarm) are replaced by the guarded injection hook at the wrapper entry']
