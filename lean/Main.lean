import MoPepGen.Driver.C10
import MoPepGen.Driver.C15
import MoPepGen.Driver.C16
import MoPepGen.Driver.C14
import MoPepGen.Driver.Pipe
import MoPepGen.Driver.C12
import MoPepGen.Driver.C20
import MoPepGen.Driver.S
import MoPepGen.Driver.C11
import MoPepGen.Driver.C13
import MoPepGen.Driver.C18
import MoPepGen.Driver.C19

/-- one line in (`<stream>\t<op>\t<args…>`), one line out -/
def dispatch (line : String) : String :=
  match line.splitOn "\t" with
  | "C10" :: args => MoPepGen.Driver.C10.handle args
  | "P" :: args => MoPepGen.Driver.Pipe.handle args
  | "C12" :: args => MoPepGen.Driver.C12.handle args
  | "C20" :: args => MoPepGen.Driver.C20.handle args
  | "S" :: args => MoPepGen.Driver.S.handle args
  | "C11" :: args => MoPepGen.Driver.C11.handle args
  | "C13" :: args => MoPepGen.Driver.C13.handle args
  | "C18" :: args => MoPepGen.Driver.C18.handle args
  | "C19" :: args => MoPepGen.Driver.C19.handle args
  | "C14" :: args => MoPepGen.Driver.C14.handle args
  | "C16" :: args => MoPepGen.Driver.C16.handle args
  | "C15" :: args => MoPepGen.Driver.C15.handle args
  | _ => "bad-stream"

partial def loop (h : IO.FS.Stream) (out : IO.FS.Stream) : IO Unit := do
  let line ← h.getLine
  if line.isEmpty then return ()
  let l := (line.dropEndWhile (· == (Char.ofNat 10))).toString
  out.putStrLn (dispatch l)
  loop h out

def main : IO Unit := do
  let out ← IO.getStdout
  loop (← IO.getStdin) out
  out.flush
