import MoPepGen.Driver.C10
import MoPepGen.Driver.C17
import MoPepGen.Driver.C15
import MoPepGen.Driver.C16
import MoPepGen.Driver.C14
import MoPepGen.Driver.Pipe
import MoPepGen.Driver.C12
import MoPepGen.Driver.C20
import MoPepGen.Driver.S
import MoPepGen.Driver.C11
import MoPepGen.Driver.C13
import MoPepGen.Driver.C18
import MoPepGen.Driver.C19
import MoPepGen.Driver.G

/-- driver state: only the `S` stream keeps one (the stored case of its `set` op) -/
abbrev St := Option MoPepGen.Driver.S.SCase

/-- one line in (`<stream>\t<op>\t<args…>`), one line out -/
def dispatch (st : St) (line : String) : St × String :=
  match line.splitOn "\t" with
  | "S" :: args => MoPepGen.Driver.S.handle st args
  | "C10" :: args => (st, MoPepGen.Driver.C10.handle args)
  | "P" :: args => (st, MoPepGen.Driver.Pipe.handle args)
  | "C12" :: args => (st, MoPepGen.Driver.C12.handle args)
  | "C20" :: args => (st, MoPepGen.Driver.C20.handle args)
  | "C11" :: args => (st, MoPepGen.Driver.C11.handle args)
  | "C13" :: args => (st, MoPepGen.Driver.C13.handle args)
  | "C18" :: args => (st, MoPepGen.Driver.C18.handle args)
  | "C19" :: args => (st, MoPepGen.Driver.C19.handle args)
  | "C14" :: args => (st, MoPepGen.Driver.C14.handle args)
  | "C16" :: args => (st, MoPepGen.Driver.C16.handle args)
  | "C15" :: args => (st, MoPepGen.Driver.C15.handle args)
  | "C17" :: args => (st, MoPepGen.Driver.C17.handle args)
  | "G" :: args => (st, MoPepGen.Driver.G.handle args)
  | _ => (st, "bad-stream")

partial def loop (h : IO.FS.Stream) (out : IO.FS.Stream) (st : St) : IO Unit := do
  let line ← h.getLine
  if line.isEmpty then return ()
  let l := (line.dropEndWhile (· == (Char.ofNat 10))).toString
  let (st', o) := dispatch st l
  out.putStrLn o
  loop h out st'

def main : IO Unit := do
  let out ← IO.getStdout
  loop (← IO.getStdin) out none
  out.flush
