import MoPepGen.Model.Gvf
import MoPepGen.Generated.Constants
import MoPepGen.Driver.Util
/-!
Line protocol of property C13.  Arguments are tab separated; inside an argument
`\\`, tab, newline, CR are escaped as `\\\\`, `\\t`, `\\n`, `\\r`; the unit separator
U+001F separates the items of a list inside one argument.
-/
namespace MoPepGen.Driver.C13
open MoPepGen MoPepGen.Gvf MoPepGen.Driver

def genC : Consts := ⟨Generated.attrsPosition, Generated.singleNucleotideSubstitution⟩

def unesc : List Char → List Char
  | '\\' :: 't' :: r => '\t' :: unesc r
  | '\\' :: 'n' :: r => '\n' :: unesc r
  | '\\' :: 'r' :: r => '\r' :: unesc r
  | '\\' :: '\\' :: r => '\\' :: unesc r
  | c :: r => c :: unesc r
  | [] => []

def esc : List Char → List Char
  | '\t' :: r => '\\' :: 't' :: esc r
  | '\n' :: r => '\\' :: 'n' :: esc r
  | '\r' :: r => '\\' :: 'r' :: esc r
  | '\\' :: r => '\\' :: '\\' :: esc r
  | c :: r => c :: esc r
  | [] => []

def arg (s : String) : Str := unesc s.toList
def out (s : Str) : String := String.ofList (esc s)
def us : Char := Char.ofNat 31

def errS (e : Err) : String := "crash:" ++ e.name

def attrValOf (s : Str) : AttrVal :=
  match s with
  | 'l' :: r => .list ((Gvf.splitOn us r).drop 1)
  | _ :: r => .str r
  | [] => .str []

def pairs : List Str → List (Str × AttrVal)
  | k :: v :: r => (k, attrValOf v) :: pairs r
  | _ => []

def recOf (a : List String) : Option VarRec :=
  match a with
  | sn :: st :: en :: rf :: al :: ty :: ident :: rest =>
    match st.toInt?, en.toInt? with
    | some s, some e =>
      some (VarRec.mk (arg sn) s e (arg rf) (arg al) (arg ty) (arg ident) (pairs (rest.map arg)))
    | _, _ => none
  | _ => none

def valS : AttrVal → Str
  | .str s => 's' :: s
  | .list xs => 'l' :: (xs.map (us :: ·)).flatten

def dumpRec (r : VarRec) : String :=
  out (Gvf.joinWith us ([r.seqname, intToStr r.start, intToStr r.stop, r.ref, r.alt, r.type, r.id]
    ++ r.attrs.flatMap fun kv => [kv.1, valS kv.2]))

def intsOf (s : String) : Option (List Int) :=
  if s.isEmpty then some [] else (s.splitOn ",").mapM (·.toInt?)

def circOf (a : List String) : Option Circ :=
  match a with
  | [g, frs, intr, id, tx, sym, gp] =>
    match intsOf frs, intsOf intr with
    | some fl, some il =>
      let rec pr : List Int → List (Int × Int)
        | a :: b :: r => (a, b) :: pr r
        | _ => []
      some { geneId := arg g, fragments := pr fl, intron := il, id := arg id, txId := arg tx,
             geneName := arg sym, genomicPosition := arg gp }
    | _, _ => none
  | _ => none

def dumpCirc (c : Circ) : String :=
  out (Gvf.joinWith us [c.geneId,
    Gvf.joinWith ',' (c.fragments.flatMap fun f => [intToStr f.1, intToStr f.2]),
    Gvf.joinWith ',' (c.intron.map intToStr), c.id, c.txId, c.geneName, c.genomicPosition])

def varKey (l : Str) : Except Err Str := Gvf.varKey genC l

def circKey (l : Str) : Except Err Str := Gvf.circKey Generated.circReaderKey l

def varRoundtrip (l : Str) : Except Err Str :=
  match parseLine genC l with
  | .ok r => toLine genC r
  | .error e => .error e

def circRoundtrip (l : Str) : Except Err Str :=
  match circParseLine Generated.circReaderKey l with
  | .ok r => circToLine Generated.circWriterKey r
  | .error e => .error e

def ptrsS (ps : List Ptr) : String :=
  out (Gvf.joinWith us (ps.flatMap fun p => [p.key, natToStr p.start, natToStr p.stop]))

def exS (r : Except Err String) : String :=
  match r with
  | .ok s => "ok:" ++ s
  | .error e => errS e

/-- files: (content, sha, idx | "-") triples -/
def filesOf : List String → List (Str × Str × Option Str)
  | c :: h :: i :: r => (arg c, arg h, if i == "-" then none else some (arg i)) :: filesOf r
  | _ => []

def openAll (keyOf : Str → Except Err Str) : List (Str × Str × Option Str) → Except OpenErr Pool
  | [] => .ok []
  | (gvf, h, idx) :: fs =>
    match openFile (fun _ => h) keyOf gvf idx with
    | .error e => .error e
    | .ok ps => match openAll keyOf fs with
      | .ok pool => .ok ((gvf, ps) :: pool)
      | .error e => .error e

def handle (args : List String) : String :=
  match args with
  | "toline" :: a =>
    match recOf a with
    | none => "bad-args"
    | some r =>
      -- `VariantRecord(...)` then `.to_string()`
      if ctorOk r then exS ((toLine genC r).map out) else errS .value
  | ["parse", l] => exS ((parseLine genC (arg l)).map dumpRec)
  | ["roundtrip", l] => exS ((varRoundtrip (arg l)).map out)
  | ["txid", l] => exS ((varKey (arg l)).map out)
  | "circline" :: a =>
    match circOf a with
    | none => "bad-args"
    | some c => exS ((circToLine Generated.circWriterKey c).map out)
  | ["circparse", l] => exS ((circParseLine Generated.circReaderKey (arg l)).map dumpCirc)
  | ["circroundtrip", l] => exS ((circRoundtrip (arg l)).map out)
  | ["index", circ, content] =>
    exS ((iteratePointer (if circ == "1" then circKey else varKey) (arg content)).map ptrsS)
  | ["idxtext", circ, sum, content] =>
    exS ((indexGvf (fun _ => arg sum) (if circ == "1" then circKey else varKey)
      (arg content)).map out)
  | ["idxparse", idx] => exS ((parseIdx (arg idx)).map ptrsS)
  | ["validate", sum, idx] =>
    match validate (fun _ => arg sum) [] (arg idx) with
    | .ok () => "ok"
    | .error .missingChecksum => "reject:missing-checksum"
    | .error .mismatch => "reject:checksum-mismatch"
  | "pool" :: circ :: k :: files =>
    let isCirc := circ == "1"
    let keyOf := if isCirc then circKey else varKey
    match openAll keyOf (filesOf files) with
    | .error (.reject .missingChecksum) => "reject:missing-checksum"
    | .error (.reject .mismatch) => "reject:checksum-mismatch"
    | .error (.py e) => errS e
    | .ok pool =>
      if !pool.contains (arg k) then "crash:KeyError"
      else exS ((Pool.records (if isCirc then circRoundtrip else varRoundtrip) pool (arg k)).map
        fun ls => out (Gvf.joinWith us ls))
  | "scan" :: circ :: k :: files =>
    let isCirc := circ == "1"
    exS ((scanRecords (if isCirc then circRoundtrip else varRoundtrip)
      (if isCirc then circKey else varKey) (files.map arg) (arg k)).map
        fun ls => out (Gvf.joinWith us ls))
  | ["space", lo, hi] =>
    natList (((List.range (hi.toNat! - lo.toNat!)).map (· + lo.toNat!)).filter fun n =>
      isPySpace (Char.ofNat n))
  | ["int", s] =>
    match parseInt (arg s) with
    | .ok z => "ok:" ++ String.ofList (intToStr z)
    | .error e => errS e
  | _ => "bad-op"

end MoPepGen.Driver.C13
