import MoPepGen.Spec.CallVariant
import MoPepGen.Generated.Expasy
import MoPepGen.Generated.Weights
import MoPepGen.Driver.Util
namespace MoPepGen.Driver.S
open MoPepGen MoPepGen.Spec MoPepGen.Driver

def parseVar (s : String) : Option Var :=
  match s.splitOn ":" with
  | [a, b, r, al, c, i] =>
    some { start := a.toNat!, stop := b.toNat!, ref := r.toList, alt := al.toList,
           cls := if c == "S" then .snv else if c == "I" then .indel else .other,
           ids := (i.splitOn "+").map String.toNat!, touch := if c == "D" then a.toNat! + 1 else a.toNat! }
  | _ => none

def mkCfg (rule exc misc minMw minLen maxLen sect w2f canon : String) : Option Cfg := do
  let r ← Generated.expasyRules.lookup rule
  let e ← if exc == "-" then some none else (Generated.expasyRules.lookup exc).map some
  pure {
    cleave := {
      rule := r, exc := e, misc := misc.toNat!, minMw := minMw.toInt!,
      minLen := minLen.toNat!, maxLen := maxLen.toNat!,
      tab := Generated.proteinWeights, water := Generated.waterWeight }
    sect := parseBool sect, w2f := parseBool w2f,
    canonical := (splitList canon ',').map String.toList }

def mkTx (seq coding orfStart orfEnd startNF endNF sec : String) : TxIn :=
  { seq := seq.toList, coding := parseBool coding, orfStart := orfStart.toNat!,
    orfEnd := orfEnd.toNat!, startNF := parseBool startNF, endNF := parseBool endNF,
    sec := (splitList sec ',').map String.toNat! }

def pepsOut (ps : List Pep) : String := joinWith "," (sortDedupStr (ps.map String.ofList))

/-- a stored case (`set` op) for the many `w` (witness) queries of one real run -/
structure SCase where
  g : Cfg
  t : TxIn
  vs : List Var

def handle (st : Option SCase) (args : List String) : Option SCase × String :=
  match args with
  | ["cv", seq, coding, orfStart, orfEnd, startNF, endNF, sec, vars,
      rule, exc, misc, minMw, minLen, maxLen, sect, w2f, canon] =>
    match mkCfg rule exc misc minMw minLen maxLen sect w2f canon with
    | none => (st, "bad-rule")
    | some g =>
      let t := mkTx seq coding orfStart orfEnd startNF endNF sec
      let vs := (splitList vars ';').filterMap parseVar
      (st, pepsOut (callVariant g t vs))
  | ["cvb", seq, coding, orfStart, orfEnd, startNF, endNF, sec, orfLimit, isFusion, vars,
      rule, exc, misc, minMw, minLen, maxLen, sect, w2f, deny, canon] =>
    match mkCfg rule exc misc minMw minLen maxLen sect w2f canon with
    | none => (st, "bad-rule")
    | some g =>
      let t0 := mkTx seq coding orfStart orfEnd startNF endNF sec
      let t := { t0 with orfLimit := if orfLimit == "-" then none else some orfLimit.toNat!,
                         isFusion := parseBool isFusion }
      let vs := (splitList vars ';').filterMap parseVar
      (st, pepsOut (callBackbone g t vs ((splitList deny ',').map String.toList)))
  | ["cvc", seq, vars, rule, exc, misc, minMw, minLen, maxLen, w2f, deny, canon] =>
    match mkCfg rule exc misc minMw minLen maxLen "0" w2f canon with
    | none => (st, "bad-rule")
    | some g =>
      let vs := (splitList vars ';').filterMap parseVar
      (st, pepsOut (callCirc g seq.toList vs ((splitList deny ',').map String.toList)))
  | ["cvcm", seq, vars, rule, exc, misc, minMw, minLen, maxLen, w2f, deny, canon] =>
    match mkCfg rule exc misc minMw minLen maxLen "0" w2f canon with
    | none => (st, "bad-rule")
    | some g =>
      let vs := (splitList vars ';').filterMap parseVar
      (st, pepsOut (callCircMixed g seq.toList vs ((splitList deny ',').map String.toList)))
  | ["cvcmi", seq, vars, rule, exc, misc, minMw, minLen, maxLen, w2f, deny, canon] =>
    match mkCfg rule exc misc minMw minLen maxLen "0" w2f canon with
    | none => (st, "bad-rule")
    | some g =>
      let vs := (splitList vars ';').filterMap parseVar
      (st, pepsOut (callCircMixedInFrame g seq.toList vs ((splitList deny ',').map String.toList)))
  | ["ref", seq, coding, orfStart, orfEnd, startNF, endNF, sec,
      rule, exc, misc, minMw, minLen, maxLen, sect, w2f] =>
    match mkCfg rule exc misc minMw minLen maxLen sect w2f "" with
    | none => (st, "bad-rule")
    | some g => (st, pepsOut (referencePeptides g (mkTx seq coding orfStart orfEnd startNF endNF sec)))
  | ["set", seq, coding, orfStart, orfEnd, startNF, endNF, sec, vars,
      rule, exc, misc, minMw, minLen, maxLen] =>
    match mkCfg rule exc misc minMw minLen maxLen "0" "0" "" with
    | none => (st, "bad-rule")
    | some g =>
      (some ⟨g, mkTx seq coding orfStart orfEnd startNF endNF sec,
             (splitList vars ';').filterMap parseVar⟩, "ok")
  | ["w", sect, w2f, ids, pep] =>
    match st with
    | none => (st, "no-case")
    | some c =>
      let g := { c.g with sect := parseBool sect, w2f := parseBool w2f }
      (st, if witness g c.t c.vs ((splitList ids ',').map String.toNat!) pep.toList
           then "yes" else "no")
  | ["wsup", sect, w2f, ids, pep] =>
    match st with
    | none => (st, "no-case")
    | some c =>
      let g := { c.g with sect := parseBool sect, w2f := parseBool w2f }
      (st, match witnessCompletion g c.t c.vs ((splitList ids ',').map String.toNat!) pep.toList with
           | none => "none"
           | some e => "extra:" ++ natList e)
  | ["winside", ids, extra, pep] =>
    match st with
    | none => (st, "no-case")
    | some c =>
      let i := (splitList ids ',').map String.toNat!
      let e := (splitList extra ',').map String.toNat!
      (st, if omittedInside c.t c.vs i e pep.toList then "inside"
           else if omittedAdjacent c.t c.vs i e pep.toList then "adjacent" else "outside")
  | ["novelorf", seq, rule, exc, misc, minMw, minLen, maxLen, w2f, canon] =>
    match mkCfg rule exc misc minMw minLen maxLen "0" w2f canon with
    | none => (st, "bad-rule")
    | some g => (st, pepsOut (novelOrfPeptides g seq.toList))
  | ["alttrans", seq, orfStart, orfEnd, startNF, endNF, sec,
      rule, exc, misc, minMw, minLen, maxLen, sect, w2f, canon] =>
    match mkCfg rule exc misc minMw minLen maxLen sect w2f canon with
    | none => (st, "bad-rule")
    | some g =>
      (st, pepsOut (altTranslationPeptides g (mkTx seq "1" orfStart orfEnd startNF endNF sec)))
  | ["translate", seq] => (st, String.ofList (translate seq.toList))
  | _ => (st, "bad-op")

end MoPepGen.Driver.S
