import MoPepGen.Spec.CallVariant
import MoPepGen.Generated.Expasy
import MoPepGen.Generated.Weights
import MoPepGen.Driver.Util
namespace MoPepGen.Driver.S
open MoPepGen MoPepGen.Spec MoPepGen.Driver

def parseVar (s : String) : Option Var :=
  match s.splitOn ":" with
  | [a, b, r, al, c, i] =>
    some { start := a.toNat!, stop := b.toNat!, ref := r.toList, alt := al.toList,
           cls := if c == "S" then .snv else if c == "I" then .indel else .other,
           ids := (i.splitOn "+").map String.toNat!, touch := if c == "D" then a.toNat! + 1 else a.toNat! }
  | _ => none

def mkCfg (rule exc misc minMw minLen maxLen sect w2f canon : String) : Option Cfg := do
  let r ← Generated.expasyRules.lookup rule
  let e ← if exc == "-" then some none else (Generated.expasyRules.lookup exc).map some
  pure {
    cleave := {
      rule := r, exc := e, misc := misc.toNat!, minMw := minMw.toInt!,
      minLen := minLen.toNat!, maxLen := maxLen.toNat!,
      tab := Generated.proteinWeights, water := Generated.waterWeight }
    sect := parseBool sect, w2f := parseBool w2f,
    canonical := (splitList canon ',').map String.toList }

def mkTx (seq coding orfStart orfEnd startNF endNF sec : String) : TxIn :=
  { seq := seq.toList, coding := parseBool coding, orfStart := orfStart.toNat!,
    orfEnd := orfEnd.toNat!, startNF := parseBool startNF, endNF := parseBool endNF,
    sec := (splitList sec ',').map String.toNat! }

def pepsOut (ps : List Pep) : String := joinWith "," (sortDedupStr (ps.map String.ofList))

/-! ### `hap` / `haptx`: the two enumerators of compatible combinations, side by side

The compiled `haplotypes` IS `haplotypesFast` (`@[csimp] Spec.haplotypes_eq_fast`).  These ops
evaluate the definition BY HAND — the body of `Spec.haplotypes` spelled out on the pool, so no
`csimp` equation applies to it — next to the pruned enumerator called by name and next to the
constant `haplotypes` as the compiler translates it here, and report any difference. -/

/-- the body of `Spec.haplotypes` on an explicit pool (kernel-checked below: it is the definition) -/
def hapBySublists (pool : List Var) : List (List Var) :=
  ((sublists pool).map sortByStart).filter fun h => !h.isEmpty && separated h

theorem hapBySublists_is_definition (t : TxIn) (vs : List Var) :
    hapBySublists (recordPool t vs) = haplotypes t vs := rfl

/-- the pruned enumerator on an explicit pool (`haplotypesFast` = this on `recordPool`) -/
def hapPruned (pool : List Var) : List (List Var) :=
  ((prunedSublists pool).filter fun s => !s.isEmpty).map sortByStart

theorem hapPruned_is_fast (t : TxIn) (vs : List Var) :
    hapPruned (recordPool t vs) = haplotypesFast t vs := rfl

def renderVar (v : Var) : String := s!"{v.start}-{v.stop}-" ++ joinWith "+" (v.ids.map toString)
def renderHap (h : List Var) : String := joinWith "," (h.map renderVar)
def renderHaps (hs : List (List Var)) : String := s!"{hs.length}|" ++ joinWith ";" (hs.map renderHap)

/-- `ok <n>|<combinations in order>` when the three statements proved in `Spec/CallVariant.lean` also
hold for the compiled code on this pool, else which one fails -/
def hapCompare (pool : List Var) (viaConst : Option (List (List Var))) : String :=
  let slow := hapBySublists pool
  let fast := hapPruned pool
  let subs := sublists pool
  if !(subs.all fun s => separated (sortByStart s) == pairwiseOk s) then
    "DIFF(a) separated∘sort vs pairwiseOk"
  else if subs.filter pairwiseOk != prunedSublists pool then
    "DIFF(b) filter vs pruned: " ++ renderHaps (subs.filter pairwiseOk) ++ " / " ++
      renderHaps (prunedSublists pool)
  else if slow != fast then "DIFF(c) slow=" ++ renderHaps slow ++ " fast=" ++ renderHaps fast
  else match viaConst with
    | some c => if c != slow then "DIFF(csimp) const=" ++ renderHaps c ++ " slow=" ++ renderHaps slow
                else "ok " ++ renderHaps fast
    | none => "ok " ++ renderHaps fast

/-- a stored case (`set` op) for the many `w` (witness) queries of one real run -/
structure SCase where
  g : Cfg
  t : TxIn
  vs : List Var

def handle (st : Option SCase) (args : List String) : Option SCase × String :=
  match args with
  | ["cv", seq, coding, orfStart, orfEnd, startNF, endNF, sec, vars,
      rule, exc, misc, minMw, minLen, maxLen, sect, w2f, canon] =>
    match mkCfg rule exc misc minMw minLen maxLen sect w2f canon with
    | none => (st, "bad-rule")
    | some g =>
      let t := mkTx seq coding orfStart orfEnd startNF endNF sec
      let vs := (splitList vars ';').filterMap parseVar
      (st, pepsOut (callVariant g t vs))
  | ["cvb", seq, coding, orfStart, orfEnd, startNF, endNF, sec, orfLimit, isFusion, vars,
      rule, exc, misc, minMw, minLen, maxLen, sect, w2f, deny, canon] =>
    match mkCfg rule exc misc minMw minLen maxLen sect w2f canon with
    | none => (st, "bad-rule")
    | some g =>
      let t0 := mkTx seq coding orfStart orfEnd startNF endNF sec
      let t := { t0 with orfLimit := if orfLimit == "-" then none else some orfLimit.toNat!,
                         isFusion := parseBool isFusion }
      let vs := (splitList vars ';').filterMap parseVar
      (st, pepsOut (callBackbone g t vs ((splitList deny ',').map String.toList)))
  | ["cvc", seq, vars, rule, exc, misc, minMw, minLen, maxLen, w2f, deny, canon] =>
    match mkCfg rule exc misc minMw minLen maxLen "0" w2f canon with
    | none => (st, "bad-rule")
    | some g =>
      let vs := (splitList vars ';').filterMap parseVar
      (st, pepsOut (callCirc g seq.toList vs ((splitList deny ',').map String.toList)))
  | ["cvcm", seq, vars, rule, exc, misc, minMw, minLen, maxLen, w2f, deny, canon] =>
    match mkCfg rule exc misc minMw minLen maxLen "0" w2f canon with
    | none => (st, "bad-rule")
    | some g =>
      let vs := (splitList vars ';').filterMap parseVar
      (st, pepsOut (callCircMixed g seq.toList vs ((splitList deny ',').map String.toList)))
  | ["cvcmi", seq, vars, rule, exc, misc, minMw, minLen, maxLen, w2f, deny, canon] =>
    match mkCfg rule exc misc minMw minLen maxLen "0" w2f canon with
    | none => (st, "bad-rule")
    | some g =>
      let vs := (splitList vars ';').filterMap parseVar
      (st, pepsOut (callCircMixedInFrame g seq.toList vs ((splitList deny ',').map String.toList)))
  | ["ref", seq, coding, orfStart, orfEnd, startNF, endNF, sec,
      rule, exc, misc, minMw, minLen, maxLen, sect, w2f] =>
    match mkCfg rule exc misc minMw minLen maxLen sect w2f "" with
    | none => (st, "bad-rule")
    | some g => (st, pepsOut (referencePeptides g (mkTx seq coding orfStart orfEnd startNF endNF sec)))
  | ["set", seq, coding, orfStart, orfEnd, startNF, endNF, sec, vars,
      rule, exc, misc, minMw, minLen, maxLen] =>
    match mkCfg rule exc misc minMw minLen maxLen "0" "0" "" with
    | none => (st, "bad-rule")
    | some g =>
      (some ⟨g, mkTx seq coding orfStart orfEnd startNF endNF sec,
             (splitList vars ';').filterMap parseVar⟩, "ok")
  | ["w", sect, w2f, ids, pep] =>
    match st with
    | none => (st, "no-case")
    | some c =>
      let g := { c.g with sect := parseBool sect, w2f := parseBool w2f }
      (st, if witness g c.t c.vs ((splitList ids ',').map String.toNat!) pep.toList
           then "yes" else "no")
  | ["wsup", sect, w2f, ids, pep] =>
    match st with
    | none => (st, "no-case")
    | some c =>
      let g := { c.g with sect := parseBool sect, w2f := parseBool w2f }
      (st, match witnessCompletion g c.t c.vs ((splitList ids ',').map String.toNat!) pep.toList with
           | none => "none"
           | some e => "extra:" ++ natList e)
  | ["winside", ids, extra, pep] =>
    match st with
    | none => (st, "no-case")
    | some c =>
      let i := (splitList ids ',').map String.toNat!
      let e := (splitList extra ',').map String.toNat!
      (st, if omittedInside c.t c.vs i e pep.toList then "inside"
           else if omittedAdjacent c.t c.vs i e pep.toList then "adjacent" else "outside")
  | ["wc", seq, vars, rule, exc, misc, minMw, minLen, maxLen, w2f, ids, pep] =>
    match mkCfg rule exc misc minMw minLen maxLen "0" w2f "" with
    | none => (st, "bad-rule")
    | some g =>
      let vs := (splitList vars ';').filterMap parseVar
      let i := (splitList ids ',').map String.toNat!
      (st, if witnessCirc g seq.toList vs i pep.toList then "yes"
           else match witnessCircCompletion g seq.toList vs i pep.toList with
             | none => "no:none"
             | some e => "no:extra:" ++ natList e)
  | ["novelorf", seq, rule, exc, misc, minMw, minLen, maxLen, w2f, canon] =>
    match mkCfg rule exc misc minMw minLen maxLen "0" w2f canon with
    | none => (st, "bad-rule")
    | some g => (st, pepsOut (novelOrfPeptides g seq.toList))
  | ["alttrans", seq, orfStart, orfEnd, startNF, endNF, sec,
      rule, exc, misc, minMw, minLen, maxLen, sect, w2f, canon] =>
    match mkCfg rule exc misc minMw minLen maxLen sect w2f canon with
    | none => (st, "bad-rule")
    | some g =>
      (st, pepsOut (altTranslationPeptides g (mkTx seq "1" orfStart orfEnd startNF endNF sec)))
  | ["hap", vars] =>
    (st, hapCompare ((splitList vars ';').filterMap parseVar) none)
  | ["haptx", seq, coding, orfStart, orfEnd, startNF, endNF, sec, vars] =>
    let t := mkTx seq coding orfStart orfEnd startNF endNF sec
    let vs := (splitList vars ';').filterMap parseVar
    (st, "pool " ++ renderHap (recordPool t vs) ++ " " ++
      hapCompare (recordPool t vs) (some (haplotypes t vs)))
  | ["translate", seq] => (st, String.ofList (translate seq.toList))
  | _ => (st, "bad-op")

end MoPepGen.Driver.S
