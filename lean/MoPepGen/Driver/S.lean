import MoPepGen.Spec.CallVariant
import MoPepGen.Generated.Expasy
import MoPepGen.Generated.Weights
import MoPepGen.Driver.Util
namespace MoPepGen.Driver.S
open MoPepGen MoPepGen.Spec MoPepGen.Driver

def parseVar (s : String) : Option Var :=
  match s.splitOn ":" with
  | [a, b, r, al, c, i] =>
    some { start := a.toNat!, stop := b.toNat!, ref := r.toList, alt := al.toList,
           cls := if c == "S" then .snv else if c == "I" then .indel else .other,
           ids := [i.toNat!] }
  | _ => none

def mkCfg (rule exc misc minMw minLen maxLen sect w2f canon : String) : Option Cfg := do
  let r ← Generated.expasyRules.lookup rule
  let e ← if exc == "-" then some none else (Generated.expasyRules.lookup exc).map some
  pure {
    cleave := {
      rule := r, exc := e, misc := misc.toNat!, minMw := minMw.toInt!,
      minLen := minLen.toNat!, maxLen := maxLen.toNat!,
      tab := Generated.proteinWeights, water := Generated.waterWeight }
    sect := parseBool sect, w2f := parseBool w2f,
    canonical := (splitList canon ',').map String.toList }

def mkTx (seq coding orfStart orfEnd startNF endNF sec : String) : TxIn :=
  { seq := seq.toList, coding := parseBool coding, orfStart := orfStart.toNat!,
    orfEnd := orfEnd.toNat!, startNF := parseBool startNF, endNF := parseBool endNF,
    sec := (splitList sec ',').map String.toNat! }

def pepsOut (ps : List Pep) : String := joinWith "," (sortDedupStr (ps.map String.ofList))

def handle (args : List String) : String :=
  match args with
  | ["cv", seq, coding, orfStart, orfEnd, startNF, endNF, sec, vars,
      rule, exc, misc, minMw, minLen, maxLen, sect, w2f, canon] =>
    match mkCfg rule exc misc minMw minLen maxLen sect w2f canon with
    | none => "bad-rule"
    | some g =>
      let t := mkTx seq coding orfStart orfEnd startNF endNF sec
      let vs := (splitList vars ';').filterMap parseVar
      pepsOut (callVariant g t vs)
  | ["ref", seq, coding, orfStart, orfEnd, startNF, endNF, sec,
      rule, exc, misc, minMw, minLen, maxLen, sect, w2f] =>
    match mkCfg rule exc misc minMw minLen maxLen sect w2f "" with
    | none => "bad-rule"
    | some g => pepsOut (referencePeptides g (mkTx seq coding orfStart orfEnd startNF endNF sec))
  | ["witness", seq, coding, orfStart, orfEnd, startNF, endNF, sec, vars,
      rule, exc, misc, minMw, minLen, maxLen, sect, w2f, ids, pep] =>
    match mkCfg rule exc misc minMw minLen maxLen sect w2f "" with
    | none => "bad-rule"
    | some g =>
      let t := mkTx seq coding orfStart orfEnd startNF endNF sec
      let vs := (splitList vars ';').filterMap parseVar
      if witness g t vs ((splitList ids ',').map String.toNat!) pep.toList then "yes" else "no"
  | ["translate", seq] => String.ofList (translate seq.toList)
  | _ => "bad-op"

end MoPepGen.Driver.S
