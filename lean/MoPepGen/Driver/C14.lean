import MoPepGen.Model.Vep
import MoPepGen.Driver.Util
import MoPepGen.Driver.C11
namespace MoPepGen.Driver.C14
open MoPepGen MoPepGen.Driver
open MoPepGen.Driver.C11 (parseStrand parseIv parseIvs)

def typeStr : VType → String
  | .snv => "SNV" | .indel => "INDEL" | .mnv => "MNV"

def vepOut : Except VepErr GvfRec → String
  | .ok r => s!"ok:{r.start},{r.stop},{String.ofList r.ref},{String.ofList r.alt},{typeStr r.type}"
  | .error .outOfGene => "reject:out-of-gene"
  | .error .startSite => "reject:start-site"
  | .error .stopSite => "reject:stop-site"
  | .error .unanchorable => "reject:unanchorable"
  | .error .refLen => "reject:ref-length"
  | .error .indexError => "crash:IndexError"
  | .error (.negAnchor ref alt) =>
    s!"ok:-1,0,{String.ofList ref},{String.ofList alt},{typeStr (vepType ref alt)}"

def parseAllele (s : String) : Option (List Char) := if s == "-" then none else some s.toList

/-- "strand|gs-ge|exons" -/
def parseListed (s : String) : Option (Gene × Transcript) :=
  match s.splitOn "|" with
  | [st, iv, ex] => do
    let s ← parseStrand st
    pure (⟨s, ← parseIv iv⟩, ⟨s, ← parseIvs ex⟩)
  | _ => none

def parseSub (s : String) : Option (Char × Char) :=
  match s.toList with
  | [a, b] => some (a, b)
  | _ => none

def parseFrac (s : String) : Option (Nat × Nat) :=
  match s.splitOn "/" with
  | [a, b] => do pure (← a.toNat?, ← b.toNat?)
  | _ => none

def rediErr : RediErr → String
  | .keyError => "crash:KeyError"
  | .zeroDivision => "crash:ZeroDivisionError"
  | .outOfGene => "reject:out-of-gene"

def subsStr (l : List (Char × Char)) : String :=
  joinWith "," (l.map fun (a, b) => String.ofList [a, b])

def recsStr (l : List RediRec) : String :=
  joinWith "," (l.map fun r => s!"{r.tx}:{r.pos}:{r.ref}:{r.alt}")

def parseSite (pos bc subs gcov : String) : Option RediSite := do
  let p ← pos.toNat?
  let counts ← (splitList bc ',').mapM String.toNat?
  let sb ← (splitList subs ',').mapM parseSub
  let gc : Option Int := gcov.toInt?
  match counts with
  | [a, c, g, t] => pure ⟨p, a, c, g, t, sb, gc⟩
  | _ => none

def parseParams (minAlt frac minRna minDna : String) : Option RediParams := do
  let (n, d) ← parseFrac frac
  pure ⟨← minAlt.toInt?, n, d, ← minRna.toInt?, ← minDna.toInt?⟩

def handle (args : List String) : String :=
  match args with
  | ["redivalid", pos, bc, subs, gcov, minAlt, frac, minRna, minDna] =>
    match parseSite pos bc subs gcov, parseParams minAlt frac minRna minDna with
    | some site, some p =>
      match rediValidSubs p site with
      | .ok l => "ok:" ++ subsStr l
      | .error e => rediErr e
    | _, _ => "bad-args"
  | [op, st, iv, ex, nf, chrom, s, e, al] =>
    match parseStrand st, parseIv iv, parseIvs ex, s.toNat?, e.toNat? with
    | some sd, some l, some es, some s, some e =>
      let g : Gene := ⟨sd, l⟩
      let t : Transcript := ⟨sd, es⟩
      let row : VepRow := ⟨s, e, parseAllele al⟩
      let c := chrom.toList
      if op == "vep" then vepOut (vepConvert g t (parseBool nf) (geneSeq c g) row)
      else if op == "vepspec" then
        String.ofList (geneSeq (applyEvent c (rowEvent row)) (geneAfter g (rowEvent row)))
      else "bad-op"
    | _, _, _, _, _ => "bad-args"
  | [op, pos, bc, subs, gcov, minAlt, frac, minRna, minDna, listed] =>
    match parseSite pos bc subs gcov, parseParams minAlt frac minRna minDna,
        (splitList listed ';').mapM parseListed with
    | some site, some p, some ls =>
      let r := if op == "redi" then some (rediConvert p site ls)
        else if op == "redifixed" then some (rediConvertFixed p site ls) else none
      match r with
      | some (.ok l) => "ok:" ++ recsStr l
      | some (.error e) => rediErr e
      | none => "bad-op"
    | _, _, _ => "bad-args"
  | _ => "bad-op"

end MoPepGen.Driver.C14
