import MoPepGen.Model.Graph
import MoPepGen.Model.Tvg
import MoPepGen.Model.TvgLang
import MoPepGen.Driver.S
import MoPepGen.Driver.GT
namespace MoPepGen.Driver.G
open MoPepGen MoPepGen.Spec MoPepGen.Graph MoPepGen.Driver

/-- `seq:vars:out:rf:flags;…` (node index = position; `-` = empty) -/
def parseNode (s : String) : GNode :=
  match s.splitOn ":" with
  | [sq, vs, out, rf, fl] =>
    { seq := if sq == "-" then [] else sq.toList,
      vars := if vs == "-" then [] else (splitList vs ',').map String.toNat!,
      out := if out == "-" then [] else (splitList out ',').map String.toNat!,
      rf := if rf == "-" then 3 else rf.toNat!,
      cleavage := fl.contains 'c', isStop := fl.contains 's' }
  | _ => { seq := [], vars := [], out := [] }

def parseGraph (s : String) : Graph := ((splitList s ';').map parseNode).toArray

def renderLab (x : List Char × List Nat) : String :=
  String.ofList x.1 ++ "|" ++ natList (sortDedup x.2)

def setDiff (a b : List String) : List String × List String :=
  -- both sorted & de-duplicated
  let rec go (fuel : Nat) (a b : List String) (ma mb : List String) : List String × List String :=
    match fuel with
    | 0 => (ma, mb)
    | fuel + 1 =>
      match a, b with
      | [], [] => (ma, mb)
      | x :: xs, [] => go fuel xs [] (x :: ma) mb
      | [], y :: ys => go fuel [] ys ma (y :: mb)
      | x :: xs, y :: ys =>
        if x == y then go fuel xs ys ma mb
        else if x < y then go fuel xs (y :: ys) (x :: ma) mb
        else go fuel (x :: xs) ys ma (y :: mb)
  go (a.length + b.length + 1) a b [] []

def short (s : String) : String := if s.length > 60 then "…" ++ (s.drop (s.length - 60)).toString else s

def verdict (tag : String) (real want : List String) : String :=
  let (onlyReal, onlyWant) := setDiff (sortDedupStr real) (sortDedupStr want)
  if onlyReal.isEmpty && onlyWant.isEmpty then "ok"
  else s!"bad:{tag} extra={onlyReal.length} missing={onlyWant.length}" ++
    (match onlyReal.head? with | some x => " e.g.extra=" ++ short x | none => "") ++
    (match onlyWant.head? with | some x => " e.g.missing=" ++ short x | none => "")

/-- frame roots of a dumped graph: the children of node 0 whose frame is `f` -/
def frameStarts (g : Graph) (f : Nat) : List Nat :=
  (succs g 0).filter fun o => (g[o]?.map (·.rf)).getD 3 == f

def framePaths (g : Graph) (f : Nat) : List (List Nat) := (frameStarts g f).flatMap (paths g)

def isPrefix : List Char → List Char → Bool
  | [], _ => true
  | _ :: _, [] => false
  | a :: as, b :: bs => a == b && isPrefix as bs

/-- CP1 / CP2 on one frame: the sequences are exactly those of the compatible combinations,
and every labelled path (sequence, record ids) is one of the definition's labelled sequences.
(Two records with the same effect — e.g. two splicing events deleting the same stretch — may
share one node, so a labelled sequence of the definition need not have its own path.) -/
def cpTvg (g : Graph) (t : TxIn) (vs : List Var) (f : Nat) (needCodons : Bool) : String :=
  let ps := framePaths g f
  let want := tvgLang t vs f
  let v := verdict s!"lang f={f}" (ps.map fun p => String.ofList (pathSeq g p))
    (want.map fun x => String.ofList x.1)
  if v != "ok" then v
  else
    let wantL := sortDedupStr (want.map renderLab)
    let realL := sortDedupStr (ps.map fun p => renderLab (pathSeq g p, pathVars g p))
    let (onlyReal, _) := setDiff realL wantL
    if !onlyReal.isEmpty then
      s!"bad:labels f={f} extra={onlyReal.length} missing=0 e.g.extra=" ++ short (onlyReal.headD "")
    else if needCodons && !(ps.all (codonAligned g)) then s!"bad:codons f={f}"
    else "ok"

/-- CP3 / CP4 on one frame: protein language (a real path may also be a stop-terminated
prefix of an expected sequence: the fake stop node at the annotated ORF end), and for CP4
the required cuts -/
def cpPvg (g : Graph) (t : TxIn) (vs : List Var) (f : Nat) (cuts : Option (Re × Option Re)) : String :=
  let ps := framePaths g f
  let want := (protLang t vs f).map stripEnd
  let wantS := sortDedupStr (want.map String.ofList)
  let realSeqs := ps.map fun p => stripEnd (pathSeq g p)
  let realS := sortDedupStr (realSeqs.map String.ofList)
  let (onlyReal, onlyWant) := setDiff realS wantS
  let unexplained := onlyReal.filter fun r => !(want.any fun w => isPrefix (r.toList ++ ['*']) w)
  if !onlyWant.isEmpty || !unexplained.isEmpty then
    s!"bad:lang f={f} extra={unexplained.length} missing={onlyWant.length}" ++
      (match unexplained.head? with | some x => " e.g.extra=" ++ short x | none => "") ++
      (match onlyWant.head? with | some x => " e.g.missing=" ++ short x | none => "")
  else match cuts with
    | none => "ok"
    | some (rule, exc) =>
      let bad := ps.filterMap fun p =>
        let w := pathSeq g p
        let bs := boundaries g false p
        match (requiredCuts rule exc w).find? (fun c => !bs.contains c) with
        | some c => some s!"{c}:{short (String.ofList (w.take c))}"
        | none => none
      match bad.head? with
      | none => "ok"
      | some b => s!"bad:cuts f={f} n={bad.length} site-not-a-node-boundary at {b}"

def frames (t : TxIn) : List Nat := if t.coding then [t.orfStart % 3] else [0, 1, 2]

def firstBad (rs : List String) : String := (rs.find? (· != "ok")).getD "ok"

/-! ### `tvgbuild`: the function-level model of `create_variant_graph` (`Model/Tvg.lean`) -/

/-- `start:stop:ref:alt:TYPE:id+id` (the Python type name, not the merge class of `S.parseVar`) -/
def parseRec (s : String) : Option Tvg.Rec :=
  match s.splitOn ":" with
  | [a, b, r, al, ty, i] =>
    some { start := a.toNat!, stop := b.toNat!, ref := r.toList, alt := al.toList, type := ty,
           ids := (i.splitOn "+").map String.toNat! }
  | _ => none

def idsKey (ids : List Nat) : String := joinWith "+" (ids.map toString)

/-- canonical key of a node: frame, kind, reference range or record ids, sequence -/
def tvgNodeKey (n : Tvg.TNode) : String :=
  match n.kind with
  | .root => if n.rf == 3 then "R" else s!"F{n.rf}"
  | .ref a b => if a < b then s!"{n.rf}:{a}-{b}:{String.ofList n.seq}" else s!"{n.rf}:e:{String.ofList n.seq}"
  | .var v => s!"{n.rf}:v{idsKey v.ids}:{String.ofList n.seq}"

def etypeKey : Tvg.EType → String
  | .reference => "r"
  | .variantStart => "s"
  | .variantEnd => "e"

def sortStr (l : List String) : List String := (l.toArray.qsort (· < ·)).toList

/-- the graph up to node renaming: sorted node keys, sorted typed edges between keys -/
def tvgCanon (g : Tvg.TState) : String :=
  let keys := g.nodes.toArray.map tvgNodeKey
  let ns := sortStr keys.toList
  let es := sortStr (g.edges.map fun e =>
    s!"{keys.getD e.src "?"}>{keys.getD e.dst "?"}:{etypeKey e.ty}")
  "N=" ++ joinWith ";" ns ++ "|E=" ++ joinWith ";" es

def handleTvg (args : List String) : String :=
  match args with
  | ["tvgbuild", seq, coding, orfStart, orfEnd, _startNF, endNF, _sec, hasOrf, vars] =>
    let inp : Tvg.TvgIn :=
      { seq := seq.toList, hasKnownOrf := parseBool coding,
        orf := if parseBool hasOrf then some (orfStart.toNat!, orfEnd.toNat!) else none,
        mrnaEndNF := parseBool endNF }
    match Tvg.createVariantGraph inp ((splitList vars ';').filterMap parseRec) with
    | .ok g => tvgCanon g
    | .error e => "error:" ++ e
  | _ => "bad-op"

/-! ### `tvglang`: the record lists of the maximal paths of the model's graph, computed from
`attached` (`Model/TvgLang.lean`; `Props.C01.tvg_attached_subs_spec`), per frame that is active
from the start.  The harness enumerates the maximal paths of the REAL graph and compares. -/

/-- key of a record list: the ids of each record joined by `+`, the records by `|`; `-` = none -/
def hapKey (h : List Var) : String :=
  if h.isEmpty then "-" else joinWith "|" (h.map fun v => idsKey v.ids)

/-- more distinct records than this in one graph: the case is skipped on both sides -/
def tvgLangCap : Nat := 12

def handleTvgLang (args : List String) : String :=
  match args with
  | ["tvglang", seq, coding, orfStart, orfEnd, _startNF, endNF, _sec, hasOrf, vars] =>
    let inp : Tvg.TvgIn :=
      { seq := seq.toList, hasKnownOrf := parseBool coding,
        orf := if parseBool hasOrf then some (orfStart.toNat!, orfEnd.toNat!) else none,
        mrnaEndNF := parseBool endNF }
    let recs := (splitList vars ';').filterMap parseRec
    match Tvg.createVariantGraph inp recs, Tvg.initialActive inp with
    | .ok g, .ok act =>
      if (Tvg.varRecs g).eraseDups.length > tvgLangCap then "skip:too-many-records"
      else
        let fs := [0, 1, 2].filter fun f => act.getD f false
        -- `in=`: does the input satisfy `poolInputOk`, the hypothesis of
        -- `Props.C01.tvg_create_variant_graph_language_eq`?
        s!"in={if Tvg.poolInputOk inp recs then 1 else 0};" ++
        joinWith ";" (fs.map fun f =>
          s!"f{f}=" ++ joinWith "," (sortStr ((Tvg.attachedSubs g f).map hapKey)))
    | .error e, _ => "error:" ++ e
    | _, .error e => "error:" ++ e
  | _ => "bad-op"

def handle (args : List String) : String :=
  match args with
  | ["cp", stage, graph, seq, coding, orfStart, orfEnd, startNF, endNF, sec, vars, rule, exc] =>
    let g := parseGraph graph
    let t := S.mkTx seq coding orfStart orfEnd startNF endNF sec
    let vs := (splitList vars ';').filterMap S.parseVar
    if stage == "tvg1" then firstBad ((frames t).map fun f => cpTvg g t vs f false)
    else if stage == "tvg2" then firstBad ((frames t).map fun f => cpTvg g t vs f true)
    else if stage == "pvg1" then firstBad ((frames t).map fun f => cpPvg g t vs f none)
    else if stage == "pvg2" then
      match Generated.expasyRules.lookup rule with
      | none => "bad-rule"
      | some r =>
        let e := if exc == "-" then none else Generated.expasyRules.lookup exc
        firstBad ((frames t).map fun f => cpPvg g t vs f (some (r, e)))
    else "bad-stage"
  | ["npaths", graph, f] =>
    let g := parseGraph graph
    toString (framePaths g f.toNat!).length
  | "tvgbuild" :: _ => handleTvg args
  | "tvglang" :: _ => handleTvgLang args
  | "translate" :: _ => GT.handle args
  | _ => "bad-op"

end MoPepGen.Driver.G
