import MoPepGen.Model.Gtf
import MoPepGen.Driver.Util
/-!
Line-protocol ops for the GTF codec model (`Model/Gtf.lean`), part of stream C11.

Encoding of an annotation (input of `gtfwrite`/`gtfwf`/`gtfrt`, output of `gtfparse`):
tab separated items, one per gene `G~gid~rec~tid;tid…` and one per transcript
`T~tid~rec|!~ipc~tid~gid~pid~name~cds~exon~start~stop~utr~five~three~sec`; a record is
`chrom,type,start,end,strand,frame,k=v&k*a+b`; strings are escaped (`%<code>%` for everything
outside `[A-Za-z0-9_.:-]`).  A GTF text line is given with its tabs replaced by U+001F.
-/
namespace MoPepGen.Driver.Gtf
open MoPepGen MoPepGen.Gtf MoPepGen.Driver
open MoPepGen.Gvf (Str AttrVal)

def plain (c : Char) : Bool := c.isAlphanum || c == '_' || c == '.' || c == ':' || c == '-'

def esc (s : Str) : String :=
  String.join (s.map fun c => if plain c then String.singleton c else s!"%{c.toNat}%")

def unescGo : Nat → List Char → List Char → Option (List Char)
  | 0, _, _ => none
  | _ + 1, [], acc => some acc.reverse
  | fuel + 1, '%' :: r, acc =>
    let num := r.takeWhile (· != '%')
    match (String.ofList num).toNat?, r.dropWhile (· != '%') with
    | some n, _ :: rest => unescGo fuel rest (Char.ofNat n :: acc)
    | _, _ => none
  | fuel + 1, c :: r, acc => unescGo fuel r (c :: acc)

def unesc (s : String) : Option Str := unescGo (s.length + 1) s.toList []

def optStr : Option Str → String
  | none => "!"
  | some s => "=" ++ esc s

def parseOptStr (s : String) : Option (Option Str) :=
  if s == "!" then some none
  else if s.startsWith "=" then (unesc (s.drop 1).toString).map some
  else none

def strandCode : GStrand → String
  | .plus => "+" | .minus => "-" | .unknown => "?" | .none => "."

def parseStrandCode (s : String) : Option GStrand :=
  if s == "+" then some .plus else if s == "-" then some .minus
  else if s == "?" then some .unknown else if s == "." then some .none else none

def frameCode : Option Nat → String
  | none => "."
  | some n => toString n

def parseFrame (s : String) : Option (Option Nat) :=
  if s == "." then some none else s.toNat?.map some

def attrCode (kv : Str × AttrVal) : String :=
  match kv.2 with
  | .str v => esc kv.1 ++ "=" ++ esc v
  | .list l => esc kv.1 ++ "*" ++ joinWith "+" (l.map esc)

def splitNE (s : String) (sep : String) : List String := if s.isEmpty then [] else s.splitOn sep

def parseAttr (s : String) : Option (Str × AttrVal) :=
  match s.splitOn "=" with
  | [k, v] => do pure (← unesc k, .str (← unesc v))
  | _ =>
    match s.splitOn "*" with
    | [k, l] => do pure (← unesc k, .list (← (splitNE l "+").mapM unesc))
    | _ => none

def recCode (r : Rec) : String :=
  joinWith "," [esc r.chrom, esc r.type, toString r.iv.start, toString r.iv.stop,
    strandCode r.strand, frameCode r.frame, joinWith "&" (r.attrs.map attrCode)]

def parseRec (s : String) : Option Rec :=
  match s.splitOn "," with
  | [c, t, a, b, st, fr, att] => do
    pure { chrom := ← unesc c, type := ← unesc t, iv := ⟨← a.toNat?, ← b.toNat?⟩,
           strand := ← parseStrandCode st, frame := ← parseFrame fr,
           attrs := ← (splitNE att "&").mapM parseAttr }
  | _ => none

def recsCode (l : List Rec) : String := joinWith ";" (l.map recCode)
def parseRecs (s : String) : Option (List Rec) := (splitNE s ";").mapM parseRec

def ipcCode : Option Bool → String
  | none => "!" | some true => "1" | some false => "0"

def parseIpc (s : String) : Option (Option Bool) :=
  if s == "!" then some none else if s == "1" then some (some true)
  else if s == "0" then some (some false) else none

def geneCode (kv : Str × GeneModel) : String :=
  joinWith "~" ["G", esc kv.1, recCode kv.2.gene, joinWith ";" (kv.2.transcripts.map esc)]

def txCode (kv : Str × TxModel) : String :=
  let m := kv.2
  joinWith "~" ["T", esc kv.1, (match m.transcript with | none => "!" | some t => recCode t),
    ipcCode m.isProteinCoding, optStr m.transcriptId, optStr m.geneId, optStr m.proteinId,
    optStr m.geneName, recsCode m.cds, recsCode m.exon, recsCode m.startCodon,
    recsCode m.stopCodon, recsCode m.utr, recsCode m.fiveUtr, recsCode m.threeUtr, recsCode m.sec]

def annoCode (a : Anno) : String :=
  joinWith "\t" (a.genes.map geneCode ++ a.txs.map txCode)

def parseItem (a : Anno) (s : String) : Option Anno :=
  match s.splitOn "~" with
  | ["G", gid, r, tids] => do
    let g : GeneModel := ⟨← parseRec r, ← (splitNE tids ";").mapM unesc⟩
    pure { a with genes := a.genes ++ [(← unesc gid, g)] }
  | ["T", tid, t, ipc, i1, i2, i3, i4, cds, exon, sc, ec, utr, five, three, sec] => do
    let tr ← if t == "!" then some none else (parseRec t).map some
    let m : TxModel := {
      transcript := tr, cds := ← parseRecs cds, exon := ← parseRecs exon,
      startCodon := ← parseRecs sc, stopCodon := ← parseRecs ec, utr := ← parseRecs utr,
      fiveUtr := ← parseRecs five, threeUtr := ← parseRecs three, sec := ← parseRecs sec,
      isProteinCoding := ← parseIpc ipc, transcriptId := ← parseOptStr i1,
      geneId := ← parseOptStr i2, proteinId := ← parseOptStr i3, geneName := ← parseOptStr i4 }
    pure { a with txs := a.txs ++ [(← unesc tid, m)] }
  | _ => none

def parseAnno (items : List String) : Option Anno := items.foldlM parseItem {}

/-- one text line (tabs → U+001F) to the abstract line; `none` = comment line -/
def textLine (s : String) : Except String (Option Line) :=
  if s.startsWith "#" then .ok none
  else
    match (String.ofList (MoPepGen.Gvf.rstrip s.toList)).splitOn "\x1f" with
    | [c, _, t, a, b, _, st, fr, att] =>
      match a.toNat?, b.toNat?, parseFrame fr with
      | some a, some b, some fr =>
        match colParse att.toList with
        | .ok kvs => .ok (some ⟨c.toList, t.toList, a, b, st.toList, fr, kvs⟩)
        | .error e => .error ("err:" ++ e.name)
      | _, _, _ => .error "crash:ValueError"
    | _ => .error "crash:IndexError"

def textLines : List String → Except String (List Line)
  | [] => .ok []
  | s :: r =>
    match textLine s, textLines r with
    | .error e, _ => .error e
    | _, .error e => .error e
    | .ok none, .ok ls => .ok ls
    | .ok (some l), .ok ls => .ok (l :: ls)

/-- render a line as `to_gtf_record` does -/
def lineText (l : Line) : String :=
  joinWith "\t" [String.ofList l.seqname, ".", String.ofList l.feature, toString l.start1,
    toString l.end1, ".", String.ofList l.strand, frameCode l.frame, String.ofList (colText l.attrs)]

def resAnno : Except GErr Anno → String
  | .ok a => annoCode a
  | .error e => "err:" ++ e.name

def b (x : Bool) : String := if x then "1" else "0"

/-- `parseGtf (writeGtf a)` through the column text, as the real round trip goes -/
def roundTrip (items : List String) (post : Anno → Anno) : String :=
  match parseAnno items with
  | none => "bad-args"
  | some a => match writeGtf a with
    | .ok ls =>
      match Gtf.mapE (fun l : Line => match colParse (colText l.attrs) with
          | .ok kvs => .ok { l with attrs := kvs }
          | .error e => .error e) ls with
      | .ok ls' => resAnno ((parseGtf ls').map post)
      | .error e => "err:" ++ e.name
    | .error e => "err:" ++ e.name

/-- the lines of `writeGtf` with the attribute column through its text and back -/
def throughText (ls : List Line) : Except GErr (List Line) :=
  Gtf.mapE (fun l : Line => match colParse (colText l.attrs) with
    | .ok kvs => .ok { l with attrs := kvs }
    | .error e => .error e) ls

/-- `reload` through the column text -/
def reloadText (a : Anno) : Except GErr Anno :=
  match writeGtf a with
  | .ok ls => match throughText ls with
    | .ok ls' => parseGtf ls'
    | .error e => .error e
  | .error e => .error e

def writtenText (a : Anno) : Option (List String) :=
  match writeGtf a with
  | .ok ls => some (ls.map lineText)
  | .error _ => none

/-- closure of the round trip on the model side: the three predicates decided on the model's
reloaded annotation `r`, `idem`: a second round trip returns `r` itself (attribute dicts
included), `fix`: the text written from `r` and from its reload agree, `same`: the text written
from `r` equals the text written from the input -/
def closedCode (a : Anno) : String :=
  match reloadText a with
  | .error e => "err:" ++ e.name
  | .ok r =>
    let r2 := reloadText r
    let idem := match r2 with
      | .ok x => decide (x = r)
      | .error _ => false
    let fix := match r2 with
      | .ok x => writtenText x == writtenText r && (writtenText r).isSome
      | .error _ => false
    s!"wf={b r.wf},ordered={b r.ordered},stable={b r.stable},idem={b idem},fix={b fix},same={b (writtenText r == writtenText a)}"

def handle (args : List String) : Option String :=
  match args with
  | "gtfparse" :: lines =>
    some (match textLines lines with
      | .error e => e
      | .ok ls => resAnno (parseGtf ls))
  | "gtfline" :: [line] =>
    some (match textLine line with
      | .error e => e
      | .ok none => "comment"
      | .ok (some l) => match lineToRec l with
        | .ok r => recCode r
        | .error e => "err:" ++ e.name)
  | "gtfwrite" :: items =>
    some (match parseAnno items with
      | none => "bad-args"
      | some a => match writeGtf a with
        | .ok ls => joinWith "\x1e" (ls.map lineText)
        | .error e => "err:" ++ e.name)
  | "gtfrt" :: items => some (roundTrip items id)
  | "gtfrtn" :: items => some (roundTrip items Anno.erase)
  | "gtfclosed" :: items =>
    some (match parseAnno items with
      | none => "bad-args"
      | some a => closedCode a)
  | "gtfwf0" :: items =>
    some (match parseAnno items with
      | none => "bad-args"
      | some a => s!"wf={b a.wf},ordered={b a.ordered},text={b a.textOK}")
  | "gtfwf" :: items =>
    some (match parseAnno items with
      | none => "bad-args"
      | some a => s!"wf={b a.wf},ordered={b a.ordered},text={b a.textOK},stable={b a.stable}")
  | _ => none

end MoPepGen.Driver.Gtf
