import MoPepGen.Model.Decoy
import MoPepGen.Generated.Expasy
import MoPepGen.Driver.Util
namespace MoPepGen.Driver.C20
open MoPepGen MoPepGen.Driver MoPepGen.Decoy

def lookupRule (n : String) : Option Re := Generated.expasyRules.lookup n

/-- "-" = none; unknown names are an error -/
def lookupOpt (n : String) : Option (Option Re) :=
  if n == "-" then some none else (lookupRule n).map some

def parseNats (s : String) : List Nat := (splitList s ',').map String.toNat!

def mkCfg (enz exc off keepN keepC pats : String) : Option Cfg := do
  let r ← lookupOpt enz
  let e ← lookupOpt exc
  pure { enzyme := r, exc := e, off := off.toNat!, keepN := parseBool keepN,
         keepC := parseBool keepC, pats := (pats.splitOn ",").map String.toList }

def parseMethod : String → Option Method
  | "reverse" => some .reverse
  | "shuffle" => some .shuffle
  | _ => none

def parseOrder : String → Option Order
  | "juxtaposed" => some .juxtaposed
  | "target_first" => some .targetFirst
  | "decoy_first" => some .decoyFirst
  | _ => none

/-- every permutation is terminated by ';' (so that `[[]]` and `[]` differ) -/
def parsePerms (s : String) : List (List Nat) := ((s.splitOn ";").dropLast).map parseNats

def parseRecs (s : String) : List Rec :=
  (splitList s ';').map fun e =>
    match e.splitOn ":" with
    | [h, q] => { hdr := h, seq := q.toList }
    | _ => { hdr := "?", seq := [] }

def showRecs (rs : List Rec) : String :=
  joinWith ";" (rs.map fun r => r.hdr ++ ":" ++ String.ofList r.seq)

def optSeq : Option Pep → String
  | none => "crash:IndexError"
  | some o => String.ofList o

def handle (args : List String) : String :=
  match args with
  | ["fixed", enz, exc, off, keepN, keepC, pats, seq] =>
    match mkCfg enz exc off keepN keepC pats with
    | none => "bad-rule"
    | some c => natList (sortDedup (fixedIndices c seq.toList))
  | ["reverse", fixed, seq] => optSeq (reverseSeq seq.toList (parseNats fixed))
  | ["shuffle", fixed, perm, seq] => optSeq (shuffleSeq seq.toList (parseNats fixed) (parseNats perm))
  | ["run", enz, exc, off, keepN, keepC, pats, method, maxAtt, dstr, pos, order, recs, perms] =>
    match mkCfg enz exc off keepN keepC pats, parseMethod method, parseOrder order with
    | some c, some m, some o =>
      let rc : RunCfg := { c with method := m, maxAttempts := maxAtt.toNat!, decoyString := dstr,
                                  isPrefix := pos == "prefix", order := o }
      match run rc (parseRecs recs) (parsePerms perms) with
      | none => "crash:IndexError"
      | some (out, nov, left) => s!"{showRecs out}\t{nov}\t{left}"
    | _, _, _ => "bad-arg"
  | _ => "bad-op"

end MoPepGen.Driver.C20
