import MoPepGen.Model.Digest
import MoPepGen.Model.Pairing
import MoPepGen.Model.DigestPos
import MoPepGen.Model.WingsLocal
import MoPepGen.Generated.Expasy
import MoPepGen.Generated.Weights
import MoPepGen.Driver.Util
namespace MoPepGen.Driver.C10
open MoPepGen MoPepGen.Driver

def lookupRule (n : String) : Option Re := Generated.expasyRules.lookup n
def lookupRule2 (n : String) : Option Re2 := Generated.expasyRules2.lookup n

/-- "-" = no exception; unknown names are an error -/
def lookupExc (n : String) : Option (Option Re) :=
  if n == "-" then some none else (lookupRule n).map some

def mkCfg (rule exc misc minMw minLen maxLen : String) : Option CleaveCfg := do
  let r ← lookupRule rule
  let e ← lookupExc exc
  let minMwI ← minMw.toInt?
  pure { rule := r, exc := e, misc := misc.toNat!, minMw := minMwI,
         minLen := minLen.toNat!, maxLen := maxLen.toNat!,
         tab := Generated.proteinWeights, water := Generated.waterWeight }

def pepsOut (ps : List Pep) : String :=
  joinWith "," (sortDedupStr (ps.map String.ofList))

def handle (args : List String) : String :=
  match args with
  | ["sites", rule, exc, seq] =>
    match lookupRule rule, lookupExc exc with
    | some r, some e => natList (cleaveSites r e seq.toList)
    | _, _ => "bad-rule"
  | ["issite", rule, exc, seq] =>
    match lookupRule rule, lookupExc exc with
    | some r, some e =>
      natList ((List.range (seq.length + 1)).filter (isSite r e seq.toList))
    | _, _ => "bad-rule"
  | ["ranges", rule, exc, seq] =>
    match lookupRule rule, lookupRule2 rule, lookupExc exc with
    | some r, some r2, some e =>
      match cleaveSitesWithRange r r2 e seq.toList with
      | none => "reject:inconsistent"
      | some l => joinWith "," (l.map fun (s, (a, b)) => s!"{s}:{a}-{b}")
    | _, _, _ => "bad-rule"
  | ["pranges", rule, exc, seq] =>
    -- positional statement of the pairing (Props.C10.range_pairing)
    match lookupRule rule, lookupExc exc with
    | some r, some e =>
      joinWith "," ((rangeSpec r e seq.toList).map fun (s, (a, b)) => s!"{s}:{a}-{b}")
    | _, _ => "bad-rule"
  | ["wings", rule, seq] =>
    -- iter_enzymatic_cleave_sites_with_range_local: with a covering wings entry the ranges of
    -- the sites; otherwise the pattern cannot be found inside the window of any site
    match lookupRule rule, Generated.expasyWings.lookup rule with
    | some r, some w =>
      let l := rangeSpec r none seq.toList
      if w.1 == 0 && w.2 == 0 then "reject:wings-zero"
      else if l.isEmpty then ""
      else if wingsCover r w then joinWith "," (l.map fun (s, (a, b)) => s!"{s}:{a}-{b}")
      else "reject:wings"
    | _, _ => "bad-rule"
  | ["glocal", rule, w0, w1, seq] =>
    -- get_local_matched_range at EVERY position 0 .. |seq|+1, wings given on the line
    match lookupRule rule with
    | some r =>
      joinWith ";" ((List.range (seq.length + 2)).map fun site =>
        match getLocalMatchedRange r seq.toList site (w0.toNat!, w1.toNat!) with
        | none => "fuel"
        | some none => "reject:cannot-extract"
        | some (some (a, b)) => s!"{a}-{b}")
    | none => "bad-rule"
  | ["ilocal", rule, exc, seq] =>
    -- iter_enzymatic_cleave_sites_with_range_local, function-level model
    match lookupRule rule, lookupExc exc, Generated.expasyWings.lookup rule with
    | some r, some e, some w =>
      match cleaveSitesWithRangeLocal r e w seq.toList with
      | .error .wingsZero => "reject:wings-zero"
      | .error (.cannotExtract x) => s!"reject:cannot-extract@{x}"
      | .error .fuel => "fuel"
      | .ok l => joinWith "," (l.map fun (s, (a, b)) => s!"{s}:{a}-{b}")
    | _, _, _ => "bad-rule"
  | ["pcleave", rule, exc, misc, minMw, minLen, maxLen, nf, seq] =>
    -- positional digest (Props.C10.cleave_spec_positional / posDigest_spec)
    match mkCfg rule exc misc minMw minLen maxLen with
    | none => "bad-rule"
    | some c => match posDigest c seq.toList (parseBool nf) with
      | none => "crash:ValueError"
      | some ps => pepsOut ps
  | ["cstop", rule, exc, seq] =>
    match lookupRule rule, lookupExc exc with
    | some r, some e => natList (cleaveAndStopSites r e seq.toList)
    | _, _ => "bad-rule"
  | ["cleave", rule, exc, misc, minMw, minLen, maxLen, nf, seq] =>
    match mkCfg rule exc misc minMw minLen maxLen with
    | none => "bad-rule"
    | some c => match enzymaticCleave c seq.toList (parseBool nf) with
      | none => "crash:ValueError"
      | some ps => pepsOut ps
  | ["pool", rule, exc, misc, minMw, minLen, maxLen, prots] =>
    match mkCfg rule exc misc minMw minLen maxLen with
    | none => "bad-rule"
    | some c =>
      let ents := (splitList prots ';').map fun e =>
        match e.splitOn ":" with
        | [nf, s] => (s.toList, parseBool nf)
        | _ => ([], false)
      match peptidePool c ents with
      | none => "crash:ValueError"
      | some ps => pepsOut ps
  | _ => "bad-op"

end MoPepGen.Driver.C10
