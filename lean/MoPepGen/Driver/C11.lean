import MoPepGen.Model.Coord
import MoPepGen.Model.Cache
import MoPepGen.Driver.Util
import MoPepGen.Driver.Gtf
namespace MoPepGen.Driver.C11
open MoPepGen MoPepGen.Driver

def parseStrand (s : String) : Option Strand :=
  if s == "+" then some .plus else if s == "-" then some .minus else none

/-- "s-e" -/
def parseIv (s : String) : Option Iv :=
  match s.splitOn "-" with
  | [a, b] => do pure ⟨← a.toNat?, ← b.toNat?⟩
  | _ => none

/-- "s-e,s-e,…" ("" or "." = empty) -/
def parseIvs (s : String) : Option (List Iv) :=
  if s == "." then some [] else (splitList s ',').mapM parseIv

/-- "s-e:f" with f ∈ {0,1,2,.} -/
def parseCds (s : String) : Option Cds :=
  match s.splitOn ":" with
  | [iv, f] => do
    let i ← parseIv iv
    if f == "." then pure ⟨i, none⟩ else pure ⟨i, some (← f.toNat?)⟩
  | _ => none

def parseCdss (s : String) : Option (List Cds) :=
  if s == "." then some [] else (splitList s ',').mapM parseCds

/-- "lo:hi" integers -/
def parseIntPair (s : String) : Option (Int × Int) :=
  match s.splitOn ":" with
  | [a, b] => do pure (← a.toInt?, ← b.toInt?)
  | _ => none

def errCode : CoordErr → String
  | .outOfRange => "O"
  | .intron => "I"
  | .noExon => "X:IndexError"
  | .exonNotFound => "E"
  | .intronNotFound => "N"
  | .unbound => "X:UnboundLocalError"
  | .notFound => "F"
  | .typeError => "X:TypeError"
  | .badLocation => "B"

def resNat : Except CoordErr Nat → String
  | .ok k => toString k
  | .error e => errCode e

def range' (lo hi : Nat) : List Nat := (List.range (hi - lo)).map (· + lo)

def batch (lo hi : String) (f : Nat → String) : String :=
  match lo.toNat?, hi.toNat? with
  | some l, some h => joinWith "," ((range' l h).map f)
  | _, _ => "bad-range"

/-- cache: keys `0..nvalid-1` load to themselves, all others fail -/
def cacheRun (size nvalid : Nat) (hist : List Nat) : String :=
  let load : Nat → Option Nat := fun k => if k < nvalid then some k else none
  let (c, rs) := CacheState.runFixed size load (CacheState.empty : CacheState Nat Nat) hist
  let r := rs.map fun
    | .ok v => toString v
    | .evictKeyError => "K"
    | .loadError => "L"
  let univ := (hist ++ c.keys).eraseDups
  let cached := (univ.filter fun k => (c.map k).isSome).toArray.qsort (· < ·) |>.toList
  joinWith "," r ++ "|" ++ natList c.keys ++ "|" ++ natList cached

def handleCoord (args : List String) : String :=
  match args with
  | ["g2gene", st, iv, lo, hi] =>
    match parseStrand st, parseIv iv with
    | some s, some l => batch lo hi fun p => resNat (genomicToGene ⟨s, l⟩ p)
    | _, _ => "bad-args"
  | ["gene2g", st, iv, lo, hi] =>
    match parseStrand st, parseIv iv with
    | some s, some l => batch lo hi fun i => toString (geneToGenomic ⟨s, l⟩ i)
    | _, _ => "bad-args"
  | ["txidx", st, ex, lo, hi] =>
    match parseStrand st, parseIvs ex with
    | some s, some es => batch lo hi fun p => resNat (txIndex ⟨s, es⟩ p)
    | _, _ => "bad-args"
  | ["tx2g", st, ex, lo, hi] =>
    match parseStrand st, parseIvs ex with
    | some s, some es => batch lo hi fun i => resNat (txToGenomic ⟨s, es⟩ i)
    | _, _ => "bad-args"
  | ["gene2tx", st, iv, ex, lo, hi] =>
    match parseStrand st, parseIv iv, parseIvs ex with
    | some s, some l, some es => batch lo hi fun i => resNat (geneToTx ⟨s, l⟩ ⟨s, es⟩ i)
    | _, _, _ => "bad-args"
  | ["tx2gene", st, iv, ex, lo, hi] =>
    match parseStrand st, parseIv iv, parseIvs ex with
    | some s, some l, some es => batch lo hi fun i => resNat (txToGene ⟨s, l⟩ ⟨s, es⟩ i)
    | _, _, _ => "bad-args"
  | ["exonic", st, ex, lo, hi] =>
    match parseStrand st, parseIvs ex with
    | some s, some es => batch lo hi fun p => if isExonic ⟨s, es⟩ p then "1" else "0"
    | _, _ => "bad-args"
  | ["upend", st, ex, lo, hi] =>
    match parseStrand st, parseIvs ex with
    | some s, some es => batch lo hi fun p => resNat (upstreamExonEnd ⟨s, es⟩ p)
    | _, _ => "bad-args"
  | ["downstart", st, ex, lo, hi] =>
    match parseStrand st, parseIvs ex with
    | some s, some es => batch lo hi fun p => resNat (downstreamExonStart ⟨s, es⟩ p)
    | _, _ => "bad-args"
  | ["txlen", ex] =>
    match parseIvs ex with
    | some es => toString (exonsLen es)
    | _ => "bad-args"
  | ["txseq", st, ex, chrom] =>
    match parseStrand st, parseIvs ex with
    | some s, some es =>
      match txSeq chrom.toList ⟨s, es⟩ with
      | .ok q => String.ofList q
      | .error _ => "reject:no-exon"
    | _, _ => "bad-args"
  | ["geneseq", st, iv, chrom] =>
    match parseStrand st, parseIv iv with
    | some s, some l => String.ofList (geneSeq chrom.toList ⟨s, l⟩)
    | _, _ => "bad-args"
  | ["orf", st, ex, cds, utr3] =>
    match parseStrand st, parseIvs ex, parseCdss cds, parseIvs utr3 with
    | some s, some es, some cs, some us =>
      match txOrf ⟨s, es⟩ cs us with
      | .ok none => "none"
      | .ok (some (a, b)) => s!"{a},{b}"
      | .error e => errCode e
    | _, _, _, _ => "bad-args"
  | ["sec", st, ex, secs] =>
    match parseStrand st, parseIvs ex, parseIvs secs with
    | some s, some es, some ss =>
      match secLocs ⟨s, es⟩ ss with
      | .ok l =>
        let l := l.toArray.qsort (fun a b => a.1 < b.1 || (a.1 == b.1 && a.2 < b.2)) |>.toList
        joinWith "," (l.map fun (a, b) => s!"{a}-{b}")
      | .error e => errCode e
    | _, _, _ => "bad-args"
  | ["findexon", st, ex, feats] =>
    match parseStrand st, parseIvs ex, parseIvs feats with
    | some s, some es, some fs => joinWith "," (fs.map fun f => resNat (findExonIndex ⟨s, es⟩ f))
    | _, _, _ => "bad-args"
  | ["findintron", st, ex, rs, re, feats] =>
    match parseStrand st, parseIvs ex, parseIntPair rs, parseIntPair re, parseIvs feats with
    | some s, some es, some r1, some r2, some fs =>
      joinWith "," (fs.map fun f => resNat (findIntronIndex ⟨s, es⟩ f r1 r2))
    | _, _, _, _, _ => "bad-args"
  | ["cache", size, nvalid, hist] =>
    match size.toNat?, nvalid.toNat?, (splitList hist ',').mapM String.toNat? with
    | some sz, some nv, some h => cacheRun sz nv h
    | _, _, _ => "bad-args"
  | _ => "bad-op"

def handle (args : List String) : String :=
  match Gtf.handle args with
  | some r => r
  | none => handleCoord args

end MoPepGen.Driver.C11
