import MoPepGen.Model.Translate
import MoPepGen.Driver.Util
/-!
`G translate`: the function-level model of `ThreeFrameTVG.translate` (`Model/Translate.lean`) run
on the dumped input graph; prints the peptide graph in the canonical form the harness computes
from the graph the real `translate` returned (`harness/graph_stages.py`, `canon_translate_real`).
-/
namespace MoPepGen.Driver.GT
open MoPepGen MoPepGen.Driver MoPepGen.Translate

def optNat (s : String) : Option Nat := if s == "-" then none else some s.toNat!

def parseEType (s : String) : EType :=
  if s == "s" then .variantStart else if s == "e" then .variantEnd else .reference

/-- `ids+ids.start.stop` -/
def parseDVar (s : String) : Option DVar :=
  match s.splitOn "." with
  | [i, a, b] => some { ids := (i.splitOn "+").map String.toNat!, start := a.toNat!, stop := b.toNat! }
  | _ => none

/-- `qs.qe.qrf.rs.re.lvl0` -/
def parseDLoc (s : String) : Option DLoc :=
  match s.splitOn "." with
  | [a, b, f, c, d, l] =>
    some { qStart := a.toNat!, qEnd := b.toNat!, qRf := (optNat f).getD 3, rStart := c.toNat!,
           rEnd := d.toNat!, lvl0 := l == "1" }
  | _ => none

/-- `seq:null:out:rf:vars:locs:level:branch:orfEnd` -/
def parseDNode (s : String) : DNode :=
  match s.splitOn ":" with
  | [sq, nl, out, rf, vs, ls, lv, br, oe] =>
    { seq := if sq == "-" then [] else sq.toList, isNull := nl == "1",
      out := if out == "-" then [] else (splitList out ',').filterMap fun e =>
        match e.splitOn "." with
        | [d, t] => some (d.toNat!, parseEType t)
        | _ => none,
      rf := (optNat rf).getD 3,
      vars := if vs == "-" then [] else (splitList vs ',').filterMap parseDVar,
      locs := if ls == "-" then [] else (splitList ls ',').filterMap parseDLoc,
      level := lv.toNat!, branch := br == "1", orfEnd := optNat oe }
  | _ => { seq := [], isNull := true, out := [], rf := 3 }

def parsePair (s : String) : Option (Nat × Nat) :=
  match s.splitOn "." with
  | [a, b] => some (a.toNat!, b.toNat!)
  | _ => none

def parseIn (nodes frames hasOrf orf sect endNF circ : String) : TGraphIn :=
  { nodes := ((splitList nodes ';').map parseDNode).toArray,
    frames := (splitList frames ',').map String.toNat!,
    hasKnownOrf := parseBool hasOrf,
    orf := if orf == "-" then none else parsePair orf,
    sect := if sect == "-" then [] else (splitList sect ',').filterMap parsePair,
    mrnaEndNF := parseBool endNF, isCirc := parseBool circ }

/-- names of the nodes: `r`, `s`, `n<o>` for `visited[o]`; the nodes the final loop appends for
the terminal `n<o>`: `n<o>R` (right part), then `n<o>RR` (second split) or `n<o>F` (fake stop) -/
def nodeNames (g : TGraphIn) (pg : PGraph) (terminal : List (Nat × Nat)) : Array String :=
  let base : Array String := #["r", "s"] ++ (Array.range g.nodes.size).map fun o => s!"n{o}"
  if !g.hasKnownOrf then base
  else terminal.foldl (fun (names : Array String) tk =>
    let t := tk.1
    let nm := names.getD t "?"
    let isFake := ((pg.nodes[t]?.map (·.out.length)).getD 0) == 2
    (names.push (nm ++ "R")).push (nm ++ (if isFake then "F" else "RR"))) base

def sortStr (l : List String) : List String := (l.toArray.qsort (· < ·)).toList

def renderVar (v : PVar) : String :=
  joinWith "+" (v.ids.map toString) ++ s!".{v.start}.{v.stop}.{v.startOff}.{v.endOff}"

def canon (g : TGraphIn) (pg : PGraph) (terminal : List (Nat × Nat)) : String :=
  let names := nodeNames g pg terminal
  let nm (i : Nat) : String := names.getD i s!"?{i}"
  let present := (List.range pg.nodes.size).filter fun i => (pg.nodes[i]?.map (·.present)).getD false
  let ns := present.map fun i =>
    let n := pg.nodes[i]?.getD absent
    joinWith ":" [nm i, if n.isNull then "None" else String.ofList n.seq,
      if n.rf == 3 then "-" else toString n.rf, if n.truncated then "1" else "0",
      joinWith "," (n.vars.map renderVar), natList n.secs, toString n.level]
  let es := present.flatMap fun i =>
    (pg.nodes[i]?.getD absent).out.map fun o => nm i ++ ">" ++ nm o
  let fs := pg.frames.map fun f => match f with | some i => nm i | none => "-"
  let ko := match pg.knownOrf with | some (a, b) => s!"{a}-{b}" | none => "-"
  "N=" ++ joinWith ";" (sortStr ns) ++ "|E=" ++ joinWith ";" (sortStr es) ++ "|F=" ++ joinWith "," fs ++
    "|O=" ++ ko

def handle (args : List String) : String :=
  match args with
  | ["translate", nodes, frames, hasOrf, orf, sect, endNF, circ] =>
    let g := parseIn nodes frames hasOrf orf sect endNF circ
    match translateGraph g, translateCore g with
    | .ok pg, .ok st => s!"in={if linearInput g then 1 else 0};" ++ canon g pg st.terminal
    | .error e, _ => "crash:" ++ (e.splitOn ":").headD e      -- the Python exception type
    | _, .error e => "crash:" ++ (e.splitOn ":").headD e
  | _ => "bad-op"

end MoPepGen.Driver.GT
