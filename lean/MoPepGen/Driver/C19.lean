import MoPepGen.Model.Filter
import MoPepGen.Driver.Util
namespace MoPepGen.Driver.C19
open MoPepGen MoPepGen.Driver

def fieldStr (f : Field) : String := String.ofList f
def entryStr (e : Entry) : String := joinWith "|" (e.map fieldStr)
def headerStr (h : List Entry) : String := joinWith " " (h.map entryStr)

/-- `description.split(' ')` then `.split('|')` -/
def parseHeader (s : String) : Header :=
  (s.splitOn " ").map fun e => (e.splitOn "|").map String.toList

def parseEntryStr (s : String) : Entry := (s.splitOn "|").map String.toList

def optInt (s : String) : Option (Option Int) :=
  if s == "-" then some none else s.toInt?.map some

def crash (e : PErr) : String := "crash:" ++ e.name

def parseTable (s : String) : Option (List (Field × Int)) :=
  (splitList s ',').mapM fun kv =>
    match kv.splitOn "=" with
    | [k, v] => v.toInt?.map fun n => (k.toList, n)
    | _ => none

def recStr (p : PRec) : String := String.ofList p.seq ++ ":" ++ headerStr p.header

def poolStr (ps : List PRec) : String := joinWith ";" (sortDedupStr (ps.map recStr))

def parsePool : List String → List PRec
  | s :: h :: rest => ⟨s.toList, parseHeader h⟩ :: parsePool rest
  | _ => []

def boolAt (s : String) (i : Nat) : Bool := s.toList[i]? == some '1'

def mkCfg (enzyme lo hi exprs cutoff coding flags deny : String) : Option FCfg := do
  let (r, e) ← enzymeRules enzyme
  let lo ← optInt lo
  let hi ← optInt hi
  let cut ← optInt cutoff
  let tab ← (if exprs == "-" then some none else (parseTable exprs).map some)
  pure { exprs := tab, cutoff := cut, coding := (splitList coding ',').map String.toList,
         keepNoncoding := boolAt flags 0, keepCoding := boolAt flags 1,
         keepCanonical := boolAt flags 2,
         denylist := if deny == "-" then none
                     else some ((splitList (deny.drop 1).toString ',').map String.toList),
         miscLo := lo, miscHi := hi, rule := r, exc := e }

def viewStr (v : EntryView) : String :=
  joinWith "," (v.txs.map fieldStr) ++ "/" ++
    (if v.fusion then "F" else "") ++ (if v.circ then "C" else "") ++ (if v.splice then "S" else "")

def handle (args : List String) : String :=
  match args with
  | ["norm", h] =>
    match normHeader (parseHeader h) with
    | .error e => crash e
    | .ok ls => headerStr ls
  | ["idem", h] =>
    joinWith "," ((parseHeader h).map fun e =>
      match normLabel e with
      | .error x => crash x
      | .ok l => if normLabel l == .ok l then "1" else "0")
  | ["view", e] =>
    match entryView (parseEntryStr e) with
    | .error e => crash e
    | .ok v => viewStr v
  | ["int", s] =>
    match pyInt s.toList with
    | none => "none"
    | some n => toString n
  | "filter" :: enzyme :: lo :: hi :: exprs :: cutoff :: coding :: flags :: deny :: pool =>
    match mkCfg enzyme lo hi exprs cutoff coding flags deny with
    | none => "bad-cfg"
    | some c =>
      match filterPool c (loadPool (parsePool pool)) with
      | .error e => crash e
      | .ok out => poolStr out
  | _ => "bad-op"

end MoPepGen.Driver.C19
