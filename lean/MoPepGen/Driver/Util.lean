/- Line-protocol helpers for the native driver (no imports outside core). -/
namespace MoPepGen.Driver

def joinWith (sep : String) (xs : List String) : String := sep.intercalate xs

def natList (xs : List Nat) : String := joinWith "," (xs.map toString)

/-- split on a single character, keeping empty fields; "" ↦ [] -/
def splitList (s : String) (c : Char) : List String :=
  if s.isEmpty then [] else s.splitOn (String.singleton c)

def parseBool (s : String) : Bool := s == "1" || s == "true" || s == "True"

/-- insertion sort + dedup on strings, for canonical set output -/
def insertStr (x : String) : List String → List String
  | [] => [x]
  | y :: ys => if x < y then x :: y :: ys else if x == y then y :: ys else y :: insertStr x ys

def sortDedupStr (l : List String) : List String :=
  (l.toArray.qsort (· < ·)).toList.eraseDups

end MoPepGen.Driver
