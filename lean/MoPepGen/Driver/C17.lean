import MoPepGen.Model.Circ
import MoPepGen.Driver.Util
import MoPepGen.Driver.C11
/-! Line protocol of C17 (parseCIRCexplorer).  See `harness/c17.py` for the line formats. -/
namespace MoPepGen.Driver.C17
open MoPepGen MoPepGen.Driver MoPepGen.Driver.C11

def parseNats (s : String) : Option (List Nat) :=
  if s == "." then some [] else (splitList s ',').mapM String.toNat?

def parseCtype (s : String) : CircType :=
  if s == "circRNA" then .circ else if s == "ciRNA" then .ci else .other

def parseOptInt (s : String) : Option (Option Int) :=
  if s == "." then some none else s.toInt?.map some

def circErrCode : CircErr → String
  | .coord .exonNotFound => "skip:exon"
  | .coord .intronNotFound => "skip:intron"
  | .coord .outOfRange => "crash:ValueError"
  | .coord .badLocation => "crash:ValueError"
  | .coord e => "crash:?" ++ errCode e
  | .badType => "crash:ValueError"
  | .index => "crash:IndexError"
  | .noTx => "crash:KeyError"

def intList (xs : List Int) : String := joinWith "," (xs.map toString)

/-- canonical form of one emitted record -/
def outLine (c : CircOut) : String :=
  match gvfNumbers c.fragments with
  | none => "crash:IndexError"
  | some (s, offs, lens) =>
    s!"{s}|{intList offs}|{natList lens}|{natList c.intron}|{c.idStart}:{c.idStop}|{c.genomicStart}:{c.genomicStop}"

/-- `gstrand/geneiv/tstrand/exons` -/
def parseRef (gs giv ts ex : String) : Option (Gene × Transcript) := do
  let s1 ← parseStrand gs
  let l ← parseIv giv
  let s2 ← parseStrand ts
  let es ← parseIvs ex
  pure (⟨s1, l⟩, ⟨s2, es⟩)

def parseRec (start stop sizes offsets reads ctype fpb score : String) : Option CxRecord := do
  pure { start := ← start.toNat?, stop := ← stop.toNat?, sizes := ← parseNats sizes,
         offsets := ← parseNats offsets, reads := ← reads.toNat?, ctype := parseCtype ctype,
         fpb := ← fpb.toInt?, score := ← score.toInt? }

/-- one record of a `run` line:
`rank/gstrand/geneiv/tstrand/exons/start/stop/sizes/offsets/reads/ctype/fpb/score`
(`rank` = `-` when the isoform is not in the annotation) -/
def parseInput (s : String) : Option CxInput :=
  match s.splitOn "/" with
  | [rank, gs, giv, ts, ex, start, stop, sizes, offsets, reads, ctype, fpb, score] => do
    let r ← parseRec start stop sizes offsets reads ctype fpb score
    if rank == "-" then pure ⟨r, none⟩
    else
      let (g, t) ← parseRef gs giv ts ex
      pure ⟨r, some (← rank.toNat?, g, t)⟩
  | _ => none

def handle (args : List String) : String :=
  match args with
  | ["conv", gs, giv, ts, ex, rs, re, start, stop, sizes, offsets, ctype] =>
    match parseRef gs giv ts ex, parseIntPair rs, parseIntPair re,
        parseRec start stop sizes offsets "0" ctype "0" "0" with
    | some (g, t), some r1, some r2, some r =>
      match convertToCircRna g t r1 r2 r with
      | .ok c => outLine c
      | .error e => circErrCode e
    | _, _, _, _ => "bad-args"
  | ["lookup", gs, giv, ts, ex, rs, re, isCi, feats] =>
    match parseRef gs giv ts ex, parseIntPair rs, parseIntPair re, parseIvs feats with
    | some (g, t), some r1, some r2, some fs =>
      joinWith "," (fs.map fun f => resNat (lookupFragment g t (parseBool isCi) r1 r2 f))
    | _, _, _, _ => "bad-args"
  | ["seq", gseq, frags] =>
    match parseIvs frags with
    | some fs => String.ofList (circSeq gseq.toList fs)
    | none => "bad-args"
  | ["valid", ce3, minReads, minFpb, minScore, reads, fpb, score] =>
    match minReads.toNat?, parseOptInt minFpb, parseOptInt minScore, reads.toNat?, fpb.toInt?,
        score.toInt? with
    | some mr, some mf, some ms, some rd, some f, some sc =>
      let o : CxOptions := { ce3 := parseBool ce3, minReads := mr, minFpb := mf, minScore := ms,
                             rs := (0, 0), re := (0, 0) }
      let r : CxRecord := { start := 0, stop := 0, sizes := [], offsets := [], reads := rd,
                            ctype := .circ, fpb := f, score := sc }
      if isValid o r then "1" else "0"
    | _, _, _, _, _, _ => "bad-args"
  | ["run", ce3, minReads, minFpb, minScore, rs, re, recs] =>
    match minReads.toNat?, parseOptInt minFpb, parseOptInt minScore, parseIntPair rs,
        parseIntPair re, (splitList recs ';').mapM parseInput with
    | some mr, some mf, some ms, some r1, some r2, some xs =>
      let o : CxOptions := { ce3 := parseBool ce3, minReads := mr, minFpb := mf, minScore := ms,
                             rs := r1, re := r2 }
      match parseCircexplorer o xs with
      | .error e => circErrCode e
      | .ok (t, l) =>
        s!"{t.total},{t.skipped},{t.insufficient},{t.invalid}#" ++
          joinWith ";" (l.map fun x => outLine x.2)
    | _, _, _, _, _, _ => "bad-args"
  | _ => "bad-op"

end MoPepGen.Driver.C17
