import MoPepGen.Model.Fusion
import MoPepGen.Model.FusionSpec
import MoPepGen.Driver.Util
import MoPepGen.Driver.C11
/-!
Line protocol of C15 (tab separated):

```
C15 star       <E|G> <genes> <genome> <estJ,leftGene,leftChrom,left,rightGene,rightChrom,right>
C15 arriba     <E|G> <genes> <genome> <gid1,gid2,ts1,ts2,bp1,bp2,split1,split2,conf>
C15 fc         <E|G> <genes> <genome> <common,spanUnique,gene5,gene3,left,right>
C15 cli-star   <E|G> <genes> <genome> <minEstJ> <skip> <row;row;…>
C15 cli-arriba <E|G> <genes> <genome> <min1> <min2> <minConf> <skip> <row;row;…>
C15 cli-fc     <E|G> <genes> <genome> <maxCommon> <minSpanUnique> <skip> <row;row;…>
C15 read       <sD> <geneD s-e> <exonsD> <chromD> <sA> <geneA s-e> <exonsA> <chromA> <start> <accPos>
C15 fused      <sD> <exonsD> <chromD> <lb> <sA> <exonsA> <chromA> <rb>
C15 parts      <sD> <exonsD> <chromD> <lb> <sA> <exonsA> <chromA> <rb>
               -> donorExonic|donorIntron|accIntron|accExonic  (FusionSpec.fusedParts)
C15 conf       <ge|gt|le|lt|eq> <a> <b>
genes  := gene;gene;…      gene := id,name,chrom,strand,s-e,tx/tx/…
tx     := txid:s-e:exon+exon+…   ("." = no exon)
genome := name=SEQ,name=SEQ
```
-/
namespace MoPepGen.Driver.C15
open MoPepGen MoPepGen.Driver MoPepGen.Fusion
open MoPepGen.Driver.C11 (parseStrand parseIv errCode)

def parseExons (s : String) : Option (List Iv) :=
  if s == "." then some [] else (splitList s '+').mapM parseIv

def parseTx (st : Strand) (s : String) : Option TxEntry :=
  match s.splitOn ":" with
  | [id, loc, ex] => do
    let l ← parseIv loc
    let es ← parseExons ex
    pure ⟨id, l, ⟨st, es⟩⟩
  | _ => none

def parseGene (s : String) : Option GeneEntry :=
  match s.splitOn "," with
  | [id, name, chrom, st, loc, txs] => do
    let sd ← parseStrand st
    let l ← parseIv loc
    let ts ← (splitList txs '/').mapM (parseTx sd)
    pure ⟨id, name, chrom, ⟨sd, l⟩, ts⟩
  | _ => none

def parseAnno (flag genes : String) : Option Anno := do
  let gs ← (splitList genes ';').mapM parseGene
  pure ⟨flag == "E", gs⟩

def parseGenome (s : String) : Option Genome :=
  (splitList s ',').mapM fun x =>
    match x.splitOn "=" with
    | [n, q] => some (n, q.toList)
    | _ => none

def parseStar (s : String) : Option StarRow :=
  match s.splitOn "," with
  | [j, lg, lc, l, rg, rc, r] => do
    pure ⟨← j.toNat?, lg, lc, ← l.toNat?, rg, rc, ← r.toNat?⟩
  | _ => none

def parseConf (s : String) : Option Conf :=
  if s == "low" then some .low else if s == "medium" then some .medium
  else if s == "high" then some .high else none

def parseTStrand (s : String) : Option (Option Strand) :=
  if s == "." then some none else (parseStrand s).map some

def parseArriba (s : String) : Option ArribaRow :=
  match s.splitOn "," with
  | [g1, g2, t1, t2, b1, b2, s1, s2, c] => do
    pure ⟨g1, g2, ← parseTStrand t1, ← parseTStrand t2, ← b1.toNat?, ← b2.toNat?,
      ← s1.toNat?, ← s2.toNat?, ← parseConf c⟩
  | _ => none

def parseFc (s : String) : Option FcRow :=
  match s.splitOn "," with
  | [c, u, g5, g3, l, r] => do
    pure ⟨← c.toNat?, ← u.toNat?, g5, g3, ← l.toNat?, ← r.toNat?⟩
  | _ => none

def fusErr : FusErr → String
  | .geneNotFound => "geneNotFound"
  | .value => "value"
  | .index => "index"
  | .key => "key"

def showRec (r : FusionRec) : String :=
  joinWith "|" [r.gene, toString r.start, r.ref, r.id, r.donorTx, r.symbol, r.genomicPos,
    r.accGene, r.accTx, r.accSymbol, toString r.accPos, r.accGenomicPos]

def showRecs (rs : List FusionRec) : String :=
  joinWith " " ((rs.map showRec).toArray.qsort (· < ·)).toList

def showConv : Except FusErr (List FusionRec) → String
  | .ok rs => "ok:" ++ showRecs rs
  | .error e => "err:" ++ fusErr e

def showCli : Except FusErr CliOut → String
  | .error e => "crash:" ++ fusErr e
  | .ok o =>
    let t := o.tally
    let tl := s!"tally={t.total},{t.succeed},{t.skipped},{t.invalidGene},{t.invalidPos},{t.insufficient},{t.antisense}"
    match o.written with
    | none => tl ++ ";written=0;genes=;"
    | some rs => tl ++ ";written=1;genes=" ++ joinWith "," (rs.map (·.gene)) ++ ";" ++ showRecs rs

def withRef (flag genes genome : String) (k : Anno → Genome → String) : String :=
  match parseAnno flag genes, parseGenome genome with
  | some a, some g => k a g
  | _, _ => "bad-ref"

def handle (args : List String) : String :=
  match args with
  | ["star", flag, genes, genome, row] =>
    withRef flag genes genome fun a g =>
      match parseStar row with
      | some r => showConv (convertStar a g r)
      | none => "bad-row"
  | ["arriba", flag, genes, genome, row] =>
    withRef flag genes genome fun a g =>
      match parseArriba row with
      | some r => showConv (convertArriba a g r)
      | none => "bad-row"
  | ["fc", flag, genes, genome, row] =>
    withRef flag genes genome fun a g =>
      match parseFc row with
      | some r => showConv (convertFc a g r)
      | none => "bad-row"
  | ["cli-star", flag, genes, genome, minJ, skip, rows] =>
    withRef flag genes genome fun a g =>
      match minJ.toNat?, (splitList rows ';').mapM parseStar with
      | some m, some rs => showCli (cliStar a g m (parseBool skip) rs)
      | _, _ => "bad-args"
  | ["cli-arriba", flag, genes, genome, m1, m2, mc, skip, rows] =>
    withRef flag genes genome fun a g =>
      match m1.toNat?, m2.toNat?, parseConf mc, (splitList rows ';').mapM parseArriba with
      | some a1, some a2, some c, some rs => showCli (cliArriba a g a1 a2 c (parseBool skip) rs)
      | _, _, _, _ => "bad-args"
  | ["cli-fc", flag, genes, genome, mc, mu, skip, rows] =>
    withRef flag genes genome fun a g =>
      match mc.toNat?, mu.toNat?, (splitList rows ';').mapM parseFc with
      | some c, some u, some rs => showCli (cliFc a g c u (parseBool skip) rs)
      | _, _, _ => "bad-args"
  | ["read", sD, ivD, exD, chromD, sA, ivA, exA, chromA, start, accPos] =>
    match parseStrand sD, parseIv ivD, parseExons exD, parseStrand sA, parseIv ivA, parseExons exA,
      start.toNat?, accPos.toNat? with
    | some d, some gd, some ed, some a, some ga, some ea, some s, some p =>
      match gvfFusionSeq chromD.toList ⟨d, gd⟩ ⟨d, ed⟩ chromA.toList ⟨a, ga⟩ ⟨a, ea⟩ s p with
      | .ok q => "ok:" ++ String.ofList q
      | .error e => "err:" ++ errCode e
    | _, _, _, _, _, _, _, _ => "bad-args"
  | ["fused", sD, exD, chromD, lb, sA, exA, chromA, rb] =>
    match parseStrand sD, parseExons exD, parseStrand sA, parseExons exA, lb.toNat?, rb.toNat? with
    | some d, some ed, some a, some ea, some l, some r =>
      String.ofList (FusionSpec.fusedSeq chromD.toList ⟨d, ed⟩ l chromA.toList ⟨a, ea⟩ r)
    | _, _, _, _, _, _ => "bad-args"
  | ["parts", sD, exD, chromD, lb, sA, exA, chromA, rb] =>
    match parseStrand sD, parseExons exD, parseStrand sA, parseExons exA, lb.toNat?, rb.toNat? with
    | some d, some ed, some a, some ea, some l, some r =>
      let x := FusionSpec.fusedParts chromD.toList ⟨d, ed⟩ l chromA.toList ⟨a, ea⟩ r
      joinWith "|" [String.ofList x.donorExonic, String.ofList x.donorIntron,
        String.ofList x.accIntron, String.ofList x.accExonic]
    | _, _, _, _, _, _ => "bad-args"
  | ["conf", op, a, b] =>
    match parseConf a, parseConf b with
    | some x, some y =>
      let r := if op == "ge" then Conf.pyGe x y else if op == "gt" then Conf.pyGt x y
        else if op == "le" then Conf.pyLe x y else if op == "lt" then Conf.pyLt x y
        else Conf.dunderEq x y
      if r then "1" else "0"
    | _, _ => "bad-args"
  | _ => "bad-op"

end MoPepGen.Driver.C15
