import MoPepGen.Model.Split
import MoPepGen.Driver.Util
import MoPepGen.Driver.C19
namespace MoPepGen.Driver.C18
open MoPepGen MoPepGen.Driver MoPepGen.Driver.C19

/-- `--order-source` as the CLIs read it; `none` = the "Non-unique value" ValueError -/
def parseOrder (s : String) : Option Order :=
  if s == "-" then some []
  else
    let items := s.splitOn ","
    let rec go (i : Nat) (acc : Order) : List String → Option Order
      | [] => some acc
      | v :: vs =>
        let k : OKey := if v.contains '-' then .many (ofList (v.splitOn "-")) else .one v
        if acc.has k then none else go (i + 1) (acc ++ [(k, i)]) vs
    go 0 [] items

/-- a level map given explicitly: `A=0,B=0,A-B=1` (keys with `-` are frozensets); later
duplicates of a key overwrite the level in place, like a dict literal built by assignment -/
def parseLevels (s : String) : Option Order :=
  if s == "-" then some []
  else
    (s.splitOn ",").foldlM (fun (acc : Order) kv =>
      match kv.splitOn "=" with
      | [k, v] =>
        match v.toNat? with
        | none => none
        | some n =>
          let key : OKey := if k.contains '-' then .many (ofList (k.splitOn "-")) else .one k
          if acc.has key then some (acc.map fun e => if e.1.same key then (e.1, n) else e)
          else some (acc ++ [(key, n)])
      | _ => none) []

/-- `--group-source` values: `key:val1,val2` -/
def parseGroup (s : String) : GroupMap :=
  if s == "-" then []
  else (s.splitOn " ").flatMap fun it =>
    match it.splitOn ":" with
    | [k, vals] => (vals.splitOn ",").map fun v => (v, k)
    | _ => []

def parseAdditional (s : String) : List SrcSet :=
  if s == "-" then [] else (s.splitOn " ").map fun x => ofList (x.splitOn "-")

def parseTx2gene (s : String) : List (Field × Field) :=
  (splitList s ',').filterMap fun kv =>
    match kv.splitOn "=" with
    | [k, v] => some (k.toList, v.toList)
    | _ => none

def parseGvfs (s : String) : List Gvf :=
  (splitList s ';').filterMap fun g =>
    match g.splitOn "@" with
    | [src, parser, labels] =>
      some { source := src, parser := parser,
             labels := (splitList labels ',').filterMap fun gl =>
               match gl.splitOn "~" with
               | [a, b] => some (a.toList, b.toList)
               | _ => none }
    | _ => none

/-- files separated by the field "//" ; each file = seq, header, seq, header … -/
def parseFiles (xs : List String) : List (List PRec) :=
  let rec go (cur : List String) (acc : List (List PRec)) : List String → List (List PRec)
    | [] => acc ++ [parsePool cur.reverse]
    | "//" :: rest => go [] (acc ++ [parsePool cur.reverse]) rest
    | x :: rest => go (x :: cur) acc rest
  go [] [] xs

def sortedHeaderStr (h : List Entry) : String :=
  joinWith " " ((h.map entryStr).toArray.qsort (· < ·)).toList

def dbStr (d : DbKey × List PRec) : String :=
  d.1.render ++ "=>" ++ joinWith ";" (sortDedupStr (d.2.map fun p =>
    String.ofList p.seq ++ ":" ++ sortedHeaderStr p.header))

def rowStr (name : String) (e : Option (Nat × List (Nat × Nat))) (maxMisc : Nat) : String :=
  match e with
  | none => name ++ ":0:" ++ joinWith "," ((List.range (maxMisc + 1)).map fun _ => "0")
  | some (n, m) => name ++ ":" ++ toString n ++ ":" ++
      joinWith "," ((List.range (maxMisc + 1)).map fun x =>
        toString ((m.lookup x).getD 0))

def handle (args : List String) : String :=
  match args with
  | "split" :: order :: group :: maxG :: addl :: t2g :: gvfs :: files =>
    match parseOrder order, maxG.toInt? with
    | none, _ => "crash:ValueError"
    | _, none => "bad-cfg"
    | some o0, some mg =>
      let x : CliOpts := { order0 := o0, group := parseGroup group, gvfs := parseGvfs gvfs,
                           tx2gene := parseTx2gene t2g }
      let pool := mergePools (parseFiles files)
      match cliSplit x mg (parseAdditional addl) pool with
      | .error e => crash e
      | .ok dbs => joinWith "##" (sortDedupStr (dbs.map dbStr))
  | "summarize" :: order :: group :: enzyme :: ignoreMissing :: t2g :: gvfs :: files =>
    match parseOrder order, enzymeRules enzyme with
    | none, _ => "crash:ValueError"
    | _, none => "bad-cfg"
    | some o0, some (rule, exc) =>
      let g := parseGroup group
      let gv := parseGvfs gvfs
      let x : CliOpts := { order0 := o0, group := g, gvfs := gv, tx2gene := parseTx2gene t2g }
      let pool := mergePools (parseFiles files)
      let o := x.order
      match cliSummarize x rule exc pool with
      | .error e => crash e
      | .ok t =>
        let maxMisc := t.foldl (fun m e => e.2.2.foldl (fun m' kv => max m' kv.1) m) 0
        let present : SrcSet := t.foldl (fun s e => e.1.foldl (fun s x => setInsert x s) s) []
        let sources := o.plain
        let parserOf := gv.map fun f => (f.source, f.parser)
        let combs := (List.range sources.length).flatMap fun i => combos (i + 1) sources
        let rows := combs.foldl (fun (acc : Option (List String)) comb =>
          match acc with
          | none => none
          | some rs =>
            if parseBool ignoreMissing && comb.any (fun k => !present.contains k) then some rs
            else
              match containsExclusive g parserOf comb with
              | none => none
              | some true => some rs
              | some false => some (rs ++ [rowStr ("-".intercalate comb) (t.get comb) maxMisc]))
          (some [])
        match rows with
        | none => "crash:KeyError"
        | some rs => joinWith ";" rs
  | "merge" :: dedup :: files =>
    let pool := mergePools (parseFiles files)
    let pool := if parseBool dedup then pool.map fun p => { p with header := dedupHeader p.header }
                else pool
    joinWith ";" (sortDedupStr (pool.map recStr))
  | "encode" :: decoy :: pos :: recs =>
    let rec pairs : List String → List (List Char × Pep)
      | h :: s :: rest => (h.toList, s.toList) :: pairs rest
      | _ => []
    let c : DecoyCfg := { str := decoy.toList, prefixPos := pos == "prefix" }
    let st := encode c (fun k => ("U" ++ toString k).toList) (pairs recs)
    joinWith ";" (st.out.map fun r => String.ofList r.1 ++ ":" ++ String.ofList r.2) ++ "##" ++
      joinWith ";" (st.dict.map fun r => String.ofList r.1 ++ "=" ++ String.ofList r.2)
  | ["gt", order, a, b] =>
    match parseOrder order with
    | none => "crash:ValueError"
    | some o =>
      let sa := ofList (splitList a '-')
      let sb := ofList (splitList b '-')
      match srcGt o sa sb with
      | some true => "1"
      | some false => "0"
      | none => "crash:KeyError"
  | ["gtl", levels, a, b] =>
    match parseLevels levels with
    | none => "bad-cfg"
    | some o =>
      match srcGt o (splitList a '-') (splitList b '-') with
      | some true => "1"
      | some false => "0"
      | none => "crash:KeyError"
  | ["tointl", levels, a] =>
    match parseLevels levels with
    | none => "bad-cfg"
    | some o =>
      match toInt o (splitList a '-') with
      | some l => joinWith "," (l.map toString)
      | none => "crash:KeyError"
  | "decode" :: decoy :: pos :: rest =>
    let c : DecoyCfg := { str := decoy.toList, prefixPos := pos == "prefix" }
    let rec go (dict : List (List Char × List Char)) : List String → String
      | "//" :: outs =>
        joinWith ";" (outs.map fun h =>
          match decode c dict.reverse h.toList with
          | some x => String.ofList x
          | none => "?")
      | i :: h :: more => go ((i.toList, h.toList) :: dict) more
      | _ => "bad-op"
    go [] rest
  | ["toint", order, a] =>
    match parseOrder order with
    | none => "crash:ValueError"
    | some o =>
      match toInt o (ofList (splitList a '-')) with
      | some l => joinWith "," (l.map toString)
      | none => "crash:KeyError"
  | _ => "bad-op"

end MoPepGen.Driver.C18
