import MoPepGen.Model.Rmats
import MoPepGen.Model.RmatsSpec
import MoPepGen.Driver.Util
import MoPepGen.Driver.C11
/-! Line protocol of C16 (parseRMATS).

```
C16 <ev> <strand> <gene s-e> <tx1 exons;tx2 exons;…> <event ints ,> <minIjc> <minSjc>
      ev ∈ se a5ss a3ss mxe ri   → sorted `tx:K:start:stop:dstart:dstop` joined by ","
                                    ("-" when empty) or `X:<ExceptionType>`
C16 aln <strand> <gene> <exons> <us,ue,ds,de> <un> <dn>
      → `none` | `usi,uei,dsi,dei|inter|upSpan|downSpan|records`
C16 novel <tx exons;…> <ue> <ds>         → 1/0
C16 apply <strand> <gene> <exons> <chrom> <K:start:stop:dstart:dstop>   → sequence
```
-/
namespace MoPepGen.Driver.C16
open MoPepGen MoPepGen.Driver MoPepGen.Rmats
open MoPepGen.Driver.C11 (parseStrand parseIv parseIvs)

def kindStr : Kind → String
  | .deletion => "D"
  | .insertion => "I"
  | .substitution => "S"

def recStr (r : ASRec) : String :=
  s!"{kindStr r.kind}:{r.start}:{r.stop}:{r.donorStart}:{r.donorStop}"

def errStr : Err → String
  | .valueError => "X:ValueError"
  | .indexError => "X:IndexError"

def sortStr (l : List String) : List String := (l.toArray.qsort (· < ·)).toList

def outRecs : Except Err (List (Nat × ASRec)) → String
  | .error e => errStr e
  | .ok l =>
    if l.isEmpty then "-"
    else joinWith "," (sortStr (l.map fun (i, r) => s!"{i}:{recStr r}"))

def parseNats (s : String) : Option (List Nat) := (splitList s ',').mapM (·.toNat?)

def parseTxs (st : Strand) (s : String) : Option (List Transcript) :=
  (splitList s ';').mapM fun x => do pure ⟨st, ← parseIvs x⟩

def parseKind (s : String) : Option Kind :=
  if s == "D" then some .deletion else if s == "I" then some .insertion
  else if s == "S" then some .substitution else none

def parseRec (s : String) : Option ASRec :=
  match s.splitOn ":" with
  | [k, a, b, c, d] => do
    pure ⟨← parseKind k, ← a.toNat?, ← b.toNat?, ← c.toNat?, ← d.toNat?⟩
  | _ => none

def intList (xs : List Int) : String := joinWith "," (xs.map toString)

def event (ev : String) (g : Gene) (txs : List Transcript) (v : List Nat) (mi ms : Nat) :
    String :=
  match ev, v with
  | "se", [es, ee, us, ue, ds, de, ijc, sjc] =>
    outRecs (seConvert ⟨es, ee, us, ue, ds, de, ijc, sjc⟩ g txs mi ms)
  | "a5ss", [ls, le, ss, se, fs, fe, ijc, sjc] =>
    outRecs (a5Convert ⟨ls, le, ss, se, fs, fe, ijc, sjc⟩ g txs mi ms)
  | "a3ss", [ls, le, ss, se, fs, fe, ijc, sjc] =>
    outRecs (a3Convert ⟨ls, le, ss, se, fs, fe, ijc, sjc⟩ g txs mi ms)
  | "mxe", [f1s, f1e, f2s, f2e, us, ue, ds, de, ijc, sjc] =>
    outRecs (mxeConvert ⟨f1s, f1e, f2s, f2e, us, ue, ds, de, ijc, sjc⟩ g txs mi ms)
  | "ri", [_, _, us, ue, ds, de, ijc, sjc] =>
    outRecs (riConvert ⟨us, ue, ds, de, ijc, sjc⟩ g txs mi ms)
  | _, _ => "bad-event"

def handle (args : List String) : String :=
  match args with
  | ["aln", st, gv, exs, jn, un, dn] =>
    match parseStrand st, parseIv gv, parseIvs exs, parseNats jn with
    | some s, some gl, some es, some [us, ue, ds, de] =>
      let g : Gene := ⟨s, gl⟩
      let t : Transcript := ⟨s, es⟩
      match align ⟨us, ue, ds, de⟩ es (parseBool un) (parseBool dn) with
      | none => "none"
      | some a =>
        let inter := match getInterjacent a es with
          | .ok l => natList l
          | .error e => errStr e
        let recs := match convertAln a g t with
          | .ok l => if l.isEmpty then "-" else joinWith "," (l.map recStr)
          | .error e => errStr e
        intList [a.usi, a.uei, a.dsi, a.dei] ++ "|" ++ inter ++ "|"
          ++ toString (getUpstreamEndSpanning a es) ++ "|"
          ++ toString (getDownstreamStartSpanning a es) ++ "|" ++ recs
    | _, _, _, _ => "bad-args"
  | ["novel", txs, ue, ds] =>
    match parseTxs .plus txs, ue.toNat?, ds.toNat? with
    | some ts, some a, some b => if isNovel ts ⟨0, a, b, 0⟩ then "1" else "0"
    | _, _, _ => "bad-args"
  | ["apply", st, gv, exs, chrom, r] =>
    match parseStrand st, parseIv gv, parseIvs exs, parseRec r with
    | some s, some gl, some es, some rc =>
      let g : Gene := ⟨s, gl⟩
      let c := chrom.toList
      String.ofList (applyAS g es (seqOfExons c s es) (geneSeq c g) rc)
    | _, _, _, _ => "bad-args"
  | [ev, st, gv, txs, v, mi, ms] =>
    match parseStrand st, parseIv gv, parseNats v, mi.toNat?, ms.toNat? with
    | some s, some gl, some vs, some i, some j =>
      match parseTxs s txs with
      | some ts => event ev ⟨s, gl⟩ ts vs i j
      | none => "bad-args"
    | _, _, _, _, _ => "bad-args"
  | _ => "bad-op"

end MoPepGen.Driver.C16
