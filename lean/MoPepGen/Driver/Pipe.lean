import MoPepGen.Model.Pipeline
import MoPepGen.Generated.Weights
import MoPepGen.Driver.Util
namespace MoPepGen.Driver.Pipe
open MoPepGen MoPepGen.Pipe MoPepGen.Driver

def parseEntry (e : String) : Pep × List Label :=
  match e.splitOn "~" with
  | [] => ([], [])
  | p :: ls => (p.toList, ls.map String.toNat!)

def parseUnit (s : String) : UnitRes :=
  if s == "!" then none
  else some ((splitList (s.drop 1).toString ',').map parseEntry)

def parseUnits (s : String) : List UnitRes := (splitList s '+').map parseUnit

def parseTx (s : String) : Option TxUnits :=
  if s == "-" then none else
  match s.splitOn "/" with
  | [hm, m, fs, cs] =>
    some { hasMain := parseBool hm, main := parseUnit m, fusions := parseUnits fs, circs := parseUnits cs }
  | _ => none

def showEntry (e : Pep × List Label) : String :=
  joinWith "~" (String.ofList e.1 :: e.2.map toString)

def sortNat (l : List Nat) : List Nat := (l.toArray.qsort (· < ·)).toList

def handle (args : List String) : String :=
  match args with
  | ["run", threads, skip, minMw, minLen, maxLen, canon, txs] =>
    let c : Limits := {
      minMw := minMw.toInt!, minLen := minLen.toNat!, maxLen := maxLen.toNat!,
      tab := Generated.proteinWeights, water := Generated.waterWeight,
      canonical := (splitList canon ',').map String.toList }
    let gathered := (splitList txs ';').map parseTx
    let th := threads.toNat!
    let idx := (List.range gathered.length).zip gathered |>.map fun (i, g) => g.map fun _ => i
    let batches := dispatch th idx
    let bs := joinWith "|" (batches.map natList)
    match runAll c (parseBool skip) th gathered with
    | none => "abort"
    | some (t, ty) =>
      let fa := joinWith "," (sortDedupStr (t.fasta.map fun (s, ls) => showEntry (s, sortNat ls)))
      let rows := joinWith "," (sortDedupStr (t.rows.map fun (s, l) => showEntry (s, [l])))
      s!"ok B={bs} F={fa} R={rows} T={ty.processed},{ty.failedVariant},{ty.failedFusion},{ty.failedCirc},{ty.totalPeptides},{t.index.length}"
  | ["poolvalid", minMw, minLen, maxLen, canon, seqs] =>
    let c : Limits := {
      minMw := minMw.toInt!, minLen := minLen.toNat!, maxLen := maxLen.toNat!,
      tab := Generated.proteinWeights, water := Generated.waterWeight,
      canonical := (splitList canon ',').map String.toList }
    match (splitList seqs ',').find? (fun s => isValid c s.toList != some true) with
    | none => "all-valid"
    | some s => s!"invalid:{s}"
  | ["dispatch", threads, pattern] =>
    -- pattern: string of 0/1 (1 = gathered, 0 = skipped)
    let g := pattern.toList.zipIdx.map fun (ch, i) => if ch == '1' then some i else none
    joinWith "|" ((dispatch threads.toNat! g).map natList)
  | ["reducer", mv, av, pattern] =>
    -- pattern of 0/1 per attempt: 1 = that attempt times out
    let mvL := (splitList mv ',').map String.toInt!
    let avL := (splitList av ',').map String.toInt!
    let pat := pattern.toList
    let timesOut := fun k => pat.getD k '0' == '1'
    match reducer timesOut (pat.length + 1) 0 mvL avL (mvL.headD 0, avL.headD 0) with
    | none => "fail"
    | some (a, b) => s!"{a},{b}"
  | _ => "bad-op"

end MoPepGen.Driver.Pipe
