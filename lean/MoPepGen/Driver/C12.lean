import MoPepGen.Model.IndexDir
import MoPepGen.Driver.Util
/-!
Line protocol for C12 (index directory).

`C12 \t seq \t py|bio|mpg|minimal \t a,b,<params>=fp;… \t op;op;…`

* `<params>` = `enzyme,exc,misc,minMw(1/1000 Da),minLen,maxLen`, `exc = -` for `None`;
* ops: `gen:r:force:symlink:<params>` · `upd:force:<params>` · `load:<params>` ·
  `tamper:py:bio:mpg`;
* the pool table gives, for annotation-ref `a`, proteome-ref `b` and raw arguments, the
  fingerprint of the pool `create_unique_peptide_pool` returns (computed by the harness
  directly, not through the index).

Output: outcome of the LAST op ` # ` canonical metadata ` # ` sorted `name=content` listing.
-/
namespace MoPepGen.Driver.C12
open MoPepGen MoPepGen.IndexDir MoPepGen.Driver

def parseParams (s : String) : Option Params :=
  match s.splitOn "," with
  | [enz, exc, misc, mw, mn, mx] => do
    let misc ← misc.toInt?
    let mw ← mw.toInt?
    let mn ← mn.toInt?
    let mx ← mx.toInt?
    pure { enzyme := enz, exc := if exc == "-" then none else some exc,
           misc := misc, minMw := mw, minLen := mn, maxLen := mx }
  | _ => none

def showParams (p : Params) : String :=
  s!"{p.enzyme},{p.exc.getD "-"},{p.misc},{p.minMw},{p.minLen},{p.maxLen}"

def parseOp (s : String) : Option Op :=
  match s.splitOn ":" with
  | ["gen", r, f, l, p] => do
    let p ← parseParams p
    pure (.gen r.toNat! p (parseBool f) (parseBool l))
  | ["upd", f, p] => do
    let p ← parseParams p
    pure (.upd p (parseBool f))
  | ["load", p] => do
    let p ← parseParams p
    pure (.load p)
  | ["tamper", py, bio, mpg] => some (.tamper { py := py, bio := bio, mpg := mpg })
  | _ => none

def parseTable (s : String) : List ((Nat × Nat × Params) × String) :=
  (splitList s ';').filterMap fun ent =>
    match ent.splitOn "=" with
    | [k, fp] =>
      match k.splitOn "," with
      | a :: b :: rest =>
        (parseParams (joinWith "," rest)).map fun p => ((a.toNat!, b.toNat!, p), fp)
      | _ => none
    | _ => none

def mkEnv (ver tab : String) : Option (Env String) :=
  match ver.splitOn "|" with
  | [py, bio, mpg, minimal] =>
    let t := parseTable tab
    some { cur := { py := py, bio := bio, mpg := mpg }, minimal := minimal,
           poolRaw := fun a b p => (t.lookup (a, b, p)).getD "?" }
  | _ => none

def showBlob : Blob String → String
  | .data r => s!"d{r}"
  | .pool x => s!"p{x}"
  | .link _ c => s!"l{c}"

/-- what is read through the file (a symlinked GTF reads as its target's content) -/
def showRead (b : Blob String) : String :=
  match b.ref with
  | some r => s!"d{r}"
  | none => showBlob b

def showSrc : Option Nat → String
  | none => "-"
  | some _ => "s"

def showOutcome : Outcome String → String
  | .done => "ok"
  | .loaded x => s!"ok:pool={showBlob x.pool},genome={showRead x.genome},anno={showRead x.anno}," ++
      s!"src={showSrc x.source},prot={showRead x.proteome}"
  | .rejectExists => "reject:exists"
  | .rejectNoPool => "reject:no-pool"
  | .rejectBadVersion => "reject:bad-version"
  | .crashFileExists => "crash:FileExistsError"
  | .crashSameFile => "crash:SameFileError"
  | .crashFileNotFound => "crash:FileNotFoundError"
  | .crashValueError => "crash:ValueError"
  | .crashOther => "crash:other"

def showMeta : Option Meta → String
  | none => "none"
  | some m =>
    s!"{m.version.py}|{m.version.bio}|{m.version.mpg}|{showSrc m.source}|" ++
    joinWith ";" (m.pools.map fun en => s!"{en.filename.render},{en.index},{showParams en.key}")

def showFiles (fs : Files String) : String :=
  joinWith "," (sortDedupStr (fs.map fun (n, b) => s!"{n.render}={showBlob b}"))

def runLast (e : Env String) : State String → List Op → State String × String
  | s, [] => (s, "-")
  | s, [o] => let r := step e s o; (r.1, showOutcome r.2)
  | s, o :: os => runLast e (step e s o).1 os

def handle (args : List String) : String :=
  match args with
  | ["seq", ver, tab, ops] =>
    match mkEnv ver tab, (splitList ops ';').mapM parseOp with
    | some e, some os =>
      let (s, out) := runLast e State.empty os
      s!"{out} # {showMeta s.md} # {showFiles s.files}"
    | _, _ => "bad-args"
  | ["semver", v] =>
    match getSemver v with
    | none => "crash:ValueError"
    | some l => natList l
  | ["valid", ver, py, bio, mpg] =>
    match ver.splitOn "|" with
    | [cpy, cbio, cmpg, minimal] =>
      match isValid { py := cpy, bio := cbio, mpg := cmpg } minimal
          (fillVersion { py := cpy, bio := cbio, mpg := cmpg } { py := py, bio := bio, mpg := mpg }) with
      | none => "crash:ValueError"
      | some b => if b then "valid" else "invalid"
    | _ => "bad-args"
  | _ => "bad-op"

end MoPepGen.Driver.C12
