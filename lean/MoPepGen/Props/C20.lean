import MoPepGen.Lemmas.Decoy
import MoPepGen.Props.C10
import MoPepGen.Generated.Expasy
/-!
# C20 — decoyFasta: one faithful, reproducible decoy per target

Property theorems only.  `fixedIndices`, `reverseSeq`, `shuffleSeq`, `retry`, `genAll`,
`sortRecs`, `arrange`, `run` (Model/Decoy.lean) are the models of
`moPepGen/cli/decoy_fasta.py`, tied to /repo by the correspondence streams `fixed`,
`reverse`, `shuffle`, `run` of harness/c20.py.  `MustKeep`, `movSub`, `IsDecoyOf`, `Paired`
and the right-hand sides below are the definitions the property text speaks about.

The value returned by `random.sample` is a universally quantified parameter (`π`, `perms`).
Reproducibility for a seed is therefore the statement that `run` is a function of
(options, targets, draws); that the same seed gives the same draws is checked at run time.
-/
namespace MoPepGen.Props.C20
open MoPepGen MoPepGen.Decoy

/-! ## the rearrangement (reverse_sequence / shuffle_sequence) -/

/-- Well-formedness of a `random.sample` result: a rearrangement of the movable indices. -/
def ValidSample (seq : Pep) (fixed π : List Nat) : Prop := π.Perm (movable seq.length fixed)

instance (seq : Pep) (fixed π : List Nat) : Decidable (ValidSample seq fixed π) :=
  decidable_of_iff _ List.isPerm_iff

/-- For every sequence, every list of fixed indices (duplicates and out-of-range values
included) and every rearrangement `π` of the movable indices, the `while` loop with `offset`
and the trailing slice does not raise, and its result has the residues of the input (same
multiset, same length). -/
theorem decoy_is_perm (seq : Pep) (fixed π : List Nat) (h : ValidSample seq fixed π) :
    ∃ out, weave seq fixed π = some out ∧ out.Perm seq ∧ out.length = seq.length := by
  obtain ⟨out, h1, h2, _, _, _, h6⟩ := weave_spec seq fixed π ' ' h
  exact ⟨out, h1, h6, h2⟩

/-- … and every fixed position carries the input residue (`out[i]? = seq[i]?` also covers a
fixed index beyond the end: both sides are `none`). -/
theorem decoy_keeps_fixed (seq : Pep) (fixed π : List Nat) (h : ValidSample seq fixed π) :
    ∃ out, weave seq fixed π = some out ∧ ∀ i, i ∈ fixed → out[i]? = seq[i]? := by
  obtain ⟨out, h1, _, _, _, h5, _⟩ := weave_spec seq fixed π ' ' h
  exact ⟨out, h1, h5⟩

/-- … and the movable positions carry `seq[π[0]], seq[π[1]], …` in this order:
`out[p] = if p ∈ fixed then seq[p] else seq[π[rank p]]`. -/
theorem decoy_movable_spec (seq : Pep) (fixed π : List Nat) (h : ValidSample seq fixed π) :
    ∃ out, weave seq fixed π = some out ∧ fixSub fixed out = fixSub fixed seq ∧
      movSub fixed out = π.map (fun j => seq.getD j ' ') := by
  obtain ⟨out, h1, _, h3, h4, _, _⟩ := weave_spec seq fixed π ' ' h
  exact ⟨out, h1, h3, h4⟩

/-- `shuffle_sequence` with a well-formed draw is that rearrangement. -/
theorem shuffle_eq_weave (seq : Pep) (fixed π : List Nat) (h : ValidSample seq fixed π) :
    shuffleSeq seq fixed π = weave seq fixed π := by
  unfold shuffleSeq
  rw [if_pos (List.isPerm_iff.mpr h)]

/-- `reverse_sequence` never raises; the result has the input's length and residues, keeps
every fixed position, and its movable subsequence is the input's movable subsequence
reversed (these facts determine the result). -/
theorem reverse_spec (seq : Pep) (fixed : List Nat) :
    ∃ out, reverseSeq seq fixed = some out ∧ out.length = seq.length ∧ out.Perm seq ∧
      (∀ i, i ∈ fixed → out[i]? = seq[i]?) ∧
      movSub fixed out = (movSub fixed seq).reverse := by
  obtain ⟨out, h1, h2, _, h4, h5, h6⟩ :=
    weave_spec seq fixed (movable seq.length fixed).reverse ' ' (List.reverse_perm _)
  refine ⟨out, h1, h2, h6, h5, ?_⟩
  rw [h4, List.map_reverse, ← movSub_eq_map]

/-! ## which positions are fixed (find_fixed_indices) -/

theorem mem_siteIndices (c : Cfg) (hoff : c.off = 1) (s : Pep) (i : Nat) :
    i ∈ c.siteIndices s ↔ ∃ r, c.enzyme = some r ∧ isSite r c.exc s (i + 1) = true := by
  unfold Cfg.siteIndices
  cases c.enzyme with
  | none => simp
  | some r =>
    simp only [hoff, List.mem_map, Option.some.injEq, exists_eq_left']
    constructor
    · rintro ⟨a, ha, rfl⟩
      have hb := C10.sites_bounds r c.exc s a ha
      rw [C10.sites_eq_isSite] at ha
      have e : a - 1 + 1 = a := by omega
      rw [e]; exact (List.mem_filter.mp ha).2
    · intro h
      refine ⟨i + 1, ?_, by omega⟩
      rw [C10.sites_eq_isSite, List.mem_filter, List.mem_range]
      refine ⟨?_, h⟩
      have hm : r.matchAt s i = true := by
        simp only [isSite, Nat.add_sub_cancel, Bool.and_eq_true] at h
        exact h.1.2
      have := Re.matchAt_lt hm
      omega

/-- **fixed_spec** (repaired behaviour, `off = 1`): `find_fixed_indices` returns exactly the
positions the property names — the N-terminus / C-terminus when requested, every listed
residue, and the residue at each cleavage site (the residue consumed by the rule's match,
i.e. the one after which the chain is cut) — for every rule, exception, option set and
sequence. -/
theorem fixed_spec (c : Cfg) (hoff : c.off = 1) (s : Pep) (i : Nat) :
    i ∈ fixedIndices c s ↔ MustKeep c.enzyme c.exc c.keepN c.keepC c.pats s i := by
  unfold fixedIndices MustKeep
  rw [List.mem_append, mem_siteIndices c hoff, mem_scanFrom]
  constructor
  · rintro (⟨r, hr, hs⟩ | ⟨k, ch, rfl, hget, hk⟩)
    · refine ⟨?_, Or.inr (Or.inr (Or.inr ⟨r, hr, hs⟩))⟩
      have hm : r.matchAt s i = true := by
        simp only [isSite, Nat.add_sub_cancel, Bool.and_eq_true] at hs
        exact hs.1.2
      exact Re.matchAt_lt hm
    · rw [Nat.zero_add] at hk ⊢
      have hlt : k < s.length := by
        rcases Nat.lt_or_ge k s.length with h | h
        · exact h
        · rw [List.getElem?_eq_none h] at hget; cases hget
      refine ⟨hlt, ?_⟩
      simp only [Cfg.keepAt, Bool.or_eq_true, Bool.and_eq_true, beq_iff_eq,
        List.contains_iff_mem] at hk
      rcases hk with (⟨h0, hn⟩ | ⟨h1, hc⟩) | hp
      · exact Or.inl ⟨h0, hn⟩
      · exact Or.inr (Or.inl ⟨h1, hc⟩)
      · exact Or.inr (Or.inr (Or.inl ⟨ch, hget, hp⟩))
  · rintro ⟨hlt, h⟩
    rcases h with ⟨h0, hn⟩ | ⟨h1, hc⟩ | ⟨ch, hget, hp⟩ | ⟨r, hr, hs⟩
    · right
      refine ⟨i, s[i], by omega, List.getElem?_eq_getElem hlt, ?_⟩
      simp [Cfg.keepAt, h0, hn]
    · right
      refine ⟨i, s[i], by omega, List.getElem?_eq_getElem hlt, ?_⟩
      simp [Cfg.keepAt, h1, hc]
    · right
      refine ⟨i, ch, by omega, hget, ?_⟩
      simp only [Cfg.keepAt, Bool.or_eq_true, List.contains_iff_mem]
      exact Or.inr hp
    · exact Or.inl ⟨r, hr, hs⟩

/-- A site under an exception is a site without it: an implementation that ignores the
exception (as the never-matching name `'trypsin_expection'` makes the unchanged tree do)
only keeps MORE positions, which the property allows. -/
theorem mustKeep_mono_exc (enzyme : Option Re) (e : Re) (kn kc : Bool) (pats : List (List Char))
    (s : Pep) (i : Nat) (h : MustKeep enzyme (some e) kn kc pats s i) :
    MustKeep enzyme none kn kc pats s i := by
  obtain ⟨hlt, h⟩ := h
  refine ⟨hlt, ?_⟩
  rcases h with h | h | h | ⟨r, hr, hs⟩
  · exact Or.inl h
  · exact Or.inr (Or.inl h)
  · exact Or.inr (Or.inr (Or.inl h))
  · refine Or.inr (Or.inr (Or.inr ⟨r, hr, ?_⟩))
    simp only [isSite, Bool.and_eq_true] at hs ⊢
    exact ⟨hs.1, by simp⟩

/-- trypsin as the translator read it from `EXPASY_RULES` -/
def trypsin : Re := (Generated.expasyRules.lookup "trypsin").getD []

/-- the options of the witness: `--enzyme trypsin`, nothing else kept; `off = 0` is the
unchanged tree (`fixed_indices += find_all_enzymatic_cleave_sites(...)`) -/
def asIs : Cfg :=
  { enzyme := some trypsin, exc := none, off := 0, keepN := false, keepC := false, pats := [[]] }

def akaar : Pep := ['A', 'K', 'A', 'A', 'R']

/-- **Defect witness (unchanged tree, `off = 0`).** On `AKAAR` with trypsin the code as it is
fixes index 2 (an `A`), not index 1 (the `K` at the cleavage site), and the reversal moves
that `K` to index 3. -/
theorem fixed_index_is_site_not_residue :
    fixedIndices asIs akaar = [2] ∧
    isSite trypsin none akaar 2 = true ∧
    reverseSeq akaar (fixedIndices asIs akaar) = some ['R', 'A', 'A', 'K', 'A'] := by
  decide

/-- **Negation of `fixed_spec` for the model of the code as it is**: with `off = 0` the
returned indices are NOT the positions the property names. -/
theorem fixed_spec_fails_as_is :
    ¬ ∀ (c : Cfg) (s : Pep) (i : Nat), c.off = 0 →
        (i ∈ fixedIndices c s ↔ MustKeep c.enzyme c.exc c.keepN c.keepC c.pats s i) := by
  intro h
  have h1 := (h asIs akaar 1 rfl).mpr
    ⟨by decide, Or.inr (Or.inr (Or.inr ⟨trypsin, rfl, by decide⟩))⟩
  revert h1
  decide

/-- … and therefore the decoy of the as-is model does not keep the residue at the cleavage
site, while the repaired model (`off = 1`) does. -/
theorem as_is_moves_cleavage_residue :
    (reverseSeq akaar (fixedIndices asIs akaar)).map (·[1]?) = some (some 'A') ∧
    (reverseSeq akaar (fixedIndices { asIs with off := 1 } akaar)).map (·[1]?) = some (some 'K') := by
  decide

/-! ## the collision retry -/

/-- The `while True` loop of `generate_decoy_sequence` makes at least one and at most
`max(1, shuffle_max_attempts)` attempts, consumes exactly one draw per attempt, returns a
decoy produced by `shuffle_sequence` from one of the draws, and that decoy collides with the
pools only if every allowed attempt was used (which is when `n_overlap` is incremented). -/
theorem retry_bounded (seq : Pep) (fixed : List Nat) (inPool : Pep → Bool) (maxAtt : Nat)
    (perms : List (List Nat)) (d : Pep) (att : Nat) (ov : Bool) (rest : List (List Nat))
    (h : retry seq fixed inPool maxAtt 0 perms = some (d, att, ov, rest)) :
    1 ≤ att ∧ att ≤ max 1 maxAtt ∧ perms.length = rest.length + att ∧
    (ov = false → inPool d = false) ∧ (ov = true → inPool d = true ∧ maxAtt ≤ att) ∧
    ∃ π, π ∈ perms ∧ ValidSample seq fixed π ∧ weave seq fixed π = some d := by
  obtain ⟨h1, h2, h3, h4, h5, π, hπ, hs⟩ := retry_spec seq fixed inPool maxAtt perms 0 d att ov rest h
  obtain ⟨hp, hw⟩ := shuffleSeq_some hs
  refine ⟨by omega, ?_, by omega, h4, h5, π, hπ, hp, hw⟩
  rcases h3 with h3 | h3
  · rw [h3]; exact Nat.le_max_left _ _
  · exact Nat.le_trans h3 (Nat.le_max_right _ _)

/-! ## the run -/

/-- What a run returns: the targets sorted by sequence, and a decoy list paired with them
position by position, arranged by the order mode. For any options (also `off = 0`): the
positions kept are those `find_fixed_indices` returns. -/
theorem run_shape (c : RunCfg) (targets : List Rec) (perms : List (List Nat))
    (out : List Rec) (n left : Nat) (h : run c targets perms = some (out, n, left)) :
    ∃ D, out = arrange c.order (sortRecs targets) D ∧
      Paired (IsDecoyOf c (fun s i => i ∈ fixedIndices c.toCfg s)) (sortRecs targets) D := by
  unfold run at h
  simp only at h
  cases hg : genAll c ((sortRecs targets).map (·.seq)) (sortRecs targets) [] perms with
  | none => simp [hg] at h
  | some r =>
    obtain ⟨D, n', rest⟩ := r
    simp only [hg, Option.some.injEq, Prod.mk.injEq] at h
    exact ⟨D, h.1.symm, genAll_spec c _ _ _ _ _ _ _ hg⟩

/-- **one_decoy_per_target** (repaired behaviour): the decoys are paired one-to-one with the
targets; each decoy's header is the target's header with the decoy string attached (prefix
or suffix), its sequence is a rearrangement of the target's residues of the same length, and
every position the property names (`MustKeep`) carries the target's residue. -/
theorem one_decoy_per_target (c : RunCfg) (hoff : c.off = 1) (targets : List Rec)
    (perms : List (List Nat)) (out : List Rec) (n left : Nat)
    (h : run c targets perms = some (out, n, left)) :
    ∃ D, out = arrange c.order (sortRecs targets) D ∧ D.length = targets.length ∧
      Paired (IsDecoyOf c (MustKeep c.enzyme c.exc c.keepN c.keepC c.pats)) (sortRecs targets) D := by
  obtain ⟨D, h1, h2⟩ := run_shape c targets perms out n left h
  refine ⟨D, h1, ?_, ?_⟩
  · rw [h2.length_eq, (sortRecs_perm targets).length_eq]
  · have mono : ∀ T D, Paired (IsDecoyOf c (fun s i => i ∈ fixedIndices c.toCfg s)) T D →
        Paired (IsDecoyOf c (MustKeep c.enzyme c.exc c.keepN c.keepC c.pats)) T D := by
      intro T
      induction T with
      | nil => intro D h; cases D <;> exact h
      | cons t ts ih =>
        intro D h
        cases D with
        | nil => exact h
        | cons d ds =>
          obtain ⟨⟨a, b, e, k⟩, h'⟩ := h
          exact ⟨⟨a, b, e, fun i hi => k i ((fixed_spec c.toCfg hoff t.seq i).mpr hi)⟩, ih ds h'⟩
    exact mono _ _ h2

theorem interleave_perm : ∀ (T D : List Rec), D.length = T.length → (interleave T D).Perm (T ++ D)
  | [], [], _ => by simp [interleave]
  | [], _ :: _, h => by simp at h
  | _ :: _, [], h => by simp at h
  | t :: ts, d :: ds, h => by
    have ih := interleave_perm ts ds (by simpa using h)
    simp only [interleave, List.cons_append]
    exact ((ih.cons d).trans List.perm_middle.symm).cons t

/-- **targets_unchanged**: as a multiset of records the output is the input targets, each
unchanged (same header, same sequence), plus the decoys — one per target. -/
theorem targets_unchanged (c : RunCfg) (targets : List Rec) (perms : List (List Nat))
    (out : List Rec) (n left : Nat) (h : run c targets perms = some (out, n, left)) :
    ∃ D, out.Perm (targets ++ D) ∧ D.length = targets.length := by
  obtain ⟨D, h1, h2⟩ := run_shape c targets perms out n left h
  have hl : D.length = (sortRecs targets).length := h2.length_eq
  refine ⟨D, ?_, by rw [hl, (sortRecs_perm targets).length_eq]⟩
  have hT := sortRecs_perm targets
  rw [h1]
  cases c.order with
  | juxtaposed => exact (interleave_perm _ _ hl).trans (hT.append_right D)
  | targetFirst => exact hT.append_right D
  | decoyFirst => exact List.perm_append_comm.trans (hT.append_right D)

/-- **order_modes**: with `T` = the targets in sequence order and `D` their decoys,
`juxtaposed` writes `T[0], D[0], T[1], D[1], …`; `target_first` writes `T` then `D`;
`decoy_first` writes `D` then `T`. -/
theorem order_modes (c : RunCfg) (targets : List Rec) (perms : List (List Nat))
    (out : List Rec) (n left : Nat) (h : run c targets perms = some (out, n, left)) :
    ∃ D, D.length = (sortRecs targets).length ∧
      (c.order = .juxtaposed → out.length = 2 * targets.length ∧
        ∀ k, out[2 * k]? = (sortRecs targets)[k]? ∧ out[2 * k + 1]? = D[k]?) ∧
      (c.order = .targetFirst → out = sortRecs targets ++ D) ∧
      (c.order = .decoyFirst → out = D ++ sortRecs targets) := by
  obtain ⟨D, h1, h2⟩ := run_shape c targets perms out n left h
  have hl : D.length = (sortRecs targets).length := h2.length_eq
  refine ⟨D, hl, ?_, ?_, ?_⟩
  · intro ho
    rw [ho] at h1
    have := interleave_spec (sortRecs targets) D hl
    rw [(sortRecs_perm targets).length_eq] at this
    rw [h1]; exact this
  · intro ho; rw [ho] at h1; exact h1
  · intro ho; rw [ho] at h1; exact h1

/-- the sort puts the targets in ascending sequence order and is stable (it is a
rearrangement of the input in which no record is after a record with a larger sequence) -/
theorem sort_spec (targets : List Rec) :
    (sortRecs targets).Perm targets ∧
      (sortRecs targets).Pairwise (fun a b => ltSeq b.seq a.seq = false) :=
  ⟨sortRecs_perm targets, sortRecs_sorted targets⟩

/-- Well-formedness needed for order independence: no two targets share a sequence. -/
def DistinctSeqs (targets : List Rec) : Prop := (targets.map (·.seq)).Nodup

instance (targets : List Rec) : Decidable (DistinctSeqs targets) := by
  unfold DistinctSeqs; exact inferInstance

/-- **order_independent**: for the same options and the same draws (same seed), permuting the
input targets does not change the output at all — not even its order — provided no two
targets share a sequence. (Without the hypothesis the statement is false for `--method
shuffle`: two headers with one sequence get their decoys by input order; the harness runs
that point on the real code.) -/
theorem order_independent (c : RunCfg) (targets targets' : List Rec) (perms : List (List Nat))
    (hp : targets'.Perm targets) (hd : DistinctSeqs targets) :
    run c targets' perms = run c targets perms := by
  unfold run
  rw [sortRecs_eq_of_perm hp hd]

/-- `--method reverse` never fails, whatever the targets and options. -/
theorem reverse_run_total (c : RunCfg) (hm : c.method = .reverse) (targets : List Rec)
    (perms : List (List Nat)) : ∃ r, run c targets perms = some r := by
  have gen : ∀ (tpool : List Pep) (T : List Rec) (dpool : List Pep),
      ∃ r, genAll c tpool T dpool perms = some r := by
    intro tpool T
    induction T with
    | nil => intro dpool; exact ⟨_, rfl⟩
    | cons t ts ih =>
      intro dpool
      obtain ⟨d, hd, _⟩ := reverse_spec t.seq (fixedIndices c.toCfg t.seq)
      obtain ⟨⟨ds, n, rest⟩, hr⟩ := ih (d :: dpool)
      exact ⟨({ hdr := decoyHeader c t.hdr, seq := d } :: ds,
          n + (if (tpool.contains d || dpool.contains d) then 1 else 0), rest),
        by simp only [genAll, genSeq, hm, hd, Option.map_some, hr]⟩
  obtain ⟨⟨D, n, rest⟩, hr⟩ := gen ((sortRecs targets).map (·.seq)) (sortRecs targets) []
  exact ⟨(arrange c.order (sortRecs targets) D, n, rest.length), by simp only [run, hr]⟩

/-! ## non-vacuity -/

example : (Generated.expasyRules.lookup "trypsin").isSome = true := by decide
example : ValidSample akaar [1] [3, 0, 4, 2] := by decide
example : shuffleSeq akaar [1] [3, 0, 4, 2] = some ['A', 'K', 'A', 'R', 'A'] := by decide
example : DistinctSeqs [⟨"a", akaar⟩, ⟨"b", ['K', 'R']⟩] := by decide
/-- a run with a retry: the first draw reproduces the target, the second is accepted -/
example : (retry ['A', 'B'] [] (fun d => d == ['A', 'B']) 30 0 [[0, 1], [1, 0]]).map (·.2.1) = some 2 := by
  decide
example : ∃ c : Cfg, c.off = 1 ∧ fixedIndices c akaar = [1, 0, 4] :=
  ⟨{ asIs with off := 1, keepN := true, keepC := true }, rfl, by decide⟩

end MoPepGen.Props.C20
