import MoPepGen.Model.Pipeline
/-!
# C06 — the peptide set is independent of `--threads` (and of batch composition)

Theorems about the model of the dispatch loop and the result loop of
`call_variant_peptide` (tied to /repo by the `batch`/`run` correspondence
streams: the batches the real command logs and its FASTA/table/tally for every
thread count are compared with this model).  The graph callers are data, so
the statements hold whatever they return.

Independence of the split of records into GVF files / `.idx` files is C13's
`pointer_scan_equiv`; raw vs indexed reference is C11/C12.  Hash seed and the
process pool are runtime behaviour outside the model: paired real runs only.
-/
namespace MoPepGen.Props.C06
open MoPepGen MoPepGen.Pipe

theorem dispatchGo_flatten {α : Type} (threads : Nat) (g : List (Option α)) (cur : List α)
    (h : g ≠ [] ∨ cur = []) :
    (dispatchGo threads g cur).flatten = cur ++ g.filterMap id := by
  induction g generalizing cur with
  | nil =>
    rcases h with h | h
    · exact absurd rfl h
    · subst h; simp [dispatchGo]
  | cons x rest ih =>
    have aux : ∀ cur' : List α,
        (if ((decide (threads ≤ cur'.length) || rest.isEmpty) && !cur'.isEmpty) = true then
          cur' :: dispatchGo threads rest [] else dispatchGo threads rest cur').flatten
        = cur' ++ rest.filterMap id := by
      intro cur'
      split
      · rw [List.flatten_cons, ih [] (Or.inr rfl), List.nil_append]
      · rename_i hc
        apply ih
        simp only [Bool.and_eq_true, Bool.or_eq_true, decide_eq_true_eq, List.isEmpty_iff,
          Bool.not_eq_true', not_and, Bool.not_eq_false] at hc
        by_cases hr : rest = []
        · right
          have := hc (Or.inr hr)
          simpa using this
        · left; exact hr
    cases x with
    | none => simp only [dispatchGo]; rw [aux]; simp
    | some d => simp only [dispatchGo]; rw [aux]; simp

/-- Every gathered (non-skipped) transcript is dispatched exactly once, in order, for EVERY
thread count and every pattern of skipped transcripts. -/
theorem dispatch_covers {α : Type} (threads : Nat) (g : List (Option α)) :
    (dispatch threads g).flatten = g.filterMap id := by
  simpa [dispatch] using dispatchGo_flatten threads g [] (Or.inr rfl)

/-- The loop of the unchanged tree did not have this property: with two threads, one skipped
and one gathered transcript, nothing is dispatched. (Replayed on the real code: this is the
defect repaired by the `fix:` commit "dispatch the last partial batch".) -/
theorem dispatchOld_drops : dispatchOld 2 [none, some 7] = ([] : List (List Nat)) := by
  decide

theorem dispatchGo_nonempty {α : Type} (threads : Nat) (g : List (Option α)) (cur : List α) :
    ∀ b ∈ dispatchGo threads g cur, b ≠ [] := by
  induction g generalizing cur with
  | nil => simp [dispatchGo]
  | cons x rest ih =>
    have aux : ∀ cur' : List α, ∀ b ∈
        (if ((decide (threads ≤ cur'.length) || rest.isEmpty) && !cur'.isEmpty) = true then
          cur' :: dispatchGo threads rest [] else dispatchGo threads rest cur'), b ≠ [] := by
      intro cur'
      split
      · rename_i hc
        intro b hb
        rcases List.mem_cons.mp hb with rfl | hb
        · simp only [Bool.and_eq_true, Bool.not_eq_true', List.isEmpty_eq_false_iff] at hc
          exact hc.2
        · exact ih [] b hb
      · exact ih _
    cases x with
    | none => simp only [dispatchGo]; exact aux _
    | some d => simp only [dispatchGo]; exact aux _

/-- no empty batch is ever handed to the pool -/
theorem dispatch_nonempty {α : Type} (threads : Nat) (g : List (Option α)) :
    ∀ b ∈ dispatch threads g, b ≠ [] := dispatchGo_nonempty threads g []

/-- Table, FASTA and tally are the same for every two thread counts. -/
theorem run_threads_independent (c : Limits) (skip : Bool) (t1 t2 : Nat)
    (g : List (Option TxUnits)) : runAll c skip t1 g = runAll c skip t2 g := by
  simp [runAll, dispatch_covers]

/-- ... and equal to processing the gathered transcripts one by one. -/
theorem run_eq_sequential (c : Limits) (skip : Bool) (t : Nat) (g : List (Option TxUnits)) :
    runAll c skip t g = runAll c skip 1 g := run_threads_independent c skip t 1 g

/-- non-vacuity: a run with a skipped transcript in a partial last batch -/
example : dispatch 2 [none, some 7, some 8, none, some 9] = [[7, 8], [9]] := by decide

end MoPepGen.Props.C06
