import MoPepGen.Lemmas.SpecMono
import MoPepGen.Lemmas.Graph
import MoPepGen.Lemmas.GraphCuts
import MoPepGen.Lemmas.Haplotype
import MoPepGen.Lemmas.Tvg
import MoPepGen.Lemmas.TvgLoop
import MoPepGen.Lemmas.TvgLang
import MoPepGen.Lemmas.TvgLive
import MoPepGen.Lemmas.TvgPool
import MoPepGen.Lemmas.Translate
import MoPepGen.Lemmas.TranslateSplit
import MoPepGen.Lemmas.TranslateFuel
import MoPepGen.Lemmas.TranslateSec
import MoPepGen.Props.C10
/-!
# C01 — completeness of callVariant  (PARTIAL: of the graph algorithm only the first stage,
`create_variant_graph` on small records, is modelled — and for it the language theorem is proved)

What is proved here, for ALL inputs: the executable oracle `Spec.callVariant`, which the
check evaluates on the inputs of the real command, is exactly the declarative statement of
the property (∃ compatible combination of the usable records … minus the unmodified
transcript's products and the canonical pool), its haplotypes are exactly the separated
sub-collections of the record pool (`mem_haplotypes_iff`: no enumeration, no sort left in
the statement), and its digest is the digest proved correct in C10.
That the REAL command reports every member of this set is decided per generated input by
the differential `harness/c01.py` (no theorem quantifies over the real graph algorithm).
Layer G (further down): checkpoint theorems, and the function-level model of the first stage with
the full language theorem `tvg_create_variant_graph_language_eq`.
-/
namespace MoPepGen.Props.C01
open MoPepGen MoPepGen.Spec

/-- `p` is a digestion-product form of the transcript carrying haplotype `h` -/
def ProductOf (g : Cfg) (t : TxIn) (h : List Var) (p : Pep) : Prop :=
  p ∈ peptidesOf g t (applyHap t.seq h) (secAfter t.sec h) t.endNF

/-- The oracle has no hidden operational choices: it is the ∃-haplotype definition. -/
theorem spec_declarative (g : Cfg) (t : TxIn) (vs : List Var) (p : Pep) :
    p ∈ callVariant g t vs ↔
      (∃ h ∈ haplotypes t vs, ProductOf g t h p) ∧
        p ∉ referencePeptides g t ∧ p ∉ g.canonical := by
  simp only [callVariant, ProductOf, List.mem_filter, List.mem_flatMap, Bool.and_eq_true,
    Bool.not_eq_true', List.contains_eq_mem, decide_eq_false_iff_not]

/-- A haplotype is exactly: a sub-collection of the record pool (usable records and merged
adjacent pairs) that is non-empty and, in ascending order, strictly separated. -/
theorem haplotype_spec (t : TxIn) (vs h : List Var) :
    h ∈ haplotypes t vs ↔
      ∃ s, s.Sublist (recordPool t vs) ∧ h = sortByStart s ∧ h ≠ [] ∧ separated h = true := by
  simp only [haplotypes, List.mem_filter, List.mem_map, mem_sublists, Bool.and_eq_true,
    Bool.not_eq_true', List.isEmpty_eq_false_iff]
  constructor
  · rintro ⟨⟨s, hs, rfl⟩, hne, hsep⟩
    exact ⟨s, hs, rfl, hne, hsep⟩
  · rintro ⟨s, hs, rfl, hne, hsep⟩
    exact ⟨⟨s, hs, rfl⟩, hne, hsep⟩

/-- every record of a haplotype is a usable input record or the merged form of two of them -/
theorem haplotype_records_usable (t : TxIn) (vs h : List Var) (hh : h ∈ haplotypes t vs) :
    ∀ v ∈ h, v ∈ recordPool t vs := by
  obtain ⟨s, hs, rfl, _, _⟩ := (haplotype_spec t vs h).mp hh
  intro v hv
  have hperm : ∀ (l : List Var) (x : Var), x ∈ sortByStart l → x ∈ l := by
    intro l
    induction l with
    | nil => intro x hx; simpa [sortByStart] using hx
    | cons a l ih =>
      intro x hx
      simp only [sortByStart, List.foldr_cons] at hx
      have hins : ∀ (w : Var) (ws : List Var) (y : Var), y ∈ insertByStart w ws → y = w ∨ y ∈ ws := by
        intro w ws
        induction ws with
        | nil => intro y hy; simpa [insertByStart] using hy
        | cons z zs ihz =>
          intro y hy
          simp only [insertByStart] at hy
          split at hy
          · simpa using hy
          · rcases List.mem_cons.mp hy with h1 | h1
            · exact Or.inr (by simp [h1])
            · rcases ihz y h1 with h2 | h2
              · exact Or.inl h2
              · exact Or.inr (List.mem_cons_of_mem _ h2)
      rcases hins a _ x hx with h1 | h1
      · simp [h1]
      · exact List.mem_cons_of_mem _ (ih x h1)
  exact hs.subset (hperm s v hv)

/-- every reported form meets the length and mass limits -/
theorem reported_within_limits (g : Cfg) (t : TxIn) (vs : List Var) (p : Pep)
    (h : p ∈ callVariant g t vs) : pepOk g.cleave p = true := by
  obtain ⟨⟨hp, _, hprod⟩, _⟩ := (spec_declarative g t vs p).mp h
  simp only [ProductOf, peptidesOf, List.mem_flatMap] at hprod
  obtain ⟨s, _, hs⟩ := hprod
  simp only [productForms, List.mem_filter] at hs
  exact hs.2

/-- the raw digest inside the definition is the loop-free reading of C10's `enzymatic_cleave`
candidates, whose sites are the positional ExPASy sites (`Props.C10.sites_eq_isSite`) -/
theorem digest_is_C10 (c : CleaveCfg) (prot : Pep) (nf : Bool) (p : Pep) :
    p ∈ rawProducts c prot nf false ↔
      p ∈ cleaveCandidates prot
        (bounds ((List.range (prot.length + 1)).filter (isSite c.rule c.exc prot)) prot.length)
        c.misc nf := by
  rw [rawProducts_eq_candidates, Props.C10.sites_eq_isSite]


/-! ## Layer G — refinement checkpoints inside the graph algorithm (completeness side)

The harness dumps the real graph after each stage of the graph algorithm and the native
driver evaluates the checkpoint predicates of `Model/Graph.lean` on it (`G` stream).  The
theorems below say why those checkpoints are the right ones for completeness:
the position automaton `apply_variant` builds carries EVERY compatible combination; the
driver's path enumeration misses no path; node-wise translation of a codon-aligned path is
the translation of its sequence; and when every cleavage site of a path is a node boundary,
every digestion product of the path's protein is a concatenation of consecutive whole nodes
(which is what `call_variant_peptides` joins). -/

open MoPepGen.Graph in
/-- CP1, completeness: every compatible combination of the record pool is a walk of the
position automaton of the transcript variant graph, emitting the transcript that carries it.
Hypothesis = what `create_variant_graph`'s filter guarantees: records lie inside the
transcript behind its first base. -/
theorem tvg_automaton_complete (t : TxIn) (vs h : List Var) (hh : h ∈ haplotypes t vs)
    (hwf : ∀ v ∈ recordPool t vs, 0 < v.start ∧ v.start < v.stop ∧ v.stop ≤ t.seq.length) :
    Walk t.seq (recordPool t vs) 0 false (applyHap t.seq h) h := by
  have hmem := haplotype_records_usable t vs h hh
  obtain ⟨s, _, _, _, hsep⟩ := (haplotype_spec t vs h).mp hh
  have hsf : SepFrom 0 true h := by
    apply sepFrom_of_separated h 0 true hsep (fun v hv => (hwf v (hmem v hv)).2.1)
    cases h with
    | nil => trivial
    | cons v _ => simpa using (hwf v (hmem v (by simp))).1
  have := walk_complete t.seq (recordPool t vs) t.seq.length 0 false h (by omega) hmem
    (by simpa using hsf) (fun v hv => (hwf v (hmem v hv)).2.2)
  simpa [applyHap] using this

open MoPepGen.Graph in
/-- the driver's path enumeration misses no maximal path of an acyclic dump -/
theorem paths_complete (g : Graph) (i : Nat) (p : List Nat) (hp : MaxPath g i p)
    (hnd : p.Nodup) : p ∈ paths g i :=
  (mem_paths_iff g i p hnd).mpr hp

open MoPepGen.Graph in
/-- CP2 ⇒ CP3: on a codon-aligned path, translating node by node (what
`ThreeFrameTVG.translate` does) is translating the path's sequence -/
theorem nodewise_translation (g : Graph) (p : List Nat) (h : codonAligned g p = true) :
    translatePath g p = translate (pathSeq g p) :=
  translatePath_eq g p h

open MoPepGen.Graph in
/-- CP4 ⇒ products are node joins: if every cleavage site of the protein `pieces.flatten` is a
boundary between two pieces (graph nodes), then every candidate of the digest — a slice
between two boundaries `0, sites…, |prot|` — is the concatenation of consecutive whole pieces -/
theorem digest_product_is_node_join (pieces : List (List Char)) (rule : Re) (exc : Option Re)
    (hsites : ∀ s ∈ cleaveSites rule exc pieces.flatten, s ∈ cuts pieces)
    (a b : Nat)
    (ha : a ∈ bounds (cleaveSites rule exc pieces.flatten) pieces.flatten.length)
    (hb : b ∈ bounds (cleaveSites rule exc pieces.flatten) pieces.flatten.length)
    (hab : a ≤ b) :
    ∃ i k, slice pieces.flatten a b = ((pieces.drop i).take k).flatten := by
  have hcut : ∀ x ∈ bounds (cleaveSites rule exc pieces.flatten) pieces.flatten.length,
      x ∈ cuts pieces := by
    intro x hx
    simp only [bounds, List.mem_cons, List.mem_append, List.not_mem_nil, or_false] at hx
    rcases hx with rfl | hx | rfl
    · exact zero_mem_cuts pieces
    · exact hsites x hx
    · exact length_mem_cuts pieces
  exact slice_is_join pieces a b (hcut a ha) (hcut b hb) hab

/-! non-vacuity of `tvg_automaton_complete`: a transcript with one SNV behind the start codon -/
example : (∀ v ∈ recordPool
    { seq := "ATGGCC".toList, coding := true, orfStart := 0, orfEnd := 6, startNF := false,
      endNF := false, sec := [] }
    [{ start := 3, stop := 4, ref := ['G'], alt := ['T'], cls := .snv, ids := [0] }],
    0 < v.start ∧ v.start < v.stop ∧ v.stop ≤ 6) := by decide

open MoPepGen.Graph in
example : cuts ["AK".toList, "CR".toList, "D".toList] = [0, 2, 4, 5] := by decide

/-! ## the haplotypes of the definition, characterised without the enumeration

`haplotypes` is an executable enumeration (`sublists` of the pool, insertion sort, filter).
The theorem below removes every operational ingredient: a haplotype is any non-empty,
ascending, strictly separated list of pool records.  Hypothesis: the records of the pool are
well-formed intervals (`start ≤ stop`; VCF-style records have `start < stop`).  The pool need
NOT be duplicate-free (`Hap.exists_sublist_perm` picks the first occurrence of each record). -/

/-- `h` is a haplotype of the definition iff it is non-empty, strictly separated (which for
well-formed records includes: ascending and duplicate-free) and made of pool records. -/
theorem mem_haplotypes_iff (t : TxIn) (vs h : List Var)
    (hpos : ∀ v ∈ recordPool t vs, v.start ≤ v.stop) :
    h ∈ haplotypes t vs ↔ h ≠ [] ∧ separated h = true ∧ ∀ v ∈ h, v ∈ recordPool t vs := by
  constructor
  · intro hh
    obtain ⟨s, _, _, hne, hsep⟩ := (haplotype_spec t vs h).mp hh
    exact ⟨hne, hsep, haplotype_records_usable t vs h hh⟩
  · rintro ⟨hne, hsep, hsub⟩
    obtain ⟨s, hs, he⟩ :=
      Hap.exists_sublist_sort_eq (pool := recordPool t vs) hsep (fun v hv => hpos v (hsub v hv)) hsub
    exact (haplotype_spec t vs h).mpr ⟨s, hs, he, hne, hsep⟩

/-- for a duplicate-free pool the sub-collection behind a haplotype is explicit: the pool
records that occur in it, in pool order -/
theorem haplotype_is_sorted_filter (t : TxIn) (vs h : List Var)
    (hnd : (recordPool t vs).Nodup) (hpos : ∀ v ∈ recordPool t vs, v.start ≤ v.stop)
    (hh : h ∈ haplotypes t vs) :
    sortByStart ((recordPool t vs).filter fun v => decide (v ∈ h)) = h := by
  obtain ⟨_, hsep, hsub⟩ := (mem_haplotypes_iff t vs h hpos).mp hh
  exact Hap.filter_sort_eq hnd hsep (fun v hv => hpos v (hsub v hv)) hsub

/-- a haplotype is strictly ascending in `start`, hence duplicate-free, and sorting it again
changes nothing -/
theorem haplotype_strictly_ascending (t : TxIn) (vs h : List Var)
    (hpos : ∀ v ∈ recordPool t vs, v.start ≤ v.stop) (hh : h ∈ haplotypes t vs) :
    h.Pairwise (fun a b => a.start < b.start) ∧ h.Nodup ∧ sortByStart h = h := by
  obtain ⟨_, hsep, hsub⟩ := (mem_haplotypes_iff t vs h hpos).mp hh
  have hs := Hap.strictStarts_of_separated h hsep (fun v hv => hpos v (hsub v hv))
  exact ⟨hs, Hap.nodup_of_strictStarts hs, Hap.sortByStart_id hs⟩

/-- every record the combinations are made of starts behind the start codon
(`startIndex t` ≥ 3): `usable` drops the others, a merged pair starts where its first record
starts — so the hypothesis `0 < v.start` of the CP1 theorems always holds -/
theorem recordPool_behind_start_codon (t : TxIn) (vs : List Var) :
    ∀ v ∈ recordPool t vs, startIndex t ≤ v.start ∧ 3 ≤ v.start := by
  intro v hv
  have := Hap.pool_start_ge t vs v hv
  refine ⟨this, ?_⟩
  simp only [startIndex] at this
  omega

/-! non-vacuity of `mem_haplotypes_iff` / `haplotype_is_sorted_filter`: a coding transcript with
two SNVs behind the start codon (given in DESCENDING order, so the sort matters); the pool is
duplicate-free with non-empty spans, and the combination of both records is a haplotype -/
section NonVacuity
/-- example data for the non-vacuity checks of C01/C02 (not part of any statement) -/
def nvTx : TxIn :=
  { seq := "ATGGCCAAATAG".toList, coding := true, orfStart := 0, orfEnd := 9, startNF := false,
    endNF := false, sec := [] }
/-- example SNV G→T at 3 -/
def nvA : Var := { start := 3, stop := 4, ref := ['G'], alt := ['T'], cls := .snv, ids := [0] }
/-- example SNV A→C at 7 -/
def nvB : Var := { start := 7, stop := 8, ref := ['A'], alt := ['C'], cls := .snv, ids := [1] }

example : (recordPool nvTx [nvB, nvA]).Nodup ∧ (∀ v ∈ recordPool nvTx [nvB, nvA], v.start ≤ v.stop) := by
  decide
example : recordPool nvTx [nvB, nvA] = [nvB, nvA] := by decide
example : [nvA, nvB] ≠ [] ∧ separated [nvA, nvB] = true ∧ ∀ v ∈ [nvA, nvB], v ∈ recordPool nvTx [nvB, nvA] := by
  decide
example : [nvA, nvB] ∈ haplotypes nvTx [nvB, nvA] :=
  (mem_haplotypes_iff nvTx [nvB, nvA] [nvA, nvB] (by decide)).mpr (by decide)
example : [nvB, nvA] ∉ haplotypes nvTx [nvB, nvA] := by
  rw [mem_haplotypes_iff nvTx [nvB, nvA] [nvB, nvA] (by decide)]; decide
end NonVacuity

/-! ## the pruned enumerator the compiled oracle runs

`haplotypes` enumerates all `2^n` sub-collections of the pool before it filters — the clear
statement, and exponential whatever the records look like.  `Spec/CallVariant.lean` defines
`haplotypesFast`, which puts a record only in front of the sub-collections it is compatible
with (`prunedSublists`; compatibility of an earlier with a later record = `compatOrd`, the
test the stable insertion sort turns into "ends before the next one starts").  The three
theorems below hold for ALL lists — no well-formedness of the records is assumed: ties in
`start`, records with `stop < start`, duplicates are all covered.  `haplotypes_eq_pruned` is
registered as a `@[csimp]` equation (`Spec.haplotypes_eq_fast`), so the native driver
evaluates the pruned enumerator wherever `haplotypes` occurs, while every theorem of this
file keeps talking about the definition.  (`csimp` is an attribute on a kernel-checked
equation, not an axiom; trusted = Lean's compiler replacing equals by equals.) -/

/-- (a) the adjacent-pair test on the SORTED collection is pairwise compatibility of the
UNSORTED one: `s` put in ascending order (stable insertion sort) is strictly separated iff
every record of `s` is `compatOrd` with every later record of `s`.  For every list. -/
theorem separated_sorted_iff_pairwise (s : List Var) :
    separated (sortByStart s) = pairwiseOk s :=
  separated_sort_eq_pairwiseOk s

/-- (b) the pruned enumerator returns exactly the pairwise-compatible sub-collections, in the
order `sublists` lists them.  For every pool. -/
theorem pruned_is_filter (p : List Var) :
    (sublists p).filter pairwiseOk = prunedSublists p :=
  filter_sublists_eq_pruned p

/-- (c) the definition and the pruned enumerator are the same list (same members, same
order, same multiplicities), for every transcript and every record list. -/
theorem haplotypes_eq_pruned (t : TxIn) (vs : List Var) :
    haplotypes t vs = haplotypesFast t vs :=
  haplotypes_eq_haplotypesFast t vs

/-- hence every characterisation of the definition's combinations is one of the pruned
enumerator's: non-empty, strictly separated lists of pool records -/
theorem mem_haplotypesFast_iff (t : TxIn) (vs h : List Var)
    (hpos : ∀ v ∈ recordPool t vs, v.start ≤ v.stop) :
    h ∈ haplotypesFast t vs ↔ h ≠ [] ∧ separated h = true ∧ ∀ v ∈ h, v ∈ recordPool t vs := by
  rw [← haplotypes_eq_pruned]
  exact mem_haplotypes_iff t vs h hpos

/-! non-vacuity: a pool with a tie in `start` (`pvA`, `pvB`), overlapping records (`pvB`/`pvC`),
adjacent records (`pvC`/`pvD`: `stop = start` is NOT separated), a record with `stop < start`
(`pvE`) and a duplicate (`pvA` twice) -/
section PrunedNonVacuity
/-- example record `[5, 6)` -/
def pvA : Var := { start := 5, stop := 6, ref := ['A'], alt := ['C'], cls := .snv, ids := [0] }
/-- example record `[5, 8)`: same start as `pvA` -/
def pvB : Var := { start := 5, stop := 8, ref := "ACG".toList, alt := ['A'], cls := .indel, ids := [1] }
/-- example record `[7, 9)`: overlaps `pvB`, separated from `pvA` -/
def pvC : Var := { start := 7, stop := 9, ref := "GT".toList, alt := ['G'], cls := .indel, ids := [2] }
/-- example record `[9, 10)`: adjacent to `pvC` -/
def pvD : Var := { start := 9, stop := 10, ref := ['T'], alt := ['G'], cls := .snv, ids := [3] }
/-- ill-formed example record: `stop < start` -/
def pvE : Var := { start := 12, stop := 4, ref := ['T'], alt := ['G'], cls := .snv, ids := [4] }
/-- ill-formed example record with the start of `pvA`: `stop < start` -/
def pvF : Var := { start := 5, stop := 3, ref := ['T'], alt := ['G'], cls := .snv, ids := [5] }

/-- 128 sub-collections, 28 of them pairwise compatible; (b) on this pool -/
example : (sublists [pvD, pvA, pvE, pvC, pvB, pvA, pvF]).length = 128 ∧
    (prunedSublists [pvD, pvA, pvE, pvC, pvB, pvA, pvF]).length = 28 ∧
    (sublists [pvD, pvA, pvE, pvC, pvB, pvA, pvF]).filter pairwiseOk =
      prunedSublists [pvD, pvA, pvE, pvC, pvB, pvA, pvF] := by decide +kernel

/-- (a) on both sides of the equation: a compatible and an incompatible collection; with a tie
in `start` the ORDER in the collection decides (the sort is stable): `[pvF, pvA]` sorts to
`[pvF, pvA]` (3 < 5: separated), `[pvA, pvF]` to `[pvA, pvF]` (6 < 5 fails); the ill-formed `pvE`
(`stop` 4 < `start` 12) sorts last and is compatible with everything that ends before 12 -/
example : separated (sortByStart [pvD, pvA]) = true ∧ pairwiseOk [pvD, pvA] = true ∧
    separated (sortByStart [pvC, pvB]) = false ∧ pairwiseOk [pvC, pvB] = false ∧
    separated (sortByStart [pvD, pvC]) = false ∧ pairwiseOk [pvD, pvC] = false ∧
    separated (sortByStart [pvF, pvA]) = true ∧ pairwiseOk [pvF, pvA] = true ∧
    separated (sortByStart [pvA, pvF]) = false ∧ pairwiseOk [pvA, pvF] = false ∧
    separated (sortByStart [pvA, pvA]) = false ∧ pairwiseOk [pvA, pvA] = false ∧
    separated (sortByStart [pvE, pvA, pvD]) = true ∧ pairwiseOk [pvE, pvA, pvD] = true := by decide

/-- example SNV `[10, 11)`: adjacent to the SNV `pvD`, the two merge into one pool record -/
def pvG : Var := { start := 10, stop := 11, ref := ['A'], alt := ['C'], cls := .snv, ids := [6] }
/-- example transcript for the pruned enumerator -/
def pvTx : TxIn :=
  { seq := "ATGGCACGTTAAACCCTAG".toList, coding := true, orfStart := 0, orfEnd := 16,
    startNF := false, endNF := false, sec := [] }
/-- (c) on a transcript whose pool has a tie, overlaps and a merged pair (`pvC`, `pvD` are
adjacent but of different classes; the SNVs `pvD`, `pvG` are adjacent and merge): 7 pool
records, 128 sub-collections, 31 combinations -/
example : (recordPool pvTx [pvD, pvA, pvC, pvB, pvG, pvE]).length = 7 ∧
    (haplotypes pvTx [pvD, pvA, pvC, pvB, pvG, pvE]).length = 31 ∧
    [pvA, pvC] ∈ haplotypesFast pvTx [pvD, pvA, pvC, pvB, pvG, pvE] ∧
    [pvB, pvC] ∉ haplotypesFast pvTx [pvD, pvA, pvC, pvB, pvG, pvE] ∧
    haplotypes pvTx [pvD, pvA, pvC, pvB, pvG, pvE] =
      haplotypesFast pvTx [pvD, pvA, pvC, pvB, pvG, pvE] := by decide +kernel
end PrunedNonVacuity

/-! ## Layer G — the right-hand sides of the checkpoints are images of one another

CP1/CP2 compare the dumped graph with `tvgLang`, CP3/CP4 with `protLang`.  By unfolding:
the sequences of `tvgLang t vs f` are the `applyHap` sequences cut at the frame offset, and
`protLang t vs f` is their translation (annotated Sec codons that survive the combination
read `U`), combination by combination.  The proteins the definition digests
(`proteinFrom`) are these frame translations cut at the first stop. -/

open MoPepGen.Graph in
/-- CP1's right-hand side: the DNA language of frame `f` is the language of the definition
(`applyHap` of every compatible combination, the empty one included) cut at offset `f` -/
theorem tvgLang_frame (t : TxIn) (vs : List Var) (f : Nat) :
    (tvgLang t vs f).map (·.1) = ((allHaps t vs).map (applyHap t.seq)).map (List.drop f) := by
  simp only [tvgLang, List.map_map]
  rfl

open MoPepGen.Graph in
/-- the labels of CP1's right-hand side are the ids of the combination's records -/
theorem tvgLang_labels (t : TxIn) (vs : List Var) (f : Nat) :
    (tvgLang t vs f).map (·.2) = (allHaps t vs).map hapIds := by
  simp only [tvgLang, List.map_map]
  rfl

open MoPepGen.Graph in
/-- CP3's right-hand side is the translation of CP1's: combination by combination, the protein
of frame `f` is the frame translation of the DNA sequence `tvgLang` lists for it, with the Sec
codons surviving that combination -/
theorem protLang_eq_translate_tvgLang (t : TxIn) (vs : List Var) (f : Nat) :
    protLang t vs f =
      List.zipWith (fun h e => Hap.frameTranslation e.1 (secAfter t.sec h) f)
        (allHaps t vs) (tvgLang t vs f) := by
  simp only [protLang, tvgLang, List.zipWith_map_right, List.zipWith_self,
    Hap.fullTranslation_eq_frame]

open MoPepGen.Graph in
/-- the same without the helper `frameTranslation`: the frame-`f` translation only reads the
cut sequence, i.e. it is the frame-0 translation of `tvgLang`'s sequence with the Sec
positions taken relative to `f` -/
theorem protLang_eq_translate_tvgLang_zero (t : TxIn) (vs : List Var) (f : Nat) :
    protLang t vs f =
      List.zipWith (fun h e => fullTranslation e.1 (Hap.secFrom (secAfter t.sec h) f) 0)
        (allHaps t vs) (tvgLang t vs f) := by
  simp only [protLang, tvgLang, List.zipWith_map_right, List.zipWith_self]
  apply List.map_congr_left
  intro h _
  exact Hap.fullTranslation_drop _ _ _

open MoPepGen.Graph in
/-- the protein the definition digests is the frame translation cut at the first stop -/
theorem proteinFrom_eq_fullTranslation (seq : List Char) (sec : List Nat) (s : Nat) :
    (proteinFrom seq sec s).1 = (fullTranslation seq sec s).takeWhile (· != '*') := rfl

open MoPepGen.Graph in
/-- … and it is reported as closed exactly when a stop symbol remains in that translation -/
theorem proteinFrom_closed_iff (seq : List Char) (sec : List Nat) (s : Nat) :
    (proteinFrom seq sec s).2 = true ↔
      ((fullTranslation seq sec s).takeWhile (· != '*')).length < (fullTranslation seq sec s).length := by
  simp only [proteinFrom, fullTranslation, decide_eq_true_eq]

open MoPepGen.Graph in
example : tvgLang nvTx [nvB, nvA] 1 =
    [("TGGCCAAATAG".toList, []), ("TGTCCAAATAG".toList, [0]), ("TGGCCACATAG".toList, [1]),
     ("TGTCCACATAG".toList, [0, 1])] := by decide

open MoPepGen.Graph in
example : protLang nvTx [nvB, nvA] 0 = ["MAK*".toList, "MSK*".toList, "MAT*".toList, "MST*".toList] := by
  decide


/-! ## Layer G — checkpoint CP4 covers every digestion product -/

/-! The native driver evaluates CP4 on the cleavage graph the real code built as: for every
maximal path `p`, every element of `requiredCuts rule exc (pathSeq g p)` is a member of
`boundaries g false p` (`Driver/G.lean`, `cpPvg`).  `digest_product_is_node_join` above speaks
about a protein WITHOUT stop symbols whose sites are given as cuts.  The theorems of this block
close the gap to the checkpoint as evaluated: the path's protein may contain stop symbols, the
digest is taken per stop-delimited segment (the strings `Spec.rawProducts` is applied to are
stop-free), and the hypothesis is literally the driver's predicate.  Not covered: a
translation that starts INSIDE a segment (the ORF start is not a node boundary;
`call_variant_peptides` truncates the first node there) — the digest of a proper suffix of a
segment can have other sites next to its start than the segment has. -/

open MoPepGen.Graph in
/-- **CP4 ⇒ every digestion product of every stop-free stretch is a join of whole nodes.**
For every graph `g`, every list of node indices `p` (no well-formedness needed: an index
outside the graph denotes the empty label, as in `pathSeq`), every rule and exception: if every
required cut of the path's protein `pathSeq g p` is a node boundary of the path (the driver's
CP4 predicate), then for every stop-delimited segment `(off, seg)` of that protein and any two
bounds `a`, `b` of the digest of `seg` (`0`, a cleavage site of `seg`, `|seg|`), the candidate
`seg[a:b]` is the concatenation of consecutive whole node labels of the path.  (No order
hypothesis: for `b < a` the slice is empty, the join of zero nodes.) -/
theorem cp4_covers_products (g : Graph) (p : List Nat) (rule : Re) (exc : Option Re)
    (hcp : ∀ c ∈ requiredCuts rule exc (pathSeq g p), c ∈ boundaries g false p)
    (off : Nat) (seg : List Char) (hseg : (off, seg) ∈ stopSegments (pathSeq g p))
    (a b : Nat)
    (ha : a ∈ bounds (cleaveSites rule exc seg) seg.length)
    (hb : b ∈ bounds (cleaveSites rule exc seg) seg.length) :
    ∃ i k, slice seg a b = (((p.map (nodeSeq g)).drop i).take k).flatten := by
  rcases Nat.lt_or_ge b a with hlt | hab
  · exact ⟨0, 0, by simp [gc_slice_empty seg a b (Nat.le_of_lt hlt)]⟩
  · obtain ⟨hseq, _, _⟩ := gc_stopSegments_spec _ off seg hseg
    obtain ⟨_, hca⟩ := gc_bound_mem_cuts g p rule exc hcp off seg hseg a ha
    obtain ⟨hble, hcb⟩ := gc_bound_mem_cuts g p rule exc hcp off seg hseg b hb
    obtain ⟨i, k, hik⟩ :=
      slice_is_join (p.map (nodeSeq g)) (off + a) (off + b) hca hcb (by omega)
    refine ⟨i, k, ?_⟩
    rw [← hik, gc_flatten_map_nodeSeq, hseq]
    exact gc_slice_slice _ off seg.length a b hble

open MoPepGen.Graph in
/-- the segments CP4 speaks about are what the definition digests: a stop-delimited segment
`(off, seg)` of `w` is `w[off : off+|seg|]`, lies inside `w` and contains no stop symbol -/
theorem stopSegment_spec (w : List Char) (off : Nat) (seg : List Char)
    (h : (off, seg) ∈ stopSegments w) :
    seg = slice w off (off + seg.length) ∧ off + seg.length ≤ w.length ∧ ∀ c ∈ seg, c ≠ '*' :=
  gc_stopSegments_spec w off seg h

open MoPepGen.Graph in
/-- every node boundary of a path is a cut position of the path's list of node labels
(the driver's `boundaries` and the `cuts` of `digest_product_is_node_join` agree) -/
theorem boundaries_are_cuts (g : Graph) (p : List Nat) (c : Nat)
    (h : c ∈ boundaries g false p) : c ∈ cuts (p.map (nodeSeq g)) :=
  gc_boundaries_subset_cuts g p c h

open MoPepGen.Graph in
/-- **CP4 ⇒ every raw product of the definition's digest is a join of whole nodes**, phrased
with `Spec.rawProducts` itself (any miscleavage limit, any `nf`, with or without dropping the
products that reach an open end): under the driver's CP4 predicate, every
`q ∈ rawProducts c seg nf d` of a stop-delimited segment `seg` of the path's protein is either
the concatenation `J` of consecutive whole node labels of the path, or — the Met-removed twin,
only for `nf = false` and `J` starting with `M` — `J` with its first residue dropped. -/
theorem cp4_covers_rawProducts (g : Graph) (p : List Nat) (c : CleaveCfg)
    (hcp : ∀ x ∈ requiredCuts c.rule c.exc (pathSeq g p), x ∈ boundaries g false p)
    (off : Nat) (seg : List Char) (hseg : (off, seg) ∈ stopSegments (pathSeq g p))
    (nf d : Bool) (q : Pep) (hq : q ∈ rawProducts c seg nf d) :
    ∃ i k, q = (((p.map (nodeSeq g)).drop i).take k).flatten ∨
      (nf = false ∧ ((((p.map (nodeSeq g)).drop i).take k).flatten).head? = some 'M' ∧
        q = ((((p.map (nodeSeq g)).drop i).take k).flatten).drop 1) := by
  rw [mem_rawProducts] at hq
  obtain ⟨st, k', hst, hk, _, hq⟩ := hq
  have hmem : ∀ n, n < (bounds (cleaveSites c.rule c.exc seg) seg.length).length →
      (bounds (cleaveSites c.rule c.exc seg) seg.length).getD n 0 ∈
        bounds (cleaveSites c.rule c.exc seg) seg.length := by
    intro n hn
    simp [List.getD_eq_getElem?_getD, List.getElem?_eq_getElem hn]
  obtain ⟨i, k, hik⟩ := cp4_covers_products g p c.rule c.exc hcp off seg hseg _ _
    (hmem st (by omega)) (hmem (st + 1 + k') (by omega))
  refine ⟨i, k, ?_⟩
  rw [← hik]
  rcases hq with hq | ⟨_, hnf, hM, hq⟩
  · exact Or.inl hq
  · exact Or.inr ⟨hnf, hM, hq⟩

/-! non-vacuity of the CP4 hypothesis: the path `AK · CR · * · DE` under trypsin — the protein
`AKCR*DE` has the segments `AKCR` at 0 and `DE` at 5, the required cuts are 2 (after K), 4
(after R = before the stop) and 5 (behind the stop), and all are node boundaries.  With `CR*`
in ONE node the predicate is false (position 4 is inside the node): the hypothesis
discriminates. -/
open MoPepGen.Graph in
example :
    let g : Graph := #[{ seq := "AK".toList, vars := [], out := [1] },
      { seq := "CR".toList, vars := [], out := [2] }, { seq := "*".toList, vars := [], out := [3] },
      { seq := "DE".toList, vars := [], out := [] }]
    (Generated.expasyRules.lookup "trypsin").map (fun rule =>
      (String.ofList (pathSeq g [0, 1, 2, 3]),
       (stopSegments (pathSeq g [0, 1, 2, 3])).map (fun x => (x.1, String.ofList x.2)),
       requiredCuts rule none (pathSeq g [0, 1, 2, 3]), boundaries g false [0, 1, 2, 3],
       (requiredCuts rule none (pathSeq g [0, 1, 2, 3])).all
         (boundaries g false [0, 1, 2, 3]).contains)) =
      some ("AKCR*DE", [(0, "AKCR"), (5, "DE")], [2, 4, 5], [2, 4, 5], true) := by decide

open MoPepGen.Graph in
example :
    let g : Graph := #[{ seq := "AK".toList, vars := [], out := [1] },
      { seq := "CR*".toList, vars := [], out := [2] }, { seq := "DE".toList, vars := [], out := [] }]
    (Generated.expasyRules.lookup "trypsin").map (fun rule =>
      (requiredCuts rule none (pathSeq g [0, 1, 2]), boundaries g false [0, 1, 2],
       (requiredCuts rule none (pathSeq g [0, 1, 2])).all (boundaries g false [0, 1, 2]).contains)) =
      some ([2, 4, 5], [2, 5], false) := by decide

/-! ## Layer G — function-level model of create_variant_graph -/

/-! `Model/Tvg.lean` models the FIRST stage of the graph algorithm function by function
(`ThreeFrameTVG.__init__` / `init_three_frames` / `splice` / `apply_variant` /
`create_variant_graph` with its filter, `find_mnvs_from_adjacent_variants`, `sorted`, the three
cursors and `active_frames`; `TVGNode.truncate_right` / `get_reference_next` /
`get_reference_prev`) for linear transcripts with SNV / RNAEditingSite / INDEL records.  The
tie to the real code is STRUCTURAL: on every check run the graph the real
`create_variant_graph` built is compared node for node and edge for edge (up to node renaming)
with the graph of `Tvg.createVariantGraph` on the same transcript and records (`G-tvgbuild`
stream of `harness/c01.py`).

FULL LANGUAGE THEOREM (PROVED below as `tvg_create_variant_graph_language_eq`, for inputs
satisfying the decidable `poolInputOk`):

    for every transcript `t` and record list `vs` in scope with
    `Tvg.createVariantGraph inp vs = .ok g`, and every frame `f` that is active from the start
    (the known ORF frame of a coding transcript, all three frames otherwise):
    `{ (sequence, record ids) of the maximal paths of g from frame root f } = tvgLang t vs f`.

It is about the MODEL of the first stage; the model is tied to the real `create_variant_graph`
per generated input (`G-tvgbuild`: structural equality of the graphs; `G-tvglang`: the record
lists of all maximal paths of the real graph), and the later stages (`fit_into_codons`,
`translate`, cleavage graph, traversal) are not modelled — which is why C01 stays PARTIAL.

What is proved, for all inputs (no size bound):
  * `tvg_partition_invariant` — in every state reachable by `init_three_frames` followed by
    any sequence of `splice` / `apply_variant` calls whose preconditions hold, the reference nodes
    of each frame tile `[f, |t|)` exactly, carry the transcript slice of their range, consecutive
    ones are joined by a `reference` edge, and every edge agrees with the positions; every
    variant node hangs between the reference node ending at its `start` and the one starting at
    its `stop` (`tvg_frames_tile`, `tvg_frames_tile_ordered`, `tvg_ref_node_is_slice`, `tvg_ref_successor`,
    `tvg_variant_node_hangs` spell the parts out).  This is exactly the hypothesis under which
    the graph IS the position automaton `Walk` of `Lemmas/Graph.lean`.  Part of the invariant:
    a reference node has at most one `reference` out-edge and in-edge, so `get_reference_next` /
    `get_reference_prev` never depend on the iteration order of Python's edge sets
    (`tvg_reference_next_deterministic`, `tvg_reference_prev_deterministic`).
  * `tvg_create_variant_graph_reach` — the cursor loop of `createVariantGraph` (filter, MNV
    merge, `sorted`, three cursors, `active_frames`, in-frame and frame-bridging applications)
    only issues calls whose preconditions hold: every graph it returns is such a reachable state
    (`tvg_create_variant_graph_invariant`).
  * `tvg_path_language_sound_partial` / `tvg_create_variant_graph_sound_partial` — the soundness
    half of the language theorem: every maximal path spells the `applyHap` sequence of the
    records it takes, which are separated.
  * the completeness half, the record pool and the full theorem: see the section "completeness
    half of the language theorem" below. -/

open MoPepGen.Tvg in
/-- **Partition invariant.**  For every transcript `t` with at least three bases and every graph
state `s` reachable by `initThreeFrames t` followed by any sequence of `splice` (reference node,
cut strictly inside, edge type `reference`) and `applyVariant` calls (record a non-empty stretch
inside `t`; source a reference node `[a, b)` of frame `f` with `a ≤ start < b`, `f < start`;
target a reference node starting at or before `start`) that do not raise: `Inv t s` (tiling,
slices, edges agree with positions, consecutive reference nodes linked) and `VarLinked t s`
(every variant node has its `variant_start` in-edge and, unless its record ends at `|t|`, its
`variant_end` out-edge). -/
theorem tvg_partition_invariant (t : List Char) (h3 : 3 ≤ t.length) (s : TState)
    (h : Reach t s) : Inv t s ∧ VarLinked t s :=
  reach_inv h3 h

open MoPepGen.Tvg in
/-- the reference nodes of frame `f` tile `[f, |t|)`: every position of the frame lies in
exactly one reference node of that frame -/
theorem tvg_frames_tile (t : List Char) (h3 : 3 ≤ t.length) (s : TState) (h : Reach t s)
    (f p : Nat) (hf : f < 3) (hfp : f ≤ p) (hp : p < t.length) :
    ∃ i a b, IsRef s i f a b ∧ a ≤ p ∧ p < b ∧
      ∀ j a' b', IsRef s j f a' b' → a' ≤ p → p < b' → j = i := by
  obtain ⟨hI, _⟩ := reach_inv h3 h
  obtain ⟨i, a, b, hi, h1, h2⟩ := hI.cover f p hf hfp hp
  exact ⟨i, a, b, hi, h1, h2, fun j a' b' hj h1' h2' =>
    hI.disjoint j i f a' b' a b hj hi (by omega) (by omega)⟩

open MoPepGen.Tvg in
/-- the same as a list: the reference nodes of frame `f`, ORDERED BY START, tile `[f, |t|)`
exactly — there is a list of (node, start, end) triples, contiguous from `f` to `|t|`
(`RefChain`: each stretch starts where the previous one ends, none is empty), made of reference
nodes of frame `f` and containing every one of them -/
theorem tvg_frames_tile_ordered (t : List Char) (h3 : 3 ≤ t.length) (s : TState) (h : Reach t s)
    (f : Nat) (hf : f < 3) :
    ∃ l, RefChain f t.length l ∧ (∀ x ∈ l, IsRef s x.1 f x.2.1 x.2.2) ∧
      ∀ i x y, IsRef s i f x y → (i, x, y) ∈ l :=
  tvg_frame_chain (reach_inv h3 h).1 hf h3

open MoPepGen.Tvg in
/-- a reference node is a non-empty stretch `[a, b)` of its frame (`f ≤ a < b ≤ |t|`) and its
sequence is the transcript slice `t[a:b]` -/
theorem tvg_ref_node_is_slice (t : List Char) (h3 : 3 ≤ t.length) (s : TState) (h : Reach t s)
    (i f a b : Nat) (sq : List Char) (hn : s.nodes[i]? = some ⟨f, .ref a b, sq⟩) :
    f < 3 ∧ f ≤ a ∧ a < b ∧ b ≤ t.length ∧ sq = slice t a b := by
  have := (reach_inv h3 h).1.nodesOk i _ hn
  simpa only [NodeOk, slice] using this

open MoPepGen.Tvg in
/-- contiguity, with the explicit edge: the reference node `[a, b)` of frame `f` with `b < |t|`
has a `reference` edge to a reference node of frame `f` that starts at `b` (and every reference
node of the frame starting at `b` is that node, by `tvg_frames_tile`) -/
theorem tvg_ref_successor (t : List Char) (h3 : 3 ≤ t.length) (s : TState) (h : Reach t s)
    (i f a b : Nat) (hi : IsRef s i f a b) (hb : b < t.length) :
    ∃ j c, IsRef s j f b c ∧ (⟨i, j, .reference⟩ : TEdge) ∈ s.edges := by
  obtain ⟨hI, _⟩ := reach_inv h3 h
  obtain ⟨j, c, hj⟩ := hI.next_ref hi hb
  exact ⟨j, c, hj, hI.refLinked _ _ _ _ _ _ hi hj⟩

open MoPepGen.Tvg in
/-- the explicit edges agree with the positions: the variant node `k` of record `v` (created in
frame `f`) has a `variant_start` in-edge, EVERY edge into it is a `variant_start` edge from a
reference node of frame `f` ENDING at `v.start`; if `v.stop < |t|` it has a `variant_end`
out-edge, and EVERY edge out of it is a `variant_end` edge to a reference node STARTING at
`v.stop` -/
theorem tvg_variant_node_hangs (t : List Char) (h3 : 3 ≤ t.length) (s : TState) (h : Reach t s)
    (k f : Nat) (v : Rec) (hk : IsVar s k f v) :
    (∃ e ∈ s.edges, e.dst = k) ∧
    (∀ e ∈ s.edges, e.dst = k → e.ty = .variantStart ∧ ∃ a, IsRef s e.src f a v.start) ∧
    (v.stop < t.length → ∃ e ∈ s.edges, e.src = k) ∧
    (∀ e ∈ s.edges, e.src = k → e.ty = .variantEnd ∧ ∃ g d, IsRef s e.dst g v.stop d) := by
  obtain ⟨hI, hL⟩ := reach_inv h3 h
  obtain ⟨⟨e, he, h1, _⟩, hend⟩ := hL k f v hk (by simp)
  refine ⟨⟨e, he, h1⟩, ?_, ?_, ?_⟩
  · intro e he hd
    have hok := hI.edgeOk e he
    obtain ⟨src, dst, ty⟩ := e
    simp only at hd; subst hd
    cases ty <;> simp only [EdgeOk] at hok
    · rcases hok with ⟨_, _, _, _, _, h2⟩ | ⟨_, _, _, _, h2⟩ | ⟨_, _, _, h2⟩
      · exact (h2.not_var hk).elim
      · exact (h2.not_var hk).elim
      · exact (hk.not_null h2).elim
    · obtain ⟨f', a, b, v', h1, h2, h3⟩ := hok
      obtain ⟨rfl, rfl⟩ := hk.inj h2
      exact ⟨rfl, a, h3 ▸ h1⟩
    · obtain ⟨_, _, _, _, _, _, h2, _⟩ := hok
      exact (h2.not_var hk).elim
  · intro hs
    obtain ⟨e, he, h1, _⟩ := hend hs
    exact ⟨e, he, h1⟩
  · intro e he hsrc
    have hok := hI.edgeOk e he
    obtain ⟨src, dst, ty⟩ := e
    simp only at hsrc; subst hsrc
    cases ty <;> simp only [EdgeOk] at hok
    · rcases hok with ⟨_, _, _, _, h1, _⟩ | ⟨_, _, _, h1, _⟩ | ⟨_, _, h1, _⟩
      · exact (h1.not_var hk).elim
      · exact (hk.not_null h1).elim
      · exact (hk.not_null h1).elim
    · obtain ⟨_, _, _, _, h1, _, _⟩ := hok
      exact (h1.not_var hk).elim
    · obtain ⟨f', v', g, c, d, h1, h2, h3⟩ := hok
      obtain ⟨rfl, rfl⟩ := hk.inj h1
      exact ⟨rfl, g, d, h3 ▸ h2⟩

open MoPepGen.Tvg in
/-- Python iterates over a `set` of edges in `get_reference_next`; the model raises where the
result would depend on the iteration order.  In every reachable state that never happens on a
reference node: `get_reference_next` is `None` exactly at the end of the transcript and
otherwise THE reference node of the same frame that starts where this one ends (there is
exactly one `reference` out-edge — no duplicate `TVGEdge` objects either) -/
theorem tvg_reference_next_deterministic (t : List Char) (h3 : 3 ≤ t.length) (s : TState)
    (hR : Reach t s) (i f a b : Nat) (hi : IsRef s i f a b) :
    (b = t.length ∧ getReferenceNext s i = .ok none) ∨
      (∃ j c, IsRef s j f b c ∧ getReferenceNext s i = .ok (some j)) :=
  getReferenceNext_total (reach_inv h3 hR).1 hi

open MoPepGen.Tvg in
/-- … and `get_reference_prev` of a reference node never raises in the model: there is at most
one `reference` in-edge -/
theorem tvg_reference_prev_deterministic (t : List Char) (h3 : 3 ≤ t.length) (s : TState)
    (hR : Reach t s) (i f a b : Nat) (hi : IsRef s i f a b) :
    ∃ r, getReferencePrev s i = .ok r :=
  getReferencePrev_total (reach_inv h3 hR).1 hi

open MoPepGen.Tvg in
/-- **The graph is the position automaton — soundness half of the language theorem.**
FULL STATEMENT (not proved): for `Tvg.createVariantGraph inp vs = .ok g` and every frame `f`
active from the start, the set of `(pathSeqT g p, ids of pathVarsT g p)` over the maximal paths
`p` from frame root `f` equals `tvgLang t vs f`.
PROVED HERE, for every reachable state `s` (in particular every graph built by calls whose
preconditions hold), every frame `f`, the reference node `i` of that frame starting at `f` and
every maximal path `p` from it: the records `h` the path takes are records that have a variant
node in the graph, they are ascending and strictly separated, and the path spells
`(applyHap t h).drop f` — the graph denotes no sequence outside the definition's form.
What was missing here when this theorem was stated is proved further down: (a) the variant
nodes of `createVariantGraph inp vs` carry exactly `recordPool t vs`
(`tvg_var_pool_eq_record_pool`), (b) completeness — every separated sub-collection of the pool
has a path from every frame that is active from the start (`tvg_path_language_complete`,
`tvg_create_variant_graph_complete`); together `tvg_create_variant_graph_language_eq`.  (The name
`_partial` is kept for the record; this theorem is the soundness half.) -/
theorem tvg_path_language_sound_partial (t : List Char) (h3 : 3 ≤ t.length) (s : TState)
    (hR : Reach t s) (i f b : Nat) (hi : IsRef s i f f b) (p : List Nat) (hp : TPath s i p) :
    (∀ v ∈ pathVarsT s p, v ∈ varPool s) ∧ separated (pathVarsT s p) = true ∧
      pathSeqT s p = (applyHap t (pathVarsT s p)).drop f := by
  obtain ⟨hI, hL⟩ := reach_inv h3 hR
  exact tpath_language_sound hI hL hi hp

open MoPepGen.Tvg in
/-- **The cursor loop stays inside the preconditions.**  For every input of
`create_variant_graph` in scope — transcript of at least three bases, records that are
non-empty stretches inside the transcript and no fusion — if the model does not raise, the graph
it returns is reachable by `init_three_frames` followed by `apply_variant` calls whose
preconditions hold.  (The bounds of the source cursor come from the loop's own checks; within
the frame-bridging branch a cursor that was a source may still be a target, a cursor that was
only a target may still be a source.) -/
theorem tvg_create_variant_graph_reach (inp : TvgIn) (vs : List Rec) (g : TState)
    (h3 : 3 ≤ inp.seq.length) (hvs : ∀ v ∈ vs, InOk inp.seq v)
    (h : createVariantGraph inp vs = .ok g) : Reach inp.seq g :=
  createVariantGraph_reach_of_inOk h3 hvs h

open MoPepGen.Tvg in
/-- the partition invariant holds on every graph `createVariantGraph` returns -/
theorem tvg_create_variant_graph_invariant (inp : TvgIn) (vs : List Rec) (g : TState)
    (h3 : 3 ≤ inp.seq.length) (hvs : ∀ v ∈ vs, InOk inp.seq v)
    (h : createVariantGraph inp vs = .ok g) : Inv inp.seq g ∧ VarLinked inp.seq g :=
  reach_inv h3 (createVariantGraph_reach_of_inOk h3 hvs h)

open MoPepGen.Tvg in
/-- soundness half of the language theorem for `createVariantGraph` itself: in the graph it
returns, every maximal path from the reference node of frame `f` starting at `f` (the child of
frame root `f`) spells `(applyHap seq h).drop f` for the records `h` it takes, which have a
variant node in the graph and are ascending and strictly separated -/
theorem tvg_create_variant_graph_sound_partial (inp : TvgIn) (vs : List Rec) (g : TState)
    (h3 : 3 ≤ inp.seq.length) (hvs : ∀ v ∈ vs, InOk inp.seq v)
    (h : createVariantGraph inp vs = .ok g)
    (i f b : Nat) (hi : IsRef g i f f b) (p : List Nat) (hp : TPath g i p) :
    (∀ v ∈ pathVarsT g p, v ∈ varPool g) ∧ separated (pathVarsT g p) = true ∧
      pathSeqT g p = (applyHap inp.seq (pathVarsT g p)).drop f :=
  tvg_path_language_sound_partial inp.seq h3 g (createVariantGraph_reach_of_inOk h3 hvs h) i f b hi p hp

/-! ### completeness half of the language theorem

`Model/TvgLang.lean` defines the decidable condition `attached s f h`: the first record of `h` has
a variant node in frame `f` and, if more records follow, one of the frames its `variant_end`
edges lead to carries the rest in the same sense.  (`create_variant_graph` attaches a record only
to the frames that are active when it is reached, and a frameshifting record moves the path into
another frame's reference chain, so "the record has a variant node somewhere" is not enough.)

PROVED, for all inputs:
  * `tvg_path_language_complete` — in every reachable state, every strictly separated `h` that is
    attached from frame `f` on has a maximal path from the reference node of frame `f` starting at
    `f` that takes exactly `h` and spells `(applyHap t h).drop f`;
  * `tvg_path_attached` — conversely the records of every maximal path are attached, so
  * `tvg_path_language_eq` — the path language of frame `f` of ANY reachable state is exactly
    `{ ((applyHap t h).drop f, h) | h strictly separated, attached from f on }`;
  * `tvg_create_variant_graph_attached` — in the graph `createVariantGraph inp vs` returns, every
    strictly separated list of records that have a variant node is attached from every frame that
    is ACTIVE FROM THE START (the known-ORF frame of a coding transcript, all three frames
    otherwise).  This is the `active_frames` argument: with the records in ascending order of
    start (`tvg_records_ascending`: CPython's `sorted` on `VariantRecord.__lt__`) a frame that a
    path can be in was activated at or before the record that leads into it and carries every
    later record (`Lemmas/TvgLive.lean`, `LiveInv`);
  * `tvg_create_variant_graph_complete`, `tvg_create_variant_graph_language_eq_partial` — hence
    the path language of such a frame is exactly the `applyHap` sequences of ALL strictly
    separated sub-collections of the records that have a variant node (`varPool g`).
  * `tvg_var_pool_eq_record_pool` — (a): for inputs satisfying `poolInputOk` the records that
    have a variant node are exactly `Spec.recordPool` of the input (filter = `usable`, MNV merge =
    `mergedPairs`, the loop skips no record);
  * `tvg_create_variant_graph_language_eq` — the full statement: paths of `g` = `tvgLang t vs f`. -/

open MoPepGen.Tvg in
/-- the start node the language theorems speak about exists and is unique: in every reachable
state each frame `f` has exactly one reference node that starts at `f` -/
theorem tvg_frame_start_node (t : List Char) (h3 : 3 ≤ t.length) (s : TState) (hR : Reach t s)
    (f : Nat) (hf : f < 3) :
    ∃ i b, IsRef s i f f b ∧ ∀ j b', IsRef s j f f b' → j = i := by
  obtain ⟨hI, _⟩ := reach_inv h3 hR
  obtain ⟨i, a, b, hi, h1, h2⟩ := hI.cover f f hf (Nat.le_refl _) (by omega)
  have ha : a = f := by have := (hI.ref_ok hi).2.1; omega
  subst ha
  refine ⟨i, b, hi, ?_⟩
  intro j b' hj
  have := (hI.ref_ok hj).2.2.1
  exact hI.disjoint j i a a b' a b hj hi (by omega) (by omega)

open MoPepGen.Tvg in
/-- **Completeness half of the language theorem**, for every reachable state `s`, every frame `f`,
the reference node `i` of that frame starting at `f` and every list of records `h` that is
strictly separated (ascending, neither overlapping nor adjacent) and `attached` along the frames
from `f` on: there is a maximal path from `i` that takes exactly the records `h` and spells
`(applyHap t h).drop f`.  Frame-bridging (frameshifting) records included. -/
theorem tvg_path_language_complete (t : List Char) (h3 : 3 ≤ t.length) (s : TState)
    (hR : Reach t s) (i f b : Nat) (hi : IsRef s i f f b) (h : List Var)
    (hatt : attached s f h = true) (hsep : separated h = true) :
    ∃ p, TPath s i p ∧ pathVarsT s p = h ∧ pathSeqT s p = (applyHap t h).drop f := by
  obtain ⟨hI, hL⟩ := reach_inv h3 hR
  exact tpath_language_complete hI hL hi hatt hsep

open MoPepGen.Tvg in
/-- the condition is necessary: the records of every maximal path from a reference node of frame
`f` are attached along the frames from `f` on -/
theorem tvg_path_attached (t : List Char) (h3 : 3 ≤ t.length) (s : TState) (hR : Reach t s)
    (i f a b : Nat) (hi : IsRef s i f a b) (p : List Nat) (hp : TPath s i p) :
    attached s f (pathVarsT s p) = true :=
  (tpath_attached (reach_inv h3 hR).1 hp).1 f a b hi

open MoPepGen.Tvg in
/-- **The path language of a frame, as a set** — for every reachable state: `(w, h)` is the
(sequence, records) pair of a maximal path from the reference node of frame `f` starting at `f`
if and only if `h` is strictly separated, attached along the frames from `f` on, and
`w = (applyHap t h).drop f`. -/
theorem tvg_path_language_eq (t : List Char) (h3 : 3 ≤ t.length) (s : TState) (hR : Reach t s)
    (i f b : Nat) (hi : IsRef s i f f b) (w : List Char) (h : List Var) :
    (∃ p, TPath s i p ∧ pathSeqT s p = w ∧ pathVarsT s p = h) ↔
      (attached s f h = true ∧ separated h = true ∧ w = (applyHap t h).drop f) := by
  obtain ⟨hI, hL⟩ := reach_inv h3 hR
  exact tpath_language_eq hI hL hi w h

open MoPepGen.Tvg in
/-- when every record of the graph has a variant node in each of the three frames (`allFrames`),
every strictly separated list of records of the graph is attached from every frame -/
theorem tvg_attached_of_all_frames (t : List Char) (h3 : 3 ≤ t.length) (s : TState) (hR : Reach t s)
    (hall : allFrames s = true) (h : List Var) (f : Nat) (hf : f < 3)
    (hpool : ∀ v ∈ h, v ∈ varPool s) (hsep : separated h = true) : attached s f h = true := by
  obtain ⟨hI, hL⟩ := reach_inv h3 hR
  exact attached_of_allFrames hI hL hall h f hf hpool hsep

open MoPepGen.Tvg in
/-- `sorted(variants)` of `create_variant_graph` (CPython's `list.sort` on `VariantRecord.__lt__`,
fewer than 64 records) hands the loop the records in ascending order of their start -/
theorem tvg_records_ascending (inp : TvgIn) (vs l : List Rec) (h : variantsWithMnv inp vs = .ok l) :
    l.Pairwise fun a b => a.start ≤ b.start :=
  variantsWithMnv_asc h

open MoPepGen.Tvg in
/-- **the `active_frames` argument.**  In the graph `createVariantGraph inp vs` returns (input
records: non-empty stretches inside the transcript, no fusion), for every frame `f` that is active
from the start (`initialActive`: the known-ORF frame of a coding transcript, all three frames
otherwise) every strictly separated list of records that have a variant node is attached along
the frames from `f` on. -/
theorem tvg_create_variant_graph_attached (inp : TvgIn) (vs : List Rec) (g : TState)
    (h3 : 3 ≤ inp.seq.length) (hvs : ∀ v ∈ vs, InOk inp.seq v)
    (h : createVariantGraph inp vs = .ok g) (A0 : List Bool) (hA0 : initialActive inp = .ok A0)
    (f : Nat) (hf : A0.getD f false = true) (hs : List Var) (hpool : ∀ v ∈ hs, v ∈ varPool g)
    (hsep : separated hs = true) : attached g f hs = true :=
  createVariantGraph_attached h3 hvs h hA0 hf hpool hsep

open MoPepGen.Tvg in
/-- **Completeness for `createVariantGraph` itself**: from the reference node of every frame `f`
that is active from the start, every strictly separated sub-collection `hs` of the records that
have a variant node has a maximal path that takes exactly `hs` and spells
`(applyHap seq hs).drop f`. -/
theorem tvg_create_variant_graph_complete (inp : TvgIn) (vs : List Rec) (g : TState)
    (h3 : 3 ≤ inp.seq.length) (hvs : ∀ v ∈ vs, InOk inp.seq v)
    (h : createVariantGraph inp vs = .ok g) (A0 : List Bool) (hA0 : initialActive inp = .ok A0)
    (i f b : Nat) (hf : A0.getD f false = true) (hi : IsRef g i f f b)
    (hs : List Var) (hpool : ∀ v ∈ hs, v ∈ varPool g) (hsep : separated hs = true) :
    ∃ p, TPath g i p ∧ pathVarsT g p = hs ∧ pathSeqT g p = (applyHap inp.seq hs).drop f :=
  tvg_path_language_complete inp.seq h3 g (createVariantGraph_reach_of_inOk h3 hvs h) i f b hi hs
    (createVariantGraph_attached h3 hvs h hA0 hf hpool hsep) hsep

open MoPepGen.Tvg in
/-- **The language theorem for `createVariantGraph`, relative to the records in the graph.**
FULL STATEMENT: the set below equals `tvgLang t vs f` — proved as
`tvg_create_variant_graph_language_eq` under `poolInputOk`; this version needs only `InOk`.
PROVED HERE: for every frame `f` active from the start, `(w, hs)` is the (sequence, records) pair of a
maximal path from the reference node of frame `f` starting at `f` if and only if `hs` is a strictly
separated list of records that have a variant node in the graph and `w = (applyHap seq hs).drop f`.
NOT IN THIS VERSION: (a) that the records with a variant node are exactly `Spec.recordPool` of the
input (`tvg_var_pool_eq_record_pool`). -/
theorem tvg_create_variant_graph_language_eq_partial (inp : TvgIn) (vs : List Rec) (g : TState)
    (h3 : 3 ≤ inp.seq.length) (hvs : ∀ v ∈ vs, InOk inp.seq v)
    (h : createVariantGraph inp vs = .ok g) (A0 : List Bool) (hA0 : initialActive inp = .ok A0)
    (i f b : Nat) (hf : A0.getD f false = true) (hi : IsRef g i f f b)
    (w : List Char) (hs : List Var) :
    (∃ p, TPath g i p ∧ pathSeqT g p = w ∧ pathVarsT g p = hs) ↔
      ((∀ v ∈ hs, v ∈ varPool g) ∧ separated hs = true ∧ w = (applyHap inp.seq hs).drop f) := by
  have hR := createVariantGraph_reach_of_inOk h3 hvs h
  rw [tvg_path_language_eq inp.seq h3 g hR i f b hi w hs]
  constructor
  · rintro ⟨_, h2, rfl⟩
    obtain ⟨p, hp, hv, _⟩ := tvg_path_language_complete inp.seq h3 g hR i f b hi hs ‹_› h2
    have := (tvg_path_language_sound_partial inp.seq h3 g hR i f b hi p hp).1
    rw [hv] at this
    exact ⟨this, h2, rfl⟩
  · rintro ⟨h1, h2, rfl⟩
    exact ⟨createVariantGraph_attached h3 hvs h hA0 hf h1 h2, h2, rfl⟩

open MoPepGen.Tvg in
/-- a transcript without a known ORF: all three frames are active from the start, so the
language theorem holds from every frame -/
theorem tvg_create_variant_graph_complete_noncoding (inp : TvgIn) (vs : List Rec) (g : TState)
    (h3 : 3 ≤ inp.seq.length) (hvs : ∀ v ∈ vs, InOk inp.seq v) (hnc : inp.hasKnownOrf = false)
    (h : createVariantGraph inp vs = .ok g)
    (i f b : Nat) (hf : f < 3) (hi : IsRef g i f f b)
    (hs : List Var) (hpool : ∀ v ∈ hs, v ∈ varPool g) (hsep : separated hs = true) :
    ∃ p, TPath g i p ∧ pathVarsT g p = hs ∧ pathSeqT g p = (applyHap inp.seq hs).drop f := by
  have hA0 : initialActive inp = .ok [true, true, true] := by simp [initialActive, hnc, pure, Except.pure]
  have : ([true, true, true] : List Bool).getD f false = true := by
    have : f = 0 ∨ f = 1 ∨ f = 2 := by omega
    rcases this with rfl | rfl | rfl <;> rfl
  exact tvg_create_variant_graph_complete inp vs g h3 hvs h _ hA0 i f b this hi hs hpool hsep

open MoPepGen.Tvg in
/-- **the record lists of the maximal paths, computed without walking the graph.**  For every
reachable state: `attachedSubs s f` (the sub-collections of the records of the graph that, in
ascending order, are strictly separated and attached from frame `f` on) lists exactly the record
lists of the maximal paths from the reference node of frame `f` starting at `f`.  The driver op
`G tvglang` prints this list for the model's graph and the harness compares it with the paths it
enumerates in the graph the REAL `create_variant_graph` built. -/
theorem tvg_attached_subs_spec (t : List Char) (h3 : 3 ≤ t.length) (s : TState) (hR : Reach t s)
    (i f b : Nat) (hi : IsRef s i f f b) (h : List Var) :
    h ∈ attachedSubs s f ↔ ∃ p, TPath s i p ∧ pathVarsT s p = h := by
  obtain ⟨hI, hL⟩ := reach_inv h3 hR
  exact mem_attachedSubs hI hL hi h

open MoPepGen.Tvg in
/-- … and for the graph of `createVariantGraph` and a frame active from the start that list is
ALL strictly separated lists of records that have a variant node -/
theorem tvg_create_variant_graph_attached_subs (inp : TvgIn) (vs : List Rec) (g : TState)
    (h3 : 3 ≤ inp.seq.length) (hvs : ∀ v ∈ vs, InOk inp.seq v)
    (h : createVariantGraph inp vs = .ok g) (A0 : List Bool) (hA0 : initialActive inp = .ok A0)
    (i f b : Nat) (hf : A0.getD f false = true) (hi : IsRef g i f f b) (hs : List Var) :
    hs ∈ attachedSubs g f ↔ (∀ v ∈ hs, v ∈ varPool g) ∧ separated hs = true := by
  have hR := createVariantGraph_reach_of_inOk h3 hvs h
  rw [tvg_attached_subs_spec inp.seq h3 g hR i f b hi hs]
  constructor
  · rintro ⟨p, hp, rfl⟩
    obtain ⟨h1, h2, _⟩ := tvg_path_language_sound_partial inp.seq h3 g hR i f b hi p hp
    exact ⟨h1, h2⟩
  · rintro ⟨h1, h2⟩
    obtain ⟨p, hp, hv, _⟩ := tvg_create_variant_graph_complete inp vs g h3 hvs h A0 hA0 i f b hf hi hs h1 h2
    exact ⟨p, hp, hv⟩

open MoPepGen.Tvg in
/-- **(a) the variant nodes carry exactly the record pool of the definition.**  For every input
that satisfies the decidable `poolInputOk` (what `call_peptide_main` guarantees: known ORF ⇔ the
sequence carries one, `max_adjacent_as_mnv = 2`, records of the modelled types, non-empty
stretches inside the transcript, typed `INDEL` exactly when the alleles make an insertion or a
deletion, ascending starts): a record has a variant node in the graph `createVariantGraph inp vs`
returns if and only if it is — up to the merge class, which a graph record does not carry — a
record of `Spec.recordPool` (a `usable` input record or a merged adjacent pair).  Three parts:
the "Filter variants" loop is `filterMap usable` (`filterAll_usable`),
`find_mnvs_from_adjacent_variants` on ascending records is `mergedPairs`
(`findMnvs_mergedPairs`: its `break` loses nothing), and the cursor loop skips no record
(`cvgLoop_live`: no cursor ever starts behind a record, none runs off the end). -/
theorem tvg_var_pool_eq_record_pool (inp : TvgIn) (vs : List Rec) (g : TState)
    (hok : poolInputOk inp vs = true) (h : createVariantGraph inp vs = .ok g) (x : Var) :
    x ∈ varPool g ↔ ∃ u ∈ recordPool inp.toTx (vs.map Rec.toSpec), x = eraseCls u := by
  have h3 := (poolInputOk_iff hok).2.2.1
  obtain ⟨_, _, _, l, _, hl, _, _, hpool⟩ := createVariantGraph_live h3 (poolInputOk_inOk hok) h
  rw [hpool]
  constructor
  · rintro ⟨r, hr, rfl⟩
    exact ⟨r.toSpec, (variantsWithMnv_recordPool hok hl _).mp ⟨r, hr, rfl⟩, rfl⟩
  · rintro ⟨u, hu, rfl⟩
    obtain ⟨r, hr, rfl⟩ := (variantsWithMnv_recordPool hok hl u).mpr hu
    exact ⟨r, hr, rfl⟩

open MoPepGen.Tvg MoPepGen.Graph in
/-- **THE LANGUAGE THEOREM for `create_variant_graph`** (the full statement announced above, for
the modelled record kinds).  For every input satisfying `poolInputOk`, if
`createVariantGraph inp vs = .ok g`, then for every frame `f` that is active from the start (the
known-ORF frame of a coding transcript, all three frames otherwise) and the reference node `i` of
that frame starting at `f` (the child of frame root `f`):

    { (sequence, record ids) of the maximal paths of g from i } = tvgLang t vs f

— the `applyHap` sequences (from position `f`) and id lists of ALL compatible combinations of the
definition's record pool, the empty one included; nothing else, nothing missing. -/
theorem tvg_create_variant_graph_language_eq (inp : TvgIn) (vs : List Rec) (g : TState)
    (hok : poolInputOk inp vs = true) (h : createVariantGraph inp vs = .ok g)
    (A0 : List Bool) (hA0 : initialActive inp = .ok A0)
    (i f b : Nat) (hf : A0.getD f false = true) (hi : IsRef g i f f b)
    (w : List Char) (ids : List Nat) :
    (∃ p, TPath g i p ∧ pathSeqT g p = w ∧ hapIds (pathVarsT g p) = ids) ↔
      (w, ids) ∈ tvgLang inp.toTx (vs.map Rec.toSpec) f := by
  have h3 := (poolInputOk_iff hok).2.2.1
  have hvs := poolInputOk_inOk hok
  have hR := createVariantGraph_reach_of_inOk h3 hvs h
  obtain ⟨hI, _⟩ := reach_inv h3 hR
  have hpool := tvg_var_pool_eq_record_pool inp vs g hok h
  -- pool records are non-empty stretches (their erased forms sit on variant nodes)
  have hpos : ∀ u ∈ recordPool inp.toTx (vs.map Rec.toSpec), u.start ≤ u.stop := by
    intro u hu
    obtain ⟨k, m, r, hk, hr⟩ := mem_varPool_iff.mp ((hpool (eraseCls u)).mpr ⟨u, hu, rfl⟩)
    have := (hI.var_ok hk).2.2.1
    have e1 : r.start = u.start := by rw [show u.start = (eraseCls u).start from rfl, ← hr]; rfl
    have e2 : r.stop = u.stop := by rw [show u.stop = (eraseCls u).stop from rfl, ← hr]; rfl
    omega
  simp only [tvgLang, allHaps, List.mem_map, List.mem_cons, Prod.mk.injEq]
  constructor
  · rintro ⟨p, hp, rfl, rfl⟩
    obtain ⟨h1, h2, h3'⟩ := tvg_path_language_sound_partial inp.seq h3 g hR i f b hi p hp
    obtain ⟨h', e, hsub⟩ := lift_erase (pool := recordPool inp.toTx (vs.map Rec.toSpec))
      (pathVarsT g p) (fun v hv => (hpool v).mp (h1 v hv))
    refine ⟨h', ?_, ?_, ?_⟩
    · cases h' with
      | nil => exact Or.inl rfl
      | cons a t =>
        right
        apply (mem_haplotypes_iff _ _ _ hpos).mpr
        refine ⟨by simp, ?_, hsub⟩
        rw [← separated_map_erase, e]; exact h2
    · rw [h3', ← e, applyHap_map_erase]; rfl
    · rw [← e, hapIds_map_erase]
  · rintro ⟨h', hmem, rfl, rfl⟩
    have hh : separated h' = true ∧ ∀ u ∈ h', u ∈ recordPool inp.toTx (vs.map Rec.toSpec) := by
      rcases hmem with rfl | hmem
      · exact ⟨rfl, by simp⟩
      · exact ((mem_haplotypes_iff _ _ _ hpos).mp hmem).2
    obtain ⟨p, hp, hv, hs⟩ := tvg_create_variant_graph_complete inp vs g h3 hvs h A0 hA0 i f b hf hi
      (h'.map eraseCls)
      (fun v hv => by
        obtain ⟨u, hu, rfl⟩ := List.mem_map.mp hv
        exact (hpool _).mpr ⟨u, hh.2 u hu, rfl⟩)
      (by rw [separated_map_erase]; exact hh.1)
    refine ⟨p, hp, ?_, ?_⟩
    · rw [hs, applyHap_map_erase]; rfl
    · rw [hv, hapIds_map_erase]

/-! non-vacuity: the transcript `ATGGCCAAATAGGC` (known ORF at 0) with the SNV `G→T` at 3 and the
frameshifting insertion `A→AC` at 7.  `create_variant_graph` applies the SNV in frame 0, the
insertion activates the other two frames and is applied as bridges 0→2, 1→0, 2→1: four
`apply_variant` calls whose preconditions hold, so the resulting graph is `Reach`able and the
theorems above speak about it. -/
section TvgNonVacuity
open MoPepGen.Tvg
/-- example transcript (not part of any statement) -/
def tvgT : List Char := "ATGGCCAAATAGGC".toList
/-- example SNV -/
def tvgSnv : Rec := { start := 3, stop := 4, ref := ['G'], alt := ['T'], type := "SNV", ids := [0] }
/-- example frameshifting insertion -/
def tvgIns : Rec := { start := 7, stop := 8, ref := ['A'], alt := ['A', 'C'], type := "INDEL", ids := [1] }
/-- the graph `create_variant_graph` builds for the example -/
def tvgG : Except String TState :=
  createVariantGraph { seq := tvgT, hasKnownOrf := true, orf := some (0, 9), mrnaEndNF := false }
    [tvgSnv, tvgIns]

/-- the states after each of the four `apply_variant` calls of the example, as the cursor loop
issues them (source, target): (4, 4) for the SNV, then (9, 6), (5, 9), (6, 5) for the insertion -/
def tvgS0 : TState := initThreeFrames tvgT
def tvgS1 : TState :=
  match applyVariant tvgS0 4 4 tvgSnv with | .ok (s, _, _) => s | .error _ => default
def tvgS2 : TState :=
  match applyVariant tvgS1 9 6 tvgIns with | .ok (s, _, _) => s | .error _ => default
def tvgS3 : TState :=
  match applyVariant tvgS2 5 9 tvgIns with | .ok (s, _, _) => s | .error _ => default
def tvgS4 : TState :=
  match applyVariant tvgS3 6 5 tvgIns with | .ok (s, _, _) => s | .error _ => default

/-- the example graph: 19 nodes, 22 edges, and it is what the four calls build -/
example : (tvgG.toOption.map fun g => (g.nodes.length, g.edges.length)) = some (19, 22) := by decide +kernel
example : tvgG.toOption = some tvgS4 := by decide +kernel

/-- the four calls do not raise and their preconditions hold (each `IsRef` witness is the node
itself), so the graph of the example is `Reach`able -/
theorem tvg_example_reach : Reach tvgT tvgS4 := by
  have e1 : applyVariant tvgS0 4 4 tvgSnv = .ok (tvgS1, 4, 4) := rfl
  have e2 : applyVariant tvgS1 9 6 tvgIns = .ok (tvgS2, 9, 6) := rfl
  have e3 : applyVariant tvgS2 5 9 tvgIns = .ok (tvgS3, 5, 9) := rfl
  have e4 : applyVariant tvgS3 6 5 tvgIns = .ok (tvgS4, 6, 5) := rfl
  have p1 : ApplyPre tvgT tvgS0 4 4 tvgSnv :=
    ⟨by decide, ⟨0, 0, 14, ⟨_, rfl⟩, by decide, by decide, by decide⟩, ⟨0, 0, 14, ⟨_, rfl⟩, by decide⟩⟩
  have p2 : ApplyPre tvgT tvgS1 9 6 tvgIns :=
    ⟨by decide, ⟨0, 4, 14, ⟨_, rfl⟩, by decide, by decide, by decide⟩, ⟨2, 2, 14, ⟨_, rfl⟩, by decide⟩⟩
  have p3 : ApplyPre tvgT tvgS2 5 9 tvgIns :=
    ⟨by decide, ⟨1, 1, 14, ⟨_, rfl⟩, by decide, by decide, by decide⟩, ⟨0, 4, 7, ⟨_, rfl⟩, by decide⟩⟩
  have p4 : ApplyPre tvgT tvgS3 6 5 tvgIns :=
    ⟨by decide, ⟨2, 2, 8, ⟨_, rfl⟩, by decide, by decide, by decide⟩, ⟨1, 1, 7, ⟨_, rfl⟩, by decide⟩⟩
  exact Reach.apply (Reach.apply (Reach.apply (Reach.apply Reach.init p1 e1) p2 e2) p3 e3) p4 e4

/-- … hence the invariant holds on it (through the theorem, not by evaluation) -/
example : Inv tvgT tvgS4 ∧ VarLinked tvgT tvgS4 :=
  tvg_partition_invariant tvgT (by decide) _ tvg_example_reach

/-- the tiling of frame 0 of the example graph as a chain: `[0,3) [3,4) [4,7) [7,8) [8,14)` -/
example : RefChain 0 tvgT.length [(4, 0, 3), (8, 3, 4), (9, 4, 7), (11, 7, 8), (15, 8, 14)] ∧
    ∀ x ∈ [(4, 0, 3), (8, 3, 4), (9, 4, 7), (11, 7, 8), (15, 8, 14)],
      ∃ sq, tvgS4.nodes[x.1]? = some ⟨0, .ref x.2.1 x.2.2, sq⟩ := by
  refine ⟨⟨rfl, by decide, rfl, by decide, rfl, by decide, rfl, by decide, rfl, by decide, rfl⟩, ?_⟩
  intro x hx
  simp only [List.mem_cons, List.not_mem_nil, or_false] at hx
  rcases hx with rfl | rfl | rfl | rfl | rfl <;> exact ⟨_, rfl⟩

/-- a maximal path of the example graph that takes the SNV in frame 0 and then the bridge of the
insertion into frame 2: nodes `[0,3) · T · [4,7) · AC · [8,14)` (indices 4, 7, 9, 10, 12) -/
example : pathSeqT tvgS4 [4, 7, 9, 10, 12] = "ATGTCCAACATAGGC".toList ∧
    (pathVarsT tvgS4 [4, 7, 9, 10, 12]).map (·.ids) = [[0], [1]] ∧
    pathSeqT tvgS4 [4, 7, 9, 10, 12] = (applyHap tvgT (pathVarsT tvgS4 [4, 7, 9, 10, 12])).drop 0 := by
  decide

/-- … and it IS a maximal path of the example graph, so `tvg_path_language_sound_partial` applies -/
example : TPath tvgS4 4 [4, 7, 9, 10, 12] :=
  .step ⟨4, 7, .variantStart⟩ (by decide) rfl (.step ⟨7, 9, .variantEnd⟩ (by decide) rfl
    (.step ⟨9, 10, .variantStart⟩ (by decide) rfl (.step ⟨10, 12, .variantEnd⟩ (by decide) rfl
      (.leaf (by decide)))))

/-- the hypotheses of `tvg_create_variant_graph_reach` hold for the example -/
example : 3 ≤ tvgT.length ∧ (∀ v ∈ [tvgSnv, tvgIns], InOk tvgT v) ∧ tvgG = .ok tvgS4 := by
  refine ⟨by decide, ?_, rfl⟩
  intro v hv
  simp only [List.mem_cons, List.not_mem_nil, or_false] at hv
  rcases hv with rfl | rfl <;> exact ⟨by decide, by decide, by decide⟩

/-! non-vacuity of the completeness half.  In the example graph the SNV was reached when only
frame 0 was active, the insertion activated the other two: `[SNV, insertion]` is attached from
frame 0 on (the path above), `[SNV]` is NOT attached from frame 1 (the condition discriminates),
`[insertion]` is attached from every frame. -/
example : separated [tvgSnv.toVar, tvgIns.toVar] = true ∧
    attached tvgS4 0 [tvgSnv.toVar, tvgIns.toVar] = true ∧ attached tvgS4 1 [tvgSnv.toVar] = false ∧
    attached tvgS4 1 [tvgIns.toVar] = true ∧ attached tvgS4 2 [tvgIns.toVar] = true ∧
    bridgeFrames tvgS4 0 tvgIns.toVar = [2] ∧ allFrames tvgS4 = false := by decide

/-- `tvg_path_language_complete` applies to the example: the path exists (through the theorem) -/
example : ∃ p, TPath tvgS4 4 p ∧ pathVarsT tvgS4 p = [tvgSnv.toVar, tvgIns.toVar] ∧
    pathSeqT tvgS4 p = (applyHap tvgT [tvgSnv.toVar, tvgIns.toVar]).drop 0 :=
  tvg_path_language_complete tvgT (by decide) _ tvg_example_reach 4 0 3 ⟨_, rfl⟩ _ (by decide) (by decide)

/-- … and `tvg_path_language_eq` read from right to left gives the same path, from left to right
it says that no maximal path from the frame-1 chain takes the SNV -/
example : ¬ ∃ p, TPath tvgS4 5 p ∧ pathSeqT tvgS4 p = (applyHap tvgT [tvgSnv.toVar]).drop 1 ∧
    pathVarsT tvgS4 p = [tvgSnv.toVar] := by
  rw [tvg_path_language_eq tvgT (by decide) _ tvg_example_reach 5 1 7 ⟨_, rfl⟩]
  decide

/-- the hypotheses of `tvg_create_variant_graph_attached` / `_complete` hold for the example:
frame 0 is the frame active from the start, both records have a variant node -/
example : initialActive { seq := tvgT, hasKnownOrf := true, orf := some (0, 9), mrnaEndNF := false } =
      .ok [true, false, false] ∧
    (∀ v ∈ [tvgSnv.toVar, tvgIns.toVar], v ∈ varPool tvgS4) ∧ IsRef tvgS4 4 0 0 3 := by
  refine ⟨rfl, ?_, ⟨_, rfl⟩⟩
  intro v hv
  simp only [List.mem_cons, List.not_mem_nil, or_false] at hv
  rcases hv with rfl | rfl <;> decide

/-- the records the loop of the example walks over, in ascending order (`tvg_records_ascending`) -/
example : (variantsWithMnv { seq := tvgT, hasKnownOrf := true, orf := some (0, 9), mrnaEndNF := false }
    [tvgIns, tvgSnv]).toOption = some [tvgSnv, tvgIns] := by decide +kernel

/-- the same records on the transcript WITHOUT a known ORF: all three frames are active from the
start, every record gets a variant node in every frame (`allFrames`), so
`tvg_attached_of_all_frames` / `tvg_create_variant_graph_complete_noncoding` apply from each frame -/
def tvgNc : Except String TState :=
  createVariantGraph { seq := tvgT, hasKnownOrf := false, orf := none, mrnaEndNF := false }
    [tvgSnv, tvgIns]
example : (tvgNc.toOption.map fun g => (g.nodes.length, allFrames g,
    [0, 1, 2].map fun f => attached g f [tvgSnv.toVar, tvgIns.toVar])) =
    some (25, true, [true, true, true]) := by decide +kernel

/-- the record lists of the maximal paths of the example graph: from frame 0 every combination,
from frames 1 and 2 only those without the SNV -/
example : ((attachedSubs tvgS4 0).map fun h => h.map (·.ids)) = [[], [[1]], [[0]], [[0], [1]]] ∧
    ((attachedSubs tvgS4 1).map fun h => h.map (·.ids)) = [[], [[1]]] ∧
    ((attachedSubs tvgS4 2).map fun h => h.map (·.ids)) = [[], [[1]]] := by decide +kernel

/-! non-vacuity of (a) and of the language theorem: the same transcript with an insertion anchored
ON the last base of the start codon (re-anchored by the filter: `2:3 G→GT` becomes `3:4 G→TG`) and
two adjacent SNVs (merged into the MNV `5:7 CA→GT` with ids `[1, 2]`; taken separately they are
adjacent, hence not compatible).  The input satisfies `poolInputOk` (an unsorted one does not),
the record pool of the definition has four records, they are the records of the graph, and the
maximal paths of frame 0 are the eight combinations of `tvgLang`. -/
/-- example input (not part of any statement) -/
def tvgInp2 : TvgIn := { seq := tvgT, hasKnownOrf := true, orf := some (0, 9), mrnaEndNF := false }
def tvgIns2 : Rec := { start := 2, stop := 3, ref := ['G'], alt := ['G', 'T'], type := "INDEL", ids := [0] }
def tvgSnv5 : Rec := { start := 5, stop := 6, ref := ['C'], alt := ['G'], type := "SNV", ids := [1] }
def tvgSnv6 : Rec := { start := 6, stop := 7, ref := ['A'], alt := ['T'], type := "SNV", ids := [2] }

example : poolInputOk tvgInp2 [tvgIns2, tvgSnv5, tvgSnv6] = true ∧
    poolInputOk tvgInp2 [tvgSnv6, tvgSnv5] = false := by decide

example : ((recordPool tvgInp2.toTx ([tvgIns2, tvgSnv5, tvgSnv6].map Rec.toSpec)).map fun u =>
      (u.start, u.stop, String.ofList u.ref, String.ofList u.alt, u.ids)) =
    [(3, 4, "G", "TG", [0]), (5, 6, "C", "G", [1]), (6, 7, "A", "T", [2]), (5, 7, "CA", "GT", [1, 2])] := by
  decide +kernel

open MoPepGen.Graph in
example : ((createVariantGraph tvgInp2 [tvgIns2, tvgSnv5, tvgSnv6]).toOption.map fun g =>
      (((varPool g).eraseDups.map fun u => (u.start, u.stop, u.ids)),
       ((attachedSubs g 0).map fun h => (String.ofList ((applyHap tvgT h).drop 0), hapIds h)))) =
    some ([(3, 4, [0]), (5, 6, [1]), (5, 7, [1, 2]), (6, 7, [2])],
      [("ATGGCCAAATAGGC", []), ("ATGGCCTAATAGGC", [2]), ("ATGGCGTAATAGGC", [1, 2]),
       ("ATGGCGAAATAGGC", [1]), ("ATGTGCCAAATAGGC", [0]), ("ATGTGCCTAATAGGC", [0, 2]),
       ("ATGTGCGTAATAGGC", [0, 1, 2]), ("ATGTGCGAAATAGGC", [0, 1])]) := by decide +kernel

open MoPepGen.Graph in
example : ((tvgLang tvgInp2.toTx ([tvgIns2, tvgSnv5, tvgSnv6].map Rec.toSpec) 0).map fun x =>
      (String.ofList x.1, x.2)) =
    [("ATGGCCAAATAGGC", []), ("ATGGCGTAATAGGC", [1, 2]), ("ATGGCCTAATAGGC", [2]),
     ("ATGGCGAAATAGGC", [1]), ("ATGTGCCAAATAGGC", [0]), ("ATGTGCGTAATAGGC", [0, 1, 2]),
     ("ATGTGCCTAATAGGC", [0, 2]), ("ATGTGCGAAATAGGC", [0, 1])] := by decide +kernel

/-- a `splice` whose precondition holds (the frame-1 node `[1, 14)` cut at offset 4) -/
example : SplicePre tvgS0 5 4 ∧
    ∃ s', Tvg.splice tvgS0 5 4 .reference = .ok (s', 5, 7) :=
  ⟨⟨1, 1, 14, ⟨_, rfl⟩, by decide, by decide⟩, _, rfl⟩
end TvgNonVacuity

/-! ## Layer G — function-level model of `ThreeFrameTVG.translate` (third stage)

`Model/Translate.lean` models `ThreeFrameTVG.translate` function by function: the `while queue`
search with `visited` (one `PVGNode` per reached TVG node, named `pix o = o + 2`; 0 = root, 1 = the
shared stop node), `TVGNode.translate` (sequence, matched locations and variant locations in
amino-acid coordinates), `PVGNode.fix_selenocysteines` (the two-cursor loop with its start / end
offset guards and the rebuilding loop), the empty-leaf cases (`*` / `truncated`),
`PeptideVariantGraph.add_stop`, `TVGNode.get_reference_next` for `pgraph.reading_frames`, and the
final loop that splits a fake stop off a node holding an annotated CDS end that is not a stop codon
(`PVGNode.split_node`).  Tie: internal streams `G-translate` (every stage-dumping case of C01: the
graph the real `translate` found vs the graph it returned) and `G-translate-direct`.

Below, for a LINEAR transcript (`isCirc = false`):
 (a) structure — the maximal paths of the returned graph from the image of a frame's start node
     are exactly the images of the maximal paths of the input graph (`translate_paths`), the
     successors of the root are the images of the frames' start nodes (`translate_root_successors`),
     the last node of every path — and no other — is followed by the stop node
     (`translate_stop_after_every_branch`);
 (b) language — along such a path the returned graph spells, node by node, `nodeProt` of the input
     nodes (`translate_path_sequence`); if every node with a successor is a whole number of codons
     (`innerCodons`, what CP2 asserts) and the collected Sec positions are ascending in every node
     (`secAscending`), that is the translation of the path's DNA read with `U` at exactly the
     positions `fix_selenocysteines` collected, plus `*` for an empty last node
     (`translate_path_sequence_sec`, `translate_language_eq`); which positions are collected is
     `sec_hit_sound` (only if) and `sec_hits_exact_of_sorted` (iff, for sorted single-frame
     locations / records); without annotated Sec codons CP2 for the input graph gives CP3 for the
     returned graph (`translate_cp3_of_cp2`).
 (c) the fake stop — (a) and (b) above are stated for graphs in which no fake stop is split off
     (`noTerminal g ∨ ¬ hasKnownOrf`, the case of an annotation whose CDS end is a stop codon);
     `translate_language_fake_stop` gives the language for EVERY linear transcript with a known
     ORF: the node-wise translations of the maximal paths plus, for every node the final loop cuts
     (`translate_terminal_site_spec`) and every walk that reaches it, the protein up to the
     annotated CDS end followed by `*` (by `expand_language`, the effect of cutting a node on a
     Layer G graph).
`translate_fuel_stable`: the fuel of the modelled loop is no restriction. -/

open MoPepGen.Translate MoPepGen.Graph in
/-- (a) the successors of the root of the returned graph are exactly the images of the start
nodes of the three frames (the successors of the frame roots `self.reading_frames`) -/
theorem translate_root_successors (g : TGraphIn) (pg : PGraph) (h : translateGraph g = .ok pg)
    (hnt : noTerminal g = true ∨ g.hasKnownOrf = false) (q : Nat) :
    q ∈ succs pg.toGraph rootIx ↔ ∃ d ∈ g.frames, ∃ o ∈ succs g.toGraph d, q = pix o := by
  obtain ⟨st, hF, hG⟩ := translateGraph_final h hnt
  rw [hG]; exact hF.root_succs q

open MoPepGen.Translate MoPepGen.Graph in
/-- (a) structure: from the image of a frame's start node `o`, the maximal paths of the returned
graph (the shared stop node is the end sentinel, not part of a path) are exactly the node-wise
images of the maximal paths of the input graph from `o` -/
theorem translate_paths (g : TGraphIn) (pg : PGraph) (h : translateGraph g = .ok pg)
    (hnt : noTerminal g = true ∨ g.hasKnownOrf = false) (d o : Nat) (hd : d ∈ g.frames)
    (ho : o ∈ succs g.toGraph d) (q : List Nat) :
    MaxPath pg.toGraph (pix o) q ↔ ∃ p, MaxPath g.toGraph o p ∧ q = p.map pix := by
  obtain ⟨st, hF, hG⟩ := translateGraph_final h hnt
  rw [hG]
  have hp := hF.start_present hd ho
  constructor
  · intro hm; exact hF.tvg_of_path hm o rfl hp
  · rintro ⟨p, hm, rfl⟩; exact hF.path_of_tvg hm hp

open MoPepGen.Translate MoPepGen.Graph in
/-- (a) `add_stop`: along the image of a maximal path the LAST node — and only a node without
out-edges — has the shared stop node as its one and only successor in the returned graph
(`*` is added at the end of every branch); the stop node is the end sentinel of Layer G and not
part of any path -/
theorem translate_stop_after_every_branch (g : TGraphIn) (pg : PGraph) (h : translateGraph g = .ok pg)
    (hnt : noTerminal g = true ∨ g.hasKnownOrf = false) (d o : Nat) (hd : d ∈ g.frames)
    (ho : o ∈ succs g.toGraph d) (p : List Nat) (hm : MaxPath g.toGraph o p) (l : Nat)
    (hl : p.getLast? = some l) (q : Nat) :
    q ∈ ((pg.nodes[pix l]?.map (·.out)).getD []) ↔ q = stopIx := by
  obtain ⟨st, hst, hn⟩ := translateGraph_nodes h hnt
  have hF := translateCore_final hst
  obtain ⟨hleaf, hmem⟩ := maxPath_last_leaf hm l hl
  rw [hn]
  exact hF.leaf_out (hF.path_present hm (hF.start_present hd ho) l hmem) hleaf q

open MoPepGen.Translate MoPepGen.Graph in
/-- (b) node by node: along the image of a maximal path the returned graph spells `nodeProt` of
the input nodes — the translation of the node's DNA (a last node cut to whole codons), rebuilt
around the positions `fix_selenocysteines` collected (`rebuildSec`, the loop as written), `*`
for an empty node without successor unless trailing nodes are clipped.  No assumption on codons
or on the order of the Sec positions. -/
theorem translate_path_sequence (g : TGraphIn) (pg : PGraph) (h : translateGraph g = .ok pg)
    (hc : g.isCirc = false) (hnt : noTerminal g = true ∨ g.hasKnownOrf = false) (d o : Nat)
    (hd : d ∈ g.frames) (ho : o ∈ succs g.toGraph d) (p : List Nat) (hm : MaxPath g.toGraph o p) :
    pathSeq pg.toGraph (p.map pix) = p.flatMap (protOf g) := by
  obtain ⟨st, hF, hG⟩ := translateGraph_final h hnt
  rw [hG]; exact hF.pathSeq_eq hc hm (hF.start_present hd ho)

open MoPepGen.Translate MoPepGen.Graph in
/-- (b) with the Sec rule: if the path is codon aligned and the collected positions are strictly
ascending in every node, the image path spells the translation of the path's DNA with `U` at
exactly the collected positions (`pathHits`: the positions of each node shifted by the length of
the protein in front of it), followed by `*` when the last node translates to nothing and
trailing nodes are not clipped -/
theorem translate_path_sequence_sec (g : TGraphIn) (pg : PGraph) (h : translateGraph g = .ok pg)
    (hc : g.isCirc = false) (hnt : noTerminal g = true ∨ g.hasKnownOrf = false)
    (hasc : secAscending g = true) (d o : Nat) (hd : d ∈ g.frames) (ho : o ∈ succs g.toGraph d)
    (p : List Nat) (hm : MaxPath g.toGraph o p) (hal : codonAligned g.toGraph p = true) :
    pathSeq pg.toGraph (p.map pix) =
      secRead (pathHits g p) 0 (translate (pathSeq g.toGraph p)) ++ endStar g p := by
  obtain ⟨st, hF, hG⟩ := translateGraph_final h hnt
  have hp := hF.start_present hd ho
  rw [hG, hF.pathSeq_eq hc hm hp, ← translatePath_eq _ _ hal]
  exact path_prot hm fun o' ho' => hF.hitsOk hc hasc (hF.path_present hm hp o' ho')

open MoPepGen.Translate MoPepGen.Graph in
/-- (b) the language theorem: for an input graph in which every node with a successor is a whole
number of codons, the protein language of the returned graph from the image of a frame's start
node is exactly the set of translations of the DNA language of the input graph from that node,
read with `U` at the collected Sec positions (and `*` for an empty last node) -/
theorem translate_language_eq (g : TGraphIn) (pg : PGraph) (h : translateGraph g = .ok pg)
    (hc : g.isCirc = false) (hnt : noTerminal g = true ∨ g.hasKnownOrf = false)
    (hic : innerCodons g = true) (hasc : secAscending g = true) (d o : Nat) (hd : d ∈ g.frames)
    (ho : o ∈ succs g.toGraph d) (w : List Char) :
    (∃ q, MaxPath pg.toGraph (pix o) q ∧ pathSeq pg.toGraph q = w) ↔
      ∃ p, MaxPath g.toGraph o p ∧
        w = secRead (pathHits g p) 0 (translate (pathSeq g.toGraph p)) ++ endStar g p := by
  constructor
  · rintro ⟨q, hq, rfl⟩
    obtain ⟨p, hm, rfl⟩ := (translate_paths g pg h hnt d o hd ho q).mp hq
    exact ⟨p, hm, translate_path_sequence_sec g pg h hc hnt hasc d o hd ho p hm
      (codonAligned_of_innerCodons hic hm)⟩
  · rintro ⟨p, hm, rfl⟩
    exact ⟨p.map pix, (translate_paths g pg h hnt d o hd ho _).mpr ⟨p, hm, rfl⟩,
      translate_path_sequence_sec g pg h hc hnt hasc d o hd ho p hm
        (codonAligned_of_innerCodons hic hm)⟩

open MoPepGen.Translate MoPepGen.Graph in
/-- CP2 ⇒ CP3 for the model of this stage, transcripts without annotated Sec codons: if the DNA
language of the input graph from the frame's start node is the language CP2 demands
(`tvgLang t vs f`) and every node with a successor is a whole number of codons, then the protein
language of the returned graph, trailing stop symbols removed, is the language CP3 demands
(`protLang t vs f`, likewise stripped — the comparison `Driver/G.lean` makes for stage `pvg1`). -/
theorem translate_cp3_of_cp2 (g : TGraphIn) (pg : PGraph) (h : translateGraph g = .ok pg)
    (hc : g.isCirc = false) (hnt : noTerminal g = true ∨ g.hasKnownOrf = false)
    (hic : innerCodons g = true) (hs : g.sect = []) (d o : Nat) (hd : d ∈ g.frames)
    (ho : o ∈ succs g.toGraph d) (t : TxIn) (vs : List Var) (f : Nat) (hts : t.sec = [])
    (hcp2 : ∀ s, (∃ p, MaxPath g.toGraph o p ∧ pathSeq g.toGraph p = s) ↔
      s ∈ (tvgLang t vs f).map (·.1)) (w : List Char) :
    (∃ q, MaxPath pg.toGraph (pix o) q ∧ stripEnd (pathSeq pg.toGraph q) = w) ↔
      w ∈ (protLang t vs f).map stripEnd := by
  have hhits : ∀ n : DNode, secHits g n = [] := fun n => by simp [secHits, hs, secLoop_nil_right]
  have hasc : secAscending g = true := by
    simp [secAscending, hhits, ascB]
  have hph : ∀ p : List Nat, pathHits g p = [] := by
    intro p
    induction p with
    | nil => rfl
    | cons a as ih =>
      simp only [pathHits, ih, List.map_nil, List.append_nil]
      cases g.nodes[a]? <;> simp [hhits]
  have hstrip : ∀ p : List Nat, stripEnd (translate (pathSeq g.toGraph p) ++ endStar g p) =
      stripEnd (translate (pathSeq g.toGraph p)) := by
    intro p
    unfold endStar
    split
    · split
      · exact stripEnd_append_star _
      · simp
    · simp
  have hprot : (protLang t vs f).map stripEnd =
      ((tvgLang t vs f).map (·.1)).map fun s => stripEnd (translate s) := by
    simp only [protLang, tvgLang, List.map_map]
    apply List.map_congr_left
    intro hp _
    simp [hts, secAfter, fullTranslation_nil_sec]
  rw [hprot]
  constructor
  · rintro ⟨q, hq, rfl⟩
    obtain ⟨p, hm, hw⟩ := (translate_language_eq g pg h hc hnt hic hasc d o hd ho _).mp ⟨q, hq, rfl⟩
    rw [hw, hph, secRead_nil, hstrip]
    exact List.mem_map.mpr ⟨_, (hcp2 _).mp ⟨p, hm, rfl⟩, rfl⟩
  · intro hw
    obtain ⟨s, hs', rfl⟩ := List.mem_map.mp hw
    obtain ⟨p, hm, rfl⟩ := (hcp2 s).mpr hs'
    obtain ⟨q, hq, hqs⟩ := (translate_language_eq g pg h hc hnt hic hasc d o hd ho _).mpr ⟨p, hm, rfl⟩
    refine ⟨q, hq, ?_⟩
    rw [hqs, hph, secRead_nil, hstrip]

open MoPepGen.Translate MoPepGen.Graph in
/-- the same for a whole reading frame, as `Driver/G.lean` evaluates the checkpoints (all paths
from ALL successors of the frame root `d`): CP2's language predicate for the input graph gives
CP3's for the returned graph -/
theorem translate_cp3_of_cp2_frame (g : TGraphIn) (pg : PGraph) (h : translateGraph g = .ok pg)
    (hc : g.isCirc = false) (hnt : noTerminal g = true ∨ g.hasKnownOrf = false)
    (hic : innerCodons g = true) (hs : g.sect = []) (d : Nat) (hd : d ∈ g.frames)
    (t : TxIn) (vs : List Var) (f : Nat) (hts : t.sec = [])
    (hcp2 : ∀ s, (∃ o ∈ succs g.toGraph d, ∃ p, MaxPath g.toGraph o p ∧ pathSeq g.toGraph p = s) ↔
      s ∈ (tvgLang t vs f).map (·.1)) (w : List Char) :
    (∃ o ∈ succs g.toGraph d, ∃ q, MaxPath pg.toGraph (pix o) q ∧ stripEnd (pathSeq pg.toGraph q) = w) ↔
      w ∈ (protLang t vs f).map stripEnd := by
  have hhits : ∀ n : DNode, secHits g n = [] := fun n => by simp [secHits, hs, secLoop_nil_right]
  have hasc : secAscending g = true := by
    simp [secAscending, hhits, ascB]
  have hph : ∀ p : List Nat, pathHits g p = [] := by
    intro p
    induction p with
    | nil => rfl
    | cons a as ih =>
      simp only [pathHits, ih, List.map_nil, List.append_nil]
      cases g.nodes[a]? <;> simp [hhits]
  have hstrip : ∀ p : List Nat, stripEnd (translate (pathSeq g.toGraph p) ++ endStar g p) =
      stripEnd (translate (pathSeq g.toGraph p)) := by
    intro p
    unfold endStar
    split
    · split
      · exact stripEnd_append_star _
      · simp
    · simp
  have hprot : (protLang t vs f).map stripEnd =
      ((tvgLang t vs f).map (·.1)).map fun s => stripEnd (translate s) := by
    simp only [protLang, tvgLang, List.map_map]
    apply List.map_congr_left
    intro hp _
    simp [hts, secAfter, fullTranslation_nil_sec]
  rw [hprot]
  constructor
  · rintro ⟨o, ho, q, hq, rfl⟩
    obtain ⟨p, hm, hw⟩ := (translate_language_eq g pg h hc hnt hic hasc d o hd ho _).mp ⟨q, hq, rfl⟩
    rw [hw, hph, secRead_nil, hstrip]
    exact List.mem_map.mpr ⟨_, (hcp2 _).mp ⟨o, ho, p, hm, rfl⟩, rfl⟩
  · intro hw
    obtain ⟨s, hs', rfl⟩ := List.mem_map.mp hw
    obtain ⟨o, ho, p, hm, rfl⟩ := (hcp2 s).mpr hs'
    obtain ⟨q, hq, hqs⟩ := (translate_language_eq g pg h hc hnt hic hasc d o hd ho _).mpr ⟨p, hm, rfl⟩
    refine ⟨o, ho, q, hq, ?_⟩
    rw [hqs, hph, secRead_nil, hstrip]

open MoPepGen.Translate MoPepGen.Graph in
/-- the Sec rule, exactly as `fix_selenocysteines` implements it (soundness): position `k` of the
protein of the node made from `n` is rewritten to `U` only if some matched location `l` of the node
points into the level-0 graph, is not empty in amino-acid coordinates, carries the frame
`s.start % 3` of an annotated Sec record `s`, and holds `s` inside its window of WHOLE codons
(`codonWindow`: the start / end offset guards); `k` is the node's codon at that reference
position.  Variants never enter: a codon touched by a variant has no matched location. -/
theorem sec_hit_sound (g : TGraphIn) (n : DNode) (k : Nat) (h : k ∈ secHits g n) :
    ∃ l ∈ n.locs, ∃ s ∈ g.sect, l.lvl0 = true ∧ l.qRf = s.1 % 3 ∧ l.qStart / 3 ≠ ceilDiv3 l.qEnd ∧
      l.codonWindow.1 < l.codonWindow.2 ∧ l.codonWindow.1 ≤ (s.1 : Int) ∧ (s.2 : Int) ≤ l.codonWindow.2 ∧
      k = l.qStart / 3 + (Int.tdiv ((s.1 : Int) - l.codonStart) 3).toNat :=
  mem_secHits h

open MoPepGen.Translate MoPepGen.Graph in
/-- a successful `mkNode` carries exactly these positions as `selenocysteines`, all of them inside
the node's protein -/
theorem sec_hits_recorded (g : TGraphIn) (n : DNode) (pn : PNode) (hc : g.isCirc = false)
    (h : mkNode g n = .ok pn) :
    pn.secs = secHits g n ∧ ∀ k ∈ secHits g n, k < (translate n.seq).length :=
  (mkNode_seq hc h).2

open MoPepGen.Translate MoPepGen.Graph in
/-- which nodes the final loop of `translate` cuts: `IsTerminal g ot k` says the annotated CDS
end `e ≠ 0` is found by `get_query_index` at the codon boundary `3 k > 0` of the level-0 node `ot`,
at least one codon before the node's end, the node's protein does not read `*` at `k`, and no
variant of the node covers the DNA index `3 k` in PROTEIN coordinates (as the code tests it) -/
theorem translate_terminal_site_spec (g : TGraphIn) (ot k : Nat) (h : IsTerminal g ot k) :
    ∃ dn pn e c, g.nodes[ot]? = some dn ∧ mkNode g dn = .ok pn ∧ orfEndOf g dn = some e ∧ e ≠ 0 ∧
      dn.level = 0 ∧ queryIndex dn.locs e = some (3 * k) ∧ 0 < k ∧ 3 * k + 3 ≤ dn.seq.length ∧
      pn.seq[k]? = some c ∧ c ≠ '*' ∧
      (pn.vars.any fun v => v.start ≤ 3 * k && 3 * k < v.stop) = false := by
  obtain ⟨dn, pn, h1, h2, h3⟩ := h
  obtain ⟨e, q, c, a1, a2, a3, a4, a5, a6, a7, a8, a9, a10⟩ := terminalSite_some h3
  subst a7
  exact ⟨dn, pn, e, c, h1, h2, a1, a2, a3, a4, by omega, a6, a8, a9, a10⟩

open MoPepGen.Translate MoPepGen.Graph in
/-- the language of the returned graph WITH the fake stops (linear transcript, known ORF; no
condition on `terminal_nodes`): from the image of a frame's start node `o` the maximal paths of
the returned graph spell exactly
 (i) the node-wise translations (`protOf`) of the maximal paths of the input graph from `o`, and
 (ii) for every node `ot` the final loop cuts at `k` and every walk `p` of the input graph from
      `o` that reaches `ot`: the translations along `p`, the first `k` residues of `ot`, and `*`. -/
theorem translate_language_fake_stop (g : TGraphIn) (pg : PGraph) (h : translateGraph g = .ok pg)
    (hc : g.isCirc = false) (hko : g.hasKnownOrf = true) (d o : Nat) (hd : d ∈ g.frames)
    (ho : o ∈ succs g.toGraph d) (w : List Char) :
    (∃ q, MaxPath pg.toGraph (pix o) q ∧ pathSeq pg.toGraph q = w) ↔
      (∃ p, MaxPath g.toGraph o p ∧ w = p.flatMap (protOf g)) ∨
      (∃ ot k p, IsTerminal g ot k ∧ NWalk g.toGraph ot o p ∧
        w = p.flatMap (protOf g) ++ (protOf g ot).take k ++ ['*']) :=
  translateGraph_language_fake_stop h hc hko hd ho w

open MoPepGen.Graph in
/-- what splitting a node does to a Layer G graph in general (`Expand`: node `t` keeps the part
`a` of its sequence, a new node gets the rest and the successors, a new leaf `x` hangs on `t`):
from every old node the language is the old one plus, for every walk reaching `t`, the sequence
up to `t` followed by `a ++ x` -/
theorem expand_language (G G' : Graph) (t : Nat) (a b x : List Char) (h : Expand G G' t a b x)
    (j : Nat) (hj : j < G.size) (w : List Char) :
    Acc G' j w ↔ Acc G j w ∨ ∃ u, Reach G t j u ∧ w = u ++ a ++ x :=
  h.language hj w

open MoPepGen.Translate MoPepGen.Graph in
/-- the Sec rule, both directions, for the inputs the two-cursor loop is written for
(`SecSorted f`: the node's matched locations all usable and in one frame `f`, their whole-codon
windows ascending without overlap; the Sec records in frame `f`, non-empty, ascending without
overlap): the positions rewritten to `U` are EXACTLY the codons of the node that a matched
location maps onto an annotated Sec codon lying inside the location's whole-codon window.
(Without `SecSorted` only `sec_hit_sound` holds: the cursors may run past a pair.) -/
theorem sec_hits_exact_of_sorted (g : TGraphIn) (n : DNode) (f : Nat)
    (hS : SecSorted f (n.locs.map aaLoc) g.sect) (k : Nat) :
    k ∈ secHits g n ↔ ∃ l ∈ n.locs, ∃ s ∈ g.sect, l.codonWindow.1 ≤ (s.1 : Int) ∧
      (s.2 : Int) ≤ l.codonWindow.2 ∧
      k = l.qStart / 3 + (Int.tdiv ((s.1 : Int) - l.codonStart) 3).toNat :=
  mem_secHits_iff_of_sorted hS k

open MoPepGen.Translate in
/-- the fuel of the modelled `while queue` loop is no restriction: every `queue.pop()` lowers
(number of TVG nodes without a `PVGNode`) + (length of the queue), so the amount `translateCore`
hands to the search is enough — any larger amount gives the same result -/
theorem translate_fuel_stable (g : TGraphIn) (k : Nat) :
    bfs g (g.nodes.size + g.frames.length + 1 + k) (initSt g) =
      bfs g (g.nodes.size + g.frames.length + 1) (initSt g) :=
  translateCore_fuel_stable g k

namespace TranslateNonVacuity
open MoPepGen.Translate MoPepGen.Graph

/-! non-vacuity: the graph the real `fit_into_codons` leaves for the transcript `ATGTGAGCCTAAGG`
(known ORF `[0, 9)`, the codon `TGA` at 3 annotated as Sec) with the SNV `C→T` at 7 — a dump of the
`G-translate-direct` stream.  Node 0 is the root, 1–3 the frame roots, 4 = `ATGTGA`, 7 / 8 the
reference / variant codon, 9 = `TAAGG`; 5 and 6 are the other two frames. -/
/-- example input (not part of any statement) -/
def tIn : TGraphIn :=
  { nodes := #[
      { seq := [], isNull := true, out := [(2, .reference), (3, .reference), (1, .reference)], rf := 3 },
      { seq := [], isNull := true, out := [(4, .reference)], rf := 0 },
      { seq := [], isNull := true, out := [(5, .reference)], rf := 1 },
      { seq := [], isNull := true, out := [(6, .reference)], rf := 2 },
      { seq := "ATGTGA".toList, out := [(7, .reference), (8, .variantStart)], rf := 0,
        locs := [{ qStart := 0, qEnd := 6, qRf := 0, rStart := 0, rEnd := 6 }] },
      { seq := "TGTGAGCCTAAGG".toList, out := [], rf := 1,
        locs := [{ qStart := 0, qEnd := 13, qRf := 1, rStart := 1, rEnd := 14 }] },
      { seq := "GTGAGCCTAAGG".toList, out := [], rf := 2,
        locs := [{ qStart := 0, qEnd := 12, qRf := 2, rStart := 2, rEnd := 14 }] },
      { seq := "GCC".toList, out := [(9, .reference)], rf := 0,
        locs := [{ qStart := 0, qEnd := 3, qRf := 0, rStart := 6, rEnd := 9 }] },
      { seq := "GTC".toList, out := [(9, .variantEnd)], rf := 0,
        vars := [{ ids := [0], start := 1, stop := 2 }],
        locs := [{ qStart := 0, qEnd := 1, qRf := 0, rStart := 6, rEnd := 7 },
                 { qStart := 2, qEnd := 3, qRf := 0, rStart := 8, rEnd := 9 }] },
      { seq := "TAAGG".toList, out := [], rf := 0,
        locs := [{ qStart := 0, qEnd := 5, qRf := 0, rStart := 9, rEnd := 14 }] }],
    frames := [1, 2, 3], hasKnownOrf := true, orf := some (0, 9), sect := [(3, 6)] }

/-- the hypotheses of the theorems above hold for it -/
example : linearInput tIn = true ∧ noTerminal tIn = true ∧ innerCodons tIn = true ∧
    secAscending tIn = true := by decide +kernel

/-- what `translateGraph` returns (as the real `translate` does): `MU` for node 4 — the annotated
`TGA` reads `U` —, `A` / `V` for the two codons, `*` for the last node, and the other two frames -/
example : ((translateGraph tIn).toOption.map fun pg =>
      (pg.nodes.toList.map fun n => (String.ofList n.seq, n.out, n.secs), pg.frames)) =
    some ([("", [8, 7, 6], []), ("*", [], []), ("", [], []), ("", [], []), ("", [], []), ("", [], []),
           ("MU", [9, 10], [1]), ("CEPK", [1], []), ("VSLR", [1], []), ("A", [11], []),
           ("V", [11], []), ("*", [1], [])], [some 6, some 7, some 8]) := by decide +kernel

/-- the two maximal paths of frame 0 of the input and the language theorem's right-hand side -/
example : paths tIn.toGraph 4 = [[4, 7, 9], [4, 8, 9]] ∧
    (([[4, 7, 9], [4, 8, 9]] : List (List Nat)).map fun p =>
      String.ofList (secRead (pathHits tIn p) 0 (translate (pathSeq tIn.toGraph p)) ++ endStar tIn p)) =
      ["MUA*", "MUV*"] := by decide +kernel

/-- … and the left-hand side: the paths of the returned graph from `pix 4` and their sequences -/
example : ((translateGraph tIn).toOption.map fun pg =>
      ((paths pg.toGraph (pix 4)), (paths pg.toGraph (pix 4)).map fun q => String.ofList (pathSeq pg.toGraph q))) =
    some ([[6, 9, 11], [6, 10, 11]], ["MUA*", "MUV*"]) := by decide +kernel

/-! non-vacuity of the fake stop: the transcript `ATGGCCAAACCCTAAGG` whose annotated CDS `[0, 6)` ends
on `AAA` (not a stop codon), with the SNV `C→T` at 10 — a dump of the `G-translate-direct` stream.
Node 4 = `ATGGCCAAA` holds the CDS end at codon 2: the real `translate` cuts it into `MA` and `K` and
hangs a fake `*` on `MA`. -/
/-- example input (not part of any statement) -/
def tIn2 : TGraphIn :=
  { nodes := #[
      { seq := [], isNull := true, out := [(2, .reference), (1, .reference), (3, .reference)], rf := 3 },
      { seq := [], isNull := true, out := [(4, .reference)], rf := 0 },
      { seq := [], isNull := true, out := [(5, .reference)], rf := 1 },
      { seq := [], isNull := true, out := [(6, .reference)], rf := 2 },
      { seq := "ATGGCCAAA".toList, out := [(7, .reference), (8, .variantStart)], rf := 0,
        locs := [{ qStart := 0, qEnd := 9, qRf := 0, rStart := 0, rEnd := 9 }] },
      { seq := "TGGCCAAACCCTAAGG".toList, out := [], rf := 1,
        locs := [{ qStart := 0, qEnd := 16, qRf := 1, rStart := 1, rEnd := 17 }] },
      { seq := "GGCCAAACCCTAAGG".toList, out := [], rf := 2,
        locs := [{ qStart := 0, qEnd := 15, qRf := 2, rStart := 2, rEnd := 17 }] },
      { seq := "CCC".toList, out := [(9, .reference)], rf := 0,
        locs := [{ qStart := 0, qEnd := 3, qRf := 0, rStart := 9, rEnd := 12 }] },
      { seq := "CTC".toList, out := [(9, .variantEnd)], rf := 0,
        vars := [{ ids := [0], start := 1, stop := 2 }],
        locs := [{ qStart := 0, qEnd := 1, qRf := 0, rStart := 9, rEnd := 10 },
                 { qStart := 2, qEnd := 3, qRf := 0, rStart := 11, rEnd := 12 }] },
      { seq := "TAAGG".toList, out := [], rf := 0,
        locs := [{ qStart := 0, qEnd := 5, qRf := 0, rStart := 12, rEnd := 17 }] }],
    frames := [1, 2, 3], hasKnownOrf := true, orf := some (0, 6) }

example : linearInput tIn2 = true ∧ noTerminal tIn2 = false := by decide +kernel

/-- node 4 is cut at codon 2 (`IsTerminal tIn2 4 2`), the walk `[]` reaches it from itself -/
example : IsTerminal tIn2 4 2 ∧ NWalk tIn2.toGraph 4 4 [] :=
  ⟨⟨_, _, rfl, rfl, by rfl⟩, NWalk.here (by decide +kernel)⟩

/-- the returned graph: node 6 = `MA` with successors 12 (`K`, which took over the successors
9, 10) and 13 (the fake `*`); its language from `pix 4` = the two translations and the truncated
protein `MA*` of clause (ii) -/
example : ((translateGraph tIn2).toOption.map fun pg =>
      ((pg.nodes.toList.map fun n => (String.ofList n.seq, n.out)),
       (paths pg.toGraph (pix 4)).map fun q => String.ofList (pathSeq pg.toGraph q))) =
    some ([("", [8, 7, 6]), ("*", []), ("", []), ("", []), ("", []), ("", []), ("MA", [12, 13]),
           ("WPNPK", [1]), ("GQTLR", [1]), ("P", [11]), ("L", [11]), ("*", [1]), ("K", [9, 10]),
           ("*", [])], ["MAKP*", "MAKL*", "MA*"]) := by decide +kernel

example : (([[4, 7, 9], [4, 8, 9]] : List (List Nat)).map fun p => String.ofList (p.flatMap (protOf tIn2))) =
      ["MAKP*", "MAKL*"] ∧
    String.ofList (([] : List Nat).flatMap (protOf tIn2) ++ (protOf tIn2 4).take 2 ++ ['*']) = "MA*" := by
  decide +kernel

/-- an `Expand` instance: the Layer G graphs before and after the final loop of this example -/
example : ((translateCore tIn2).toOption.map fun st => (st.terminal, (nodesGraph st.nodes).size)) =
    some ([(6, 2)], 12) := by decide +kernel

/-- `SecSorted` holds for node 4 of the first example (one location, one Sec record, frame 0),
and the exact rule gives its single hit: codon 1 -/
example : SecSorted 0 ((tIn.nodes[4]?.map (·.locs)).getD [] |>.map aaLoc) tIn.sect :=
  ⟨by decide +kernel, by decide +kernel, by decide +kernel, by decide +kernel⟩

example : (tIn.nodes[4]?.map (secHits tIn)) = some [1] := by decide +kernel

/-! non-vacuity of `expand_language`: a one-node graph `AB` cut behind `A` -/
/-- example graphs (not part of any statement): one node `AB`, cut behind `A` -/
def exG : Graph := #[{ seq := ['A', 'B'], vars := [], out := [] }]
def exG' : Graph := #[{ seq := ['A'], vars := [], out := [1, 2] }, { seq := ['B'], vars := [], out := [] },
  { seq := ['*'], vars := [], out := [] }]

example : Expand exG exG' 0 ['A'] ['B'] ['*'] := by
  refine ⟨by decide, by decide, ?_, ?_, ?_, by decide, by decide, by decide, by decide, by decide,
    by decide, by decide⟩
  · intro i o ho
    match i with
    | 0 => simp [succs, exG] at ho
    | k + 1 => simp [succs, exG] at ho
  · intro i hi hne
    have : i = 0 := by simp [exG] at hi; omega
    exact absurd this hne
  · intro i hi hne
    have : i = 0 := by simp [exG] at hi; omega
    exact absurd this hne

example : Acc exG' 0 ['A', 'B'] ∧ Acc exG' 0 ['A', '*'] ∧ Reach exG 0 0 [] :=
  ⟨Acc.step (by decide) (by decide : 1 ∈ succs exG' 0) (Acc.leaf (by decide) (by decide)),
   Acc.step (by decide) (by decide : 2 ∈ succs exG' 0) (Acc.leaf (by decide) (by decide)),
   Reach.here (by decide)⟩

/-! non-vacuity of `translate_cp3_of_cp2(_frame)`: the first example without the Sec annotation
(`sect = []`) IS the graph of the transcript `ATGTGAGCCTAAGG` with the SNV `C→T` at 7 (id 0): the
DNA language of frame 0 from the frame root 1 is `tvgLang` (CP2's predicate), every node with a
successor is whole codons, and the protein language of the returned graph is `protLang` (CP3's) -/
/-- example input (not part of any statement) -/
def tIn0 : TGraphIn := { tIn with sect := [] }
def tTx : TxIn :=
  { seq := "ATGTGAGCCTAAGG".toList, coding := true, orfStart := 0, orfEnd := 9,
    startNF := false, endNF := false, sec := [] }
def tSnv : Var := { start := 7, stop := 8, ref := ['C'], alt := ['T'], cls := .snv, ids := [0] }

example : linearInput tIn0 = true ∧ noTerminal tIn0 = true ∧ innerCodons tIn0 = true ∧ tIn0.sect = [] ∧
    tTx.sec = [] := by decide +kernel

example : ((succs tIn0.toGraph 1).flatMap fun o => (paths tIn0.toGraph o).map fun p =>
      String.ofList (pathSeq tIn0.toGraph p)) = ["ATGTGAGCCTAAGG", "ATGTGAGTCTAAGG"] ∧
    ((tvgLang tTx [tSnv] 0).map fun x => String.ofList x.1) = ["ATGTGAGCCTAAGG", "ATGTGAGTCTAAGG"] := by
  decide +kernel

example : ((translateGraph tIn0).toOption.map fun pg =>
      (paths pg.toGraph (pix 4)).map fun q => String.ofList (stripEnd (pathSeq pg.toGraph q))) =
      some ["M*A", "M*V"] ∧
    ((protLang tTx [tSnv] 0).map fun w => String.ofList (stripEnd w)) = ["M*A", "M*V"] := by
  decide +kernel

end TranslateNonVacuity

end MoPepGen.Props.C01
