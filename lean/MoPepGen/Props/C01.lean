import MoPepGen.Lemmas.SpecMono
import MoPepGen.Lemmas.Graph
import MoPepGen.Lemmas.GraphCuts
import MoPepGen.Lemmas.Haplotype
import MoPepGen.Props.C10
/-!
# C01 — completeness of callVariant  (PARTIAL: the graph construction is not modelled)

What is proved here, for ALL inputs: the executable oracle `Spec.callVariant`, which the
check evaluates on the inputs of the real command, is exactly the declarative statement of
the property (∃ compatible combination of the usable records … minus the unmodified
transcript's products and the canonical pool), its haplotypes are exactly the separated
sub-collections of the record pool (`mem_haplotypes_iff`: no enumeration, no sort left in
the statement), and its digest is the digest proved correct in C10.
That the REAL command reports every member of this set is decided per generated input by
the differential `harness/c01.py` (no theorem quantifies over the real graph algorithm).
-/
namespace MoPepGen.Props.C01
open MoPepGen MoPepGen.Spec

/-- `p` is a digestion-product form of the transcript carrying haplotype `h` -/
def ProductOf (g : Cfg) (t : TxIn) (h : List Var) (p : Pep) : Prop :=
  p ∈ peptidesOf g t (applyHap t.seq h) (secAfter t.sec h) t.endNF

/-- The oracle has no hidden operational choices: it is the ∃-haplotype definition. -/
theorem spec_declarative (g : Cfg) (t : TxIn) (vs : List Var) (p : Pep) :
    p ∈ callVariant g t vs ↔
      (∃ h ∈ haplotypes t vs, ProductOf g t h p) ∧
        p ∉ referencePeptides g t ∧ p ∉ g.canonical := by
  simp only [callVariant, ProductOf, List.mem_filter, List.mem_flatMap, Bool.and_eq_true,
    Bool.not_eq_true', List.contains_eq_mem, decide_eq_false_iff_not]

/-- A haplotype is exactly: a sub-collection of the record pool (usable records and merged
adjacent pairs) that is non-empty and, in ascending order, strictly separated. -/
theorem haplotype_spec (t : TxIn) (vs h : List Var) :
    h ∈ haplotypes t vs ↔
      ∃ s, s.Sublist (recordPool t vs) ∧ h = sortByStart s ∧ h ≠ [] ∧ separated h = true := by
  simp only [haplotypes, List.mem_filter, List.mem_map, mem_sublists, Bool.and_eq_true,
    Bool.not_eq_true', List.isEmpty_eq_false_iff]
  constructor
  · rintro ⟨⟨s, hs, rfl⟩, hne, hsep⟩
    exact ⟨s, hs, rfl, hne, hsep⟩
  · rintro ⟨s, hs, rfl, hne, hsep⟩
    exact ⟨⟨s, hs, rfl⟩, hne, hsep⟩

/-- every record of a haplotype is a usable input record or the merged form of two of them -/
theorem haplotype_records_usable (t : TxIn) (vs h : List Var) (hh : h ∈ haplotypes t vs) :
    ∀ v ∈ h, v ∈ recordPool t vs := by
  obtain ⟨s, hs, rfl, _, _⟩ := (haplotype_spec t vs h).mp hh
  intro v hv
  have hperm : ∀ (l : List Var) (x : Var), x ∈ sortByStart l → x ∈ l := by
    intro l
    induction l with
    | nil => intro x hx; simpa [sortByStart] using hx
    | cons a l ih =>
      intro x hx
      simp only [sortByStart, List.foldr_cons] at hx
      have hins : ∀ (w : Var) (ws : List Var) (y : Var), y ∈ insertByStart w ws → y = w ∨ y ∈ ws := by
        intro w ws
        induction ws with
        | nil => intro y hy; simpa [insertByStart] using hy
        | cons z zs ihz =>
          intro y hy
          simp only [insertByStart] at hy
          split at hy
          · simpa using hy
          · rcases List.mem_cons.mp hy with h1 | h1
            · exact Or.inr (by simp [h1])
            · rcases ihz y h1 with h2 | h2
              · exact Or.inl h2
              · exact Or.inr (List.mem_cons_of_mem _ h2)
      rcases hins a _ x hx with h1 | h1
      · simp [h1]
      · exact List.mem_cons_of_mem _ (ih x h1)
  exact hs.subset (hperm s v hv)

/-- every reported form meets the length and mass limits -/
theorem reported_within_limits (g : Cfg) (t : TxIn) (vs : List Var) (p : Pep)
    (h : p ∈ callVariant g t vs) : pepOk g.cleave p = true := by
  obtain ⟨⟨hp, _, hprod⟩, _⟩ := (spec_declarative g t vs p).mp h
  simp only [ProductOf, peptidesOf, List.mem_flatMap] at hprod
  obtain ⟨s, _, hs⟩ := hprod
  simp only [productForms, List.mem_filter] at hs
  exact hs.2

/-- the raw digest inside the definition is the loop-free reading of C10's `enzymatic_cleave`
candidates, whose sites are the positional ExPASy sites (`Props.C10.sites_eq_isSite`) -/
theorem digest_is_C10 (c : CleaveCfg) (prot : Pep) (nf : Bool) (p : Pep) :
    p ∈ rawProducts c prot nf false ↔
      p ∈ cleaveCandidates prot
        (bounds ((List.range (prot.length + 1)).filter (isSite c.rule c.exc prot)) prot.length)
        c.misc nf := by
  rw [rawProducts_eq_candidates, Props.C10.sites_eq_isSite]


/-! ## Layer G — refinement checkpoints inside the graph algorithm (completeness side)

The harness dumps the real graph after each stage of the graph algorithm and the native
driver evaluates the checkpoint predicates of `Model/Graph.lean` on it (`G` stream).  The
theorems below say why those checkpoints are the right ones for completeness:
the position automaton `apply_variant` builds carries EVERY compatible combination; the
driver's path enumeration misses no path; node-wise translation of a codon-aligned path is
the translation of its sequence; and when every cleavage site of a path is a node boundary,
every digestion product of the path's protein is a concatenation of consecutive whole nodes
(which is what `call_variant_peptides` joins). -/

open MoPepGen.Graph in
/-- CP1, completeness: every compatible combination of the record pool is a walk of the
position automaton of the transcript variant graph, emitting the transcript that carries it.
Hypothesis = what `create_variant_graph`'s filter guarantees: records lie inside the
transcript behind its first base. -/
theorem tvg_automaton_complete (t : TxIn) (vs h : List Var) (hh : h ∈ haplotypes t vs)
    (hwf : ∀ v ∈ recordPool t vs, 0 < v.start ∧ v.start < v.stop ∧ v.stop ≤ t.seq.length) :
    Walk t.seq (recordPool t vs) 0 false (applyHap t.seq h) h := by
  have hmem := haplotype_records_usable t vs h hh
  obtain ⟨s, _, _, _, hsep⟩ := (haplotype_spec t vs h).mp hh
  have hsf : SepFrom 0 true h := by
    apply sepFrom_of_separated h 0 true hsep (fun v hv => (hwf v (hmem v hv)).2.1)
    cases h with
    | nil => trivial
    | cons v _ => simpa using (hwf v (hmem v (by simp))).1
  have := walk_complete t.seq (recordPool t vs) t.seq.length 0 false h (by omega) hmem
    (by simpa using hsf) (fun v hv => (hwf v (hmem v hv)).2.2)
  simpa [applyHap] using this

open MoPepGen.Graph in
/-- the driver's path enumeration misses no maximal path of an acyclic dump -/
theorem paths_complete (g : Graph) (i : Nat) (p : List Nat) (hp : MaxPath g i p)
    (hnd : p.Nodup) : p ∈ paths g i :=
  (mem_paths_iff g i p hnd).mpr hp

open MoPepGen.Graph in
/-- CP2 ⇒ CP3: on a codon-aligned path, translating node by node (what
`ThreeFrameTVG.translate` does) is translating the path's sequence -/
theorem nodewise_translation (g : Graph) (p : List Nat) (h : codonAligned g p = true) :
    translatePath g p = translate (pathSeq g p) :=
  translatePath_eq g p h

open MoPepGen.Graph in
/-- CP4 ⇒ products are node joins: if every cleavage site of the protein `pieces.flatten` is a
boundary between two pieces (graph nodes), then every candidate of the digest — a slice
between two boundaries `0, sites…, |prot|` — is the concatenation of consecutive whole pieces -/
theorem digest_product_is_node_join (pieces : List (List Char)) (rule : Re) (exc : Option Re)
    (hsites : ∀ s ∈ cleaveSites rule exc pieces.flatten, s ∈ cuts pieces)
    (a b : Nat)
    (ha : a ∈ bounds (cleaveSites rule exc pieces.flatten) pieces.flatten.length)
    (hb : b ∈ bounds (cleaveSites rule exc pieces.flatten) pieces.flatten.length)
    (hab : a ≤ b) :
    ∃ i k, slice pieces.flatten a b = ((pieces.drop i).take k).flatten := by
  have hcut : ∀ x ∈ bounds (cleaveSites rule exc pieces.flatten) pieces.flatten.length,
      x ∈ cuts pieces := by
    intro x hx
    simp only [bounds, List.mem_cons, List.mem_append, List.not_mem_nil, or_false] at hx
    rcases hx with rfl | hx | rfl
    · exact zero_mem_cuts pieces
    · exact hsites x hx
    · exact length_mem_cuts pieces
  exact slice_is_join pieces a b (hcut a ha) (hcut b hb) hab

/-! non-vacuity of `tvg_automaton_complete`: a transcript with one SNV behind the start codon -/
example : (∀ v ∈ recordPool
    { seq := "ATGGCC".toList, coding := true, orfStart := 0, orfEnd := 6, startNF := false,
      endNF := false, sec := [] }
    [{ start := 3, stop := 4, ref := ['G'], alt := ['T'], cls := .snv, ids := [0] }],
    0 < v.start ∧ v.start < v.stop ∧ v.stop ≤ 6) := by decide

open MoPepGen.Graph in
example : cuts ["AK".toList, "CR".toList, "D".toList] = [0, 2, 4, 5] := by decide

/-! ## the haplotypes of the definition, characterised without the enumeration

`haplotypes` is an executable enumeration (`sublists` of the pool, insertion sort, filter).
The theorem below removes every operational ingredient: a haplotype is any non-empty,
ascending, strictly separated list of pool records.  Hypothesis: the records of the pool are
well-formed intervals (`start ≤ stop`; VCF-style records have `start < stop`).  The pool need
NOT be duplicate-free (`Hap.exists_sublist_perm` picks the first occurrence of each record). -/

/-- `h` is a haplotype of the definition iff it is non-empty, strictly separated (which for
well-formed records includes: ascending and duplicate-free) and made of pool records. -/
theorem mem_haplotypes_iff (t : TxIn) (vs h : List Var)
    (hpos : ∀ v ∈ recordPool t vs, v.start ≤ v.stop) :
    h ∈ haplotypes t vs ↔ h ≠ [] ∧ separated h = true ∧ ∀ v ∈ h, v ∈ recordPool t vs := by
  constructor
  · intro hh
    obtain ⟨s, _, _, hne, hsep⟩ := (haplotype_spec t vs h).mp hh
    exact ⟨hne, hsep, haplotype_records_usable t vs h hh⟩
  · rintro ⟨hne, hsep, hsub⟩
    obtain ⟨s, hs, he⟩ :=
      Hap.exists_sublist_sort_eq (pool := recordPool t vs) hsep (fun v hv => hpos v (hsub v hv)) hsub
    exact (haplotype_spec t vs h).mpr ⟨s, hs, he, hne, hsep⟩

/-- for a duplicate-free pool the sub-collection behind a haplotype is explicit: the pool
records that occur in it, in pool order -/
theorem haplotype_is_sorted_filter (t : TxIn) (vs h : List Var)
    (hnd : (recordPool t vs).Nodup) (hpos : ∀ v ∈ recordPool t vs, v.start ≤ v.stop)
    (hh : h ∈ haplotypes t vs) :
    sortByStart ((recordPool t vs).filter fun v => decide (v ∈ h)) = h := by
  obtain ⟨_, hsep, hsub⟩ := (mem_haplotypes_iff t vs h hpos).mp hh
  exact Hap.filter_sort_eq hnd hsep (fun v hv => hpos v (hsub v hv)) hsub

/-- a haplotype is strictly ascending in `start`, hence duplicate-free, and sorting it again
changes nothing -/
theorem haplotype_strictly_ascending (t : TxIn) (vs h : List Var)
    (hpos : ∀ v ∈ recordPool t vs, v.start ≤ v.stop) (hh : h ∈ haplotypes t vs) :
    h.Pairwise (fun a b => a.start < b.start) ∧ h.Nodup ∧ sortByStart h = h := by
  obtain ⟨_, hsep, hsub⟩ := (mem_haplotypes_iff t vs h hpos).mp hh
  have hs := Hap.strictStarts_of_separated h hsep (fun v hv => hpos v (hsub v hv))
  exact ⟨hs, Hap.nodup_of_strictStarts hs, Hap.sortByStart_id hs⟩

/-- every record the combinations are made of starts behind the start codon
(`startIndex t` ≥ 3): `usable` drops the others, a merged pair starts where its first record
starts — so the hypothesis `0 < v.start` of the CP1 theorems always holds -/
theorem recordPool_behind_start_codon (t : TxIn) (vs : List Var) :
    ∀ v ∈ recordPool t vs, startIndex t ≤ v.start ∧ 3 ≤ v.start := by
  intro v hv
  have := Hap.pool_start_ge t vs v hv
  refine ⟨this, ?_⟩
  simp only [startIndex] at this
  omega

/-! non-vacuity of `mem_haplotypes_iff` / `haplotype_is_sorted_filter`: a coding transcript with
two SNVs behind the start codon (given in DESCENDING order, so the sort matters); the pool is
duplicate-free with non-empty spans, and the combination of both records is a haplotype -/
section NonVacuity
/-- example data for the non-vacuity checks of C01/C02 (not part of any statement) -/
def nvTx : TxIn :=
  { seq := "ATGGCCAAATAG".toList, coding := true, orfStart := 0, orfEnd := 9, startNF := false,
    endNF := false, sec := [] }
/-- example SNV G→T at 3 -/
def nvA : Var := { start := 3, stop := 4, ref := ['G'], alt := ['T'], cls := .snv, ids := [0] }
/-- example SNV A→C at 7 -/
def nvB : Var := { start := 7, stop := 8, ref := ['A'], alt := ['C'], cls := .snv, ids := [1] }

example : (recordPool nvTx [nvB, nvA]).Nodup ∧ (∀ v ∈ recordPool nvTx [nvB, nvA], v.start ≤ v.stop) := by
  decide
example : recordPool nvTx [nvB, nvA] = [nvB, nvA] := by decide
example : [nvA, nvB] ≠ [] ∧ separated [nvA, nvB] = true ∧ ∀ v ∈ [nvA, nvB], v ∈ recordPool nvTx [nvB, nvA] := by
  decide
example : [nvA, nvB] ∈ haplotypes nvTx [nvB, nvA] :=
  (mem_haplotypes_iff nvTx [nvB, nvA] [nvA, nvB] (by decide)).mpr (by decide)
example : [nvB, nvA] ∉ haplotypes nvTx [nvB, nvA] := by
  rw [mem_haplotypes_iff nvTx [nvB, nvA] [nvB, nvA] (by decide)]; decide
end NonVacuity

/-! ## Layer G — the right-hand sides of the checkpoints are images of one another

CP1/CP2 compare the dumped graph with `tvgLang`, CP3/CP4 with `protLang`.  By unfolding:
the sequences of `tvgLang t vs f` are the `applyHap` sequences cut at the frame offset, and
`protLang t vs f` is their translation (annotated Sec codons that survive the combination
read `U`), combination by combination.  The proteins the definition digests
(`proteinFrom`) are these frame translations cut at the first stop. -/

open MoPepGen.Graph in
/-- CP1's right-hand side: the DNA language of frame `f` is the language of the definition
(`applyHap` of every compatible combination, the empty one included) cut at offset `f` -/
theorem tvgLang_frame (t : TxIn) (vs : List Var) (f : Nat) :
    (tvgLang t vs f).map (·.1) = ((allHaps t vs).map (applyHap t.seq)).map (List.drop f) := by
  simp only [tvgLang, List.map_map]
  rfl

open MoPepGen.Graph in
/-- the labels of CP1's right-hand side are the ids of the combination's records -/
theorem tvgLang_labels (t : TxIn) (vs : List Var) (f : Nat) :
    (tvgLang t vs f).map (·.2) = (allHaps t vs).map hapIds := by
  simp only [tvgLang, List.map_map]
  rfl

open MoPepGen.Graph in
/-- CP3's right-hand side is the translation of CP1's: combination by combination, the protein
of frame `f` is the frame translation of the DNA sequence `tvgLang` lists for it, with the Sec
codons surviving that combination -/
theorem protLang_eq_translate_tvgLang (t : TxIn) (vs : List Var) (f : Nat) :
    protLang t vs f =
      List.zipWith (fun h e => Hap.frameTranslation e.1 (secAfter t.sec h) f)
        (allHaps t vs) (tvgLang t vs f) := by
  simp only [protLang, tvgLang, List.zipWith_map_right, List.zipWith_self,
    Hap.fullTranslation_eq_frame]

open MoPepGen.Graph in
/-- the same without the helper `frameTranslation`: the frame-`f` translation only reads the
cut sequence, i.e. it is the frame-0 translation of `tvgLang`'s sequence with the Sec
positions taken relative to `f` -/
theorem protLang_eq_translate_tvgLang_zero (t : TxIn) (vs : List Var) (f : Nat) :
    protLang t vs f =
      List.zipWith (fun h e => fullTranslation e.1 (Hap.secFrom (secAfter t.sec h) f) 0)
        (allHaps t vs) (tvgLang t vs f) := by
  simp only [protLang, tvgLang, List.zipWith_map_right, List.zipWith_self]
  apply List.map_congr_left
  intro h _
  exact Hap.fullTranslation_drop _ _ _

open MoPepGen.Graph in
/-- the protein the definition digests is the frame translation cut at the first stop -/
theorem proteinFrom_eq_fullTranslation (seq : List Char) (sec : List Nat) (s : Nat) :
    (proteinFrom seq sec s).1 = (fullTranslation seq sec s).takeWhile (· != '*') := rfl

open MoPepGen.Graph in
/-- … and it is reported as closed exactly when a stop symbol remains in that translation -/
theorem proteinFrom_closed_iff (seq : List Char) (sec : List Nat) (s : Nat) :
    (proteinFrom seq sec s).2 = true ↔
      ((fullTranslation seq sec s).takeWhile (· != '*')).length < (fullTranslation seq sec s).length := by
  simp only [proteinFrom, fullTranslation, decide_eq_true_eq]

open MoPepGen.Graph in
example : tvgLang nvTx [nvB, nvA] 1 =
    [("TGGCCAAATAG".toList, []), ("TGTCCAAATAG".toList, [0]), ("TGGCCACATAG".toList, [1]),
     ("TGTCCACATAG".toList, [0, 1])] := by decide

open MoPepGen.Graph in
example : protLang nvTx [nvB, nvA] 0 = ["MAK*".toList, "MSK*".toList, "MAT*".toList, "MST*".toList] := by
  decide


/-! ## Layer G — checkpoint CP4 covers every digestion product -/

/-! The native driver evaluates CP4 on the cleavage graph the real code built as: for every
maximal path `p`, every element of `requiredCuts rule exc (pathSeq g p)` is a member of
`boundaries g false p` (`Driver/G.lean`, `cpPvg`).  `digest_product_is_node_join` above speaks
about a protein WITHOUT stop symbols whose sites are given as cuts.  The theorems of this block
close the gap to the checkpoint as evaluated: the path's protein may contain stop symbols, the
digest is taken per stop-delimited segment (the strings `Spec.rawProducts` is applied to are
stop-free), and the hypothesis is literally the driver's predicate.  Not covered: a
translation that starts INSIDE a segment (the ORF start is not a node boundary;
`call_variant_peptides` truncates the first node there) — the digest of a proper suffix of a
segment can have other sites next to its start than the segment has. -/

open MoPepGen.Graph in
/-- **CP4 ⇒ every digestion product of every stop-free stretch is a join of whole nodes.**
For every graph `g`, every list of node indices `p` (no well-formedness needed: an index
outside the graph denotes the empty label, as in `pathSeq`), every rule and exception: if every
required cut of the path's protein `pathSeq g p` is a node boundary of the path (the driver's
CP4 predicate), then for every stop-delimited segment `(off, seg)` of that protein and any two
bounds `a`, `b` of the digest of `seg` (`0`, a cleavage site of `seg`, `|seg|`), the candidate
`seg[a:b]` is the concatenation of consecutive whole node labels of the path.  (No order
hypothesis: for `b < a` the slice is empty, the join of zero nodes.) -/
theorem cp4_covers_products (g : Graph) (p : List Nat) (rule : Re) (exc : Option Re)
    (hcp : ∀ c ∈ requiredCuts rule exc (pathSeq g p), c ∈ boundaries g false p)
    (off : Nat) (seg : List Char) (hseg : (off, seg) ∈ stopSegments (pathSeq g p))
    (a b : Nat)
    (ha : a ∈ bounds (cleaveSites rule exc seg) seg.length)
    (hb : b ∈ bounds (cleaveSites rule exc seg) seg.length) :
    ∃ i k, slice seg a b = (((p.map (nodeSeq g)).drop i).take k).flatten := by
  rcases Nat.lt_or_ge b a with hlt | hab
  · exact ⟨0, 0, by simp [gc_slice_empty seg a b (Nat.le_of_lt hlt)]⟩
  · obtain ⟨hseq, _, _⟩ := gc_stopSegments_spec _ off seg hseg
    obtain ⟨_, hca⟩ := gc_bound_mem_cuts g p rule exc hcp off seg hseg a ha
    obtain ⟨hble, hcb⟩ := gc_bound_mem_cuts g p rule exc hcp off seg hseg b hb
    obtain ⟨i, k, hik⟩ :=
      slice_is_join (p.map (nodeSeq g)) (off + a) (off + b) hca hcb (by omega)
    refine ⟨i, k, ?_⟩
    rw [← hik, gc_flatten_map_nodeSeq, hseq]
    exact gc_slice_slice _ off seg.length a b hble

open MoPepGen.Graph in
/-- the segments CP4 speaks about are what the definition digests: a stop-delimited segment
`(off, seg)` of `w` is `w[off : off+|seg|]`, lies inside `w` and contains no stop symbol -/
theorem stopSegment_spec (w : List Char) (off : Nat) (seg : List Char)
    (h : (off, seg) ∈ stopSegments w) :
    seg = slice w off (off + seg.length) ∧ off + seg.length ≤ w.length ∧ ∀ c ∈ seg, c ≠ '*' :=
  gc_stopSegments_spec w off seg h

open MoPepGen.Graph in
/-- every node boundary of a path is a cut position of the path's list of node labels
(the driver's `boundaries` and the `cuts` of `digest_product_is_node_join` agree) -/
theorem boundaries_are_cuts (g : Graph) (p : List Nat) (c : Nat)
    (h : c ∈ boundaries g false p) : c ∈ cuts (p.map (nodeSeq g)) :=
  gc_boundaries_subset_cuts g p c h

open MoPepGen.Graph in
/-- **CP4 ⇒ every raw product of the definition's digest is a join of whole nodes**, phrased
with `Spec.rawProducts` itself (any miscleavage limit, any `nf`, with or without dropping the
products that reach an open end): under the driver's CP4 predicate, every
`q ∈ rawProducts c seg nf d` of a stop-delimited segment `seg` of the path's protein is either
the concatenation `J` of consecutive whole node labels of the path, or — the Met-removed twin,
only for `nf = false` and `J` starting with `M` — `J` with its first residue dropped. -/
theorem cp4_covers_rawProducts (g : Graph) (p : List Nat) (c : CleaveCfg)
    (hcp : ∀ x ∈ requiredCuts c.rule c.exc (pathSeq g p), x ∈ boundaries g false p)
    (off : Nat) (seg : List Char) (hseg : (off, seg) ∈ stopSegments (pathSeq g p))
    (nf d : Bool) (q : Pep) (hq : q ∈ rawProducts c seg nf d) :
    ∃ i k, q = (((p.map (nodeSeq g)).drop i).take k).flatten ∨
      (nf = false ∧ ((((p.map (nodeSeq g)).drop i).take k).flatten).head? = some 'M' ∧
        q = ((((p.map (nodeSeq g)).drop i).take k).flatten).drop 1) := by
  rw [mem_rawProducts] at hq
  obtain ⟨st, k', hst, hk, _, hq⟩ := hq
  have hmem : ∀ n, n < (bounds (cleaveSites c.rule c.exc seg) seg.length).length →
      (bounds (cleaveSites c.rule c.exc seg) seg.length).getD n 0 ∈
        bounds (cleaveSites c.rule c.exc seg) seg.length := by
    intro n hn
    simp [List.getD_eq_getElem?_getD, List.getElem?_eq_getElem hn]
  obtain ⟨i, k, hik⟩ := cp4_covers_products g p c.rule c.exc hcp off seg hseg _ _
    (hmem st (by omega)) (hmem (st + 1 + k') (by omega))
  refine ⟨i, k, ?_⟩
  rw [← hik]
  rcases hq with hq | ⟨_, hnf, hM, hq⟩
  · exact Or.inl hq
  · exact Or.inr ⟨hnf, hM, hq⟩

/-! non-vacuity of the CP4 hypothesis: the path `AK · CR · * · DE` under trypsin — the protein
`AKCR*DE` has the segments `AKCR` at 0 and `DE` at 5, the required cuts are 2 (after K), 4
(after R = before the stop) and 5 (behind the stop), and all are node boundaries.  With `CR*`
in ONE node the predicate is false (position 4 is inside the node): the hypothesis
discriminates. -/
open MoPepGen.Graph in
example :
    let g : Graph := #[{ seq := "AK".toList, vars := [], out := [1] },
      { seq := "CR".toList, vars := [], out := [2] }, { seq := "*".toList, vars := [], out := [3] },
      { seq := "DE".toList, vars := [], out := [] }]
    (Generated.expasyRules.lookup "trypsin").map (fun rule =>
      (String.ofList (pathSeq g [0, 1, 2, 3]),
       (stopSegments (pathSeq g [0, 1, 2, 3])).map (fun x => (x.1, String.ofList x.2)),
       requiredCuts rule none (pathSeq g [0, 1, 2, 3]), boundaries g false [0, 1, 2, 3],
       (requiredCuts rule none (pathSeq g [0, 1, 2, 3])).all
         (boundaries g false [0, 1, 2, 3]).contains)) =
      some ("AKCR*DE", [(0, "AKCR"), (5, "DE")], [2, 4, 5], [2, 4, 5], true) := by decide

open MoPepGen.Graph in
example :
    let g : Graph := #[{ seq := "AK".toList, vars := [], out := [1] },
      { seq := "CR*".toList, vars := [], out := [2] }, { seq := "DE".toList, vars := [], out := [] }]
    (Generated.expasyRules.lookup "trypsin").map (fun rule =>
      (requiredCuts rule none (pathSeq g [0, 1, 2]), boundaries g false [0, 1, 2],
       (requiredCuts rule none (pathSeq g [0, 1, 2])).all (boundaries g false [0, 1, 2]).contains)) =
      some ([2, 4, 5], [2, 5], false) := by decide

end MoPepGen.Props.C01
