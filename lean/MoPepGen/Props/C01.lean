import MoPepGen.Lemmas.SpecMono
import MoPepGen.Lemmas.Graph
import MoPepGen.Props.C10
/-!
# C01 — completeness of callVariant  (PARTIAL: the graph construction is not modelled)

What is proved here, for ALL inputs: the executable oracle `Spec.callVariant`, which the
check evaluates on the inputs of the real command, is exactly the declarative statement of
the property (∃ compatible combination of the usable records … minus the unmodified
transcript's products and the canonical pool), its haplotypes are exactly the separated
sub-collections of the record pool, and its digest is the digest proved correct in C10.
That the REAL command reports every member of this set is decided per generated input by
the differential `harness/c01.py` (no theorem quantifies over the real graph algorithm).
-/
namespace MoPepGen.Props.C01
open MoPepGen MoPepGen.Spec

/-- `p` is a digestion-product form of the transcript carrying haplotype `h` -/
def ProductOf (g : Cfg) (t : TxIn) (h : List Var) (p : Pep) : Prop :=
  p ∈ peptidesOf g t (applyHap t.seq h) (secAfter t.sec h) t.endNF

/-- The oracle has no hidden operational choices: it is the ∃-haplotype definition. -/
theorem spec_declarative (g : Cfg) (t : TxIn) (vs : List Var) (p : Pep) :
    p ∈ callVariant g t vs ↔
      (∃ h ∈ haplotypes t vs, ProductOf g t h p) ∧
        p ∉ referencePeptides g t ∧ p ∉ g.canonical := by
  simp only [callVariant, ProductOf, List.mem_filter, List.mem_flatMap, Bool.and_eq_true,
    Bool.not_eq_true', List.contains_eq_mem, decide_eq_false_iff_not]

/-- A haplotype is exactly: a sub-collection of the record pool (usable records and merged
adjacent pairs) that is non-empty and, in ascending order, strictly separated. -/
theorem haplotype_spec (t : TxIn) (vs h : List Var) :
    h ∈ haplotypes t vs ↔
      ∃ s, s.Sublist (recordPool t vs) ∧ h = sortByStart s ∧ h ≠ [] ∧ separated h = true := by
  simp only [haplotypes, List.mem_filter, List.mem_map, mem_sublists, Bool.and_eq_true,
    Bool.not_eq_true', List.isEmpty_eq_false_iff]
  constructor
  · rintro ⟨⟨s, hs, rfl⟩, hne, hsep⟩
    exact ⟨s, hs, rfl, hne, hsep⟩
  · rintro ⟨s, hs, rfl, hne, hsep⟩
    exact ⟨⟨s, hs, rfl⟩, hne, hsep⟩

/-- every record of a haplotype is a usable input record or the merged form of two of them -/
theorem haplotype_records_usable (t : TxIn) (vs h : List Var) (hh : h ∈ haplotypes t vs) :
    ∀ v ∈ h, v ∈ recordPool t vs := by
  obtain ⟨s, hs, rfl, _, _⟩ := (haplotype_spec t vs h).mp hh
  intro v hv
  have hperm : ∀ (l : List Var) (x : Var), x ∈ sortByStart l → x ∈ l := by
    intro l
    induction l with
    | nil => intro x hx; simpa [sortByStart] using hx
    | cons a l ih =>
      intro x hx
      simp only [sortByStart, List.foldr_cons] at hx
      have hins : ∀ (w : Var) (ws : List Var) (y : Var), y ∈ insertByStart w ws → y = w ∨ y ∈ ws := by
        intro w ws
        induction ws with
        | nil => intro y hy; simpa [insertByStart] using hy
        | cons z zs ihz =>
          intro y hy
          simp only [insertByStart] at hy
          split at hy
          · simpa using hy
          · rcases List.mem_cons.mp hy with h1 | h1
            · exact Or.inr (by simp [h1])
            · rcases ihz y h1 with h2 | h2
              · exact Or.inl h2
              · exact Or.inr (List.mem_cons_of_mem _ h2)
      rcases hins a _ x hx with h1 | h1
      · simp [h1]
      · exact List.mem_cons_of_mem _ (ih x h1)
  exact hs.subset (hperm s v hv)

/-- every reported form meets the length and mass limits -/
theorem reported_within_limits (g : Cfg) (t : TxIn) (vs : List Var) (p : Pep)
    (h : p ∈ callVariant g t vs) : pepOk g.cleave p = true := by
  obtain ⟨⟨hp, _, hprod⟩, _⟩ := (spec_declarative g t vs p).mp h
  simp only [ProductOf, peptidesOf, List.mem_flatMap] at hprod
  obtain ⟨s, _, hs⟩ := hprod
  simp only [productForms, List.mem_filter] at hs
  exact hs.2

/-- the raw digest inside the definition is the loop-free reading of C10's `enzymatic_cleave`
candidates, whose sites are the positional ExPASy sites (`Props.C10.sites_eq_isSite`) -/
theorem digest_is_C10 (c : CleaveCfg) (prot : Pep) (nf : Bool) (p : Pep) :
    p ∈ rawProducts c prot nf false ↔
      p ∈ cleaveCandidates prot
        (bounds ((List.range (prot.length + 1)).filter (isSite c.rule c.exc prot)) prot.length)
        c.misc nf := by
  rw [rawProducts_eq_candidates, Props.C10.sites_eq_isSite]


/-! ## Layer G — refinement checkpoints inside the graph algorithm (completeness side)

The harness dumps the real graph after each stage of the graph algorithm and the native
driver evaluates the checkpoint predicates of `Model/Graph.lean` on it (`G` stream).  The
theorems below say why those checkpoints are the right ones for completeness:
the position automaton `apply_variant` builds carries EVERY compatible combination; the
driver's path enumeration misses no path; node-wise translation of a codon-aligned path is
the translation of its sequence; and when every cleavage site of a path is a node boundary,
every digestion product of the path's protein is a concatenation of consecutive whole nodes
(which is what `call_variant_peptides` joins). -/

open MoPepGen.Graph in
/-- CP1, completeness: every compatible combination of the record pool is a walk of the
position automaton of the transcript variant graph, emitting the transcript that carries it.
Hypothesis = what `create_variant_graph`'s filter guarantees: records lie inside the
transcript behind its first base. -/
theorem tvg_automaton_complete (t : TxIn) (vs h : List Var) (hh : h ∈ haplotypes t vs)
    (hwf : ∀ v ∈ recordPool t vs, 0 < v.start ∧ v.start < v.stop ∧ v.stop ≤ t.seq.length) :
    Walk t.seq (recordPool t vs) 0 false (applyHap t.seq h) h := by
  have hmem := haplotype_records_usable t vs h hh
  obtain ⟨s, _, _, _, hsep⟩ := (haplotype_spec t vs h).mp hh
  have hsf : SepFrom 0 true h := by
    apply sepFrom_of_separated h 0 true hsep (fun v hv => (hwf v (hmem v hv)).2.1)
    cases h with
    | nil => trivial
    | cons v _ => simpa using (hwf v (hmem v (by simp))).1
  have := walk_complete t.seq (recordPool t vs) t.seq.length 0 false h (by omega) hmem
    (by simpa using hsf) (fun v hv => (hwf v (hmem v hv)).2.2)
  simpa [applyHap] using this

open MoPepGen.Graph in
/-- the driver's path enumeration misses no maximal path of an acyclic dump -/
theorem paths_complete (g : Graph) (i : Nat) (p : List Nat) (hp : MaxPath g i p)
    (hnd : p.Nodup) : p ∈ paths g i :=
  (mem_paths_iff g i p hnd).mpr hp

open MoPepGen.Graph in
/-- CP2 ⇒ CP3: on a codon-aligned path, translating node by node (what
`ThreeFrameTVG.translate` does) is translating the path's sequence -/
theorem nodewise_translation (g : Graph) (p : List Nat) (h : codonAligned g p = true) :
    translatePath g p = translate (pathSeq g p) :=
  translatePath_eq g p h

open MoPepGen.Graph in
/-- CP4 ⇒ products are node joins: if every cleavage site of the protein `pieces.flatten` is a
boundary between two pieces (graph nodes), then every candidate of the digest — a slice
between two boundaries `0, sites…, |prot|` — is the concatenation of consecutive whole pieces -/
theorem digest_product_is_node_join (pieces : List (List Char)) (rule : Re) (exc : Option Re)
    (hsites : ∀ s ∈ cleaveSites rule exc pieces.flatten, s ∈ cuts pieces)
    (a b : Nat)
    (ha : a ∈ bounds (cleaveSites rule exc pieces.flatten) pieces.flatten.length)
    (hb : b ∈ bounds (cleaveSites rule exc pieces.flatten) pieces.flatten.length)
    (hab : a ≤ b) :
    ∃ i k, slice pieces.flatten a b = ((pieces.drop i).take k).flatten := by
  have hcut : ∀ x ∈ bounds (cleaveSites rule exc pieces.flatten) pieces.flatten.length,
      x ∈ cuts pieces := by
    intro x hx
    simp only [bounds, List.mem_cons, List.mem_append, List.not_mem_nil, or_false] at hx
    rcases hx with rfl | hx | rfl
    · exact zero_mem_cuts pieces
    · exact hsites x hx
    · exact length_mem_cuts pieces
  exact slice_is_join pieces a b (hcut a ha) (hcut b hb) hab

/-! non-vacuity of `tvg_automaton_complete`: a transcript with one SNV behind the start codon -/
example : (∀ v ∈ recordPool
    { seq := "ATGGCC".toList, coding := true, orfStart := 0, orfEnd := 6, startNF := false,
      endNF := false, sec := [] }
    [{ start := 3, stop := 4, ref := ['G'], alt := ['T'], cls := .snv, ids := [0] }],
    0 < v.start ∧ v.start < v.stop ∧ v.stop ≤ 6) := by decide

open MoPepGen.Graph in
example : cuts ["AK".toList, "CR".toList, "D".toList] = [0, 2, 4, 5] := by decide

end MoPepGen.Props.C01
