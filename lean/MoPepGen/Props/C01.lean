import MoPepGen.Spec.CallVariant
namespace MoPepGen.Props.C01
theorem placeholder : True := trivial
end MoPepGen.Props.C01
