import MoPepGen.Lemmas.SpecMono
import MoPepGen.Props.C10
/-!
# C01 — completeness of callVariant  (PARTIAL: the graph construction is not modelled)

What is proved here, for ALL inputs: the executable oracle `Spec.callVariant`, which the
check evaluates on the inputs of the real command, is exactly the declarative statement of
the property (∃ compatible combination of the usable records … minus the unmodified
transcript's products and the canonical pool), its haplotypes are exactly the separated
sub-collections of the record pool, and its digest is the digest proved correct in C10.
That the REAL command reports every member of this set is decided per generated input by
the differential `harness/c01.py` (no theorem quantifies over the real graph algorithm).
-/
namespace MoPepGen.Props.C01
open MoPepGen MoPepGen.Spec

/-- `p` is a digestion-product form of the transcript carrying haplotype `h` -/
def ProductOf (g : Cfg) (t : TxIn) (h : List Var) (p : Pep) : Prop :=
  p ∈ peptidesOf g t (applyHap t.seq h) (secAfter t.sec h) t.endNF

/-- The oracle has no hidden operational choices: it is the ∃-haplotype definition. -/
theorem spec_declarative (g : Cfg) (t : TxIn) (vs : List Var) (p : Pep) :
    p ∈ callVariant g t vs ↔
      (∃ h ∈ haplotypes t vs, ProductOf g t h p) ∧
        p ∉ referencePeptides g t ∧ p ∉ g.canonical := by
  simp only [callVariant, ProductOf, List.mem_filter, List.mem_flatMap, Bool.and_eq_true,
    Bool.not_eq_true', List.contains_eq_mem, decide_eq_false_iff_not]

/-- A haplotype is exactly: a sub-collection of the record pool (usable records and merged
adjacent pairs) that is non-empty and, in ascending order, strictly separated. -/
theorem haplotype_spec (t : TxIn) (vs h : List Var) :
    h ∈ haplotypes t vs ↔
      ∃ s, s.Sublist (recordPool t vs) ∧ h = sortByStart s ∧ h ≠ [] ∧ separated h = true := by
  simp only [haplotypes, List.mem_filter, List.mem_map, mem_sublists, Bool.and_eq_true,
    Bool.not_eq_true', List.isEmpty_eq_false_iff]
  constructor
  · rintro ⟨⟨s, hs, rfl⟩, hne, hsep⟩
    exact ⟨s, hs, rfl, hne, hsep⟩
  · rintro ⟨s, hs, rfl, hne, hsep⟩
    exact ⟨⟨s, hs, rfl⟩, hne, hsep⟩

/-- every record of a haplotype is a usable input record or the merged form of two of them -/
theorem haplotype_records_usable (t : TxIn) (vs h : List Var) (hh : h ∈ haplotypes t vs) :
    ∀ v ∈ h, v ∈ recordPool t vs := by
  obtain ⟨s, hs, rfl, _, _⟩ := (haplotype_spec t vs h).mp hh
  intro v hv
  have hperm : ∀ (l : List Var) (x : Var), x ∈ sortByStart l → x ∈ l := by
    intro l
    induction l with
    | nil => intro x hx; simpa [sortByStart] using hx
    | cons a l ih =>
      intro x hx
      simp only [sortByStart, List.foldr_cons] at hx
      have hins : ∀ (w : Var) (ws : List Var) (y : Var), y ∈ insertByStart w ws → y = w ∨ y ∈ ws := by
        intro w ws
        induction ws with
        | nil => intro y hy; simpa [insertByStart] using hy
        | cons z zs ihz =>
          intro y hy
          simp only [insertByStart] at hy
          split at hy
          · simpa using hy
          · rcases List.mem_cons.mp hy with h1 | h1
            · exact Or.inr (by simp [h1])
            · rcases ihz y h1 with h2 | h2
              · exact Or.inl h2
              · exact Or.inr (List.mem_cons_of_mem _ h2)
      rcases hins a _ x hx with h1 | h1
      · simp [h1]
      · exact List.mem_cons_of_mem _ (ih x h1)
  exact hs.subset (hperm s v hv)

/-- every reported form meets the length and mass limits -/
theorem reported_within_limits (g : Cfg) (t : TxIn) (vs : List Var) (p : Pep)
    (h : p ∈ callVariant g t vs) : pepOk g.cleave p = true := by
  obtain ⟨⟨hp, _, hprod⟩, _⟩ := (spec_declarative g t vs p).mp h
  simp only [ProductOf, peptidesOf, List.mem_flatMap] at hprod
  obtain ⟨s, _, hs⟩ := hprod
  simp only [productForms, List.mem_filter] at hs
  exact hs.2

/-- the raw digest inside the definition is the loop-free reading of C10's `enzymatic_cleave`
candidates, whose sites are the positional ExPASy sites (`Props.C10.sites_eq_isSite`) -/
theorem digest_is_C10 (c : CleaveCfg) (prot : Pep) (nf : Bool) (p : Pep) :
    p ∈ rawProducts c prot nf false ↔
      p ∈ cleaveCandidates prot
        (bounds ((List.range (prot.length + 1)).filter (isSite c.rule c.exc prot)) prot.length)
        c.misc nf := by
  rw [rawProducts_eq_candidates, Props.C10.sites_eq_isSite]

end MoPepGen.Props.C01
