import MoPepGen.Lemmas.Fusion
import MoPepGen.Lemmas.FusionCall
/-!
# C15 — fusion parsers yield the fusion transcript defined by the breakpoints

Property theorems only.  Layer M (`Model/Fusion.lean`) models the three
`convert_to_variant_records`, `get_transcripts_with_position`, the three command loops,
`shift_breakpoint_to_closest_exon`, `to_transcript_variant` (fusion branch) and the documented
reading of a Fusion record; Layer S (`Model/FusionSpec.lean`) is `fusedSeq`, stated on the
chromosome only.  All theorems hold for arbitrary annotations (any number of genes, isoforms,
exons), both strands on either side (hence all four strand combinations), exonic and intronic
breakpoints.  Hypotheses are the decidable predicates `GeneOK` (built from `Transcript.WF`,
`Transcript.Within`, "transcript line = hull of its exons", gene on the chromosome).

The last clause of the property ("callVariant's fusion peptides are digestion products of that
sequence") is stated on the definitional layer at the end of the file (`callvariant_clause`,
`callvariant_clause_fused`): without small records `Spec.callBackbone` is exactly the peptide
forms of the backbone itself minus the donor's own products and the canonical pool.  That the
real `callVariant`, run on the GVF the real parser wrote, reports exactly that set for the
backbone `fusedSeq` is compared per generated input by the `callvariant` stream of
`harness/c15.py` (the graph algorithm is not modelled: validated, not proved).
-/
namespace MoPepGen.Props.C15
open MoPepGen MoPepGen.Fusion MoPepGen.FusionSpec

/-! ## well-formedness -/

/-- every transcript of the gene that has exons is well formed, lies inside the gene on the
gene's strand, its `transcript` line spans exactly its exons, and the gene lies on the
chromosome `chrom` -/
def GeneOK (chrom : List Char) (g : GeneEntry) : Prop :=
  ∀ t ∈ g.txs, t.tx.exons ≠ [] →
    TxOK chrom g.gene t.tx ∧ t.loc = ⟨t.tx.spanStart, t.tx.spanStop⟩

instance (chrom : List Char) (g : GeneEntry) : Decidable (GeneOK chrom g) := by
  unfold GeneOK; infer_instance

/-! ## non-vacuity: a two-gene annotation, donor on `+`, acceptor on `-`, two isoforms -/

def exChrom : List Char := "AACCGGTTACGTACGTTTGACCA".toList
def exD : GeneEntry :=
  { id := "G1.1", name := "N1", chrom := "chr1", gene := ⟨.plus, ⟨0, 14⟩⟩,
    txs := [⟨"T1", ⟨2, 12⟩, ⟨.plus, [⟨2, 5⟩, ⟨8, 12⟩]⟩⟩, ⟨"T1b", ⟨8, 13⟩, ⟨.plus, [⟨8, 13⟩]⟩⟩] }
def exA : GeneEntry :=
  { id := "G2.1", name := "N2", chrom := "chr1", gene := ⟨.minus, ⟨0, 15⟩⟩,
    txs := [⟨"T2", ⟨1, 13⟩, ⟨.minus, [⟨1, 4⟩, ⟨9, 13⟩]⟩⟩] }
def exAnno : Anno := ⟨false, [exD, exA]⟩
def exGenome : Genome := [("chr1", exChrom)]
def exStar : StarRow := ⟨500, "G1.1", "chr1", 7, "G2.1", "chr1", 11⟩

example : GeneOK exChrom exD := by decide
example : GeneOK exChrom exA := by decide
/-- intronic left breakpoint (1-based 7), exonic right breakpoint on the minus strand -/
example : (convertStar exAnno exGenome exStar).map (·.map fun r => (r.donorTx, r.start, r.accTx, r.accPos))
    = .ok [("T1", 7, "T2", 4)] := by decide
example : gvfFusionSeq exChrom exD.gene ⟨.plus, [⟨2, 5⟩, ⟨8, 12⟩]⟩ exChrom exA.gene
    ⟨.minus, [⟨1, 4⟩, ⟨9, 13⟩]⟩ 7 4 = .ok "CCGGTCGGGT".toList := by decide
example : fusedSeq exChrom ⟨.plus, [⟨2, 5⟩, ⟨8, 12⟩]⟩ 6 exChrom ⟨.minus, [⟨1, 4⟩, ⟨9, 13⟩]⟩ 10
    = "CCGGTCGGGT".toList := by decide
/-- a breakpoint inside both isoforms gives both donor transcripts -/
example : (convertStar exAnno exGenome { exStar with left := 10 }).map (·.map (·.donorTx))
    = .ok ["T1", "T1b"] := by decide

/-! ## structure of the converter output -/

theorem bpToGene_ok {g : GeneEntry} {bp i : Nat} (h : bpToGene g bp = .ok i) :
    bp ≠ 0 ∧ genomicToGene g.gene (bp - 1) = .ok i := by
  unfold bpToGene at h
  by_cases h0 : bp = 0
  · rw [if_pos h0] at h; cases h
  · rw [if_neg h0] at h
    cases hg : genomicToGene g.gene (bp - 1) with
    | error e => rw [hg] at h; cases h
    | ok k => rw [hg] at h; simp only [Except.ok.injEq] at h; subst h; exact ⟨h0, rfl⟩

theorem mem_txsWithPosition {g : GeneEntry} {pos : Nat} {t : TxEntry} :
    t ∈ txsWithPosition g pos ↔
      t ∈ g.txs ∧ t.tx.exons ≠ [] ∧ t.loc.start ≤ pos ∧ pos < t.loc.stop := by
  simp only [txsWithPosition, List.mem_filter, Bool.and_eq_true, Bool.not_eq_true',
    List.isEmpty_eq_false_iff, Iv.contains_iff, ne_eq]

theorem mem_mkRecords {gd ga : String} {dg ag : GeneEntry} {dc ac : String}
    {lb rb dpos apos : Nat} {ref : String} {dtxs atxs : List TxEntry} {r : FusionRec} :
    r ∈ mkRecords gd ga dg ag dc ac lb rb dpos apos ref dtxs atxs ↔
      ∃ d ∈ dtxs, ∃ a ∈ atxs, r =
        { gene := gd, start := dpos, ref := ref,
          id := s!"FUSION-{d.id}:{dpos}-{a.id}:{apos}",
          donorTx := d.id, symbol := dg.name, genomicPos := s!"{dc}:{lb}:{lb}",
          accGene := ga, accTx := a.id, accSymbol := ag.name, accPos := apos,
          accGenomicPos := s!"{ac}:{rb}:{rb}" } := by
  simp only [mkRecords, List.mem_flatMap, List.mem_map]
  constructor
  · rintro ⟨d, hd, a, ha, rfl⟩; exact ⟨d, hd, a, ha, rfl⟩
  · rintro ⟨d, hd, a, ha, rfl⟩; exact ⟨d, hd, a, ha, rfl⟩

/-- what all three converters produce once the look-ups succeeded: one record per pair of
eligible transcripts, whose reading is the fusion transcript of the two breakpoints -/
theorem mkRecords_denotes {gd ga : String} {dg ag : GeneEntry} {dc ac : String}
    {left right d0 apos : Nat} {ref : String}
    (hl : bpToGene dg left = .ok d0) (hr : bpToGene ag right = .ok apos) {r : FusionRec}
    (hm : r ∈ mkRecords gd ga dg ag dc ac left right (d0 + 1) apos ref
      (txsWithPosition dg (left - 1)) (txsWithPosition ag (right - 1))) :
    ∃ d a, d ∈ dg.txs ∧ a ∈ ag.txs ∧ r.gene = gd ∧ r.donorTx = d.id ∧ r.accGene = ga ∧
      r.accTx = a.id ∧
      ∀ chromD chromA, GeneOK chromD dg → GeneOK chromA ag →
        gvfFusionSeq chromD dg.gene d.tx chromA ag.gene a.tx r.start r.accPos =
          .ok (fusedSeq chromD d.tx (left - 1) chromA a.tx (right - 1)) := by
  obtain ⟨d, hd, a, ha, rfl⟩ := mem_mkRecords.mp hm
  obtain ⟨hdm, hdne, hd1, hd2⟩ := mem_txsWithPosition.mp hd
  obtain ⟨ham, hane, ha1, ha2⟩ := mem_txsWithPosition.mp ha
  refine ⟨d, a, hdm, ham, rfl, rfl, rfl, rfl, ?_⟩
  intro chromD chromA hD hA
  obtain ⟨okD, locD⟩ := hD d hdm hdne
  obtain ⟨okA, locA⟩ := hA a ham hane
  rw [locD] at hd1 hd2
  rw [locA] at ha1 ha2
  exact reading_denotes okD okA ⟨hd1, hd2⟩ ⟨ha1, ha2⟩ (bpToGene_ok hl).2 (bpToGene_ok hr).2

/-- the transcript pairs of the converter output, in output order -/
theorem mkRecords_pairs {gd ga : String} {dg ag : GeneEntry} {dc ac : String}
    {lb rb dpos apos : Nat} {ref : String} {dtxs atxs : List TxEntry} :
    (mkRecords gd ga dg ag dc ac lb rb dpos apos ref dtxs atxs).map
        (fun r => (r.donorTx, r.accTx)) =
      dtxs.flatMap fun d => atxs.map fun a => (d.id, a.id) := by
  simp [mkRecords, List.map_flatMap, Function.comp_def]

/-- the eligibility rule of the code: transcripts of the gene with at least one exon whose
`transcript` line contains the breakpoint base (exonic or intronic) -/
def eligible (g : GeneEntry) (bp : Nat) : List TxEntry :=
  g.txs.filter fun t => !t.tx.exons.isEmpty && decide (t.loc.start ≤ bp - 1 ∧ bp - 1 < t.loc.stop)

theorem eligible_eq (g : GeneEntry) (bp : Nat) : txsWithPosition g (bp - 1) = eligible g bp := by
  unfold txsWithPosition eligible
  congr 1; funext t
  simp [Iv.contains]

theorem checkedRecords_ok {ref : String} {d a : List TxEntry} {recs rs : List FusionRec}
    (h : checkedRecords ref d a recs = .ok rs) : rs = recs := by
  unfold checkedRecords at h
  split at h
  · cases h
  · simp only [Except.ok.injEq] at h; exact h.symm

theorem convertStar_ok {anno : Anno} {genome : Genome} {r : StarRow} {rs : List FusionRec}
    (h : convertStar anno genome r = .ok rs) :
    ∃ dg ag d0 apos ref, anno.find r.leftGene = some dg ∧ anno.find r.rightGene = some ag ∧
      bpToGene dg r.left = .ok d0 ∧ bpToGene ag r.right = .ok apos ∧
      rs = mkRecords r.leftGene r.rightGene dg ag r.leftChrom r.rightChrom r.left r.right
        (d0 + 1) apos ref (txsWithPosition dg (r.left - 1)) (txsWithPosition ag (r.right - 1)) := by
  unfold convertStar at h
  cases hdg : anno.find r.leftGene with
  | none => simp [hdg] at h
  | some dg =>
    simp only [hdg] at h
    cases hd0 : bpToGene dg r.left with
    | error e => simp [hd0] at h
    | ok d0 =>
      simp only [hd0] at h
      cases hag : anno.find r.rightGene with
      | none => simp [hag] at h
      | some ag =>
        simp only [hag] at h
        cases ha0 : bpToGene ag r.right with
        | error e => simp [ha0] at h
        | ok apos =>
          simp only [ha0] at h
          cases hch : genome.find r.leftChrom with
          | none => simp [hch] at h
          | some chrom =>
            simp only [hch] at h
            cases hrf : refBase chrom dg.gene.strand (r.left + 1) r.left with
            | error e => simp [hrf] at h
            | ok ref =>
              simp only [hrf] at h
              exact ⟨dg, ag, d0, apos, ref, (by first | rfl | assumption), (by first | rfl | assumption), (by first | rfl | assumption), (by first | rfl | assumption), checkedRecords_ok h⟩

theorem convertArriba_ok {anno : Anno} {genome : Genome} {r : ArribaRow} {rs : List FusionRec}
    (h : convertArriba anno genome r = .ok rs) :
    ∃ dg ag d0 apos ref, anno.find r.geneId1 = some dg ∧ anno.find r.geneId2 = some ag ∧
      bpToGene dg r.bp1 = .ok d0 ∧ bpToGene ag r.bp2 = .ok apos ∧
      rs = mkRecords r.geneId1 r.geneId2 dg ag dg.chrom ag.chrom r.bp1 r.bp2
        (d0 + 1) apos ref (txsWithPosition dg (r.bp1 - 1)) (txsWithPosition ag (r.bp2 - 1)) := by
  unfold convertArriba at h
  cases hdg : anno.find r.geneId1 with
  | none => simp [hdg] at h
  | some dg =>
    simp only [hdg] at h
    cases hag : anno.find r.geneId2 with
    | none => simp [hag] at h
    | some ag =>
      simp only [hag] at h
      cases hd0 : bpToGene dg r.bp1 with
      | error e => simp [hd0] at h
      | ok d0 =>
        simp only [hd0] at h
        cases ha0 : bpToGene ag r.bp2 with
        | error e => simp [ha0] at h
        | ok apos =>
          simp only [ha0] at h
          cases hch : genome.find dg.chrom with
          | none => simp [hch] at h
          | some chrom =>
            simp only [hch] at h
            cases hrf : refBase chrom dg.gene.strand r.bp1 r.bp1 with
            | error e => simp [hrf] at h
            | ok ref =>
              simp only [hrf] at h
              exact ⟨dg, ag, d0, apos, ref, (by first | rfl | assumption), (by first | rfl | assumption), (by first | rfl | assumption), (by first | rfl | assumption), checkedRecords_ok h⟩

theorem convertFc_ok {anno : Anno} {genome : Genome} {r : FcRow} {rs : List FusionRec}
    (h : convertFc anno genome r = .ok rs) :
    ∃ dg ag d0 apos ref, fcGenes anno r = .ok (dg, ag) ∧
      bpToGene dg r.left = .ok d0 ∧ bpToGene ag r.right = .ok apos ∧
      rs = mkRecords dg.id ag.id dg ag dg.chrom ag.chrom r.left r.right
        (d0 + 1) apos ref (txsWithPosition dg (r.left - 1)) (txsWithPosition ag (r.right - 1)) := by
  unfold convertFc at h
  cases hg : fcGenes anno r with
  | error e => simp [hg] at h
  | ok pr =>
    obtain ⟨dg, ag⟩ := pr
    simp only [hg] at h
    cases hd0 : bpToGene dg r.left with
    | error e => simp [hd0] at h
    | ok d0 =>
      simp only [hd0] at h
      cases ha0 : bpToGene ag r.right with
      | error e => simp [ha0] at h
      | ok apos =>
        simp only [ha0] at h
        cases hch : genome.find dg.chrom with
        | none => simp [hch] at h
        | some chrom =>
          simp only [hch] at h
          cases hrf : refBase chrom dg.gene.strand r.left r.left with
          | error e => simp [hrf] at h
          | ok ref =>
            simp only [hrf] at h
            exact ⟨dg, ag, d0, apos, ref, (by first | rfl | assumption), (by first | rfl | assumption), (by first | rfl | assumption), checkedRecords_ok h⟩

/-! ### open finding `c15-ref-base-read-past-chromosome-end`

The theorems below are conditional on the converter returning records.  On the unchanged tree
it does NOT always do so for a valid fusion: the REF base is read one (STAR-Fusion, `+`) or two
(`-`) positions off, which runs past the chromosome when the donor breakpoint is its last
(or, STAR-Fusion `+`, second to last) base. -/

def kfGenome : Genome :=
  [("chr1", "ACGTACGTACGTACGTACGT".toList), ("chr2", "ACGTACGTACGTACGTACGT".toList)]
def kfAnno : Anno := ⟨false,
  [⟨"GB.1", "GB", "chr2", ⟨.plus, ⟨2, 20⟩⟩, [⟨"TB.1", ⟨2, 20⟩, ⟨.plus, [⟨2, 20⟩]⟩⟩]⟩,
   ⟨"GA.1", "GA", "chr1", ⟨.minus, ⟨2, 20⟩⟩, [⟨"TA.1", ⟨2, 20⟩, ⟨.minus, [⟨2, 20⟩]⟩⟩]⟩]⟩
example : convertStar kfAnno kfGenome ⟨1000, "GB.1", "chr2", 19, "GA.1", "chr1", 5⟩
    = .error .index := by decide
example : convertArriba kfAnno kfGenome ⟨"GB.1", "GA.1", some .plus, some .minus, 20, 5, 9, 9, .high⟩
    = .error .index := by decide
example : convertStar kfAnno kfGenome ⟨1000, "GA.1", "chr1", 20, "GB.1", "chr2", 5⟩
    = .error .value := by decide
example : (convertStar kfAnno kfGenome ⟨1000, "GB.1", "chr2", 18, "GA.1", "chr1", 5⟩).map
    (·.length) = .ok 1 := by decide

/-! ## `fusion_record_denotes` — one theorem per tool

`r ∈ convert_tool row → gvfFusionSeq r = fusedSeq donorTx (left-1) acceptorTx (right-1)`:
every emitted record names a donor transcript `d` of the left gene and an acceptor transcript
`a` of the right gene and, read by the documented GVF semantics, denotes exactly the donor
transcript up to and including the left breakpoint base (plus retained intron) followed by
the acceptor transcript from the right breakpoint base.  Strands are arbitrary on both sides. -/

theorem fusion_record_denotes_star (anno : Anno) (genome : Genome) (row : StarRow)
    (rs : List FusionRec) (h : convertStar anno genome row = .ok rs) (r : FusionRec) (hr : r ∈ rs) :
    ∃ dg ag d a, anno.find row.leftGene = some dg ∧ anno.find row.rightGene = some ag ∧
      d ∈ dg.txs ∧ a ∈ ag.txs ∧ r.gene = row.leftGene ∧ r.donorTx = d.id ∧
      r.accGene = row.rightGene ∧ r.accTx = a.id ∧
      ∀ chromD chromA, GeneOK chromD dg → GeneOK chromA ag →
        gvfFusionSeq chromD dg.gene d.tx chromA ag.gene a.tx r.start r.accPos =
          .ok (fusedSeq chromD d.tx (row.left - 1) chromA a.tx (row.right - 1)) := by
  obtain ⟨dg, ag, d0, apos, ref, hdg, hag, hd0, ha0, rfl⟩ := convertStar_ok h
  obtain ⟨d, a, h1, h2, h3, h4, h5, h6, h7⟩ := mkRecords_denotes hd0 ha0 hr
  exact ⟨dg, ag, d, a, hdg, hag, h1, h2, h3, h4, h5, h6, h7⟩

theorem fusion_record_denotes_arriba (anno : Anno) (genome : Genome) (row : ArribaRow)
    (rs : List FusionRec) (h : convertArriba anno genome row = .ok rs) (r : FusionRec)
    (hr : r ∈ rs) :
    ∃ dg ag d a, anno.find row.geneId1 = some dg ∧ anno.find row.geneId2 = some ag ∧
      d ∈ dg.txs ∧ a ∈ ag.txs ∧ r.gene = row.geneId1 ∧ r.donorTx = d.id ∧
      r.accGene = row.geneId2 ∧ r.accTx = a.id ∧
      ∀ chromD chromA, GeneOK chromD dg → GeneOK chromA ag →
        gvfFusionSeq chromD dg.gene d.tx chromA ag.gene a.tx r.start r.accPos =
          .ok (fusedSeq chromD d.tx (row.bp1 - 1) chromA a.tx (row.bp2 - 1)) := by
  obtain ⟨dg, ag, d0, apos, ref, hdg, hag, hd0, ha0, rfl⟩ := convertArriba_ok h
  obtain ⟨d, a, h1, h2, h3, h4, h5, h6, h7⟩ := mkRecords_denotes hd0 ha0 hr
  exact ⟨dg, ag, d, a, hdg, hag, h1, h2, h3, h4, h5, h6, h7⟩

theorem fusion_record_denotes_fc (anno : Anno) (genome : Genome) (row : FcRow)
    (rs : List FusionRec) (h : convertFc anno genome row = .ok rs) (r : FusionRec) (hr : r ∈ rs) :
    ∃ dg ag d a, fcGenes anno row = .ok (dg, ag) ∧
      d ∈ dg.txs ∧ a ∈ ag.txs ∧ r.gene = dg.id ∧ r.donorTx = d.id ∧
      r.accGene = ag.id ∧ r.accTx = a.id ∧
      ∀ chromD chromA, GeneOK chromD dg → GeneOK chromA ag →
        gvfFusionSeq chromD dg.gene d.tx chromA ag.gene a.tx r.start r.accPos =
          .ok (fusedSeq chromD d.tx (row.left - 1) chromA a.tx (row.right - 1)) := by
  obtain ⟨dg, ag, d0, apos, ref, hg, hd0, ha0, rfl⟩ := convertFc_ok h
  obtain ⟨d, a, h1, h2, h3, h4, h5, h6, h7⟩ := mkRecords_denotes hd0 ha0 hr
  exact ⟨dg, ag, d, a, hg, h1, h2, h3, h4, h5, h6, h7⟩

/-! ## `fusion_pairs_exact`

The (donor transcript, acceptor transcript) pairs of the emitted records are exactly
`eligible leftGene left × eligible rightGene right`, in product order, each pair once per
occurrence in the gene's transcript list. -/

theorem fusion_pairs_exact_star (anno : Anno) (genome : Genome) (row : StarRow)
    (rs : List FusionRec) (h : convertStar anno genome row = .ok rs) :
    ∃ dg ag, anno.find row.leftGene = some dg ∧ anno.find row.rightGene = some ag ∧
      rs.map (fun r => (r.donorTx, r.accTx)) =
        (eligible dg row.left).flatMap fun d => (eligible ag row.right).map fun a => (d.id, a.id) := by
  obtain ⟨dg, ag, d0, apos, ref, hdg, hag, _, _, rfl⟩ := convertStar_ok h
  exact ⟨dg, ag, hdg, hag, by rw [mkRecords_pairs, eligible_eq, eligible_eq]⟩

theorem fusion_pairs_exact_arriba (anno : Anno) (genome : Genome) (row : ArribaRow)
    (rs : List FusionRec) (h : convertArriba anno genome row = .ok rs) :
    ∃ dg ag, anno.find row.geneId1 = some dg ∧ anno.find row.geneId2 = some ag ∧
      rs.map (fun r => (r.donorTx, r.accTx)) =
        (eligible dg row.bp1).flatMap fun d => (eligible ag row.bp2).map fun a => (d.id, a.id) := by
  obtain ⟨dg, ag, d0, apos, ref, hdg, hag, _, _, rfl⟩ := convertArriba_ok h
  exact ⟨dg, ag, hdg, hag, by rw [mkRecords_pairs, eligible_eq, eligible_eq]⟩

theorem fusion_pairs_exact_fc (anno : Anno) (genome : Genome) (row : FcRow)
    (rs : List FusionRec) (h : convertFc anno genome row = .ok rs) :
    ∃ dg ag, fcGenes anno row = .ok (dg, ag) ∧
      rs.map (fun r => (r.donorTx, r.accTx)) =
        (eligible dg row.left).flatMap fun d => (eligible ag row.right).map fun a => (d.id, a.id) := by
  obtain ⟨dg, ag, d0, apos, ref, hg, _, _, rfl⟩ := convertFc_ok h
  exact ⟨dg, ag, hg, by rw [mkRecords_pairs, eligible_eq, eligible_eq]⟩

/-! ## `fusion_thresholds` -/

/-- `ArribaConfidence`: the comparison used by `is_valid` (`self.confidence >= ArribaConfidence(c)`)
goes through two inversions — `__ge__` is missing, so Python evaluates the reflected
`other.__le__(self)`, which is written as `== or >`, and `>` (missing too) is the reflected
`__lt__`, which is written with `>` on the integer levels — and therefore IS the intended order
`low < medium < high`. -/
theorem arriba_confidence_ge_is_intended (a b : Conf) :
    Conf.pyGe a b = decide (a.toInt ≥ b.toInt) := by
  cases a <;> cases b <;> rfl

/-- the operators that go through ONE inversion only are inverted: `a < b` and `a > b` on
`ArribaConfidence` objects answer the opposite question, `a <= b` means `a ≥ b`.  None of them
is used by the parser. -/
theorem arriba_confidence_other_operators (a b : Conf) :
    Conf.pyLt a b = decide (a.toInt > b.toInt) ∧ Conf.pyGt a b = decide (a.toInt < b.toInt) ∧
      Conf.pyLe a b = decide (a.toInt ≤ b.toInt) := by
  cases a <;> cases b <;> exact ⟨rfl, rfl, rfl⟩

example : Conf.pyLt .high .low = true := by decide

/-- STAR-Fusion: a row is dropped for insufficient evidence iff `est_J < --min-est-j` -/
theorem fusion_thresholds_star (minEstJ : Nat) (r : StarRow) :
    (starPre minEstJ r = .insufficient ↔ r.estJ < minEstJ) ∧
    (starPre minEstJ r = .go ↔ minEstJ ≤ r.estJ) := by
  unfold starPre
  by_cases h : r.estJ < minEstJ
  · rw [if_pos h]; simp; omega
  · rw [if_neg h]; simp; omega

/-- Arriba (both genes known): a row is dropped for insufficient evidence iff
`split_reads1 < min1` or `split_reads2 < min2` or its confidence is below `--min-confidence` in
the order `low < medium < high` -/
theorem fusion_thresholds_arriba (anno : Anno) (min1 min2 : Nat) (minConf : Conf) (r : ArribaRow)
    (g1 g2 : GeneEntry) (h1 : anno.find r.geneId1 = some g1) (h2 : anno.find r.geneId2 = some g2) :
    (arribaPre anno min1 min2 minConf r = .insufficient ↔
      ¬ (min1 ≤ r.split1 ∧ min2 ≤ r.split2 ∧ minConf.toInt ≤ r.conf.toInt)) := by
  unfold arribaPre ArribaRow.isValid
  simp only [h1, h2, arriba_confidence_ge_is_intended]
  by_cases hv : min1 ≤ r.split1 ∧ min2 ≤ r.split2 ∧ minConf.toInt ≤ r.conf.toInt
  · obtain ⟨a, b, c⟩ := hv
    simp only [ge_iff_le, a, b, c, decide_true, Bool.and_self, Bool.not_true, Bool.false_eq_true,
      if_false, and_self, not_true_eq_false, iff_false]
    split <;> simp
  · have : (decide (r.split1 ≥ min1) && decide (r.split2 ≥ min2) &&
        decide (r.conf.toInt ≥ minConf.toInt)) = false := by
      simp only [ge_iff_le, Bool.and_eq_false_iff, decide_eq_false_iff_not]; omega
    simp [this, hv]

/-- FusionCatcher: a row is dropped iff `common_mapping_reads > --max-common-mapping` or
`spanning_unique_reads < --min-spanning-unique` -/
theorem fusion_thresholds_fc (maxCommon minSpanUnique : Nat) (r : FcRow) :
    (fcPre maxCommon minSpanUnique r = .insufficient ↔
      (r.common > maxCommon ∨ r.spanUnique < minSpanUnique)) := by
  unfold fcPre
  by_cases h : r.common > maxCommon ∨ r.spanUnique < minSpanUnique
  · rw [if_pos h]; simp [h]
  · rw [if_neg h]; simp [h]

/-- a row below the thresholds contributes no record and is counted as insufficient evidence,
whatever `--skip-failed` says -/
theorem fusion_thresholds_row_skipped {Row : Type} (pre : Row → Pre)
    (conv : Row → Except FusErr (List FusionRec)) (skip : Bool) (r : Row)
    (h : pre r = .insufficient) :
    rowRecs pre conv r = [] ∧ rowClass pre conv skip r = .insufficient := by
  simp [rowRecs, rowClass, h]

/-! ## `fusion_unknown_gene_counted` -/

theorem star_unknown_left (anno : Anno) (genome : Genome) (r : StarRow)
    (h : anno.find r.leftGene = none) : convertStar anno genome r = .error .geneNotFound := by
  simp [convertStar, h]

/-- the right gene is looked up AFTER the left breakpoint has been converted -/
theorem star_unknown_right (anno : Anno) (genome : Genome) (r : StarRow) (dg : GeneEntry) (d0 : Nat)
    (hl : anno.find r.leftGene = some dg) (hb : bpToGene dg r.left = .ok d0)
    (h : anno.find r.rightGene = none) : convertStar anno genome r = .error .geneNotFound := by
  simp [convertStar, hl, hb, h]

/-- … so a STAR-Fusion row naming an unknown right gene whose left breakpoint lies outside the
left gene raises `ValueError` instead (run aborts without `--skip-failed`, row counted as
"invalid position" with it) -/
example : convertStar exAnno exGenome { exStar with left := 20, rightGene := "NOPE" }
    = .error .value := by decide

theorem arriba_unknown (anno : Anno) (min1 min2 : Nat) (minConf : Conf) (r : ArribaRow)
    (h : anno.find r.geneId1 = none ∨ anno.find r.geneId2 = none) :
    arribaPre anno min1 min2 minConf r = .invalidGene := by
  unfold arribaPre
  rcases h with h | h
  · rw [h]
  · rw [h]; cases anno.find r.geneId1 <;> rfl

theorem fc_unknown (anno : Anno) (genome : Genome) (r : FcRow)
    (h : fcGenes anno r = .error .geneNotFound) : convertFc anno genome r = .error .geneNotFound := by
  simp [convertFc, h]

/-- FusionCatcher gene look-up: versioned ids (`…\.[0-9]+`) and ENSEMBL annotations use the id as
is; otherwise the id is matched against the unversioned part of the annotation's ids -/
theorem fc_lookup (anno : Anno) (r : FcRow) :
    (isVersioned r.gene5 = true → anno.find r.gene5 = none → fcGenes anno r = .error .geneNotFound) ∧
    (isVersioned r.gene5 = true → ∀ dg, anno.find r.gene5 = some dg → anno.find r.gene3 = none →
      fcGenes anno r = .error .geneNotFound) ∧
    (isVersioned r.gene5 = false → anno.ensembl = true → anno.find r.gene5 = none →
      fcGenes anno r = .error .geneNotFound) ∧
    (isVersioned r.gene5 = false → anno.ensembl = false →
      hasCollision (anno.genes.map (·.id)) = false →
      (∀ g ∈ anno.genes, unversioned g.id ≠ r.gene5) → fcGenes anno r = .error .geneNotFound) := by
  refine ⟨?_, ?_, ?_, ?_⟩
  · intro hv h; simp [fcGenes, hv, h]
  · intro hv dg h5 h3; simp [fcGenes, hv, h5, h3]
  · intro hv he h; simp [fcGenes, hv, Anno.findUnversioned, he, h]
  · intro hv he hc hn
    have : anno.genes.find? (fun g => unversioned g.id == r.gene5) = none := by
      rw [List.find?_eq_none]; intro g hg; simpa using hn g hg
    have h2 : anno.genes.find? (fun g => !isParY g.id && unversioned g.id == r.gene5) = none := by
      rw [List.find?_eq_none]; intro g hg; simp [hn g hg]
    simp [fcGenes, hv, Anno.findUnversioned, he, hc, this, h2]

/-- a row whose conversion raises `GeneNotFoundError` is skipped and counted as "invalid gene
ID" — with and without `--skip-failed` — and contributes no record -/
theorem fusion_unknown_gene_counted {Row : Type} (pre : Row → Pre)
    (conv : Row → Except FusErr (List FusionRec)) (skip : Bool) (r : Row)
    (h : pre r = .invalidGene ∨ (pre r = .go ∧ conv r = .error .geneNotFound)) :
    rowRecs pre conv r = [] ∧ rowClass pre conv skip r = .invalidGene := by
  rcases h with h | ⟨h1, h2⟩
  · simp [rowRecs, rowClass, h]
  · simp [rowRecs, rowClass, h1, h2]

/-! ## the commands end to end -/

/-- For any command loop: if no row aborts, the command succeeds, `total` = number of rows, every
row is counted in exactly one bucket, and the written records are exactly the records of the
rows that passed the pre-checks and converted (each record of each such row), ordered by gene
rank; if a row aborts, the command raises and nothing is written. -/
theorem cli_spec {Row : Type} (anno : Anno) (pre : Row → Pre)
    (conv : Row → Except FusErr (List FusionRec)) (skip : Bool) (rows : List Row)
    (hgene : ∀ row rs r, conv row = .ok rs → r ∈ rs → ∃ g ∈ anno.genes, r.gene = g.id) :
    ((∀ r ∈ rows, rowClass pre conv skip r ≠ .abort) →
      ∃ out, finishCli anno (cliLoop pre conv skip rows {} []) = .ok out ∧
        out.tally.total = rows.length ∧
        out.tally.succeed = rows.countP (fun r => rowClass pre conv skip r = .ok) ∧
        out.tally.invalidGene = rows.countP (fun r => rowClass pre conv skip r = .invalidGene) ∧
        out.tally.invalidPos = rows.countP (fun r => rowClass pre conv skip r = .invalidPos) ∧
        out.tally.insufficient = rows.countP (fun r => rowClass pre conv skip r = .insufficient) ∧
        out.tally.antisense = rows.countP (fun r => rowClass pre conv skip r = .antisense) ∧
        out.tally.skipped = rows.countP (fun r => rowClass pre conv skip r ≠ .ok) ∧
        ∀ r, r ∈ out.written.getD [] ↔
          ∃ row ∈ rows, pre row = .go ∧ ∃ rs, conv row = .ok rs ∧ r ∈ rs) ∧
    ((∃ r ∈ rows, rowClass pre conv skip r = .abort) →
      ∃ e, finishCli anno (cliLoop pre conv skip rows {} []) = .error e) := by
  constructor
  · intro hno
    obtain ⟨t', h1, h2, h3, h4, h5, h6, h7, h8⟩ := cliLoop_ok pre conv skip rows {} [] hno
    have hmem : ∀ r, r ∈ rows.flatMap (rowRecs pre conv) ↔
        ∃ row ∈ rows, pre row = .go ∧ ∃ rs, conv row = .ok rs ∧ r ∈ rs := by
      intro r
      simp only [List.mem_flatMap]
      constructor
      · rintro ⟨row, hrow, hr⟩
        unfold rowRecs at hr
        cases hp : pre row <;> rw [hp] at hr <;> simp only at hr <;> try (cases hr)
        cases hc : conv row with
        | ok rs => rw [hc] at hr; exact ⟨row, hrow, hp, rs, hc, hr⟩
        | error e => rw [hc] at hr; cases hr
      · rintro ⟨row, hrow, hp, rs, hc, hr⟩
        exact ⟨row, hrow, by simp [rowRecs, hp, hc, hr]⟩
    rw [h1]
    simp only [List.nil_append, finishCli]
    by_cases hemp : (rows.flatMap (rowRecs pre conv)).isEmpty = true
    · rw [if_pos hemp]
      refine ⟨_, rfl, by simpa using h2, by simpa using h3, by simpa using h4, by simpa using h5,
        by simpa using h6, by simpa using h7, by simpa using h8, ?_⟩
      intro r
      rw [← hmem r]
      simp only [Option.getD_none, List.not_mem_nil, false_iff]
      rw [List.isEmpty_iff] at hemp; rw [hemp]; simp
    · rw [if_neg hemp]
      refine ⟨_, rfl, by simpa using h2, by simpa using h3, by simpa using h4, by simpa using h5,
        by simpa using h6, by simpa using h7, by simpa using h8, ?_⟩
      intro r
      simp only [Option.getD_some]
      rw [mem_sortByRank, hmem r]
      constructor
      · rintro ⟨h, _⟩; exact h
      · rintro ⟨row, hrow, hp, rs, hc, hr⟩
        exact ⟨⟨row, hrow, hp, rs, hc, hr⟩, hgene row rs r hc hr⟩
  · intro hab
    obtain ⟨e, he⟩ := cliLoop_abort pre conv skip rows {} [] hab
    exact ⟨e, by rw [he]; rfl⟩

/-- every record of the three converters names a gene of the annotation (so the sort by gene
rank loses nothing) -/
theorem star_gene_in_anno (anno : Anno) (genome : Genome) (row : StarRow) (rs : List FusionRec)
    (r : FusionRec) (h : convertStar anno genome row = .ok rs) (hr : r ∈ rs) :
    ∃ g ∈ anno.genes, r.gene = g.id := by
  obtain ⟨dg, ag, d0, apos, ref, hdg, _, _, _, rfl⟩ := convertStar_ok h
  obtain ⟨d, _, a, _, rfl⟩ := mem_mkRecords.mp hr
  obtain ⟨hm, hid⟩ := find_mem hdg
  exact ⟨dg, hm, hid.symm⟩

theorem arriba_gene_in_anno (anno : Anno) (genome : Genome) (row : ArribaRow)
    (rs : List FusionRec) (r : FusionRec) (h : convertArriba anno genome row = .ok rs)
    (hr : r ∈ rs) : ∃ g ∈ anno.genes, r.gene = g.id := by
  obtain ⟨dg, ag, d0, apos, ref, hdg, _, _, _, rfl⟩ := convertArriba_ok h
  obtain ⟨d, _, a, _, rfl⟩ := mem_mkRecords.mp hr
  obtain ⟨hm, hid⟩ := find_mem hdg
  exact ⟨dg, hm, hid.symm⟩

theorem findUnversioned_mem {anno : Anno} {id : String} {g : GeneEntry}
    (h : anno.findUnversioned id = .ok g) : g ∈ anno.genes := by
  unfold Anno.findUnversioned at h
  split at h
  · cases hf : anno.find id with
    | none => simp [hf] at h
    | some g' => simp [hf] at h; subst h; exact (find_mem hf).1
  · split at h
    · cases h
    · cases hf1 : anno.genes.find? (fun g => !isParY g.id && unversioned g.id == id) with
      | some g' => simp [hf1] at h; subst h; exact List.mem_of_find?_eq_some hf1
      | none =>
        cases hf : anno.genes.find? (fun g => unversioned g.id == id) with
        | none => simp [hf1, hf] at h
        | some g' => simp [hf1, hf] at h; subst h; exact List.mem_of_find?_eq_some hf

/-- **Pseudo-autosomal genes.**  When the annotation lists a gene twice (`<id>` on chrX and
`<id>_PAR_Y` on chrY), an unversioned FusionCatcher id resolves to the copy that is NOT the
`_PAR_Y` one, whatever the order of the two in the GTF: the look-up never returns a `_PAR_Y` gene
while a non-`_PAR_Y` gene with that unversioned id exists. -/
theorem fc_par_y_never_preferred (anno : Anno) (id : String) (g : GeneEntry)
    (he : anno.ensembl = false) (h : anno.findUnversioned id = .ok g)
    (hx : ∃ x ∈ anno.genes, isParY x.id = false ∧ unversioned x.id = id) :
    isParY g.id = false := by
  obtain ⟨x, hxm, hxp, hxu⟩ := hx
  unfold Anno.findUnversioned at h
  simp only [he] at h
  cases hc : hasCollision (anno.genes.map (·.id)) with
  | true => simp [hc] at h
  | false =>
    simp only [hc] at h
    cases hf1 : anno.genes.find? (fun g => !isParY g.id && unversioned g.id == id) with
    | some g' =>
      simp [hf1] at h; subst h
      have := List.find?_some hf1
      simp at this; exact this.1
    | none =>
      rw [List.find?_eq_none] at hf1
      have := hf1 x hxm
      simp [hxp, hxu] at this

/-- non-vacuity: chrX copy listed first or second, the look-up returns it -/
example :
    let gx : GeneEntry := { (default : GeneEntry) with id := "ENSG0001.5" }
    let gy : GeneEntry := { (default : GeneEntry) with id := "ENSG0001.5_PAR_Y" }
    (match ({ (default : Anno) with genes := [gx, gy], ensembl := false }).findUnversioned "ENSG0001" with
      | .ok g => g.id | .error _ => "") = "ENSG0001.5" ∧
    (match ({ (default : Anno) with genes := [gy, gx], ensembl := false }).findUnversioned "ENSG0001" with
      | .ok g => g.id | .error _ => "") = "ENSG0001.5" := by decide

theorem fc_gene_in_anno (anno : Anno) (genome : Genome) (row : FcRow) (rs : List FusionRec)
    (r : FusionRec) (h : convertFc anno genome row = .ok rs) (hr : r ∈ rs) :
    ∃ g ∈ anno.genes, r.gene = g.id := by
  obtain ⟨dg, ag, d0, apos, ref, hg, _, _, rfl⟩ := convertFc_ok h
  obtain ⟨d, _, a, _, rfl⟩ := mem_mkRecords.mp hr
  refine ⟨dg, ?_, rfl⟩
  unfold fcGenes at hg
  split at hg
  · cases h5 : anno.find row.gene5 with
    | none => simp [h5] at hg
    | some g5 =>
      cases h3 : anno.find row.gene3 with
      | none => simp [h5, h3] at hg
      | some g3 => simp [h5, h3] at hg; rw [← hg.1]; exact (find_mem h5).1
  · cases h5 : anno.findUnversioned row.gene5 with
    | error e => simp [h5] at hg
    | ok g5 =>
      cases h3 : anno.findUnversioned row.gene3 with
      | error e => simp [h5, h3] at hg
      | ok g3 => simp [h5, h3] at hg; rw [← hg.1]; exact findUnversioned_mem h5

/-- `parseSTARFusion` end to end (see `cli_spec`) -/
theorem fusion_cli_star (anno : Anno) (genome : Genome) (minEstJ : Nat) (skip : Bool)
    (rows : List StarRow)
    (hno : ∀ r ∈ rows, rowClass (starPre minEstJ) (convertStar anno genome) skip r ≠ .abort) :
    ∃ out, cliStar anno genome minEstJ skip rows = .ok out ∧ out.tally.total = rows.length ∧
      ∀ r, r ∈ out.written.getD [] ↔
        ∃ row ∈ rows, minEstJ ≤ row.estJ ∧ ∃ rs, convertStar anno genome row = .ok rs ∧ r ∈ rs := by
  obtain ⟨out, h, ht, _, _, _, _, _, _, hm⟩ :=
    (cli_spec anno (starPre minEstJ) (convertStar anno genome) skip rows
      (fun row rs r h hr => star_gene_in_anno anno genome row rs r h hr)).1 hno
  refine ⟨out, h, ht, ?_⟩
  intro r; rw [hm r]
  constructor
  · rintro ⟨row, h1, h2, h3⟩; exact ⟨row, h1, ((fusion_thresholds_star minEstJ row).2).mp h2, h3⟩
  · rintro ⟨row, h1, h2, h3⟩; exact ⟨row, h1, ((fusion_thresholds_star minEstJ row).2).mpr h2, h3⟩

/-- `parseArriba` end to end -/
theorem fusion_cli_arriba (anno : Anno) (genome : Genome) (min1 min2 : Nat) (minConf : Conf)
    (skip : Bool) (rows : List ArribaRow)
    (hno : ∀ r ∈ rows, rowClass (arribaPre anno min1 min2 minConf) (convertArriba anno genome)
      skip r ≠ .abort) :
    ∃ out, cliArriba anno genome min1 min2 minConf skip rows = .ok out ∧
      out.tally.total = rows.length ∧
      ∀ r, r ∈ out.written.getD [] ↔
        ∃ row ∈ rows, arribaPre anno min1 min2 minConf row = .go ∧
          ∃ rs, convertArriba anno genome row = .ok rs ∧ r ∈ rs := by
  obtain ⟨out, h, ht, _, _, _, _, _, _, hm⟩ :=
    (cli_spec anno (arribaPre anno min1 min2 minConf) (convertArriba anno genome) skip rows
      (fun row rs r h hr => arriba_gene_in_anno anno genome row rs r h hr)).1 hno
  exact ⟨out, h, ht, hm⟩

/-- `parseFusionCatcher` end to end -/
theorem fusion_cli_fc (anno : Anno) (genome : Genome) (maxCommon minSpanUnique : Nat)
    (skip : Bool) (rows : List FcRow)
    (hno : ∀ r ∈ rows, rowClass (fcPre maxCommon minSpanUnique) (convertFc anno genome)
      skip r ≠ .abort) :
    ∃ out, cliFc anno genome maxCommon minSpanUnique skip rows = .ok out ∧
      out.tally.total = rows.length ∧
      ∀ r, r ∈ out.written.getD [] ↔
        ∃ row ∈ rows, ¬ (row.common > maxCommon ∨ row.spanUnique < minSpanUnique) ∧
          ∃ rs, convertFc anno genome row = .ok rs ∧ r ∈ rs := by
  obtain ⟨out, h, ht, _, _, _, _, _, _, hm⟩ :=
    (cli_spec anno (fcPre maxCommon minSpanUnique) (convertFc anno genome) skip rows
      (fun row rs r h hr => fc_gene_in_anno anno genome row rs r h hr)).1 hno
  refine ⟨out, h, ht, ?_⟩
  intro r; rw [hm r]
  have key : ∀ row : FcRow, fcPre maxCommon minSpanUnique row = .go ↔
      ¬ (row.common > maxCommon ∨ row.spanUnique < minSpanUnique) := by
    intro row; unfold fcPre
    by_cases hc : row.common > maxCommon ∨ row.spanUnique < minSpanUnique
    · rw [if_pos hc]; simp [hc]
    · rw [if_neg hc]; simp [hc]
  constructor
  · rintro ⟨row, h1, h2, h3⟩; exact ⟨row, h1, (key row).mp h2, h3⟩
  · rintro ⟨row, h1, h2, h3⟩; exact ⟨row, h1, (key row).mpr h2, h3⟩

/-! ## the callVariant clause

"… and callVariant's fusion peptides are digestion products of that sequence."

The fusion transcript `fusedSeq` is handed to the definitional layer of callVariant
(`Spec.callBackbone`, the definition C01/C02 compare the real command with) as a backbone `t`
(`t.seq = fusedSeq …`), with no small records.  `callBackbone` refers to two places inside the
backbone — the donor breakpoint in transcript coordinates (= length of the donor's exonic prefix)
and the first base of the acceptor's exonic suffix (`orfLimit`) — so `fusedSeq` is cut into four
stretches (`fusedParts`); the theorems below say the cut is the intended one. -/

/-- the four stretches concatenate to the fusion transcript -/
theorem fusedParts_join (chromD : List Char) (tD : Transcript) (lb : Nat) (chromA : List Char)
    (tA : Transcript) (rb : Nat) :
    (fusedParts chromD tD lb chromA tA rb).join = fusedSeq chromD tD lb chromA tA rb := by
  simp only [FusedParts.join, fusedParts, fusedSeq, donorSplit, acceptorSplit, readBases,
    List.append_assoc]
  rw [← List.append_assoc, ← List.map_append, List.takeWhile_append_dropWhile, ← List.map_append,
    List.takeWhile_append_dropWhile]

/-- donor side, any strand, exonic or intronic breakpoint on the chromosome: the first stretch
consists of exonic positions only, the second of non-exonic (retained intronic) positions only,
together they are the donor part of the specification -/
theorem donorSplit_spec (n : Nat) (t : Transcript) (p : Nat) (hp : p < n) :
    (∀ q ∈ (donorSplit n t p).1, isExonic t q = true) ∧
    (∀ q ∈ (donorSplit n t p).2, isExonic t q = false) ∧
    (donorSplit n t p).1 ++ (donorSplit n t p).2 = donorPositions n t p :=
  ⟨takeWhile_all_true,
   dropWhile_all_false (donorPositions_pairwise n t p) (donor_intron_inherits hp),
   List.takeWhile_append_dropWhile⟩

/-- acceptor side: first the retained intronic positions, then exonic positions only -/
theorem acceptorSplit_spec (n : Nat) (t : Transcript) (p : Nat) (hp : p < n) :
    (∀ q ∈ (acceptorSplit n t p).1, isExonic t q = false) ∧
    (∀ q ∈ (acceptorSplit n t p).2, isExonic t q = true) ∧
    (acceptorSplit n t p).1 ++ (acceptorSplit n t p).2 = acceptorPositions n t p := by
  refine ⟨fun q hq => ?_, fun q hq => ?_, List.takeWhile_append_dropWhile⟩
  · simpa using takeWhile_all_true q hq
  · simpa using dropWhile_all_false (acceptorPositions_pairwise n t p)
      (acceptor_exon_inherits hp) q hq

/-- non-vacuity (the annotation of the first examples: intronic left breakpoint on `+`, exonic
right breakpoint on `-`): `CCG` donor exons, `GT` retained donor intron, no acceptor intron -/
example : (let x := fusedParts exChrom ⟨.plus, [⟨2, 5⟩, ⟨8, 12⟩]⟩ 6 exChrom ⟨.minus, [⟨1, 4⟩, ⟨9, 13⟩]⟩ 10
    (x.donorExonic, x.donorIntron, x.accIntron, x.accExonic)) =
    ("CCG".toList, "GT".toList, [], "CGGGT".toList) := by decide
/-- intronic right breakpoint on `-` (position 6): the retained acceptor intron `ACC` comes first -/
example : (let x := fusedParts exChrom ⟨.plus, [⟨2, 5⟩, ⟨8, 12⟩]⟩ 3 exChrom ⟨.minus, [⟨1, 4⟩, ⟨9, 13⟩]⟩ 6
    (x.donorExonic, x.donorIntron, x.accIntron, x.accExonic)) =
    ("CC".toList, [], "ACC".toList, "GGT".toList) := by decide

/-- **callVariant clause, definitional layer.**  For every configuration, every backbone `t`
(coding or not, any ORF, any `orfLimit`) and every deny list: with no small records, `p` is in
the fusion set iff `p` is a peptide form (digestion product within the limits, with the
requested Met-removed / W→F forms) of a permitted reading frame of the backbone sequence
`t.seq` itself, is not a product of the unmodified donor (`deny`) and is not canonical. -/
theorem callvariant_clause (g : Spec.Cfg) (t : Spec.TxIn) (deny : List Pep) (p : Pep) :
    p ∈ Spec.callBackbone g t [] deny ↔
      p ∈ Spec.peptidesOf g t t.seq t.sec t.endNF ∧ p ∉ deny ∧ p ∉ g.canonical := by
  rw [Spec.callBackbone_nil]
  simp only [List.mem_filter, Bool.and_eq_true, Bool.not_eq_true', List.contains_eq_mem,
    decide_eq_false_iff_not]

/-- … instantiated with the fusion transcript of two breakpoints: every fusion peptide of the
definition is a peptide form of `fusedSeq donor lb acceptor rb` -/
theorem callvariant_clause_fused (g : Spec.Cfg) (t : Spec.TxIn) (deny : List Pep)
    (chromD : List Char) (tD : Transcript) (lb : Nat) (chromA : List Char) (tA : Transcript)
    (rb : Nat) (hseq : t.seq = (fusedParts chromD tD lb chromA tA rb).join) (p : Pep)
    (h : p ∈ Spec.callBackbone g t [] deny) :
    p ∈ Spec.peptidesOf g t (fusedSeq chromD tD lb chromA tA rb) t.sec t.endNF ∧
      p ∉ deny ∧ p ∉ g.canonical := by
  rw [← fusedParts_join, ← hseq]
  exact (callvariant_clause g t deny p).mp h

end MoPepGen.Props.C15
