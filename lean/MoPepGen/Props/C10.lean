import MoPepGen.Model.Digest
namespace MoPepGen.Props.C10
theorem placeholder : True := trivial
end MoPepGen.Props.C10
