import MoPepGen.Lemmas.Regex
import MoPepGen.Generated.Expasy
/-!
# C10 — canonical pool = exact in-silico digest of the proteome

Property theorems only.  `Re`, `cleaveSites`, `enzymaticCleave`, `peptidePool`
are the models of the Python (tied to /repo by the correspondence streams
`sites`, `ranges`, `cleave`, `pool`); `isSite` and the right-hand sides below
are the definitions the property text speaks about.
-/
namespace MoPepGen.Props.C10
open MoPepGen

/-! ## rule semantics -/

/-- `re.finditer` on a rule expression returns exactly the positions at which the
expression matches positionally, in ascending order (no match can hide another:
every alternative consumes one residue). -/
theorem finditer_eq_positions (r : Re) (s : Pep) :
    r.finditer s = (List.range s.length).filter (r.matchAt s) := by
  simp [Re.finditer, finditerFrom_eq, List.range_eq_range']

/-- The sites the code enumerates are exactly the positions that satisfy the ExPASy rule
(rule matches, exception does not), for every rule, exception and string. -/
theorem sites_eq_isSite (rule : Re) (exc : Option Re) (s : Pep) :
    cleaveSites rule exc s = (List.range (s.length + 1)).filter (isSite rule exc s) := by
  have hexc : ∀ j, (excEnds exc s).contains (j + 1) =
      (match exc with | none => false | some e => e.matchAt s j) := by
    intro j
    cases exc with
    | none => simp [excEnds]
    | some e =>
      simp only [excEnds, Re.ends, finditer_eq_positions]
      rw [Bool.eq_iff_iff]
      simp only [List.contains_iff_mem, List.mem_map, List.mem_filter, List.mem_range]
      constructor
      · rintro ⟨a, ⟨_, ha⟩, hj⟩
        have : a = j := by omega
        subst this; exact ha
      · intro h
        exact ⟨j, ⟨Re.matchAt_lt h, h⟩, rfl⟩
  simp only [cleaveSites, Re.ends, finditer_eq_positions, List.range_succ_eq_map,
    List.filter_cons, List.filter_map, List.filter_filter]
  have h0 : isSite rule exc s 0 = false := by simp [isSite]
  simp only [h0]
  congr 1
  apply List.filter_congr
  intro j _
  simp only [Function.comp, hexc, isSite, Nat.succ_eq_add_one, Nat.add_sub_cancel]
  simp only [Nat.zero_lt_succ, decide_true, Bool.true_and]
  exact Bool.and_comm _ _

/-- sites are reported in strictly ascending order, all within `1..|s|` -/
theorem sites_sorted (rule : Re) (exc : Option Re) (s : Pep) :
    (cleaveSites rule exc s).Pairwise (· < ·) := by
  rw [sites_eq_isSite]
  exact List.Pairwise.filter _ List.pairwise_lt_range

theorem sites_bounds (rule : Re) (exc : Option Re) (s : Pep) (i : Nat)
    (h : i ∈ cleaveSites rule exc s) : 1 ≤ i ∧ i ≤ s.length := by
  rw [sites_eq_isSite] at h
  simp only [List.mem_filter, List.mem_range] at h
  have : 0 < i := by
    have := h.2; simp [isSite] at this; exact this.1.1
  omega

/-! ## partition independence

A site verdict depends only on the residues within the rule's look-behind /
look-ahead distance: cutting the sequence anywhere outside that window (to the
left or to the right) does not change it. -/

def lbBound (r : Re) : Nat := (r.map (·.lb.length)).foldr max 0
def laBound (r : Re) : Nat := (r.map (·.la.length)).foldr max 0
def optBound (f : Re → Nat) : Option Re → Nat
  | none => 0
  | some e => f e

theorem le_lbBound {r : Re} {a : Alt} (h : a ∈ r) : a.lb.length ≤ lbBound r := by
  induction r with
  | nil => cases h
  | cons b r ih =>
    simp only [lbBound, List.map_cons, List.foldr_cons]
    rcases List.mem_cons.mp h with rfl | h
    · exact Nat.le_max_left _ _
    · exact Nat.le_trans (ih h) (Nat.le_max_right _ _)

theorem le_laBound {r : Re} {a : Alt} (h : a ∈ r) : a.la.length ≤ laBound r := by
  induction r with
  | nil => cases h
  | cons b r ih =>
    simp only [laBound, List.map_cons, List.foldr_cons]
    rcases List.mem_cons.mp h with rfl | h
    · exact Nat.le_max_left _ _
    · exact Nat.le_trans (ih h) (Nat.le_max_right _ _)

theorem any_congr' {α : Type} {l : List α} {p q : α → Bool} (h : ∀ a ∈ l, p a = q a) :
    l.any p = l.any q := by
  induction l with
  | nil => rfl
  | cons x xs ih =>
    simp only [List.any_cons]
    rw [h x (by simp), ih (fun a ha => h a (by simp [ha]))]

/-- Appending anything to the right, beyond the look-ahead, changes no match. -/
theorem matchAt_append_right (r : Re) (s suf : Pep) (i : Nat)
    (h : i + 1 + laBound r ≤ s.length) : r.matchAt (s ++ suf) i = r.matchAt s i := by
  simp only [Re.matchAt]
  apply any_congr'
  intro a ha
  by_cases hi : a.lb.length ≤ i
  · apply Alt.matchAt_congr a _ _ i i hi hi
    intro k hk
    have := le_laBound ha
    simp only [Alt.width] at hk
    apply List.getElem?_append_left
    omega
  · simp [Alt.matchAt, hi]

/-- Prepending anything to the left, beyond the look-behind, changes no match. -/
theorem matchAt_append_left (r : Re) (pre s : Pep) (i : Nat)
    (h : lbBound r ≤ i) : r.matchAt (pre ++ s) (pre.length + i) = r.matchAt s i := by
  simp only [Re.matchAt]
  apply any_congr'
  intro a ha
  have hl := le_lbBound ha
  apply Alt.matchAt_congr a _ _ _ i (by omega) (by omega)
  intro k _
  have e : pre.length + i - a.lb.length + k = pre.length + (i - a.lb.length + k) := by omega
  rw [e, List.getElem?_append_right (by omega)]
  congr 1; omega

/-- A cut to the right of position `i`, at least the look-ahead distance away,
does not change whether `i` is a cleavage site. -/
theorem isSite_cut_right (rule : Re) (exc : Option Re) (s suf : Pep) (i : Nat)
    (hr : i + laBound rule ≤ s.length) (he : i + optBound laBound exc ≤ s.length) :
    isSite rule exc (s ++ suf) i = isSite rule exc s i := by
  cases i with
  | zero => simp [isSite]
  | succ j =>
    simp only [isSite, Nat.add_sub_cancel]
    rw [matchAt_append_right rule s suf j (by omega)]
    cases exc with
    | none => rfl
    | some e =>
      simp only [optBound] at he
      simp only [matchAt_append_right e s suf j (by omega)]

/-- A cut to the left of position `i`, beyond the look-behind distance,
does not change whether `i` is a cleavage site. -/
theorem isSite_cut_left (rule : Re) (exc : Option Re) (pre s : Pep) (i : Nat)
    (hr : lbBound rule < i) (he : optBound lbBound exc < i) :
    isSite rule exc (pre ++ s) (pre.length + i) = isSite rule exc s i := by
  cases i with
  | zero => omega
  | succ j =>
    have e : pre.length + (j + 1) - 1 = pre.length + j := by omega
    simp only [isSite, Nat.add_sub_cancel, e]
    rw [matchAt_append_left rule pre s j (by omega)]
    have hpos : decide (0 < pre.length + (j + 1)) = true := by
      have : 0 < pre.length + (j + 1) := by omega
      simp [this]
    have hpos' : decide (0 < j + 1) = true := by simp
    rw [hpos, hpos']
    cases exc with
    | none => rfl
    | some x =>
      simp only [optBound] at he
      simp only [matchAt_append_left x pre s j (by omega)]

/-! ## digest -/

/-- What the two nested loops visit: all pairs of boundaries `st < en` with at most
`misc` boundaries between them, and for the first boundary the Met-removed twin. -/
theorem mem_cleaveCandidates (s : Pep) (bs : List Nat) (misc : Nat) (nf : Bool) (p : Pep) :
    p ∈ cleaveCandidates s bs misc nf ↔
      ∃ st en, st < en ∧ en < bs.length ∧ en - st - 1 ≤ misc ∧
        (p = slice s (bs.getD st 0) (bs.getD en 0) ∨
          (st = 0 ∧ nf = false ∧ (slice s (bs.getD st 0) (bs.getD en 0)).head? = some 'M' ∧
            p = (slice s (bs.getD st 0) (bs.getD en 0)).drop 1)) := by
  simp only [cleaveCandidates, List.mem_flatMap, List.mem_range, List.mem_append,
    List.mem_singleton]
  constructor
  · rintro ⟨st, hst, k, hk, hp⟩
    refine ⟨st, st + 1 + k, by omega, by omega, by omega, ?_⟩
    rcases hp with hp | hp
    · right
      split at hp
      · rename_i hc
        simp only [Bool.and_eq_true, beq_iff_eq, Bool.not_eq_true'] at hc
        simp only [List.mem_singleton] at hp
        exact ⟨hc.1.1, hc.1.2, hc.2, hp⟩
      · cases hp
    · left; exact hp
  · rintro ⟨st, en, h1, h2, h3, hp⟩
    refine ⟨st, by omega, en - (st + 1), by omega, ?_⟩
    have e : st + 1 + (en - (st + 1)) = en := by omega
    rw [e]
    rcases hp with hp | ⟨h0, hnf, hM, hp⟩
    · right; exact hp
    · left
      subst h0 hnf
      simp only [hM, hp, beq_self_eq_true, Bool.not_false, Bool.and_self, if_true,
        List.mem_singleton]

theorem filterKeep_none (c : CleaveCfg) (l : List Pep) :
    filterKeep c l = none ↔ ∃ p ∈ l, c.keep p = none := by
  induction l with
  | nil => simp [filterKeep]
  | cons q l ih =>
    simp only [filterKeep, List.mem_cons, exists_eq_or_imp]
    cases hq : c.keep q with
    | none => simp
    | some b =>
      cases hl : filterKeep c l with
      | none => cases b <;> simp [← ih, hl]
      | some r => cases b <;> simp [← ih, hl]

theorem filterKeep_some (c : CleaveCfg) (l r : List Pep) (h : filterKeep c l = some r) (p : Pep) :
    p ∈ r ↔ p ∈ l ∧ c.keep p = some true := by
  induction l generalizing r with
  | nil => simp [filterKeep] at h; subst h; simp
  | cons q l ih =>
    simp only [filterKeep] at h
    cases hq : c.keep q with
    | none => simp [hq] at h
    | some b =>
      cases hl : filterKeep c l with
      | none => cases b <;> simp [hq, hl] at h
      | some r' =>
        have := ih r' hl
        cases b
        · simp [hq, hl] at h; subst h
          simp only [this, List.mem_cons]
          constructor
          · rintro ⟨h1, h2⟩; exact ⟨Or.inr h1, h2⟩
          · rintro ⟨h1 | h1, h2⟩
            · subst h1; simp [hq] at h2
            · exact ⟨h1, h2⟩
        · simp [hq, hl] at h; subst h
          simp only [List.mem_cons, this]
          constructor
          · rintro (h1 | ⟨h1, h2⟩)
            · subst h1; exact ⟨Or.inl rfl, hq⟩
            · exact ⟨Or.inr h1, h2⟩
          · rintro ⟨h1 | h1, h2⟩
            · exact Or.inl h1
            · exact Or.inr ⟨h1, h2⟩

/-- S: the boundaries of a digest: `0`, every ExPASy site (ascending), and `|s|`. -/
def digestBounds (c : CleaveCfg) (s : Pep) : List Nat :=
  0 :: ((List.range (s.length + 1)).filter (isSite c.rule c.exc s) ++ [s.length])

/-- S: `p` is a digestion product of `s`: a stretch between two boundaries with at most
`misc` boundaries between them (or that stretch without its leading Met when it starts the
protein and the CDS start is known), containing no `X`, within the length window and
heavier than `minMw`. -/
def DigestProduct (c : CleaveCfg) (s : Pep) (nf : Bool) (p : Pep) : Prop :=
  ∃ st en, st < en ∧ en < (digestBounds c s).length ∧ en - st - 1 ≤ c.misc ∧
    (p = slice s ((digestBounds c s).getD st 0) ((digestBounds c s).getD en 0) ∨
      (st = 0 ∧ nf = false ∧
        (slice s ((digestBounds c s).getD st 0) ((digestBounds c s).getD en 0)).head? = some 'M' ∧
        p = (slice s ((digestBounds c s).getD st 0) ((digestBounds c s).getD en 0)).drop 1)) ∧
    c.keep p = some true

/-- `enzymatic_cleave` returns exactly the digestion products (when it returns). -/
theorem cleave_spec (c : CleaveCfg) (s : Pep) (nf : Bool) (r : List Pep)
    (h : enzymaticCleave c s nf = some r) (p : Pep) :
    p ∈ r ↔ DigestProduct c s nf p := by
  unfold enzymaticCleave at h
  rw [filterKeep_some c _ r h p, mem_cleaveCandidates]
  simp only [DigestProduct, digestBounds, bounds, sites_eq_isSite]
  constructor
  · rintro ⟨⟨st, en, h1, h2, h3, h4⟩, hk⟩
    exact ⟨st, en, h1, h2, h3, h4, hk⟩
  · rintro ⟨st, en, h1, h2, h3, h4, hk⟩
    exact ⟨⟨st, en, h1, h2, h3, h4⟩, hk⟩

/-- `enzymatic_cleave` raises exactly when some candidate without `X` carries a letter
that has no mass. -/
theorem cleave_raises_iff (c : CleaveCfg) (s : Pep) (nf : Bool) :
    enzymaticCleave c s nf = none ↔
      ∃ p ∈ cleaveCandidates s (bounds (cleaveSites c.rule c.exc s) s.length) c.misc nf,
        c.keep p = none := by
  unfold enzymaticCleave
  exact filterKeep_none c _

/-! ## pool -/

/-- The canonical pool is exactly: for some proteome entry — leading `X` stripped,
cut at the first stop — a digestion product of it (Met-removed form unless
`cds_start_NF`) or the I→L image of one. -/
theorem pool_spec (c : CleaveCfg) (prots : List (Pep × Bool)) (pool : List Pep)
    (h : peptidePool c prots = some pool) (q : Pep) :
    q ∈ pool ↔ ∃ e ∈ prots, ∃ p, DigestProduct c (prepProtein e.1) e.2 p ∧ (q = p ∨ q = iToL p) := by
  induction prots generalizing pool with
  | nil => simp [peptidePool] at h; subst h; simp
  | cons e rest ih =>
    obtain ⟨s, nf⟩ := e
    simp only [peptidePool] at h
    cases h1 : enzymaticCleave c (prepProtein s) nf with
    | none => simp [h1] at h
    | some ps =>
      cases h2 : peptidePool c rest with
      | none => simp [h1, h2] at h
      | some r =>
        simp [h1, h2] at h
        subst h
        have ih' := ih r h2
        simp only [List.mem_append, List.mem_flatMap, List.mem_cons, List.not_mem_nil,
          or_false, ih', exists_eq_or_imp]
        constructor
        · rintro (⟨p, hp, hq⟩ | hr)
          · left
            exact ⟨p, (cleave_spec c _ nf ps h1 p).mp hp, hq⟩
          · right; exact hr
        · rintro (⟨p, hp, hq⟩ | hr)
          · left
            exact ⟨p, (cleave_spec c _ nf ps h1 p).mpr hp, hq⟩
          · right; exact hr

/-- every pool member's I→L image is in the pool -/
theorem pool_closed_iToL (c : CleaveCfg) (prots : List (Pep × Bool)) (pool : List Pep)
    (h : peptidePool c prots = some pool) (q : Pep) (hq : q ∈ pool) : iToL q ∈ pool := by
  rw [pool_spec c prots pool h] at hq ⊢
  obtain ⟨e, he, p, hp, hq⟩ := hq
  refine ⟨e, he, p, hp, Or.inr ?_⟩
  rcases hq with rfl | rfl
  · rfl
  · simp [iToL, List.map_map]
    intro a _ ; split <;> simp_all

/-! ## tables -/

/-- The range patterns are the site patterns with look-arounds flattened
(checked against the regenerated tables). -/
theorem rules2_is_flatten :
    Generated.expasyRules.map (fun e => (e.1, e.2.map Alt.flat)) = Generated.expasyRules2 := by
  decide

/-! ## non-vacuity -/

example : (Generated.expasyRules.lookup "trypsin").isSome = true := by decide

end MoPepGen.Props.C10
