import MoPepGen.Lemmas.Regex
import MoPepGen.Lemmas.Pairing
import MoPepGen.Lemmas.DigestPos
import MoPepGen.Lemmas.WingsLocal
import MoPepGen.Generated.Expasy
/-!
# C10 — canonical pool = exact in-silico digest of the proteome

Property theorems only.  `Re`, `cleaveSites`, `cleaveSitesWithRange`, `enzymaticCleave`,
`peptidePool` are the models of the Python (tied to /repo by the correspondence streams
`sites`, `ranges`, `cleave`, `pool`); `isSite`, `PosProduct`, `rangeSpec` and the right-hand
sides below are the definitions the property text speaks about (their executable forms run
against the real code in the streams `issite`, `pcleave`, `pranges`, `wings`).
-/
namespace MoPepGen.Props.C10
open MoPepGen

/-! ## rule semantics -/

/-- `re.finditer` on a rule expression returns exactly the positions at which the
expression matches positionally, in ascending order (no match can hide another:
every alternative consumes one residue). -/
theorem finditer_eq_positions (r : Re) (s : Pep) :
    r.finditer s = (List.range s.length).filter (r.matchAt s) := by
  simp [Re.finditer, finditerFrom_eq, List.range_eq_range']

/-- The sites the code enumerates are exactly the positions that satisfy the ExPASy rule
(rule matches, exception does not), for every rule, exception and string. -/
theorem sites_eq_isSite (rule : Re) (exc : Option Re) (s : Pep) :
    cleaveSites rule exc s = (List.range (s.length + 1)).filter (isSite rule exc s) := by
  have hexc : ∀ j, (excEnds exc s).contains (j + 1) =
      (match exc with | none => false | some e => e.matchAt s j) := by
    intro j
    cases exc with
    | none => simp [excEnds]
    | some e =>
      simp only [excEnds, Re.ends, finditer_eq_positions]
      rw [Bool.eq_iff_iff]
      simp only [List.contains_iff_mem, List.mem_map, List.mem_filter, List.mem_range]
      constructor
      · rintro ⟨a, ⟨_, ha⟩, hj⟩
        have : a = j := by omega
        subst this; exact ha
      · intro h
        exact ⟨j, ⟨Re.matchAt_lt h, h⟩, rfl⟩
  simp only [cleaveSites, Re.ends, finditer_eq_positions, List.range_succ_eq_map,
    List.filter_cons, List.filter_map, List.filter_filter]
  have h0 : isSite rule exc s 0 = false := by simp [isSite]
  simp only [h0]
  congr 1
  apply List.filter_congr
  intro j _
  simp only [Function.comp, hexc, isSite, Nat.succ_eq_add_one, Nat.add_sub_cancel]
  simp only [Nat.zero_lt_succ, decide_true, Bool.true_and]
  exact Bool.and_comm _ _

/-- sites are reported in strictly ascending order, all within `1..|s|` -/
theorem sites_sorted (rule : Re) (exc : Option Re) (s : Pep) :
    (cleaveSites rule exc s).Pairwise (· < ·) := by
  rw [sites_eq_isSite]
  exact List.Pairwise.filter _ List.pairwise_lt_range

theorem sites_bounds (rule : Re) (exc : Option Re) (s : Pep) (i : Nat)
    (h : i ∈ cleaveSites rule exc s) : 1 ≤ i ∧ i ≤ s.length := by
  rw [sites_eq_isSite] at h
  simp only [List.mem_filter, List.mem_range] at h
  have : 0 < i := by
    have := h.2; simp [isSite] at this; exact this.1.1
  omega

/-! ## partition independence

A site verdict depends only on the residues within the rule's look-behind /
look-ahead distance: cutting the sequence anywhere outside that window (to the
left or to the right) does not change it. -/

def lbBound (r : Re) : Nat := (r.map (·.lb.length)).foldr max 0
def laBound (r : Re) : Nat := (r.map (·.la.length)).foldr max 0
def optBound (f : Re → Nat) : Option Re → Nat
  | none => 0
  | some e => f e

theorem le_lbBound {r : Re} {a : Alt} (h : a ∈ r) : a.lb.length ≤ lbBound r := by
  induction r with
  | nil => cases h
  | cons b r ih =>
    simp only [lbBound, List.map_cons, List.foldr_cons]
    rcases List.mem_cons.mp h with rfl | h
    · exact Nat.le_max_left _ _
    · exact Nat.le_trans (ih h) (Nat.le_max_right _ _)

theorem le_laBound {r : Re} {a : Alt} (h : a ∈ r) : a.la.length ≤ laBound r := by
  induction r with
  | nil => cases h
  | cons b r ih =>
    simp only [laBound, List.map_cons, List.foldr_cons]
    rcases List.mem_cons.mp h with rfl | h
    · exact Nat.le_max_left _ _
    · exact Nat.le_trans (ih h) (Nat.le_max_right _ _)

theorem any_congr' {α : Type} {l : List α} {p q : α → Bool} (h : ∀ a ∈ l, p a = q a) :
    l.any p = l.any q := by
  induction l with
  | nil => rfl
  | cons x xs ih =>
    simp only [List.any_cons]
    rw [h x (by simp), ih (fun a ha => h a (by simp [ha]))]

/-- Appending anything to the right, beyond the look-ahead, changes no match. -/
theorem matchAt_append_right (r : Re) (s suf : Pep) (i : Nat)
    (h : i + 1 + laBound r ≤ s.length) : r.matchAt (s ++ suf) i = r.matchAt s i := by
  simp only [Re.matchAt]
  apply any_congr'
  intro a ha
  by_cases hi : a.lb.length ≤ i
  · apply Alt.matchAt_congr a _ _ i i hi hi
    intro k hk
    have := le_laBound ha
    simp only [Alt.width] at hk
    apply List.getElem?_append_left
    omega
  · simp [Alt.matchAt, hi]

/-- Prepending anything to the left, beyond the look-behind, changes no match. -/
theorem matchAt_append_left (r : Re) (pre s : Pep) (i : Nat)
    (h : lbBound r ≤ i) : r.matchAt (pre ++ s) (pre.length + i) = r.matchAt s i := by
  simp only [Re.matchAt]
  apply any_congr'
  intro a ha
  have hl := le_lbBound ha
  apply Alt.matchAt_congr a _ _ _ i (by omega) (by omega)
  intro k _
  have e : pre.length + i - a.lb.length + k = pre.length + (i - a.lb.length + k) := by omega
  rw [e, List.getElem?_append_right (by omega)]
  congr 1; omega

/-- A cut to the right of position `i`, at least the look-ahead distance away,
does not change whether `i` is a cleavage site. -/
theorem isSite_cut_right (rule : Re) (exc : Option Re) (s suf : Pep) (i : Nat)
    (hr : i + laBound rule ≤ s.length) (he : i + optBound laBound exc ≤ s.length) :
    isSite rule exc (s ++ suf) i = isSite rule exc s i := by
  cases i with
  | zero => simp [isSite]
  | succ j =>
    simp only [isSite, Nat.add_sub_cancel]
    rw [matchAt_append_right rule s suf j (by omega)]
    cases exc with
    | none => rfl
    | some e =>
      simp only [optBound] at he
      simp only [matchAt_append_right e s suf j (by omega)]

/-- A cut to the left of position `i`, beyond the look-behind distance,
does not change whether `i` is a cleavage site. -/
theorem isSite_cut_left (rule : Re) (exc : Option Re) (pre s : Pep) (i : Nat)
    (hr : lbBound rule < i) (he : optBound lbBound exc < i) :
    isSite rule exc (pre ++ s) (pre.length + i) = isSite rule exc s i := by
  cases i with
  | zero => omega
  | succ j =>
    have e : pre.length + (j + 1) - 1 = pre.length + j := by omega
    simp only [isSite, Nat.add_sub_cancel, e]
    rw [matchAt_append_left rule pre s j (by omega)]
    have hpos : decide (0 < pre.length + (j + 1)) = true := by
      have : 0 < pre.length + (j + 1) := by omega
      simp [this]
    have hpos' : decide (0 < j + 1) = true := by simp
    rw [hpos, hpos']
    cases exc with
    | none => rfl
    | some x =>
      simp only [optBound] at he
      simp only [matchAt_append_left x pre s j (by omega)]

/-! ## digest -/

/-- What the two nested loops visit: all pairs of boundaries `st < en` with at most
`misc` boundaries between them, and for the first boundary the Met-removed twin. -/
theorem mem_cleaveCandidates (s : Pep) (bs : List Nat) (misc : Nat) (nf : Bool) (p : Pep) :
    p ∈ cleaveCandidates s bs misc nf ↔
      ∃ st en, st < en ∧ en < bs.length ∧ en - st - 1 ≤ misc ∧
        (p = slice s (bs.getD st 0) (bs.getD en 0) ∨
          (st = 0 ∧ nf = false ∧ (slice s (bs.getD st 0) (bs.getD en 0)).head? = some 'M' ∧
            p = (slice s (bs.getD st 0) (bs.getD en 0)).drop 1)) := by
  simp only [cleaveCandidates, List.mem_flatMap, List.mem_range, List.mem_append,
    List.mem_singleton]
  constructor
  · rintro ⟨st, hst, k, hk, hp⟩
    refine ⟨st, st + 1 + k, by omega, by omega, by omega, ?_⟩
    rcases hp with hp | hp
    · right
      split at hp
      · rename_i hc
        simp only [Bool.and_eq_true, beq_iff_eq, Bool.not_eq_true'] at hc
        simp only [List.mem_singleton] at hp
        exact ⟨hc.1.1, hc.1.2, hc.2, hp⟩
      · cases hp
    · left; exact hp
  · rintro ⟨st, en, h1, h2, h3, hp⟩
    refine ⟨st, by omega, en - (st + 1), by omega, ?_⟩
    have e : st + 1 + (en - (st + 1)) = en := by omega
    rw [e]
    rcases hp with hp | ⟨h0, hnf, hM, hp⟩
    · right; exact hp
    · left
      subst h0 hnf
      simp only [hM, hp, beq_self_eq_true, Bool.not_false, Bool.and_self, if_true,
        List.mem_singleton]

theorem filterKeep_none (c : CleaveCfg) (l : List Pep) :
    filterKeep c l = none ↔ ∃ p ∈ l, c.keep p = none := by
  induction l with
  | nil => simp [filterKeep]
  | cons q l ih =>
    simp only [filterKeep, List.mem_cons, exists_eq_or_imp]
    cases hq : c.keep q with
    | none => simp
    | some b =>
      cases hl : filterKeep c l with
      | none => cases b <;> simp [← ih, hl]
      | some r => cases b <;> simp [← ih, hl]

theorem filterKeep_some (c : CleaveCfg) (l r : List Pep) (h : filterKeep c l = some r) (p : Pep) :
    p ∈ r ↔ p ∈ l ∧ c.keep p = some true := by
  induction l generalizing r with
  | nil => simp [filterKeep] at h; subst h; simp
  | cons q l ih =>
    simp only [filterKeep] at h
    cases hq : c.keep q with
    | none => simp [hq] at h
    | some b =>
      cases hl : filterKeep c l with
      | none => cases b <;> simp [hq, hl] at h
      | some r' =>
        have := ih r' hl
        cases b
        · simp [hq, hl] at h; subst h
          simp only [this, List.mem_cons]
          constructor
          · rintro ⟨h1, h2⟩; exact ⟨Or.inr h1, h2⟩
          · rintro ⟨h1 | h1, h2⟩
            · subst h1; simp [hq] at h2
            · exact ⟨h1, h2⟩
        · simp [hq, hl] at h; subst h
          simp only [List.mem_cons, this]
          constructor
          · rintro (h1 | ⟨h1, h2⟩)
            · subst h1; exact ⟨Or.inl rfl, hq⟩
            · exact ⟨Or.inr h1, h2⟩
          · rintro ⟨h1 | h1, h2⟩
            · exact Or.inl h1
            · exact Or.inr ⟨h1, h2⟩

/-- S: the boundaries of a digest: `0`, every ExPASy site (ascending), and `|s|`. -/
def digestBounds (c : CleaveCfg) (s : Pep) : List Nat :=
  0 :: ((List.range (s.length + 1)).filter (isSite c.rule c.exc s) ++ [s.length])

/-- S: `p` is a digestion product of `s`: a stretch between two boundaries with at most
`misc` boundaries between them (or that stretch without its leading Met when it starts the
protein and the CDS start is known), containing no `X`, within the length window and
heavier than `minMw`. -/
def DigestProduct (c : CleaveCfg) (s : Pep) (nf : Bool) (p : Pep) : Prop :=
  ∃ st en, st < en ∧ en < (digestBounds c s).length ∧ en - st - 1 ≤ c.misc ∧
    (p = slice s ((digestBounds c s).getD st 0) ((digestBounds c s).getD en 0) ∨
      (st = 0 ∧ nf = false ∧
        (slice s ((digestBounds c s).getD st 0) ((digestBounds c s).getD en 0)).head? = some 'M' ∧
        p = (slice s ((digestBounds c s).getD st 0) ((digestBounds c s).getD en 0)).drop 1)) ∧
    c.keep p = some true

/-- `enzymatic_cleave` returns exactly the digestion products (when it returns). -/
theorem cleave_spec (c : CleaveCfg) (s : Pep) (nf : Bool) (r : List Pep)
    (h : enzymaticCleave c s nf = some r) (p : Pep) :
    p ∈ r ↔ DigestProduct c s nf p := by
  unfold enzymaticCleave at h
  rw [filterKeep_some c _ r h p, mem_cleaveCandidates]
  simp only [DigestProduct, digestBounds, bounds, sites_eq_isSite]
  constructor
  · rintro ⟨⟨st, en, h1, h2, h3, h4⟩, hk⟩
    exact ⟨st, en, h1, h2, h3, h4, hk⟩
  · rintro ⟨st, en, h1, h2, h3, h4, hk⟩
    exact ⟨⟨st, en, h1, h2, h3, h4⟩, hk⟩

/-- `enzymatic_cleave` raises exactly when some candidate without `X` carries a letter
that has no mass. -/
theorem cleave_raises_iff (c : CleaveCfg) (s : Pep) (nf : Bool) :
    enzymaticCleave c s nf = none ↔
      ∃ p ∈ cleaveCandidates s (bounds (cleaveSites c.rule c.exc s) s.length) c.misc nf,
        c.keep p = none := by
  unfold enzymaticCleave
  exact filterKeep_none c _

/-! ## pool -/

/-- The canonical pool is exactly: for some proteome entry — leading `X` stripped,
cut at the first stop — a digestion product of it (Met-removed form unless
`cds_start_NF`) or the I→L image of one. -/
theorem pool_spec (c : CleaveCfg) (prots : List (Pep × Bool)) (pool : List Pep)
    (h : peptidePool c prots = some pool) (q : Pep) :
    q ∈ pool ↔ ∃ e ∈ prots, ∃ p, DigestProduct c (prepProtein e.1) e.2 p ∧ (q = p ∨ q = iToL p) := by
  induction prots generalizing pool with
  | nil => simp [peptidePool] at h; subst h; simp
  | cons e rest ih =>
    obtain ⟨s, nf⟩ := e
    simp only [peptidePool] at h
    cases h1 : enzymaticCleave c (prepProtein s) nf with
    | none => simp [h1] at h
    | some ps =>
      cases h2 : peptidePool c rest with
      | none => simp [h1, h2] at h
      | some r =>
        simp [h1, h2] at h
        subst h
        have ih' := ih r h2
        simp only [List.mem_append, List.mem_flatMap, List.mem_cons, List.not_mem_nil,
          or_false, ih', exists_eq_or_imp]
        constructor
        · rintro (⟨p, hp, hq⟩ | hr)
          · left
            exact ⟨p, (cleave_spec c _ nf ps h1 p).mp hp, hq⟩
          · right; exact hr
        · rintro (⟨p, hp, hq⟩ | hr)
          · left
            exact ⟨p, (cleave_spec c _ nf ps h1 p).mpr hp, hq⟩
          · right; exact hr

/-- every pool member's I→L image is in the pool -/
theorem pool_closed_iToL (c : CleaveCfg) (prots : List (Pep × Bool)) (pool : List Pep)
    (h : peptidePool c prots = some pool) (q : Pep) (hq : q ∈ pool) : iToL q ∈ pool := by
  rw [pool_spec c prots pool h] at hq ⊢
  obtain ⟨e, he, p, hp, hq⟩ := hq
  refine ⟨e, he, p, hp, Or.inr ?_⟩
  rcases hq with rfl | rfl
  · rfl
  · simp [iToL, List.map_map]
    intro a _ ; split <;> simp_all

/-! ## digest, positional form

The same statement with POSITIONS only: the right-hand side mentions positions of `s`,
the positional site predicate `isSite` (= the ExPASy rule, `sites_eq_isSite`), `slice`
and the length / mass filter `keep` — no boundary list, no index into one, none of the
model's scanning helpers. -/

/-- S: `p` is cut out of `s` by two boundary positions `a`, `b` (N-terminus, cleavage
site, C-terminus) with at most `misc` cleavage sites strictly between them — or is that
stretch without its leading Met when it starts at the N-terminus and the CDS start is
known.  The only pair with `a = b` is the one the code visits: the C-terminus twice, when
the protein is empty or its last residue is followed by a cleavage site (the code appends
`len(seq)` to a list that already holds it). -/
def PosCandidate (c : CleaveCfg) (s : Pep) (nf : Bool) (p : Pep) : Prop :=
  ∃ a b,
    (a = 0 ∨ isSite c.rule c.exc s a = true ∨ a = s.length) ∧
    (b = 0 ∨ isSite c.rule c.exc s b = true ∨ b = s.length) ∧
    (a < b ∨ (a = s.length ∧ b = s.length ∧
      (s.length = 0 ∨ isSite c.rule c.exc s s.length = true))) ∧
    ((List.range b).filter fun i => decide (a < i) && isSite c.rule c.exc s i).length ≤ c.misc ∧
    (p = slice s a b ∨
      (a = 0 ∧ nf = false ∧ (slice s a b).head? = some 'M' ∧ p = (slice s a b).drop 1))

/-- S: a digestion product = a candidate without `X`, within the length window, heavier
than `minMw`. -/
def PosProduct (c : CleaveCfg) (s : Pep) (nf : Bool) (p : Pep) : Prop :=
  PosCandidate c s nf p ∧ c.keep p = some true

/-- index pairs of the boundary list ↔ pairs of boundary positions -/
theorem idxForm_iff_pos (c : CleaveCfg) (s : Pep) (nf : Bool) (p : Pep) :
    (∃ st en, st < en ∧ en < (digestBounds c s).length ∧ en - st - 1 ≤ c.misc ∧
      (p = slice s ((digestBounds c s).getD st 0) ((digestBounds c s).getD en 0) ∨
        (st = 0 ∧ nf = false ∧
          (slice s ((digestBounds c s).getD st 0) ((digestBounds c s).getD en 0)).head? = some 'M' ∧
          p = (slice s ((digestBounds c s).getD st 0) ((digestBounds c s).getD en 0)).drop 1)))
    ↔ PosCandidate c s nf p := by
  have hbs : digestBounds c s = Rank.bs (isSite c.rule c.exc s) s.length := rfl
  have h0 : isSite c.rule c.exc s 0 = false := by simp [isSite]
  have hn : ∀ i, isSite c.rule c.exc s i = true → i ≤ s.length := fun i h => (isSite_bounds h).2
  rw [hbs]
  constructor
  · rintro ⟨st, en, h1, h2, h3, hp⟩
    obtain ⟨ba, bb, hab, hcnt, hst⟩ := Rank.idx_to_pos (isSite c.rule c.exc s) s.length h0 hn h1 h2
    refine ⟨_, _, ba, bb, hab, ?_, ?_⟩
    · exact Nat.le_trans hcnt h3
    · rcases hp with hp | ⟨hs, hp⟩
      · exact Or.inl hp
      · exact Or.inr ⟨hst.mp hs, hp⟩
  · rintro ⟨a, b, ba, bb, hab, hcnt, hp⟩
    obtain ⟨st, en, h1, h2, ea, eb, hle, hst⟩ :=
      Rank.pos_to_idx (isSite c.rule c.exc s) s.length h0 hn ba bb hab
    refine ⟨st, en, h1, h2, Nat.le_trans hle hcnt, ?_⟩
    rw [ea, eb]
    rcases hp with hp | ⟨hs, hp⟩
    · exact Or.inl hp
    · exact Or.inr ⟨hst.mpr hs, hp⟩

/-- the list-index statement and the positional statement describe the same products -/
theorem digestProduct_iff_pos (c : CleaveCfg) (s : Pep) (nf : Bool) (p : Pep) :
    DigestProduct c s nf p ↔ PosProduct c s nf p := by
  rw [PosProduct, ← idxForm_iff_pos]
  constructor
  · rintro ⟨st, en, h1, h2, h3, h4, hk⟩
    exact ⟨⟨st, en, h1, h2, h3, h4⟩, hk⟩
  · rintro ⟨⟨st, en, h1, h2, h3, h4⟩, hk⟩
    exact ⟨st, en, h1, h2, h3, h4, hk⟩

/-- the candidates the two loops of `enzymatic_cleave` visit are exactly the positional
candidates -/
theorem candidates_iff_pos (c : CleaveCfg) (s : Pep) (nf : Bool) (p : Pep) :
    p ∈ cleaveCandidates s (bounds (cleaveSites c.rule c.exc s) s.length) c.misc nf ↔
      PosCandidate c s nf p := by
  rw [mem_cleaveCandidates, ← idxForm_iff_pos]
  simp only [digestBounds, bounds, sites_eq_isSite]

/-- **positional `cleave_spec`.** For every protein, rule, exception, miscleavage count
and limits: `enzymatic_cleave` returns (as a set; the list may repeat a peptide, as the
code's does) exactly the slices `s[a:b)` between boundary positions with at most `misc`
sites strictly between them that pass the filters, plus the Met-removed twins. -/
theorem cleave_spec_positional (c : CleaveCfg) (s : Pep) (nf : Bool) (r : List Pep)
    (h : enzymaticCleave c s nf = some r) (p : Pep) :
    p ∈ r ↔ PosProduct c s nf p :=
  (cleave_spec c s nf r h p).trans (digestProduct_iff_pos c s nf p)

/-- With `min_length ≥ 1` (every CLI default) the duplicated end plays no role:
products are the non-empty stretches `a < b`. -/
theorem cleave_spec_positional_nonempty (c : CleaveCfg) (hl : 1 ≤ c.minLen) (s : Pep) (nf : Bool)
    (r : List Pep) (h : enzymaticCleave c s nf = some r) (p : Pep) :
    p ∈ r ↔ ∃ a b, a < b ∧
      (a = 0 ∨ isSite c.rule c.exc s a = true) ∧
      (isSite c.rule c.exc s b = true ∨ b = s.length) ∧
      ((List.range b).filter fun i => decide (a < i) && isSite c.rule c.exc s i).length ≤ c.misc ∧
      (p = slice s a b ∨
        (a = 0 ∧ nf = false ∧ (slice s a b).head? = some 'M' ∧ p = (slice s a b).drop 1)) ∧
      c.keep p = some true := by
  rw [cleave_spec_positional c s nf r h p]
  constructor
  · rintro ⟨⟨a, b, ba, bb, hab, hcnt, hp⟩, hk⟩
    rcases hab with hab | ⟨ea, eb, _⟩
    · have hbn : b ≤ s.length := by
        rcases bb with h | h | h
        · omega
        · exact (isSite_bounds h).2
        · omega
      refine ⟨a, b, hab, ?_, ?_, hcnt, hp, hk⟩
      · rcases ba with h | h | h
        · exact Or.inl h
        · exact Or.inr h
        · omega
      · rcases bb with h | h | h
        · omega
        · exact Or.inl h
        · exact Or.inr h
    · exfalso
      have hlen := (keep_length hk).1
      have hs : slice s a b = [] := by
        subst ea; subst eb; simp [slice]
      rw [hs] at hp
      rcases hp with hp | ⟨_, _, _, hp⟩ <;> (subst hp; simp at hlen; omega)
  · rintro ⟨a, b, hab, ba, bb, hcnt, hp, hk⟩
    refine ⟨⟨a, b, ?_, ?_, Or.inl hab, hcnt, hp⟩, hk⟩
    · rcases ba with h | h
      · exact Or.inl h
      · exact Or.inr (Or.inl h)
    · rcases bb with h | h
      · exact Or.inr (Or.inl h)
      · exact Or.inr (Or.inr h)

/-! ### the executable positional digest (`posDigest`, stream `pcleave`) -/

theorem mem_posCandidates (c : CleaveCfg) (s : Pep) (nf : Bool) (p : Pep) :
    p ∈ posCandidates c s nf ↔ PosCandidate c s nf p := by
  simp only [posCandidates, List.mem_flatMap, List.mem_range, PosCandidate]
  constructor
  · rintro ⟨a, _, b, _, hp⟩
    split at hp
    · rename_i hpair
      simp only [posPair, isBoundary, endTwice, sitesBetween, Bool.and_eq_true, Bool.or_eq_true,
        beq_iff_eq, decide_eq_true_eq] at hpair
      obtain ⟨⟨⟨ba, bb⟩, hab⟩, hcnt⟩ := hpair
      refine ⟨a, b, ?_, ?_, ?_, of_decide_eq_true hcnt, ?_⟩
      · rcases ba with (h | h) | h
        · exact Or.inl h
        · exact Or.inr (Or.inl h)
        · exact Or.inr (Or.inr h)
      · rcases bb with (h | h) | h
        · exact Or.inl h
        · exact Or.inr (Or.inl h)
        · exact Or.inr (Or.inr h)
      · rcases hab with h | ⟨⟨h1, h2⟩, h3⟩
        · exact Or.inl h
        · exact Or.inr ⟨h1, h2, h3⟩
      · simp only [List.mem_append, List.mem_singleton] at hp
        rcases hp with hp | hp
        · right
          split at hp
          · rename_i hc
            simp only [Bool.and_eq_true, beq_iff_eq, Bool.not_eq_true'] at hc
            simp only [List.mem_singleton] at hp
            exact ⟨hc.1.1, hc.1.2, hc.2, hp⟩
          · cases hp
        · left; exact hp
    · cases hp
  · rintro ⟨a, b, ba, bb, hab, hcnt, hp⟩
    have han : a ≤ s.length := by
      rcases ba with h | h | h
      · omega
      · exact (isSite_bounds h).2
      · omega
    have hbn : b ≤ s.length := by
      rcases bb with h | h | h
      · omega
      · exact (isSite_bounds h).2
      · omega
    refine ⟨a, by omega, b, by omega, ?_⟩
    have hpair : posPair c s a b = true := by
      simp only [posPair, isBoundary, endTwice, sitesBetween, Bool.and_eq_true, Bool.or_eq_true,
        beq_iff_eq, decide_eq_true_eq]
      refine ⟨⟨⟨?_, ?_⟩, ?_⟩, decide_eq_true hcnt⟩
      · rcases ba with h | h | h
        · exact Or.inl (Or.inl h)
        · exact Or.inl (Or.inr h)
        · exact Or.inr h
      · rcases bb with h | h | h
        · exact Or.inl (Or.inl h)
        · exact Or.inl (Or.inr h)
        · exact Or.inr h
      · rcases hab with h | ⟨h1, h2, h3⟩
        · exact Or.inl h
        · exact Or.inr ⟨⟨h1, h2⟩, h3⟩
    rw [if_pos hpair]
    simp only [List.mem_append, List.mem_singleton]
    rcases hp with hp | ⟨h0, hnf, hM, hp⟩
    · right; exact hp
    · left
      subst h0 hnf
      simp only [hM, hp, beq_self_eq_true, Bool.not_false, Bool.and_self, if_true,
        List.mem_singleton]

/-- the executable positional digest is the positional statement -/
theorem posDigest_spec (c : CleaveCfg) (s : Pep) (nf : Bool) (r : List Pep)
    (h : posDigest c s nf = some r) (p : Pep) : p ∈ r ↔ PosProduct c s nf p := by
  unfold posDigest at h
  rw [filterKeep_some c _ r h p, mem_posCandidates, PosProduct]

/-- … and raises exactly when `enzymatic_cleave` does; when neither raises they return the
same set of peptides. -/
theorem posDigest_agrees (c : CleaveCfg) (s : Pep) (nf : Bool) :
    (enzymaticCleave c s nf = none ↔ posDigest c s nf = none) ∧
    ∀ r r', enzymaticCleave c s nf = some r → posDigest c s nf = some r' →
      ∀ p, p ∈ r ↔ p ∈ r' := by
  constructor
  · unfold enzymaticCleave posDigest
    rw [filterKeep_none, filterKeep_none]
    constructor
    · rintro ⟨p, hp, hk⟩
      exact ⟨p, (mem_posCandidates c s nf p).mpr ((candidates_iff_pos c s nf p).mp hp), hk⟩
    · rintro ⟨p, hp, hk⟩
      exact ⟨p, (candidates_iff_pos c s nf p).mpr ((mem_posCandidates c s nf p).mp hp), hk⟩
  · intro r r' h h' p
    rw [cleave_spec_positional c s nf r h p, posDigest_spec c s nf r' h' p]

/-- the pool, positionally -/
theorem pool_spec_positional (c : CleaveCfg) (prots : List (Pep × Bool)) (pool : List Pep)
    (h : peptidePool c prots = some pool) (q : Pep) :
    q ∈ pool ↔ ∃ e ∈ prots, ∃ p, PosProduct c (prepProtein e.1) e.2 p ∧ (q = p ∨ q = iToL p) := by
  rw [pool_spec c prots pool h q]
  simp only [digestProduct_iff_pos]

/-! ## tables -/

/-- The range patterns are the site patterns with look-arounds flattened
(checked against the regenerated tables). -/
theorem rules2_is_flatten :
    Generated.expasyRules.map (fun e => (e.1, e.2.map Alt.flat)) = Generated.expasyRules2 := by
  decide

/-! ## site / range pairing

`iter_enzymatic_cleave_sites_with_range` zips the k-th `re.finditer` match of
`EXPASY_RULES[rule]` with the k-th overlapped `regex.finditer` match of
`EXPASY_RULES2[rule]`; the graph code (`PVGNode.split_node(cleavage_range=…)`) reads the
range as "the residues this cleavage depends on".  Proved here, for ALL strings:

* `range_pairing_general` — for a rule whose alternatives satisfy the decidable condition
  `Re.pairOK`, the zip never raises "Inconsistent cleavage sites" and pairs every site with
  the window of the alternative that matches there (`rangeSpec`);
* `expasy_pairOK` / `range_pairing` — every rule of the regenerated tables satisfies the
  condition and `EXPASY_RULES2` is its flattening (`rules2_is_flatten`), so the statement
  holds for every enzyme of the package (`decide` over the complete tables);
* `range_window_sound` — the paired range is a sound context window for the RULE: any
  string that carries the same residues inside the range has a rule match at the
  corresponding position, whatever lies outside;
* `range_window_within_lookaround` — the range never reaches beyond the look-around of
  the normal form (for which `isSite_cut_left/right` give locality in both directions);
* `range_window_not_exception_sound` — the range does NOT cover the context of the
  exception (`CKD`: the range of the site after `K` is `KD`, the exception looks at `C`);
  this is the root of the open finding `exception-context-split-across-nodes`.
* `wings_window` / `wings_cover_partial` — `EXPASY_RULES_WINGS_SIZE`. -/

/-- **General pairing theorem.**  For every rule satisfying `pairOK`, every exception and
every string, `iter_enzymatic_cleave_sites_with_range` (with the flattened rule as range
pattern) does not raise and returns exactly: every ExPASy site, ascending, each with the
window `(start, end)` of the leftmost alternative matching there. -/
theorem range_pairing_general (rule : Re) (h : rule.pairOK = true) (exc : Option Re) (s : Pep) :
    cleaveSitesWithRange rule (rule.map Alt.flat) exc s = some (rangeSpec rule exc s) := by
  have hsites := sites_eq_isSite rule exc s
  simp only [cleaveSitesWithRange, rangeSpec, ← hsites, cleaveSites, Re.ends,
    finditer_eq_positions, Re.overlapped_eq_windows h s, List.length_map, bne_self_eq_false,
    Bool.false_eq_true, if_false, zip_map_same, List.filter_map, List.map_map, Option.some.injEq]
  rfl

/-- Every rule of the regenerated `EXPASY_RULES` satisfies the pairing condition. -/
theorem expasy_pairOK : ∀ e ∈ Generated.expasyRules, e.2.pairOK = true := by decide

/-- **`range_pairing`.**  For every enzyme name of the package, with the site pattern and
the range pattern the source pairs under that name, for every exception and EVERY string:
the real function's model never raises and returns every site with the window of the
alternative matching there. -/
theorem range_pairing (name : String) (rule : Re) (rule2 : Re2)
    (h1 : Generated.expasyRules.lookup name = some rule)
    (h2 : Generated.expasyRules2.lookup name = some rule2)
    (exc : Option Re) (s : Pep) :
    cleaveSitesWithRange rule rule2 exc s = some (rangeSpec rule exc s) := by
  have hflat : rule2 = rule.map Alt.flat := by
    rw [← rules2_is_flatten, lookup_map_snd, h1] at h2
    simpa using h2.symm
  rw [hflat]
  exact range_pairing_general rule (expasy_pairOK _ (lookup_mem h1)) exc s

/-- the sites reported with ranges are the sites reported without -/
theorem range_pairing_sites (name : String) (rule : Re) (rule2 : Re2)
    (h1 : Generated.expasyRules.lookup name = some rule)
    (h2 : Generated.expasyRules2.lookup name = some rule2)
    (exc : Option Re) (s : Pep) :
    (cleaveSitesWithRange rule rule2 exc s).map (·.map (·.1)) = some (cleaveSites rule exc s) := by
  rw [range_pairing name rule rule2 h1 h2, sites_eq_isSite]
  simp [rangeSpec, List.map_map, Function.comp_def]

/-- **The paired range is a sound context window for the rule.**  If `i` is a rule site of
`s` with range `(a, b)`, then `a < i ≤ b ≤ |s|`, and in ANY string `t`, at any position `j`
whose surrounding residues `t[j-(i-a) .. j+(b-i))` equal `s[a .. b)`, position `j` is a
rule site as well — no residue outside the range matters. -/
theorem range_window_sound (rule : Re) (s : Pep) (i : Nat)
    (hi : isSite rule none s i = true) :
    (rule.matchRange s i).1 < i ∧ i ≤ (rule.matchRange s i).2 ∧
    (rule.matchRange s i).2 ≤ s.length ∧
    ∀ (t : Pep) (j : Nat), i - (rule.matchRange s i).1 ≤ j →
      (∀ k, k < (rule.matchRange s i).2 - (rule.matchRange s i).1 →
        t[j - (i - (rule.matchRange s i).1) + k]? = s[(rule.matchRange s i).1 + k]?) →
      isSite rule none t j = true := by
  simp only [isSite, Bool.and_eq_true, decide_eq_true_eq, Bool.not_false, and_true] at hi
  obtain ⟨hpos, hm⟩ := hi
  obtain ⟨a0, ha0, ma0⟩ := List.any_eq_true.mp hm
  cases hf : rule.find? (·.matchAt s (i - 1)) with
  | none => exact absurd ma0 (by simpa using List.find?_eq_none.mp hf a0 ha0)
  | some a =>
    have ha := List.mem_of_find?_eq_some hf
    have ma : a.matchAt s (i - 1) = true := by
      have := List.find?_some hf
      exact this
    have hlb := ((Alt.matchAt_iff a s (i - 1)).mp ma).1
    have hlen := clsSeq_length ((Alt.matchAt_iff a s (i - 1)).mp ma).2
    rw [Alt.flat_length, List.length_drop] at hlen
    simp only [Alt.width] at hlen
    simp only [Re.matchRange, hf]
    refine ⟨by omega, by omega, by omega, ?_⟩
    intro t j hj hk
    have hmt : a.matchAt t (j - 1) = true := by
      rw [Alt.matchAt_congr a t s (j - 1) (i - 1) (by omega) hlb]
      · exact ma
      · intro k hk'
        simp only [Alt.width] at hk'
        have := hk k (by omega)
        have e1 : j - (i - (i - 1 - a.lb.length)) + k = j - 1 - a.lb.length + k := by omega
        rw [e1] at this
        exact this
    simp only [isSite, Bool.and_eq_true, decide_eq_true_eq, Bool.not_false, and_true]
    exact ⟨by omega, List.any_eq_true.mpr ⟨a, ha, hmt⟩⟩

/-- The range stays inside the look-around of the normal form:
`i - 1 - lbBound ≤ start` and `end ≤ i + laBound`. -/
theorem range_window_within_lookaround (rule : Re) (s : Pep) (i : Nat)
    (hi : isSite rule none s i = true) :
    i - 1 - lbBound rule ≤ (rule.matchRange s i).1 ∧
      (rule.matchRange s i).2 ≤ i + laBound rule := by
  simp only [isSite, Bool.and_eq_true, decide_eq_true_eq, Bool.not_false, and_true] at hi
  obtain ⟨a0, ha0, ma0⟩ := List.any_eq_true.mp hi.2
  cases hf : rule.find? (·.matchAt s (i - 1)) with
  | none => exact absurd ma0 (by simpa using List.find?_eq_none.mp hf a0 ha0)
  | some a =>
    have ha := List.mem_of_find?_eq_some hf
    have := le_lbBound ha
    have := le_laBound ha
    simp only [Re.matchRange, hf]
    omega

/-- The range is NOT a context window for the exception: `AKD` and `CKD` carry the same
residues in the range `(1, 3)` of the site after `K`, yet with `trypsin_exception` the
site exists in the first and not in the second. -/
theorem range_window_not_exception_sound :
    ∃ rule exc, Generated.expasyRules.lookup "trypsin" = some rule ∧
      Generated.expasyRules.lookup "trypsin_exception" = some exc ∧
      rule.matchRange "AKD".toList 2 = (1, 3) ∧ rule.matchRange "CKD".toList 2 = (1, 3) ∧
      slice "AKD".toList 1 3 = slice "CKD".toList 1 3 ∧
      isSite rule (some exc) "AKD".toList 2 = true ∧
      isSite rule (some exc) "CKD".toList 2 = false := by
  refine ⟨_, _, rfl, rfl, ?_⟩
  decide

/-! ### `EXPASY_RULES_WINGS_SIZE` -/

theorem wingsCover_iff (r : Re) (w : Nat × Nat) :
    wingsCover r w = true ↔ lbBound r + 1 ≤ w.1 ∧ laBound r ≤ w.2 := by
  simp only [wingsCover, Bool.and_eq_true, decide_eq_true_eq]
  rfl

/-- **Locality for a covering wings entry.**  If `(l, r)` covers the rule (and the
exception), the verdict at position `i` of any string is the verdict computed on the
window `s[i-l .. i+r)` alone. -/
theorem wings_window (rule : Re) (exc : Option Re) (w : Nat × Nat)
    (hr : wingsCover rule w = true) (he : ∀ e, exc = some e → wingsCover e w = true)
    (s : Pep) (i : Nat) (hi : i ≤ s.length) :
    isSite rule exc s i = isSite rule exc (slice s (i - w.1) (i + w.2)) (i - (i - w.1)) := by
  simp only [wingsCover_iff] at hr he
  have hel : optBound lbBound exc + 1 ≤ w.1 := by
    cases exc with
    | none => simp only [optBound]; omega
    | some e => exact (he e rfl).1
  have her : optBound laBound exc ≤ w.2 := by
    cases exc with
    | none => simp only [optBound]; omega
    | some e => exact (he e rfl).2
  -- cut on the left
  have hs : s = s.take (i - w.1) ++ s.drop (i - w.1) := (List.take_append_drop _ _).symm
  have hlen : (s.take (i - w.1)).length = i - w.1 := by
    rw [List.length_take]; omega
  have h1 : isSite rule exc s i = isSite rule exc (s.drop (i - w.1)) (i - (i - w.1)) := by
    rcases Nat.lt_or_ge w.1 i with hlt | hge
    · have := isSite_cut_left rule exc (s.take (i - w.1)) (s.drop (i - w.1)) (i - (i - w.1))
        (by omega) (by omega)
      rw [← hs, hlen] at this
      have e : i - w.1 + (i - (i - w.1)) = i := by omega
      rw [e] at this
      exact this
    · have e : i - w.1 = 0 := by omega
      rw [e]; rfl
  rw [h1]
  -- cut on the right
  have hd : s.drop (i - w.1) =
      slice s (i - w.1) (i + w.2) ++ (s.drop (i - w.1)).drop (i + w.2 - (i - w.1)) := by
    simp only [slice]
    exact (List.take_append_drop _ _).symm
  rcases Nat.lt_or_ge (s.drop (i - w.1)).length (i + w.2 - (i - w.1)) with hshort | hlong
  · -- the window reaches the end of the string
    have : slice s (i - w.1) (i + w.2) = s.drop (i - w.1) := by
      simp only [slice]
      exact List.take_of_length_le (by omega)
    rw [this]
  · have hl : (slice s (i - w.1) (i + w.2)).length = i + w.2 - (i - w.1) := by
      simp only [slice, List.length_take]; omega
    rw [hd]
    exact isSite_cut_right rule exc _ _ _ (by omega) (by omega)

/-- Which entries of `EXPASY_RULES_WINGS_SIZE` cover their rule.  FULL statement
(`∀ e ∈ expasyRules, wingsCover e.2 (wings e.1)`) is FALSE for the tables in /repo: the
eight rules listed have a left wing shorter than look-behind + consumed residue
(`caspase 2`: `(?<=DVA)D` needs 4, the table says 2; `asp-n`/`ntcb`: `\w(?=D)` needs 1,
the table says 0), so `iter_enzymatic_cleave_sites_with_range_local` cannot find the
pattern inside its window (finding `wings-size-too-small`).  For all other rules the entry
covers, and `wings_window` applies. -/
theorem wings_cover_partial :
    (Generated.expasyRules.filter fun e =>
        !(wingsCover e.2 ((Generated.expasyWings.lookup e.1).getD (0, 0)))).map (·.1) =
      ["asp-n", "caspase 2", "caspase 3", "caspase 4", "caspase 5", "caspase 6", "caspase 7",
       "ntcb"] := by
  decide

/-! ## the local range search (`get_local_matched_range`,
`iter_enzymatic_cleave_sites_with_range_local`)

Models: `localLoop` / `getLocalMatchedRange` / `cleaveSitesWithRangeLocal`
(Model/WingsLocal.lean, streams `glocal`, `ilocal`).  For ALL rules, strings, positions and wings:

* `localRange_fuel_stable` — the loop terminates: the fuel of the model is never used up and
  any larger fuel gives the same result;
* `local_range_sound` — a returned range lies in the window, straddles the site as the start
  cursors intend, and carries a rule match of the whole string with its full window inside;
* `local_range_first` / `local_range_raises_iff` — exact characterisation: the result is the
  first segment of the cursor schedule `localSched` that carries a match, provided no earlier
  segment left the window; it raises iff the schedule leaves the window first;
  `local_sched_closed` gives the schedule in closed form, `local_sched_nested` its monotonicity;
* `local_range_cover_finds` — for a wings entry that covers the rule, is balanced and has
  `w.2 ≤ w.1` (`wingsLocalOK`; `wings_localOK_table`: all table entries but the 8 of
  `wings_cover_partial`) the search never raises at a rule site, and the result is inside every
  in-window scheduled segment that covers the `rangeSpec` range of the site;
  the `example`s below show that neither `rangeSpec range ⊆ result` nor equality holds in
  general, and that each of the three conditions is needed. -/

/-- **Termination.**  With the fuel `getLocalMatchedRange` passes (`w.1 + w.2 + 2`) the loop
ends by `break` or by a found pattern, and every larger fuel gives the same final cursors. -/
theorem localRange_fuel_stable (p : Re) (s : Pep) (site : Nat) (w : Nat × Nat) (fuel : Nat)
    (h : localFuel w ≤ fuel) :
    (getLocalMatchedRange p s site w).isSome = true ∧
    localLoop p s site (localUpper site w) (localLower s site w) fuel
        (localStart site w).1 (localStart site w).2 =
      localLoop p s site (localUpper site w) (localLower s site w) (localFuel w)
        (localStart site w).1 (localStart site w).2 := by
  have hs := localLoop_isSome p s site (localUpper site w) (localLower s site w) (localFuel w)
    (localStart site w).1 (localStart site w).2 (localStart_measure s site w)
  obtain ⟨r, hr⟩ := Option.isSome_iff_exists.mp hs
  constructor
  · simp only [getLocalMatchedRange, hr]
    obtain ⟨u, l, f⟩ := r
    cases f <;> rfl
  · rw [hr]
    exact localLoop_mono_le _ _ _ _ _ _ _ _ _ _ h hr

/-- **Soundness.**  A returned range `(u, l)` lies inside the window
`[max(site-w0,0), min(site+w1,|s|)]`, is non-empty, contains the residue before the site
(`w0 ≥ w1`) resp. the residue after it (`w0 < w1`) — the start cursors — and some alternative of
the rule matches in the WHOLE string `s` with look-behind, consumed residue and look-ahead all
inside `[u, l)`. -/
theorem local_range_sound (p : Re) (s : Pep) (site : Nat) (w : Nat × Nat) (u l : Nat)
    (h : getLocalMatchedRange p s site w = some (some (u, l))) :
    site - w.1 ≤ u ∧ u < l ∧ l ≤ min (site + w.2) s.length ∧
    (w.2 ≤ w.1 → u + 1 ≤ site ∧ site ≤ l) ∧ (w.1 < w.2 → u ≤ site ∧ site + 1 ≤ l) ∧
    p.search (slice s u l) = true ∧
    ∃ a, a ∈ p ∧ ∃ j, a.matchAt s j = true ∧ u + a.lb.length ≤ j ∧ j + 1 + a.la.length ≤ l := by
  obtain ⟨u', l', hl, rfl, rfl⟩ := (getLocal_some_iff p s site w u l).mp h
  obtain ⟨k, _, hs, _, hf⟩ := localLoop_spec _ _ _ _ _ _ _ _ _ _ _ hl
  simp only [if_true, inWin, Bool.and_eq_true, decide_eq_true_eq, segOf] at hf
  obtain ⟨⟨⟨h1, h2⟩, h3⟩, h4⟩ := hf
  have hm := localSched_mono site (localLower s site w) (localStart site w) 0 k (Nat.zero_le _)
  simp only [hs, localSched] at hm
  simp only [localUpper] at h1
  simp only [localLower] at h3
  have hlen : l'.toNat ≤ s.length := by omega
  refine ⟨by omega, by omega, by omega, ?_, ?_, h4, (Re.search_slice_iff p s _ _ hlen).mp h4⟩
  · intro hw
    simp only [localStart, ge_iff_le, hw, if_true] at hm
    omega
  · intro hw
    have : ¬ (w.1 ≥ w.2) := by omega
    simp only [localStart, this, if_false] at hm
    omega

/-- **Characterisation of the returned range.**  `(u, l)` is returned iff it is the `k`-th segment
of the cursor schedule (`localSched`: widen by one per pass, left cursor if
`site - ucur ≤ lcur - site` or the right one sits at `lower`, else the right cursor) for the FIRST
`k` whose segment `s[u:l)` carries a match, all earlier segments — and this one — being inside
the window. -/
theorem local_range_first (p : Re) (s : Pep) (site : Nat) (w : Nat × Nat) (u l : Nat) :
    getLocalMatchedRange p s site w = some (some (u, l)) ↔
      ∃ k, localSched site (localLower s site w) (localStart site w) k = ((u : Int), (l : Int)) ∧
        NoHitBefore p s site (localUpper site w) (localLower s site w) (localStart site w) k ∧
        inWin (localUpper site w) (localLower s site w) u l = true ∧
        p.search (slice s u l) = true := by
  constructor
  · intro h
    obtain ⟨u', l', hl, rfl, rfl⟩ := (getLocal_some_iff p s site w u l).mp h
    obtain ⟨k, _, hs, hn, hf⟩ := localLoop_spec _ _ _ _ _ _ _ _ _ _ _ hl
    simp only [if_true, segOf] at hf
    have hw := hf.1
    simp only [inWin, Bool.and_eq_true, decide_eq_true_eq] at hw
    simp only [localUpper] at hw
    have e1 : ((u'.toNat : Nat) : Int) = u' := by omega
    have e2 : ((l'.toNat : Nat) : Int) = l' := by omega
    exact ⟨k, by rw [hs, e1, e2], hn, by rw [e1, e2]; exact hf.1, hf.2⟩
  · rintro ⟨k, hs, hn, hw, hf⟩
    have hsome := (localRange_fuel_stable p s site w _ (Nat.le_refl _)).1
    have ek : inWin (localUpper site w) (localLower s site w)
          (localSched site (localLower s site w) (localStart site w) k).1
          (localSched site (localLower s site w) (localStart site w) k).2 = false ∨
        p.search (segOf s (localSched site (localLower s site w) (localStart site w) k)) = true := by
      right; rw [hs]; simpa [segOf] using hf
    cases hr : getLocalMatchedRange p s site w with
    | none => rw [hr] at hsome; cases hsome
    | some r =>
      cases r with
      | none =>
        obtain ⟨u', l', hl⟩ := (getLocal_raise_iff p s site w).mp hr
        obtain ⟨k', _, hs', hn', hf'⟩ := localLoop_spec _ _ _ _ _ _ _ _ _ _ _ hl
        simp only [Bool.false_eq_true, if_false] at hf'
        have := firstExit_unique p s site _ _ _ k k' hn ek hn' (by left; rw [hs']; exact hf')
        subst this
        rw [hs] at hs'
        simp only [Prod.mk.injEq] at hs'
        rw [← hs'.1, ← hs'.2, hw] at hf'
        cases hf'
      | some ul =>
        obtain ⟨u2, l2⟩ := ul
        obtain ⟨u', l', hl, rfl, rfl⟩ := (getLocal_some_iff p s site w u2 l2).mp hr
        obtain ⟨k', _, hs', hn', hf'⟩ := localLoop_spec _ _ _ _ _ _ _ _ _ _ _ hl
        simp only [if_true] at hf'
        have := firstExit_unique p s site _ _ _ k k' hn ek hn' (by right; rw [hs']; exact hf'.2)
        subst this
        rw [hs] at hs'
        simp only [Prod.mk.injEq] at hs'
        rw [← hs'.1, ← hs'.2]
        simp

/-- **When it raises.**  `ValueError("Cannot extract matched pattern …")` iff the schedule
leaves the window (`upper ≤ ucur < lcur ≤ lower` fails) before any segment carried a match —
in particular as soon as the LEFT cursor passes `upper`, even when the right one could still
move. -/
theorem local_range_raises_iff (p : Re) (s : Pep) (site : Nat) (w : Nat × Nat) :
    getLocalMatchedRange p s site w = some none ↔
      ∃ k, NoHitBefore p s site (localUpper site w) (localLower s site w) (localStart site w) k ∧
        inWin (localUpper site w) (localLower s site w)
          (localSched site (localLower s site w) (localStart site w) k).1
          (localSched site (localLower s site w) (localStart site w) k).2 = false := by
  constructor
  · intro h
    obtain ⟨u', l', hl⟩ := (getLocal_raise_iff p s site w).mp h
    obtain ⟨k, _, hs, hn, hf⟩ := localLoop_spec _ _ _ _ _ _ _ _ _ _ _ hl
    simp only [Bool.false_eq_true, if_false] at hf
    exact ⟨k, hn, by rw [hs]; exact hf⟩
  · rintro ⟨k, hn, hw⟩
    have hsome := (localRange_fuel_stable p s site w _ (Nat.le_refl _)).1
    cases hr : getLocalMatchedRange p s site w with
    | none => rw [hr] at hsome; cases hsome
    | some r =>
      cases r with
      | none => rfl
      | some ul =>
        obtain ⟨u2, l2⟩ := ul
        obtain ⟨u', l', hl, rfl, rfl⟩ := (getLocal_some_iff p s site w u2 l2).mp hr
        obtain ⟨k', _, hs', hn', hf'⟩ := localLoop_spec _ _ _ _ _ _ _ _ _ _ _ hl
        simp only [if_true] at hf'
        have := firstExit_unique p s site _ _ _ k k' hn (Or.inl hw) hn'
          (by right; rw [hs']; exact hf'.2)
        subst this
        rw [hs'] at hw
        rw [hf'.1] at hw
        cases hw

/-- the scheduled segments are nested: later ones contain earlier ones, and the `k`-th is `k`
residues wider than the first -/
theorem local_sched_nested (site lower : Int) (c0 : Int × Int) (k j : Nat) (h : k ≤ j) :
    (localSched site lower c0 j).1 ≤ (localSched site lower c0 k).1 ∧
    (localSched site lower c0 k).2 ≤ (localSched site lower c0 j).2 ∧
    (localSched site lower c0 k).2 - (localSched site lower c0 k).1 = c0.2 - c0.1 + k :=
  ⟨(localSched_mono site lower c0 k j h).1, (localSched_mono site lower c0 k j h).2,
    localSched_width site lower c0 k⟩

/-- **Closed form of the schedule.**  Start `(site-1, site)` (`b0 = 0`, i.e. `w0 ≥ w1`) or
`(site, site+1)` (`b0 = 1`), `B = lower - site ≥ b0` residues to the right: the `k`-th segment is
`[site - (k+1-b), site + b)` with `b = min (max b0 ⌈k/2⌉) B`.  (`b0 > B` only for `w0 < w1` at
`site + 1 > lower`, where the loop breaks at once.) -/
theorem local_sched_closed (site : Int) (b0 B : Nat) (h0 : b0 ≤ 1) (hB : b0 ≤ B) (k : Nat) :
    localSched site (site + (B : Int)) (site - ((1 - b0 : Nat) : Int), site + (b0 : Int)) k =
      (site - ((k + 1 - min (max b0 ((k + 1) / 2)) B : Nat) : Int),
        site + ((min (max b0 ((k + 1) / 2)) B : Nat) : Int)) :=
  localSched_closed site b0 B h0 hB k

/-- decidable condition under which the local search succeeds at every rule site: the entry
covers the rule (`wingsCover`), no alternative looks further ahead than behind + 1
(`Re.balanced`), and the right wing is not the longer one -/
def wingsLocalOK (r : Re) (w : Nat × Nat) : Bool := wingsCover r w && r.balanced && decide (w.2 ≤ w.1)

/-- The table entries that are NOT `wingsLocalOK` are exactly the eight non-covering ones of
`wings_cover_partial`; every other entry is. -/
theorem wings_localOK_table :
    (Generated.expasyRules.filter fun e =>
        !(wingsLocalOK e.2 ((Generated.expasyWings.lookup e.1).getD (0, 0)))).map (·.1) =
      ["asp-n", "caspase 2", "caspase 3", "caspase 4", "caspase 5", "caspase 6", "caspase 7",
       "ntcb"] := by
  decide

theorem Alt.matchAt_room {a : Alt} {s : Pep} {i : Nat} (h : a.matchAt s i = true) :
    a.lb.length ≤ i ∧ i + 1 + a.la.length ≤ s.length := by
  have h1 := ((Alt.matchAt_iff a s i).mp h).1
  have h2 := clsSeq_length ((Alt.matchAt_iff a s i).mp h).2
  rw [Alt.flat_length, List.length_drop] at h2
  simp only [Alt.width] at h2
  omega

/-- **Covering wings: the search finds the pattern, inside the first covering segment.**
For a `wingsLocalOK` entry and a position `site` at which the rule matches (`isSite` without
exception), `get_local_matched_range` does not raise, and its result `(u, l)` is contained in
every in-window segment of the schedule that covers the `rangeSpec` range
`rule.matchRange s site` of that site (such a segment exists; the result is the first segment
with ANY match, `local_range_first`, hence never later than the first covering one). -/
theorem local_range_cover_finds (rule : Re) (w : Nat × Nat) (hw : wingsLocalOK rule w = true)
    (s : Pep) (site : Nat) (hi : isSite rule none s site = true) :
    ∃ u l, getLocalMatchedRange rule s site w = some (some (u, l)) ∧
      ∀ j, inWin (localUpper site w) (localLower s site w)
          (localSched site (localLower s site w) (localStart site w) j).1
          (localSched site (localLower s site w) (localStart site w) j).2 = true →
        (localSched site (localLower s site w) (localStart site w) j).1 ≤ (rule.matchRange s site).1 →
        ((rule.matchRange s site).2 : Int) ≤ (localSched site (localLower s site w) (localStart site w) j).2 →
        (localSched site (localLower s site w) (localStart site w) j).1 ≤ u ∧
          (l : Int) ≤ (localSched site (localLower s site w) (localStart site w) j).2 := by
  simp only [wingsLocalOK, Bool.and_eq_true, decide_eq_true_eq, wingsCover_iff] at hw
  obtain ⟨⟨⟨hc1, hc2⟩, hbal⟩, hw21⟩ := hw
  simp only [isSite, Bool.and_eq_true, decide_eq_true_eq, Bool.not_false, and_true] at hi
  obtain ⟨hpos, hm⟩ := hi
  obtain ⟨a0, ha0, ma0⟩ := List.any_eq_true.mp hm
  cases hf : rule.find? (·.matchAt s (site - 1)) with
  | none => exact absurd ma0 (by simpa using List.find?_eq_none.mp hf a0 ha0)
  | some a =>
    have ha := List.mem_of_find?_eq_some hf
    have ma : a.matchAt s (site - 1) = true := by
      have := List.find?_some hf
      exact this
    have hroom := Alt.matchAt_room ma
    have hlb := le_lbBound ha
    have hla := le_laBound ha
    have hb : a.la.length ≤ a.lb.length + 1 := by
      have := List.all_eq_true.mp hbal a ha
      simpa using this
    have hR : rule.matchRange s site = (site - 1 - a.lb.length, site + a.la.length) := by
      simp only [Re.matchRange, hf]
    -- every in-window segment covering the range carries a match
    have hcov : ∀ u l : Int, localUpper site w ≤ u → u ≤ ((site - 1 - a.lb.length : Nat) : Int) →
        ((site + a.la.length : Nat) : Int) ≤ l → l ≤ localLower s site w →
        rule.search (slice s u.toNat l.toNat) = true := by
      intro u l h1 h2 h3 h4
      have hlen : l.toNat ≤ s.length := by simp only [localLower] at h4; omega
      rw [Re.search_slice_iff rule s _ _ hlen]
      simp only [localUpper] at h1
      exact ⟨a, ha, site - 1, ma, by omega, by omega⟩
    have hin : inWin (localUpper site w) (localLower s site w) (localStart site w).1
        (localStart site w).2 = true := by
      have : w.1 ≥ w.2 := hw21
      simp only [inWin, localStart, this, if_true, Bool.and_eq_true, decide_eq_true_eq]
      simp only [localUpper, localLower]
      omega
    have hsome := (localRange_fuel_stable rule s site w _ (Nat.le_refl _)).1
    cases hr : getLocalMatchedRange rule s site w with
    | none => rw [hr] at hsome; cases hsome
    | some r =>
      cases r with
      | none =>
        exfalso
        obtain ⟨u', l', hl⟩ := (getLocal_raise_iff rule s site w).mp hr
        have := localLoop_finds rule s site _ _ _ _ hcov (by omega)
          (by simp only [localUpper]; omega) (by simp only [localLower]; omega) _ _ _ hin _ hl
        cases this
      | some ul =>
        obtain ⟨u, l⟩ := ul
        refine ⟨u, l, rfl, ?_⟩
        intro j hj h1 h2
        obtain ⟨k, hs, hn, _, _⟩ := (local_range_first rule s site w u l).mp hr
        rw [hR] at h1 h2
        have hjw := hj
        simp only [inWin, Bool.and_eq_true, decide_eq_true_eq] at hjw
        have hfound := hcov _ _ hjw.1.1 h1 h2 hjw.2
        have hkj : k ≤ j := by
          rcases Nat.lt_or_ge j k with hlt | hge
          · have := (hn j hlt).2
            simp only [segOf] at this
            rw [this] at hfound; cases hfound
          · exact hge
        have := localSched_mono site (localLower s site w) (localStart site w) k j hkj
        rw [hs] at this
        exact this

/-- **`iter_enzymatic_cleave_sites_with_range_local`, when it returns.**  For every rule,
exception, wings entry and string: the sites it yields are exactly the ExPASy sites
(`cleaveSites`, = `isSite` by `sites_eq_isSite`), in order, and each is paired with what
`get_local_matched_range` returns for it (to which `local_range_sound/first` apply). -/
theorem local_iter_spec (rule : Re) (exc : Option Re) (w : Nat × Nat) (s : Pep)
    (l : List (Nat × (Nat × Nat))) (h : cleaveSitesWithRangeLocal rule exc w s = .ok l) :
    l.map (·.1) = cleaveSites rule exc s ∧
    ∀ q, q ∈ l → getLocalMatchedRange rule s q.1 w = some (some q.2) := by
  simp only [cleaveSitesWithRangeLocal] at h
  split at h
  · cases h
  · exact localSitesLoop_ok rule _ w s _ l h

/-- **… and it does return for a `wingsLocalOK` entry** (every table entry but the eight of
`wings_localOK_table`), for every exception and every string. -/
theorem local_iter_cover_ok (rule : Re) (exc : Option Re) (w : Nat × Nat)
    (hw : wingsLocalOK rule w = true) (s : Pep) :
    ∃ l, cleaveSitesWithRangeLocal rule exc w s = .ok l := by
  have hw' := hw
  simp only [wingsLocalOK, Bool.and_eq_true, decide_eq_true_eq, wingsCover_iff] at hw'
  have h0 : (w.1 == 0 && w.2 == 0) = false := by
    have : w.1 ≠ 0 := by omega
    simp [this]
  simp only [cleaveSitesWithRangeLocal, h0, Bool.false_eq_true, if_false]
  apply localSitesLoop_total
  intro x hx
  have hsite : isSite rule none s x = true := by
    have : x ∈ cleaveSites rule none s := by simpa [cleaveSites, excEnds] using hx
    rw [sites_eq_isSite] at this
    exact (List.mem_filter.mp this).2
  obtain ⟨u, l, h, _⟩ := local_range_cover_finds rule w hw s x hsite
  exact ⟨(u, l), h⟩

/-! ## non-vacuity -/

example : (Generated.expasyRules.lookup "trypsin").isSome = true := by decide

/-- a lysc-like configuration with a two-letter mass table, for the examples -/
def exCfg : CleaveCfg :=
  { rule := [{ lb := [], core := Cls.pos ['K'], la := [] }], exc := none, misc := 0,
    minMw := -1, minLen := 0, maxLen := 100, tab := [('A', 1), ('K', 1), ('M', 1)], water := 0 }

-- positional candidates: an inner stretch, the Met-removed twin, and the duplicated end
example : PosCandidate exCfg "MAKAK".toList false "AK".toList :=
  ⟨3, 5, Or.inr (Or.inl (by decide)), Or.inr (Or.inl (by decide)), Or.inl (by decide), by decide,
    Or.inl (by decide)⟩
example : PosCandidate exCfg "MAKAK".toList false "AK".toList :=
  ⟨0, 3, Or.inl rfl, Or.inr (Or.inl (by decide)), Or.inl (by decide), by decide,
    Or.inr ⟨rfl, rfl, by decide, by decide⟩⟩
example : PosCandidate exCfg "MAKAK".toList false [] :=
  ⟨5, 5, Or.inr (Or.inr rfl), Or.inr (Or.inr rfl), Or.inr ⟨rfl, rfl, Or.inr (by decide)⟩,
    by decide, Or.inl (by decide)⟩
-- one missed cleavage is not allowed with `misc = 0`
example : ((List.range 5).filter fun i => decide (0 < i) && isSite exCfg.rule exCfg.exc
    "MAKAK".toList i).length = 1 := by decide
-- the hypothesis of `cleave_spec_positional` is satisfiable, with the empty peptide returned
example : enzymaticCleave exCfg "MAKAK".toList false =
    some ["AK".toList, "MAK".toList, "AK".toList, []] := by decide
example : posDigest exCfg "AK".toList true = some ["AK".toList, []] := by decide

-- pairing: the hypotheses of `range_pairing` hold for every name of the table …
example : ∃ r r2, Generated.expasyRules.lookup "thrombin" = some r ∧
    Generated.expasyRules2.lookup "thrombin" = some r2 := ⟨_, _, rfl, rfl⟩
-- … `pairOK` is a real restriction: `K|(?<=A)K` violates it and the zip does raise
example : Re.pairOK [{ lb := [], core := Cls.pos ['K'], la := [] },
    { lb := [Cls.pos ['A']], core := Cls.pos ['K'], la := [] }] = false := by decide
example : cleaveSitesWithRange
    [{ lb := [], core := Cls.pos ['K'], la := [] }, { lb := [Cls.pos ['A']], core := Cls.pos ['K'], la := [] }]
    ([{ lb := [], core := Cls.pos ['K'], la := [] },
      { lb := [Cls.pos ['A']], core := Cls.pos ['K'], la := [] }].map Alt.flat) none "AK".toList = none := by
  decide
-- … and the paired ranges of trypsin on `TTTMRPKTT`: `MRP` for the site after `R`, `KT` after `K`
example : (Generated.expasyRules.lookup "trypsin").map (fun r => rangeSpec r none "TTTMRPKTT".toList) =
    some [(5, (3, 6)), (7, (6, 8))] := by decide
-- a covering and a non-covering wings entry
example : (Generated.expasyRules.lookup "trypsin").map (fun r => wingsCover r (2, 1)) = some true := by
  decide
example : (Generated.expasyRules.lookup "caspase 2").map (fun r => wingsCover r (2, 1)) = some false := by
  decide

-- local range search: a rule / wings pair for the examples
def exLbK : Re := [{ lb := [Cls.pos ['A']], core := Cls.pos ['K'], la := [] },
  { lb := [], core := Cls.pos ['C'], la := [] }]            -- `(?<=A)K|C`
def exLb2K : Re := [{ lb := [Cls.pos ['A'], Cls.pos ['A']], core := Cls.pos ['K'], la := [] }]  -- `(?<=AA)K`
def exLa2K : Re := [{ lb := [], core := Cls.pos ['K'], la := [Cls.pos ['A'], Cls.pos ['A']] }]  -- `K(?=AA)`
def exK : Re := [{ lb := [], core := Cls.pos ['K'], la := [] }]                                  -- `K`
-- trypsin, `(2, 1)`: the hypotheses of `local_range_cover_finds` hold and the result is the `rangeSpec` range
example : ∃ r, Generated.expasyRules.lookup "trypsin" = some r ∧ wingsLocalOK r (2, 1) = true ∧
    isSite r none "TTWKPT".toList 4 = true ∧
    getLocalMatchedRange r "TTWKPT".toList 4 (2, 1) = some (some (2, 5)) ∧
    r.matchRange "TTWKPT".toList 4 = (2, 5) := ⟨_, rfl, by decide⟩
-- the `rangeSpec` range is NOT always contained in the result: `(?<=A)K|C` (pairOK, covered by (2,1),
-- balanced) on `AKC` at site 2 — the search stops at `KC` because `C` matches there
example : wingsLocalOK exLbK (2, 1) = true ∧ exLbK.pairOK = true ∧ isSite exLbK none "AKC".toList 2 = true ∧
    getLocalMatchedRange exLbK "AKC".toList 2 (2, 1) = some (some (1, 3)) ∧
    exLbK.matchRange "AKC".toList 2 = (0, 2) := by decide
-- … nor is the result always contained in it (no equality): `(?<=AA)K` with the covering entry (3,1)
example : wingsLocalOK exLb2K (3, 1) = true ∧ isSite exLb2K none "AAKT".toList 3 = true ∧
    getLocalMatchedRange exLb2K "AAKT".toList 3 (3, 1) = some (some (0, 4)) ∧
    exLb2K.matchRange "AAKT".toList 3 = (0, 3) := by decide
-- each condition of `wingsLocalOK` is needed.  Covering but not balanced: `K(?=AA)`, (2,2), raises
-- at the site of `KAA` (the left cursor passes 0 before the right one has reached the second `A`)
example : wingsCover exLa2K (2, 2) = true ∧ exLa2K.balanced = false ∧ isSite exLa2K none "KAA".toList 1 = true ∧
    getLocalMatchedRange exLa2K "KAA".toList 1 (2, 2) = some none := by decide
-- covering and balanced, right wing longer: `K`, (1,2), raises at the last residue
example : wingsCover exK (1, 2) = true ∧ exK.balanced = true ∧ isSite exK none "K".toList 1 = true ∧
    getLocalMatchedRange exK "K".toList 1 (1, 2) = some none := by decide
-- not covering (the table's `caspase 2` entry): raises
example : (Generated.expasyRules.lookup "caspase 2").map (fun r =>
    (isSite r none "DVADA".toList 4, getLocalMatchedRange r "DVADA".toList 4 (2, 1))) =
    some (true, some none) := by decide
-- the schedule in closed form, `(2,1)` at site 4 of a long string: left/right in turn, left first
example : (List.range 4).map (localSched 4 5 (3, 4)) = [(3, 4), (3, 5), (2, 5), (1, 5)] := by decide
-- the whole-function model on trypsin with its exception
example : ∃ r, Generated.expasyRules.lookup "trypsin" = some r ∧
    (match cleaveSitesWithRangeLocal r none (2, 1) "TTTMRPKTT".toList with
      | .ok l => l == [(5, (3, 6)), (7, (6, 8))] | .error _ => false) = true := ⟨_, rfl, by decide⟩

end MoPepGen.Props.C10
