import MoPepGen.Lemmas.Filter
/-!
# C19 — filterFasta keeps exactly the entries satisfying its criteria

Property theorems only.  `filterPool`, `filterPep`, `keepEntry`, `entryView`,
`normLabel` are the models of `VariantPeptidePool.filter` and of the label
helpers (tied to /repo by the correspondence streams `filter`, `norm`, `view`);
`KeepRule` is the rule as the property states it.  All theorems are about runs
that do not raise (`= .ok …`), for arbitrary pools, tables and flag combinations.
-/
namespace MoPepGen.Props.C19
open MoPepGen

/-- `q'` is a sub-collection of `q`: same sequences in the same order, headers thinned -/
def PoolSub (a b : List PRec) : Prop :=
  (a.map (·.seq)).Sublist (b.map (·.seq)) ∧
  ∀ q' ∈ a, ∃ q ∈ b, q.seq = q'.seq ∧ q'.header.Sublist q.header

/-- the decision on one classified entry is the stated rule -/
theorem keepView_iff (c : FCfg) (denied : Bool) (v : EntryView) (b : Bool)
    (h : keepView c denied v = .ok b) : b = true ↔ KeepRule c denied v := by
  unfold keepView at h
  unfold KeepRule
  have hcan : (!v.circ && (match v.txs.head? with
        | some t => c.coding.contains t | none => false)) = true ↔
      (v.circ = false ∧ ∃ t, v.txs.head? = some t ∧ t ∈ c.coding) := by
    cases v.txs.head? with
    | none => simp
    | some t => simp
  have hnon : (!(v.txs.any fun x => c.coding.contains x)) = true ↔ ∀ t ∈ v.txs, t ∉ c.coding := by
    simp
  have hcod : (v.txs.all fun x => c.coding.contains x) = true ↔ ∀ t ∈ v.txs, t ∈ c.coding := by
    simp
  rw [← hcan, ← hnon, ← hcod]
  clear hcan hnon hcod
  generalize (!v.circ && match v.txs.head? with
    | some t => c.coding.contains t | none => false) = C at h ⊢
  generalize (!(v.txs.any fun x => c.coding.contains x)) = N at h ⊢
  generalize (v.txs.all fun x => c.coding.contains x) = A at h ⊢
  generalize c.keepCanonical = K at h ⊢
  generalize c.keepNoncoding = KN at h ⊢
  generalize c.keepCoding = KC at h ⊢
  by_cases hd : (denied && !(K && C)) = true
  · rw [if_pos hd] at h
    cases h
    simp only [Bool.false_eq_true, false_iff]
    rintro ⟨h1, _⟩
    revert hd h1
    cases denied <;> cases K <;> cases C <;> simp
  · rw [if_neg hd] at h
    have h1 : denied = true → K = true ∧ C = true := by
      revert hd
      cases denied <;> cases K <;> cases C <;> simp
    by_cases hn : (KN && N) = true
    · rw [if_pos hn] at h
      cases h
      simp only [true_iff]
      exact ⟨h1, Or.inl (by simpa using hn)⟩
    · rw [if_neg hn] at h
      by_cases hco : (KC && A) = true
      · rw [if_pos hco] at h
        cases h
        simp only [true_iff]
        exact ⟨h1, Or.inr (Or.inl (by simpa using hco))⟩
      · rw [if_neg hco] at h
        have hn' : ¬ (KN = true ∧ N = true) := by simpa using hn
        have hco' : ¬ (KC = true ∧ A = true) := by simpa using hco
        cases he : c.exprs with
        | none =>
          simp only [he] at h
          cases h
          simp only [true_iff]
          exact ⟨h1, Or.inr (Or.inr (Or.inl (by simp)))⟩
        | some tab =>
          simp only [he] at h
          by_cases hx : (v.fusion || v.circ || v.splice) = true
          · rw [if_pos hx] at h
            cases h
            simp only [true_iff]
            refine ⟨h1, ?_⟩
            simp only [Bool.or_eq_true] at hx
            rcases hx with (hx | hx) | hx
            · exact Or.inr (Or.inr (Or.inr (Or.inl hx)))
            · exact Or.inr (Or.inr (Or.inr (Or.inr (Or.inl hx))))
            · exact Or.inr (Or.inr (Or.inr (Or.inr (Or.inr (Or.inl hx)))))
          · rw [if_neg hx] at h
            have hall := allExpressed_ok_iff tab c.cutoff v.txs b h
            simp only [Bool.or_eq_true, not_or, Bool.not_eq_true] at hx
            rw [hall]
            constructor
            · intro hh
              exact ⟨h1, Or.inr (Or.inr (Or.inr (Or.inr (Or.inr (Or.inr ⟨tab, rfl, hh⟩)))))⟩
            · rintro ⟨_, hh⟩
              rcases hh with hh | hh | hh | hh | hh | hh | ⟨tab', ht', hh⟩
              · exact absurd hh hn'
              · exact absurd hh hco'
              · cases hh
              · rw [hx.1.1] at hh; cases hh
              · rw [hx.1.2] at hh; cases hh
              · rw [hx.2] at hh; cases hh
              · cases ht'; exact hh

/-- **filter_entry_iff.** A header entry (in the form `filter` sees it, `str(variant_id)`) is
kept iff it satisfies the stated rule: not denylisted unless canonical and keep-canonical,
and exempt (keep-all-noncoding / keep-all-coding / no table / fusion / circRNA /
splice-altering) or all its transcripts expressed at or above the cutoff. -/
theorem filter_entry_iff (c : FCfg) (denied : Bool) (l : Entry) (b : Bool)
    (h : keepEntry c denied l = .ok b) :
    ∃ v, entryView l = .ok v ∧ (b = true ↔ KeepRule c denied v) := by
  unfold keepEntry at h
  cases hv : entryView l with
  | error e => simp [hv] at h
  | ok v =>
    simp only [hv] at h
    exact ⟨v, rfl, keepView_iff c denied v b h⟩

theorem head_splitOnC_prefix (c : Char) : ∀ x : List Char, ((splitOnC c x).headD []) <+: x := by
  intro x
  induction x with
  | nil => simp [splitOnC]
  | cons a t ih =>
    unfold splitOnC
    by_cases hac : (a == c) = true
    · simp [hac]
    · simp only [hac]
      cases hs : splitOnC c t with
      | nil => simp
      | cons hd tl =>
        rw [hs] at ih
        simp only [List.headD_cons] at ih ⊢
        exact (List.prefix_cons_inj a).mpr ih

theorem isInfix_of_prefix (y x : List Char) (h : y <+: x) : isInfix y x = true := by
  cases x with
  | nil =>
    have : y = [] := List.prefix_nil.mp h
    subst this; simp [isInfix]
  | cons a t =>
    have : y.isPrefixOf (a :: t) = true := List.isPrefixOf_iff_prefix.mpr h
    simp [isInfix, this]

/-- the code's splice flag is implied by the type-based definition … -/
theorem splice_spec_imp_flag (d : Ident) (h : d.hasSpliceVariant = true) :
    d.isSpliceAltering = true := by
  unfold Ident.hasSpliceVariant at h
  unfold Ident.isSpliceAltering Ident.isAltSplicing
  simpa [variantType] using h

/-- … and (after the `fix:` that compares the variant TYPE instead of testing `'SE' in id`)
equals it for every entry: an entry is splice-altering iff it is a base-variant entry carrying
a variant whose type is SE / A5SS / A3SS / RI / MXE. -/
theorem splice_flag_eq_spec (d : Ident) : d.isSpliceAltering = d.hasSpliceVariant := by
  unfold Ident.isSpliceAltering Ident.isAltSplicing Ident.hasSpliceVariant
  simp [variantType]

/-- **filter_peptide_iff.** A peptide is kept iff its miscleavage count is within the range and
some entry of its (normalised) header is kept; the kept record has the same sequence and
exactly the kept entries, in order. -/
theorem filter_peptide_iff (c : FCfg) (p : PRec) (r : Option PRec) (h : filterPep c p = .ok r) :
    (r.isSome = true ↔ miscOk c p.seq = true ∧ ∃ labels, normHeader p.header = .ok labels ∧
        ∃ l ∈ labels, keepEntry c (isDenied c p.seq) l = .ok true) ∧
    (∀ q, r = some q → q.seq = p.seq ∧ ∃ labels, normHeader p.header = .ok labels ∧
        q.header = labels.filter (keptB c (isDenied c p.seq))) := by
  rcases filterPep_spec c p r h with ⟨hm, hr⟩ | ⟨hm, labels, hn, _, hcase⟩
  · subst hr
    simp [hm]
  · rcases hcase with ⟨hnil, hr⟩ | ⟨hne, hr⟩
    · subst hr
      refine ⟨?_, by simp⟩
      simp only [Option.isSome_none, Bool.false_eq_true, false_iff, not_and, not_exists]
      intro _ labels' hn' l hl
      rw [hn] at hn'; cases hn'
      intro hk
      have : l ∈ labels.filter (keptB c (isDenied c p.seq)) :=
        List.mem_filter.mpr ⟨hl, keptB_iff.mpr hk⟩
      rw [hnil] at this; cases this
    · subst hr
      constructor
      · simp only [Option.isSome_some, true_iff]
        refine ⟨hm, labels, hn, ?_⟩
        obtain ⟨l, hl⟩ := List.exists_mem_of_ne_nil _ hne
        have := List.mem_filter.mp hl
        exact ⟨l, this.1, keptB_iff.mp this.2⟩
      · intro q hq; cases hq
        exact ⟨rfl, labels, hn, rfl⟩

/-- the pool filter is the peptide filter applied to every record -/
theorem filter_pool_eq (c : FCfg) (pool out : List PRec) (h : filterPool c pool = .ok out) :
    out = pool.filterMap (fun p => match filterPep c p with | .ok r => r | .error _ => none) :=
  (filterPool_spec c pool out h).2

theorem filterPep_some_sub (c : FCfg) (p q : PRec) (h : filterPep c p = .ok (some q)) :
    q.seq = p.seq ∧ ∃ labels, normHeader p.header = .ok labels ∧ q.header.Sublist labels := by
  obtain ⟨h1, labels, h2, h3⟩ := (filter_peptide_iff c p _ h).2 q rfl
  exact ⟨h1, labels, h2, by rw [h3]; exact List.filter_sublist⟩

/-- **filter_sub.** The output is a sub-collection of the input: the output sequences are a
sub-list of the input sequences (unchanged), and every output record comes from an input record
with the same sequence whose normalised header contains the output header as a sub-list. -/
theorem filter_sub (c : FCfg) :
    ∀ (pool out : List PRec), filterPool c pool = .ok out →
      (out.map (·.seq)).Sublist (pool.map (·.seq)) ∧
      ∀ q ∈ out, ∃ p ∈ pool, q.seq = p.seq ∧
        ∃ labels, normHeader p.header = .ok labels ∧ q.header.Sublist labels := by
  intro pool
  induction pool with
  | nil => intro out h; simp [filterPool] at h; subst h; simp
  | cons p ps ih =>
    intro out h
    simp only [filterPool] at h
    cases hp : filterPep c p with
    | error e => simp [hp] at h
    | ok r =>
      simp only [hp] at h
      cases hr : filterPool c ps with
      | error e => simp [hr] at h
      | ok rs =>
        simp only [hr] at h
        obtain ⟨h1, h2⟩ := ih rs hr
        cases h
        cases r with
        | none =>
          refine ⟨List.Sublist.cons _ h1, ?_⟩
          intro q hq
          obtain ⟨p', hp', rest⟩ := h2 q hq
          exact ⟨p', List.mem_cons_of_mem _ hp', rest⟩
        | some q0 =>
          obtain ⟨hs, hl⟩ := filterPep_some_sub c p q0 hp
          constructor
          · simp only [List.map_cons, hs]
            exact List.Sublist.cons₂ _ h1
          · intro q hq
            rcases List.mem_cons.mp hq with rfl | hq
            · exact ⟨p, List.mem_cons_self, hs, hl⟩
            · obtain ⟨p', hp', rest⟩ := h2 q hq
              exact ⟨p', List.mem_cons_of_mem _ hp', rest⟩

/-- well-formedness needed for idempotence: normalising a normalised entry changes nothing
(`str ∘ parse` is idempotent on it).  Decidable for every concrete entry. -/
def NormIdem (e : Entry) : Prop := ∀ l, normLabel e = .ok l → normLabel l = .ok l

theorem filterPep_idem (c : FCfg) (p q : PRec) (hwf : ∀ e ∈ p.header, NormIdem e)
    (h : filterPep c p = .ok (some q)) : filterPep c q = .ok (some q) := by
  rcases filterPep_spec c p _ h with ⟨_, hr⟩ | ⟨hm, labels, hn, _, hcase⟩
  · cases hr
  · rcases hcase with ⟨_, hr⟩ | ⟨hne, hr⟩
    · cases hr
    · cases hr
      have hfix : ∀ l ∈ labels.filter (keptB c (isDenied c p.seq)), normLabel l = .ok l := by
        intro l hl
        obtain ⟨e, he, hnl⟩ := normHeader_mem _ _ hn l (List.mem_filter.mp hl).1
        exact hwf e he l hnl
      have hkeep : ∀ l ∈ labels.filter (keptB c (isDenied c p.seq)),
          keepEntry c (isDenied c p.seq) l = .ok true :=
        fun l hl => keptB_iff.mp (List.mem_filter.mp hl).2
      unfold filterPep
      simp only [hm, Bool.not_true, Bool.false_eq_true, if_false]
      rw [normHeader_fix _ hfix]
      simp only
      rw [keepLabels_all _ _ _ hkeep]
      cases hf : labels.filter (keptB c (isDenied c p.seq)) with
      | nil => exact absurd hf hne
      | cons k ks => rfl

/-- **filter_idem.** Filtering a filtered pool again with the same options returns it unchanged
(for pools whose header entries are stable under `str ∘ parse`). -/
theorem filter_idem (c : FCfg) (pool out : List PRec)
    (hwf : ∀ p ∈ pool, ∀ e ∈ p.header, NormIdem e)
    (h : filterPool c pool = .ok out) : filterPool c out = .ok out := by
  apply filterPool_fix
  intro q hq
  obtain ⟨hall, heq⟩ := filterPool_spec c pool out h
  rw [heq] at hq
  obtain ⟨p, hp, hpq⟩ := List.mem_filterMap.mp hq
  obtain ⟨r, hr⟩ := hall p hp
  rw [hr] at hpq
  simp only at hpq
  subst hpq
  exact filterPep_idem c p q (hwf p hp) hr

/-- generic monotonicity: if `c'` accepts no more miscleavage counts and no more entries than
`c` (same denylist), its output is a sub-collection of `c`'s output -/
theorem filterPool_mono (c c' : FCfg)
    (hm : ∀ s, miscOk c' s = true → miscOk c s = true)
    (hd : ∀ s, isDenied c' s = isDenied c s)
    (hk : ∀ d l, keepEntry c' d l = .ok true → ∀ b, keepEntry c d l = .ok b → b = true) :
    ∀ (pool out out' : List PRec), filterPool c pool = .ok out → filterPool c' pool = .ok out' →
      PoolSub out' out := by
  have hpep : ∀ p q' r, filterPep c' p = .ok (some q') → filterPep c p = .ok r →
      ∃ q, r = some q ∧ q.seq = q'.seq ∧ q'.header.Sublist q.header := by
    intro p q' r h' h
    rcases filterPep_spec c' p _ h' with ⟨_, hr⟩ | ⟨hm', labels', hn', _, hcase'⟩
    · cases hr
    rcases hcase' with ⟨_, hr⟩ | ⟨hne', hr'⟩
    · cases hr
    cases hr'
    rcases filterPep_spec c p _ h with ⟨hmf, _⟩ | ⟨_, labels, hn, hall, hcase⟩
    · rw [hm _ hm'] at hmf; cases hmf
    rw [hn'] at hn; cases hn
    have hsub : (labels'.filter (keptB c' (isDenied c' p.seq))).Sublist
        (labels'.filter (keptB c (isDenied c p.seq))) := by
      apply filter_sublist_of_imp
      intro l hl hkl
      obtain ⟨b, hb⟩ := hall l hl
      rw [hd] at hkl
      have := hk _ l (keptB_iff.mp hkl) b hb
      subst this
      exact keptB_iff.mpr hb
    rcases hcase with ⟨hnil, _⟩ | ⟨_, hr⟩
    · rw [hnil] at hsub
      exact absurd (List.sublist_nil.mp hsub) hne'
    · exact ⟨_, hr, rfl, hsub⟩
  intro pool
  induction pool with
  | nil =>
    intro out out' h h'
    simp [filterPool] at h h'
    subst h; subst h'
    exact ⟨by simp, by simp⟩
  | cons p ps ih =>
    intro out out' h h'
    simp only [filterPool] at h h'
    cases hp : filterPep c p with
    | error e => simp [hp] at h
    | ok r =>
      cases hp' : filterPep c' p with
      | error e => simp [hp'] at h'
      | ok r' =>
        simp only [hp] at h
        simp only [hp'] at h'
        cases hr : filterPool c ps with
        | error e => simp [hr] at h
        | ok rs =>
          cases hr' : filterPool c' ps with
          | error e => simp [hr'] at h'
          | ok rs' =>
            simp only [hr] at h
            simp only [hr'] at h'
            obtain ⟨i1, i2⟩ := ih rs rs' hr hr'
            cases h; cases h'
            cases r' with
            | none =>
              cases r with
              | none => exact ⟨i1, i2⟩
              | some q =>
                refine ⟨List.Sublist.cons _ i1, ?_⟩
                intro q' hq'
                obtain ⟨q0, hq0, rest⟩ := i2 q' hq'
                exact ⟨q0, List.mem_cons_of_mem _ hq0, rest⟩
            | some q' =>
              obtain ⟨q, hq, hs, hl⟩ := hpep p q' r hp' hp
              subst hq
              constructor
              · simp only [List.map_cons, hs]
                exact List.Sublist.cons₂ _ i1
              · intro q'' hq''
                rcases List.mem_cons.mp hq'' with rfl | hq''
                · exact ⟨q, List.mem_cons_self, hs, hl⟩
                · obtain ⟨q0, hq0, rest⟩ := i2 q'' hq''
                  exact ⟨q0, List.mem_cons_of_mem _ hq0, rest⟩

theorem keepRule_mono_cutoff (c : FCfg) (k k' : Int) (hc : c.cutoff = some k) (hkk : k ≤ k')
    (denied : Bool) (v : EntryView) (h : KeepRule { c with cutoff := some k' } denied v) :
    KeepRule c denied v := by
  obtain ⟨h1, h2⟩ := h
  refine ⟨h1, ?_⟩
  rcases h2 with h2 | h2 | h2 | h2 | h2 | h2 | ⟨tab, ht, h2⟩
  · exact Or.inl h2
  · exact Or.inr (Or.inl h2)
  · exact Or.inr (Or.inr (Or.inl h2))
  · exact Or.inr (Or.inr (Or.inr (Or.inl h2)))
  · exact Or.inr (Or.inr (Or.inr (Or.inr (Or.inl h2))))
  · exact Or.inr (Or.inr (Or.inr (Or.inr (Or.inr (Or.inl h2)))))
  · refine Or.inr (Or.inr (Or.inr (Or.inr (Or.inr (Or.inr ⟨tab, ht, ?_⟩)))))
    intro t ht'
    obtain ⟨x, k'', hx, hk'', hle⟩ := h2 t ht'
    simp only [Option.some.injEq] at hk''
    subst hk''
    exact ⟨x, k, hx, hc, Int.le_trans hkk hle⟩

/-- **filter_mono_cutoff.** A stricter (higher) cutoff never keeps more: the output under the
higher cutoff is a sub-collection of the output under the lower one. -/
theorem filter_mono_cutoff (c : FCfg) (k k' : Int) (hc : c.cutoff = some k) (hkk : k ≤ k')
    (pool out out' : List PRec)
    (h : filterPool c pool = .ok out)
    (h' : filterPool { c with cutoff := some k' } pool = .ok out') : PoolSub out' out := by
  refine filterPool_mono c { c with cutoff := some k' } (fun _ hm => hm) (fun _ => rfl) ?_
    pool out out' h h'
  intro d l hk' b hb
  obtain ⟨v', hv', hiff'⟩ := filter_entry_iff _ d l true hk'
  obtain ⟨v, hv, hiff⟩ := filter_entry_iff c d l b hb
  rw [hv'] at hv; cases hv
  exact hiff.mpr (keepRule_mono_cutoff c k k' hc hkk d v' (hiff'.mp rfl))

/-- `[lo', hi']` is inside `[lo, hi]` (`none` = unbounded) -/
def RangeNarrower (lo hi lo' hi' : Option Int) : Prop :=
  (∀ a, lo = some a → ∃ a', lo' = some a' ∧ a ≤ a') ∧
  (∀ b, hi = some b → ∃ b', hi' = some b' ∧ b' ≤ b)

/-- **filter_mono_misc.** A narrower miscleavage range never keeps more. -/
theorem filter_mono_misc (c : FCfg) (lo' hi' : Option Int)
    (hn : RangeNarrower c.miscLo c.miscHi lo' hi')
    (pool out out' : List PRec)
    (h : filterPool c pool = .ok out)
    (h' : filterPool { c with miscLo := lo', miscHi := hi' } pool = .ok out') :
    PoolSub out' out := by
  refine filterPool_mono c { c with miscLo := lo', miscHi := hi' } ?_ (fun _ => rfl) ?_
    pool out out' h h'
  · intro s hm
    unfold miscOk at hm ⊢
    have hmc : miscCount { c with miscLo := lo', miscHi := hi' } s = miscCount c s := rfl
    simp only [Bool.and_eq_true, hmc] at hm ⊢
    obtain ⟨hn1, hn2⟩ := hn
    constructor
    · cases hlo : c.miscLo with
      | none => rfl
      | some a =>
        obtain ⟨a', ha', hle⟩ := hn1 a hlo
        have := hm.1
        simp only [ha', decide_eq_true_eq] at this
        simp only [decide_eq_true_eq]
        exact Int.le_trans hle this
    · cases hhi : c.miscHi with
      | none => rfl
      | some b =>
        obtain ⟨b', hb', hle⟩ := hn2 b hhi
        have := hm.2
        simp only [hb', decide_eq_true_eq] at this
        simp only [decide_eq_true_eq]
        exact Int.le_trans this hle
  · intro d l hk' b hb
    have : keepEntry { c with miscLo := lo', miscHi := hi' } d l = keepEntry c d l := rfl
    rw [this] at hk'
    rw [hk'] at hb
    cases hb; rfl

/-! ## non-vacuity -/

section examples
def s (x : String) : Field := x.toList

def tab0 : List (Field × Int) := [(s "T1", 5000), (s "T2", 500), (s "T1", 12000)]
def cfg0 : FCfg :=
  { exprs := some tab0, cutoff := some 10000, coding := [s "T1"], keepNoncoding := false,
    keepCoding := false, keepCanonical := false, denylist := some [s "DENIED"], miscLo := some 0,
    miscHi := some 2, rule := [], exc := none }

/-- last assignment wins in the table; T1 (12.0 ≥ 10.0) is kept, T2 is not, the fusion is -/
example : keepEntry cfg0 false [s "T1", s "SNV-1-A-T", s "1"] = .ok true := by decide
example : keepEntry cfg0 false [s "T2", s "SNV-1-A-T", s "1"] = .ok false := by decide
example : keepEntry cfg0 false [s "FUSION-T2:1-T2:9", s "1"] = .ok true := by decide
example : keepEntry cfg0 true [s "T1", s "SNV-1-A-T", s "1"] = .ok false := by decide
example : keepEntry { cfg0 with keepCanonical := true } true [s "T1", s "SNV-1-A-T", s "1"] =
    .ok true := by decide
/-- a missing transcript is a KeyError, not a decision -/
example : keepEntry cfg0 false [s "T9", s "SNV-1-A-T", s "1"] = .error .keyError := by decide

/-- `SECT-…` (selenocysteine termination) is not splice-altering although it contains `SE`
(it was, before the `fix:`) -/
example : (Ident.mk .base (s "T2") none [s "SECT-5"] [] [] none (some 1)).isSpliceAltering = false ∧
    (Ident.mk .base (s "T2") none [s "SE-5-9"] [] [] none (some 1)).isSpliceAltering = true := by
  decide

/-- entries of the documented grammar are `NormIdem` … -/
example : normLabel [s "T1", s "SNV-1-A-T", s "W2F-3", s "ORF2", s "4"] =
    .ok [s "T1", s "SNV-1-A-T", s "W2F-3", s "ORF2", s "4"] := by decide
example : normLabel [s "T1", s "G1", s "W2F-3", s "ORF2", s "4"] =
    .ok [s "T1", s "G1", s "W2F-3", s "ORF2", s "4"] := by decide
/-- … a novel-ORF entry without gene id is not: each pass adds a field -/
example : normLabel [s "T1", s "W2F-3", s "ORF2", s "4"] =
    .ok [s "T1", s "W2F-3", s "W2F-3", s "ORF2", s "4"] := by decide

example : RangeNarrower (some 0) (some 2) (some 1) (some 2) := by
  refine ⟨fun a h => ⟨1, rfl, ?_⟩, fun b h => ⟨2, rfl, ?_⟩⟩
  · cases h; decide
  · cases h; decide
end examples

end MoPepGen.Props.C19
