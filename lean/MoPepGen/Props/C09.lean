import MoPepGen.Props.C05
/-!
# C09 — callAltTranslation = definitional alt-translation digest  (PARTIAL: equality with the
real traversal is decided per input by `harness/c09.py`)
-/
namespace MoPepGen.Props.C09
open MoPepGen MoPepGen.Spec

/-- S, declarative: `p` is reported iff it is a product form of the annotated ORF's translation
under the requested flags, is NOT a product form without them, and is not canonical. -/
theorem altTranslation_spec (g : Cfg) (t : TxIn) (p : Pep) :
    p ∈ altTranslationPeptides g t ↔
      p ∈ peptidesOf g t t.seq t.sec t.endNF ∧
      p ∉ peptidesOf { g with sect := false, w2f := false } t t.seq t.sec t.endNF ∧
      p ∉ g.canonical := by
  simp only [altTranslationPeptides, List.mem_filter, Bool.and_eq_true, Bool.not_eq_true',
    List.contains_eq_mem, decide_eq_false_iff_not]

/-- ALT ONLY: nothing reported is a plain digestion product of the transcript -/
theorem alt_only (g : Cfg) (t : TxIn) (p : Pep) (h : p ∈ altTranslationPeptides g t) :
    p ∉ peptidesOf { g with sect := false, w2f := false } t t.seq t.sec t.endNF :=
  ((altTranslation_spec g t p).mp h).2.1

/-- with neither flag nothing is reported -/
theorem no_flags_nothing (g : Cfg) (t : TxIn) (hs : g.sect = false) (hw : g.w2f = false) :
    altTranslationPeptides g t = [] := by
  have e : ({ g with sect := false, w2f := false } : Cfg) = g := by
    cases g; simp_all
  apply List.eq_nil_iff_forall_not_mem.mpr
  intro p hp
  have := alt_only g t p hp
  rw [e] at this
  exact this ((altTranslation_spec g t p).mp hp).1

/-- what the flags can contribute to the forms of one protein: every reported form is a raw
product, a Sec-terminated prefix of one (only with the SECT flag), or a W→F image of those
(only with the W2F flag) -/
theorem form_origin (g : Cfg) (prot : Pep) (nf closed endNF : Bool) (p : Pep)
    (h : p ∈ productForms g prot nf closed endNF) :
    (p ∈ rawProducts g.cleave prot nf (endNF && !closed)) ∨
    (g.sect = true ∧ ∃ r ∈ rawProducts g.cleave prot nf (endNF && !closed), p ∈ sectForms r) ∨
    (g.w2f = true ∧ ∃ b, p ∈ w2fImages b ∧
      (b ∈ rawProducts g.cleave prot nf (endNF && !closed) ∨
        (g.sect = true ∧ ∃ r ∈ rawProducts g.cleave prot nf (endNF && !closed), b ∈ sectForms r))) := by
  simp only [productForms, List.mem_filter] at h
  obtain ⟨hm, _⟩ := h
  have hbase : ∀ q, q ∈ (rawProducts g.cleave prot nf (endNF && !closed) ++
        (if g.sect = true then (rawProducts g.cleave prot nf (endNF && !closed)).flatMap sectForms
          else [])) →
      (q ∈ rawProducts g.cleave prot nf (endNF && !closed)) ∨
      (g.sect = true ∧ ∃ r ∈ rawProducts g.cleave prot nf (endNF && !closed), q ∈ sectForms r) := by
    intro q hq
    rcases List.mem_append.mp hq with hq | hq
    · exact Or.inl hq
    · by_cases hs : g.sect = true
      · rw [if_pos hs] at hq
        obtain ⟨r, hr, hq⟩ := List.mem_flatMap.mp hq
        exact Or.inr ⟨hs, r, hr, hq⟩
      · rw [if_neg hs] at hq; cases hq
  by_cases hw : g.w2f = true
  · rw [if_pos hw] at hm
    rcases List.mem_append.mp hm with hm | hm
    · rcases hbase p hm with h1 | h1
      · exact Or.inl h1
      · exact Or.inr (Or.inl h1)
    · obtain ⟨b, hb, hp⟩ := List.mem_flatMap.mp hm
      exact Or.inr (Or.inr ⟨hw, b, hp, hbase b hb⟩)
  · rw [if_neg hw] at hm
    rcases hbase p hm with h1 | h1
    · exact Or.inl h1
    · exact Or.inr (Or.inl h1)

/-- every W→F image differs from its source in at least one position, turning W into F there -/
theorem w2f_image_differs (b p : Pep) (h : p ∈ w2fImages b) : p ≠ b ∧ p.length = b.length := by
  unfold w2fImages at h
  have key : ∀ (b : Pep) (q : Pep) (f : Bool), (q, f) ∈ w2fImages.go b →
      q.length = b.length ∧ (f = true → q ≠ b) := by
    intro b
    induction b with
    | nil => intro q f hq; simp [w2fImages.go] at hq; simp [hq.1, hq.2]
    | cons c cs ih =>
      intro q f hq
      simp only [w2fImages.go] at hq
      split at hq
      · rename_i hc
        simp only [List.mem_append, List.mem_map, Prod.mk.injEq] at hq
        rcases hq with ⟨⟨q', f'⟩, hm, rfl, rfl⟩ | ⟨⟨q', f'⟩, hm, rfl, rfl⟩
        · have := ih q' f' hm
          refine ⟨by simp [this.1], ?_⟩
          intro hf heq
          simp only [List.cons.injEq, true_and] at heq
          exact this.2 hf heq
        · have := ih q' f' hm
          refine ⟨by simp [this.1], ?_⟩
          intro _ heq
          simp only [List.cons.injEq] at heq
          have hcw : c = 'W' := by simpa using hc
          rw [hcw] at heq
          exact absurd heq.1 (by decide)
      · simp only [List.mem_map, Prod.mk.injEq] at hq
        obtain ⟨⟨q', f'⟩, hm, rfl, rfl⟩ := hq
        have := ih q' f' hm
        refine ⟨by simp [this.1], ?_⟩
        intro hf heq
        simp only [List.cons.injEq, true_and] at heq
        exact this.2 hf heq
  simp only [List.mem_filterMap] at h
  obtain ⟨⟨q, f⟩, hm, hq⟩ := h
  cases f with
  | false => simp at hq
  | true =>
    simp at hq
    subst hq
    have := key b q true hm
    exact ⟨this.2 rfl, this.1⟩

example : w2fImages "AWKW".toList = ["AWKF".toList, "AFKW".toList, "AFKF".toList] := by decide
example : sectForms "ACUDEUK".toList = ["AC".toList, "ACUDE".toList] := by decide

end MoPepGen.Props.C09
