import MoPepGen.Props.C05
/-!
# C08 — callNovelORF = definitional ORF digest  (PARTIAL: equality with the real traversal is
decided per input by `harness/c08.py`)

Proved: the oracle `Spec.novelOrfPeptides` is the statement of the property (every ATG in
three frames to the next stop or the transcript end, digest, Met-removed twin, W→F forms when
requested, limits, minus the canonical pool); and the transcript-selection rule.
-/
namespace MoPepGen.Props.C08
open MoPepGen MoPepGen.Spec

/-- the transcript as callNovelORF reads it: no known ORF, no NF tags, no Sec -/
def asNoncoding (seq : List Char) : TxIn :=
  { seq := seq, coding := false, orfStart := 0, orfEnd := 0, startNF := false, endNF := false,
    sec := [] }

/-- S: `p` is a plain (no Sec termination, no W→F) product form of the translation from some
`ATG` to the next stop or the end of the transcript, within the limits -/
def PlainOrfProduct (g : Cfg) (seq : List Char) (p : Pep) : Prop :=
  ∃ s ∈ startCodons seq,
    p ∈ productForms { g with sect := false, w2f := false } (proteinFrom seq [] s).1 false
          (proteinFrom seq [] s).2 false

theorem mem_plain (g : Cfg) (seq : List Char) (p : Pep) :
    p ∈ peptidesOf { g with sect := false, w2f := false } (asNoncoding seq) seq [] false ↔
      PlainOrfProduct g seq p := by
  simp [peptidesOf, orfStarts, asNoncoding, PlainOrfProduct]

/-- S, declarative: `p` is reported iff it is a non-canonical plain ORF product, or (with W→F)
a valid, non-canonical W→F image of a non-canonical plain ORF product. -/
theorem novelOrf_spec (g : Cfg) (seq : List Char) (p : Pep) :
    p ∈ novelOrfPeptides g seq ↔
      (PlainOrfProduct g seq p ∧ p ∉ g.canonical) ∨
      (g.w2f = true ∧ pepOk g.cleave p = true ∧ p ∉ g.canonical ∧
        ∃ b, PlainOrfProduct g seq b ∧ b ∉ g.canonical ∧ p ∈ w2fImages b) := by
  have hplain : ∀ q, q ∈ (peptidesOf { g with sect := false, w2f := false }
      { seq := seq, coding := false, orfStart := 0, orfEnd := 0, startNF := false,
        endNF := false, sec := [] } seq [] false).filter (fun p => !g.canonical.contains p) ↔
      PlainOrfProduct g seq q ∧ q ∉ g.canonical := by
    intro q
    rw [List.mem_filter, ← mem_plain]
    simp [asNoncoding]
  unfold novelOrfPeptides
  simp only []
  generalize hP : (peptidesOf { g with sect := false, w2f := false }
      { seq := seq, coding := false, orfStart := 0, orfEnd := 0, startNF := false,
        endNF := false, sec := [] } seq [] false).filter (fun p => !g.canonical.contains p) = plain
  have hpl : ∀ q, q ∈ plain ↔ PlainOrfProduct g seq q ∧ q ∉ g.canonical := by
    intro q; rw [← hP]; exact hplain q
  by_cases hw : g.w2f = true
  · rw [if_pos hw]
    simp only [List.mem_append, hpl, hw, true_and]
    constructor
    · rintro (h | h)
      · exact Or.inl h
      · rw [List.mem_filter] at h
        obtain ⟨hm, hok⟩ := h
        obtain ⟨b, hb, hp⟩ := List.mem_flatMap.mp hm
        simp only [Bool.and_eq_true, Bool.not_eq_true', List.contains_eq_mem,
          decide_eq_false_iff_not] at hok
        exact Or.inr ⟨hok.1, hok.2, b, ((hpl b).mp hb).1, ((hpl b).mp hb).2, hp⟩
    · rintro (h | ⟨hok, hc, b, hb1, hb2, hp⟩)
      · exact Or.inl h
      · right
        rw [List.mem_filter]
        refine ⟨List.mem_flatMap.mpr ⟨b, (hpl b).mpr ⟨hb1, hb2⟩, hp⟩, ?_⟩
        simp only [Bool.and_eq_true, Bool.not_eq_true', List.contains_eq_mem,
          decide_eq_false_iff_not]
        exact ⟨hok, hc⟩
  · rw [if_neg hw]
    simp only [hpl, hw, false_and, or_false, Bool.false_eq_true]

/-- a start codon is exactly an `ATG` inside the transcript -/
theorem mem_startCodons (seq : List Char) (i : Nat) :
    i ∈ startCodons seq ↔
      i < seq.length ∧ seq[i]? = some 'A' ∧ seq[i+1]? = some 'T' ∧ seq[i+2]? = some 'G' := by
  simp [startCodons, and_assoc]

/-- nothing canonical is reported, everything reported is within the limits -/
theorem novelOrf_hygiene (g : Cfg) (seq : List Char) (p : Pep) (h : p ∈ novelOrfPeptides g seq) :
    p ∉ g.canonical ∧ pepOk g.cleave p = true := by
  rcases (novelOrf_spec g seq p).mp h with ⟨⟨s, _, hp⟩, hc⟩ | ⟨_, hok, hc, _⟩
  · refine ⟨hc, ?_⟩
    simp only [productForms, List.mem_filter] at hp
    exact hp.2
  · exact ⟨hc, hok⟩

/-- enabling W→F only adds peptides -/
theorem novelOrf_mono_w2f (g : Cfg) (seq : List Char) (p : Pep)
    (h : p ∈ novelOrfPeptides { g with w2f := false } seq) :
    p ∈ novelOrfPeptides { g with w2f := true } seq := by
  rw [novelOrf_spec] at h ⊢
  rcases h with h | ⟨hw, _⟩
  · exact Or.inl h
  · cases hw

/-! ### transcript selection (`call_novel_orf_peptide`, after the `fix:` `pass` → `continue`) -/

structure TxMeta where
  coding : Bool
  biotype : String
  inProteome : Bool
  len : Nat

structure SelOpts where
  codingNovelOrf : Bool
  inclusion : List String
  exclusion : List String
  minTxLength : Nat

/-- M: the selection loop -/
def selected (o : SelOpts) (m : TxMeta) : Bool :=
  if m.coding then o.codingNovelOrf
  else
    if !o.inclusion.isEmpty && !o.inclusion.contains m.biotype then false
    else if !o.exclusion.isEmpty && o.exclusion.contains m.biotype then false
    else if m.inProteome then false
    else if m.len < o.minTxLength then false
    else true

/-- coding transcripts are processed only with `--coding-novel-orf`; a non-coding transcript
iff it passes the biotype inclusion/exclusion lists, is not in the proteome and is long enough -/
theorem select_spec (o : SelOpts) (m : TxMeta) :
    selected o m = true ↔
      (m.coding = true ∧ o.codingNovelOrf = true) ∨
      (m.coding = false ∧ (o.inclusion = [] ∨ m.biotype ∈ o.inclusion) ∧
        (o.exclusion = [] ∨ m.biotype ∉ o.exclusion) ∧ m.inProteome = false ∧
        o.minTxLength ≤ m.len) := by
  unfold selected
  cases hc : m.coding <;> cases hp : m.inProteome <;>
    by_cases hi : o.inclusion = [] <;> by_cases he : o.exclusion = [] <;>
    by_cases h1 : m.biotype ∈ o.inclusion <;> by_cases h2 : m.biotype ∈ o.exclusion <;>
    by_cases h3 : m.len < o.minTxLength <;>
    simp_all <;> omega

example : selected ⟨false, [], ["IG_V_gene"], 21⟩ ⟨true, "protein_coding", true, 900⟩ = false := by
  decide
example : selected ⟨false, [], ["IG_V_gene"], 21⟩ ⟨false, "lncRNA", false, 900⟩ = true := by
  decide

end MoPepGen.Props.C08
