import MoPepGen.Props.C02
import MoPepGen.Generated.Expasy
import MoPepGen.Generated.Weights
/-!
# C03 — FASTA headers are truthful witnesses  (PARTIAL: label bookkeeping of the traversal
is not modelled; every emitted (peptide, entry) pair is validated by `Spec.witness`)

Proved: the witness predicate means what the property says (C02 `witness_sound`); the
"completion" the harness uses to describe a failing entry is sound; and the per-call label
counter (`VariantPeptideDict.get_peptide_sequences`: `labels[label] += 1; label|k`) never
issues the same entry string twice.
-/
namespace MoPepGen.Props.C03
open MoPepGen MoPepGen.Spec MoPepGen.Props.C01 MoPepGen.Props.C02

/-- an accepted entry names only records of the input and is a witness in the property's sense -/
theorem entry_truthful (g : Cfg) (t : TxIn) (vs : List Var) (ids : List Nat) (p : Pep)
    (h : witness g t vs ids p = true) :
    (∀ i ∈ ids, ∃ w ∈ vs, ∃ v, usable t w = some v ∧ i ∈ v.ids) ∧
      RealizableByRecords g t vs ids p := by
  have hr := witness_sound g t vs ids p h
  refine ⟨?_, hr⟩
  obtain ⟨hh, hin, _, _, hcov, _⟩ := hr
  intro i hi
  obtain ⟨v, hv, hiv⟩ := hcov i hi
  obtain ⟨w, hw, hu⟩ := hin v hv
  exact ⟨w, hw, v, hu, hiv⟩

/-- if the completion analysis returns a set of ids, some compatible combination containing the
named records yields the peptide (so the entry "omits" records rather than naming wrong ones) -/
theorem completion_sound (g : Cfg) (t : TxIn) (vs : List Var) (ids extra : List Nat) (p : Pep)
    (h : witnessCompletion g t vs ids p = some extra) :
    ∃ hp ∈ haplotypes t vs, (∀ i ∈ ids, i ∈ hp.flatMap (·.ids)) ∧ ProductOf g t hp p := by
  unfold witnessCompletion at h
  generalize hc : (haplotypes t vs).filter (fun h =>
    ids.all (h.flatMap (·.ids)).contains &&
      (peptidesOf g t (applyHap t.seq h) (secAfter t.sec h) t.endNF).contains p) = cands at h
  cases cands with
  | nil => simp at h
  | cons c cs =>
    have hm : c ∈ (haplotypes t vs).filter (fun h =>
        ids.all (h.flatMap (·.ids)).contains &&
          (peptidesOf g t (applyHap t.seq h) (secAfter t.sec h) t.endNF).contains p) := by
      rw [hc]; simp
    simp only [List.mem_filter, Bool.and_eq_true, List.all_eq_true, List.contains_iff_mem] at hm
    exact ⟨c, hm.1, hm.2.1, hm.2.2⟩

/-! ### the label counter -/

/-- M: `labels[label] += 1; label += f"|{labels[label]}"` over the base labels in the order
they are emitted by one `get_peptide_sequences` call (`seen` = the labels counted so far) -/
def numberFrom (seen : List String) : List String → List (String × Nat)
  | [] => []
  | b :: bs => (b, seen.count b + 1) :: numberFrom (b :: seen) bs

theorem numberFrom_gt (seen bs : List String) :
    ∀ e ∈ numberFrom seen bs, seen.count e.1 < e.2 := by
  induction bs generalizing seen with
  | nil => simp [numberFrom]
  | cons b bs ih =>
    intro e he
    simp only [numberFrom, List.mem_cons] at he
    rcases he with rfl | he
    · simp
    · have := ih (b :: seen) e he
      by_cases hb : b = e.1
      · subst hb; simp at this; omega
      · rw [List.count_cons_of_ne hb] at this; exact this

/-- every entry string `label|k` is issued at most once per call -/
theorem label_counter_distinct (bs : List String) : (numberFrom [] bs).Nodup := by
  suffices h : ∀ seen, (numberFrom seen bs).Nodup from h []
  induction bs with
  | nil => intro seen; simp [numberFrom]
  | cons b bs ih =>
    intro seen
    simp only [numberFrom, List.nodup_cons]
    refine ⟨?_, ih _⟩
    intro hmem
    have := numberFrom_gt (b :: seen) bs _ hmem
    simp at this

example : numberFrom [] ["T|v", "T|w", "T|v"] = [("T|v", 1), ("T|w", 1), ("T|v", 2)] := by decide

/-! ### circRNA backbones -/

/-- `callCirc` is the union, over the empty and every compatible combination of the records
usable inside the circle, of `circPeptides`, minus the host's products and the canonical set:
the witness predicate below speaks about exactly the inner expression of the definition -/
theorem callCirc_unfold (g : Cfg) (c : List Char) (vs : List Var) (deny : List Pep) :
    callCirc g c vs deny =
      (([] :: haplotypes (circHost c) vs).flatMap (circPeptides g c)).filter fun p =>
        !deny.contains p && !g.canonical.contains p := rfl

/-- S: what an entry on a circRNA backbone asserts: the named records — usable records of the
input inside the circle, mutually compatible, exactly these — are applied to the ONE molecule
(every pass around the circle carries them) and `p` is a product form of its translation -/
def CircRealizableByRecords (g : Cfg) (c : List Char) (vs : List Var) (ids : List Nat) (p : Pep) : Prop :=
  ∃ h : List Var, (∀ v ∈ h, ∃ w ∈ vs, usable (circHost c) w = some v) ∧ separatedOrPaired h = true ∧
    (∀ v ∈ h, ∀ i ∈ v.ids, i ∈ ids) ∧ (∀ i ∈ ids, ∃ v ∈ h, i ∈ v.ids) ∧ p ∈ circPeptides g c h

/-- an accepted circRNA entry names only records of the input and is a witness in the
property's sense (same records in every pass) -/
theorem circ_entry_truthful (g : Cfg) (c : List Char) (vs : List Var) (ids : List Nat) (p : Pep)
    (h : witnessCirc g c vs ids p = true) :
    (∀ i ∈ ids, ∃ w ∈ vs, ∃ v, usable (circHost c) w = some v ∧ i ∈ v.ids) ∧
      CircRealizableByRecords g c vs ids p := by
  simp only [witnessCirc, Bool.and_eq_true, List.all_eq_true, List.any_eq_true,
    List.contains_iff_mem] at h
  obtain ⟨⟨hcover, hsep⟩, hp⟩ := h
  have hr : CircRealizableByRecords g c vs ids p := by
    refine ⟨_, ?_, hsep, ?_, ?_, hp⟩
    · intro v hv
      have hv' := (List.mem_filter.mp hv).1
      rw [mem_sortByStart] at hv'
      obtain ⟨w, hw, hu⟩ := List.mem_filterMap.mp hv'
      exact ⟨w, hw, hu⟩
    · intro v hv i hi
      have := (List.mem_filter.mp hv).2
      simp only [List.all_eq_true, List.contains_iff_mem] at this
      exact this i hi
    · intro i hi
      obtain ⟨v, hv, hiv⟩ := hcover i hi
      exact ⟨v, hv, by simpa using hiv⟩
  refine ⟨?_, hr⟩
  obtain ⟨hh, hin, _, _, hcov, _⟩ := hr
  intro i hi
  obtain ⟨v, hv, hiv⟩ := hcov i hi
  obtain ⟨w, hw, hu⟩ := hin v hv
  exact ⟨w, hw, v, hu, hiv⟩

/-- if the completion analysis returns a set of ids, the empty or some compatible combination
containing the named records yields the peptide on the circle; if the peptide is neither a
product of the host nor canonical it is then a member of the DEFINITION `callCirc` -/
theorem circ_completion_sound (g : Cfg) (c : List Char) (vs : List Var) (ids extra : List Nat)
    (p : Pep) (deny : List Pep)
    (h : witnessCircCompletion g c vs ids p = some extra) :
    (∃ hp ∈ [] :: haplotypes (circHost c) vs,
        (∀ i ∈ ids, i ∈ hp.flatMap (·.ids)) ∧ p ∈ circPeptides g c hp) ∧
      (deny.contains p = false → g.canonical.contains p = false → p ∈ callCirc g c vs deny) := by
  unfold witnessCircCompletion at h
  generalize hc : ([] :: haplotypes (circHost c) vs).filter (fun h =>
    ids.all (h.flatMap (·.ids)).contains && (circPeptides g c h).contains p) = cands at h
  cases cands with
  | nil => simp at h
  | cons x xs =>
    have hm : x ∈ ([] :: haplotypes (circHost c) vs).filter (fun h =>
        ids.all (h.flatMap (·.ids)).contains && (circPeptides g c h).contains p) := by
      rw [hc]; simp
    simp only [List.mem_filter, Bool.and_eq_true, List.all_eq_true, List.contains_iff_mem] at hm
    refine ⟨⟨x, hm.1, hm.2.1, hm.2.2⟩, ?_⟩
    intro hd hcn
    rw [callCirc_unfold]
    simp only [List.mem_filter, List.mem_flatMap, Bool.and_eq_true, Bool.not_eq_true', hd, hcn,
      and_self, and_true]
    exact ⟨x, hm.1, hm.2.2⟩

/-! non-vacuity: a 24-nt circle `ATG GCT GCT GCT GCT GCT AAG TGA` (M A A A A A K *), one SNV
`C>A` in the second codon (A → D): the entry naming the record is accepted for `MDAAAAK`, the
entry naming nothing is not, and the completion analysis says which record is missing -/
def exCircCfg : Cfg :=
  { cleave := { rule := (Generated.expasyRules.lookup "trypsin").getD [], exc := none, misc := 0,
                minMw := 0, minLen := 7, maxLen := 25,
                tab := Generated.proteinWeights, water := Generated.waterWeight },
    sect := false, w2f := false, canonical := [] }
def exCirc : List Char := "ATGGCTGCTGCTGCTGCTAAGTGA".toList
def exCircVar : Var := { start := 4, stop := 5, ref := ['C'], alt := ['A'], cls := .snv, ids := [0] }

example : witnessCirc exCircCfg exCirc [exCircVar] [0] "MDAAAAK".toList = true := by decide
example : witnessCirc exCircCfg exCirc [exCircVar] [] "MDAAAAK".toList = false := by decide
example : witnessCircCompletion exCircCfg exCirc [exCircVar] [] "MDAAAAK".toList = some [0] := by decide
example : "MDAAAAK".toList ∈ callCirc exCircCfg exCirc [exCircVar] [] :=
  (circ_completion_sound exCircCfg exCirc [exCircVar] [] [0] _ [] (by decide)).2 (by decide) (by decide)

end MoPepGen.Props.C03
