import MoPepGen.Spec.CallVariant
namespace MoPepGen.Props.C03
theorem placeholder : True := trivial
end MoPepGen.Props.C03
