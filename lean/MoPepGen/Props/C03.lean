import MoPepGen.Props.C02
/-!
# C03 — FASTA headers are truthful witnesses  (PARTIAL: label bookkeeping of the traversal
is not modelled; every emitted (peptide, entry) pair is validated by `Spec.witness`)

Proved: the witness predicate means what the property says (C02 `witness_sound`); the
"completion" the harness uses to describe a failing entry is sound; and the per-call label
counter (`VariantPeptideDict.get_peptide_sequences`: `labels[label] += 1; label|k`) never
issues the same entry string twice.
-/
namespace MoPepGen.Props.C03
open MoPepGen MoPepGen.Spec MoPepGen.Props.C01 MoPepGen.Props.C02

/-- an accepted entry names only records of the input and is a witness in the property's sense -/
theorem entry_truthful (g : Cfg) (t : TxIn) (vs : List Var) (ids : List Nat) (p : Pep)
    (h : witness g t vs ids p = true) :
    (∀ i ∈ ids, ∃ w ∈ vs, ∃ v, usable t w = some v ∧ i ∈ v.ids) ∧
      RealizableByRecords g t vs ids p := by
  have hr := witness_sound g t vs ids p h
  refine ⟨?_, hr⟩
  obtain ⟨hh, hin, _, _, hcov, _⟩ := hr
  intro i hi
  obtain ⟨v, hv, hiv⟩ := hcov i hi
  obtain ⟨w, hw, hu⟩ := hin v hv
  exact ⟨w, hw, v, hu, hiv⟩

/-- if the completion analysis returns a set of ids, some compatible combination containing the
named records yields the peptide (so the entry "omits" records rather than naming wrong ones) -/
theorem completion_sound (g : Cfg) (t : TxIn) (vs : List Var) (ids extra : List Nat) (p : Pep)
    (h : witnessCompletion g t vs ids p = some extra) :
    ∃ hp ∈ haplotypes t vs, (∀ i ∈ ids, i ∈ hp.flatMap (·.ids)) ∧ ProductOf g t hp p := by
  unfold witnessCompletion at h
  generalize hc : (haplotypes t vs).filter (fun h =>
    ids.all (h.flatMap (·.ids)).contains &&
      (peptidesOf g t (applyHap t.seq h) (secAfter t.sec h) t.endNF).contains p) = cands at h
  cases cands with
  | nil => simp at h
  | cons c cs =>
    have hm : c ∈ (haplotypes t vs).filter (fun h =>
        ids.all (h.flatMap (·.ids)).contains &&
          (peptidesOf g t (applyHap t.seq h) (secAfter t.sec h) t.endNF).contains p) := by
      rw [hc]; simp
    simp only [List.mem_filter, Bool.and_eq_true, List.all_eq_true, List.contains_iff_mem] at hm
    exact ⟨c, hm.1, hm.2.1, hm.2.2⟩

/-! ### the label counter -/

/-- M: `labels[label] += 1; label += f"|{labels[label]}"` over the base labels in the order
they are emitted by one `get_peptide_sequences` call (`seen` = the labels counted so far) -/
def numberFrom (seen : List String) : List String → List (String × Nat)
  | [] => []
  | b :: bs => (b, seen.count b + 1) :: numberFrom (b :: seen) bs

theorem numberFrom_gt (seen bs : List String) :
    ∀ e ∈ numberFrom seen bs, seen.count e.1 < e.2 := by
  induction bs generalizing seen with
  | nil => simp [numberFrom]
  | cons b bs ih =>
    intro e he
    simp only [numberFrom, List.mem_cons] at he
    rcases he with rfl | he
    · simp
    · have := ih (b :: seen) e he
      by_cases hb : b = e.1
      · subst hb; simp at this; omega
      · rw [List.count_cons_of_ne hb] at this; exact this

/-- every entry string `label|k` is issued at most once per call -/
theorem label_counter_distinct (bs : List String) : (numberFrom [] bs).Nodup := by
  suffices h : ∀ seen, (numberFrom seen bs).Nodup from h []
  induction bs with
  | nil => intro seen; simp [numberFrom]
  | cons b bs ih =>
    intro seen
    simp only [numberFrom, List.nodup_cons]
    refine ⟨?_, ih _⟩
    intro hmem
    have := numberFrom_gt (b :: seen) bs _ hmem
    simp at this

example : numberFrom [] ["T|v", "T|w", "T|v"] = [("T|v", 1), ("T|w", 1), ("T|v", 2)] := by decide

end MoPepGen.Props.C03
