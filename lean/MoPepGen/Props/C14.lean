import MoPepGen.Lemmas.Vep
import MoPepGen.Props.C11
/-!
# C14 — parseVEP / parseREDItools preserve the genomic event

Property theorems only.  `vepConvert`, `rediValidSubs`, `rediConvert` (`Model/Vep.lean`) are
the models of `VEPRecord.convert_to_variant_record`, `REDItoolsRecord.get_valid_subs` and
`REDItoolsRecord.convert_to_variant_records`, tied to /repo by `harness/c14.py`.
`applyEvent`, `rowEvent`, `applyGvf` are the specification (Layer S).  Genes, transcripts,
`geneSeq`, `genomicToGene`, `isExonic` are those of C11.

All theorems hold for every gene interval, strand, exon list, chromosome, row position,
span length and allele; hypotheses are the decidable well-formedness predicates
`g.loc.stop ≤ chrom.length` (the gene lies on the chromosome) and `row.s ≤ row.e`.
-/
namespace MoPepGen.Props.C14
open MoPepGen

/-! ## non-vacuity -/

def exGene : Gene := { strand := .minus, loc := ⟨2, 20⟩ }
def exTx : Transcript := { strand := .minus, exons := [⟨4, 9⟩, ⟨12, 18⟩] }
def exChrom : List Char := "AACCGGTTACGTACGTTGCAAC".toList
example : exGene.loc.stop ≤ exChrom.length := by decide
example : exTx.WF ∧ exTx.Within exGene := by decide
example : String.ofList (geneSeq exChrom exGene) = "TGCAACGTACGTAACCGG" := by decide
-- minus strand SNV at genomic 16 (gene index 4), allele given on the + strand
example : vepConvert exGene exTx false (geneSeq exChrom exGene) ⟨16, 16, some ['A']⟩
    = .ok ⟨4, 5, ['A'], ['T'], .snv⟩ := by decide
-- deletion of genomic 14..15 : anchored on the 5' neighbour in gene orientation
example : vepConvert exGene exTx false (geneSeq exChrom exGene) ⟨14, 15, none⟩
    = .ok ⟨4, 7, "ACG".toList, ['A'], .mnv⟩ := by decide
-- two-base-span insertion
example : vepConvert exGene exTx false (geneSeq exChrom exGene) ⟨14, 15, some "AAG".toList⟩
    = .ok ⟨5, 6, ['C'], "CCTT".toList, .indel⟩ := by decide
-- first transcribed base without / with cds_start_NF, last base + 1
example : vepConvert exGene exTx false (geneSeq exChrom exGene) ⟨18, 18, some ['A']⟩
    = .error .startSite := by decide
example : vepConvert exGene exTx true (geneSeq exChrom exGene) ⟨17, 18, none⟩
    = .ok ⟨2, 5, "CAA".toList, ['A'], .mnv⟩ := by decide
example : vepConvert exGene exTx false (geneSeq exChrom exGene) ⟨4, 5, none⟩
    = .error .stopSite := by decide
example : vepConvert exGene exTx false (geneSeq exChrom exGene) ⟨2, 2, some ['A']⟩
    = .error .outOfGene := by decide
-- one-base-span insertions: end-inclusion spelling (re-anchored), start-inclusion, neither
example : vepConvert exGene exTx true (geneSeq exChrom exGene) ⟨16, 16, some "TTA".toList⟩
    = .ok ⟨3, 4, ['A'], "ATA".toList, .indel⟩ := by decide
example : vepConvert exGene exTx true (geneSeq exChrom exGene) ⟨16, 16, some "ATT".toList⟩
    = .ok ⟨4, 5, ['A'], "AAT".toList, .indel⟩ := by decide
example : vepConvert exGene exTx true (geneSeq exChrom exGene) ⟨16, 16, some "CTC".toList⟩
    = .error .unanchorable := by decide
-- substitution of four bases by three
example : vepConvert exGene exTx true (geneSeq exChrom exGene) ⟨13, 16, some "CTC".toList⟩
    = .ok ⟨4, 8, "ACGT".toList, "GAG".toList, .mnv⟩ := by decide

/-! ## decomposition of the converter -/

theorem vepConvert_ok {g : Gene} {t : Transcript} {nf : Bool} {seq : List Char} {row : VepRow}
    {r : GvfRec} (h : vepConvert g t nf seq row = .ok r) :
    ∃ a b ts te, vepLocate g t row = .ok (a, b, ts, te) ∧
      ¬ (a < ts ∨ (a = ts ∧ nf = false)) ∧ ¬ b > te ∧
      vepAnchor seq a b ts (row.allele.map (strandAllele g.strand)) = .ok r := by
  unfold vepConvert at h
  split at h
  · cases h
  · rename_i a b ts te hl
    split at h
    · cases h
    · split at h
      · cases h
      · exact ⟨a, b, ts, te, hl, by assumption, by assumption, h⟩

/-- the gene interval `[a, b)` of a located row is non-empty -/
theorem located_lt {g : Gene} {t : Transcript} {row : VepRow} {a b ts te : Nat}
    (hrow : row.s ≤ row.e) (hl : vepLocate g t row = .ok (a, b, ts, te)) : a < b := by
  obtain ⟨h1, h2, ⟨h3, h4⟩, ⟨h5, h6⟩, -, -, hm⟩ := vepLocate_ok hl
  cases hs : g.strand <;> rw [hs] at hm <;> simp only at hm <;> omega

/-! ## REF matches the gene sequence -/

/-- Every record emitted by `convert_to_variant_record` has REF equal to the gene sequence
at its own location `[start, stop)` (and of that length) — SNV, deletion (both anchorings),
insertion (all three spellings), substitution; both strands; every position. -/
theorem vep_ref_matches (chrom : List Char) (g : Gene) (t : Transcript) (nf : Bool)
    (row : VepRow) (r : GvfRec) (hrow : row.s ≤ row.e)
    (h : vepConvert g t nf (geneSeq chrom g) row = .ok r) :
    r.ref = pySlice (geneSeq chrom g) r.start r.stop ∧ r.stop - r.start = r.ref.length := by
  obtain ⟨a, b, ts, te, hl, -, -, ha⟩ := vepConvert_ok h
  exact vepAnchor_ref (located_lt hrow hl) ha

/-! ## the genomic event is preserved -/

/-- **Event preservation.**  Whenever a record is emitted, applying it to the gene sequence
gives exactly the gene re-extracted from the chromosome mutated by the event the VEP row
denotes (`rowEvent`: deletion for `-`, insertion between the two bases of a two-base span,
replacement of the span by the allele otherwise — which covers SNVs, one-base-span insertions
in both spellings and substitutions of ≥ 3 bases).  Both strands (the allele is
reverse-complemented on `-`), all positions, all lengths, with or without `cds_start_NF`. -/
theorem vep_event_preserved (chrom : List Char) (g : Gene) (t : Transcript) (nf : Bool)
    (row : VepRow) (r : GvfRec) (hc : g.loc.stop ≤ chrom.length) (hrow : row.s ≤ row.e)
    (h : vepConvert g t nf (geneSeq chrom g) row = .ok r) :
    applyGvf (geneSeq chrom g) r
      = geneSeq (applyEvent chrom (rowEvent row)) (geneAfter g (rowEvent row)) := by
  obtain ⟨a, b, ts, te, hl, hstart, -, ha⟩ := vepConvert_ok h
  have hab := located_lt hrow hl
  obtain ⟨h1, h2, ⟨h3, h4⟩, ⟨h5, h6⟩, -, -, hm⟩ := vepLocate_ok hl
  rw [vepAnchor_spec (by omega) hab ha]
  have hev : g.loc.start ≤ (rowEvent row).s ∧ (rowEvent row).s ≤ (rowEvent row).e ∧
      (rowEvent row).e ≤ g.loc.stop := by
    unfold rowEvent
    cases row.allele with
    | none => simp only; omega
    | some al => simp only; split <;> simp only <;> omega
  rw [geneSeq_applyEvent chrom g _ hc hev.1 hev.2.1 hev.2.2]
  unfold anchorSpec rowEvent geneEvent
  cases hs : g.strand <;> rw [hs] at hm <;> simp only at hm <;>
    cases row.allele with
    | none =>
      simp only [Option.map_none, revComp, List.map_nil, List.reverse_nil]
      congr 1 <;> omega
    | some al =>
      simp only [Option.map_some, strandAllele]
      by_cases he : row.e = row.s + 1
      · rw [if_pos he, if_pos (by omega)]
        simp only
        congr 1 <;> omega
      · rw [if_neg he, if_neg (by omega)]
        simp only
        congr 1 <;> omega

/-! ## transcript boundaries -/

/-- the span of a well-formed transcript is non-empty (hypothesis of the boundary theorems) -/
theorem wf_span_lt (t : Transcript) (hw : t.WF) : t.spanStart < t.spanStop := by
  obtain ⟨first, last, hf, hl, hfm, hlm, hlo, hhi⟩ := hw.span
  unfold Transcript.spanStart Transcript.spanStop
  rw [hf, hl]; simp only
  have := hw.2.1 first hfm
  have := hhi first hfm
  omega

/-- the row touches the 5' boundary of the transcript: its 5'-most base (in transcript
orientation) lies before the first transcribed base, or on it without `cds_start_NF` -/
def TouchesStart (g : Gene) (t : Transcript) (nf : Bool) (row : VepRow) : Prop :=
  match g.strand with
  | .plus => row.s - 1 < t.spanStart ∨ (row.s - 1 = t.spanStart ∧ nf = false)
  | .minus => t.spanStop < row.e ∨ (row.e = t.spanStop ∧ nf = false)

/-- the 3'-most base of the row lies beyond the last transcribed base -/
def BeyondEnd (g : Gene) (t : Transcript) (row : VepRow) : Prop :=
  match g.strand with
  | .plus => t.spanStop < row.e
  | .minus => row.s - 1 < t.spanStart

instance (g : Gene) (t : Transcript) (nf : Bool) (row : VepRow) : Decidable (TouchesStart g t nf row) := by
  unfold TouchesStart; cases g.strand <;> infer_instance
instance (g : Gene) (t : Transcript) (row : VepRow) : Decidable (BeyondEnd g t row) := by
  unfold BeyondEnd; cases g.strand <;> infer_instance

example : TouchesStart exGene exTx false ⟨18, 18, none⟩ := by decide
example : ¬ TouchesStart exGene exTx true ⟨18, 18, none⟩ := by decide
example : BeyondEnd exGene exTx ⟨4, 5, none⟩ := by decide

/-- **Boundary events are rejected, never placed.**  For a row and transcript inside the gene
(so that all four coordinate look-ups succeed): a row touching the 5' boundary gives
`TranscriptionStartSiteMutationError`; otherwise a row reaching beyond the 3' end gives
`TranscriptionStopSiteMutationError`.  Both strands, every allele. -/
theorem vep_boundary_rejected (g : Gene) (t : Transcript) (nf : Bool) (seq : List Char)
    (row : VepRow) (hrow : row.s ≤ row.e) (hspan : t.spanStart < t.spanStop)
    {a b ts te : Nat} (hl : vepLocate g t row = .ok (a, b, ts, te)) :
    (TouchesStart g t nf row → vepConvert g t nf seq row = .error .startSite) ∧
    (¬ TouchesStart g t nf row → BeyondEnd g t row →
      vepConvert g t nf seq row = .error .stopSite) := by
  obtain ⟨h1, h2, ⟨h3, h4⟩, ⟨h5, h6⟩, ⟨h7, h8⟩, ⟨h9, h10⟩, hm⟩ := vepLocate_ok hl
  unfold TouchesStart BeyondEnd vepConvert
  rw [hl]; simp only
  cases hs : g.strand <;> rw [hs] at hm <;> simp only at hm ⊢
  · constructor
    · intro h
      rw [if_pos (by rcases h with h | ⟨h, hn⟩
                     · exact Or.inl (by omega)
                     · exact Or.inr ⟨by omega, hn⟩)]
    · intro h hb
      rw [if_neg (by intro h'; apply h; rcases h' with h' | ⟨h', hn⟩
                     · exact Or.inl (by omega)
                     · exact Or.inr ⟨by omega, hn⟩), if_pos (by omega)]
  · constructor
    · intro h
      rw [if_pos (by rcases h with h | ⟨h, hn⟩
                     · exact Or.inl (by omega)
                     · exact Or.inr ⟨by omega, hn⟩)]
    · intro h hb
      rw [if_neg (by intro h'; apply h; rcases h' with h' | ⟨h', hn⟩
                     · exact Or.inl (by omega)
                     · exact Or.inr ⟨by omega, hn⟩), if_pos (by omega)]

/-- a row with an end outside the gene is rejected (`ValueError` of
`coordinate_genomic_to_gene`), never placed -/
theorem vep_outside_gene_rejected (g : Gene) (t : Transcript) (nf : Bool) (seq : List Char)
    (row : VepRow)
    (h : ¬ (1 ≤ row.s ∧ g.loc.start ≤ row.s - 1 ∧ row.s - 1 < g.loc.stop) ∨
         ¬ (1 ≤ row.e ∧ g.loc.start ≤ row.e - 1 ∧ row.e - 1 < g.loc.stop)) :
    vepConvert g t nf seq row = .error .outOfGene := by
  have : vepLocate g t row = .error .outOfGene := by
    unfold vepLocate
    split
    · rfl
    · rename_i h0
      unfold genomicToGene
      by_cases ha : g.loc.start ≤ row.s - 1 ∧ row.s - 1 < g.loc.stop
      · have hb : ¬ (g.loc.start ≤ row.e - 1 ∧ row.e - 1 < g.loc.stop) := by omega
        rw [if_pos ha, if_neg hb]
        cases g.strand <;> rfl
      · rw [if_neg ha]
  unfold vepConvert; rw [this]

/-- **Converse: an emitted record never touches the boundary.**  If a record is returned, the
whole row interval lies inside the transcript span and — unless the transcript is
`cds_start_NF` — strictly after its first transcribed base. -/
theorem vep_record_inside_transcript (g : Gene) (t : Transcript) (nf : Bool) (seq : List Char)
    (row : VepRow) (r : GvfRec) (hrow : row.s ≤ row.e) (hspan : t.spanStart < t.spanStop)
    (h : vepConvert g t nf seq row = .ok r) :
    t.spanStart ≤ row.s - 1 ∧ row.e ≤ t.spanStop ∧ ¬ TouchesStart g t nf row ∧
      ¬ BeyondEnd g t row := by
  obtain ⟨a, b, ts, te, hl, hstart, hstop, -⟩ := vepConvert_ok h
  obtain ⟨h1, h2, ⟨h3, h4⟩, ⟨h5, h6⟩, ⟨h7, h8⟩, ⟨h9, h10⟩, hm⟩ := vepLocate_ok hl
  have hs1 : ¬ a < ts := fun h => hstart (Or.inl h)
  unfold TouchesStart BeyondEnd
  cases hs : g.strand <;> rw [hs] at hm <;> simp only at hm ⊢
  · refine ⟨by omega, by omega, ?_, by omega⟩
    rintro (h | ⟨h, hn⟩)
    · omega
    · exact hstart (Or.inr ⟨by omega, hn⟩)
  · refine ⟨by omega, by omega, ?_, by omega⟩
    rintro (h | ⟨h, hn⟩)
    · omega
    · exact hstart (Or.inr ⟨by omega, hn⟩)

/-- without `cds_start_NF` the anchored record itself (after re-anchoring) lies inside the
transcript in gene coordinates: `tx_start_genetic ≤ start` and `stop ≤ tx_end_genetic` -/
theorem vep_anchor_inside_transcript (g : Gene) (t : Transcript) (seq : List Char)
    (row : VepRow) (r : GvfRec) (hrow : row.s ≤ row.e)
    (h : vepConvert g t false seq row = .ok r) :
    ∃ a b ts te, vepLocate g t row = .ok (a, b, ts, te) ∧ ts ≤ r.start ∧ r.stop ≤ te := by
  obtain ⟨a, b, ts, te, hl, hstart, hstop, ha⟩ := vepConvert_ok h
  have hab := located_lt hrow hl
  refine ⟨a, b, ts, te, hl, ?_⟩
  have hne : a ≠ ts := by intro h0; exact hstart (Or.inr ⟨h0, rfl⟩)
  unfold vepAnchor at ha
  cases hal : row.allele with
  | none =>
    rw [hal] at ha; simp only [Option.map_none] at ha
    rw [if_neg hne] at ha
    split at ha
    · cases ha
    · obtain ⟨e1, e2, -⟩ := mkRec_ok ha; omega
  | some al =>
    rw [hal] at ha; simp only [Option.map_some] at ha
    split at ha
    · split at ha
      · split at ha
        · cases ha
        · split at ha
          · split at ha
            · split at ha <;> cases ha
            · split at ha
              · cases ha
              · obtain ⟨e1, e2, -⟩ := mkRec_ok ha; omega
          · split at ha
            · obtain ⟨e1, e2, -⟩ := mkRec_ok ha; omega
            · cases ha
      · split at ha
        · cases ha
        · obtain ⟨e1, e2, -⟩ := mkRec_ok ha; omega
    · split at ha
      · split at ha
        · cases ha
        · obtain ⟨e1, e2, -⟩ := mkRec_ok ha; omega
      · obtain ⟨e1, e2, -⟩ := mkRec_ok ha; omega

/-! ## one-base span whose allele cannot be anchored -/

/-- A one-base-span row whose (strand-corrected) allele has ≥ 2 bases and neither starts nor
ends with the reference base of the gene at that position is never converted: the result is
the `ValueError` "Don't know how to process this variant" (or, at the boundary, the start /
stop site error) — not a misplaced record. -/
theorem vep_unanchorable_rejected (chrom : List Char) (g : Gene) (t : Transcript) (nf : Bool)
    (row : VepRow) (al : List Char) (hone : row.s = row.e) (hal : row.allele = some al)
    (hlen : 1 < al.length) {a b ts te : Nat} (hl : vepLocate g t row = .ok (a, b, ts, te))
    (ref : Char) (href : (geneSeq chrom g)[a]? = some ref)
    (h1 : some ref ≠ (strandAllele g.strand al).getLast?)
    (h2 : some ref ≠ (strandAllele g.strand al).head?) :
    vepConvert g t nf (geneSeq chrom g) row = .error .startSite ∨
    vepConvert g t nf (geneSeq chrom g) row = .error .stopSite ∨
    vepConvert g t nf (geneSeq chrom g) row = .error .unanchorable := by
  obtain ⟨e1, e2, ⟨e3, e4⟩, ⟨e5, e6⟩, -, -, hm⟩ := vepLocate_ok hl
  have hba : b - a = 1 := by
    cases hs : g.strand <;> rw [hs] at hm <;> simp only at hm <;> omega
  have hl2 : 1 < (strandAllele g.strand al).length := by
    cases g.strand <;> simp only [strandAllele, revComp_length] <;> exact hlen
  unfold vepConvert
  rw [hl]; simp only
  split
  · exact Or.inl rfl
  · split
    · exact Or.inr (Or.inl rfl)
    · refine Or.inr (Or.inr ?_)
      unfold vepAnchor
      rw [hal]; simp only [Option.map_some]
      rw [if_pos hba, if_pos hl2, href]
      simp only
      rw [if_neg h1, if_neg h2]

/-! ## the negative-anchor defect (Python `seq[-1]`) -/

/-- The code as it stands, on a `cds_start_NF` transcript that starts on the first base of its
gene: a one-base-span insertion on that base spelled with the reference base LAST is
re-anchored to index `-1`; Python reads the last base of the gene there and returns a record
at `[-1, 0)` whose REF (`A`, the last gene base) is not the gene sequence at that location.
(open finding `vep-insertion-anchored-before-gene-start`) -/
example : vepConvert ⟨.plus, ⟨2, 20⟩⟩ ⟨.plus, [⟨2, 9⟩, ⟨12, 18⟩]⟩ true
    (geneSeq exChrom ⟨.plus, ⟨2, 20⟩⟩) ⟨3, 3, some "GGC".toList⟩
    = .error (.negAnchor ['A'] "AGG".toList) := by decide

/-- the defect needs `cds_start_NF` and a transcript starting on gene index 0 -/
theorem vep_negAnchor_only_nf (g : Gene) (t : Transcript) (nf : Bool) (seq : List Char)
    (row : VepRow) (x y : List Char)
    (h : vepConvert g t nf seq row = .error (.negAnchor x y)) :
    nf = true ∧ ∃ b te, vepLocate g t row = .ok (0, b, 0, te) := by
  unfold vepConvert at h
  split at h
  · rename_i e he
    cases h
    exfalso
    unfold vepLocate at he
    split at he
    · cases he
    · split at he
      · split at he <;> split at he <;> cases he
      · cases he
  · rename_i a b ts te hl
    split at h
    · cases h
    · rename_i hstart
      split at h
      · cases h
      · have ha0 : a = 0 := by
          unfold vepAnchor at h
          split at h
          · split at h
            · unfold mkRec at h; split at h <;> cases h
            · split at h
              · cases h
              · unfold mkRec at h; split at h <;> cases h
          · split at h
            · split at h
              · split at h
                · cases h
                · split at h
                  · split at h
                    · assumption
                    · split at h
                      · cases h
                      · unfold mkRec at h; split at h <;> cases h
                  · split at h
                    · unfold mkRec at h; split at h <;> cases h
                    · cases h
              · split at h
                · cases h
                · unfold mkRec at h; split at h <;> cases h
            · split at h
              · split at h
                · cases h
                · unfold mkRec at h; split at h <;> cases h
              · unfold mkRec at h; split at h <;> cases h
        subst ha0
        have hts : ts = 0 := by omega
        subst hts
        refine ⟨?_, b, te, hl⟩
        cases nf
        · exact absurd (Or.inr ⟨rfl, rfl⟩) hstart
        · rfl

/-! ## REDItools : thresholds -/

/-- the DNA-coverage gate: `gCoverage-q` is `-1`, or an integer `≥ --min-coverage-dna`
(a non-integer field such as `-` never passes) -/
def GcovOk (gcov : Option Int) (minDna : Int) : Prop :=
  gcov = some (-1) ∨ ∃ c, gcov = some c ∧ minDna ≤ c

theorem gcovFails_iff (gcov : Option Int) (minDna : Int) :
    gcovFails gcov minDna = false ↔ GcovOk gcov minDna := by
  unfold gcovFails GcovOk
  cases gcov with
  | none => simp
  | some c =>
    simp only [Option.some.injEq, Bool.and_eq_false_iff, decide_eq_false_iff_not, exists_eq_left']
    constructor
    · rintro (h | h)
      · exact Or.inl (by omega)
      · exact Or.inr (by omega)
    · rintro (h | h)
      · exact Or.inl (by omega)
      · exact Or.inr (by omega)

/-- the per-substitution condition: the ALT base has a count `n` with `n ≥ --min-coverage-alt`
and `n / total ≥ --min-frequency-alt = fnum / fden`, as an exact comparison of rationals
(cross-multiplied) -/
def SubOk (p : RediParams) (s : RediSite) (sub : Char × Char) : Prop :=
  ∃ n, s.count sub.2 = some n ∧ p.minAlt ≤ (n : Int) ∧ p.fnum * s.total ≤ n * p.fden

theorem rediSubLoop_spec (p : RediParams) (s : RediSite) (subs l : List (Char × Char))
    (h : rediSubLoop p s subs = .ok l) :
    l.Sublist subs ∧ ∀ sub, sub ∈ l ↔ sub ∈ subs ∧ SubOk p s sub := by
  induction subs generalizing l with
  | nil => unfold rediSubLoop at h; cases h; simp
  | cons x rest ih =>
    unfold rediSubLoop at h
    split at h
    · cases h
    · rename_i n hn
      have hno : ∀ (hbad : (n : Int) < p.minAlt ∨ n * p.fden < p.fnum * s.total),
          ¬ SubOk p s x := by
        rintro hbad ⟨m, hm, h1, h2⟩
        rw [hn] at hm; cases hm
        omega
      split at h
      · rename_i hlt
        obtain ⟨hs, hm⟩ := ih l h
        refine ⟨hs.cons _, fun sub => ?_⟩
        rw [hm sub, List.mem_cons]
        constructor
        · rintro ⟨h1, h2⟩; exact ⟨Or.inr h1, h2⟩
        · rintro ⟨h1 | h1, h2⟩
          · subst h1; exact absurd h2 (hno (Or.inl hlt))
          · exact ⟨h1, h2⟩
      · rename_i hge
        split at h
        · cases h
        · split at h
          · rename_i hlt
            obtain ⟨hs, hm⟩ := ih l h
            refine ⟨hs.cons _, fun sub => ?_⟩
            rw [hm sub, List.mem_cons]
            constructor
            · rintro ⟨h1, h2⟩; exact ⟨Or.inr h1, h2⟩
            · rintro ⟨h1 | h1, h2⟩
              · subst h1; exact absurd h2 (hno (Or.inr hlt))
              · exact ⟨h1, h2⟩
          · rename_i hfr
            split at h
            · rename_i l' hl'
              cases h
              obtain ⟨hs, hm⟩ := ih l' hl'
              refine ⟨hs.cons_cons _, fun sub => ?_⟩
              rw [List.mem_cons, List.mem_cons, hm sub]
              constructor
              · rintro (h1 | ⟨h1, h2⟩)
                · subst h1; exact ⟨Or.inl rfl, n, hn, by omega, by omega⟩
                · exact ⟨Or.inr h1, h2⟩
              · rintro ⟨h1 | h1, h2⟩
                · exact Or.inl h1
                · exact Or.inr ⟨h1, h2⟩
            · cases h

/-- **Thresholds are applied exactly.**  Whenever `get_valid_subs` returns, a substitution of
the row is kept iff  total ≥ min-coverage-rna  ∧  (gCoverage = -1 ∨ gCoverage ≥
min-coverage-dna)  ∧  count(ALT) ≥ min-coverage-alt  ∧  count(ALT)/total ≥ min-frequency-alt
(exact rational comparison); the kept substitutions are in the order of the row. -/
theorem redi_thresholds_exact (p : RediParams) (s : RediSite) (l : List (Char × Char))
    (h : rediValidSubs p s = .ok l) :
    l.Sublist s.subs ∧ ∀ sub, sub ∈ l ↔
      sub ∈ s.subs ∧ p.minRna ≤ (s.total : Int) ∧ GcovOk s.gcov p.minDna ∧ SubOk p s sub := by
  unfold rediValidSubs at h
  split at h
  · rename_i hlt
    cases h
    refine ⟨List.nil_sublist _, fun sub => ?_⟩
    constructor
    · intro hm; cases hm
    · rintro ⟨-, h1, -⟩; omega
  · rename_i hge
    split at h
    · rename_i hg
      cases h
      refine ⟨List.nil_sublist _, fun sub => ?_⟩
      constructor
      · intro hm; cases hm
      · rintro ⟨-, -, h1, -⟩
        rw [← gcovFails_iff] at h1; rw [h1] at hg; cases hg
    · rename_i hg
      obtain ⟨hs, hm⟩ := rediSubLoop_spec p s s.subs l h
      refine ⟨hs, fun sub => ?_⟩
      rw [hm sub]
      have hgo : GcovOk s.gcov p.minDna := (gcovFails_iff _ _).mp (by simpa using hg)
      constructor
      · rintro ⟨h1, h2⟩; exact ⟨h1, by omega, hgo, h2⟩
      · rintro ⟨h1, -, -, h2⟩; exact ⟨h1, h2⟩

/-- `get_valid_subs` returns (no `KeyError`, no `ZeroDivisionError`) on every row whose ALT
bases are in `ACGT` and whose total count is positive -/
theorem redi_valid_total (p : RediParams) (s : RediSite) (htot : 0 < s.total)
    (hacgt : ∀ sub ∈ s.subs, (s.count sub.2).isSome = true) :
    ∃ l, rediValidSubs p s = .ok l := by
  unfold rediValidSubs
  split
  · exact ⟨_, rfl⟩
  · split
    · exact ⟨_, rfl⟩
    · generalize s.subs = subs at hacgt
      induction subs with
      | nil => exact ⟨_, rfl⟩
      | cons x rest ih =>
        obtain ⟨l, hl⟩ := ih (fun y hy => hacgt y (List.mem_cons_of_mem _ hy))
        obtain ⟨n, hn⟩ := Option.isSome_iff_exists.mp (hacgt x List.mem_cons_self)
        unfold rediSubLoop
        rw [hn]; simp only
        split
        · exact ⟨l, hl⟩
        · rw [if_neg (by omega)]
          split
          · exact ⟨l, hl⟩
          · rw [hl]; exact ⟨_, rfl⟩

-- values exactly on each threshold are accepted, one below is rejected
example : rediValidSubs ⟨3, 1, 10, 10, 10⟩ ⟨100, 7, 0, 3, 0, [('A', 'G')], some 10⟩
    = .ok [('A', 'G')] := by decide
example : rediValidSubs ⟨3, 1, 10, 10, 10⟩ ⟨100, 8, 0, 2, 0, [('A', 'G')], some 10⟩
    = .ok [] := by decide
example : rediValidSubs ⟨3, 1, 10, 10, 10⟩ ⟨100, 27, 0, 3, 0, [('A', 'G')], some 10⟩
    = .ok [('A', 'G')] := by decide
example : rediValidSubs ⟨3, 1, 10, 10, 10⟩ ⟨100, 28, 0, 3, 0, [('A', 'G')], some 10⟩
    = .ok [] := by decide
example : rediValidSubs ⟨3, 1, 10, 10, 10⟩ ⟨100, 7, 0, 3, 0, [('A', 'G')], some 9⟩
    = .ok [] := by decide
example : rediValidSubs ⟨3, 1, 10, 10, 10⟩ ⟨100, 7, 0, 3, 0, [('A', 'G')], some (-1)⟩
    = .ok [('A', 'G')] := by decide
example : rediValidSubs ⟨3, 1, 10, 10, 10⟩ ⟨100, 7, 0, 3, 0, [('A', 'G')], none⟩
    = .ok [] := by decide

/-! ## REDItools : position -/

/-- what the record list must be: exactly one record per (listed transcript in which the site
is exonic — `ok? t` —, valid substitution), at the gene coordinate of the site -/
def RediRecsSpec (s : RediSite) (listed : List (Gene × Transcript)) (i : Nat)
    (subs : List (Char × Char)) (ok? : Transcript → Prop) (recs : List RediRec) : Prop :=
  ∀ r, r ∈ recs ↔ ∃ j g t, listed[j]? = some (g, t) ∧ r.tx = i + j ∧ ok? t ∧
    genomicToGene g (s.pos - 1) = .ok r.pos ∧ (r.ref, r.alt) ∈ subs

theorem rediLoopFixed_spec (p : RediParams) (s : RediSite) (listed : List (Gene × Transcript))
    (hw : ∀ gt ∈ listed, gt.2.WF) (i : Nat) (subs : List (Char × Char))
    (hv : rediValidSubs p s = .ok subs) (recs : List RediRec)
    (h : rediLoopFixed p s listed i = .ok recs) :
    RediRecsSpec s listed i subs (fun t => isExonic t (s.pos - 1) = true) recs := by
  induction listed generalizing i recs with
  | nil =>
    unfold rediLoopFixed at h; cases h
    intro r; simp
  | cons gt rest ih =>
    obtain ⟨g, t⟩ := gt
    have hwt : t.WF := hw (g, t) List.mem_cons_self
    have hwr : ∀ gt ∈ rest, gt.2.WF := fun x hx => hw x (List.mem_cons_of_mem _ hx)
    have shift : ∀ recs', RediRecsSpec s rest (i + 1) subs
        (fun t => isExonic t (s.pos - 1) = true) recs' →
        ∀ r, r ∈ recs' ↔ ∃ j g' t', ((g, t) :: rest)[j]? = some (g', t') ∧ 0 < j ∧ r.tx = i + j ∧
          isExonic t' (s.pos - 1) = true ∧ genomicToGene g' (s.pos - 1) = .ok r.pos ∧
          (r.ref, r.alt) ∈ subs := by
      intro recs' hs r
      rw [hs r]
      constructor
      · rintro ⟨j, g', t', h1, h2, h3⟩
        exact ⟨j + 1, g', t', by simpa using h1, by omega, by omega, h3⟩
      · rintro ⟨j, g', t', h1, h0, h2, h3⟩
        cases j with
        | zero => omega
        | succ j => exact ⟨j, g', t', by simpa using h1, by omega, h3⟩
    unfold rediLoopFixed at h
    split at h
    · rename_i e he
      have hnx : isExonic t (s.pos - 1) ≠ true := by
        intro hx
        obtain ⟨k, hk⟩ := C11.txIndex_exonic t hwt _ hx
        rw [hk] at he; cases he
      have hs := shift recs (ih hwr (i + 1) recs h)
      intro r
      rw [hs r]
      constructor
      · rintro ⟨j, g', t', h1, -, h3⟩; exact ⟨j, g', t', h1, h3⟩
      · rintro ⟨j, g', t', h1, h2, h3, h4⟩
        cases j with
        | zero => simp at h1; obtain ⟨rfl, rfl⟩ := h1; exact absurd h3 hnx
        | succ j => exact ⟨j + 1, g', t', h1, by omega, h2, h3, h4⟩
    · rename_i k hk
      have hx : isExonic t (s.pos - 1) = true := (C11.txToGenomic_txIndex t hwt _ _ hk).2.2
      split at h
      · cases h
      · rename_i q hq
        rw [hv] at h; simp only at h
        split at h
        · cases h
        · rename_i l hl
          cases h
          have hs := shift l (ih hwr (i + 1) l hl)
          intro r
          rw [List.mem_append, hs r, List.mem_map]
          constructor
          · rintro (⟨sub, hsub, rfl⟩ | ⟨j, g', t', h1, -, h3⟩)
            · exact ⟨0, g, t, rfl, rfl, hx, hq, hsub⟩
            · exact ⟨j, g', t', h1, h3⟩
          · rintro ⟨j, g', t', h1, h2, h3, h4, h5⟩
            cases j with
            | zero =>
              simp at h1; obtain ⟨rfl, rfl⟩ := h1
              left
              refine ⟨(r.ref, r.alt), h5, ?_⟩
              rw [hq] at h4; cases h4
              cases r; simp_all
            | succ j => exact Or.inr ⟨j + 1, g', t', h1, by omega, h2, h3, h4, h5⟩

/-- **Position (repaired loop, full strength).**  For well-formed listed transcripts, the
records are exactly: for each listed transcript in which the site `pos-1` is exonic, and each
substitution passing the thresholds, one record at `genomic_to_gene(pos-1)` of that
transcript's gene, carrying that transcript's index.  Transcripts in which the site is
intronic OR outside the transcript get no record. -/
theorem redi_position (p : RediParams) (s : RediSite) (listed : List (Gene × Transcript))
    (hw : ∀ gt ∈ listed, gt.2.WF) (subs : List (Char × Char))
    (hv : rediValidSubs p s = .ok subs) (recs : List RediRec)
    (h : rediConvertFixed p s listed = .ok recs) :
    RediRecsSpec s listed 0 subs (fun t => isExonic t (s.pos - 1) = true) recs :=
  rediLoopFixed_spec p s listed hw 0 subs hv recs h

/-! ### the loop as written -/

theorem rediLoop_spec (p : RediParams) (s : RediSite) (listed : List (Gene × Transcript))
    (i : Nat) (subs : List (Char × Char))
    (hv : rediValidSubs p s = .ok subs) (recs : List RediRec)
    (h : rediLoop p s listed i = .ok recs) :
    RediRecsSpec s listed i subs (fun t => txIndex t (s.pos - 1) ≠ .error .intron) recs := by
  induction listed generalizing i recs with
  | nil =>
    unfold rediLoop at h; cases h
    intro r; simp
  | cons gt rest ih =>
    obtain ⟨g, t⟩ := gt
    have shift : ∀ recs', RediRecsSpec s rest (i + 1) subs
        (fun t => txIndex t (s.pos - 1) ≠ .error .intron) recs' →
        ∀ r, r ∈ recs' ↔ ∃ j g' t', ((g, t) :: rest)[j]? = some (g', t') ∧ 0 < j ∧ r.tx = i + j ∧
          txIndex t' (s.pos - 1) ≠ .error .intron ∧ genomicToGene g' (s.pos - 1) = .ok r.pos ∧
          (r.ref, r.alt) ∈ subs := by
      intro recs' hs r
      rw [hs r]
      constructor
      · rintro ⟨j, g', t', h1, h2, h3⟩
        exact ⟨j + 1, g', t', by simpa using h1, by omega, by omega, h3⟩
      · rintro ⟨j, g', t', h1, h0, h2, h3⟩
        cases j with
        | zero => omega
        | succ j => exact ⟨j, g', t', by simpa using h1, by omega, h3⟩
    unfold rediLoop at h
    split at h
    · rename_i he
      have hs := shift recs (ih (i + 1) recs h)
      intro r
      rw [hs r]
      constructor
      · rintro ⟨j, g', t', h1, -, h3⟩; exact ⟨j, g', t', h1, h3⟩
      · rintro ⟨j, g', t', h1, h2, h3, h4⟩
        cases j with
        | zero => simp at h1; obtain ⟨rfl, rfl⟩ := h1; exact absurd he h3
        | succ j => exact ⟨j + 1, g', t', h1, by omega, h2, h3, h4⟩
    · rename_i hx
      split at h
      · cases h
      · rename_i q hq
        rw [hv] at h; simp only at h
        split at h
        · cases h
        · rename_i l hl
          cases h
          have hs := shift l (ih (i + 1) l hl)
          intro r
          rw [List.mem_append, hs r, List.mem_map]
          constructor
          · rintro (⟨sub, hsub, rfl⟩ | ⟨j, g', t', h1, -, h3⟩)
            · exact ⟨0, g, t, rfl, rfl, hx, hq, hsub⟩
            · exact ⟨j, g', t', h1, h3⟩
          · rintro ⟨j, g', t', h1, h2, h3, h4, h5⟩
            cases j with
            | zero =>
              simp at h1; obtain ⟨rfl, rfl⟩ := h1
              left
              refine ⟨(r.ref, r.alt), h5, ?_⟩
              rw [hq] at h4; cases h4
              cases r; simp_all
            | succ j => exact Or.inr ⟨j + 1, g', t', h1, by omega, h2, h3, h4, h5⟩

/-- The loop AS WRITTEN emits a record for every listed transcript for which
`get_transcript_index` does not raise the *intron* error — i.e. also for transcripts whose
span does not contain the site (the out-of-range `ValueError` is swallowed). -/
theorem redi_position_as_written (p : RediParams) (s : RediSite)
    (listed : List (Gene × Transcript)) (subs : List (Char × Char))
    (hv : rediValidSubs p s = .ok subs) (recs : List RediRec)
    (h : rediConvert p s listed = .ok recs) :
    RediRecsSpec s listed 0 subs (fun t => txIndex t (s.pos - 1) ≠ .error .intron) recs :=
  rediLoop_spec p s listed 0 subs hv recs h

/-- Full-strength statement for the code as written would be `redi_position` with
`rediConvert`; it is FALSE (see the `example` below).  What holds — `…_partial`: when every
listed transcript spans the site (the invariant of REDItools' `AnnotateTable.py`, which lists
the transcripts overlapping the site), the code as written satisfies the same specification
as the repaired loop.  Missing for full strength: the `else: continue` (or `raise`) for
`ValueError`s other than `ERROR_INDEX_IN_INTRON` in `convert_to_variant_records`. -/
theorem redi_position_partial (p : RediParams) (s : RediSite) (listed : List (Gene × Transcript))
    (hw : ∀ gt ∈ listed, gt.2.WF)
    (hspan : ∀ gt ∈ listed, gt.2.spanStart ≤ s.pos - 1 ∧ s.pos - 1 < gt.2.spanStop)
    (subs : List (Char × Char)) (hv : rediValidSubs p s = .ok subs) (recs : List RediRec)
    (h : rediConvert p s listed = .ok recs) :
    RediRecsSpec s listed 0 subs (fun t => isExonic t (s.pos - 1) = true) recs := by
  have := redi_position_as_written p s listed subs hv recs h
  intro r
  rw [this r]
  constructor
  · rintro ⟨j, g, t, h1, h2, h3, h4⟩
    refine ⟨j, g, t, h1, h2, ?_, h4⟩
    have hm : (g, t) ∈ listed := List.mem_of_getElem? h1
    cases hx : isExonic t (s.pos - 1)
    · exact absurd (C11.txIndex_intron t (hw _ hm) _ (hspan _ hm) hx) h3
    · exact hx
  · rintro ⟨j, g, t, h1, h2, h3, h4⟩
    refine ⟨j, g, t, h1, h2, ?_, h4⟩
    have hm : (g, t) ∈ listed := List.mem_of_getElem? h1
    obtain ⟨k, hk⟩ := C11.txIndex_exonic t (hw _ hm) _ h3
    show txIndex t (s.pos - 1) ≠ .error .intron
    rw [hk]; intro hc; cases hc

/-- the defect: site 11 (0-based 10) is exonic in the first listed transcript and lies
OUTSIDE the second one (exon 50..52); the code as written emits a record for both, the
repaired loop only for the first (open finding `reditools-record-for-transcript-not-containing-site`) -/
example :
    rediConvert ⟨3, 1, 10, 10, 10⟩ ⟨11, 10, 0, 26, 0, [('A', 'G')], some 20⟩
      [(⟨.plus, ⟨7, 54⟩⟩, ⟨.plus, [⟨8, 17⟩, ⟨37, 42⟩]⟩), (⟨.plus, ⟨7, 54⟩⟩, ⟨.plus, [⟨50, 52⟩]⟩)]
      = .ok [⟨0, 3, 'A', 'G'⟩, ⟨1, 3, 'A', 'G'⟩] ∧
    rediConvertFixed ⟨3, 1, 10, 10, 10⟩ ⟨11, 10, 0, 26, 0, [('A', 'G')], some 20⟩
      [(⟨.plus, ⟨7, 54⟩⟩, ⟨.plus, [⟨8, 17⟩, ⟨37, 42⟩]⟩), (⟨.plus, ⟨7, 54⟩⟩, ⟨.plus, [⟨50, 52⟩]⟩)]
      = .ok [⟨0, 3, 'A', 'G'⟩] := by decide

end MoPepGen.Props.C14
