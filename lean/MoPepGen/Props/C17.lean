import MoPepGen.Lemmas.Circ
import MoPepGen.Props.C11
/-!
# C17 — parseCIRCexplorer records denote the reported circular RNA

Property theorems only.  Layer M is `Model/Circ.lean` (`convertToCircRna`, `circSeq`,
`processRecord`, `parseCircexplorer`, tied to /repo by the streams of `harness/c17.py`) on top of
the coordinate model of C11 (`Model/Coord.lean`); Layer S is `geneIv`, `circSeqSpec`, `InGene`,
`AscBlocks` (`Lemmas/Circ.lean`) and the intron predicates below.  All theorems hold for every
gene, transcript, strand, record and option value; hypotheses are the decidable predicates
`t.strand = g.strand`, `Transcript.WF`, `AscBlocks`, `CxRecord.Tiles`, `g.loc.stop ≤ chrom.length`.
-/
namespace MoPepGen.Props.C17
open MoPepGen MoPepGen.Props.C11

/-! ## non-vacuity -/

def exGene : Gene := { strand := .minus, loc := ⟨5, 60⟩ }
def exTx : Transcript := { strand := .minus, exons := [⟨10, 20⟩, ⟨25, 31⟩, ⟨40, 52⟩] }
/-- exons 1 and 2 (genomic order) of `exTx` as a circRNA row -/
def exRec : CxRecord :=
  { start := 10, stop := 31, sizes := [10, 6], offsets := [0, 15], reads := 3, ctype := .circ }
/-- the second intron in transcript order, starting 1 base inside the upstream exon and ending
3 bases before the downstream exon, as a ciRNA row -/
def exCi : CxRecord :=
  { start := 23, stop := 26, sizes := [3], offsets := [0], reads := 1, ctype := .ci }

/-- the record tiles its span: `start ≤ end`, blocks ascending and disjoint, the first block
starts at `start`, the last one ends at `end` (what CIRCexplorer writes) -/
def Tiles (r : CxRecord) : Prop :=
  r.start ≤ r.stop ∧ AscBlocks r.blocks ∧
  r.blocks.head?.map (·.start) = some r.start ∧ r.blocks.getLast?.map (·.stop) = some r.stop
instance (r : CxRecord) : Decidable (Tiles r) := by unfold Tiles; infer_instance

example : exTx.WF := by decide
example : exTx.strand = exGene.strand := by decide
example : Tiles exRec := by decide
example : Tiles exCi := by decide
example : exRec.blocks = [⟨10, 20⟩, ⟨25, 31⟩] := by decide
example : convertToCircRna exGene exTx (0, 0) (0, 0) exRec =
    .ok ⟨[⟨40, 50⟩, ⟨29, 35⟩], [], 29, 50, 10, 31, [2, 1]⟩ := by decide
example : convertToCircRna exGene exTx (-2, 0) (-100, 5) exCi =
    .ok ⟨[⟨34, 37⟩], [0], 34, 37, 23, 26, [1]⟩ := by decide
example : convertToCircRna exGene exTx (0, 0) (0, 0) exCi = .error (.coord .intronNotFound) := by
  decide
example : convertToCircRna exGene exTx (0, 0) (0, 0) { exRec with sizes := [9, 6] } =
    .error (.coord .exonNotFound) := by decide

/-! ## unfolding `convert_to_circ_rna` -/

theorem convert_ok {g : Gene} {t : Transcript} {rs re : Int × Int} {r : CxRecord} {c : CircOut}
    (h : convertToCircRna g t rs re r = .ok c) :
    r.ctype ≠ .other ∧
    ∃ acc bs, convertBlocks g t (decide (r.ctype = .ci)) rs re r.start r.offsets r.sizes 0 = .ok acc ∧
      spanToGene g t.strand r.start r.stop = .ok bs ∧
      c = ⟨acc.fragments, acc.intron, bs.start, bs.stop, r.start, r.stop, acc.ids⟩ := by
  unfold convertToCircRna at h
  cases hct : r.ctype
  all_goals simp only [hct] at h
  case other => cases h
  all_goals
    refine ⟨by simp, ?_⟩
    split at h
    · cases h
    · rename_i acc hacc
      split at h
      · cases h
      · rename_i bs hbs
        simp only [Except.ok.injEq] at h
        exact ⟨acc, bs, hacc, hbs, h.symm⟩

/-! ## fragments = strand-corrected blocks -/

/-- **circ_fragments_eq_blocks.**  Whenever `convert_to_circ_rna` returns a record (circRNA or
ciRNA, any tolerance), it has exactly one fragment per reported block, in block order, fragment
`i` is the strand-corrected gene-coordinate interval of block `i`, and every block lies inside
the gene. -/
theorem circ_fragments_eq_blocks (g : Gene) (t : Transcript) (hst : t.strand = g.strand)
    (rs re : Int × Int) (r : CxRecord) (c : CircOut)
    (h : convertToCircRna g t rs re r = .ok c) :
    r.blocks.length = r.sizes.length ∧
    c.fragments = r.blocks.map (geneIv g) ∧
    ∀ b ∈ r.blocks, InGene g b := by
  obtain ⟨_, acc, bs, hacc, _, rfl⟩ := convert_ok h
  obtain ⟨l1, l2, l3, _⟩ := convertBlocks_ok hst hacc
  simp only [List.drop_zero] at l1 l2 l3
  exact ⟨l1, l2, l3⟩

/-- what "strand-corrected" means, position by position: the fragment has the length of the
block and its `j`-th gene position maps (by `coordinate_gene_to_genomic`) to the `j`-th base of
the block counted in transcript direction. -/
theorem geneIv_denotes (g : Gene) (b : Iv) (hin : InGene g b) :
    (geneIv g b).len = b.len ∧
    ∀ j, j < b.len → geneToGenomic g ((geneIv g b).start + j) =
      match g.strand with
      | .plus => ((b.start + j : Nat) : Int)
      | .minus => ((b.stop - 1 - j : Nat) : Int) := by
  refine ⟨geneIv_len g hin, ?_⟩
  obtain ⟨h1, h2, h3⟩ := hin
  intro j hj
  unfold Iv.len at hj
  unfold geneToGenomic geneIv
  cases g.strand <;> simp only <;> omega

/-! ## sequence = blocks -/

/-- **circ_seq_eq_blocks.**  For a record whose blocks are ascending and disjoint, the sequence
that `get_circ_rna_sequence` assembles from the gene sequence equals the concatenation of the
reported genomic blocks read from the chromosome in transcript orientation. -/
theorem circ_seq_eq_blocks (chrom : List Char) (g : Gene) (t : Transcript)
    (hst : t.strand = g.strand) (hc : g.loc.stop ≤ chrom.length)
    (rs re : Int × Int) (r : CxRecord) (hasc : AscBlocks r.blocks) (c : CircOut)
    (h : convertToCircRna g t rs re r = .ok c) :
    circSeq (geneSeq chrom g) c.fragments = circSeqSpec chrom g.strand r.blocks := by
  obtain ⟨_, hf, hin⟩ := circ_fragments_eq_blocks g t hst rs re r c h
  unfold circSeq circSeqSpec
  rw [hf, sortFragments_geneIv hin hasc]
  cases hs : g.strand
  · exact exonConcat_geneSeq_plus hs hc hin
  · simp only
    rw [exonConcat_geneSeq_minus hs hc (fun b hb => hin b (List.mem_reverse.mp hb)),
      revComp_exonConcat]

example : AscBlocks exRec.blocks := by decide
example : circSeqSpec "AACCGGTTACGTAAC".toList .minus [⟨3, 6⟩, ⟨9, 12⟩] = "ACGCCG".toList := by
  decide
example : circSeqSpec "AACCGGTTACGTAAC".toList .plus [⟨3, 6⟩, ⟨9, 12⟩] = "CGGCGT".toList := by
  decide

/-! ## the ID encodes the back-splice coordinates -/

/-- **circ_id_encodes.**  The two numbers in `CIRC-<tx>-<a>:<b>` are the strand-corrected gene
interval of the reported span `[start, end)`, the genomic position attribute is the span itself;
for a record that tiles its span, `a` is the first base of the first fragment and `b` the end of
the last fragment in transcript order — the back-splice junction joins gene position `b - 1`
to gene position `a`. -/
theorem circ_id_encodes (g : Gene) (t : Transcript) (hst : t.strand = g.strand)
    (rs re : Int × Int) (r : CxRecord) (c : CircOut)
    (h : convertToCircRna g t rs re r = .ok c) (htile : Tiles r) :
    (⟨c.idStart, c.idStop⟩ : Iv) = geneIv g ⟨r.start, r.stop⟩ ∧
    c.genomicStart = r.start ∧ c.genomicStop = r.stop ∧
    (sortFragments c.fragments).head?.map (·.start) = some c.idStart ∧
    (sortFragments c.fragments).getLast?.map (·.stop) = some c.idStop := by
  obtain ⟨_, hf, hin⟩ := circ_fragments_eq_blocks g t hst rs re r c h
  obtain ⟨_, acc, bs, _, hbs, rfl⟩ := convert_ok h
  obtain ⟨hle, hasc, hhead, hlast⟩ := htile
  rw [hst] at hbs
  obtain ⟨hbe, _, _⟩ := spanToGene_ok hbs hle
  simp only at hf
  refine ⟨by simp only; rw [← hbe], rfl, rfl, ?_, ?_⟩
  · simp only; rw [hf, sortFragments_geneIv hin hasc, hbe]
    unfold geneIv
    cases hs : g.strand
    · simp only [List.head?_map, Option.map_map]
      cases hh : r.blocks.head? with
      | none => rw [hh] at hhead; cases hhead
      | some b =>
        rw [hh] at hhead
        simp only [Option.map_some, Option.some.injEq, Function.comp] at hhead ⊢; omega
    · simp only [List.head?_map, List.head?_reverse, Option.map_map]
      cases hh : r.blocks.getLast? with
      | none => rw [hh] at hlast; cases hlast
      | some b =>
        rw [hh] at hlast
        simp only [Option.map_some, Option.some.injEq, Function.comp] at hlast ⊢; omega
  · simp only; rw [hf, sortFragments_geneIv hin hasc, hbe]
    unfold geneIv
    cases hs : g.strand
    · simp only [List.getLast?_map, Option.map_map]
      cases hh : r.blocks.getLast? with
      | none => rw [hh] at hlast; cases hlast
      | some b =>
        rw [hh] at hlast
        simp only [Option.map_some, Option.some.injEq, Function.comp] at hlast ⊢; omega
    · simp only [List.getLast?_map, List.getLast?_reverse, Option.map_map]
      cases hh : r.blocks.head? with
      | none => rw [hh] at hhead; cases hhead
      | some b =>
        rw [hh] at hhead
        simp only [Option.map_some, Option.some.injEq, Function.comp] at hhead ⊢; omega

/-! ## exon / intron look-up of the blocks -/

/-- the 5' end of intron candidate: the feature start (in transcript direction) relative to the
end of the upstream exon `up`, within the start range -/
def StartHit (s : Strand) (f : Iv) (rs : Int × Int) (up : Iv) : Bool :=
  match s with
  | .plus => inRange ((f.start : Int) - up.stop) rs
  | .minus => inRange ((up.start : Int) - f.stop) rs

/-- the 3' end: within the end range of the start of the downstream exon `dn`, or before it -/
def EndOk (s : Strand) (f : Iv) (re : Int × Int) (dn : Iv) : Prop :=
  match s with
  | .plus => inRange ((f.stop : Int) - dn.start) re = true ∨ dn.start ≥ f.stop
  | .minus => inRange ((dn.stop : Int) - f.start) re = true ∨ dn.stop ≤ f.start

/-- an exon that lies wholly behind the feature (in transcript direction) stops the search -/
def Beyond (s : Strand) (f : Iv) (e : Iv) : Prop :=
  match s with
  | .plus => e.start > f.stop
  | .minus => e.stop < f.start

/-- **intron_lookup_spec** (what C11 left to correspondence only).  For every exon list, feature,
strand and pair of tolerance ranges: `find_intron_index` returns `k` iff, with the exons in
transcript order, there is a position `j` such that exon `j` is the first exon whose 3' end is
within the start range of the feature's 5' end, no earlier exon lies wholly behind the feature,
exon `j + 1` exists and the feature's 3' end is within the end range of its start or before it;
`k` is then `j` on the plus strand and the genomic-order index `n - 1 - j` of the upstream exon on
the minus strand.  Every other outcome is `IntronNotFoundError`. -/
theorem intron_lookup_spec (t : Transcript) (f : Iv) (rs re : Int × Int) (k : Nat) :
    (findIntronIndex t f rs re = .ok k ↔
      ∃ (j : Nat) (up dn : Iv), (txOrderExons t)[j]? = some up ∧ (txOrderExons t)[j + 1]? = some dn ∧
        StartHit t.strand f rs up = true ∧ EndOk t.strand f re dn ∧
        (∀ (j' : Nat) (e' : Iv), j' < j → (txOrderExons t)[j']? = some e' →
          StartHit t.strand f rs e' = false ∧ ¬ Beyond t.strand f e') ∧
        k = (match t.strand with | .plus => j | .minus => t.exons.length - 1 - j)) ∧
    (∀ x, findIntronIndex t f rs re = .error x → x = .intronNotFound) := by
  refine ⟨?_, fun x h => findIntronIndex_error h⟩
  unfold findIntronIndex txOrderExons StartHit EndOk Beyond
  cases hs : t.strand
  · simp only
    rw [findIntronPlus_spec]
    constructor
    · rintro ⟨j, e, e2, hk, a1, a2, a3, a4, a5⟩
      refine ⟨j, e, e2, a1, a2, a3, a4, ?_, by omega⟩
      intro j' e' hj' he; have := a5 j' e' hj' he; exact ⟨this.1, by omega⟩
    · rintro ⟨j, e, e2, a1, a2, a3, a4, a5, hk⟩
      refine ⟨j, e, e2, by omega, a1, a2, a3, a4, ?_⟩
      intro j' e' hj' he; have := a5 j' e' hj' he; exact ⟨this.1, by omega⟩
  · simp only
    rw [findIntronMinus_spec]
    have hneg : ∀ (a b : Nat), -((a : Int) - b) = (b : Int) - a := by intro a b; omega
    simp only [hneg]
    constructor
    · rintro ⟨j, e, e2, hk, a1, a2, a3, a4, a5⟩
      refine ⟨j, e, e2, a1, a2, a3, a4, ?_, by omega⟩
      intro j' e' hj' he; have := a5 j' e' hj' he; exact ⟨this.1, by omega⟩
    · rintro ⟨j, e, e2, a1, a2, a3, a4, a5, hk⟩
      refine ⟨j, e, e2, by omega, a1, a2, a3, a4, ?_⟩
      intro j' e' hj' he; have := a5 j' e' hj' he; exact ⟨this.1, by omega⟩

theorem inRange_zero (x : Int) : inRange x (0, 0) = true ↔ x = 0 := by
  unfold inRange; simp only [Bool.and_eq_true, decide_eq_true_eq]; omega

/-- transcript-order exons of a well-formed transcript: strictly ordered in transcript
direction -/
theorem txOrder_sorted (t : Transcript) (hw : t.WF) :
    match t.strand with
    | .plus => AscWF (txOrderExons t)
    | .minus => DescWF (txOrderExons t) := by
  have hasc : AscWF t.exons := ⟨hw.2.1, hw.2.2⟩
  unfold txOrderExons
  cases t.strand
  · exact hasc
  · exact hasc.reverse

/-- **intron_lookup_exact** : with zero tolerance on a well-formed transcript the look-up
succeeds iff the feature starts exactly at the 5' end of an intron and ends inside it (at or
before the next exon) — the returned index is the one of `intron_lookup_spec`. -/
theorem intron_lookup_exact (t : Transcript) (hw : t.WF) (f : Iv) (hf : f.start ≤ f.stop)
    (k : Nat) :
    findIntronIndex t f (0, 0) (0, 0) = .ok k ↔
      ∃ (j : Nat) (up dn : Iv), (txOrderExons t)[j]? = some up ∧ (txOrderExons t)[j + 1]? = some dn ∧
        (match t.strand with
          | .plus => f.start = up.stop ∧ f.stop ≤ dn.start
          | .minus => f.stop = up.start ∧ dn.stop ≤ f.start) ∧
        k = (match t.strand with | .plus => j | .minus => t.exons.length - 1 - j) := by
  rw [(intron_lookup_spec t f (0, 0) (0, 0) k).1]
  have hsorted := txOrder_sorted t hw
  unfold StartHit EndOk Beyond
  cases hs : t.strand
  · simp only [hs] at hsorted ⊢
    constructor
    · rintro ⟨j, up, dn, a1, a2, a3, a4, _, hk⟩
      rw [inRange_zero] at a3
      refine ⟨j, up, dn, a1, a2, ⟨by omega, ?_⟩, hk⟩
      rcases a4 with c | c
      · rw [inRange_zero] at c; omega
      · omega
    · rintro ⟨j, up, dn, a1, a2, ⟨b1, b2⟩, hk⟩
      refine ⟨j, up, dn, a1, a2, by rw [inRange_zero]; omega, Or.inr (by omega), ?_, hk⟩
      intro j' e' hj' he
      -- an earlier exon ends before the upstream exon does
      have hlt : e'.stop < up.start := by
        have hp := hsorted.2
        try unfold Separated at hp
        rw [List.pairwise_iff_getElem] at hp
        have hj1 : j < (txOrderExons t).length := by
          rcases Nat.lt_or_ge j (txOrderExons t).length with h | h
          · exact h
          · rw [List.getElem?_eq_none h] at a1; cases a1
        have := hp j' j (by omega) hj1 hj'
        rw [List.getElem?_eq_getElem (by omega)] at he
        rw [List.getElem?_eq_getElem hj1] at a1
        simp only [Option.some.injEq] at he a1
        rw [he, a1] at this; exact this
      have hne' := hsorted.1 e' (List.mem_of_getElem? he)
      have hneu := hsorted.1 up (List.mem_of_getElem? a1)
      refine ⟨?_, by omega⟩
      cases hr : inRange ((f.start : Int) - e'.stop) (0, 0)
      · rfl
      · rw [inRange_zero] at hr; omega
  · simp only [hs] at hsorted ⊢
    constructor
    · rintro ⟨j, up, dn, a1, a2, a3, a4, _, hk⟩
      rw [inRange_zero] at a3
      refine ⟨j, up, dn, a1, a2, ⟨by omega, ?_⟩, hk⟩
      rcases a4 with c | c
      · rw [inRange_zero] at c; omega
      · omega
    · rintro ⟨j, up, dn, a1, a2, ⟨b1, b2⟩, hk⟩
      refine ⟨j, up, dn, a1, a2, by rw [inRange_zero]; omega, Or.inr (by omega), ?_, hk⟩
      intro j' e' hj' he
      have hlt : up.stop < e'.start := by
        have hp := hsorted.2
        try unfold Separated at hp
        rw [List.pairwise_iff_getElem] at hp
        have hj1 : j < (txOrderExons t).length := by
          rcases Nat.lt_or_ge j (txOrderExons t).length with h | h
          · exact h
          · rw [List.getElem?_eq_none h] at a1; cases a1
        have := hp j' j (by omega) hj1 hj'
        rw [List.getElem?_eq_getElem (by omega)] at he
        rw [List.getElem?_eq_getElem hj1] at a1
        simp only [Option.some.injEq] at he a1
        rw [he, a1] at this; exact this
      have hne' := hsorted.1 e' (List.mem_of_getElem? he)
      have hneu := hsorted.1 up (List.mem_of_getElem? a1)
      refine ⟨?_, by omega⟩
      cases hr : inRange ((e'.start : Int) - f.stop) (0, 0)
      · rfl
      · rw [inRange_zero] at hr; omega

example : findIntronIndex exTx ⟨33, 40⟩ (0, 0) (0, 0) = .ok 2 := by decide
example : findIntronIndex exTx ⟨31, 40⟩ (0, 0) (0, 0) = .ok 2 := by decide
example : findIntronIndex exTx ⟨30, 40⟩ (0, 0) (0, 0) = .error .intronNotFound := by decide
example : findIntronIndex exTx ⟨31, 39⟩ (0, 0) (0, 0) = .error .intronNotFound := by decide
example : findIntronIndex exTx ⟨23, 26⟩ (-2, 0) (-100, 5) = .ok 1 := by decide

/-- **circ_id_encodes, second half** (`fragment_ids`, the `E<k>` / `I<k>` numbering the code
computes for every block before it builds the ID): for a circRNA, `ids[j] = k` means block `j` IS
exon `k` of the transcript in transcript order (0-based; `E<k+1>` in the ID scheme of
`fake_circ_rna_model`); for a ciRNA it is the intron index of `intron_lookup_spec`; there is one
index per block. -/
theorem circ_fragment_ids (g : Gene) (t : Transcript) (hw : t.WF) (hst : t.strand = g.strand)
    (rs re : Int × Int) (r : CxRecord) (c : CircOut)
    (h : convertToCircRna g t rs re r = .ok c) :
    c.ids.length = r.blocks.length ∧
    ∀ (j : Nat) (b : Iv) (k : Nat), r.blocks[j]? = some b → c.ids[j]? = some k →
      (r.ctype = .circ → (txOrderExons t)[k]? = some b) ∧
      (r.ctype = .ci → findIntronIndex t b rs re = .ok k) := by
  obtain ⟨hne, acc, bs, hacc, _, rfl⟩ := convert_ok h
  obtain ⟨_, _, _, l4, l5, _⟩ := convertBlocks_ok hst hacc
  simp only [List.drop_zero] at l4 l5
  refine ⟨l4, ?_⟩
  intro j b k hb hk
  have := l5 j b k hb hk
  constructor
  · intro hc
    rw [hc] at this
    simp only [reduceCtorEq, decide_false, Bool.false_eq_true, if_false] at this
    exact (exon_lookup_spec t hw b k).mp this
  · intro hc
    rw [hc] at this
    simpa using this

/-- the `INTRON` attribute the parser writes: empty for a circRNA, the 0-based block indices
`0 … n-1` for a ciRNA (`intron.append(i)`).  The GVF reader tests `j + 1 ∈ INTRON`
(`readerIsIntron`), so for the usual one-block ciRNA the reader does NOT see an intron where the
parser recorded one — the writer/reader disagreement reported as a known finding. -/
theorem circ_intron_attr (g : Gene) (t : Transcript) (hst : t.strand = g.strand)
    (rs re : Int × Int) (r : CxRecord) (c : CircOut)
    (h : convertToCircRna g t rs re r = .ok c) :
    c.intron = (if r.ctype = .ci then List.range r.sizes.length else []) := by
  obtain ⟨hne, acc, bs, hacc, _, rfl⟩ := convert_ok h
  obtain ⟨_, _, _, _, _, l6⟩ := convertBlocks_ok hst hacc
  simp only at l6 ⊢
  rw [l6]
  by_cases hc : r.ctype = .ci
  · simp [hc]
  · simp [hc]

/-- … hence the one-block ciRNA: parser says intron, reader says exon -/
theorem cirna_reader_disagrees (intron : List Nat) (h : intron = List.range 1) :
    writerIsIntron intron 0 = true ∧ readerIsIntron intron 0 = false := by
  subst h; decide

/-! ## skipped records are skipped and counted -/

/-- the row is well formed with respect to the gene of its isoform: positive block sizes, one
offset per size, every block and the reported span inside the gene -/
def RowWF (g : Gene) (r : CxRecord) : Prop :=
  (∀ s ∈ r.sizes, 0 < s) ∧ r.sizes.length ≤ r.offsets.length ∧ (∀ b ∈ r.blocks, InGene g b) ∧
  r.start < r.stop ∧ InGene g ⟨r.start, r.stop⟩
instance (g : Gene) (r : CxRecord) : Decidable (RowWF g r) := by unfold RowWF; infer_instance

example : RowWF exGene exRec := by decide
example : RowWF exGene exCi := by decide

/-- the threshold test, declaratively: enough junction reads and, for CIRCexplorer3 with a
non-zero threshold given, `fpb_circ` / `circ_score` not below it (a threshold of `0` or `None`
switches the test off — Python truthiness) -/
theorem isValid_spec (o : CxOptions) (r : CxRecord) :
    isValid o r = true ↔
      o.minReads ≤ r.reads ∧
      (o.ce3 = true →
        (∀ m, o.minFpb = some m → m ≠ 0 → m ≤ r.fpb) ∧
        (∀ m, o.minScore = some m → m ≠ 0 → m ≤ r.score)) := by
  unfold isValid isValid3 isValid2 truthy
  cases o.ce3
  · simp
  · cases hf : o.minFpb <;> cases hs : o.minScore <;>
      simp only [Option.getD, if_true, Bool.false_and, Bool.false_eq_true, if_false,
        Bool.and_eq_true, bne_iff_ne, ne_eq, decide_eq_true_eq, reduceCtorEq, false_implies,
        implies_true, and_true, true_and, Option.some.injEq, forall_eq', ge_iff_le,
        forall_const]
    · split <;> simp only [Bool.false_eq_true, false_iff, decide_eq_true_eq] <;> omega
    · split <;> simp only [Bool.false_eq_true, false_iff, decide_eq_true_eq] <;> omega
    · split
      · simp only [Bool.false_eq_true, false_iff]; omega
      · split <;> simp only [Bool.false_eq_true, false_iff, decide_eq_true_eq] <;> omega

/-- **circ_skip_counted, per record.**  (1) a record that fails the threshold test is skipped as
"insufficient evidence", whatever else it contains; (2) a circRNA row inside the gene with a
block that is not an exon of the transcript, (3) a ciRNA row whose block is not accepted by
`find_intron_index`, are skipped as "invalid record"; (4) a valid row all of whose blocks are
accepted is emitted, with the rank of its gene. -/
theorem record_outcome (o : CxOptions) (x : CxInput) :
    (isValid o x.record = false → processRecord o x = .insufficient) ∧
    (∀ rank g t, isValid o x.record = true → x.ref = some (rank, g, t) → t.WF →
      t.strand = g.strand → RowWF g x.record → x.record.ctype ≠ .other →
      ((∃ b ∈ x.record.blocks,
          ∀ k, blockLookup t (decide (x.record.ctype = .ci)) o.rs o.re b ≠ .ok k) →
        processRecord o x = .invalid) ∧
      ((∀ b ∈ x.record.blocks,
          ∃ k, blockLookup t (decide (x.record.ctype = .ci)) o.rs o.re b = .ok k) →
        ∃ c, processRecord o x = .emitted rank c)) := by
  constructor
  · intro h; unfold processRecord; simp [h]
  · intro rank g t hv href hw hst hrow hct
    obtain ⟨h1, h2, h3, h4, h5⟩ := hrow
    have hc := convertBlocks_cases (g := g) (t := t) hst
      (isCi := decide (x.record.ctype = .ci)) (rs := o.rs) (re := o.re)
      (start := x.record.start) (offsets := x.record.offsets) (sizes := x.record.sizes) (i := 0)
      h1 (by omega) (by simpa [CxRecord.blocks] using h3)
    simp only [List.drop_zero] at hc
    have hconv : convertToCircRna g t o.rs o.re x.record =
        match convertBlocks g t (decide (x.record.ctype = .ci)) o.rs o.re x.record.start
          x.record.offsets x.record.sizes 0 with
        | .error e => .error e
        | .ok acc =>
          match spanToGene g t.strand x.record.start x.record.stop with
          | .error e => .error (.coord e)
          | .ok bs => .ok ⟨acc.fragments, acc.intron, bs.start, bs.stop, x.record.start,
              x.record.stop, acc.ids⟩ := by
      unfold convertToCircRna
      cases hcc : x.record.ctype
      · rfl
      · rfl
      · exact absurd hcc hct
    constructor
    · intro hbad
      have := hc.2 hbad
      unfold processRecord
      simp only [hv, Bool.not_true, Bool.false_eq_true, if_false, href, hconv, this]
      cases decide (x.record.ctype = .ci) <;> rfl
    · intro hall
      obtain ⟨acc, hacc⟩ := hc.1 hall
      have hspan := spanToGene_of_inGene h4 h5
      rw [← hst] at hspan
      unfold processRecord
      simp only [hv, Bool.not_true, Bool.false_eq_true, if_false, href, hconv, hacc, hspan]
      exact ⟨_, rfl⟩

/-- circRNA reading of `record_outcome`: a block is accepted iff it IS an exon of the transcript -/
theorem exon_block_accepted (t : Transcript) (hw : t.WF) (rs re : Int × Int) (b : Iv) :
    (∃ k, blockLookup t false rs re b = .ok k) ↔ b ∈ t.exons := by
  unfold blockLookup
  simp only [Bool.false_eq_true, if_false]
  constructor
  · rintro ⟨k, hk⟩
    have := List.mem_of_getElem? ((exon_lookup_spec t hw b k).mp hk)
    unfold txOrderExons at this
    cases hs : t.strand <;> simp only [hs] at this
    · exact this
    · exact List.mem_reverse.mp this
  · intro hb
    have hm : b ∈ txOrderExons t := by
      unfold txOrderExons
      cases t.strand
      · exact hb
      · exact List.mem_reverse.mpr hb
    obtain ⟨k, hk⟩ := List.getElem?_of_mem hm
    exact ⟨k, (exon_lookup_spec t hw b k).mpr hk⟩

/-- "insufficient evidence" is exactly "fails the threshold test" -/
theorem insufficient_iff (o : CxOptions) (x : CxInput) :
    processRecord o x = .insufficient ↔ isValid o x.record = false := by
  unfold processRecord
  cases hv : isValid o x.record
  · simp
  · simp only [Bool.not_true, Bool.false_eq_true, if_false, reduceCtorEq, iff_false]
    cases x.ref with
    | none => simp
    | some p =>
      obtain ⟨rank, g, t⟩ := p
      simp only
      split <;> simp

/-- the record the loop emits for `x`, if any -/
def emittedOf (o : CxOptions) (x : CxInput) : Option (Nat × CircOut) :=
  match processRecord o x with
  | .emitted rank c => some (rank, c)
  | _ => none

theorem runLoop_spec (o : CxOptions) :
    ∀ (xs : List CxInput) (t0 : Tally) (acc : List (Nat × CircOut)) (t : Tally)
      (l : List (Nat × CircOut)), runLoop o xs t0 acc = .ok (t, l) →
    t.total = t0.total + xs.length ∧
    t.insufficient = t0.insufficient +
      xs.countP (fun x => decide (processRecord o x = .insufficient)) ∧
    t.invalid = t0.invalid + xs.countP (fun x => decide (processRecord o x = .invalid)) ∧
    t.skipped + t0.insufficient + t0.invalid = t0.skipped + t.insufficient + t.invalid ∧
    l = acc.reverse ++ xs.filterMap (emittedOf o) ∧
    l.length + t.skipped = acc.length + t0.skipped + xs.length := by
  intro xs
  induction xs with
  | nil =>
    intro t0 acc t l h
    simp only [runLoop, Except.ok.injEq, Prod.mk.injEq] at h
    obtain ⟨rfl, rfl⟩ := h
    simp
  | cons x xs ih =>
    intro t0 acc t l h
    unfold runLoop at h
    cases hp : processRecord o x with
    | insufficient =>
      simp only [hp] at h
      obtain ⟨a1, a2, a3, a4, a5, a6⟩ := ih _ _ _ _ h
      simp only at a1 a2 a3 a4 a6
      simp only [List.length_cons, List.countP_cons, hp, decide_true, if_true, reduceCtorEq,
        decide_false, Bool.false_eq_true, if_false, List.filterMap_cons, emittedOf]
      refine ⟨by omega, by omega, by omega, by omega, a5, by omega⟩
    | invalid =>
      simp only [hp] at h
      obtain ⟨a1, a2, a3, a4, a5, a6⟩ := ih _ _ _ _ h
      simp only at a1 a2 a3 a4 a6
      simp only [List.length_cons, List.countP_cons, hp, decide_true, if_true, reduceCtorEq,
        decide_false, Bool.false_eq_true, if_false, List.filterMap_cons, emittedOf]
      refine ⟨by omega, by omega, by omega, by omega, a5, by omega⟩
    | emitted rank c =>
      simp only [hp] at h
      obtain ⟨a1, a2, a3, a4, a5, a6⟩ := ih _ _ _ _ h
      simp only [List.length_cons] at a1 a2 a3 a4 a6
      simp only [List.length_cons, List.countP_cons, hp, reduceCtorEq,
        decide_false, Bool.false_eq_true, if_false, List.filterMap_cons, emittedOf]
      refine ⟨by omega, by omega, by omega, by omega, ?_, by omega⟩
      rw [a5]; simp
    | abort e => simp [hp] at h

/-- **circ_skip_counted.**  Whenever `parse_circexplorer` completes: every record read is
counted; the "insufficient evidence" tally is exactly the number of records failing the
threshold test (`insufficient_iff`, `isValid_spec`), the "invalid record" tally the number of
records with an unknown exon / intron (`record_outcome`); skipped = insufficient + invalid; written + skipped =
read; the written records are exactly the emitted ones (a permutation: grouped by gene rank,
input order within a gene), so no skipped record is written and no accepted record is lost. -/
theorem circ_skip_counted (o : CxOptions) (xs : List CxInput) (t : Tally)
    (l : List (Nat × CircOut)) (h : parseCircexplorer o xs = .ok (t, l)) :
    t.total = xs.length ∧
    t.insufficient = xs.countP (fun x => decide (processRecord o x = .insufficient)) ∧
    t.invalid = xs.countP (fun x => decide (processRecord o x = .invalid)) ∧
    t.skipped = t.insufficient + t.invalid ∧
    l.Perm (xs.filterMap (emittedOf o)) ∧
    l.length + t.skipped = t.total ∧
    l.Pairwise (fun a b => a.1 ≤ b.1) := by
  unfold parseCircexplorer at h
  cases hr : runLoop o xs {} [] with
  | error e => simp [hr] at h
  | ok p =>
    obtain ⟨t', l'⟩ := p
    simp only [hr, Except.ok.injEq, Prod.mk.injEq] at h
    obtain ⟨rfl, rfl⟩ := h
    obtain ⟨a1, a2, a3, a4, a5, a6⟩ := runLoop_spec o xs {} [] t' l' hr
    simp only [List.reverse_nil, List.nil_append, List.length_nil, Nat.zero_add] at a1 a2 a3 a4 a5 a6
    have hperm : (emitOrder l').Perm l' := List.mergeSort_perm _ _
    refine ⟨by omega, by omega, by omega, by omega, ?_, ?_, ?_⟩
    · rw [← a5]; exact hperm
    · rw [hperm.length_eq]; omega
    · have := List.pairwise_mergeSort (le := fun (a b : Nat × CircOut) => decide (a.1 ≤ b.1))
        (by intro a b c; simp only [decide_eq_true_eq]; omega)
        (by intro a b; simp only [Bool.or_eq_true, decide_eq_true_eq]; omega) l'
      unfold emitOrder
      exact this.imp (by intro a b hab; simpa using hab)

/-- any exception other than the two look-up errors aborts the whole command: nothing is
written (the behaviour behind the known findings `unknown-isoform-aborts-run` and
`block-outside-gene-aborts-run`) -/
theorem run_aborts (o : CxOptions) (xs : List CxInput) (x : CxInput) (e : CircErr)
    (hx : x ∈ xs) (ha : processRecord o x = .abort e) :
    ∃ e', parseCircexplorer o xs = .error e' := by
  have key : ∀ (xs : List CxInput) (t0 : Tally) (acc : List (Nat × CircOut)), x ∈ xs →
      ∃ e', runLoop o xs t0 acc = .error e' := by
    intro xs
    induction xs with
    | nil => intro _ _ h; cases h
    | cons y ys ih =>
      intro t0 acc hm
      unfold runLoop
      cases hp : processRecord o y with
      | abort e2 => exact ⟨e2, rfl⟩
      | insufficient =>
        rcases List.mem_cons.mp hm with rfl | hm'
        · rw [ha] at hp; cases hp
        · exact ih _ _ hm'
      | invalid =>
        rcases List.mem_cons.mp hm with rfl | hm'
        · rw [ha] at hp; cases hp
        · exact ih _ _ hm'
      | emitted rank c =>
        rcases List.mem_cons.mp hm with rfl | hm'
        · rw [ha] at hp; cases hp
        · exact ih _ _ hm'
  obtain ⟨e', he⟩ := key xs {} [] hx
  exact ⟨e', by unfold parseCircexplorer; rw [he]⟩

/-- an isoform that is not in the annotation, and a block outside the gene, are aborts in the
code as written (not skips) -/
theorem unknown_isoform_aborts (o : CxOptions) (r : CxRecord) (hv : isValid o r = true) :
    processRecord o ⟨r, none⟩ = .abort .noTx := by
  unfold processRecord; simp [hv]

example : processRecord { ce3 := false, minReads := 1, rs := (0, 0), re := (0, 0) }
    ⟨{ exRec with start := 56, stop := 62, sizes := [6], offsets := [0] }, some (0, exGene, exTx)⟩
    = .abort (.coord .outOfRange) := by decide
example : processRecord { ce3 := false, minReads := 4, rs := (0, 0), re := (0, 0) }
    ⟨exRec, some (0, exGene, exTx)⟩ = .insufficient := by decide
example : processRecord { ce3 := false, minReads := 3, rs := (0, 0), re := (0, 0) }
    ⟨{ exRec with sizes := [9, 6] }, some (0, exGene, exTx)⟩ = .invalid := by decide

end MoPepGen.Props.C17
