import MoPepGen.Lemmas.Gvf
import MoPepGen.Generated.Constants
/-!
# C13 — GVF files: lossless round trip and index-equivalent access
-/
namespace MoPepGen.Props.C13
open MoPepGen MoPepGen.Gvf

/-- the constants of the working tree -/
def genC : Consts := ⟨Generated.attrsPosition, Generated.singleNucleotideSubstitution⟩

theorem genC_ok : ConstsOK genC = true := by decide

theorem ctorOk_of {r : VarRec}
    (h1 : r.stop - r.start = (r.ref.length : Int) ∨ r.type = tDeletion ∨ r.type = tSubstitution)
    (h2 : variantTypes.contains r.type = true) : ctorOk r = true := by
  unfold ctorOk
  rw [h2, Bool.and_true]
  rcases h1 with h | h | h
  · simp [h]
  · simp [h]
  · simp [h]

theorem altINS : '<' :: (upper tInsertion).take 3 ++ ['>'] = aINS := by decide
theorem altDEL : '<' :: (upper tDeletion).take 3 ++ ['>'] = aDEL := by decide
theorem altSUB : '<' :: (upper tSubstitution).take 3 ++ ['>'] = aSUB := by decide

/-- REF / ALT columns of a symbolic kind -/
theorem refAlt_sym {C : Consts} {r : VarRec} {c : Char} {t : Str} (hr : r.ref = c :: t)
    (h0 : C.sns.contains r.type = false) :
    (r.type = tFusion → refAlt C r = .ok ([c], aFUSION)) ∧
    (r.type = tInsertion → refAlt C r = .ok ([c], aINS)) ∧
    (r.type = tDeletion → refAlt C r = .ok ([c], aDEL)) ∧
    (r.type = tSubstitution → refAlt C r = .ok ([c], aSUB)) := by
  have e1 : (tInsertion = tFusion) = False := by decide
  have e2 : (tDeletion = tFusion) = False := by decide
  have e3 : (tSubstitution = tFusion) = False := by decide
  refine ⟨?_, ?_, ?_, ?_⟩ <;> intro ht <;> unfold refAlt <;> rw [h0, hr] <;>
    simp only [Bool.false_eq_true, if_false, ht, e1, e2, e3, if_true, decide_true, Bool.true_or,
      Bool.or_true, altINS, altDEL, altSUB]

/-- what a well-formed record writes into the REF / ALT columns, and what the reader then
computes as `end` and `type` -/
theorem refAlt_endType {C : Consts} (hC : ConstsOK C = true) {r : VarRec}
    (hk : kindOK r = true) :
    ∃ ref alt stop ty, refAlt C r = .ok (ref, alt) ∧ '\t' ∉ ref ∧ '\t' ∉ alt ∧
      endType r.start ref alt (normAttrs C r.attrs) = .ok (stop, ty) ∧ r.start ≤ stop ∧
      ctorOk { r with stop := stop, ref := ref, alt := alt, type := ty,
                      attrs := normAttrs C r.attrs } = true ∧
      refAlt C { r with stop := stop, ref := ref, alt := alt, type := ty,
                        attrs := normAttrs C r.attrs } = .ok (ref, alt) := by
  simp only [ConstsOK, snsKinds, symKinds, List.all_cons, List.all_nil, Bool.and_true,
    Bool.and_eq_true, Bool.not_eq_true'] at hC
  obtain ⟨⟨s1, s2, s3, s4⟩, y1, y2, y3, y4⟩ := hC
  unfold kindOK at hk
  by_cases hs : snsKinds.contains r.type = true
  · -- literal REF / ALT
    simp only [hs, if_true, Bool.and_eq_true, Bool.not_eq_true', decide_eq_true_eq] at hk
    obtain ⟨⟨⟨ha, hr⟩, hal⟩, hlen⟩ := hk
    have hsns : C.sns.contains r.type = true := by
      simp only [snsKinds, List.contains_cons, List.contains_nil, Bool.or_false, Bool.or_eq_true,
        beq_iff_eq] at hs
      rcases hs with h | h | h | h <;> rw [h] <;> assumption
    have hty : ∀ ty : Str, ty = (if (r.ref.length = 1 && r.alt.length = 1) = true then tSNV
        else if (r.ref.length = 1 || r.alt.length = 1) = true then tINDEL else tMNV) →
        C.sns.contains ty = true ∧ variantTypes.contains ty = true := by
      intro ty e
      subst e
      split
      · exact ⟨s1, by decide⟩
      · split
        · exact ⟨s2, by decide⟩
        · exact ⟨s3, by decide⟩
    refine ⟨r.ref, r.alt, r.start + r.ref.length,
      (if (r.ref.length = 1 && r.alt.length = 1) = true then tSNV
        else if (r.ref.length = 1 || r.alt.length = 1) = true then tINDEL else tMNV), ?_,
      mem_of_contains_false (by simpa [noTab] using hr),
      mem_of_contains_false (by simpa [noTab] using hal), ?_, by omega, ?_, ?_⟩
    · unfold refAlt; rw [if_pos hsns]
    · unfold endType; rw [ha]; rfl
    · exact ctorOk_of (Or.inl (by show r.start + (r.ref.length : Int) - r.start = (r.ref.length : Int); omega)) (hty _ rfl).2
    · unfold refAlt; rw [if_pos (hty _ rfl).1]
  · simp only [hs, Bool.false_eq_true, if_false] at hk
    have vF : variantTypes.contains tFusion = true := by decide
    have vI : variantTypes.contains tInsertion = true := by decide
    have vD : variantTypes.contains tDeletion = true := by decide
    have vS : variantTypes.contains tSubstitution = true := by decide
    by_cases hF : r.type = tFusion
    · cases hr : r.ref with
      | nil => simp [hF, hr] at hk
      | cons c t =>
        simp only [hF, hr, true_or, Bool.true_or, decide_true, if_true, bne_iff_ne, ne_eq] at hk
        have h0 : C.sns.contains r.type = false := by rw [hF]; exact y1
        refine ⟨[c], aFUSION, r.start + 1, tFusion, (refAlt_sym hr h0).1 hF,
          by simpa using Ne.symm hk, by decide, by simp [endType, startsWith, aFUSION], by omega,
          ctorOk_of (Or.inl (by show r.start + 1 - r.start = _; simp; omega)) vF,
          (refAlt_sym (r := VarRec.mk r.seqname r.start _ [c] _ tFusion r.id _)
            rfl y1).1 rfl⟩
    · by_cases hI : r.type = tInsertion
      · cases hr : r.ref with
        | nil => simp [hI, hr] at hk
        | cons c t =>
          have e1 : (tInsertion = tFusion) = False := by decide
          simp only [hI, hr, e1, decide_false, Bool.false_or, decide_true, if_true, bne_iff_ne,
            ne_eq] at hk
          have h0 : C.sns.contains r.type = false := by rw [hI]; exact y2
          refine ⟨[c], aINS, r.start + 1, tInsertion, (refAlt_sym hr h0).2.1 hI,
            by simpa using Ne.symm hk, by decide,
            by simp [endType, startsWith, aINS, aFUSION, aDEL], by omega,
            ctorOk_of (Or.inl (by show r.start + 1 - r.start = _; simp; omega)) vI,
            (refAlt_sym (r := VarRec.mk r.seqname r.start _ [c] _ tInsertion r.id _) rfl y2).2.1 rfl⟩
      · by_cases hD : r.type = tDeletion
        · cases hr : r.ref with
          | nil => simp [hD, hr] at hk
          | cons c t =>
            have e1 : (tDeletion = tFusion) = False := by decide
            have e2 : (tDeletion = tInsertion) = False := by decide
            simp only [hD, hr, e1, e2, decide_false, Bool.or_self, Bool.false_eq_true, if_false,
              decide_true, Bool.true_or, if_true, Bool.and_eq_true, bne_iff_ne, ne_eq] at hk
            obtain ⟨hc, he⟩ := hk
            have h0 : C.sns.contains r.type = false := by rw [hD]; exact y3
            cases hE : attrEnd r.attrs with
            | error _ => rw [hE] at he; cases he
            | ok e =>
              rw [hE] at he
              have he' : r.start ≤ e := by simpa using he
              refine ⟨[c], aDEL, e, tDeletion, (refAlt_sym hr h0).2.2.1 hD,
                by simpa using Ne.symm hc, by decide,
                by simp [endType, startsWith, aDEL, aFUSION, attrEnd_normAttrs hE], he',
                ctorOk_of (Or.inr (Or.inl rfl)) vD,
                (refAlt_sym (r := VarRec.mk r.seqname r.start _ [c] _ tDeletion r.id _) rfl y3).2.2.1 rfl⟩
        · by_cases hS : r.type = tSubstitution
          · cases hr : r.ref with
            | nil => simp [hS, hr] at hk
            | cons c t =>
              have e1 : (tSubstitution = tFusion) = False := by decide
              have e2 : (tSubstitution = tInsertion) = False := by decide
              simp only [hS, hr, e1, e2, decide_false, Bool.or_self, Bool.false_eq_true, if_false,
                decide_true, Bool.or_true, if_true, Bool.and_eq_true, bne_iff_ne, ne_eq] at hk
              obtain ⟨hc, he⟩ := hk
              have h0 : C.sns.contains r.type = false := by rw [hS]; exact y4
              cases hE : attrEnd r.attrs with
              | error _ => rw [hE] at he; cases he
              | ok e =>
                rw [hE] at he
                have he' : r.start ≤ e := by simpa using he
                refine ⟨[c], aSUB, e, tSubstitution, (refAlt_sym hr h0).2.2.2 hS,
                  by simpa using Ne.symm hc, by decide,
                  by simp [endType, startsWith, aSUB, aDEL, aINS, aFUSION, attrEnd_normAttrs hE],
                  he', ctorOk_of (Or.inr (Or.inr rfl)) vS,
                  (refAlt_sym (r := VarRec.mk r.seqname r.start _ [c] _ tSubstitution r.id _) rfl y4).2.2.2 rfl⟩
          · simp [hF, hI, hD, hS] at hk

theorem WFrec_iff {C : Consts} {r : VarRec} (h : WFrec C r = true) :
    '\t' ∉ r.seqname ∧ '\t' ∉ r.id ∧ kindOK r = true ∧ (∀ kv ∈ r.attrs, attrOK C kv = true) ∧
      lastOK C r.attrs = true ∧ (r.attrs.map (·.1)).Nodup ∧ r.attrs ≠ [] := by
  simp only [WFrec, Bool.and_eq_true, decide_eq_true_eq, List.all_eq_true] at h
  obtain ⟨⟨⟨⟨⟨h1, h2⟩, h3⟩, h4⟩, h5⟩, h6⟩ := h
  refine ⟨mem_of_contains_false (by simpa [noTab] using h1),
    mem_of_contains_false (by simpa [noTab] using h2), h3, h4, h5, h6, ?_⟩
  intro e
  rw [e] at h5
  simp [lastOK] at h5

/-- the line written for a well-formed record, its parse, and the record's normal form -/
theorem roundtrip_core {C : Consts} (hC : ConstsOK C = true) {r : VarRec}
    (h : WFrec C r = true) :
    ∃ l, toLine C r = .ok l ∧ rstrip l = l ∧ l ≠ [] ∧ parseLine C l = .ok (normalise C r) ∧
      toLine C (normalise C r) = .ok l := by
  obtain ⟨hsn, hid, hk, ha, hl, hnd, hne⟩ := WFrec_iff h
  obtain ⟨ref, alt, stop, ty, hra, hr1, hr2, het, hle, hct, hra'⟩ := refAlt_endType hC hk
  have hinfo := info_eq hne ha
  obtain ⟨hri, hin⟩ := rstrip_info hl
  let inf := joinWith ';' (r.attrs.map (part C))
  let fields : List Str := [r.seqname, intToStr (r.start + 1), r.id, ref, alt, ['.'], ['.'], inf]
  have hline : toLine C r = .ok (joinWith '\t' fields) := by
    unfold toLine; rw [hra]; dsimp only; rw [hinfo]
  have hrs : rstrip (joinWith '\t' fields) = joinWith '\t' fields :=
    rstrip_joinWith_last '\t' [r.seqname, intToStr (r.start + 1), r.id, ref, alt, ['.'], ['.']]
      hri hin
  have hsp : splitOn '\t' (joinWith '\t' fields) = fields := by
    apply splitOn_joinWith '\t' fields (by simp [fields])
    intro x hx
    simp only [fields, List.mem_cons, List.not_mem_nil, or_false] at hx
    rcases hx with rfl | rfl | rfl | rfl | rfl | rfl | rfl | rfl
    · exact hsn
    · exact not_mem_intToStr (by decide) (by decide) _
    · exact hid
    · exact hr1
    · exact hr2
    · decide
    · decide
    · intro hm
      rcases mem_joinWith hm with e | ⟨p, hp, hmp⟩
      · exact absurd e (by decide)
      · obtain ⟨kv, hkv, rfl⟩ := List.mem_map.mp hp
        exact not_mem_part (ha kv hkv) (Or.inl rfl) hmp
  have hnorm : normalise C r =
      VarRec.mk r.seqname r.start stop ref alt ty r.id (normAttrs C r.attrs) := by
    unfold normalise; rw [hra]; dsimp only; rw [het]
  have hattrs : info C (normAttrs C r.attrs) = info C r.attrs := info_normAttrs hne ha
  refine ⟨joinWith '\t' fields, hline, hrs, ?_, ?_, ?_⟩
  · have : joinWith '\t' fields = (joinWith '\t' [r.seqname, intToStr (r.start + 1), r.id, ref, alt,
        ['.'], ['.']] ++ ['\t']) ++ inf := by simp [fields, joinWith]
    rw [this]; simp [hin]
  · unfold parseLine
    rw [hrs, hsp]
    dsimp only [fields]
    rw [parseInt_intToStr]
    dsimp only
    rw [parseAttrs_eq hne ha hnd]
    dsimp only
    have hst : r.start + 1 - 1 = r.start := by omega
    rw [hst, het]
    dsimp only
    rw [if_neg (by omega), hnorm, if_pos hct]
  · rw [hnorm]
    unfold toLine
    rw [hra']
    dsimp only
    rw [hattrs, hinfo]

/-! ## round trip of variant records -/

/-- both GVF record parsers start with `line.rstrip()` -/
theorem parseLine_rstrip (C : Consts) (l : Str) : parseLine C (rstrip l) = parseLine C l := by
  unfold parseLine; rw [rstrip_idem]

theorem circParseLine_rstrip (rk : Str) (l : Str) :
    circParseLine rk (rstrip l) = circParseLine rk l := by
  unfold circParseLine; rw [rstrip_idem]


/-- **parse ∘ write = normalise.**  For every well-formed record of each of the eight kinds
(SNV, INDEL, MNV, RNAEditingSite, Fusion, Insertion, Deletion, Substitution), with any
attributes: the record can be written, and reading the line back (with or without its
trailing newline) gives the normal form: same seqname, start, id, same attribute keys in the
same order, every value as the text that was written (position values — exactly the keys of
`ATTRS_POSITION` — shifted by +1 on write and −1 on read, `END` untouched), REF/ALT as
written, `end`/`type` recomputed. -/
theorem gvf_parse_write {C : Consts} (hC : ConstsOK C = true) {r : VarRec}
    (h : WFrec C r = true) :
    ∃ l, toLine C r = .ok l ∧ parseLine C l = .ok (normalise C r) ∧
      parseLine C (l ++ ['\n']) = .ok (normalise C r) := by
  obtain ⟨l, h1, _, _, h4, _⟩ := roundtrip_core hC h
  refine ⟨l, h1, h4, ?_⟩
  rw [← parseLine_rstrip, rstrip_newline, parseLine_rstrip, h4]

/-- **Text fix-point.**  write → parse → write gives the identical line, for every
well-formed record of every kind. -/
theorem gvf_text_fixpoint {C : Consts} (hC : ConstsOK C = true) {r : VarRec}
    (h : WFrec C r = true) :
    ∃ l, toLine C r = .ok l ∧ (parseLine C l).bind (toLine C) = .ok l := by
  obtain ⟨l, h1, _, _, h4, h5⟩ := roundtrip_core hC h
  exact ⟨l, h1, by rw [h4]; exact h5⟩

/-- the fields the normal form never changes -/
theorem normalise_preserves (C : Consts) (r : VarRec) :
    (normalise C r).seqname = r.seqname ∧ (normalise C r).start = r.start ∧
      (normalise C r).id = r.id ∧
      ((normalise C r).attrs.map (·.1) = r.attrs.map (·.1)) := by
  unfold normalise
  split
  · dsimp only
    split <;> simp [normAttrs, Function.comp_def]
  · simp

/-- **Lossless.**  A record already in the reader's form (what every parser of moPepGen
produces after one round trip) comes back identical: positions, alleles, id, type and all
attributes. -/
theorem gvf_lossless {C : Consts} (hC : ConstsOK C = true) {r : VarRec}
    (h : WFrec C r = true) (hc : Canonical C r = true) :
    ∃ l, toLine C r = .ok l ∧ parseLine C l = .ok r := by
  obtain ⟨l, h1, h2, _⟩ := gvf_parse_write hC h
  have : normalise C r = r := by simpa [Canonical] using hc
  exact ⟨l, h1, by rw [h2, this]⟩

private def exDel : VarRec :=
  { seqname := ['G', '1'], start := 404, stop := 750, ref := ['C', 'A'], alt := aDEL,
    type := tDeletion, id := ['S', 'E', '-', '1'],
    attrs := [(kTRANSCRIPT_ID, .str ['T', '1']), (['S','T','A','R','T'], .str ['0', '4', '0', '4']),
              (kEND, .str ['7', '5', '0']), (['I','D','S'], .list [['a'], ['b']])] }

private def exSnv : VarRec :=
  { seqname := ['G', '1'], start := 9, stop := 10, ref := ['A'], alt := ['T'], type := tRES,
    id := ['R', 'E', 'S'], attrs := [(kTRANSCRIPT_ID, .str ['T', '1'])] }

/-- non-vacuity: concrete well-formed records (a Deletion with a non-canonical START and a
list value; an RNA editing site whose type is recomputed) -/
example : WFrec genC exDel = true := by decide
example : WFrec genC exSnv = true := by decide
example : Canonical genC exDel = false := by decide
example : (normalise genC exSnv).type = tSNV := by decide
example : Canonical genC (normalise genC exDel) = true := by decide

/-! ## round trip of circRNA records -/

theorem WFcirc_iff {k : Str} {c : Circ} (h : WFcirc k c = true) :
    '\t' ∉ c.geneId ∧ '\t' ∉ c.id ∧ c.fragments ≠ [] ∧ (∀ f ∈ c.fragments, f.1 ≤ f.2) ∧
      cellOK c.txId = true ∧ cellOK c.geneName = true ∧ cellOK c.genomicPosition = true ∧
      cellOK k = true ∧ noTrailSpace c.genomicPosition = true ∧
      k ≠ kOFFSET ∧ k ≠ kLENGTH ∧ k ≠ kINTRON ∧ k ≠ kTRANSCRIPT_ID ∧ k ≠ kGENE_SYMBOL := by
  simp only [WFcirc, Bool.and_eq_true, Bool.not_eq_true', bne_iff_ne, ne_eq, List.all_eq_true,
    decide_eq_true_eq] at h
  obtain ⟨⟨⟨⟨⟨⟨⟨⟨⟨h1, h2⟩, h3⟩, h4⟩, h5⟩, h6⟩, h7⟩, h8⟩, h9⟩, h10⟩ := h
  have hk : k ∉ circFixedKeys := by
    intro hm
    have : circFixedKeys.contains k = true := by simpa using hm
    rw [h10] at this; cases this
  simp only [circFixedKeys, List.mem_cons, List.not_mem_nil, or_false, not_or] at hk
  exact ⟨mem_of_contains_false (by simpa [noTab] using h1),
    mem_of_contains_false (by simpa [noTab] using h2), h3, h4, h5, h6, h7, h8, h9,
    hk.1, hk.2.1, hk.2.2.1, hk.2.2.2.1, hk.2.2.2.2⟩

/-- the circRNA line, and what a reader that looks the genomic position up under `rk` makes
of a line whose writer used `wk` -/
theorem circ_core {wk rk : Str} {c : Circ} (h : WFcirc wk c = true)
    (hrk : rk ≠ kOFFSET ∧ rk ≠ kLENGTH ∧ rk ≠ kINTRON ∧ rk ≠ kTRANSCRIPT_ID ∧ rk ≠ kGENE_SYMBOL) :
    ∃ l, circToLine wk c = .ok l ∧ rstrip l = l ∧ l ≠ [] ∧
      circParseLine rk l = .ok (Circ.mk c.geneId c.fragments c.intron c.id c.txId c.geneName
        (if rk = wk then c.genomicPosition else [])) := by
  obtain ⟨hg, hid, hfr, hle, htx, hsym, hgp, hwk, hts, k1, k2, k3, k4, k5⟩ := WFcirc_iff h
  obtain ⟨r1, r2, r3, r4, r5⟩ := hrk
  obtain ⟨tx1, tx2, tx3⟩ := cellOK_iff htx
  obtain ⟨sy1, sy2, sy3⟩ := cellOK_iff hsym
  obtain ⟨gp1, gp2, gp3⟩ := cellOK_iff hgp
  obtain ⟨wk1, wk2, wk3⟩ := cellOK_iff hwk
  cases hfs : c.fragments with
  | nil => exact absurd hfs hfr
  | cons f0 fs =>
    let offs : List Int := c.fragments.map fun f => f.1 - f0.1
    let lens : List Int := c.fragments.map fun f => f.2 - f.1
    let oT := joinWith ',' (offs.map intToStr)
    let lT := joinWith ',' (lens.map intToStr)
    let iT := joinWith ',' (c.intron.map intToStr)
    have hone : offs ≠ [] := by simp [offs, hfs]
    have hlne : lens ≠ [] := by simp [lens, hfs]
    let parts : List Str := [kOFFSET ++ '=' :: oT, kLENGTH ++ '=' :: lT, kINTRON ++ '=' :: iT,
      kTRANSCRIPT_ID ++ '=' :: c.txId, kGENE_SYMBOL ++ '=' :: c.geneName,
      wk ++ '=' :: c.genomicPosition]
    let inf := joinWith ';' parts
    let fields : List Str := [c.geneId, intToStr f0.1, c.id, ['.'], ['.'], ['.'], ['.'], inf]
    have hline : circToLine wk c = .ok (joinWith '\t' fields) := by
      unfold circToLine
      rw [hfs]
      simp only [fields, inf, parts, oT, lT, iT, offs, lens, hfs, List.map_map, Function.comp_def]
    have nm : ∀ (c' : Char), isDigit c' = false → c' ≠ '-' → c' ≠ ',' →
        c' ∉ oT ∧ c' ∉ lT ∧ c' ∉ iT :=
      fun c' a b d => ⟨not_mem_ints a b d _, not_mem_ints a b d _, not_mem_ints a b d _⟩
    have hlast : rstrip (wk ++ '=' :: c.genomicPosition) = wk ++ '=' :: c.genomicPosition := by
      rw [rstrip_append_of_ne_nil (by rw [rstrip_eq_cons hts]; simp), rstrip_eq_cons hts]
    have hrinf : rstrip inf = inf :=
      rstrip_joinWith_last ';' [kOFFSET ++ '=' :: oT, kLENGTH ++ '=' :: lT, kINTRON ++ '=' :: iT,
        kTRANSCRIPT_ID ++ '=' :: c.txId, kGENE_SYMBOL ++ '=' :: c.geneName] hlast (by simp)
    have hinfne : inf ≠ [] := by simp [inf, parts, joinWith, kOFFSET]
    have hrs : rstrip (joinWith '\t' fields) = joinWith '\t' fields :=
      rstrip_joinWith_last '\t' [c.geneId, intToStr f0.1, c.id, ['.'], ['.'], ['.'], ['.']]
        hrinf hinfne
    have hpart : ∀ (c' : Char), isDigit c' = false → c' ≠ '-' → c' ≠ ',' → c' ≠ '=' →
        c' ∉ c.txId → c' ∉ c.geneName → c' ∉ c.genomicPosition → c' ∉ wk →
        c' ∉ kOFFSET → c' ∉ kLENGTH → c' ∉ kINTRON → c' ∉ kTRANSCRIPT_ID → c' ∉ kGENE_SYMBOL →
        ∀ p ∈ parts, c' ∉ p := by
      intro c' a b d e t1 t2 t3 t4 q1 q2 q3 q4 q5 p hp
      obtain ⟨n1, n2, n3⟩ := nm c' a b d
      simp only [parts, List.mem_cons, List.not_mem_nil, or_false] at hp
      rcases hp with rfl | rfl | rfl | rfl | rfl | rfl <;>
        simp only [List.mem_append, List.mem_cons, not_or] <;> refine ⟨?_, e, ?_⟩ <;> assumption
    have hsp : splitOn '\t' (joinWith '\t' fields) = fields := by
      apply splitOn_joinWith '\t' fields (by simp [fields])
      intro x hx
      simp only [fields, List.mem_cons, List.not_mem_nil, or_false] at hx
      rcases hx with rfl | rfl | rfl | rfl | rfl | rfl | rfl | rfl
      · exact hg
      · exact not_mem_intToStr (by decide) (by decide) _
      · exact hid
      · decide
      · decide
      · decide
      · decide
      · intro hm
        rcases mem_joinWith hm with e | ⟨p, hp, hmp⟩
        · exact absurd e (by decide)
        · exact hpart '\t' (by decide) (by decide) (by decide) (by decide) tx1 sy1 gp1 wk1
            (by decide) (by decide) (by decide) (by decide) (by decide) p hp hmp
    have hsi : splitOn ';' inf = parts := by
      apply splitOn_joinWith ';' parts (by simp [parts])
      exact hpart ';' (by decide) (by decide) (by decide) (by decide) tx2 sy2 gp2 wk2
        (by decide) (by decide) (by decide) (by decide) (by decide)
    obtain ⟨e1, e2, e3⟩ := nm '=' (by decide) (by decide) (by decide)
    have hintron : (iT = [] ∧ c.intron = []) ∨
        (iT ≠ [] ∧ mapE parseInt (splitOn ',' iT) = .ok c.intron) := by
      by_cases hi : c.intron = []
      · left; simp [iT, hi, joinWith]
      · right; exact ⟨joinWith_ints_ne_nil hi, ints_roundtrip hi⟩
    have d1 : (kOFFSET = kLENGTH) = False := by decide
    have d2 : (kOFFSET = kINTRON) = False := by decide
    have d3 : (kLENGTH = kINTRON) = False := by decide
    have d4 : (kOFFSET = kTRANSCRIPT_ID) = False := by decide
    have d5 : (kLENGTH = kTRANSCRIPT_ID) = False := by decide
    have d6 : (kINTRON = kTRANSCRIPT_ID) = False := by decide
    have d7 : (kOFFSET = kGENE_SYMBOL) = False := by decide
    have d8 : (kLENGTH = kGENE_SYMBOL) = False := by decide
    have d9 : (kINTRON = kGENE_SYMBOL) = False := by decide
    have d10 : (kTRANSCRIPT_ID = kGENE_SYMBOL) = False := by decide
    have hgo : circAttrsGo [] parts = .ok [(kOFFSET, .ints offs), (kLENGTH, .ints lens),
        (kINTRON, .ints c.intron), (kTRANSCRIPT_ID, .s c.txId), (kGENE_SYMBOL, .s c.geneName),
        (wk, .s c.genomicPosition)] := by
      simp only [parts, circAttrsGo,
        circStep_ints _ (Or.inl rfl) e1 (ints_roundtrip hone),
        circStep_ints _ (Or.inr rfl) e2 (ints_roundtrip hlne),
        circStep_intron _ e3 hintron,
        circStep_str _ (by decide : '=' ∉ kTRANSCRIPT_ID) tx3 (by decide) (by decide) (by decide),
        circStep_str _ (by decide : '=' ∉ kGENE_SYMBOL) sy3 (by decide) (by decide) (by decide),
        circStep_str _ wk3 gp3 k1 k2 k3,
        dictSet, d1, d2, d3, d4, d5, d6, d7, d8, d9, d10, if_false,
        Ne.symm k1, Ne.symm k2, Ne.symm k3, Ne.symm k4, Ne.symm k5]
    refine ⟨joinWith '\t' fields, hline, hrs, ?_, ?_⟩
    · have : joinWith '\t' fields = (joinWith '\t' [c.geneId, intToStr f0.1, c.id, ['.'], ['.'],
          ['.'], ['.']] ++ ['\t']) ++ inf := by simp [fields, joinWith]
      rw [this]; simp [hinfne]
    · unfold circParseLine
      rw [hrs, hsp]
      dsimp only [fields]
      rw [parseInt_intToStr]
      dsimp only
      rw [hsi, hgo]
      have hfrag : circFragments f0.1 offs lens = .ok c.fragments :=
        circFragments_eq f0.1 c.fragments hle
      by_cases hrw : rk = wk
      · subst hrw
        simp only [getInts, getStr, dictGet, d1, d2, d3, d4, d5, d6, d7, d8, d9, d10, if_false,
          if_true, Ne.symm r1, Ne.symm r2, Ne.symm r3, Ne.symm r4, Ne.symm r5, hfrag, hfs]
      · simp only [getInts, getStr, dictGet, d1, d2, d3, d4, d5, d6, d7, d8, d9, d10, if_false,
          if_true, Ne.symm r1, Ne.symm r2, Ne.symm r3, Ne.symm r4, Ne.symm r5, hfrag, hfs,
          Ne.symm hrw, hrw]

theorem fixedKeys_of_WFcirc {k : Str} {c : Circ} (h : WFcirc k c = true) :
    k ≠ kOFFSET ∧ k ≠ kLENGTH ∧ k ≠ kINTRON ∧ k ≠ kTRANSCRIPT_ID ∧ k ≠ kGENE_SYMBOL := by
  obtain ⟨_, _, _, _, _, _, _, _, _, k1, k2, k3, k4, k5⟩ := WFcirc_iff h
  exact ⟨k1, k2, k3, k4, k5⟩

/-- **circRNA: parse ∘ write = id** when reader and writer use the same key `k` for the
genomic position (the behaviour after the one-line fix of `circ/io.py`): every field —
gene id, start, every fragment, intron indices, id, transcript id, gene symbol and the
genomic position — comes back, with or without the trailing newline. -/
theorem circ_parse_write {k : Str} {c : Circ} (h : WFcirc k c = true) :
    ∃ l, circToLine k c = .ok l ∧ circParseLine k l = .ok c ∧
      circParseLine k (l ++ ['\n']) = .ok c := by
  obtain ⟨l, h1, _, _, h4⟩ := circ_core (rk := k) h (fixedKeys_of_WFcirc h)
  simp only [if_true] at h4
  refine ⟨l, h1, h4, ?_⟩
  rw [← circParseLine_rstrip, rstrip_newline, circParseLine_rstrip, h4]

/-- **circRNA text fix-point** (same key on both sides) -/
theorem circ_text_fixpoint {k : Str} {c : Circ} (h : WFcirc k c = true) :
    ∃ l, circToLine k c = .ok l ∧ (circParseLine k l).bind (circToLine k) = .ok l := by
  obtain ⟨l, h1, h2, _⟩ := circ_parse_write h
  exact ⟨l, h1, by rw [h2]; exact h1⟩

/-- for the constants of the working tree: once the reader key equals the writer key, the
circRNA round trip of the real key is the identity -/
theorem circ_text_fixpoint_generated (hk : Generated.circReaderKey = Generated.circWriterKey)
    {c : Circ} (h : WFcirc Generated.circWriterKey c = true) :
    ∃ l, circToLine Generated.circWriterKey c = .ok l ∧
      (circParseLine Generated.circReaderKey l).bind (circToLine Generated.circWriterKey) =
        .ok l := by
  rw [hk]; exact circ_text_fixpoint h

/-- **The defect, in general form.**  If the reader looks the genomic position up under a key
other than the one the writer emits (unchanged tree: `GENOMIC_LOCATION` vs
`GENOMIC_POSITION`), every record with a non-empty genomic position is read back without
it, and its text is NOT a fix-point. -/
theorem circ_key_mismatch_drops {wk rk : Str} {c : Circ} (h : WFcirc wk c = true)
    (hrk : rk ≠ kOFFSET ∧ rk ≠ kLENGTH ∧ rk ≠ kINTRON ∧ rk ≠ kTRANSCRIPT_ID ∧ rk ≠ kGENE_SYMBOL)
    (hne : rk ≠ wk) (hgp : c.genomicPosition ≠ []) :
    ∃ l, circToLine wk c = .ok l ∧
      circParseLine rk l = .ok (Circ.mk c.geneId c.fragments c.intron c.id c.txId c.geneName []) ∧
      (circParseLine rk l).bind (circToLine wk) ≠ .ok l := by
  obtain ⟨l, h1, _, _, h4⟩ := circ_core (rk := rk) h hrk
  simp only [hne, if_false] at h4
  refine ⟨l, h1, h4, ?_⟩
  rw [h4]
  intro hcontra
  have h1' := h1
  change circToLine wk (Circ.mk c.geneId c.fragments c.intron c.id c.txId c.geneName []) = .ok l
    at hcontra
  unfold circToLine at hcontra h1'
  cases hfs : c.fragments with
  | nil => rw [hfs] at h1'; cases h1'
  | cons f0 fs =>
    rw [hfs] at hcontra h1'
    simp only [Except.ok.injEq] at hcontra h1'
    rw [← h1'] at hcontra
    simp [joinWith] at hcontra
    exact hgp hcontra

private def kGP : Str := ['G','E','N','O','M','I','C','_','P','O','S','I','T','I','O','N']
private def exCirc : Circ :=
  { geneId := ['G', '1'], fragments := [(10, 15), (40, 52)], intron := [2],
    id := ['C', 'I', 'R', 'C'], txId := ['T', '1'], geneName := ['S'],
    genomicPosition := ['c', 'h', 'r', '1', ':', '1', '1'] }

/-- non-vacuity -/
example : WFcirc kGP exCirc = true := by decide
example : WFcirc kGP { exCirc with genomicPosition := [], intron := [] } = true := by decide

/-! ## byte-offset index ≡ linear scan -/

/-- pointers generated on open (no `.idx`): the pool of `files` -/
theorem openPool_generated (H : Str → Str) (keyOf : Str → Except Err Str) :
    ∀ files : List GvfFile, (∀ f ∈ files, f.wf keyOf = true) →
    ∃ pool, openPool H keyOf (files.map fun f => (f.content, none)) = .ok pool ∧
      pool.map (·.1) = files.map (·.content) ∧
      ∀ k, (pool.flatMap fun f => (f.2.filter (·.key = k)).flatMap (loadLines f.1)).map rstrip =
        (files.flatMap fun f => (scanLines f.content).filter (keyIs keyOf k)).map rstrip
  | [], _ => ⟨[], rfl, rfl, fun _ => rfl⟩
  | f :: fs, h => by
    obtain ⟨ptrs, hp, hq, hs⟩ := file_pointers f (h f (by simp))
    obtain ⟨pool, ho, hc, hr⟩ := openPool_generated H keyOf fs (fun x hx => h x (by simp [hx]))
    refine ⟨(f.content, ptrs) :: pool, ?_, by simp [hc], ?_⟩
    · simp only [List.map_cons, openPool, openFile, hp, ho]
    · intro k
      simp only [List.flatMap_cons, List.map_append, hq k, hs k, hr k]

/-- **Index-equivalent access.**  For any number of files, any grouping / interleaving of the
records in each, and any record parser that (like both GVF parsers) starts with `rstrip()`:
the records reached through the generated byte-offset pointers of transcript `k` are exactly
the records of a linear scan whose transcript id is `k` — the same list, in file order (hence
the same multiset and, after `set()`, the same set), and with the same error if a record
does not parse. -/
theorem pointer_scan_equiv {R : Type} (parse : Str → Except Err R)
    (hparse : ∀ l, parse (rstrip l) = parse l) (H : Str → Str) (keyOf : Str → Except Err Str)
    (files : List GvfFile) (hwf : ∀ f ∈ files, f.wf keyOf = true) :
    ∃ pool, openPool H keyOf (files.map fun f => (f.content, none)) = .ok pool ∧
      ∀ k, Pool.records parse pool k = scanRecords parse keyOf (files.map (·.content)) k := by
  obtain ⟨pool, ho, _, hr⟩ := openPool_generated H keyOf files hwf
  refine ⟨pool, ho, fun k => ?_⟩
  unfold Pool.records scanRecords
  have e1 : (fun f : Str × List Ptr => flatMapE (loadPtr parse f.1) (f.2.filter (·.key = k))) =
      fun f => mapE parse ((f.2.filter (·.key = k)).flatMap (loadLines f.1)) := by
    funext f
    exact flatMapE_mapE parse (loadLines f.1) _
  rw [e1, flatMapE_mapE parse (fun f : Str × List Ptr =>
    (f.2.filter (·.key = k)).flatMap (loadLines f.1)) pool]
  rw [← mapE_rstrip hparse, hr k, mapE_rstrip hparse, List.flatMap_map]

/-- the same, as the de-duplicated set `VariantRecordPoolOnDisk.__getitem__` works on -/
theorem pointer_scan_equiv_set {R : Type} (parse : Str → Except Err R)
    (hparse : ∀ l, parse (rstrip l) = parse l) (same : R → R → Bool) (H : Str → Str)
    (keyOf : Str → Except Err Str) (files : List GvfFile) (hwf : ∀ f ∈ files, f.wf keyOf = true) :
    ∃ pool, openPool H keyOf (files.map fun f => (f.content, none)) = .ok pool ∧
      ∀ k, (Pool.records parse pool k).map (dedupBy same) =
        (scanRecords parse keyOf (files.map (·.content)) k).map (dedupBy same) := by
  obtain ⟨pool, ho, hr⟩ := pointer_scan_equiv parse hparse H keyOf files hwf
  exact ⟨pool, ho, fun k => by rw [hr k]⟩

/-! ## `.idx` validation -/

theorem sumOK_iff {s : Str} (h : sumOK s = true) : '\n' ∉ s ∧ '=' ∉ s ∧ noTrailSpace s = true := by
  simp only [sumOK, Bool.and_eq_true, Bool.not_eq_true'] at h
  exact ⟨mem_of_contains_false h.1.1, mem_of_contains_false h.1.2, h.2⟩

/-- the checksum recorded by `index_gvf` is the one `validate_gvf_index` finds -/
theorem findChecksum_writeIdx {sum : Str} (hs : sumOK sum = true) (ps : List Ptr) :
    findChecksum (splitLinesKeep (writeIdx sum ps)) = some sum := by
  obtain ⟨h1, h2, h3⟩ := sumOK_iff hs
  have hb : '\n' ∉ (['#', ' '] ++ checksumPrefix ++ sum) := by
    simp only [checksumPrefix, List.mem_append, List.mem_cons, List.not_mem_nil, or_false]
    rintro ((h | h) | h)
    · revert h; decide
    · revert h; decide
    · exact h1 h
  have hw : writeIdx sum ps = (['#', ' '] ++ checksumPrefix ++ sum) ++
      '\n' :: (ps.map fun p => p.toLine ++ ['\n']).flatten := by
    simp [writeIdx]
  rw [hw, splitLinesKeep_line _ hb]
  have hr : rstrip ((['#', ' '] ++ checksumPrefix ++ sum) ++ ['\n']) =
      ['#', ' '] ++ checksumPrefix ++ sum := by
    rw [rstrip_newline]
    have : ['#', ' '] ++ checksumPrefix ++ sum =
        ['#', ' ', 'C', 'H', 'E', 'C', 'K', 'S', 'U', 'M'] ++ ('=' :: sum) := by
      simp [checksumPrefix]
    rw [this, rstrip_append_of_ne_nil (by rw [rstrip_eq_cons h3]; simp), rstrip_eq_cons h3]
  simp only [findChecksum, hr]
  have hc : isComment ((['#', ' '] ++ checksumPrefix ++ sum) ++ ['\n']) = true := by
    simp [isComment, startsWith, List.isPrefixOf]
  rw [if_pos hc]
  have hl : lstripP (fun c => c = '#' || c = ' ') (['#', ' '] ++ checksumPrefix ++ sum) =
      checksumPrefix ++ sum := by
    simp [lstripP, checksumPrefix, List.dropWhile]
  rw [hl]
  have hp : startsWith checksumPrefix (checksumPrefix ++ sum) = true := by
    simp [startsWith, checksumPrefix, List.isPrefixOf]
  rw [if_pos hp]
  have : checksumPrefix ++ sum = ['C', 'H', 'E', 'C', 'K', 'S', 'U', 'M'] ++ '=' :: sum := by
    simp [checksumPrefix]
  rw [this, splitOn_append_sep _ (by decide), splitOn_of_not_mem h2]
  rfl

/-- an index made for exactly these bytes is accepted -/
theorem fresh_idx_accepted (H : Str → Str) (gvf : Str) (ps : List Ptr)
    (hs : sumOK (H gvf) = true) : validate H gvf (writeIdx (H gvf) ps) = .ok () := by
  simp [validate, findChecksum_writeIdx hs]

/-- **Stale index rejected.**  An `.idx` written for the bytes `gvf₀` is rejected for any
bytes whose hash differs (append, delete, change one byte, reorder …). -/
theorem stale_idx_rejected (H : Str → Str) (gvf₀ gvf₁ : Str) (ps : List Ptr)
    (hs : sumOK (H gvf₀) = true) (hne : H gvf₁ ≠ H gvf₀) :
    validate H gvf₁ (writeIdx (H gvf₀) ps) = .error .mismatch := by
  simp [validate, findChecksum_writeIdx hs, hne]

/-- with a collision-free hash: any edit of the bytes after indexing is rejected -/
theorem edited_after_index_rejected (H : Str → Str) (hinj : ∀ a b, H a = H b → a = b)
    (gvf₀ gvf₁ : Str) (ps : List Ptr) (hs : sumOK (H gvf₀) = true) (hne : gvf₁ ≠ gvf₀) :
    validate H gvf₁ (writeIdx (H gvf₀) ps) = .error .mismatch :=
  stale_idx_rejected H gvf₀ gvf₁ ps hs (fun e => hne (hinj _ _ e))

/-- whatever the `.idx` text is: it is accepted only if the checksum it records is the hash
of the GVF bytes -/
theorem accepted_only_if_match (H : Str → Str) (gvf idx : Str)
    (h : validate H gvf idx = .ok ()) : findChecksum (splitLinesKeep idx) = some (H gvf) := by
  unfold validate at h
  cases hf : findChecksum (splitLinesKeep idx) with
  | none => rw [hf] at h; cases h
  | some s =>
    rw [hf] at h
    by_cases e : H gvf = s
    · rw [e]
    · simp [e] at h

/-- an `.idx` in which no line carries `CHECKSUM=` is rejected -/
theorem missing_checksum_rejected (H : Str → Str) (gvf idx : Str)
    (h : ∀ l ∈ splitLinesKeep idx,
      startsWith checksumPrefix (lstripP (fun c => c = '#' || c = ' ') (rstrip l)) = false) :
    validate H gvf idx = .error .missingChecksum := by
  have : ∀ ls : List Str, (∀ l ∈ ls,
      startsWith checksumPrefix (lstripP (fun c => c = '#' || c = ' ') (rstrip l)) = false) →
      findChecksum ls = none := by
    intro ls
    induction ls with
    | nil => intro _; rfl
    | cons l ls ih =>
      intro hl
      simp only [findChecksum, hl l (by simp), Bool.false_eq_true, if_false]
      rw [ih (fun x hx => hl x (by simp [hx]))]
      split <;> rfl
  simp [validate, this _ h]

/-! ## `.idx` text round trip, and access through a stored index -/

theorem isLine_snoc {b : Str} (h : '\n' ∉ b) : isLine (b ++ ['\n']) = true := by
  simp [isLine, h]

theorem ptrOK_iff {p : Ptr} (h : ptrOK p = true) :
    '\t' ∉ p.key ∧ '\n' ∉ p.key ∧ p.key.head? ≠ some '#' ∧ p.start ≤ p.stop := by
  simp only [ptrOK, Bool.and_eq_true, Bool.not_eq_true', bne_iff_ne, ne_eq,
    decide_eq_true_eq] at h
  exact ⟨mem_of_contains_false h.1.1.1, mem_of_contains_false h.1.1.2, h.1.2, h.2⟩

theorem parsePtrLine_toLine {p : Ptr} (h : ptrOK p = true) :
    parsePtrLine (p.toLine ++ ['\n']) = .ok p := by
  obtain ⟨h1, _, _, h4⟩ := ptrOK_iff h
  have hn : ∀ n : Nat, natToStr n = intToStr (Int.ofNat n) := fun _ => rfl
  have hr : rstrip (p.toLine ++ ['\n']) = p.toLine := by
    rw [rstrip_newline]
    have hl : rstrip (natToStr (p.stop - p.start)) = natToStr (p.stop - p.start) := by
      rw [hn]; exact rstrip_eq_self (noTrailSpace_intToStr _)
    exact rstrip_joinWith_last '\t' [p.key, natToStr p.start] hl (natToStr_ne_nil _)
  unfold parsePtrLine
  rw [hr]
  have hs : splitOn '\t' p.toLine = [p.key, natToStr p.start, natToStr (p.stop - p.start)] := by
    apply splitOn_joinWith '\t' _ (by simp)
    intro x hx
    simp only [List.mem_cons, List.not_mem_nil, or_false] at hx
    rcases hx with rfl | rfl | rfl
    · exact h1
    · rw [hn]; exact not_mem_intToStr (by decide) (by decide) _
    · rw [hn]; exact not_mem_intToStr (by decide) (by decide) _
  rw [hs]
  simp only [hn, parseInt_intToStr]
  cases p with
  | mk key start stop =>
    simp only at h4
    have e1 : (Int.ofNat start).toNat = start := by simp
    have e2 : (Int.ofNat start + Int.ofNat (stop - start)).toNat = stop := by
      have : Int.ofNat start + Int.ofNat (stop - start) = ((start + (stop - start) : Nat) : Int) := by
        simp
      rw [this, Int.toNat_natCast]; omega
    rw [e1, e2]

/-- **`.idx` round trip.**  What `index_gvf` writes, `GVFPointer.parse` reads back: the same
pointers (key, start, end), in order. -/
theorem idx_roundtrip {sum : Str} (hs : sumOK sum = true) (ps : List Ptr)
    (hp : ∀ p ∈ ps, ptrOK p = true) : parseIdx (writeIdx sum ps) = .ok ps := by
  obtain ⟨s1, _, _⟩ := sumOK_iff hs
  have hb : '\n' ∉ (['#', ' '] ++ checksumPrefix ++ sum) := by
    simp only [checksumPrefix, List.mem_append, List.mem_cons, List.not_mem_nil, or_false]
    rintro ((h | h) | h)
    · revert h; decide
    · revert h; decide
    · exact s1 h
  have hw : writeIdx sum ps = (((['#', ' '] ++ checksumPrefix ++ sum) ++ ['\n']) ::
      ps.map fun p => p.toLine ++ ['\n']).flatten := by
    simp [writeIdx]
  have hlines : splitLinesKeep (writeIdx sum ps) = ((['#', ' '] ++ checksumPrefix ++ sum) ++ ['\n']) ::
      ps.map fun p => p.toLine ++ ['\n'] := by
    rw [hw]
    apply splitLinesKeep_flatten
    intro l hl
    simp only [List.mem_cons, List.mem_map] at hl
    rcases hl with rfl | ⟨p, hpm, rfl⟩
    · exact isLine_snoc hb
    · obtain ⟨_, h2, _, _⟩ := ptrOK_iff (hp p hpm)
      apply isLine_snoc
      intro hm
      have hn : ∀ n : Nat, natToStr n = intToStr (Int.ofNat n) := fun _ => rfl
      rcases mem_joinWith hm with e | ⟨x, hx, hc⟩
      · exact absurd e (by decide)
      · simp only [List.mem_cons, List.not_mem_nil, or_false] at hx
        rcases hx with rfl | rfl | rfl
        · exact h2 hc
        · rw [hn] at hc; exact not_mem_intToStr (by decide) (by decide) _ hc
        · rw [hn] at hc; exact not_mem_intToStr (by decide) (by decide) _ hc
  unfold parseIdx
  rw [hlines]
  have hc1 : isComment ((['#', ' '] ++ checksumPrefix ++ sum) ++ ['\n']) = true := by
    simp [isComment, startsWith, List.isPrefixOf]
  have hfilter : (ps.map fun p => p.toLine ++ ['\n']).filter (fun l => !isComment l) =
      ps.map fun p => p.toLine ++ ['\n'] := by
    rw [List.filter_eq_self]
    intro l hl
    obtain ⟨p, hpm, rfl⟩ := List.mem_map.mp hl
    obtain ⟨_, _, h3, _⟩ := ptrOK_iff (hp p hpm)
    cases hk : p.key with
    | nil => simp [isComment, startsWith, List.isPrefixOf, Ptr.toLine, joinWith, hk]
    | cons x xs =>
      have : x ≠ '#' := by simpa [hk] using h3
      simp [isComment, startsWith, List.isPrefixOf, Ptr.toLine, joinWith, hk, Ne.symm this]
  simp only [List.filter_cons, hc1, Bool.not_true, Bool.false_eq_true, if_false, hfilter]
  have : ∀ qs : List Ptr, (∀ p ∈ qs, ptrOK p = true) →
      mapE parsePtrLine (qs.map fun p => p.toLine ++ ['\n']) = .ok qs := by
    intro qs
    induction qs with
    | nil => intro _; rfl
    | cons q qs ih =>
      intro hq
      simp only [List.map_cons, mapE, parsePtrLine_toLine (hq q (by simp)),
        ih (fun x hx => hq x (by simp [hx]))]
  exact this ps hp

/-- every generated pointer has `start ≤ end` and carries the transcript id of some line -/
theorem iterPtrGo_inv (keyOf : Str → Except Err Str) (P : Str → Prop) :
    ∀ (ls : List Str) (n : Nat) (cur : Option Ptr) (ptrs : List Ptr),
      (∀ l ∈ ls, ∀ k, keyOf l = .ok k → P k) →
      (∀ p, cur = some p → P p.key ∧ p.start ≤ p.stop ∧ p.stop ≤ n) →
      iterPtrGo keyOf ls n cur = .ok ptrs → ∀ p ∈ ptrs, P p.key ∧ p.start ≤ p.stop
  | [], n, none, ptrs, _, _, h => by
    simp only [iterPtrGo, Except.ok.injEq] at h; subst h; intro p hp; cases hp
  | [], n, some q, ptrs, _, hc, h => by
    simp only [iterPtrGo, Except.ok.injEq] at h; subst h
    intro p hp; simp only [List.mem_singleton] at hp; subst hp
    exact ⟨(hc p rfl).1, (hc p rfl).2.1⟩
  | l :: ls, n, cur, ptrs, hl, hc, h => by
    have hl' : ∀ x ∈ ls, ∀ k, keyOf x = .ok k → P k := fun x hx => hl x (by simp [hx])
    simp only [iterPtrGo] at h
    by_cases hcm : isComment l = true
    · simp only [hcm, if_true] at h
      exact iterPtrGo_inv keyOf P ls _ cur ptrs hl'
        (fun p hp => ⟨(hc p hp).1, (hc p hp).2.1, by have := (hc p hp).2.2; omega⟩) h
    · simp only [hcm, Bool.false_eq_true, if_false] at h
      cases hk : keyOf l with
      | error e => rw [hk] at h; cases h
      | ok key =>
        rw [hk] at h
        have hP : P key := hl l (by simp) key hk
        have hnew : ∀ p, some (Ptr.mk key n (n + l.length)) = some p →
            P p.key ∧ p.start ≤ p.stop ∧ p.stop ≤ n + l.length := by
          intro p hp; cases hp; exact ⟨hP, by simp, by simp⟩
        cases cur with
        | none =>
          simp only at h
          exact iterPtrGo_inv keyOf P ls _ _ ptrs hl' hnew h
        | some q =>
          simp only at h
          obtain ⟨hq1, hq2, hq3⟩ := hc q rfl
          by_cases hqk : q.key = key
          · simp only [hqk, if_true] at h
            exact iterPtrGo_inv keyOf P ls _ _ ptrs hl'
              (fun p hp => by cases hp; exact ⟨hP, by simp; omega, by simp⟩) h
          · simp only [hqk, if_false] at h
            cases hr : iterPtrGo keyOf ls (n + l.length) (some ⟨key, n, n + l.length⟩) with
            | error e => rw [hr] at h; cases h
            | ok ps =>
              rw [hr] at h
              simp only [Except.ok.injEq] at h; subst h
              intro p hp
              simp only [List.mem_cons] at hp
              rcases hp with rfl | hp
              · exact ⟨hq1, hq2⟩
              · exact iterPtrGo_inv keyOf P ls _ _ ps hl' hnew hr p hp

/-- a transcript id that can be a key of the `.idx` (no tab / newline, not starting with `#`) -/
def idxKeyOK (k : Str) : Bool := !k.contains '\t' && !k.contains '\n' && k.head? != some '#'

/-- **Stored index ≡ generated index.**  Opening a GVF file through the `.idx` that
`index_gvf` wrote for these very bytes registers exactly the pointers that are generated
when there is no `.idx`; so `pointer_scan_equiv` holds for any mixture of files with and
without `.idx`. -/
theorem open_with_fresh_idx (H : Str → Str) (keyOf : Str → Except Err Str) (gvf idx : Str)
    (hs : sumOK (H gvf) = true)
    (hk : ∀ l ∈ splitLinesKeep gvf, ∀ k, keyOf l = .ok k → idxKeyOK k = true)
    (hidx : indexGvf H keyOf gvf = .ok idx) :
    openFile H keyOf gvf (some idx) = openFile H keyOf gvf none := by
  unfold indexGvf at hidx
  cases hp : iteratePointer keyOf gvf with
  | error e => rw [hp] at hidx; cases hidx
  | ok ptrs =>
    rw [hp] at hidx
    simp only [Except.ok.injEq] at hidx
    subst hidx
    have hinv := iterPtrGo_inv keyOf (fun k => idxKeyOK k = true) (splitLinesKeep gvf) 0 none
      ptrs hk (fun p hp => by cases hp) hp
    have hok : ∀ p ∈ ptrs, ptrOK p = true := by
      intro p hpm
      obtain ⟨h1, h2⟩ := hinv p hpm
      simp only [idxKeyOK, Bool.and_eq_true] at h1
      simp only [ptrOK, Bool.and_eq_true, decide_eq_true_eq]
      exact ⟨⟨⟨h1.1.1, h1.1.2⟩, h1.2⟩, h2⟩
    simp only [openFile, fresh_idx_accepted H gvf ptrs hs, idx_roundtrip hs ptrs hok, hp]

/-! ## non-vacuity of the file hypotheses -/

private def exFile : GvfFile :=
  { header := ['#', '#', 'x', '\n'] :: [['#', 'C', 'H', 'R', 'O', 'M', '\n']],
    body := [ "G1\t5\tID1\tA\tT\t.\t.\tTRANSCRIPT_ID=T1\n".toList,
              "G1\t9\tID2\tC\t<DEL>\t.\t.\tTRANSCRIPT_ID=T2;START=9;END=20\n".toList,
              "G1\t7\tID3\tA\tG\t.\t.\tTRANSCRIPT_ID=T1\n".toList ] }

/-- a concrete interleaved file (T1, T2, T1) satisfies the hypotheses of `pointer_scan_equiv`,
and its transcript ids those of `open_with_fresh_idx` -/
example : exFile.wf (varKey genC) = true := by decide
example : ptrOK ⟨['T', '1'], 11, 45⟩ = true := by decide
example : sumOK ['0', 'a', 'f'] = true := by decide

end MoPepGen.Props.C13
