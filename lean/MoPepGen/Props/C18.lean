import MoPepGen.Lemmas.Split
import MoPepGen.Lemmas.SummarySplit
import MoPepGen.Lemmas.Encode
/-!
# C18 — database bookkeeping conserves peptides (split, merge, encode, summarize)

Property theorems only.  `split`, `splitPep`, `chooseKey`, `mergePools`/`addPeptide`,
`encode`/`decode`, `summarize`, `toInt`/`srcGt`, `cliSplit`/`cliSummarize` are the models of the
Python (tied to /repo by the correspondence streams `split`, `summarize`, `merge`, `encode`,
`decode`, `gt`, `gtl`, `toint`).
-/
namespace MoPepGen.Props.C18
open MoPepGen

/-! ## source-set order -/

/--
Full statement (design): `VariantSourceSet.__gt__` is a strict total order on source sets when
levels are distinct.  Proved here: the comparison the code performs on the `to_int()` images
(longer list greater, then lexicographic) is a strict total order on those images, and the
derived `≤` used for sorting is total and transitive.  The full statement (with `to_int` injective on sets) is
`source_order_total` below; this part is kept because `split_key_spec` uses it.
-/
theorem source_order_total_partial :
    (∀ a : List Nat, intsGt a a = false) ∧
    (∀ a b : List Nat, intsGt a b = true → intsGt b a = false) ∧
    (∀ a b c : List Nat, intsGt a b = true → intsGt b c = true → intsGt a c = true) ∧
    (∀ a b : List Nat, a ≠ b → intsGt a b = true ∨ intsGt b a = true) ∧
    (∀ a b : List Nat, intsLe a b = false → intsLe b a = true) ∧
    (∀ a b c : List Nat, intsLe a b = true → intsLe b c = true → intsLe a c = true) :=
  ⟨intsGt_irrefl, intsGt_asymm, intsGt_trans, intsGt_total, intsLe_total, intsLe_trans⟩

/--
**source_order_total.**  `VariantSourceSet` is modelled as a list of source names read up to
`sameSet` (same members; order and repetitions of the underlying collection are irrelevant).
For every level map `o` (`levels_map`, with plain and `frozenset` keys):

1. `to_int` and `__gt__` are functions of the *set*: `sameSet a a'` gives the same `to_int` and
   the same comparison on either side;
2. **`to_int` is injective on source sets** whenever the level map is injective on the keys the
   two sets look up (`o.injOn (keysOf [a, b])`: `frozenset(a)`, `frozenset(b)` and their elements);
3. hence `__gt__` (`srcGt`) is a **strict total order on source sets**: irreflexive (equal sets
   are never greater), asymmetric, transitive — these three for every `o` — and total: two
   different sets with defined levels are comparable one way or the other (under 2's hypothesis).
-/
theorem source_order_total (o : Order) :
    (∀ a a' : SrcSet, sameSet a a' = true → toInt o a = toInt o a') ∧
    (∀ a a' b : SrcSet, sameSet a a' = true →
        srcGt o a b = srcGt o a' b ∧ srcGt o b a = srcGt o b a') ∧
    (∀ (a b : SrcSet) (l : List Nat), o.injOn (keysOf [a, b]) = true →
        toInt o a = some l → toInt o b = some l → sameSet a b = true) ∧
    (∀ a b : SrcSet, sameSet a b = true → srcGt o a b = some false) ∧
    (∀ a b : SrcSet, srcGt o a b = some true → srcGt o b a = some false) ∧
    (∀ a b c : SrcSet, srcGt o a b = some true → srcGt o b c = some true →
        srcGt o a c = some true) ∧
    (∀ (a b : SrcSet) (x y : List Nat), o.injOn (keysOf [a, b]) = true →
        toInt o a = some x → toInt o b = some y → sameSet a b = false →
        srcGt o a b = some true ∨ srcGt o b a = some true) :=
  ⟨fun _ _ h => toInt_congr o h,
   fun _ _ b h => ⟨srcGt_congr_left o h b, srcGt_congr_right o h b⟩,
   fun a b l hinj ha hb => toInt_inj o a b hinj l ha hb,
   fun a b h => srcGt_same o a b h,
   fun a b h => srcGt_asymm o a b h,
   fun a b c h1 h2 => srcGt_trans o a b c h1 h2,
   fun a b x y hinj hx hy hne => srcGt_total o a b hinj x y hx hy hne⟩

/-- **The hypothesis of `source_order_total` holds for every order the CLIs build.**  If the level
values of the parsed `--order-source` are pairwise distinct (they are `enumerate` positions),
the orders `splitFasta` and `summarizeFasta` end up with (`append_order` per GVF, then the internal
sources, each at `max + 1`) have pairwise distinct levels, and a level map with distinct values is
injective on every list of keys. -/
theorem source_order_cli (g : GroupMap) (o0 : Order) (gvfs : List Gvf)
    (h : o0.levelsDistinct = true) :
    (splitterOrder g o0 gvfs).1.levelsDistinct = true ∧
    (summarizerOrder g o0 gvfs).levelsDistinct = true ∧
    (splitterOrder g o0 gvfs).1 = summarizerOrder g o0 gvfs ∧
    ∀ (o : Order), o.levelsDistinct = true → ∀ ks : List OKey, o.injOn ks = true :=
  ⟨splitterOrder_levelsDistinct g o0 gvfs h, summarizerOrder_levelsDistinct g o0 gvfs h,
   splitterOrder_eq g o0 gvfs, fun o ho ks => injOn_of_levelsDistinct o ho ks⟩

/-- **The sort the splitter performs is well defined.**  `sortInfos` (the model of
`peptide_infos.sort()`) applied to any permutation of the infos yields the same sequence of
`to_int` images and a permutation of the same infos; when the level map is injective on the
source sets involved, the source sets at equal positions of the two results are equal as sets —
in particular the first one, which decides the database. -/
theorem sort_order_independent (o : Order) (infos infos' : List (Entry × SrcSet))
    (hp : infos'.Perm infos) (l : List (List Nat × (Entry × SrcSet)))
    (h : sortInfos o infos = .ok l) :
    ∃ l', sortInfos o infos' = .ok l' ∧ l'.map (·.1) = l.map (·.1) ∧ l'.Perm l ∧
      (o.injOn (keysOf (infos.map (·.2))) = true →
        ∀ (n : Nat) (x x' : List Nat × (Entry × SrcSet)), l[n]? = some x → l'[n]? = some x' →
          sameSet x'.2.2 x.2.2 = true) := by
  obtain ⟨l', h1, h2, h3, f, f'⟩ := sortInfos_perm o infos infos' hp l h
  refine ⟨l', h1, h2, h3, ?_⟩
  intro hinj n x x' hx hx'
  obtain ⟨m, t⟩ := f x (List.mem_of_getElem? hx)
  obtain ⟨m', t'⟩ := f' x' (List.mem_of_getElem? hx')
  have e : x'.1 = x.1 := by
    have : (l'.map (·.1))[n]? = (l.map (·.1))[n]? := by rw [h2]
    simpa [List.getElem?_map, hx, hx'] using this
  apply toInt_inj o _ _ _ x.1 (by rw [t', e]) t
  apply injOn_mono _ _ _ _ hinj
  apply keysOf_mono
  intro s hs
  simp only [List.mem_cons, List.not_mem_nil, or_false] at hs
  rcases hs with rfl | rfl
  · exact List.mem_map.mpr ⟨x'.2, m', rfl⟩
  · exact List.mem_map.mpr ⟨x.2, m, rfl⟩

/-- **The database a peptide is filed under does not depend on the order of its header
entries**, nor does the multiset of entries written: if `p'` is `p` with the header entries
permuted, `splitPep` succeeds on `p'` with the same key, the same sequence and a permutation of
the same output header.  Hypotheses: the level map is injective on the source sets of the
header's entries (`source_order_cli`: true for every CLI-built order), and the values of the
wildcard map are duplicate-free lists (true for `create_wildcard_map` on an order whose
combination keys are sets). -/
theorem split_key_order_independent (c : SplitCfg) (p p' : PRec) (hseq : p'.seq = p.seq)
    (hperm : p'.header.Perm p.header) (infos : List (Entry × SrcSet))
    (hi : headerInfos c.env p.header = .ok infos)
    (hinj : c.env.order.injOn (keysOf (infos.map (·.2))) = true)
    (hw : ∀ kv ∈ c.env.wildcard, kv.2.Nodup) (k : DbKey) (q : PRec)
    (h : splitPep c p = .ok (k, q)) :
    ∃ q', splitPep c p' = .ok (k, q') ∧ q'.seq = q.seq ∧ q'.header.Perm q.header :=
  splitPep_perm c p p' hseq hperm infos hi hinj hw k q h

/-! ## split -/

theorem headerInfos_length (env : SrcEnv) :
    ∀ (h : Header) (infos : List (Entry × SrcSet)), headerInfos env h = .ok infos →
      infos.length = h.length := by
  intro h
  induction h with
  | nil => intro infos hh; simp [headerInfos] at hh; subst hh; rfl
  | cons e es ih =>
    intro infos hh
    simp only [headerInfos] at hh
    cases h1 : entryInfo env e with
    | error x => simp [h1] at hh
    | ok i =>
      simp only [h1] at hh
      cases h2 : headerInfos env es with
      | error x => simp [h2] at hh
      | ok is =>
        simp only [h2] at hh
        cases hh
        simp [ih is h2]

theorem withInts_map (o : Order) :
    ∀ (infos : List (Entry × SrcSet)) (l : List (List Nat × (Entry × SrcSet))),
      withInts o infos = .ok l → l.map (·.2) = infos ∧ ∀ x ∈ l, toInt o x.2.2 = some x.1 := by
  intro infos
  induction infos with
  | nil => intro l h; simp [withInts] at h; subst h; simp
  | cons i is ih =>
    intro l h
    simp only [withInts] at h
    cases h1 : toInt o i.2 with
    | none => simp [h1] at h
    | some n =>
      simp only [h1] at h
      cases h2 : withInts o is with
      | error e => simp [h2] at h
      | ok r =>
        simp only [h2] at h
        cases h
        obtain ⟨a, b⟩ := ih r h2
        refine ⟨by simp [a], ?_⟩
        intro x hx
        rcases List.mem_cons.mp hx with rfl | hx
        · exact h1
        · exact b x hx

/-- what one peptide's assignment is: same sequence; the header is a permutation of the
(normalised) labels of the input header, one per input entry; the key is `chooseKey` of a source
set of one of its entries that is minimal in the source order (**split_key_spec**). -/
theorem split_key_spec (c : SplitCfg) (p : PRec) (k : DbKey) (q : PRec)
    (h : splitPep c p = .ok (k, q)) :
    q.seq = p.seq ∧
    ∃ infos, headerInfos c.env p.header = .ok infos ∧ infos.length = p.header.length ∧
      q.header.Perm (infos.map (·.1)) ∧
      ∃ i ∈ infos, ∃ n, toInt c.env.order i.2 = some n ∧ k = chooseKey c i.2 ∧
        ∀ j ∈ infos, ∃ m, toInt c.env.order j.2 = some m ∧ intsLe n m = true := by
  unfold splitPep at h
  cases h1 : headerInfos c.env p.header with
  | error e => simp [h1] at h
  | ok infos =>
    simp only [h1] at h
    cases h2 : sortInfos c.env.order infos with
    | error e => simp [h2] at h
    | ok sorted =>
      simp only [h2] at h
      cases sorted with
      | nil => simp at h
      | cons i0 rest =>
        simp only [Except.ok.injEq, Prod.mk.injEq] at h
        obtain ⟨hk, hq⟩ := h
        subst hq
        unfold sortInfos at h2
        cases h3 : withInts c.env.order infos with
        | error e => simp [h3] at h2
        | ok l =>
          simp only [h3, Except.ok.injEq] at h2
          obtain ⟨hmap, hints⟩ := withInts_map c.env.order infos l h3
          have hperm := isort_perm (fun (a b : List Nat × (Entry × SrcSet)) => intsLe a.1 b.1) l
          rw [h2] at hperm
          have hmin := isort_head_min (fun (a b : List Nat × (Entry × SrcSet)) => intsLe a.1 b.1)
            (fun a b => intsLe_total a.1 b.1) (fun a b c => intsLe_trans a.1 b.1 c.1) l i0 rest h2
          have hi0 : i0 ∈ l := hperm.subset (List.mem_cons_self)
          refine ⟨rfl, infos, rfl, headerInfos_length _ _ _ h1, ?_, ?_⟩
          · have := (hperm.map (fun x => x.2.1))
            have e : (l.map (·.2)).map (·.1) = l.map (fun x => x.2.1) := by simp [List.map_map]
            rw [← hmap, e]
            exact this
          · refine ⟨i0.2, ?_, i0.1, hints i0 hi0, hk.symm, ?_⟩
            · rw [← hmap]; exact List.mem_map.mpr ⟨i0, hi0, rfl⟩
            · intro j hj
              rw [← hmap] at hj
              obtain ⟨x, hx, rfl⟩ := List.mem_map.mp hj
              exact ⟨x.1, hints x hx, hmin x hx⟩

theorem splitAssign_spec (c : SplitCfg) :
    ∀ (pool : List PRec) (as : List (DbKey × PRec)), splitAssign c pool = .ok as →
      as.map (·.2.seq) = pool.map (·.seq) ∧
      ∀ x ∈ pool.zip as, splitPep c x.1 = .ok x.2 := by
  intro pool
  induction pool with
  | nil => intro as h; simp [splitAssign] at h; subst h; exact ⟨rfl, by simp⟩
  | cons p ps ih =>
    intro as h
    simp only [splitAssign] at h
    cases h1 : splitPep c p with
    | error e => simp [h1] at h
    | ok a =>
      simp only [h1] at h
      cases h2 : splitAssign c ps with
      | error e => simp [h2] at h
      | ok r =>
        simp only [h2] at h
        cases h
        obtain ⟨i1, i2⟩ := ih r h2
        refine ⟨?_, ?_⟩
        · obtain ⟨k, q⟩ := a
          have := (split_key_spec c p k q h1).1
          simp [i1, this]
        · intro x hx
          simp only [List.zip_cons_cons, List.mem_cons] at hx
          rcases hx with rfl | hx
          · exact h1
          · exact i2 x hx

/-- **split_partition.** If `split` succeeds there is one assignment (key, record) per input
peptide, in input order, with unchanged sequences (headers: see `split_key_spec`); the database
keys are pairwise distinct; the database of key `k` holds exactly the records assigned to `k`
(so every peptide is in exactly one database); and the database sizes add up to the number of
input peptides. -/
theorem split_partition (c : SplitCfg) (pool : List PRec) (dbs : Dbs) (h : split c pool = .ok dbs) :
    ∃ as : List (DbKey × PRec),
      (∀ x ∈ pool.zip as, splitPep c x.1 = .ok x.2) ∧
      as.map (·.2.seq) = pool.map (·.seq) ∧
      (dbs.map (·.1)).Nodup ∧
      (∀ k, dbGet dbs k = (as.filter (fun a => a.1 = k)).map (·.2)) ∧
      (dbs.map (·.2.length)).sum = pool.length := by
  unfold split at h
  cases h1 : splitAssign c pool with
  | error e => simp [h1] at h
  | ok as =>
    simp only [h1, Except.ok.injEq] at h
    obtain ⟨s1, s2⟩ := splitAssign_spec c pool as h1
    obtain ⟨f1, f2, f3⟩ := foldl_addToDb as [] (by simp)
    rw [h] at f1 f2 f3
    refine ⟨as, s2, s1, f1, ?_, ?_⟩
    · intro k; simpa [dbGet] using f2 k
    · have : as.length = pool.length := by
        have := congrArg List.length s1
        simpa using this
      simpa [this] using f3

/-! ## merge -/

/-- all header entries contributed by the records of `b` with sequence `s`, in order -/
def hdrAll (b : List PRec) (s : Pep) : Header := (b.filter (fun q => q.seq = s)).flatMap (·.header)

/-- **merge_union.** Adding the records of `b` to the pool `a` (`add_peptide`) yields the union
of the sequences, keeps sequences unique, and the header of every sequence is the header it had
in `a` followed by the entries `b` contributes for it. -/
theorem merge_union (b : List PRec) : ∀ a : List PRec,
    let r := b.foldl addPeptide a
    (∀ s, s ∈ r.map (·.seq) ↔ s ∈ a.map (·.seq) ∨ s ∈ b.map (·.seq)) ∧
    ((a.map (·.seq)).Nodup → (r.map (·.seq)).Nodup) ∧
    (∀ s, hdrOf r s = hdrOf a s ++ hdrAll b s) := by
  induction b with
  | nil => intro a; simp [hdrAll]
  | cons p ps ih =>
    intro a
    obtain ⟨i1, i2, i3⟩ := ih (addPeptide a p)
    simp only [List.foldl_cons]
    have hs := addPeptide_seqs a p
    refine ⟨?_, ?_, ?_⟩
    · intro s
      rw [i1 s, hs]
      by_cases hm : p.seq ∈ a.map (·.seq)
      · simp only [hm, if_true, List.map_cons, List.mem_cons]
        constructor
        · rintro (e | e)
          · exact Or.inl e
          · exact Or.inr (Or.inr e)
        · rintro (e | e | e)
          · exact Or.inl e
          · subst e; exact Or.inl hm
          · exact Or.inr e
      · simp only [hm, if_false, List.mem_append, List.map_cons, List.mem_cons,
          List.not_mem_nil, or_false]
        constructor
        · rintro ((e | e) | e)
          · exact Or.inl e
          · exact Or.inr (Or.inl e)
          · exact Or.inr (Or.inr e)
        · rintro (e | e | e)
          · exact Or.inl (Or.inl e)
          · exact Or.inl (Or.inr e)
          · exact Or.inr e
    · intro hn
      apply i2
      rw [hs]
      by_cases hm : p.seq ∈ a.map (·.seq)
      · simpa [hm] using hn
      · simp only [hm, if_false]
        exact List.nodup_append.mpr ⟨hn, by simp, by
          intro x hx y hy
          simp only [List.mem_singleton] at hy
          subst hy
          intro e; subst e; exact hm hx⟩
    · intro s
      rw [i3 s, addPeptide_hdr]
      by_cases h : s = p.seq
      · subst h
        simp [hdrAll, List.filter_cons, List.append_assoc]
      · have : ¬ p.seq = s := fun e => h e.symm
        simp [hdrAll, List.filter_cons, h, this]

/-! ## encode -/

theorem isPrefixOf_append (p t : List Char) : p.isPrefixOf (p ++ t) = true := by
  induction p with
  | nil => simp [List.isPrefixOf]
  | cons a as ih => simp [List.isPrefixOf, ih]

/--
Full statement (design): `decode dict (encode x) = x` for every record, equal headers share an
id.  Proved here (the part that does not involve the id table): for a non-empty decoy string the
decoy mark is recognised on the encoded identifier, stripping it returns the identifier, and
re-attaching it to the stripped *header* returns the header — so decoy prefixes/suffixes are
preserved by strip → look-up → wrap.  The invariant of the `id_mapper` fold and the full round
trip are `encode_inv` / `encode_decode` below.
-/
theorem encode_decode_partial (c : DecoyCfg) (hne : c.str ≠ []) :
    (∀ i : List Char, c.isDecoy (c.wrap i) = true ∧ c.real (c.wrap i) = i) ∧
    (∀ h : List Char, c.isDecoy h = true → c.wrap (c.real h) = h) := by
  have hlen : c.str.length ≠ 0 := by
    intro h; exact hne (List.length_eq_zero_iff.mp h)
  constructor
  · intro i
    unfold DecoyCfg.isDecoy DecoyCfg.real DecoyCfg.wrap
    cases hp : c.prefixPos with
    | true => simp [isPrefixOf_append]
    | false =>
      have h0 : (c.str.length == 0) = false := by simpa using hlen
      simp only [Bool.false_eq_true, if_false, h0, List.reverse_append, isPrefixOf_append,
        List.length_append, Nat.add_sub_cancel, List.take_left', true_and]
  · intro h hd
    unfold DecoyCfg.isDecoy at hd
    unfold DecoyCfg.real DecoyCfg.wrap
    cases hp : c.prefixPos with
    | true =>
      simp only [hp, if_true] at hd ⊢
      obtain ⟨t, rfl⟩ := List.isPrefixOf_iff_prefix.mp hd
      simp
    | false =>
      have h0 : (c.str.length == 0) = false := by simpa using hlen
      simp only [hp, Bool.false_eq_true, if_false, h0] at hd ⊢
      obtain ⟨t, ht⟩ := List.isPrefixOf_iff_prefix.mp hd
      have : h = t.reverse ++ c.str := by
        have := congrArg List.reverse ht
        simpa using this.symm
      subst this
      simp

/-- **encode_inv.**  The invariant of the `id_mapper` fold of `encode_fasta`, for every decoy
configuration, every supply of identifiers `uuid : Nat → Id` (`uuid k` = the k-th `uuid4()`) and
every list of records: after the records `recs` the state `st` satisfies `EncInv`:
* the keys of `id_mapper` are pairwise distinct and are exactly the (decoy-stripped) headers seen;
* its values are `uuid 0, …, uuid (st.next - 1)` in insertion order (so pairwise distinct when
  `uuid` is injective), with `st.next ≤ recs.length`;
* the dictionary file lists exactly the mapper, as (identifier, header) lines in the same order;
* the i-th written record has the i-th sequence and, as title, the identifier `id_mapper` holds
  for its stripped header, with the decoy mark re-attached iff the input title carried it —
  so **equal headers share an identifier**. -/
theorem encode_inv (c : DecoyCfg) (uuid : Nat → List Char) (recs : List (List Char × Pep)) :
    EncInv c uuid recs (encode c uuid recs) :=
  MoPepGen.encode_inv c uuid recs

/-- the ids in use are pairwise distinct and free of the decoy mark: what `encode_decode` assumes
of `uuid4()` for an input of `n` records (decidable for given `uuid`, `n`) -/
def UuidOk (c : DecoyCfg) (uuid : Nat → List Char) (n : Nat) : Prop :=
  ((List.range n).map uuid).Nodup ∧ ∀ k, k < n → c.isDecoy (uuid k) = false

/-- equal (decoy-stripped) headers share an identifier, different ones get different
identifiers (ids pairwise distinct) -/
theorem encode_ids_iff (c : DecoyCfg) (uuid : Nat → List Char) (recs : List (List Char × Pep))
    (hinj : ((List.range recs.length).map uuid).Nodup) (r1 r2 : List Char × Pep)
    (h1 : r1 ∈ recs) (_h2 : r2 ∈ recs) :
    lookupHdr (encode c uuid recs).mapper (c.strip r1.1) =
      lookupHdr (encode c uuid recs).mapper (c.strip r2.1) ↔ c.strip r1.1 = c.strip r2.1 := by
  have inv := MoPepGen.encode_inv c uuid recs
  constructor
  · intro e
    have k1 : c.strip r1.1 ∈ (encode c uuid recs).mapper.map (·.1) :=
      (inv.keys _).mpr (List.mem_map.mpr ⟨r1, h1, rfl⟩)
    cases l1 : lookupHdr (encode c uuid recs).mapper (c.strip r1.1) with
    | none => exact absurd k1 ((lookupHdr_none_iff _ _).mp l1)
    | some i =>
      rw [l1] at e
      have m1 := lookupHdr_some_mem _ _ _ l1
      have m2 := lookupHdr_some_mem _ _ _ e.symm
      have hidn : ((encode c uuid recs).mapper.map (·.2)).Nodup := by
        rw [inv.ids]
        exact ((List.range_sublist.mpr inv.next_le).map uuid).nodup hinj
      have d1 := lookup_swap _ _ _ hidn m1
      have d2 := lookup_swap _ _ _ hidn m2
      rw [d1] at d2
      exact Option.some.inj d2
  · intro e; rw [e]

/--
**encode_decode.**  For every list of records, every decoy configuration with a non-empty decoy
string (prefix or suffix) and every identifier supply satisfying `UuidOk` (the `recs.length`
first identifiers are pairwise distinct and do not carry the decoy mark): the sequences are
written unchanged and in order, and decoding every written title through the written dictionary
(strip the decoy mark, look the identifier up, re-attach the mark) restores the original title
exactly — decoy prefix / suffix preserved.
-/
theorem encode_decode (c : DecoyCfg) (hne : c.str ≠ []) (uuid : Nat → List Char)
    (recs : List (List Char × Pep)) (hu : UuidOk c uuid recs.length) :
    let st := encode c uuid recs
    st.out.map (fun r => (decode c st.dict r.1, r.2)) = recs.map (fun r => (some r.1, r.2)) := by
  intro st
  have inv := MoPepGen.encode_inv c uuid recs
  obtain ⟨Hw, Hr⟩ := decoy_marks_nonempty c hne
  show (encode c uuid recs).out.map _ = _
  rw [inv.out, List.map_map]
  apply List.map_congr_left
  intro r hr
  simp only [Function.comp]
  rw [decode_of_inv c uuid recs _ inv hu.1 Hw Hr (fun _ _ _ k hk => hu.2 k hk) r hr]

/-- the remaining configuration that round-trips: the empty decoy string as a prefix (every title
"is a decoy", the mark is empty).  Only pairwise distinct identifiers are needed. -/
theorem encode_decode_empty_prefix (c : DecoyCfg) (he : c.str = []) (hp : c.prefixPos = true)
    (uuid : Nat → List Char) (recs : List (List Char × Pep))
    (hinj : ((List.range recs.length).map uuid).Nodup) :
    let st := encode c uuid recs
    st.out.map (fun r => (decode c st.dict r.1, r.2)) = recs.map (fun r => (some r.1, r.2)) := by
  intro st
  have inv := MoPepGen.encode_inv c uuid recs
  obtain ⟨Hw, Hr, Hall⟩ := decoy_marks_empty_prefix c he hp
  show (encode c uuid recs).out.map _ = _
  rw [inv.out, List.map_map]
  apply List.map_congr_left
  intro r hr
  simp only [Function.comp]
  rw [decode_of_inv c uuid recs _ inv hinj Hw Hr
    (fun r' _ hd => by rw [Hall r'.1] at hd; cases hd) r hr]

/-- for an injective identifier supply, the first hypothesis of `encode_decode` holds for
every input -/
theorem uuid_injective_nodup (uuid : Nat → List Char) (h : ∀ j k, uuid j = uuid k → j = k)
    (n : Nat) : ((List.range n).map uuid).Nodup := by
  induction n with
  | zero => simp
  | succ n ih =>
    rw [List.range_succ, List.map_append]
    refine List.nodup_append.mpr ⟨ih, by simp, ?_⟩
    intro a ha b hb
    simp only [List.map_cons, List.map_nil, List.mem_singleton] at hb
    subst hb
    obtain ⟨k, hk, rfl⟩ := List.mem_map.mp ha
    intro e
    have := h k n e
    have := List.mem_range.mp hk
    omega

/-- **The one configuration excluded above is a real failure** (known finding
`encode-empty-decoy-suffix`): with `--decoy-string ''` and position `suffix`,
`get_real_header` computes `header[:-0] = ''`, every record is filed under the empty header and
the dictionary cannot restore anything. -/
theorem encode_decode_empty_suffix_fails :
    let c : DecoyCfg := ⟨[], false⟩
    let uuid : Nat → List Char := fun k => ("U" ++ toString k).toList
    let st := encode c uuid [("X".toList, "AAK".toList)]
    st.dict = [("U0".toList, [])] ∧ decode c st.dict (st.out.map (·.1))[0]! = none := by
  decide

/-! ## summarize -/

/-- **summary_total.** The per-source totals of the summary table add up to the number of
peptides (for the table `count_peptide_source` builds; the rows `write_summary_table` prints may
omit source combinations — known finding `summary-rows-skip-exclusive`). -/
theorem summary_total (env : SrcEnv) (rule : Re) (exc : Option Re) (pool : List PRec) (t : SumTable)
    (h : summarize env rule exc pool = .ok t) : t.total = pool.length := by
  unfold summarize at h
  cases hk : sumKeys env rule exc pool with
  | error e => simp [hk] at h
  | ok ks =>
    simp only [hk, Except.ok.injEq] at h
    have hl := sumKeys_length env rule exc pool ks hk
    have : ∀ (ks : List (SrcSet × Nat)) (t0 : SumTable),
        (ks.foldl (fun t k => sumAdd t k.1 k.2) t0).total = t0.total + ks.length := by
      intro ks
      induction ks with
      | nil => intro t0; simp
      | cons k ks ih =>
        intro t0
        simp only [List.foldl_cons, List.length_cons]
        rw [ih, sumAdd_total]; omega
    rw [← h, this ks [], hl]
    simp [SumTable.total]

/--
Full statement (design): under the same order/group options, without wildcard keys and without a
(gene, label) shared by GVFs of two sources, every row total equals the size of the database
`splitFasta` writes for that source combination.  Proved here: the grand totals agree — the
summary table and the split databases both account for every peptide exactly once (no hypothesis
on the options needed for that).  The per-key equality is `summary_eq_split` below; the two
excluded situations are confirmed disagreements (known findings `summary-vs-split-wildcard`,
`summary-vs-split-shared-label`, with `decide`-checked counter-examples in the last section).
-/
theorem summary_eq_split_partial (c : SplitCfg) (envS : SrcEnv) (rule : Re) (exc : Option Re)
    (pool : List PRec) (dbs : Dbs) (t : SumTable)
    (hs : split c pool = .ok dbs) (ht : summarize envS rule exc pool = .ok t) :
    t.total = (dbs.map (·.2.length)).sum := by
  obtain ⟨_, _, _, _, _, hsum⟩ := split_partition c pool dbs hs
  rw [summary_total envS rule exc pool t ht, hsum]

/-- the database key `splitFasta` uses for the source set `s` under the options `x`,
`--max-source-groups mg`, `--additional-split addl` (`chooseKey` only reads the order) -/
def cliKey (x : CliOpts) (mg : Int) (addl : List SrcSet) (s : SrcSet) : DbKey :=
  chooseKey { env := x.sumEnv, maxGroups := mg, additional := addl } s

/--
**summary_eq_split.**  `splitFasta` (`cliSplit`) and `summarizeFasta` (`cliSummarize`) run on the
same pool under the same options `x` (`--order-source`, `--group-source`, GVFs, annotation), any
`--max-source-groups`, `--additional-split`, enzyme.  Hypotheses on the options (all decidable):
* `hld` the levels of the order are pairwise distinct (true for every parsed `--order-source`,
  `source_order_cli`);
* `hset` its combination keys are sets;
* `hnw` **no wildcard key** (`X-*`, `X-+`) — excludes known finding `summary-vs-split-wildcard`;
* `hns` **no (gene, label) in GVFs of two sources** — excludes `summary-vs-split-shared-label`.
Then, with `ks` the source set `add_entry` counts each peptide under (in pool order):
1. every row total of the summary table is the number of peptides counted under that source
   combination (`t.count s`, the number `get_stringified_summary_entry` prints);
2. the size of EVERY database `k` (source, `-additional`, `Remaining`) is the number of peptides
   whose source set `splitFasta` files under `k`;
3. **per key**: for every source combination `s` (duplicate-free list of plain keys of the order)
   with at most `--max-source-groups` members, the database key is `str(s)` and the row total of
   `s` equals the number of records of that database (0 = 0 when neither exists).
-/
theorem summary_eq_split (x : CliOpts) (mg : Int) (addl : List SrcSet) (rule : Re) (exc : Option Re)
    (pool : List PRec) (dbs : Dbs) (t : SumTable)
    (hld : x.order.levelsDistinct = true) (hset : x.order.keysAreSets = true)
    (hnw : x.order.noWildKeys = true) (hns : noSharedLabel x.gvfs = true)
    (hs : cliSplit x mg addl pool = .ok dbs) (ht : cliSummarize x rule exc pool = .ok t) :
    ∃ ks : List (SrcSet × Nat), sumKeys x.sumEnv rule exc pool = .ok ks ∧
      (∀ s, t.count s = (ks.filter fun y => sameSet y.1 s).length) ∧
      (∀ k, (dbGet dbs k).length = (ks.filter fun y => cliKey x mg addl y.1 = k).length) ∧
      (∀ s : SrcSet, s.Nodup → (∀ y ∈ s, x.order.has (.one y) = true) → (s.length : Int) ≤ mg →
        cliKey x mg addl s = .sources (setStr x.order s).1 "" ∧
        t.count s = (dbGet dbs (.sources (setStr x.order s).1 "")).length) := by
  -- summarize side
  unfold cliSummarize summarize at ht
  cases hk : sumKeys x.sumEnv rule exc pool with
  | error e => rw [hk] at ht; cases ht
  | ok ks =>
    rw [hk] at ht
    simp only [Except.ok.injEq] at ht
    -- split side
    unfold cliSplit at hs
    simp only [] at hs
    have ho : (splitterOrder x.group x.order0 x.gvfs).1 = x.order := splitterOrder_eq _ _ _
    rw [ho] at hs
    split at hs
    · cases hs
    · obtain ⟨wm, hwm, hid⟩ :=
        wildcardMap_noWild x.order (splitterOrder x.group x.order0 x.gvfs).2 hnw hset
      rw [hwm] at hs
      simp only [] at hs
      rw [sourceFirst_eq_sourceLast x.gvfs hns] at hs
      change split { env := x.sumEnv.withWild wm, maxGroups := mg, additional := addl } pool = _
        at hs
      unfold split at hs
      cases ha : splitAssign (⟨x.sumEnv.withWild wm, mg, addl⟩ : SplitCfg) pool with
      | error e => rw [ha] at hs; cases hs
      | ok as =>
        rw [ha] at hs
        simp only [Except.ok.injEq] at hs
        obtain ⟨_, f2, _⟩ := foldl_addToDb as [] (by simp)
        rw [hs] at f2
        obtain ⟨hkeys, hwf⟩ := splitAssign_keys x.sumEnv rfl wm hid hld mg addl rule exc pool as ks
          ha hk
        have hck : ∀ s, chooseKey (⟨x.sumEnv.withWild wm, mg, addl⟩ : SplitCfg) s =
            cliKey x mg addl s := fun _ => rfl
        have hsize : ∀ k, (dbGet dbs k).length =
            (ks.filter fun y => cliKey x mg addl y.1 = k).length := by
          intro k
          have := f2 k
          simp only [dbGet, List.find?_nil, List.nil_append] at this
          have e : dbGet dbs k = (as.filter fun a => a.1 = k).map (·.2) := by
            simpa [dbGet] using this
          rw [e, List.length_map]
          have e2 : (as.filter fun a => decide (a.1 = k)).length =
              ((as.map (·.1)).filter fun a => decide (a = k)).length := by
            rw [List.filter_map, List.length_map]; rfl
          rw [e2, hkeys, List.filter_map, List.length_map]
          simp only [hck]
          rfl
        have hcount : ∀ s, t.count s = (ks.filter fun y => sameSet y.1 s).length := by
          intro s
          rw [← ht, count_foldl]
          simp [SumTable.count]
        refine ⟨ks, rfl, hcount, hsize, ?_⟩
        intro s hnd hkeys' hfit
        have hfitk := chooseKey_fit { env := x.sumEnv, maxGroups := mg, additional := addl } hnw s
          hkeys' hfit
        refine ⟨hfitk, ?_⟩
        have hfitk' : cliKey x mg addl s = .sources (setStr x.order s).1 "" := hfitk
        rw [hcount s, ← hfitk', hsize]
        congr 1
        apply List.filter_congr
        intro y hy
        obtain ⟨ynd, ykeys⟩ := hwf y hy
        cases hss : sameSet y.1 s with
        | true =>
          have := chooseKey_congr { env := x.sumEnv, maxGroups := mg, additional := addl } hss ynd hnd
          simp only [cliKey, this, decide_true]
        | false =>
          have : cliKey x mg addl y.1 ≠ cliKey x mg addl s := by
            intro e
            have := chooseKey_inj { env := x.sumEnv, maxGroups := mg, additional := addl } hnw s y.1
              hkeys' ykeys hfit e
            rw [this] at hss; cases hss
          simp only [this, decide_false]

/-- **The rows `write_summary_table` prints.**  Its source combinations are drawn, in level
order, from the plain keys of the order (`x.order.plain`; `itertools.combinations`).  Under the
hypotheses of `summary_eq_split` and with pairwise distinct plain keys, for every such combination
`comb` of at most `--max-source-groups` sources: the database key `splitFasta` uses is `comb`
itself — its file name part `'-'.join(comb)` IS the row name — and the printed `n_total`
equals the number of records in that database. -/
theorem summary_row_eq_db (x : CliOpts) (mg : Int) (addl : List SrcSet) (rule : Re)
    (exc : Option Re) (pool : List PRec) (dbs : Dbs) (t : SumTable)
    (hld : x.order.levelsDistinct = true) (hset : x.order.keysAreSets = true)
    (hnw : x.order.noWildKeys = true) (hns : noSharedLabel x.gvfs = true)
    (hpl : x.order.plain.Nodup)
    (hs : cliSplit x mg addl pool = .ok dbs) (ht : cliSummarize x rule exc pool = .ok t)
    (i : Nat) (comb : List Src) (hc : comb ∈ combos (i + 1) x.order.plain)
    (hfit : (comb.length : Int) ≤ mg) :
    t.count comb = (dbGet dbs (.sources comb "")).length ∧
    (DbKey.sources comb "").render = "-".intercalate comb := by
  have hsub := combos_sublist (i + 1) x.order.plain comb hc
  obtain ⟨ks, _, _, _, h4⟩ := summary_eq_split x mg addl rule exc pool dbs t hld hset hnw hns hs ht
  have hkeys : ∀ y ∈ comb, x.order.has (.one y) = true :=
    fun y hy => (has_one_iff x.order y).mpr (hsub.subset hy)
  obtain ⟨_, e⟩ := h4 comb (hsub.nodup hpl) hkeys hfit
  rw [setStr_sublist x.order hnw hpl comb hsub] at e
  exact ⟨e, by simp [DbKey.render]⟩

/-! ## non-vacuity -/

section examples
def f (x : String) : Field := x.toList

def env0 : SrcEnv :=
  { tx2gene := [(f "T1", f "G1"), (f "T2", f "G2")],
    getSource := sourceFirst [⟨"gSNP", "parseVEP", [(f "G1", f "SNV-1-A-T")]⟩,
                              ⟨"gINDEL", "parseVEP", [(f "G1", f "INDEL-5-AC-A")]⟩],
    group := [], wildcard := [],
    order := [(.one "gSNP", 0), (.one "gINDEL", 1), (.one "NovelORF", 2), (.one "SECT", 3),
              (.one "CodonReassign", 4)] }
def cfg0 : SplitCfg := { env := env0, maxGroups := 1, additional := [] }
def pep0 : PRec := ⟨"PEPTIDEK".toList,
  [[f "T1", f "SNV-1-A-T", f "INDEL-5-AC-A", f "1"], [f "T1", f "INDEL-5-AC-A", f "2"]]⟩

/-- the entry with the single source gINDEL wins over {gSNP, gINDEL}; the header is re-ordered -/
example : splitPep cfg0 pep0 = .ok (.sources ["gINDEL"] "",
    ⟨"PEPTIDEK".toList, [[f "T1", f "INDEL-5-AC-A", f "2"],
                         [f "T1", f "SNV-1-A-T", f "INDEL-5-AC-A", f "1"]]⟩) := by decide

example : intsGt [0, 1] [5] = true ∧ intsGt [1] [0] = true ∧ intsGt [0, 2] [0, 1] = true := by
  decide

example : (mergePools [[⟨"AAK".toList, [[f "T1", f "SNV-1-A-T", f "1"]]⟩],
                       [⟨"AAK".toList, [[f "T2", f "SNV-9-C-G", f "1"]]⟩, ⟨"CCK".toList, [[f "X"]]⟩]]) =
    [⟨"AAK".toList, [[f "T1", f "SNV-1-A-T", f "1"], [f "T2", f "SNV-9-C-G", f "1"]]⟩,
     ⟨"CCK".toList, [[f "X"]]⟩] := by decide

example : (⟨"DECOY_".toList, true⟩ : DecoyCfg).str ≠ [] := by decide

/-! ### source_order_total -/

/-- an order with a combination key, as `--order-source B,A-B,A,C` gives it -/
def ord1 : Order := [(.one "B", 0), (.many ["A", "B"], 1), (.one "A", 2), (.one "C", 3)]

example : ord1.levelsDistinct = true ∧ ord1.injOn (keysOf [["A", "B"], ["C"]]) = true := by decide
/-- order and repetitions of the underlying collection do not matter; the combination key wins -/
example : toInt ord1 ["A", "B"] = some [1] ∧ toInt ord1 ["B", "A", "B"] = some [1] ∧
    toInt ord1 ["C", "A"] = some [2, 3] ∧ toInt ord1 ["A", "C", "A"] = some [2, 3] := by decide
example : srcGt ord1 ["C"] ["A", "B"] = some true ∧ srcGt ord1 ["A", "B"] ["C"] = some false ∧
    srcGt ord1 ["A", "C"] ["C"] = some true ∧ srcGt ord1 ["B", "A"] ["A", "B"] = some false ∧
    srcGt ord1 ["A"] ["D"] = none := by decide
/-- without injectivity `to_int` is not injective and two different sets are incomparable: the
hypothesis of part 3 of `source_order_total` is needed -/
example : let o : Order := [(.one "A", 0), (.one "B", 0)]
    o.levelsDistinct = false ∧ o.injOn (keysOf [["A"], ["B"]]) = false ∧
    toInt o ["A"] = toInt o ["B"] ∧ srcGt o ["A"] ["B"] = some false ∧
    srcGt o ["B"] ["A"] = some false := by decide
/-- the header of `pep0` in the other order goes to the same database -/
example : (splitPep cfg0 ⟨pep0.seq, pep0.header.reverse⟩).map (·.1) = (splitPep cfg0 pep0).map (·.1) := by
  decide

/-! ### encode_decode -/

def uuid0 : Nat → List Char := fun k => ("U" ++ toString k).toList
def decoy0 : DecoyCfg := ⟨"DECOY_".toList, true⟩
def recs0 : List (List Char × Pep) :=
  [("T1|SNV-1-A-T|1".toList, "AAK".toList), ("DECOY_T1|SNV-1-A-T|1".toList, "KAA".toList),
   ("T2|X|1".toList, "CCK".toList), ("T1|SNV-1-A-T|1".toList, "AAR".toList)]

instance (c : DecoyCfg) (uuid : Nat → List Char) (n : Nat) : Decidable (UuidOk c uuid n) := by
  unfold UuidOk; exact inferInstance

example : UuidOk decoy0 uuid0 recs0.length := by decide
/-- target and decoy of one header share the identifier; two dictionary lines for four records -/
example : (encode decoy0 uuid0 recs0).out.map (·.1) =
      ["U0".toList, "DECOY_U0".toList, "U1".toList, "U0".toList] ∧
    (encode decoy0 uuid0 recs0).dict =
      [("U0".toList, "T1|SNV-1-A-T|1".toList), ("U1".toList, "T2|X|1".toList)] := by decide
/-- `UuidOk`'s second half is needed: an identifier that starts with the decoy string is decoded
as a decoy -/
example : let c : DecoyCfg := ⟨"U".toList, true⟩
    let st := encode c uuid0 [("X".toList, "AAK".toList)]
    decode c st.dict (st.out.map (·.1))[0]! = none := by decide

/-! ### summary_eq_split -/

def kr : Re := [⟨[], .pos ['K', 'R'], []⟩]
def gvSNP : Gvf := ⟨"gSNP", "parseVEP", [(f "G1", f "SNV-1-A-T")]⟩
def gvINDEL : Gvf := ⟨"gINDEL", "parseVEP", [(f "G1", f "INDEL-5-AC-A")]⟩
/-- `--order-source gSNP,gINDEL`, two GVFs -/
def opts0 : CliOpts :=
  { order0 := [(.one "gSNP", 0), (.one "gINDEL", 1)], group := [], gvfs := [gvSNP, gvINDEL],
    tx2gene := [(f "T1", f "G1"), (f "T2", f "G2")] }
def pepSNP : PRec := ⟨"AAK".toList, [[f "T1", f "SNV-1-A-T", f "1"]]⟩
def pepBoth : PRec := ⟨"CCKR".toList, [[f "T1", f "SNV-1-A-T", f "INDEL-5-AC-A", f "3"]]⟩
def pool0 : List PRec := [pep0, pepSNP, pepBoth]

/-- the hypotheses of `summary_eq_split` hold for `opts0`, both commands succeed, three
databases / rows with a count -/
example : opts0.order.levelsDistinct = true ∧ opts0.order.keysAreSets = true ∧
    opts0.order.noWildKeys = true ∧ noSharedLabel opts0.gvfs = true ∧
    opts0.order.plain = ["gSNP", "gINDEL", "NovelORF", "SECT", "CodonReassign"] := by decide
example : (cliSplit opts0 2 [] pool0).map (·.map fun d => (d.1, d.2.length)) =
      .ok [(.sources ["gINDEL"] "", 1), (.sources ["gSNP"] "", 1),
           (.sources ["gSNP", "gINDEL"] "", 1)] ∧
    (cliSummarize opts0 kr none pool0).map (fun t =>
        (t.count ["gINDEL"], t.count ["gSNP"], t.count ["gSNP", "gINDEL"], t.count ["SECT"])) =
      .ok (1, 1, 1, 0) := by decide
/-- with `--max-source-groups 1` the two-source peptide goes to `Remaining`; part 2 of the theorem
still accounts for it -/
example : (cliSplit opts0 1 [] pool0).map (·.map fun d => (d.1, d.2.length)) =
      .ok [(.sources ["gINDEL"] "", 1), (.sources ["gSNP"] "", 1), (.remaining, 1)] := by decide

/-- **`hnw` is needed** (known finding `summary-vs-split-wildcard`): with `--order-source
gSNP,gINDEL-*` splitFasta files the two-source peptide under `gINDEL-ALL`, summarizeFasta counts it
under gSNP-gINDEL -/
example : let x : CliOpts := { opts0 with order0 := [(.one "gSNP", 0), (.many ["gINDEL", "*"], 1)] }
    x.order.noWildKeys = false ∧
    (cliSplit x 2 [] [pepBoth]).map (·.map fun d => (d.1, d.2.length)) =
      .ok [(.sources ["gINDEL"] "ALL", 1)] ∧
    (cliSummarize x kr none [pepBoth]).map (fun t => t.count ["gSNP", "gINDEL"]) = .ok 1 := by
  decide
/-- **`hns` is needed** (known finding `summary-vs-split-shared-label`): the label of the gSNP GVF
also occurs in the gINDEL GVF; splitFasta keeps the first source, summarizeFasta the last -/
example : let x : CliOpts := { opts0 with gvfs := [gvSNP, ⟨"gINDEL", "parseVEP", gvSNP.labels⟩] }
    noSharedLabel x.gvfs = false ∧
    (cliSplit x 2 [] [pepSNP]).map (·.map fun d => (d.1, d.2.length)) =
      .ok [(.sources ["gSNP"] "", 1)] ∧
    (cliSummarize x kr none [pepSNP]).map (fun t => (t.count ["gSNP"], t.count ["gINDEL"])) =
      .ok (0, 1) := by
  decide
end examples

end MoPepGen.Props.C18
