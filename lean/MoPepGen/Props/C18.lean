import MoPepGen.Lemmas.Split
/-!
# C18 — database bookkeeping conserves peptides (split, merge, encode, summarize)

Property theorems only.  `split`, `splitPep`, `chooseKey`, `mergePools`/`addPeptide`,
`encode`/`decode`, `summarize` are the models of the Python (tied to /repo by the
correspondence streams `split`, `summarize`, `merge`, `encode`, `gt`).
-/
namespace MoPepGen.Props.C18
open MoPepGen

/-! ## source-set order -/

/--
Full statement (design): `VariantSourceSet.__gt__` is a strict total order on source sets when
levels are distinct.  Proved here: the comparison the code performs on the `to_int()` images
(longer list greater, then lexicographic) is a strict total order on those images, and the
derived `≤` used for sorting is total and transitive.  Missing for the full statement: `to_int`
is injective on sets when the level map is injective (validated by the `gt` stream).
-/
theorem source_order_total_partial :
    (∀ a : List Nat, intsGt a a = false) ∧
    (∀ a b : List Nat, intsGt a b = true → intsGt b a = false) ∧
    (∀ a b c : List Nat, intsGt a b = true → intsGt b c = true → intsGt a c = true) ∧
    (∀ a b : List Nat, a ≠ b → intsGt a b = true ∨ intsGt b a = true) ∧
    (∀ a b : List Nat, intsLe a b = false → intsLe b a = true) ∧
    (∀ a b c : List Nat, intsLe a b = true → intsLe b c = true → intsLe a c = true) :=
  ⟨intsGt_irrefl, intsGt_asymm, intsGt_trans, intsGt_total, intsLe_total, intsLe_trans⟩

/-! ## split -/

theorem headerInfos_length (env : SrcEnv) :
    ∀ (h : Header) (infos : List (Entry × SrcSet)), headerInfos env h = .ok infos →
      infos.length = h.length := by
  intro h
  induction h with
  | nil => intro infos hh; simp [headerInfos] at hh; subst hh; rfl
  | cons e es ih =>
    intro infos hh
    simp only [headerInfos] at hh
    cases h1 : entryInfo env e with
    | error x => simp [h1] at hh
    | ok i =>
      simp only [h1] at hh
      cases h2 : headerInfos env es with
      | error x => simp [h2] at hh
      | ok is =>
        simp only [h2] at hh
        cases hh
        simp [ih is h2]

theorem withInts_map (o : Order) :
    ∀ (infos : List (Entry × SrcSet)) (l : List (List Nat × (Entry × SrcSet))),
      withInts o infos = .ok l → l.map (·.2) = infos ∧ ∀ x ∈ l, toInt o x.2.2 = some x.1 := by
  intro infos
  induction infos with
  | nil => intro l h; simp [withInts] at h; subst h; simp
  | cons i is ih =>
    intro l h
    simp only [withInts] at h
    cases h1 : toInt o i.2 with
    | none => simp [h1] at h
    | some n =>
      simp only [h1] at h
      cases h2 : withInts o is with
      | error e => simp [h2] at h
      | ok r =>
        simp only [h2] at h
        cases h
        obtain ⟨a, b⟩ := ih r h2
        refine ⟨by simp [a], ?_⟩
        intro x hx
        rcases List.mem_cons.mp hx with rfl | hx
        · exact h1
        · exact b x hx

/-- what one peptide's assignment is: same sequence; the header is a permutation of the
(normalised) labels of the input header, one per input entry; the key is `chooseKey` of a source
set of one of its entries that is minimal in the source order (**split_key_spec**). -/
theorem split_key_spec (c : SplitCfg) (p : PRec) (k : DbKey) (q : PRec)
    (h : splitPep c p = .ok (k, q)) :
    q.seq = p.seq ∧
    ∃ infos, headerInfos c.env p.header = .ok infos ∧ infos.length = p.header.length ∧
      q.header.Perm (infos.map (·.1)) ∧
      ∃ i ∈ infos, ∃ n, toInt c.env.order i.2 = some n ∧ k = chooseKey c i.2 ∧
        ∀ j ∈ infos, ∃ m, toInt c.env.order j.2 = some m ∧ intsLe n m = true := by
  unfold splitPep at h
  cases h1 : headerInfos c.env p.header with
  | error e => simp [h1] at h
  | ok infos =>
    simp only [h1] at h
    cases h2 : sortInfos c.env.order infos with
    | error e => simp [h2] at h
    | ok sorted =>
      simp only [h2] at h
      cases sorted with
      | nil => simp at h
      | cons i0 rest =>
        simp only [Except.ok.injEq, Prod.mk.injEq] at h
        obtain ⟨hk, hq⟩ := h
        subst hq
        unfold sortInfos at h2
        cases h3 : withInts c.env.order infos with
        | error e => simp [h3] at h2
        | ok l =>
          simp only [h3, Except.ok.injEq] at h2
          obtain ⟨hmap, hints⟩ := withInts_map c.env.order infos l h3
          have hperm := isort_perm (fun (a b : List Nat × (Entry × SrcSet)) => intsLe a.1 b.1) l
          rw [h2] at hperm
          have hmin := isort_head_min (fun (a b : List Nat × (Entry × SrcSet)) => intsLe a.1 b.1)
            (fun a b => intsLe_total a.1 b.1) (fun a b c => intsLe_trans a.1 b.1 c.1) l i0 rest h2
          have hi0 : i0 ∈ l := hperm.subset (List.mem_cons_self)
          refine ⟨rfl, infos, rfl, headerInfos_length _ _ _ h1, ?_, ?_⟩
          · have := (hperm.map (fun x => x.2.1))
            have e : (l.map (·.2)).map (·.1) = l.map (fun x => x.2.1) := by simp [List.map_map]
            rw [← hmap, e]
            exact this
          · refine ⟨i0.2, ?_, i0.1, hints i0 hi0, hk.symm, ?_⟩
            · rw [← hmap]; exact List.mem_map.mpr ⟨i0, hi0, rfl⟩
            · intro j hj
              rw [← hmap] at hj
              obtain ⟨x, hx, rfl⟩ := List.mem_map.mp hj
              exact ⟨x.1, hints x hx, hmin x hx⟩

theorem splitAssign_spec (c : SplitCfg) :
    ∀ (pool : List PRec) (as : List (DbKey × PRec)), splitAssign c pool = .ok as →
      as.map (·.2.seq) = pool.map (·.seq) ∧
      ∀ x ∈ pool.zip as, splitPep c x.1 = .ok x.2 := by
  intro pool
  induction pool with
  | nil => intro as h; simp [splitAssign] at h; subst h; exact ⟨rfl, by simp⟩
  | cons p ps ih =>
    intro as h
    simp only [splitAssign] at h
    cases h1 : splitPep c p with
    | error e => simp [h1] at h
    | ok a =>
      simp only [h1] at h
      cases h2 : splitAssign c ps with
      | error e => simp [h2] at h
      | ok r =>
        simp only [h2] at h
        cases h
        obtain ⟨i1, i2⟩ := ih r h2
        refine ⟨?_, ?_⟩
        · obtain ⟨k, q⟩ := a
          have := (split_key_spec c p k q h1).1
          simp [i1, this]
        · intro x hx
          simp only [List.zip_cons_cons, List.mem_cons] at hx
          rcases hx with rfl | hx
          · exact h1
          · exact i2 x hx

/-- **split_partition.** If `split` succeeds there is one assignment (key, record) per input
peptide, in input order, with unchanged sequences (headers: see `split_key_spec`); the database
keys are pairwise distinct; the database of key `k` holds exactly the records assigned to `k`
(so every peptide is in exactly one database); and the database sizes add up to the number of
input peptides. -/
theorem split_partition (c : SplitCfg) (pool : List PRec) (dbs : Dbs) (h : split c pool = .ok dbs) :
    ∃ as : List (DbKey × PRec),
      (∀ x ∈ pool.zip as, splitPep c x.1 = .ok x.2) ∧
      as.map (·.2.seq) = pool.map (·.seq) ∧
      (dbs.map (·.1)).Nodup ∧
      (∀ k, dbGet dbs k = (as.filter (fun a => a.1 = k)).map (·.2)) ∧
      (dbs.map (·.2.length)).sum = pool.length := by
  unfold split at h
  cases h1 : splitAssign c pool with
  | error e => simp [h1] at h
  | ok as =>
    simp only [h1, Except.ok.injEq] at h
    obtain ⟨s1, s2⟩ := splitAssign_spec c pool as h1
    obtain ⟨f1, f2, f3⟩ := foldl_addToDb as [] (by simp)
    rw [h] at f1 f2 f3
    refine ⟨as, s2, s1, f1, ?_, ?_⟩
    · intro k; simpa [dbGet] using f2 k
    · have : as.length = pool.length := by
        have := congrArg List.length s1
        simpa using this
      simpa [this] using f3

/-! ## merge -/

/-- all header entries contributed by the records of `b` with sequence `s`, in order -/
def hdrAll (b : List PRec) (s : Pep) : Header := (b.filter (fun q => q.seq = s)).flatMap (·.header)

/-- **merge_union.** Adding the records of `b` to the pool `a` (`add_peptide`) yields the union
of the sequences, keeps sequences unique, and the header of every sequence is the header it had
in `a` followed by the entries `b` contributes for it. -/
theorem merge_union (b : List PRec) : ∀ a : List PRec,
    let r := b.foldl addPeptide a
    (∀ s, s ∈ r.map (·.seq) ↔ s ∈ a.map (·.seq) ∨ s ∈ b.map (·.seq)) ∧
    ((a.map (·.seq)).Nodup → (r.map (·.seq)).Nodup) ∧
    (∀ s, hdrOf r s = hdrOf a s ++ hdrAll b s) := by
  induction b with
  | nil => intro a; simp [hdrAll]
  | cons p ps ih =>
    intro a
    obtain ⟨i1, i2, i3⟩ := ih (addPeptide a p)
    simp only [List.foldl_cons]
    have hs := addPeptide_seqs a p
    refine ⟨?_, ?_, ?_⟩
    · intro s
      rw [i1 s, hs]
      by_cases hm : p.seq ∈ a.map (·.seq)
      · simp only [hm, if_true, List.map_cons, List.mem_cons]
        constructor
        · rintro (e | e)
          · exact Or.inl e
          · exact Or.inr (Or.inr e)
        · rintro (e | e | e)
          · exact Or.inl e
          · subst e; exact Or.inl hm
          · exact Or.inr e
      · simp only [hm, if_false, List.mem_append, List.map_cons, List.mem_cons,
          List.not_mem_nil, or_false]
        constructor
        · rintro ((e | e) | e)
          · exact Or.inl e
          · exact Or.inr (Or.inl e)
          · exact Or.inr (Or.inr e)
        · rintro (e | e | e)
          · exact Or.inl (Or.inl e)
          · exact Or.inl (Or.inr e)
          · exact Or.inr e
    · intro hn
      apply i2
      rw [hs]
      by_cases hm : p.seq ∈ a.map (·.seq)
      · simpa [hm] using hn
      · simp only [hm, if_false]
        exact List.nodup_append.mpr ⟨hn, by simp, by
          intro x hx y hy
          simp only [List.mem_singleton] at hy
          subst hy
          intro e; subst e; exact hm hx⟩
    · intro s
      rw [i3 s, addPeptide_hdr]
      by_cases h : s = p.seq
      · subst h
        simp [hdrAll, List.filter_cons, List.append_assoc]
      · have : ¬ p.seq = s := fun e => h e.symm
        simp [hdrAll, List.filter_cons, h, this]

/-! ## encode -/

theorem isPrefixOf_append (p t : List Char) : p.isPrefixOf (p ++ t) = true := by
  induction p with
  | nil => simp [List.isPrefixOf]
  | cons a as ih => simp [List.isPrefixOf, ih]

/--
Full statement (design): `decode dict (encode x) = x` for every record, equal headers share an
id.  Proved here (the part that does not involve the id table): for a non-empty decoy string the
decoy mark is recognised on the encoded identifier, stripping it returns the identifier, and
re-attaching it to the stripped *header* returns the header — so decoy prefixes/suffixes are
preserved by strip → look-up → wrap.  Missing: the invariant of the `id_mapper` fold (ids are the
pairwise distinct `uuid k`, the dictionary lists exactly the mapper) — validated on the real
files by the `decode` predicate and the `encode` stream.
-/
theorem encode_decode_partial (c : DecoyCfg) (hne : c.str ≠ []) :
    (∀ i : List Char, c.isDecoy (c.wrap i) = true ∧ c.real (c.wrap i) = i) ∧
    (∀ h : List Char, c.isDecoy h = true → c.wrap (c.real h) = h) := by
  have hlen : c.str.length ≠ 0 := by
    intro h; exact hne (List.length_eq_zero_iff.mp h)
  constructor
  · intro i
    unfold DecoyCfg.isDecoy DecoyCfg.real DecoyCfg.wrap
    cases hp : c.prefixPos with
    | true => simp [isPrefixOf_append]
    | false =>
      have h0 : (c.str.length == 0) = false := by simpa using hlen
      simp only [Bool.false_eq_true, if_false, h0, List.reverse_append, isPrefixOf_append,
        List.length_append, Nat.add_sub_cancel, List.take_left', true_and]
  · intro h hd
    unfold DecoyCfg.isDecoy at hd
    unfold DecoyCfg.real DecoyCfg.wrap
    cases hp : c.prefixPos with
    | true =>
      simp only [hp, if_true] at hd ⊢
      obtain ⟨t, rfl⟩ := List.isPrefixOf_iff_prefix.mp hd
      simp
    | false =>
      have h0 : (c.str.length == 0) = false := by simpa using hlen
      simp only [hp, Bool.false_eq_true, if_false, h0] at hd ⊢
      obtain ⟨t, ht⟩ := List.isPrefixOf_iff_prefix.mp hd
      have : h = t.reverse ++ c.str := by
        have := congrArg List.reverse ht
        simpa using this.symm
      subst this
      simp

/-! ## summarize -/

/-- **summary_total.** The per-source totals of the summary table add up to the number of
peptides (for the table `count_peptide_source` builds; the rows `write_summary_table` prints may
omit source combinations — known finding `summary-rows-skip-exclusive`). -/
theorem summary_total (env : SrcEnv) (rule : Re) (exc : Option Re) (pool : List PRec) (t : SumTable)
    (h : summarize env rule exc pool = .ok t) : t.total = pool.length := by
  unfold summarize at h
  cases hk : sumKeys env rule exc pool with
  | error e => simp [hk] at h
  | ok ks =>
    simp only [hk, Except.ok.injEq] at h
    have hl := sumKeys_length env rule exc pool ks hk
    have : ∀ (ks : List (SrcSet × Nat)) (t0 : SumTable),
        (ks.foldl (fun t k => sumAdd t k.1 k.2) t0).total = t0.total + ks.length := by
      intro ks
      induction ks with
      | nil => intro t0; simp
      | cons k ks ih =>
        intro t0
        simp only [List.foldl_cons, List.length_cons]
        rw [ih, sumAdd_total]; omega
    rw [← h, this ks [], hl]
    simp [SumTable.total]

/--
Full statement (design): under the same order/group options, without wildcard keys and without a
(gene, label) shared by GVFs of two sources, every row total equals the size of the database
`splitFasta` writes for that source combination.  Proved here: the grand totals agree — the
summary table and the split databases both account for every peptide exactly once.  The per-key
equality is checked on the real CLIs (`eq_split` predicate, "clean" half of the cases), and the
two excluded situations are confirmed disagreements (known findings
`summary-vs-split-wildcard`, `summary-vs-split-shared-label`).
-/
theorem summary_eq_split_partial (c : SplitCfg) (envS : SrcEnv) (rule : Re) (exc : Option Re)
    (pool : List PRec) (dbs : Dbs) (t : SumTable)
    (hs : split c pool = .ok dbs) (ht : summarize envS rule exc pool = .ok t) :
    t.total = (dbs.map (·.2.length)).sum := by
  obtain ⟨_, _, _, _, _, hsum⟩ := split_partition c pool dbs hs
  rw [summary_total envS rule exc pool t ht, hsum]

/-! ## non-vacuity -/

section examples
def f (x : String) : Field := x.toList

def env0 : SrcEnv :=
  { tx2gene := [(f "T1", f "G1"), (f "T2", f "G2")],
    getSource := sourceFirst [⟨"gSNP", "parseVEP", [(f "G1", f "SNV-1-A-T")]⟩,
                              ⟨"gINDEL", "parseVEP", [(f "G1", f "INDEL-5-AC-A")]⟩],
    group := [], wildcard := [],
    order := [(.one "gSNP", 0), (.one "gINDEL", 1), (.one "NovelORF", 2), (.one "SECT", 3),
              (.one "CodonReassign", 4)] }
def cfg0 : SplitCfg := { env := env0, maxGroups := 1, additional := [] }
def pep0 : PRec := ⟨"PEPTIDEK".toList,
  [[f "T1", f "SNV-1-A-T", f "INDEL-5-AC-A", f "1"], [f "T1", f "INDEL-5-AC-A", f "2"]]⟩

/-- the entry with the single source gINDEL wins over {gSNP, gINDEL}; the header is re-ordered -/
example : splitPep cfg0 pep0 = .ok (.sources ["gINDEL"] "",
    ⟨"PEPTIDEK".toList, [[f "T1", f "INDEL-5-AC-A", f "2"],
                         [f "T1", f "SNV-1-A-T", f "INDEL-5-AC-A", f "1"]]⟩) := by decide

example : intsGt [0, 1] [5] = true ∧ intsGt [1] [0] = true ∧ intsGt [0, 2] [0, 1] = true := by
  decide

example : (mergePools [[⟨"AAK".toList, [[f "T1", f "SNV-1-A-T", f "1"]]⟩],
                       [⟨"AAK".toList, [[f "T2", f "SNV-9-C-G", f "1"]]⟩, ⟨"CCK".toList, [[f "X"]]⟩]]) =
    [⟨"AAK".toList, [[f "T1", f "SNV-1-A-T", f "1"], [f "T2", f "SNV-9-C-G", f "1"]]⟩,
     ⟨"CCK".toList, [[f "X"]]⟩] := by decide

example : (⟨"DECOY_".toList, true⟩ : DecoyCfg).str ≠ [] := by decide
end examples

end MoPepGen.Props.C18
