import MoPepGen.Model.Pipeline
/-!
# C07 — `--skip-failed` isolates failures; without it failures abort

Theorems about `wrapper` (model of `call_variant_peptides_wrapper`), `processAll` /
`runAll` (result loop + tally) and `reducer` (model of `caller_reducer`), for every
subset of failing units in every position and any number of fusions / circRNAs.
A failing unit is a unit whose caller result is `none`; the callers' results are
data, so the statements hold for any behaviour of the graph algorithm.
Correspondence: fault injection through the guarded hook at the entry of the three
per-unit callers, every subset of units, real FASTA/table/tally vs this model.
-/
namespace MoPepGen.Props.C07
open MoPepGen MoPepGen.Pipe

/-- the same unit, yielding nothing instead of failing -/
def healRes (r : UnitRes) : UnitRes := some (r.getD [])

/-- the transcript's units with every failing unit replaced by one that yields nothing -/
def heal (u : TxUnits) : TxUnits :=
  { u with main := healRes u.main, fusions := u.fusions.map healRes, circs := u.circs.map healRes }

/-- some unit of the transcript fails -/
def hasFailure (u : TxUnits) : Bool :=
  (u.hasMain && u.main.isNone) || u.fusions.any Option.isNone || u.circs.any Option.isNone

/-- S: what the wrapper must return under `--skip-failed`: the peptides of the succeeding
units merged in order -/
def annoOf (u : TxUnits) : PepMap :=
  let a0 := if u.hasMain then addPeptideAnno [] (u.main.getD []) else []
  let a1 := u.fusions.foldl (fun a r => addPeptideAnno a (r.getD [])) a0
  u.circs.foldl (fun a r => addPeptideAnno a (r.getD [])) a1

theorem addPeptideAnno_nil (a : PepMap) : addPeptideAnno a [] = a := rfl

theorem stepUnits_skip (a : PepMap) (f : Bool) (rs : List UnitRes) :
    stepUnits true (a, f) rs =
      some (rs.foldl (fun a r => addPeptideAnno a (r.getD [])) a, f && rs.all Option.isSome) := by
  induction rs generalizing a f with
  | nil => simp [stepUnits]
  | cons r rs ih =>
    cases r with
    | none => simp [stepUnits, stepUnit, ih, addPeptideAnno_nil]
    | some m => simp [stepUnits, stepUnit, ih]

/-- With `--skip-failed` the wrapper always completes, returns exactly the merged peptides of
the units that succeed, and its success flags say which kinds of unit failed. -/
theorem wrapper_skip (u : TxUnits) :
    wrapper true u = some ⟨annoOf u,
      (!u.hasMain || u.main.isSome, u.fusions.all Option.isSome, u.circs.all Option.isSome)⟩ := by
  unfold wrapper annoOf
  cases hm : u.hasMain <;> cases hmain : u.main <;>
    simp [stepUnit, stepUnits_skip, addPeptideAnno_nil]

/-- ISOLATION: with `--skip-failed`, the peptides and labels returned for a transcript in
which any subset of units fails are exactly those of the run in which those units yield
nothing — the other units' peptides are neither removed nor altered. -/
theorem skip_failed_isolation (u : TxUnits) :
    (wrapper true u).map (·.anno) = (wrapper true (heal u)).map (·.anno) := by
  rw [wrapper_skip, wrapper_skip]
  simp only [Option.map_some, Option.some.injEq]
  unfold annoOf heal healRes
  simp [List.foldl_map]

/-- with `--skip-failed` a transcript never aborts the run -/
theorem skip_never_aborts (u : TxUnits) : wrapper true u ≠ none := by
  rw [wrapper_skip]; simp

theorem stepUnits_noskip_none (a : PepMap) (f : Bool) (rs : List UnitRes) :
    stepUnits false (a, f) rs = none ↔ rs.any Option.isNone = true := by
  induction rs generalizing a f with
  | nil => simp [stepUnits]
  | cons r rs ih =>
    cases r with
    | none => simp [stepUnits, stepUnit]
    | some m => simp [stepUnits, stepUnit, ih]

theorem stepUnits_noskip_some (a : PepMap) (f : Bool) (rs : List UnitRes)
    (h : rs.any Option.isNone = false) :
    stepUnits false (a, f) rs = stepUnits true (a, f) rs := by
  induction rs generalizing a f with
  | nil => simp [stepUnits]
  | cons r rs ih =>
    cases r with
    | none => simp at h
    | some m =>
      simp only [List.any_cons, Option.isNone_some, Bool.false_or] at h
      simp [stepUnits, stepUnit, ih _ _ h]

theorem stepUnits_noskip_cases (a : PepMap) (f : Bool) (rs : List UnitRes) :
    (rs.any Option.isNone = true ∧ stepUnits false (a, f) rs = none) ∨
    (rs.any Option.isNone = false ∧ ∃ p, stepUnits false (a, f) rs = some p) := by
  cases h : rs.any Option.isNone
  · right
    refine ⟨rfl, ?_⟩
    cases h2 : stepUnits false (a, f) rs with
    | none => rw [(stepUnits_noskip_none a f rs).mp h2] at h; cases h
    | some p => exact ⟨p, rfl⟩
  · left; exact ⟨rfl, (stepUnits_noskip_none a f rs).mpr h⟩

/-- Without `--skip-failed` the wrapper raises exactly when some unit fails … -/
theorem no_skip_aborts (u : TxUnits) : wrapper false u = none ↔ hasFailure u = true := by
  unfold wrapper hasFailure
  have key : ∀ a0 : PepMap,
      (match stepUnits false (a0, true) u.fusions with
        | none => none
        | some (a1, f1) =>
          match stepUnits false (a1, true) u.circs with
          | none => (none : Option WrapOut)
          | some (a2, f2) => some { anno := a2, flags := (true, f1, f2) }) = none ↔
      (u.fusions.any Option.isNone || u.circs.any Option.isNone) = true := by
    intro a0
    rcases stepUnits_noskip_cases a0 true u.fusions with ⟨h1, h2⟩ | ⟨h1, ⟨a1, f1⟩, h2⟩
    · rw [h2, h1]; simp
    · rw [h2, h1]
      rcases stepUnits_noskip_cases a1 true u.circs with ⟨h3, h4⟩ | ⟨h3, ⟨a2, f2⟩, h4⟩
      · simp only [h4, h3]; simp
      · simp only [h4, h3]; simp
  cases hm : u.hasMain
  · simp only [Bool.false_and, Bool.false_or, if_false, Bool.false_eq_true]
    exact key []
  · cases hmain : u.main with
    | none => simp [stepUnit]
    | some m =>
      simp only [if_true, stepUnit, Option.isNone_some, Bool.and_false, Bool.false_or]
      exact key _

/-- … and otherwise returns what the `--skip-failed` run returns. -/
theorem no_skip_ok (u : TxUnits) (h : hasFailure u = false) : wrapper false u = wrapper true u := by
  unfold hasFailure at h
  simp only [Bool.or_eq_false_iff, Bool.and_eq_false_imp] at h
  obtain ⟨⟨hm, hf⟩, hc⟩ := h
  unfold wrapper
  have e0 : (if u.hasMain then stepUnit false ([], true) u.main else some ([], true)) =
      (if u.hasMain then stepUnit true ([], true) u.main else some ([], true)) := by
    cases hh : u.hasMain
    · simp
    · have := hm hh
      cases hmain : u.main with
      | none => simp [hmain] at this
      | some m => simp [stepUnit]
  rw [e0]
  cases (if u.hasMain then stepUnit true ([], true) u.main else some ([], true)) with
  | none => rfl
  | some p =>
    obtain ⟨a0, f0⟩ := p
    simp only [stepUnits_noskip_some _ _ _ hf]
    cases stepUnits true (a0, true) u.fusions with
    | none => rfl
    | some q =>
      obtain ⟨a1, f1⟩ := q
      simp only [stepUnits_noskip_some _ _ _ hc]

/-- ABORT: without `--skip-failed`, a failing unit in any dispatched transcript makes the
whole command fail: no table, hence no FASTA, is produced. -/
theorem processAll_aborts (c : Limits) (acc : Table × Tally) (us : List TxUnits)
    (h : us.any hasFailure = true) : processAll c false acc us = none := by
  induction us generalizing acc with
  | nil => simp at h
  | cons u us ih =>
    simp only [processAll]
    cases hu : hasFailure u with
    | true => rw [(no_skip_aborts u).mpr hu]
    | false =>
      simp only [List.any_cons, hu, Bool.false_or] at h
      cases hw : wrapper false u with
      | none => rfl
      | some w =>
        simp only []
        cases hp : processResult c acc w with
        | none => rfl
        | some acc' => exact ih acc' h

theorem run_no_skip_aborts (c : Limits) (threads : Nat) (g : List (Option TxUnits))
    (h : (g.filterMap id).any hasFailure = true) : runAll c false threads g = none := by
  have e : (dispatch threads g).flatten = g.filterMap id := by
    -- same statement as Props.C06.dispatch_covers; reproved here to keep the file self-contained
    have aux : ∀ (g : List (Option TxUnits)) (cur : List TxUnits), (g ≠ [] ∨ cur = []) →
        (dispatchGo threads g cur).flatten = cur ++ g.filterMap id := by
      intro g
      induction g with
      | nil =>
        intro cur h
        rcases h with h | h
        · exact absurd rfl h
        · subst h; simp [dispatchGo]
      | cons x rest ih =>
        intro cur _
        have aux2 : ∀ cur' : List TxUnits,
            (if ((decide (threads ≤ cur'.length) || rest.isEmpty) && !cur'.isEmpty) = true then
              cur' :: dispatchGo threads rest [] else dispatchGo threads rest cur').flatten
            = cur' ++ rest.filterMap id := by
          intro cur'
          split
          · rw [List.flatten_cons, ih [] (Or.inr rfl), List.nil_append]
          · rename_i hc
            apply ih
            simp only [Bool.and_eq_true, Bool.or_eq_true, decide_eq_true_eq, List.isEmpty_iff,
              Bool.not_eq_true', not_and, Bool.not_eq_false] at hc
            by_cases hr : rest = []
            · right
              have := hc (Or.inr hr)
              simpa using this
            · left; exact hr
        cases x with
        | none => simp only [dispatchGo]; rw [aux2]; simp
        | some d => simp only [dispatchGo]; rw [aux2]; simp
    simpa [dispatch] using aux g [] (Or.inr rfl)
  simp only [runAll, e, processAll_aborts c _ _ h]

/-- TALLY: with `--skip-failed`, each processed transcript adds to the three failure counters
exactly one per kind of unit that failed in it. -/
theorem tally_counts (c : Limits) (acc acc' : Table × Tally) (u : TxUnits)
    (h : processAll c true acc [u] = some acc') :
    acc'.2.failedVariant = acc.2.failedVariant + (if u.hasMain && u.main.isNone then 1 else 0) ∧
    acc'.2.failedFusion = acc.2.failedFusion + (if u.fusions.any Option.isNone then 1 else 0) ∧
    acc'.2.failedCirc = acc.2.failedCirc + (if u.circs.any Option.isNone then 1 else 0) := by
  simp only [processAll, wrapper_skip] at h
  simp only [processResult] at h
  cases hr : acc.1.addResult c (annoOf u) with
  | none => simp [hr] at h
  | some t =>
    simp only [hr, Option.some.injEq] at h
    subst h
    refine ⟨?_, ?_, ?_⟩
    · cases u.hasMain <;> cases u.main <;> simp
    · cases hf : u.fusions.any Option.isNone
      · have : u.fusions.all Option.isSome = true := by
          simp only [List.all_eq_true]; intro x hx
          simp only [List.any_eq_false] at hf
          have := hf x hx; cases x <;> simp_all
        simp [this]
      · have : u.fusions.all Option.isSome = false := by
          simp only [List.any_eq_true] at hf
          obtain ⟨x, hx, hn⟩ := hf
          simp only [List.all_eq_false]
          exact ⟨x, hx, by cases x <;> simp_all⟩
        simp [this]
    · cases hf : u.circs.any Option.isNone
      · have : u.circs.all Option.isSome = true := by
          simp only [List.all_eq_true]; intro x hx
          simp only [List.any_eq_false] at hf
          have := hf x hx; cases x <;> simp_all
        simp [this]
      · have : u.circs.all Option.isSome = false := by
          simp only [List.any_eq_true] at hf
          obtain ⟨x, hx, hn⟩ := hf
          simp only [List.all_eq_false]
          exact ⟨x, hx, by cases x <;> simp_all⟩
        simp [this]

/-! ### caller_reducer -/

/-- `additional_variants_per_misc` schedule after one more time-out -/
def nextAv (av : List Int) : List Int := if (av.drop 1).isEmpty then [0] else av.drop 1

/-- A retry uses the next value of the user's schedule while there is one … -/
theorem reducer_step_schedule (t : Nat → Bool) (fuel k : Nat) (mv av : List Int) (cur : Int × Int)
    (m : Int) (ms : List Int) (h : t k = true) (hmv : mv.drop 1 = m :: ms) :
    reducer t (fuel + 1) k mv av cur =
      reducer t fuel (k + 1) (m :: ms) (nextAv av) (m, (nextAv av).headD 0) := by
  simp only [reducer, h, hmv, nextAv]
  simp

/-- … and once the schedule is exhausted, `max_variants_per_node - 1` with
`additional_variants_per_misc` from its schedule or 0; when that would reach 0 the
transcript fails ("Failed to finish transcript") instead of being retried. -/
theorem reducer_step_decrement (t : Nat → Bool) (fuel k : Nat) (mv av : List Int)
    (cur : Int × Int) (h : t k = true) (hmv : mv.drop 1 = []) :
    reducer t (fuel + 1) k mv av cur =
      (if cur.1 - 1 ≤ 0 then none
       else reducer t fuel (k + 1) [cur.1 - 1] (nextAv av) (cur.1 - 1, (nextAv av).headD 0)) := by
  simp only [reducer, h, hmv, nextAv]
  by_cases h2 : cur.1 - 1 ≤ 0 <;> simp [h2]

/-- an attempt that does not time out is final and keeps the current limits -/
theorem reducer_done (t : Nat → Bool) (fuel k : Nat) (mv av : List Int) (cur : Int × Int)
    (h : t k = false) : reducer t (fuel + 1) k mv av cur = some cur := by
  simp [reducer, h]

/-- once the schedule is exhausted, `max_variants_per_node` strictly decreases with every
retry, so a transcript that always times out fails after at most `m` retries instead of
looping: with limit `m` the loop ends in `none` however much spare fuel it is given. -/
theorem reducer_always_timeout_fails (m : Nat) (k extra : Nat) (a : Int) (av : List Int) :
    reducer (fun _ => true) (m + 1 + extra) k [(m : Int)] av ((m : Int), a) = none := by
  induction m generalizing k a av extra with
  | zero =>
    have e : 0 + 1 + extra = extra + 1 := by omega
    rw [e, reducer_step_decrement _ _ _ _ _ _ rfl rfl]
    simp
  | succ n ih =>
    have e : n + 1 + 1 + extra = (n + 1 + extra) + 1 := by omega
    rw [e, reducer_step_decrement _ _ _ _ _ _ rfl rfl]
    by_cases hn : n = 0
    · subst hn; simp
    · have h2 : ¬ ((((n + 1 : Nat) : Int)) - 1 ≤ 0) := by omega
      simp only [h2, if_false]
      have e2 : (((n + 1 : Nat) : Int)) - 1 = (n : Int) := by omega
      rw [e2]
      exact ih (k + 1) extra _ _

/-! ### non-vacuity -/

example : hasFailure ⟨true, some [], [none], [some []]⟩ = true := by decide

example : (wrapper true ⟨true, some [(['A'], [1])], [none], [some [(['C'], [2])]]⟩).map (·.flags)
    = some (true, false, true) := by decide

end MoPepGen.Props.C07
