import MoPepGen.Props.C01
/-!
# C02 — soundness of callVariant  (PARTIAL: the graph construction is not modelled)

Proved for all inputs: membership in the oracle implies realizability in the sense of the
property, and the header-witness predicate that the harness evaluates on every real
(peptide, entry) pair implies realizability — so a real output whose entries pass the
Lean witness check is sound even on inputs too large to enumerate haplotypes.
The retry loop of `caller_reducer` only lowers limits (Props.C07 `reducer_*`).
Layer G: the language of the position automaton of the transcript variant graph is exactly
the language of the definition (`tvg_walk_iff`, `tvg_language_eq`, `tvgLang_is_automaton`).
Whether the real graph algorithm only emits members of the set is decided per input by
`harness/c02.py`.
-/
namespace MoPepGen.Props.C02
open MoPepGen MoPepGen.Spec MoPepGen.Props.C01

/-- S: `p` is realizable: some compatible combination of the supplied records, applied to the
transcript, gives a translation (from a permitted start) of which `p` is a digestion-product
form (Met-removed / Sec-terminated / W→F forms per the options) -/
def Realizable (g : Cfg) (t : TxIn) (vs : List Var) (p : Pep) : Prop :=
  ∃ h ∈ haplotypes t vs, ProductOf g t h p

/-- everything in the definition's set is realizable -/
theorem callVariant_sound (g : Cfg) (t : TxIn) (vs : List Var) (p : Pep)
    (h : p ∈ callVariant g t vs) : Realizable g t vs p :=
  ((spec_declarative g t vs p).mp h).1

/-- S: realizable by a combination in which adjacent same-class records are applied one after
the other (what a header entry naming both records describes) -/
def RealizableByRecords (g : Cfg) (t : TxIn) (vs : List Var) (ids : List Nat) (p : Pep) : Prop :=
  ∃ h : List Var, (∀ v ∈ h, ∃ w ∈ vs, usable t w = some v) ∧ separatedOrPaired h = true ∧
    (∀ v ∈ h, ∀ i ∈ v.ids, i ∈ ids) ∧ (∀ i ∈ ids, ∃ v ∈ h, i ∈ v.ids) ∧
    p ∈ peptidesOf g t (applyHap t.seq h) (secAfter t.sec h) t.endNF

theorem mem_sortByStart (l : List Var) (x : Var) : x ∈ sortByStart l ↔ x ∈ l := by
  have hins : ∀ (w : Var) (ws : List Var) (y : Var), y ∈ insertByStart w ws ↔ y = w ∨ y ∈ ws := by
    intro w ws
    induction ws with
    | nil => intro y; simp [insertByStart]
    | cons z zs ihz =>
      intro y
      simp only [insertByStart]
      split
      · simp
      · simp only [List.mem_cons, ihz]
        constructor
        · rintro (h | h | h)
          · exact Or.inr (Or.inl h)
          · exact Or.inl h
          · exact Or.inr (Or.inr h)
        · rintro (h | h | h)
          · exact Or.inr (Or.inl h)
          · exact Or.inl h
          · exact Or.inr (Or.inr h)
  induction l with
  | nil => simp [sortByStart]
  | cons a l ih =>
    show x ∈ insertByStart a (sortByStart l) ↔ x ∈ a :: l
    rw [hins, List.mem_cons]
    constructor
    · rintro (h | h)
      · exact Or.inl h
      · exact Or.inr (ih.mp h)
    · rintro (h | h)
      · exact Or.inl h
      · exact Or.inr (ih.mpr h)

/-- WITNESS ⇒ REALIZABLE: the checker the harness runs on every real header entry accepts only
true witnesses: the named records are usable input records, mutually compatible, exactly
the ones applied, and the peptide is a product form of the resulting transcript. -/
theorem witness_sound (g : Cfg) (t : TxIn) (vs : List Var) (ids : List Nat) (p : Pep)
    (h : witness g t vs ids p = true) : RealizableByRecords g t vs ids p := by
  simp only [witness, Bool.and_eq_true, List.all_eq_true, List.any_eq_true,
    List.contains_iff_mem] at h
  obtain ⟨⟨hcover, hsep⟩, hp⟩ := h
  refine ⟨_, ?_, hsep, ?_, ?_, hp⟩
  · intro v hv
    have hv' := (List.mem_filter.mp hv).1
    rw [mem_sortByStart] at hv'
    obtain ⟨w, hw, hu⟩ := List.mem_filterMap.mp hv'
    exact ⟨w, hw, hu⟩
  · intro v hv i hi
    have := (List.mem_filter.mp hv).2
    simp only [List.all_eq_true, List.contains_iff_mem] at this
    exact this i hi
  · intro i hi
    obtain ⟨v, hv, hiv⟩ := hcover i hi
    exact ⟨v, hv, by simpa using hiv⟩

/-! ## Layer G — refinement checkpoints inside the graph algorithm (soundness side) -/

open MoPepGen.Graph in
/-- CP1, soundness: whatever walk the position automaton of the transcript variant graph
admits — alt sequences attached between the reference node ending at `start` and the one
starting at `stop` — takes records of the pool that are ascending and strictly separated,
and emits exactly the transcript carrying them: the graph cannot denote a sequence that no
compatible combination yields. -/
theorem tvg_automaton_sound (seq : List Char) (pool : List Var) (w : List Char) (h : List Var)
    (hw : Walk seq pool 0 false w h) :
    (∀ v ∈ h, v ∈ pool) ∧ separated h = true ∧ w = applyHap seq h := by
  obtain ⟨h1, h2, h3⟩ := walk_sound seq pool 0 false w h hw
  exact ⟨h1, separated_of_sepFrom h 0 _ h2, by simpa [applyHap] using h3⟩

open MoPepGen.Graph in
/-- every path the driver enumerates on a dump is a maximal path of that graph -/
theorem paths_sound (g : Graph) (i : Nat) (p : List Nat) (hp : p ∈ paths g i) : MaxPath g i p :=
  pathsFrom_sound g _ i p hp

open MoPepGen.Graph in
/-- non-vacuity: the automaton of `ACGT` with the SNV `C→T` at 1 has the walk taking it -/
example : Walk "ACGT".toList
    [{ start := 1, stop := 2, ref := ['C'], alt := ['T'], cls := .snv, ids := [0] }] 0 false
    "ATGT".toList [{ start := 1, stop := 2, ref := ['C'], alt := ['T'], cls := .snv, ids := [0] }] := by
  apply Walk.ref (c := 'A') (by decide)
  apply Walk.var (v := { start := 1, stop := 2, ref := ['C'], alt := ['T'], cls := .snv, ids := [0] })
    (by simp) (by decide)
  apply Walk.ref (c := 'G') (by decide)
  apply Walk.ref (c := 'T') (by decide)
  exact Walk.done (by decide)

/-! non-vacuity: a concrete coding transcript with one SNV; the variant peptide is in the set -/
example : (haplotypes
    { seq := "ATGGCC".toList, coding := true, orfStart := 0, orfEnd := 6, startNF := false,
      endNF := false, sec := [] }
    [{ start := 3, stop := 4, ref := ['G'], alt := ['T'], cls := .snv, ids := [0] }]).length = 1 := by
  decide

/-! ## Layer G — the automaton's language IS the definition's language (CP1, both directions) -/

open MoPepGen.Graph in
/-- CP1 with the combination exposed: the position automaton has a walk taking exactly the
records `h` and emitting `w` iff `h` is a compatible combination of the definition (or empty:
the reference walk) and `w` is the transcript carrying it.  Hypothesis = what
`create_variant_graph`'s filter guarantees: records lie inside the transcript behind its first
base and have non-empty reference spans. -/
theorem tvg_walk_iff (t : TxIn) (vs : List Var) (w : List Char) (h : List Var)
    (hwf : ∀ v ∈ recordPool t vs, 0 < v.start ∧ v.start < v.stop ∧ v.stop ≤ t.seq.length) :
    Walk t.seq (recordPool t vs) 0 false w h ↔ h ∈ allHaps t vs ∧ w = applyHap t.seq h := by
  have hpos : ∀ v ∈ recordPool t vs, v.start ≤ v.stop := fun v hv => Nat.le_of_lt (hwf v hv).2.1
  constructor
  · intro hw
    obtain ⟨hmem, hsep, rfl⟩ := tvg_automaton_sound t.seq (recordPool t vs) w h hw
    refine ⟨?_, rfl⟩
    cases h with
    | nil => exact List.mem_cons_self
    | cons a rest =>
      exact List.mem_cons_of_mem _
        ((mem_haplotypes_iff t vs (a :: rest) hpos).mpr ⟨by simp, hsep, hmem⟩)
  · rintro ⟨hh, rfl⟩
    rcases List.mem_cons.mp hh with rfl | hh
    · have := walk_complete t.seq (recordPool t vs) t.seq.length 0 false [] (by omega)
        (by simp) trivial (by simp)
      simpa [applyHap] using this
    · exact tvg_automaton_complete t vs h hh hwf

open MoPepGen.Graph in
/-- CP1 as an equality of languages.  For a record pool whose records lie inside the transcript
behind its first base and have non-empty reference spans (what `create_variant_graph`'s filter
guarantees), the sequences accepted by the position automaton that `apply_variant` builds are
EXACTLY the sequences of the definition: the transcript carrying some compatible combination
of the pool (`haplotypes`, an executable enumeration), or no record at all (the reference
walk).  The right-hand side is the sequence component of `tvgLang t vs 0`
(`Props.C01.tvgLang_frame`), i.e. what the `G` stream compares the dumped graph with. -/
theorem tvg_language_eq (t : TxIn) (vs : List Var) (w : List Char)
    (hwf : ∀ v ∈ recordPool t vs, 0 < v.start ∧ v.start < v.stop ∧ v.stop ≤ t.seq.length) :
    (∃ h, Walk t.seq (recordPool t vs) 0 false w h) ↔
      w ∈ (allHaps t vs).map (applyHap t.seq) := by
  simp only [tvg_walk_iff t vs w _ hwf, List.mem_map]
  constructor
  · rintro ⟨h, hh, rfl⟩; exact ⟨h, hh, rfl⟩
  · rintro ⟨h, hh, rfl⟩; exact ⟨h, hh, rfl⟩

open MoPepGen.Graph in
/-- CP1 as an equality of languages, minimal hypotheses: `0 < v.start` is not an assumption —
every pool record starts behind the start codon (`Props.C01.recordPool_behind_start_codon`).
What remains is: non-empty reference span, inside the transcript. -/
theorem tvg_language_eq_of_spans (t : TxIn) (vs : List Var) (w : List Char)
    (hwf : ∀ v ∈ recordPool t vs, v.start < v.stop ∧ v.stop ≤ t.seq.length) :
    (∃ h, Walk t.seq (recordPool t vs) 0 false w h) ↔
      w ∈ (allHaps t vs).map (applyHap t.seq) :=
  tvg_language_eq t vs w fun v hv =>
    ⟨Nat.lt_of_lt_of_le (by decide) (recordPool_behind_start_codon t vs v hv).2, hwf v hv⟩

open MoPepGen.Graph in
/-- CP1's right-hand side, labels included, IS the automaton: a (sequence, record ids) pair is
in `tvgLang t vs f` — what the `G` stream compares the dumped frame-`f` graph with — iff some
walk of the position automaton emits a sequence whose cut at `f` is that sequence while
taking records with exactly those ids. -/
theorem tvgLang_is_automaton (t : TxIn) (vs : List Var) (f : Nat) (s : List Char) (ids : List Nat)
    (hwf : ∀ v ∈ recordPool t vs, v.start < v.stop ∧ v.stop ≤ t.seq.length) :
    (s, ids) ∈ tvgLang t vs f ↔
      ∃ w h, Walk t.seq (recordPool t vs) 0 false w h ∧ s = w.drop f ∧ ids = hapIds h := by
  have hwf' : ∀ v ∈ recordPool t vs, 0 < v.start ∧ v.start < v.stop ∧ v.stop ≤ t.seq.length :=
    fun v hv => ⟨Nat.lt_of_lt_of_le (by decide) (recordPool_behind_start_codon t vs v hv).2, hwf v hv⟩
  simp only [tvgLang, List.mem_map, Prod.mk.injEq]
  constructor
  · rintro ⟨h, hh, rfl, rfl⟩
    exact ⟨_, h, (tvg_walk_iff t vs _ h hwf').mpr ⟨hh, rfl⟩, rfl, rfl⟩
  · rintro ⟨w, h, hw, rfl, rfl⟩
    obtain ⟨hh, rfl⟩ := (tvg_walk_iff t vs w h hwf').mp hw
    exact ⟨h, hh, rfl, rfl⟩

/-! non-vacuity of `tvg_language_eq` / `tvg_walk_iff` / `tvg_language_eq_of_spans` /
`tvgLang_is_automaton`: the two-SNV transcript of `Props.C01` satisfies the hypotheses, and its
language has four members -/
example : ∀ v ∈ recordPool nvTx [nvB, nvA], 0 < v.start ∧ v.start < v.stop ∧ v.stop ≤ nvTx.seq.length := by
  decide

open MoPepGen.Graph in
example : (allHaps nvTx [nvB, nvA]).map (applyHap nvTx.seq) =
    ["ATGGCCAAATAG".toList, "ATGTCCAAATAG".toList, "ATGGCCACATAG".toList, "ATGTCCACATAG".toList] := by
  decide

open MoPepGen.Graph in
/-- the automaton of the example accepts the sequence carrying both SNVs (through the theorem) -/
example : ∃ h, Walk nvTx.seq (recordPool nvTx [nvB, nvA]) 0 false "ATGTCCACATAG".toList h :=
  (tvg_language_eq nvTx [nvB, nvA] _ (by decide)).mpr (by decide)

open MoPepGen.Graph in
/-- frame 1 of the example: the automaton has a walk with the labels of both records -/
example : ∃ w h, Walk nvTx.seq (recordPool nvTx [nvB, nvA]) 0 false w h ∧
    "TGTCCACATAG".toList = w.drop 1 ∧ [0, 1] = hapIds h :=
  (tvgLang_is_automaton nvTx [nvB, nvA] 1 _ _ (by decide)).mp (by decide)

open MoPepGen.Graph in
/-- … and no sequence outside the definition's language, e.g. one with an unsupplied change -/
example : ¬ ∃ h, Walk nvTx.seq (recordPool nvTx [nvB, nvA]) 0 false "ATGTCCACATAA".toList h := by
  rw [tvg_language_eq nvTx [nvB, nvA] _ (by decide)]; decide


end MoPepGen.Props.C02
