import MoPepGen.Spec.CallVariant
namespace MoPepGen.Props.C02
theorem placeholder : True := trivial
end MoPepGen.Props.C02
