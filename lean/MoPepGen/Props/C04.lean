import MoPepGen.Model.Pipeline
/-!
# C04 — output hygiene

For ANY per-unit results (the graph callers are data): every sequence that reaches the
callVariant table/FASTA passed `is_valid` (length window, minimum mass, not in the
canonical pool — which by C10 `pool_closed_iToL` also holds every I→L image), each sequence
is one FASTA record, and the table lists exactly the (sequence, header entry) pairs of the
FASTA.  Same for the pool filter used by callNovelORF / callAltTranslation.
"No X / stop symbol" and "row sub-sequence = stated slice" depend on what the graph callers
return and are checked directly on the real outputs by the harness.
-/
namespace MoPepGen.Props.C04
open MoPepGen MoPepGen.Pipe

/-- S: what `is_valid = true` means -/
theorem isValid_spec (c : Limits) (p : Pep) (h : isValid c p = some true) :
    ∃ w, molWeight c.tab c.water p = some w ∧ c.minMw ≤ w ∧
      c.minLen ≤ p.length ∧ p.length ≤ c.maxLen ∧ p ∉ c.canonical := by
  unfold isValid at h
  cases hw : molWeight c.tab c.water p with
  | none => simp [hw] at h
  | some w =>
    simp only [hw, Option.some.injEq, Bool.and_eq_true, Bool.not_eq_true', decide_eq_false_iff_not,
      Bool.or_eq_false_iff, List.contains_eq_mem, decide_eq_false_iff_not] at h
    refine ⟨w, rfl, by omega, by omega, by omega, ?_⟩
    simpa using h.2

/-- table invariant -/
structure TInv (c : Limits) (t : Table) : Prop where
  nodup : (t.index.map (·.1)).Nodup
  valid : ∀ s ∈ t.index.map (·.1), isValid c s = some true
  pairs : ∀ s l, (s, l) ∈ t.rows ↔ ∃ ls, (s, ls) ∈ t.index ∧ l ∈ ls

theorem indexAdd_keys (idx : List (Pep × List Label)) (s : Pep) (l : Label) (x : Pep) :
    x ∈ (indexAdd idx s l).map (·.1) ↔ x ∈ idx.map (·.1) ∨ x = s := by
  induction idx with
  | nil => simp [indexAdd]
  | cons e rest ih =>
    obtain ⟨t, ls⟩ := e
    simp only [indexAdd]
    split
    · rename_i h
      have : t = s := by simpa using h
      subst this
      simp only [List.map_cons, List.mem_cons]
      constructor
      · intro h; exact Or.inl h
      · rintro (h | h)
        · exact h
        · exact Or.inl h
    · simp only [List.map_cons, List.mem_cons, ih]
      constructor
      · rintro (h | h | h)
        · exact Or.inl (Or.inl h)
        · exact Or.inl (Or.inr h)
        · exact Or.inr h
      · rintro ((h | h) | h)
        · exact Or.inl h
        · exact Or.inr (Or.inl h)
        · exact Or.inr (Or.inr h)

theorem indexAdd_nodup (idx : List (Pep × List Label)) (s : Pep) (l : Label)
    (h : (idx.map (·.1)).Nodup) : ((indexAdd idx s l).map (·.1)).Nodup := by
  induction idx with
  | nil => simp [indexAdd]
  | cons e rest ih =>
    obtain ⟨t, ls⟩ := e
    simp only [List.map_cons, List.nodup_cons] at h
    simp only [indexAdd]
    split
    · simpa [List.nodup_cons] using h
    · rename_i hne
      simp only [List.map_cons, List.nodup_cons]
      refine ⟨?_, ih h.2⟩
      intro hm
      rcases (indexAdd_keys rest s l t).mp hm with hm | hm
      · exact h.1 hm
      · subst hm; simp at hne

theorem indexAdd_pairs (idx : List (Pep × List Label)) (s : Pep) (l : Label)
    (h : (idx.map (·.1)).Nodup) (x : Pep) (k : Label) :
    (∃ ls, (x, ls) ∈ indexAdd idx s l ∧ k ∈ ls) ↔
      (∃ ls, (x, ls) ∈ idx ∧ k ∈ ls) ∨ (x = s ∧ k = l) := by
  induction idx with
  | nil =>
    simp only [indexAdd, List.mem_singleton, Prod.mk.injEq, List.not_mem_nil, false_and,
      exists_false, false_or]
    constructor
    · rintro ⟨ls, ⟨rfl, rfl⟩, hk⟩
      simp at hk; exact ⟨rfl, hk⟩
    · rintro ⟨rfl, rfl⟩
      exact ⟨[k], ⟨rfl, rfl⟩, by simp⟩
  | cons e rest ih =>
    obtain ⟨t, ls0⟩ := e
    simp only [List.map_cons, List.nodup_cons] at h
    simp only [indexAdd]
    split
    · rename_i heq
      have : t = s := by simpa using heq
      subst this
      constructor
      · rintro ⟨ls, hm, hk⟩
        rcases List.mem_cons.mp hm with hm | hm
        · simp only [Prod.mk.injEq] at hm
          obtain ⟨rfl, rfl⟩ := hm
          rcases List.mem_append.mp hk with hk | hk
          · exact Or.inl ⟨ls0, by simp, hk⟩
          · simp at hk; exact Or.inr ⟨rfl, hk⟩
        · exact Or.inl ⟨ls, List.mem_cons_of_mem _ hm, hk⟩
      · rintro (⟨ls, hm, hk⟩ | ⟨rfl, rfl⟩)
        · rcases List.mem_cons.mp hm with hm | hm
          · simp only [Prod.mk.injEq] at hm
            obtain ⟨rfl, rfl⟩ := hm
            exact ⟨ls ++ [l], by simp, by simp [hk]⟩
          · exact ⟨ls, List.mem_cons_of_mem _ hm, hk⟩
        · exact ⟨ls0 ++ [k], by simp, by simp⟩
    · constructor
      · rintro ⟨ls, hm, hk⟩
        rcases List.mem_cons.mp hm with hm | hm
        · exact Or.inl ⟨ls, by rw [hm]; simp, hk⟩
        · rcases (ih h.2).mp ⟨ls, hm, hk⟩ with ⟨ls', hm', hk'⟩ | hr
          · exact Or.inl ⟨ls', List.mem_cons_of_mem _ hm', hk'⟩
          · exact Or.inr hr
      · rintro (⟨ls, hm, hk⟩ | hr)
        · rcases List.mem_cons.mp hm with hm | hm
          · exact ⟨ls, by rw [hm]; simp, hk⟩
          · obtain ⟨ls', hm', hk'⟩ := (ih h.2).mpr (Or.inl ⟨ls, hm, hk⟩)
            exact ⟨ls', List.mem_cons_of_mem _ hm', hk'⟩
        · obtain ⟨ls', hm', hk'⟩ := (ih h.2).mpr (Or.inr hr)
          exact ⟨ls', List.mem_cons_of_mem _ hm', hk'⟩

theorem add_inv (c : Limits) (t : Table) (s : Pep) (l : Label) (hv : isValid c s = some true)
    (h : TInv c t) : TInv c (t.add s l) := by
  refine ⟨indexAdd_nodup _ _ _ h.nodup, ?_, ?_⟩
  · intro x hx
    rcases (indexAdd_keys _ _ _ _).mp hx with hx | rfl
    · exact h.valid x hx
    · exact hv
  · intro x k
    simp only [Table.add, List.mem_append, List.mem_singleton, Prod.mk.injEq]
    rw [indexAdd_pairs _ _ _ h.nodup, h.pairs]

theorem foldAdd_inv (c : Limits) (s : Pep) (ls : List Label) (t : Table)
    (hv : isValid c s = some true) (h : TInv c t) :
    TInv c (ls.foldl (fun t l => t.add s l) t) := by
  induction ls generalizing t with
  | nil => exact h
  | cons l ls ih => exact ih _ (add_inv c t s l hv h)

theorem addResult_inv (c : Limits) (m : PepMap) (t t' : Table) (h : TInv c t)
    (hr : t.addResult c m = some t') : TInv c t' := by
  induction m generalizing t with
  | nil => simp [Table.addResult] at hr; subst hr; exact h
  | cons e rest ih =>
    obtain ⟨s, ls⟩ := e
    simp only [Table.addResult] at hr
    cases hv : isValid c s with
    | none => simp [hv] at hr
    | some b =>
      cases b
      · simp only [hv] at hr; exact ih t h hr
      · simp only [hv] at hr; exact ih _ (foldAdd_inv c s ls t hv h) hr

theorem processAll_inv (c : Limits) (skip : Bool) (us : List TxUnits) (acc acc' : Table × Tally)
    (h : TInv c acc.1) (hr : processAll c skip acc us = some acc') : TInv c acc'.1 := by
  induction us generalizing acc with
  | nil => simp [processAll] at hr; subst hr; exact h
  | cons u us ih =>
    simp only [processAll] at hr
    cases hw : wrapper skip u with
    | none => simp [hw] at hr
    | some w =>
      simp only [hw] at hr
      cases hp : processResult c acc w with
      | none => simp [hp] at hr
      | some acc1 =>
        simp only [hp] at hr
        refine ih acc1 ?_ hr
        unfold processResult at hp
        cases ha : acc.1.addResult c w.anno with
        | none => simp [ha] at hp
        | some t1 =>
          simp only [ha, Option.some.injEq] at hp
          subst hp
          exact addResult_inv c _ _ _ h ha

/-- Whatever the per-unit callers return, for every thread count and skip setting, the table
a completed run produces satisfies the invariant. -/
theorem run_inv (c : Limits) (skip : Bool) (threads : Nat) (g : List (Option TxUnits))
    (t : Table) (ty : Tally) (h : runAll c skip threads g = some (t, ty)) : TInv c t := by
  unfold runAll at h
  cases hp : processAll c skip ({ rows := [], index := [] }, {}) (dispatch threads g).flatten with
  | none => simp [hp] at h
  | some acc =>
    obtain ⟨t0, ty0⟩ := acc
    simp only [hp, Option.some.injEq, Prod.mk.injEq] at h
    obtain ⟨rfl, _⟩ := h
    exact processAll_inv c skip _ _ _ ⟨by simp, by simp, by simp⟩ hp

/-- HYGIENE: every sequence written to the callVariant FASTA is within the length window,
not lighter than `min_mw`, and not in the canonical pool. -/
theorem final_valid (c : Limits) (skip : Bool) (threads : Nat) (g : List (Option TxUnits))
    (t : Table) (ty : Tally) (h : runAll c skip threads g = some (t, ty)) (s : Pep)
    (hs : s ∈ t.fasta.map (·.1)) :
    ∃ w, molWeight c.tab c.water s = some w ∧ c.minMw ≤ w ∧
      c.minLen ≤ s.length ∧ s.length ≤ c.maxLen ∧ s ∉ c.canonical := by
  have inv := run_inv c skip threads g t ty h
  apply isValid_spec
  apply inv.valid
  simpa [Table.fasta, List.map_map] using hs

/-- each sequence occurs exactly once in the FASTA -/
theorem fasta_unique (c : Limits) (skip : Bool) (threads : Nat) (g : List (Option TxUnits))
    (t : Table) (ty : Tally) (h : runAll c skip threads g = some (t, ty)) :
    (t.fasta.map (·.1)).Nodup := by
  have inv := run_inv c skip threads g t ty h
  have : t.fasta.map (·.1) = t.index.map (·.1) := by
    simp [Table.fasta, List.map_map, Function.comp_def]
  rw [this]; exact inv.nodup

/-- the table lists exactly the (sequence, header entry) pairs of the FASTA -/
theorem table_fasta_same_pairs (c : Limits) (skip : Bool) (threads : Nat)
    (g : List (Option TxUnits)) (t : Table) (ty : Tally)
    (h : runAll c skip threads g = some (t, ty)) (s : Pep) (l : Label) :
    (s, l) ∈ t.rows ↔ ∃ ls, (s, ls) ∈ t.fasta ∧ l ∈ ls := by
  have inv := run_inv c skip threads g t ty h
  rw [inv.pairs]
  simp only [Table.fasta, List.mem_map, Prod.mk.injEq]
  constructor
  · rintro ⟨ls, hm, hl⟩
    exact ⟨ls.eraseDups, ⟨(s, ls), hm, rfl, rfl⟩, by simpa using hl⟩
  · rintro ⟨ls, ⟨⟨s', ls'⟩, hm, rfl, rfl⟩, hl⟩
    exact ⟨ls', hm, by simpa using hl⟩

/-! ### pool filter of callNovelORF / callAltTranslation -/

theorem poolAddAll_valid (c : Limits) (adds : List (Pep × Label))
    (pool pool' : List (Pep × List Label))
    (hn : (pool.map (·.1)).Nodup) (hv : ∀ s ∈ pool.map (·.1), isValid c s = some true)
    (h : poolAddAll c pool adds = some pool') :
    (pool'.map (·.1)).Nodup ∧ ∀ s ∈ pool'.map (·.1), isValid c s = some true := by
  induction adds generalizing pool with
  | nil => simp [poolAddAll] at h; subst h; exact ⟨hn, hv⟩
  | cons e rest ih =>
    obtain ⟨s, l⟩ := e
    simp only [poolAddAll, poolAdd] at h
    cases hs : isValid c s with
    | none => simp [hs] at h
    | some b =>
      cases b
      · simp only [hs] at h; exact ih pool hn hv h
      · simp only [hs] at h
        refine ih _ (indexAdd_nodup _ _ _ hn) ?_ h
        intro x hx
        rcases (indexAdd_keys _ _ _ _).mp hx with hx | rfl
        · exact hv x hx
        · exact hs

/-- every sequence in the pool written by callNovelORF / callAltTranslation is within the
limits and non-canonical, and occurs once -/
theorem pool_add_valid (c : Limits) (adds : List (Pep × Label)) (pool : List (Pep × List Label))
    (h : poolAddAll c [] adds = some pool) :
    (pool.map (·.1)).Nodup ∧ ∀ s ∈ pool.map (·.1),
      ∃ w, molWeight c.tab c.water s = some w ∧ c.minMw ≤ w ∧
        c.minLen ≤ s.length ∧ s.length ≤ c.maxLen ∧ s ∉ c.canonical := by
  have := poolAddAll_valid c adds [] pool (by simp) (by simp) h
  exact ⟨this.1, fun s hs => isValid_spec c s (this.2 s hs)⟩

end MoPepGen.Props.C04
