import MoPepGen.Props.C02
import MoPepGen.Generated.Expasy
import MoPepGen.Generated.Weights
/-!
# C05 — options and inputs act monotonically  (PARTIAL for the real command)

Theorems on the definitional layer `Spec.callVariant` (all inputs):
* adding records only adds peptides, and every added peptide needs a combination that uses an
  added record (`callVariant_mono_records`, `added_uses_new_combination`) — full statement;
* relaxing a limit / enabling SECT or W2F only adds PRODUCT FORMS (`peptidesOf_mono`);
  for the reported set this gives `callVariant_mono_limits_partial`: a peptide reported under
  the stricter setting is still reported under the relaxed one UNLESS it became a product of
  the unmodified transcript or canonical under the relaxed setting.  The unconditional
  statement of the property is FALSE for the definition: `relaxing_misc_can_remove` is a
  concrete counter-example (an exception context makes the same string a 0-miscleavage
  product of the variant transcript and a 1-miscleavage product of the reference);
* every peptide gained by relaxing is not a product form under the stricter setting
  (`added_outside_stricter`).
The real command is tied to this by paired real runs (`harness/c05.py`).
-/
namespace MoPepGen.Props.C05
open MoPepGen MoPepGen.Spec MoPepGen.Props.C01 MoPepGen.Props.C02

/-! ### records -/

/-- Adding GVF records can only add peptides. -/
theorem callVariant_mono_records (g : Cfg) (t : TxIn) {vs vs' : List Var} (h : vs.Sublist vs')
    (p : Pep) (hp : p ∈ callVariant g t vs) : p ∈ callVariant g t vs' := by
  rw [spec_declarative] at hp ⊢
  obtain ⟨⟨hh, hm, hprod⟩, hr, hc⟩ := hp
  exact ⟨⟨hh, haplotypes_mono t h hh hm, hprod⟩, hr, hc⟩

/-- Every peptide gained by adding records is produced by a combination that was not
available before (it uses an added record). -/
theorem added_uses_new_combination (g : Cfg) (t : TxIn) (vs vs' : List Var) (p : Pep)
    (hp : p ∈ callVariant g t vs') (hn : p ∉ callVariant g t vs) :
    ∃ h ∈ haplotypes t vs', h ∉ haplotypes t vs ∧ ProductOf g t h p := by
  rw [spec_declarative] at hp hn
  obtain ⟨⟨h, hm, hprod⟩, hr, hc⟩ := hp
  refine ⟨h, hm, ?_, hprod⟩
  intro hold
  exact hn ⟨⟨h, hold, hprod⟩, hr, hc⟩

/-! ### limits and alt-translation flags -/

/-- `g'` is at least as permissive as `g` -/
structure Relaxed (g g' : Cfg) : Prop where
  cleave : MiscLe g.cleave g'.cleave
  tab : g'.cleave.tab = g.cleave.tab
  water : g'.cleave.water = g.cleave.water
  minLen : g'.cleave.minLen ≤ g.cleave.minLen
  maxLen : g.cleave.maxLen ≤ g'.cleave.maxLen
  minMw : g'.cleave.minMw ≤ g.cleave.minMw
  sect : g.sect = true → g'.sect = true
  w2f : g.w2f = true → g'.w2f = true

theorem pepOk_mono {g g' : Cfg} (h : Relaxed g g') (p : Pep) (hp : pepOk g.cleave p = true) :
    pepOk g'.cleave p = true := by
  simp only [pepOk, massOk, Bool.and_eq_true, decide_eq_true_eq] at hp ⊢
  rw [h.tab, h.water]
  obtain ⟨⟨h1, h2⟩, h3⟩ := hp
  refine ⟨⟨by have := h.minLen; omega, by have := h.maxLen; omega⟩, ?_⟩
  cases hw : molWeight g.cleave.tab g.cleave.water p with
  | none => simp [hw] at h3
  | some w =>
    simp only [hw, decide_eq_true_eq] at h3 ⊢
    have := h.minMw
    omega

/-- relaxing only adds product forms of one protein -/
theorem productForms_mono {g g' : Cfg} (h : Relaxed g g') (prot : Pep) (nf closed endNF : Bool)
    (p : Pep) (hp : p ∈ productForms g prot nf closed endNF) :
    p ∈ productForms g' prot nf closed endNF := by
  simp only [productForms, List.mem_filter] at hp ⊢
  obtain ⟨hmem, hok⟩ := hp
  refine ⟨?_, pepOk_mono h p hok⟩
  have hraw : ∀ q d, q ∈ rawProducts g.cleave prot nf d → q ∈ rawProducts g'.cleave prot nf d :=
    fun q d hq => rawProducts_mono_misc h.cleave prot nf d q hq
  -- membership in `base`
  have hbase : ∀ q, q ∈ (rawProducts g.cleave prot nf (endNF && !closed) ++
        (if g.sect = true then (rawProducts g.cleave prot nf (endNF && !closed)).flatMap sectForms
          else [])) →
      q ∈ (rawProducts g'.cleave prot nf (endNF && !closed) ++
        (if g'.sect = true then (rawProducts g'.cleave prot nf (endNF && !closed)).flatMap sectForms
          else [])) := by
    intro q hq
    rcases List.mem_append.mp hq with hq | hq
    · exact List.mem_append_left _ (hraw q _ hq)
    · by_cases hs : g.sect = true
      · rw [if_pos hs] at hq
        rw [if_pos (h.sect hs)]
        obtain ⟨r, hr, hq⟩ := List.mem_flatMap.mp hq
        exact List.mem_append_right _ (List.mem_flatMap.mpr ⟨r, hraw r _ hr, hq⟩)
      · rw [if_neg hs] at hq; cases hq
  by_cases hw : g.w2f = true
  · rw [if_pos hw] at hmem
    rw [if_pos (h.w2f hw)]
    rcases List.mem_append.mp hmem with hm | hm
    · exact List.mem_append_left _ (hbase p hm)
    · obtain ⟨r, hr, hq⟩ := List.mem_flatMap.mp hm
      exact List.mem_append_right _ (List.mem_flatMap.mpr ⟨r, hbase r hr, hq⟩)
  · rw [if_neg hw] at hmem
    by_cases hw' : g'.w2f = true
    · rw [if_pos hw']; exact List.mem_append_left _ (hbase p hmem)
    · rw [if_neg hw']; exact hbase p hmem

/-- relaxing a limit, or enabling Sec termination / W→F, only adds product forms -/
theorem peptidesOf_mono {g g' : Cfg} (h : Relaxed g g') (t : TxIn) (seq : List Char)
    (sec : List Nat) (endNF : Bool) (p : Pep) (hp : p ∈ peptidesOf g t seq sec endNF) :
    p ∈ peptidesOf g' t seq sec endNF := by
  simp only [peptidesOf, List.mem_flatMap] at hp ⊢
  obtain ⟨s, hs, hp⟩ := hp
  exact ⟨s, hs, productForms_mono h _ _ _ _ p hp⟩

/-- the products of the unmodified transcript grow too -/
theorem reference_mono {g g' : Cfg} (h : Relaxed g g') (t : TxIn) (p : Pep)
    (hp : p ∈ referencePeptides g t) : p ∈ referencePeptides g' t :=
  peptidesOf_mono h t _ _ _ p hp

/-- MONOTONE UP TO THE EXCLUSIONS: a peptide reported under the stricter setting is reported
under the relaxed one unless it is now a product of the unmodified transcript or canonical. -/
theorem callVariant_mono_limits_partial {g g' : Cfg} (h : Relaxed g g') (t : TxIn)
    (vs : List Var) (p : Pep) (hp : p ∈ callVariant g t vs)
    (hr : p ∉ referencePeptides g' t) (hc : p ∉ g'.canonical) : p ∈ callVariant g' t vs := by
  rw [spec_declarative] at hp ⊢
  obtain ⟨⟨hh, hm, hprod⟩, _, _⟩ := hp
  exact ⟨⟨hh, hm, peptidesOf_mono h t _ _ _ p hprod⟩, hr, hc⟩

/-- ATTRIBUTION: a peptide gained by relaxing is not a product form of any variant combination
under the stricter setting (it lies outside the stricter limit, or needs the enabled form),
provided the canonical pool only grew. -/
theorem added_outside_stricter {g g' : Cfg} (h : Relaxed g g') (t : TxIn) (vs : List Var)
    (hcanon : ∀ q, q ∈ g.canonical → q ∈ g'.canonical) (p : Pep)
    (hp : p ∈ callVariant g' t vs) (hn : p ∉ callVariant g t vs) :
    ¬ Realizable g t vs p := by
  rw [spec_declarative] at hp hn
  obtain ⟨_, hr', hc'⟩ := hp
  intro hreal
  apply hn
  refine ⟨hreal, ?_, ?_⟩
  · intro hr; exact hr' (reference_mono h t p hr)
  · intro hc; exact hc' (hcanon p hc)

/-! ### the unconditional statement fails for the definition -/

def tryp : Re := (Generated.expasyRules.lookup "trypsin").getD []
def trypExc : Re := (Generated.expasyRules.lookup "trypsin_exception").getD []
def exCfg (m : Nat) : Cfg :=
  { cleave := { rule := tryp, exc := some trypExc, misc := m, minMw := 0, minLen := 7, maxLen := 25,
                tab := Generated.proteinWeights, water := Generated.waterWeight },
    sect := false, w2f := false, canonical := [] }
/-- M G A A K R H A A A A A A K G G * ; the record turns the K codon AAG into AGG (R) -/
def exTx : TxIn :=
  { seq := "ATGGGTGCTGCTAAGCGTCATGCTGCTGCTGCTGCTGCTAAGGGTGGTTAA".toList, coding := true,
    orfStart := 0, orfEnd := 48, startNF := false, endNF := false, sec := [] }
def exVar : Var := { start := 13, stop := 14, ref := ['A'], alt := ['G'], cls := .snv, ids := [0] }

/-- Relaxing `--miscleavage` from 0 to 1 REMOVES a peptide of the definition's set:
`RHAAAAAAK` is a 0-miscleavage product of the variant transcript (`…AAR|RHAAAAAAK|…`: the
trypsin exception `(?<=R)R(?=[HR])` protects the second R) and a 1-miscleavage product of the
reference (`…AAK|R|HAAAAAAK|…`), hence excluded once one miscleavage is allowed. -/
theorem relaxing_misc_can_remove :
    "RHAAAAAAK".toList ∈ callVariant (exCfg 0) exTx [exVar] ∧
      "RHAAAAAAK".toList ∉ callVariant (exCfg 1) exTx [exVar] := by decide

/-- **What the compiled driver evaluates is the definition.**  The native driver runs
`productFormsFast` (W→F images only of products within `maxLen`) wherever `productForms` occurs
(`@[csimp]` in `Spec/CallVariant.lean`); the two are equal for every configuration, protein and
flag combination — as lists, in the same order. -/
theorem productForms_compiled_eq (g : Cfg) (prot : Pep) (nf closed endNF : Bool) :
    productForms g prot nf closed endNF = productFormsFast g prot nf closed endNF :=
  productForms_eq_fast' g prot nf closed endNF

/-- non-vacuity: with W→F on and `maxLen := 25` the 30-residue product keeps no image, the short
one keeps its image -/
example : productForms { exCfg 0 with w2f := true } "AWAAAAAAKWAAAAAAAAAAAAAAAAAAAAAAAAAAAAAR".toList false true false
    = ["AWAAAAAAK".toList, "AFAAAAAAK".toList] := by decide

end MoPepGen.Props.C05
