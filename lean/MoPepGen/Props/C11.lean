import MoPepGen.Lemmas.Coord
import MoPepGen.Lemmas.Seq
import MoPepGen.Lemmas.Cache
import MoPepGen.Lemmas.Gtf
import MoPepGen.Lemmas.GtfClosed
/-!
# C11 — reference model: coordinates and sequences are mutually consistent

Property theorems only.  The functions are the models of the Python in
`Model/Coord.lean` / `Model/Cache.lean` (tied to /repo by the correspondence streams of
`harness/c11.py`).  All theorems hold for arbitrary exon lists, positions and both strands;
the only hypotheses are the decidable well-formedness predicates `Transcript.WF`, `Gene.WF`,
`OnChrom`, `Transcript.Covers`.
-/
namespace MoPepGen.Props.C11
open MoPepGen

/-! ## well-formedness is inhabited (non-vacuity) -/

/-- a 3-exon minus-strand transcript inside a gene -/
def exTx : Transcript := { strand := .minus, exons := [⟨10, 20⟩, ⟨25, 31⟩, ⟨40, 52⟩] }
def exGene : Gene := { strand := .minus, loc := ⟨5, 60⟩ }
example : exTx.WF := by decide
example : exGene.WF := by decide
example : exTx.Within exGene := by decide
example : exTx.Covers [⟨15, 20⟩, ⟨25, 31⟩, ⟨40, 47⟩] := by decide
example : txIndex exTx 51 = .ok 0 := by decide
example : txIndex exTx 30 = .ok 12 := by decide
example : txIndex exTx 10 = .ok 27 := by decide
example : txIndex exTx 31 = .error .intron := by decide
example : txIndex exTx 52 = .error .outOfRange := by decide
example : txToGenomic exTx 12 = .ok 30 := by decide
example : txToGenomic exTx 28 = .error .outOfRange := by decide

/-! ## gene ↔ genomic -/

/-- genomic → gene is defined exactly on the gene interval, lands in `[0, len)`, and
`gene_to_genomic` maps the result back to the position (both strands). -/
theorem gene_genomic_inverse (g : Gene) (p : Nat) (h : g.loc.start ≤ p ∧ p < g.loc.stop) :
    ∃ i, genomicToGene g p = .ok i ∧ i < g.len ∧ geneToGenomic g i = (p : Int) := by
  unfold genomicToGene geneToGenomic Gene.len Iv.len
  rw [if_pos h]
  cases g.strand
  · exact ⟨_, rfl, by omega, by simp only; omega⟩
  · exact ⟨_, rfl, by omega, by simp only; omega⟩

/-- positions outside the gene are rejected (`reject:out-of-range`), never mapped -/
theorem genomicToGene_rejects (g : Gene) (p : Nat) (h : ¬ (g.loc.start ≤ p ∧ p < g.loc.stop)) :
    genomicToGene g p = .error .outOfRange := by
  unfold genomicToGene; rw [if_neg h]

/-- gene → genomic lands inside the gene for `i < len` and `genomic_to_gene` maps it back -/
theorem genomic_gene_inverse (g : Gene) (i : Nat) (h : i < g.len) :
    ∃ p : Nat, geneToGenomic g i = (p : Int) ∧ g.loc.start ≤ p ∧ p < g.loc.stop ∧
      genomicToGene g p = .ok i := by
  unfold Gene.len Iv.len at h
  unfold genomicToGene geneToGenomic
  cases hs : g.strand
  · refine ⟨g.loc.start + i, by simp, by omega, by omega, ?_⟩
    rw [if_pos (by omega)]; simp only; congr 1; omega
  · refine ⟨g.loc.stop - 1 - i, by simp only; omega, by omega, by omega, ?_⟩
    rw [if_pos (by omega)]; simp only; congr 1; omega

/-- `coordinate_gene_to_genomic` performs no range check: for `i ≥ len` it returns a position
outside the gene (which `genomic_to_gene` then rejects) -/
theorem geneToGenomic_outside (g : Gene) (i : Nat) (h : g.len ≤ i) :
    ¬ ((g.loc.start : Int) ≤ geneToGenomic g i ∧ geneToGenomic g i < g.loc.stop) := by
  unfold Gene.len Iv.len at h
  unfold geneToGenomic
  cases g.strand <;> simp only <;> omega

/-! ## transcript ↔ genomic -/

/-- genomic → transcript → genomic: whenever `get_transcript_index` returns `k`, `k` is a
valid transcript index, `coordinate_transcript_to_genomic k` is the original position, and
the position is exonic. -/
theorem txToGenomic_txIndex (t : Transcript) (hw : t.WF) (p k : Nat)
    (h : txIndex t p = .ok k) :
    k < t.len ∧ txToGenomic t k = .ok p ∧ isExonic t p = true := by
  obtain ⟨first, last, hf, hl, hfm, hlm, hlo, hhi⟩ := hw.span
  have hasc : AscWF t.exons := ⟨hw.2.1, hw.2.2⟩
  unfold txIndex at h
  rw [hf, hl] at h
  simp only at h
  by_cases hr : p < first.start ∨ p ≥ last.stop
  · rw [if_pos hr] at h; cases h
  · rw [if_neg hr] at h
    unfold txToGenomic Transcript.len
    cases hs : t.strand
    · rw [hs] at h; simp only at h
      obtain ⟨_, hg, hx⟩ := toGenomicPlus_txIndexPlus hasc ⟨last, hlm, by omega⟩ h
      simp only [Nat.sub_zero] at hg
      have hk : k < exonsLen t.exons := by
        by_cases hk : k < exonsLen t.exons
        · exact hk
        · rw [toGenomicPlus_oor (by omega)] at hg; cases hg
      refine ⟨hk, ?_, isExonic_iff.mpr hx⟩
      rw [if_neg (by omega)]; exact hg
    · rw [hs] at h; simp only at h
      obtain ⟨_, hg, hx⟩ := toGenomicMinus_txIndexMinus hasc.reverse
        ⟨first, List.mem_reverse.mpr hfm, by omega⟩ h
      simp only [Nat.sub_zero] at hg
      have hk : k < exonsLen t.exons := by
        by_cases hk : k < exonsLen t.exons
        · exact hk
        · rw [toGenomicMinus_oor (by rw [exonsLen_reverse]; omega)] at hg; cases hg
      refine ⟨hk, ?_, isExonic_iff.mpr ?_⟩
      · rw [if_neg (by omega)]; exact hg
      · obtain ⟨e, he, hb⟩ := hx; exact ⟨e, List.mem_reverse.mp he, hb⟩

/-- transcript → genomic → transcript: every index `i < len` maps to an exonic position
whose transcript index is `i` again. -/
theorem txIndex_txToGenomic (t : Transcript) (hw : t.WF) (i : Nat) (h : i < t.len) :
    ∃ p, txToGenomic t i = .ok p ∧ isExonic t p = true ∧ txIndex t p = .ok i := by
  obtain ⟨first, last, hf, hl, hfm, hlm, hlo, hhi⟩ := hw.span
  have hasc : AscWF t.exons := ⟨hw.2.1, hw.2.2⟩
  unfold Transcript.len at h
  unfold txToGenomic txIndex Transcript.len
  rw [if_neg (by omega), hf, hl]
  simp only
  cases hs : t.strand
  · simp only
    obtain ⟨p, hp, e, he, hb⟩ := toGenomicPlus_ok h
    refine ⟨p, hp, isExonic_iff.mpr ⟨e, he, hb⟩, ?_⟩
    have h1 := hlo e he; have h2 := hhi e he
    rw [if_neg (by omega)]
    have := txIndexPlus_toGenomicPlus hasc 0 hp
    simpa using this
  · simp only
    obtain ⟨p, hp, e, he, hb⟩ := toGenomicMinus_ok (es := t.exons.reverse)
      (by rw [exonsLen_reverse]; exact h)
    have he' := List.mem_reverse.mp he
    refine ⟨p, hp, isExonic_iff.mpr ⟨e, he', hb⟩, ?_⟩
    have h1 := hlo e he'; have h2 := hhi e he'
    rw [if_neg (by omega)]
    have := txIndexMinus_toGenomicMinus hasc.reverse 0 hp
    simpa using this

/-- indices at or beyond the transcript length are rejected (no well-formedness needed) -/
theorem txToGenomic_rejects (t : Transcript) (i : Nat) (h : t.len ≤ i) :
    txToGenomic t i = .error .outOfRange := by
  unfold txToGenomic
  by_cases h1 : t.len < i
  · rw [if_pos h1]
  · rw [if_neg h1]
    unfold Transcript.len at h
    cases t.strand
    · exact toGenomicPlus_oor h
    · exact toGenomicMinus_oor (by rw [exonsLen_reverse]; exact h)

/-- every exonic position is mapped -/
theorem txIndex_exonic (t : Transcript) (hw : t.WF) (p : Nat) (hx : isExonic t p = true) :
    ∃ k, txIndex t p = .ok k := by
  obtain ⟨first, last, hf, hl, hfm, hlm, hlo, hhi⟩ := hw.span
  have hasc : AscWF t.exons := ⟨hw.2.1, hw.2.2⟩
  obtain ⟨e, he, hb⟩ := isExonic_iff.mp hx
  have h1 := hlo e he; have h2 := hhi e he
  unfold txIndex
  rw [hf, hl]; simp only
  rw [if_neg (by omega)]
  cases t.strand
  · exact txIndexPlus_exonic hasc 0 ⟨e, he, hb⟩
  · exact txIndexMinus_exonic hasc.reverse 0 ⟨e, List.mem_reverse.mpr he, hb⟩

/-- intronic positions (inside the transcript span, in no exon) are rejected with
`reject:intron` — never mapped -/
theorem txIndex_intron (t : Transcript) (hw : t.WF) (p : Nat)
    (hspan : t.spanStart ≤ p ∧ p < t.spanStop) (hx : isExonic t p = false) :
    txIndex t p = .error .intron := by
  obtain ⟨first, last, hf, hl, hfm, hlm, hlo, hhi⟩ := hw.span
  have hasc : AscWF t.exons := ⟨hw.2.1, hw.2.2⟩
  unfold Transcript.spanStart Transcript.spanStop at hspan
  rw [hf, hl] at hspan; simp only at hspan
  have hn : ∀ e ∈ t.exons, ¬ (e.start ≤ p ∧ p < e.stop) := by
    intro e he hb
    have := isExonic_iff.mpr ⟨e, he, hb⟩
    rw [hx] at this; cases this
  unfold txIndex
  rw [hf, hl]; simp only
  rw [if_neg (by omega)]
  cases t.strand
  · exact txIndexPlus_intron hasc ⟨last, hlm, by omega⟩ hn
  · exact txIndexMinus_intron hasc.reverse ⟨first, List.mem_reverse.mpr hfm, by omega⟩
      (fun e he => hn e (List.mem_reverse.mp he))

/-- positions outside the transcript span are rejected with `reject:out-of-range` -/
theorem txIndex_outOfRange (t : Transcript) (hw : t.WF) (p : Nat)
    (hspan : p < t.spanStart ∨ t.spanStop ≤ p) : txIndex t p = .error .outOfRange := by
  obtain ⟨first, last, hf, hl, _⟩ := hw.span
  unfold Transcript.spanStart Transcript.spanStop at hspan
  rw [hf, hl] at hspan; simp only at hspan
  unfold txIndex
  rw [hf, hl]; simp only
  rw [if_pos (by omega)]

/-- `get_transcript_index` is defined exactly on the exonic positions -/
theorem txIndex_ok_iff_exonic (t : Transcript) (hw : t.WF) (p : Nat) :
    (∃ k, txIndex t p = .ok k) ↔ isExonic t p = true :=
  ⟨fun ⟨k, h⟩ => (txToGenomic_txIndex t hw p k h).2.2, txIndex_exonic t hw p⟩

/-! ## sequences -/

/-- The transcript sequence has length `transcript_len` and, at every transcript index `k`,
holds the strand-corrected chromosome base at the genomic position `k` maps to
(complemented on the minus strand).  No sortedness is needed — only that every exon lies
on the chromosome (Python slicing would silently truncate otherwise). -/
theorem txSeq_pointwise (chrom : List Char) (t : Transcript) (hne : t.exons ≠ [])
    (hc : OnChrom chrom.length t.exons) :
    ∃ s, txSeq chrom t = .ok s ∧ s.length = t.len ∧
      ∀ k p, txToGenomic t k = .ok p →
        ∃ c, chrom[p]? = some c ∧ s[k]? = some (strandBase t.strand c) := by
  unfold txSeq txToGenomic Transcript.len
  rw [if_neg hne]
  cases hs : t.strand
  · refine ⟨_, rfl, exonConcat_length hc, ?_⟩
    intro k p h
    by_cases hk : exonsLen t.exons < k
    · rw [if_pos hk] at h; cases h
    · rw [if_neg hk] at h; simp only at h
      have hlt : k < exonsLen t.exons := by
        by_cases hl : k < exonsLen t.exons
        · exact hl
        · rw [toGenomicPlus_oor (by omega)] at h; cases h
      obtain ⟨p', hp', e, he, hb⟩ := toGenomicPlus_ok hlt
      rw [hp'] at h; cases h
      have hpl : p < chrom.length := by have := hc e he; omega
      refine ⟨chrom[p], by simp [hpl], ?_⟩
      rw [exonConcat_getElem? hc hp']; simp [hpl, strandBase]
  · refine ⟨_, rfl, by rw [revComp_length]; exact exonConcat_length hc, ?_⟩
    intro k p h
    have hc' : OnChrom chrom.length t.exons.reverse := fun x hx => hc x (List.mem_reverse.mp hx)
    by_cases hk : exonsLen t.exons < k
    · rw [if_pos hk] at h; cases h
    · rw [if_neg hk] at h; simp only at h
      have hlt : k < exonsLen t.exons.reverse := by
        by_cases hl : k < exonsLen t.exons.reverse
        · exact hl
        · rw [toGenomicMinus_oor (by omega)] at h; cases h
      obtain ⟨p', hp', e, he, hb⟩ := toGenomicMinus_ok hlt
      rw [hp'] at h; cases h
      have hpl : p < chrom.length := by have := hc' e he; omega
      refine ⟨chrom[p], by simp [hpl], ?_⟩
      rw [revComp_exonConcat, minusConcat_getElem? hc' hp']; simp [hpl, strandBase]

/-- The gene sequence has the gene's length and at every gene index `i` holds the
strand-corrected chromosome base at `coordinate_gene_to_genomic i`. -/
theorem geneSeq_pointwise (chrom : List Char) (g : Gene) (hc : g.loc.stop ≤ chrom.length) :
    (geneSeq chrom g).length = g.len ∧
    ∀ i, i < g.len → ∃ p : Nat, geneToGenomic g i = (p : Int) ∧
      ∃ c, chrom[p]? = some c ∧ (geneSeq chrom g)[i]? = some (strandBase g.strand c) := by
  unfold geneSeq geneToGenomic Gene.len Iv.len
  cases hs : g.strand
  · refine ⟨chromSlice_length hc, ?_⟩
    intro i hi
    have hpl : g.loc.start + i < chrom.length := by omega
    refine ⟨g.loc.start + i, by simp, chrom[g.loc.start + i], by simp [hpl], ?_⟩
    rw [chromSlice_getElem? hi]; simp [hpl, strandBase]
  · refine ⟨by rw [revComp_length]; exact chromSlice_length hc, ?_⟩
    intro i hi
    have hpl : g.loc.stop - 1 - i < chrom.length := by omega
    refine ⟨g.loc.stop - 1 - i, by simp only; omega, chrom[g.loc.stop - 1 - i], by simp [hpl], ?_⟩
    rw [revComp_chromSlice_getElem? hc hi]; simp [hpl, strandBase]

example : txSeq "AACCGGTTAC".toList { strand := .minus, exons := [⟨1, 3⟩, ⟨5, 8⟩] }
    = .ok "AACGT".toList := by decide

/-! ## pointer-dictionary cache (`GenePointerDict` / `TranscriptPointerDict`)

`CacheInv` = deque without duplicates, deque = key set of the dict, length ≤ bound, every
cached value equals `load key`. -/

section Cache
variable {K V : Type} [DecidableEq K]

/-- For every access history consisting of loadable keys (any order, any repetitions, any
length — evictions included), from any state satisfying the invariant: every `__getitem__`
returns `load key` (no `KeyError` on eviction) and the invariant holds afterwards. -/
theorem cache_get_returns_load (size : Nat) (hs : 1 ≤ size) (load : K → Option V)
    (c : CacheState K V) (hi : CacheInv size load c) (hist : List K)
    (hload : ∀ k ∈ hist, (load k).isSome = true) :
    (CacheState.run size load c hist).2 = hist.map (cacheExpected load) ∧
      CacheInv size load (CacheState.run size load c hist).1 := by
  induction hist generalizing c with
  | nil => exact ⟨rfl, hi⟩
  | cons k ks ih =>
    obtain ⟨v, hv⟩ := Option.isSome_iff_exists.mp (hload k List.mem_cons_self)
    obtain ⟨hr, hi'⟩ := hi.get_ok hs hv
    obtain ⟨hrs, hi''⟩ := ih _ hi' (fun x hx => hload x (List.mem_cons_of_mem _ hx))
    simp only [CacheState.run, List.map_cons]
    refine ⟨?_, hi''⟩
    rw [hrs, hr]; simp [cacheExpected, hv]

/-- the same from the empty cache -/
theorem cache_get_returns_load_from_empty (size : Nat) (hs : 1 ≤ size) (load : K → Option V)
    (hist : List K) (hload : ∀ k ∈ hist, (load k).isSome = true) :
    (CacheState.run size load CacheState.empty hist).2 = hist.map (cacheExpected load) :=
  (cache_get_returns_load size hs load _ (CacheInv.empty size load) hist hload).1

/-- Full-strength statement for the repaired access order (`load` before `appendleft`):
for EVERY history, including unknown keys and failing loads, every access returns
`load key` (or the load's own error) and the invariant is preserved. -/
theorem cacheFixed_get_returns_load (size : Nat) (hs : 1 ≤ size) (load : K → Option V)
    (c : CacheState K V) (hi : CacheInv size load c) (hist : List K) :
    (CacheState.runFixed size load c hist).2 = hist.map (cacheExpected load) ∧
      CacheInv size load (CacheState.runFixed size load c hist).1 := by
  induction hist generalizing c with
  | nil => exact ⟨rfl, hi⟩
  | cons k ks ih =>
    obtain ⟨hr, hi'⟩ := hi.getFixed_spec hs k
    obtain ⟨hrs, hi''⟩ := ih _ hi'
    simp only [CacheState.runFixed, List.map_cons]
    exact ⟨by rw [hrs, hr], hi''⟩

end Cache

/-- The code as it stands does NOT have the property for histories that contain a failing
lookup: the key is pushed on the deque before the load, so a later eviction raises
`KeyError` on an access to a perfectly valid key (bound 2, keys `< 10` loadable). -/
example : (CacheState.run 2 (fun k : Nat => if k < 10 then some k else none)
    CacheState.empty [99, 0, 1, 1, 2, 3]).2
    = [.loadError, .ok 0, .evictKeyError, .ok 1, .ok 2, .evictKeyError] := by decide
example : (CacheState.runFixed 2 (fun k : Nat => if k < 10 then some k else none)
    CacheState.empty [99, 0, 1, 1, 2, 3]).2
    = [.loadError, .ok 0, .ok 1, .ok 1, .ok 2, .ok 3] := by decide

/-! ## ORF start / end and selenocysteine positions -/

/-- plus strand: `get_cds_start_index` = transcript index of the first base of the first CDS
record + its frame -/
theorem cds_start_spec_plus (t : Transcript) (hw : t.WF) (hs : t.strand = .plus)
    (c0 : Cds) (rest : List Cds) (f : Nat) (hf : c0.frame = some f)
    (hx : isExonic t c0.iv.start = true) :
    ∃ k, txIndex t c0.iv.start = .ok k ∧ cdsStartIndex t (c0 :: rest) = .ok (k + f) := by
  have hasc : AscWF t.exons := ⟨hw.2.1, hw.2.2⟩
  refine ⟨cdsStartPlus c0.iv.start t.exons 0, ?_, ?_⟩
  · rw [txIndex_eq_loop hw hx, hs]
    exact cdsStartPlus_eq hasc 0 (isExonic_iff.mp hx)
  · unfold cdsStartIndex; rw [hs]; simp [hf]

/-- minus strand: `get_cds_start_index` = transcript index of the last genomic base of the
last (genomic order) CDS record — the first coding base — + (`frame or 0`) -/
theorem cds_start_spec_minus (t : Transcript) (hw : t.WF) (hs : t.strand = .minus)
    (cds : List Cds) (cl : Cds) (hl : cds.getLast? = some cl) (hne : cl.iv.start < cl.iv.stop)
    (hx : isExonic t (cl.iv.stop - 1) = true) :
    ∃ k, txIndex t (cl.iv.stop - 1) = .ok k ∧
      cdsStartIndex t cds = .ok (k + cl.frame.getD 0) := by
  have hasc : AscWF t.exons := ⟨hw.2.1, hw.2.2⟩
  refine ⟨cdsStartMinus cl.iv.stop t.exons.reverse 0, ?_, ?_⟩
  · rw [txIndex_eq_loop hw hx, hs]
    obtain ⟨e, he, hb⟩ := isExonic_iff.mp hx
    exact cdsStartMinus_eq hasc.reverse 0 (by omega) ⟨e, List.mem_reverse.mpr he, hb⟩
  · unfold cdsStartIndex; rw [hs]; simp [hl]

/-- `end - (end - start) % 3`: the largest index ≤ `end` in the reading frame of `start` -/
theorem alignEnd_spec (e s : Int) :
    (alignEnd e s - s) % 3 = 0 ∧ alignEnd e s ≤ e ∧ e < alignEnd e s + 3 := by
  unfold alignEnd; omega

/-- `get_cds_end_index`: the boundary is the transcript index of the first 3'UTR base in
transcript order (plus: start of the first `three_utr` record, minus: last base of the last
one) when there is a 3'UTR, the sequence length otherwise; the result is that boundary
aligned down to the frame of `start` (see `alignEnd_spec`). -/
theorem cds_end_spec (t : Transcript) (threeUtr : List Iv) (seqLen start : Nat) :
    (threeUtr = [] → cdsEndIndex t threeUtr seqLen start = .ok (alignEnd seqLen start)) ∧
    (∀ u rest, t.strand = .plus → threeUtr = u :: rest → ∀ k, txIndex t u.start = .ok k →
        cdsEndIndex t threeUtr seqLen start = .ok (alignEnd k start)) ∧
    (∀ u, t.strand = .minus → threeUtr.getLast? = some u → ∀ k,
        txIndex t (u.stop - 1) = .ok k →
        cdsEndIndex t threeUtr seqLen start = .ok (alignEnd k start)) := by
  refine ⟨?_, ?_, ?_⟩
  · intro h; subst h; unfold cdsEndIndex; cases t.strand <;> rfl
  · intro u rest hs h k hk; subst h; unfold cdsEndIndex; rw [hs]; simp [hk]
  · intro u hs h k hk; unfold cdsEndIndex; rw [hs]; simp [h, hk]

/-- A selenocysteine feature lying inside one exon maps to a transcript interval of the same
length whose first index is the transcript index of its 5'-most base (so that
`coordinate_transcript_to_genomic` of the start gives that base back). -/
theorem sec_spec (t : Transcript) (hw : t.WF) (sec : Iv) (hne : sec.start < sec.stop)
    (hcov : ∃ e ∈ t.exons, e.isSuperset sec = true) :
    ∃ a, secLoc t sec = .ok (a, a + sec.len) ∧
      txToGenomic t a = .ok (match t.strand with | .plus => sec.start | .minus => sec.stop - 1) := by
  have hasc : AscWF t.exons := ⟨hw.2.1, hw.2.2⟩
  obtain ⟨e, he, hsup⟩ := hcov
  simp only [Iv.isSuperset, Bool.and_eq_true, decide_eq_true_eq] at hsup
  have hx1 : isExonic t sec.start = true := isExonic_iff.mpr ⟨e, he, by omega, by omega⟩
  have hx2 : isExonic t (sec.stop - 1) = true := isExonic_iff.mpr ⟨e, he, by omega, by omega⟩
  obtain ⟨k1, hk1⟩ := txIndex_exonic t hw _ hx1
  obtain ⟨k2, hk2⟩ := txIndex_exonic t hw _ hx2
  have l1 := hk1; have l2 := hk2
  rw [txIndex_eq_loop hw hx1] at l1
  rw [txIndex_eq_loop hw hx2] at l2
  unfold secLoc Iv.len
  cases hs : t.strand
  · rw [hs] at l1 l2; simp only at l1 l2
    have := txIndexPlus_offset hasc (q := sec.stop - 1) ⟨e, he, by omega, by omega, by omega⟩ l1
    rw [this] at l2; cases l2
    refine ⟨k1, ?_, (txToGenomic_txIndex t hw _ _ hk1).2.1⟩
    simp only [hk1, hk2]; congr 2; omega
  · rw [hs] at l1 l2; simp only at l1 l2
    have := txIndexMinus_offset hasc.reverse (q := sec.start)
      ⟨e, List.mem_reverse.mpr he, by omega, by omega, by omega⟩ l2
    rw [this] at l1; cases l1
    refine ⟨k2, ?_, (txToGenomic_txIndex t hw _ _ hk2).2.1⟩
    simp only [hk1, hk2]; congr 2; omega

example : txOrf { strand := .plus, exons := [⟨0, 10⟩, ⟨20, 30⟩] }
    [⟨⟨2, 10⟩, some 0⟩, ⟨⟨20, 25⟩, some 1⟩] [⟨25, 30⟩] = .ok (some (2, 14)) := by decide
example : secLoc exTx ⟨26, 29⟩ = .ok (14, 17) := by decide

/-! ## exon look-up -/

/-- plus-strand loop of `find_exon_index`: returns `i + j` exactly when the `j`-th exon equals
the feature (start and end; same strand) -/
theorem findExonPlus_spec {es : List Iv} (hw : AscWF es) (f : Iv) (i k : Nat) :
    findExonPlus f es i = .ok k ↔ ∃ j, es[j]? = some f ∧ k = i + j := by
  induction es generalizing i with
  | nil => simp [findExonPlus]
  | cons e es ih =>
    unfold findExonPlus
    by_cases h1 : e = f
    · rw [if_pos h1]
      constructor
      · intro h; cases h; exact ⟨0, by simp [h1], rfl⟩
      · rintro ⟨j, hj, rfl⟩
        cases j with
        | zero => rfl
        | succ j =>
          have hm : f ∈ es := List.mem_of_getElem? (by simpa using hj)
          have := hw.rel f hm; have := hw.head; subst h1; omega
    · rw [if_neg h1]
      by_cases h2 : e.gt f = true
      · rw [if_pos h2]
        constructor
        · intro h; cases h
        · rintro ⟨j, hj, rfl⟩
          cases j with
          | zero => simp at hj; exact absurd hj h1
          | succ j =>
            have hm : f ∈ es := List.mem_of_getElem? (by simpa using hj)
            have := hw.rel f hm; have := hw.head
            simp [Iv.gt] at h2; omega
      · rw [if_neg h2, ih hw.tail]
        constructor
        · rintro ⟨j, hj, rfl⟩; exact ⟨j + 1, by simpa using hj, by omega⟩
        · rintro ⟨j, hj, rfl⟩
          cases j with
          | zero => simp at hj; exact absurd hj h1
          | succ j => exact ⟨j, by simpa using hj, by omega⟩

/-- minus-strand loop of `find_exon_index` over `reversed(exons)` -/
theorem findExonMinus_spec {es : List Iv} (hw : DescWF es) (f : Iv) (i k : Nat) :
    findExonMinus f es i = .ok k ↔ ∃ j, es[j]? = some f ∧ k = i + j := by
  induction es generalizing i with
  | nil => simp [findExonMinus]
  | cons e es ih =>
    unfold findExonMinus
    by_cases h1 : e = f
    · rw [if_pos h1]
      constructor
      · intro h; cases h; exact ⟨0, by simp [h1], rfl⟩
      · rintro ⟨j, hj, rfl⟩
        cases j with
        | zero => rfl
        | succ j =>
          have hm : f ∈ es := List.mem_of_getElem? (by simpa using hj)
          have := hw.rel f hm; have := hw.head; subst h1; omega
    · rw [if_neg h1]
      by_cases h2 : e.lt f = true
      · rw [if_pos h2]
        constructor
        · intro h; cases h
        · rintro ⟨j, hj, rfl⟩
          cases j with
          | zero => simp at hj; exact absurd hj h1
          | succ j =>
            have hm : f ∈ es := List.mem_of_getElem? (by simpa using hj)
            have := hw.rel f hm; have := hw.head
            have hf := hw.1 f (List.mem_cons_of_mem _ hm)
            simp [Iv.lt, Iv.gt] at h2; omega
      · rw [if_neg h2, ih hw.tail]
        constructor
        · rintro ⟨j, hj, rfl⟩; exact ⟨j + 1, by simpa using hj, by omega⟩
        · rintro ⟨j, hj, rfl⟩
          cases j with
          | zero => simp at hj; exact absurd hj h1
          | succ j => exact ⟨j, by simpa using hj, by omega⟩

/-- exons in transcript (5'→3') order -/
def txOrderExons (t : Transcript) : List Iv :=
  match t.strand with
  | .plus => t.exons
  | .minus => t.exons.reverse

/-- `find_exon_index` (genomic coordinates, feature on the transcript's strand) returns `k`
iff the `k`-th exon in transcript order equals the feature; otherwise `ExonNotFoundError`
(the loop has no other outcome). -/
theorem exon_lookup_spec (t : Transcript) (hw : t.WF) (f : Iv) (k : Nat) :
    findExonIndex t f = .ok k ↔ (txOrderExons t)[k]? = some f := by
  have hasc : AscWF t.exons := ⟨hw.2.1, hw.2.2⟩
  unfold findExonIndex txOrderExons
  cases t.strand
  · simp only; rw [findExonPlus_spec hasc]
    constructor
    · rintro ⟨j, hj, rfl⟩; simpa using hj
    · intro h; exact ⟨k, h, by omega⟩
  · simp only; rw [findExonMinus_spec hasc.reverse]
    constructor
    · rintro ⟨j, hj, rfl⟩; simpa using hj
    · intro h; exact ⟨k, h, by omega⟩

/-! ## GTF codec: writing an annotation and parsing it back preserves all models

`Model/Gtf.lean` models `GtfIO.write` / `to_gtf_record` and `GenomicAnnotation.dump_gtf` /
`line_to_seq_feature` / `add_gene_record` / `add_transcript_record` / `add_record` /
`sort_records` (`split_utr`) on abstract lines.

**What is compared.**  `Anno.erase` keeps, for every gene: key, order, the gene record with
its whole attribute dict (`gene_id`, `gene_name`, `gene_type`/`gene_biotype`, tags) and the list
of transcript ids; for every transcript: key, the `transcript` record with its whole attribute
dict (ids, biotype, all tags — hence `cds_start_NF` / `mRNA_end_NF`), chromosome, interval,
strand; the coding flag; the four ids of the model (`transcript_id`, `gene_id`, `protein_id`,
`gene_name`); and the eight record lists `cds`, `exon`, `start_codon`, `stop_codon`, `utr`,
`five_utr`, `three_utr`, `selenocysteine` with chromosome, type, interval, strand and frame of
every record, in order.  It drops only the attribute dicts of the records *inside* the eight
lists: `add_record` overwrites the ids of every record with those of the model, so these dicts
depend on the order of the records in the file and change on the first round trip of a
freshly loaded ENSEMBL file (`protein_id` spreads from the CDS records to the records written
after them); `gtf_roundtrip_exact` covers them from the second round trip on.
`Anno.canon` re-lists the transcripts dict gene by gene (the order `write` emits); it is the
identity on annotations loaded from a file that lists every gene's transcripts before the next
gene (`Anno.ordered`), and never changes a look-up (`gtf_roundtrip_lookup`).

The inferred `source` (GENCODE / ENSEMBL) of a record is not part of the model (a function of
the chromosome names; it selects which of the two compared attributes `biotype` reads; the
harness compares it on the real objects).  Tab splitting and decimal integers are done by the
driver, not modelled. -/

section GtfCodec
open MoPepGen.Gtf
open MoPepGen.Gvf (Str AttrVal dictGet)

/-- a small ENSEMBL-style annotation on the minus strand (the records commit deb9e01 made
`write` emit: `five_prime_utr`, `three_prime_utr`, `start_codon`, `stop_codon`) -/
def S (s : String) : Str := s.toList
def gtfExAttrs (extra : List (Str × AttrVal)) : List (Str × AttrVal) :=
  [(kGeneId, .str (S "G1")), (kTranscriptId, .str (S "T1")),
   (kGeneBiotype, .str (S "protein_coding"))] ++ extra
def gtfExRec (ty : String) (a b : Nat) (fr : Option Nat) (extra : List (Str × AttrVal)) : Rec :=
  { chrom := S "17", type := S ty, iv := ⟨a, b⟩, strand := .minus, frame := fr,
    attrs := gtfExAttrs extra }
def gtfExPid : List (Str × AttrVal) := [(kProteinId, .str (S "P1"))]
def gtfExT : Rec :=
  gtfExRec "transcript" 10 60 none [(kTag, .list [S "basic", S "cds_start_NF"])]
/-- exons [10,30) [40,60); CDS [20,30) [40,50); 5'UTR [50,60); stop codon [17,20); 3'UTR [10,17);
as loaded from a file in which the first exon precedes the first CDS record (it carries no
`protein_id`) -/
def gtfExTx : TxModel :=
  { transcript := some gtfExT,
    cds := [gtfExRec "CDS" 20 30 (some 2) gtfExPid, gtfExRec "CDS" 40 50 (some 0) gtfExPid],
    exon := [gtfExRec "exon" 10 30 none [], gtfExRec "exon" 40 60 none gtfExPid],
    startCodon := [gtfExRec "start_codon" 47 50 (some 0) gtfExPid],
    stopCodon := [gtfExRec "stop_codon" 17 20 (some 0) gtfExPid],
    fiveUtr := [gtfExRec "five_prime_utr" 50 60 none gtfExPid],
    threeUtr := [gtfExRec "three_prime_utr" 10 17 none gtfExPid],
    sec := [gtfExRec "Selenocysteine" 41 44 none gtfExPid],
    isProteinCoding := some true,
    transcriptId := some (S "T1"), geneId := some (S "G1"), proteinId := some (S "P1") }
def gtfExGene : Rec :=
  { chrom := S "17", type := S "gene", iv := ⟨5, 70⟩, strand := GStrand.minus, frame := none,
    attrs := [(kGeneId, .str (S "G1")), (kGeneName, .str (S "N"))] }
def gtfEx : Anno := { genes := [(S "G1", ⟨gtfExGene, [S "T1"]⟩)], txs := [(S "T1", gtfExTx)] }

set_option maxRecDepth 100000 in
example : gtfEx.wf = true := by decide
set_option maxRecDepth 100000 in
example : gtfEx.ordered = true := by decide
set_option maxRecDepth 100000 in
example : gtfEx.textOK = true := by decide
/-- the attribute dicts of the records are not yet in their fixed point … -/
example : gtfEx.stable = false := by decide
set_option maxRecDepth 100000 in
/-- … but the normal form is reproduced (the statement of `gtf_roundtrip` on the example) -/
example : (match writeGtf gtfEx with
    | .ok ls => (parseGtf ls).map Anno.erase
    | .error e => .error e) = .ok gtfEx.erase := by decide
example : colParse (colText [(kGeneId, S "G1"), (kTag, S "basic"), (kGeneName, S "a b")])
    = .ok [(kGeneId, S "G1"), (kTag, S "basic"), (kGeneName, S "a b")] := by decide

/-- The writer as it was before commit deb9e01 (`records = sec + sorted(cds + exon) + utr`)
loses the ENSEMBL UTR and codon records: on the example the reloaded model has no 3'UTR, so
`get_cds_end_index` falls back to the sequence end. -/
def txRecordsOld (m : TxModel) : List Rec := m.sec ++ (sortRecs (m.cds ++ m.exon) ++ m.utr)
set_option maxRecDepth 100000 in
example : (sortRecords (foldTx {} (txPlus gtfExT (some true) :: txRecordsOld gtfExTx))).map
    (fun m => (m.threeUtrIvs, m.fiveUtr.length, m.stopCodon.length)) = .ok ([], 0, 0) := by decide
example : gtfExTx.threeUtrIvs = [⟨10, 17⟩] := by decide

/-- **Attribute column codec.**  `colParse` (`rstrip(';')`, `split(';')`, `strip()`,
`split(' ', 1)`) reads back exactly the `(key, value)` list `colText` (`f" {key} {val};"`)
wrote, for every non-empty list whose keys are non-empty and contain neither white space nor
`;`, and whose values are non-empty, contain no `;` and neither start nor end with white space. -/
theorem gtf_attr_column_roundtrip (kvs : List (Str × Str)) (hne : kvs ≠ [])
    (h : ∀ kv ∈ kvs, keyTextOK kv.1 = true ∧ valTextOK kv.2 = true) :
    colParse (colText kvs) = .ok kvs :=
  colParse_colText hne h

/-- **The column text of every written line.**  Every line `write` emits is
`to_gtf_record r flag` for a record `r` of the annotation; if the attribute dict of `r` is
text-clean (`Rec.textOK`: something is written; keys non-empty without white space or `;`;
values non-empty, without `;`, not starting or ending with white space) then the column-9 text
of that line is read back to exactly the `(key, value)` list of the abstract line — so the
theorems below, stated on abstract lines, carry over to the written text. -/
theorem gtf_line_text_roundtrip (r : Rec) (h : r.textOK = true) (ipc : Option Bool) :
    colParse (colText (recToLine r ipc).attrs) = .ok (recToLine r ipc).attrs :=
  colParse_recToLine h ipc

/-- **Record codec.**  `line_to_seq_feature (to_gtf_record r) = r` for every record with
`start ≤ end`, strand `+`/`-`/none, and an attribute dict with distinct kept keys in which
`tag` (only) holds a non-empty list and no value starts or ends with `"`: 0-based half-open
interval ↔ 1-based inclusive columns, strand, frame, attribute dict with its order. -/
theorem gtf_record_roundtrip (r : Rec) (h : r.ok = true) :
    lineToRec (recToLine r none) = .ok r :=
  lineToRec_recToLine h

/-- the `transcript` record written with the coding flag comes back with the flag as its last
attribute (`add_record` then pops it into `is_protein_coding`) -/
theorem gtf_transcript_record_roundtrip (r : Rec) (h : r.ok = true)
    (hk : dictGet r.attrs kIpc = none) (ipc : Option Bool) :
    lineToRec (recToLine r ipc) = .ok { r with attrs := withIpc r.attrs ipc } :=
  lineToRec_recToLine_ipc h (not_mem_keys_of_dictGet_none hk) ipc

/-- **Round trip, normal form.**  For EVERY well-formed annotation (`Anno.wf`: any number of
genes and transcripts, any strand mix, GENCODE `UTR` records and/or ENSEMBL
`five_prime_utr`/`three_prime_utr`, start/stop codons, Sec, tags, coding flag set or not)
`GtfIO.write` succeeds and `dump_gtf` of the written lines succeeds and returns an annotation
equal to the original in every compared field (see the section header), the transcripts dict
listed gene by gene. -/
theorem gtf_roundtrip (a : Anno) (h : a.wf = true) :
    ∃ ls a', writeGtf a = .ok ls ∧ parseGtf ls = .ok a' ∧ a'.erase = a.canon.erase := by
  obtain ⟨ls, hw, hp⟩ := parse_write h
  obtain ⟨_, _, h3⟩ := Anno.wf_iff h
  refine ⟨ls, _, hw, hp, ?_⟩
  simp only [Anno.erase, Anno.canon, List.map_map]
  congr 1
  apply List.map_congr_left
  intro kv hkv
  obtain ⟨gid, t, w⟩ := mem_canonTxs h3 (by rw [← canon_txs]; exact hkv)
  simp only [Function.comp_def, reloadTx_erase w]

/-- on an annotation whose transcripts dict is already listed gene by gene the result is the
original itself (in the normal form) -/
theorem gtf_roundtrip_ordered (a : Anno) (h : a.wf = true) (ho : a.ordered = true) :
    ∃ ls a', writeGtf a = .ok ls ∧ parseGtf ls = .ok a' ∧ a'.erase = a.erase := by
  obtain ⟨ls, a', h1, h2, h3⟩ := gtf_roundtrip a h
  have : a.canon = a := by simpa [Anno.ordered] using ho
  exact ⟨ls, a', h1, h2, by rw [h3, this]⟩

/-- **Round trip, exact.**  If moreover the key loop of `add_record` changes no attribute dict
(`Anno.stable`: true for everything that went through one write → parse), the parsed
annotation is the original with ALL attribute dicts, transcripts listed gene by gene. -/
theorem gtf_roundtrip_exact (a : Anno) (h : a.wf = true) (hs : a.stable = true) :
    ∃ ls, writeGtf a = .ok ls ∧ parseGtf ls = .ok a.canon := by
  obtain ⟨ls, hw, hp⟩ := parse_write h
  obtain ⟨_, _, h3⟩ := Anno.wf_iff h
  refine ⟨ls, hw, ?_⟩
  rw [hp]
  have : (a.canon.txs.map fun kv => (kv.1, reloadTx kv.2)) = a.canon.txs := by
    conv => rhs; rw [← List.map_id a.canon.txs]
    apply List.map_congr_left
    intro kv hkv
    obtain ⟨gid, t, w⟩ := mem_canonTxs h3 (by rw [← canon_txs]; exact hkv)
    have hmem : kv ∈ a.txs := by
      rw [canon_txs] at hkv
      simp only [canonTxs, List.mem_flatMap, List.mem_filterMap] at hkv
      obtain ⟨g, _, tid, _, hk⟩ := hkv
      cases hd : dictGet a.txs tid with
      | none => rw [hd] at hk; cases hk
      | some m =>
        rw [hd] at hk; simp only [Option.map_some, Option.some.injEq] at hk
        subst hk; exact mem_keys_of_dictGet hd
    have hst : kv.2.stable = true := by
      have hs' : ∀ x ∈ a.txs, x.2.stable = true := by
        simpa [Anno.stable] using hs
      exact hs' kv hmem
    simp only [reloadTx_exact w hst, id]
  rw [this]; rfl

/-- **Look-ups are preserved.**  After the round trip every transcript listed by a gene is
found under its id, and its model equals the original's in the normal form: the order of the
transcripts dict is the only thing `canon` changes. -/
theorem gtf_roundtrip_lookup (a : Anno) (h : a.wf = true) :
    ∃ ls a', writeGtf a = .ok ls ∧ parseGtf ls = .ok a' ∧ a'.genes = a.genes ∧
      ∀ g ∈ a.genes, ∀ tid ∈ g.2.transcripts, ∃ m m', dictGet a.txs tid = some m ∧
        dictGet a'.txs tid = some m' ∧ m'.erase = m.erase := by
  obtain ⟨ls, hw, hp⟩ := parse_write h
  obtain ⟨_, _, h3⟩ := Anno.wf_iff h
  refine ⟨ls, _, hw, hp, rfl, ?_⟩
  intro g hg tid ht
  obtain ⟨m, hm, hc⟩ := dictGet_canon h hg ht
  obtain ⟨_, t, _, w⟩ := (h3 g hg).txs tid ht |>.imp fun m' h' => h'
  refine ⟨m, reloadTx m, hm, ?_, ?_⟩
  · simp only [dictGet_map_snd reloadTx, hc, Option.map_some]
  · obtain ⟨m2, t2, hm2, w2⟩ := (h3 g hg).txs tid ht
    rw [hm] at hm2; cases hm2
    exact reloadTx_erase w2

/-- the ORF start / end that `get_transcript_sequence` attaches, as a function of the model
(`txOrf` of `Model/Coord.lean`, the subject of `cds_start_spec_*`, `cds_end_spec`) -/
def TxModel.orf (m : TxModel) : Option (Except CoordErr (Option (Nat × Int))) :=
  m.toTranscript.map fun t => txOrf t m.cdsList m.threeUtrIvs

/-- the selenocysteine positions `get_transcript_sequence` attaches (`secLocs`, `sec_spec`) -/
def TxModel.secPositions (m : TxModel) : Option (Except CoordErr (List (Nat × Nat))) :=
  m.toTranscript.map fun t => secLocs t m.secIvs

/-- **Consequences for the coordinate theorems.**  Two transcript models that agree in the
normal form give the coordinate functions the same input: strand and exon intervals (hence
every coordinate map and the transcript sequence), CDS intervals with frames, 3'UTR and Sec
intervals; the same ORF start / end and Sec positions; the same coding flag, tags
(`cds_start_NF`, `mRNA_end_NF`, …) and ids. -/
theorem gtf_normal_form_determines_coordinates (m m' : TxModel) (h : m'.erase = m.erase) :
    m'.toTranscript = m.toTranscript ∧ m'.cdsList = m.cdsList ∧
      m'.threeUtrIvs = m.threeUtrIvs ∧ m'.secIvs = m.secIvs ∧
      TxModel.orf m' = TxModel.orf m ∧ TxModel.secPositions m' = TxModel.secPositions m ∧
      m'.isProteinCoding = m.isProteinCoding ∧ (∀ tag, m'.hasTag tag = m.hasTag tag) ∧
      m'.ids = m.ids := by
  obtain ⟨h1, h2, h3, h4, h5, h6, h7⟩ := erase_eq_coord h
  refine ⟨h1, h2, h3, h4, ?_, ?_, h5, h6, h7⟩
  · simp only [TxModel.orf, h1, h2, h3]
  · simp only [TxModel.secPositions, h1, h4]

/-- **ORF and Sec positions survive the round trip**: for every transcript listed by a gene of
a well-formed annotation, the model found under the same id after write → parse has the same
ORF start / end and selenocysteine positions (and coding flag, tags, exons, strand). -/
theorem gtf_roundtrip_preserves_orf_sec (a : Anno) (h : a.wf = true) :
    ∃ ls a', writeGtf a = .ok ls ∧ parseGtf ls = .ok a' ∧
      ∀ g ∈ a.genes, ∀ tid ∈ g.2.transcripts, ∃ m m', dictGet a.txs tid = some m ∧
        dictGet a'.txs tid = some m' ∧ m'.toTranscript = m.toTranscript ∧
        TxModel.orf m' = TxModel.orf m ∧ TxModel.secPositions m' = TxModel.secPositions m ∧
        m'.isProteinCoding = m.isProteinCoding ∧ ∀ tag, m'.hasTag tag = m.hasTag tag := by
  obtain ⟨ls, a', h1, h2, _, h4⟩ := gtf_roundtrip_lookup a h
  refine ⟨ls, a', h1, h2, fun g hg tid ht => ?_⟩
  obtain ⟨m, m', hm, hm', he⟩ := h4 g hg tid ht
  obtain ⟨c1, _, _, _, c5, c6, c7, c8, _⟩ := gtf_normal_form_determines_coordinates m m' he
  exact ⟨m, m', hm, hm', c1, c5, c6, c7, c8⟩

/-! ### Closure of the round trip

`reload a` = `dump_gtf (write a)` as one function (`Model/Gtf.lean`).  For a well-formed `a` it
is `reloaded a`: genes unchanged, transcripts dict re-listed gene by gene, every transcript
model rebuilt by `add_record` / `sort_records` from its own block (`reload_eq`).

**Full statement (`gtf_roundtrip_closed`, NOT proved in full):**
`∀ a, a.wf → ∃ r, reload a = .ok r ∧ r.wf ∧ r.ordered ∧ r.stable`.
Proved below:
* `r.ordered`, `r.genes = a.genes`, every gene-level clause of `r.wf` — for every `a.wf`
  (`gtf_roundtrip_closed_ordered`, and inside `gtf_roundtrip_closed_of_tx`);
* the whole statement for every `a.wf` with `a.stable` (`gtf_roundtrip_closed_partial`; then
  `r = a.canon`, immediate from `gtf_roundtrip_exact` plus the closure of `canon`);
* the whole statement for every `a.wf`, given the per-transcript fact that the block of a
  well-formed transcript model reloads to a well-formed, stable model
  (`gtf_roundtrip_closed_of_tx`).
Missing: that per-transcript fact for models that are not yet stable (a freshly loaded ENSEMBL
file, whose `protein_id` spreads from the CDS records to the records written after them on the
first round trip).  It needs (i) the key loop of `add_record` is idempotent on its own output,
(ii) `write` lists the rebuilt model's records in the order they were read (`sorted(cds + exon)`
of the two filtered halves of a stably sorted list is that list).  It is compared per input by
the stream `gtfclosed` (the driver decides the three predicates on the model's reload of every
generated annotation; they are evaluated on the real reloaded objects). -/

set_option maxRecDepth 100000 in
/-- non-vacuity: the example (well-formed, ordered, NOT stable) reloads to a closed annotation -/
example : (reload gtfEx).map Anno.closed = .ok true := by decide

/-- **Closure, order part.**  For every well-formed annotation the round trip succeeds, keeps
the gene dict, lists the transcripts dict gene by gene (`ordered`), and is the original in the
normal form. -/
theorem gtf_roundtrip_closed_ordered (a : Anno) (h : a.wf = true) :
    ∃ r, reload a = .ok r ∧ r.ordered = true ∧ r.genes = a.genes ∧
      r.erase = a.canon.erase := by
  refine ⟨reloaded a, reload_eq h, reloaded_ordered h, rfl, ?_⟩
  obtain ⟨ls, a', h1, h2, h3⟩ := gtf_roundtrip a h
  have := reload_eq h
  simp only [reload, h1, h2, Except.ok.injEq] at this
  rw [← this]; exact h3

/-- **Closure, reduced to one transcript.**  For every well-formed annotation: if the block of
every well-formed transcript model reloads (`reloadTx`: `write` of the block, `add_record`,
`sort_records`) to a well-formed and stable model, then the reloaded annotation satisfies all
three hypotheses again. -/
theorem gtf_roundtrip_closed_of_tx (a : Anno) (h : a.wf = true)
    (H : ∀ gid tid m, TxModel.wf gid tid m = true →
      (reloadTx m).wf gid tid = true ∧ (reloadTx m).stable = true) :
    ∃ r, reload a = .ok r ∧ r.wf = true ∧ r.ordered = true ∧ r.stable = true :=
  ⟨reloaded a, reload_eq h, reloaded_closed_of_tx h H⟩

/-- **Closure for stable annotations** (everything that went through one round trip in the
real code, see the stream `gtfwf1`): for every well-formed and stable annotation the reloaded
annotation is again well-formed, ordered and stable.  (`_partial`: the full statement drops
`a.stable`, see the section header.) -/
theorem gtf_roundtrip_closed_partial (a : Anno) (h : a.wf = true) (hs : a.stable = true) :
    ∃ r, reload a = .ok r ∧ r.wf = true ∧ r.ordered = true ∧ r.stable = true := by
  have hst : ∀ kv ∈ a.txs, kv.2.stable = true := by simpa [Anno.stable] using hs
  have hreq : ∀ g ∈ a.genes, ∀ tid ∈ g.2.transcripts, ∀ m, dictGet a.txs tid = some m →
      reloadTx m = m := by
    intro g hg tid ht m hm
    obtain ⟨m', hm', hw⟩ := Anno.wf_tx h hg ht
    rw [hm] at hm'; cases hm'
    exact reloadTx_of_stable hw (hst _ (mem_keys_of_dictGet hm))
  -- the per-transcript fact holds for the models of `a`; `reloaded_closed_of_tx` asks it of
  -- every model, so go through its two halves directly
  refine ⟨reloaded a, reload_eq h, ?_⟩
  obtain ⟨h1, h2, _⟩ := Anno.wf_iff h
  have hgen := h
  simp only [Anno.wf, Bool.and_eq_true, decide_eq_true_eq, List.all_eq_true] at hgen
  refine ⟨?_, reloaded_ordered h, ?_⟩
  · simp only [Anno.wf, Bool.and_eq_true, decide_eq_true_eq, List.all_eq_true]
    refine ⟨⟨h1, h2⟩, fun g hg => ⟨(hgen.2 g hg).1, fun tid ht => ?_⟩⟩
    obtain ⟨m, hm, hw, hr⟩ := dictGet_reloaded h hg ht
    rw [hr, hreq g hg tid ht m hm]
    exact hw
  · simp only [Anno.stable, List.all_eq_true]
    intro kv hkv
    simp only [reloaded, List.mem_map] at hkv
    obtain ⟨kv0, hkv0, rfl⟩ := hkv
    rw [canon_txs] at hkv0
    simp only [canonTxs, List.mem_flatMap, List.mem_filterMap] at hkv0
    obtain ⟨g, hg, tid, ht, hk⟩ := hkv0
    obtain ⟨m, hm, _⟩ := Anno.wf_tx h hg ht
    rw [hm] at hk
    simp only [Option.map_some, Option.some.injEq] at hk
    subst hk
    simp only [hreq g hg tid ht m hm]
    exact hst _ (mem_keys_of_dictGet hm)

/-- **A closed annotation is a fixed point of the round trip**: for every annotation that is
well-formed, ordered and stable, `dump_gtf (write r)` is `r` itself, all attribute dicts and the
order of both dicts included. -/
theorem gtf_roundtrip_fixed_point (r : Anno) (h : r.wf = true) (ho : r.ordered = true)
    (hs : r.stable = true) : reload r = .ok r := by
  obtain ⟨ls, hw, hp⟩ := gtf_roundtrip_exact r h hs
  have : r.canon = r := by simpa [Anno.ordered] using ho
  simp only [reload, hw, hp, this]

/-- **Idempotence.**  Full statement (NOT proved in full): `∀ a, a.wf → ∃ r, reload a = .ok r ∧
reload r = .ok r` (write∘parse∘write∘parse = write∘parse) and the text written from `r` is a
fixed point (`writeGtf r' = writeGtf r` for `reload r = .ok r'`; trivial once `r' = r`).  It
follows from the full closure statement by `gtf_roundtrip_fixed_point`; proved here for every
well-formed and STABLE `a`, where moreover the written text is already a fixed point:
`writeGtf r = writeGtf a`.  Without `a.stable` the text written from `r` differs from the text
written from `a` in the attribute columns of the sub-records (the ids `add_record` copied; on
the example `gtfEx`, below), so `writeGtf (reload a) = writeGtf a` does not hold in general. -/
theorem gtf_roundtrip_idempotent_partial (a : Anno) (h : a.wf = true) (hs : a.stable = true) :
    ∃ r, reload a = .ok r ∧ reload r = .ok r ∧ writeGtf r = writeGtf a := by
  obtain ⟨r, hr, c1, c2, c3⟩ := gtf_roundtrip_closed_partial a h hs
  refine ⟨r, hr, gtf_roundtrip_fixed_point r c1 c2 c3, ?_⟩
  obtain ⟨ls, hw, hp⟩ := gtf_roundtrip_exact a h hs
  simp only [reload, hw, hp, Except.ok.injEq] at hr
  rw [← hr]; exact writeGtf_canon h

/-- idempotence from closure, for every well-formed annotation whose reload is closed (the
conclusion of the full closure statement as a decidable hypothesis `Anno.closed`) -/
theorem gtf_roundtrip_idempotent_of_closed (a r : Anno) (hr : reload a = .ok r)
    (hc : r.closed = true) : reload r = .ok r ∧ ∀ r', reload r = .ok r' → writeGtf r' = writeGtf r := by
  simp only [Anno.closed, Bool.and_eq_true] at hc
  have := gtf_roundtrip_fixed_point r hc.1.1 hc.1.2 hc.2
  refine ⟨this, fun r' h' => ?_⟩
  rw [this] at h'; cases h'; rfl

set_option maxRecDepth 100000 in
/-- on the (unstable) example the first written text is NOT a fixed point, the second is -/
example : (match reload gtfEx with
    | .ok r => (decide (writeGtf r = writeGtf gtfEx), decide (reload r = .ok r))
    | .error _ => (false, false)) = (false, true) := by decide

end GtfCodec

end MoPepGen.Props.C11
