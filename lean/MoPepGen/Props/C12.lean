import MoPepGen.Lemmas.IndexDir
/-!
# C12 — index directory: each parameter set maps to its own, faithful data

Property theorems only.  `gen`, `upd`, `load`, `tamper` (`Model/IndexDir.lean`) are the
models of `cli.generate_index`, `cli.update_index`, `cli.common.load_references` (index
branch) and of an edit of the recorded versions; they are tied to /repo by the streams of
`harness/c12.py`.  All theorems hold for every environment `e` (current versions,
`MINIMAL_VERSION`, pool function), every parameter set, every reference id and
operation histories of ANY length.
-/
namespace MoPepGen.Props.C12
open MoPepGen.IndexDir
variable {α : Type}

/-! ## the invariant is kept by every invocation -/

theorem gtfCopy_ok_ref {old : Option (Blob α)} {r : Nat} {l : Bool} {a : Blob α}
    (h : gtfCopy old r l = .ok a) : a.ref = some r := by
  unfold gtfCopy at h
  split at h
  · cases l <;> simp at h <;> subst h <;> rfl
  · split at h
    · cases h
    · split at h
      · split at h
        · cases h
        · simp at h; subst h; rfl
      · simp at h; subst h; rfl

/-- `generate_index` after the gate, entered with every listed pool file absent (empty
directory, or `wipe_canonical_peptides` completed) -/
theorem genBody_inv (e : Env α) (s : State α) (r : Nat) (p : Params) (l : Bool)
    (hi : Inv e s) (habs : ∀ m, s.md = some m → ∀ en ∈ m.pools, fget s.files en.filename = none) :
    Inv e (genBody e s r p l).1 := by
  -- whatever non-pool files are written, the old entries stay vacuously well formed
  have hold : ∀ fs' : Files α, (∀ n, (∃ i, n = FName.pool i) → fget fs' n = fget s.files n) →
      Inv e { s with files := fs' } := by
    intro fs' hfs m hm
    have hw := hi m hm
    refine ⟨hw.keys, hw.idx, hw.shape, ?_⟩
    intro en hen b hb
    have hfn := (hw.shape en hen).1
    rw [hfs en.filename ⟨_, hfn⟩, habs m hm en hen] at hb
    cases hb
  unfold genBody
  simp only
  cases hg : gtfCopy (fget (fset (fset s.files .genome (.data r)) .proteome (.data r)) .anno) r l with
  | error o =>
    simp only
    apply hold
    rintro n ⟨i, rfl⟩
    simp
  | ok a =>
    have href := gtfCopy_ok_ref hg
    simp only [saveCanonical, getPool, List.find?_nil, register, Option.isSome_none,
      Bool.false_eq_true, if_false, List.isEmpty_nil, if_true, List.nil_append]
    intro m hm
    simp only [Option.some.injEq] at hm
    subst hm
    simp only
    refine ⟨by simp, by simp, ?_, ?_⟩
    · intro en hen
      simp only [List.mem_singleton] at hen
      subst hen
      exact ⟨rfl, norm_idem p, Nat.le_refl 1⟩
    · intro en hen b hb
      simp only [List.mem_singleton] at hen
      subst hen
      simp at hb
      refine ⟨r, r, p, ?_, ?_, rfl, hb.symm⟩
      · simp [annoRef, href]
      · simp [protRef, Blob.ref]

theorem gen_inv (e : Env α) (s : State α) (r : Nat) (p : Params) (f l : Bool)
    (hi : Inv e s) : Inv e (gen e s r p f l).1 := by
  unfold gen
  simp only
  split
  · split
    · -- forced: wipe, then the body
      have hw := WF_openDir hi
      have hsh : ∀ en ∈ (openDir e s).pools, ∃ i, en.filename = FName.pool i :=
        fun en hen => ⟨_, (hw.shape en hen).1⟩
      have hwipe := wipe_shrinks hsh s.files
      split
      · rename_i fs' hw'
        rw [hw'] at hwipe
        intro m hm
        exact (hi m hm).shrinks hwipe
      · rename_i fs' hw'
        rw [hw'] at hwipe
        apply genBody_inv
        · intro m hm
          exact (hi m hm).shrinks hwipe.1
        · intro m hm en hen
          have : (openDir e s).pools = m.pools := openDir_pools hi hm
          exact hwipe.2 en (this ▸ hen)
    · exact hi
  · rename_i hne
    apply genBody_inv e s r p l hi
    intro m hm
    simp [dirNonEmpty, hm] at hne

theorem loadAnno_ok {fs : Files α} {a : Blob α} (h : loadAnno fs = .ok a) :
    fget fs .anno = some a := by
  unfold loadAnno at h
  split at h
  · cases h
  · rename_i a' h'
    split at h
    · cases h
    · cases h; exact h'

theorem upd_inv (e : Env α) (s : State α) (p : Params) (f : Bool)
    (hi : Inv e s) : Inv e (upd e s p f).1 := by
  unfold upd
  simp only
  split
  · exact hi
  · exact hi
  · split
    · exact hi
    · split
      · exact hi
      · rename_i a ha
        split
        · exact hi
        · rename_i pr hpr
          split
          · rename_i ra rp hra hrp
            have hA : annoRef s.files = some ra := by
              simp [annoRef, loadAnno_ok ha, hra]
            have hP : protRef s.files = some rp := by
              simp [protRef, hpr, hrp]
            split
            · exact hi
            · rename_i m' fs' hs
              have hw := saveCanonical_WF (WF_openDir hi) hA hP hs
              split
              · intro m hm
                simp only [Option.some.injEq] at hm
                subst hm
                exact hw
              · rename_i hex
                -- overwritten in place: metadata.json is not rewritten
                rcases saveCanonical_spec hs with ⟨en, hg, _, rfl, rfl⟩ | ⟨hg, _, _⟩
                · intro m hm
                  have : (openDir e s).pools = m.pools := openDir_pools hi hm
                  rw [← this]
                  exact hw
                · simp [hg] at hex
          · exact hi

theorem tamper_inv (e : Env α) (s : State α) (v : Version) (hi : Inv e s) :
    Inv e (tamper s v) := by
  unfold tamper
  split
  · exact hi
  · rename_i m hm
    intro m' hm'
    simp only [Option.some.injEq] at hm'
    subst hm'
    exact hi m hm

theorem step_inv (e : Env α) (s : State α) (o : Op) (hi : Inv e s) : Inv e (step e s o).1 := by
  cases o with
  | gen r p f l => exact gen_inv e s r p f l hi
  | upd p f => exact upd_inv e s p f hi
  | load p => exact hi
  | tamper v => exact tamper_inv e s v hi

/-- **index_inv.** After ANY history of generateIndex / updateIndex / load / version-edit
invocations (any flags, any parameters, any reference sets, including invocations that
crash half-way) on an initially absent directory, the entries of `metadata.json` have
pairwise distinct parameter keys and pairwise distinct indices, each file name is
`canonical_peptides_<index>` (so names are injective in the index), keys are in normal form,
and every listed file that exists holds a pool computed — from the annotation and proteome
now in the directory — by an invocation whose arguments have exactly that key. -/
theorem index_inv (e : Env α) (ops : List Op) : Inv e (run e State.empty ops) := by
  have : ∀ (s : State α), Inv e s → Inv e (run e s ops) := by
    induction ops with
    | nil => intro s hs; exact hs
    | cons o os ih => intro s hs; exact ih _ (step_inv e s o hs)
  apply this
  intro m hm
  cases hm


/-! ## loading -/

/-- `load_references` succeeds exactly along one path of the code -/
theorem load_loaded_iff (e : Env α) (s : State α) (q : Params) (x : Loaded α) :
    load e s q = .loaded x ↔
      isValid e.cur e.minimal (openDir e s).version = some true ∧
      ∃ en, getPool (openDir e s).pools q = some en ∧
        fget s.files en.filename = some x.pool ∧ fget s.files .genome = some x.genome ∧
        loadAnno s.files = .ok x.anno ∧ fget s.files .proteome = some x.proteome ∧
        x.source = (openDir e s).source := by
  unfold load
  simp only
  constructor
  · intro h
    split at h <;> try (cases h; done)
    rename_i hv
    refine ⟨hv, ?_⟩
    split at h <;> try (cases h; done)
    rename_i en hen
    refine ⟨en, hen, ?_⟩
    split at h <;> try (cases h; done)
    rename_i b hb
    split at h <;> try (cases h; done)
    rename_i g hg
    split at h
    · rename_i o ho
      unfold loadAnno at ho
      split at ho
      · cases ho; cases h
      · split at ho
        · cases ho; cases h
        · cases ho
    · rename_i a ha
      split at h <;> try (cases h; done)
      rename_i pr hpr
      cases h
      exact ⟨hb, hg, ha, hpr, rfl⟩
  · rintro ⟨hv, en, hen, hb, hg, ha, hpr, hsrc⟩
    rw [hv]
    simp only [hen, hb, hg, ha, hpr]
    cases x
    simp_all

/-- **load_provenance.** In every state reachable by any history (indeed in every state
satisfying the invariant), a pool handed out by `load_references` for the request `q` was
computed from the annotation and proteome that are in the directory by an invocation
whose arguments have the same key as `q` — never by one with another key. -/
theorem load_provenance (e : Env α) (s : State α) (hi : Inv e s) (q : Params) (x : Loaded α)
    (h : load e s q = .loaded x) :
    ∃ a pr p, annoRef s.files = some a ∧ protRef s.files = some pr ∧ norm p = norm q ∧
      x.pool = .pool (e.poolRaw a pr p) := by
  obtain ⟨_, en, hen, hb, _⟩ := (load_loaded_iff e s q x).1 h
  obtain ⟨hmem, hk⟩ := getPool_some hen
  obtain ⟨a, pr, p, h1, h2, h3, h4⟩ := (WF_openDir hi).holds en hmem _ hb
  exact ⟨a, pr, p, h1, h2, h3.trans hk, h4⟩

/-- the pool function does not distinguish two argument tuples with the same key
(what `CleavageParams.__init__` promises; see `respects_example` and the known finding:
the current code computes pools from the UNnormalised `--cleavage-exception`) -/
def Respects (e : Env α) : Prop :=
  ∀ a b p q, norm p = norm q → e.poolRaw a b p = e.poolRaw a b q

/-- a concrete environment whose pool function respects keys (non-vacuity) -/
def exEnv : Env (Nat × Nat × Params) where
  cur := { py := "3.12.1", bio := "1.88", mpg := "1.4.6" }
  minimal := "1.3.0"
  poolRaw := fun a b p => (a, b, norm p)

example : Respects exEnv := by
  intro a b p q h; simp [exEnv, h]

/-- **load_correct.** If the pool function respects keys, a successful load for `q` returns
exactly the pool of `q` over the annotation and proteome in the directory. -/
theorem load_correct (e : Env α) (hr : Respects e) (s : State α) (hi : Inv e s) (q : Params)
    (x : Loaded α) (h : load e s q = .loaded x) :
    ∃ a pr, annoRef s.files = some a ∧ protRef s.files = some pr ∧
      x.pool = .pool (e.poolRaw a pr q) := by
  obtain ⟨a, pr, p, h1, h2, h3, h4⟩ := load_provenance e s hi q x h
  exact ⟨a, pr, h1, h2, by rw [h4, hr a pr p q h3]⟩

/-- the same two statements for histories from the absent directory -/
theorem load_correct_reachable (e : Env α) (hr : Respects e) (ops : List Op) (q : Params)
    (x : Loaded α) (h : load e (run e State.empty ops) q = .loaded x) :
    ∃ a pr, annoRef (run e State.empty ops).files = some a ∧
      protRef (run e State.empty ops).files = some pr ∧ x.pool = .pool (e.poolRaw a pr q) :=
  load_correct e hr _ (index_inv e ops) q x h

/-- **load rejects with "no pool" iff no entry has the key** (when the version gate passes) -/
theorem load_nopool_iff (e : Env α) (s : State α) (q : Params)
    (hv : isValid e.cur e.minimal (openDir e s).version = some true) :
    load e s q = .rejectNoPool ↔ ∀ en ∈ (openDir e s).pools, en.key ≠ norm q := by
  rw [← getPool_none]
  unfold load
  simp only [hv]
  constructor
  · intro h
    split at h
    · assumption
    · exfalso
      split at h <;> try (cases h; done)
      split at h <;> try (cases h; done)
      split at h
      · rename_i o ho
        unfold loadAnno at ho
        split at ho
        · cases ho; cases h
        · split at ho
          · cases ho; cases h
          · cases ho
      · split at h <;> cases h
  · intro h; rw [h]

/-- on reachable directories the entries consulted are those written in `metadata.json` -/
theorem load_nopool_iff_reachable (e : Env α) (ops : List Op) (q : Params) (m : Meta)
    (hm : (run e State.empty ops).md = some m)
    (hv : isValid e.cur e.minimal (fillVersion e.cur m.version) = some true) :
    load e (run e State.empty ops) q = .rejectNoPool ↔ norm q ∉ m.pools.map (·.key) := by
  have hp := openDir_pools (index_inv e ops) hm
  have hv' : isValid e.cur e.minimal (openDir e (run e State.empty ops)).version = some true := by
    simpa [openDir, hm] using hv
  rw [load_nopool_iff e _ q hv', hp]
  simp only [List.mem_map, not_exists, not_and]


/-! ## updateIndex -/

theorem loadAnno_congr {fs fs' : Files α}
    (h : ∀ n, (∀ i, n ≠ FName.pool i) → fget fs' n = fget fs n) : loadAnno fs' = loadAnno fs := by
  unfold loadAnno
  rw [h .anno (by intro i; simp), h .geneIdx (by intro i; simp), h .txIdx (by intro i; simp)]

/-- a successful load carries over to a directory that agrees on what the load reads -/
theorem load_transfer (e : Env α) (s s' : State α) (q : Params) (x : Loaded α)
    (hv : (openDir e s').version = (openDir e s).version)
    (hsrc : (openDir e s').source = (openDir e s).source)
    (hpool : ∀ en, getPool (openDir e s).pools q = some en →
      fget s.files en.filename = some x.pool →
      getPool (openDir e s').pools q = some en ∧ fget s'.files en.filename = some x.pool)
    (hdata : ∀ n, (∀ i, n ≠ FName.pool i) → fget s'.files n = fget s.files n)
    (h : load e s q = .loaded x) : load e s' q = .loaded x := by
  obtain ⟨hval, en, hen, hb, hg, ha, hpr, hs⟩ := (load_loaded_iff e s q x).1 h
  obtain ⟨hen', hb'⟩ := hpool en hen hb
  refine (load_loaded_iff e s' q x).2 ⟨by rw [hv]; exact hval, en, hen', hb', ?_, ?_, ?_, ?_⟩
  · rw [hdata .genome (by intro i; simp)]; exact hg
  · rw [loadAnno_congr hdata]; exact ha
  · rw [hdata .proteome (by intro i; simp)]; exact hpr
  · rw [hsrc]; exact hs

/-- the possible effects of `update_index` on the directory -/
theorem upd_effect (e : Env α) (s : State α) (p : Params) (f : Bool) :
    (upd e s p f).1 = s ∨
    ∃ ra rp m' fs', annoRef s.files = some ra ∧ protRef s.files = some rp ∧
      saveCanonical (openDir e s) s.files (e.poolRaw ra rp p) p f = some (m', fs') ∧
      ((getPool (openDir e s).pools p = none ∧ (upd e s p f).1 = { md := some m', files := fs' }) ∨
       ((getPool (openDir e s).pools p).isSome ∧ (upd e s p f).1 = { s with files := fs' })) := by
  unfold upd
  simp only
  split
  · exact Or.inl rfl
  · exact Or.inl rfl
  · split
    · exact Or.inl rfl
    · split
      · exact Or.inl rfl
      · rename_i a ha
        split
        · exact Or.inl rfl
        · rename_i pr hpr
          split
          · rename_i ra rp hra hrp
            split
            · exact Or.inl rfl
            · rename_i m' fs' hs
              refine Or.inr ⟨ra, rp, m', fs', by simp [annoRef, loadAnno_ok ha, hra],
                by simp [protRef, hpr, hrp], hs, ?_⟩
              cases hg : getPool (openDir e s).pools p with
              | none => exact Or.inl ⟨rfl, by simp⟩
              | some en => exact Or.inr ⟨rfl, by simp⟩
          · exact Or.inl rfl

/-- **update_preserves.** Adding a pool (or overwriting one with `--force`) never changes
what a load with other parameters returns: every load that succeeded before `updateIndex p`
returns the very same pool, genome, annotation and proteome afterwards.  For a request with
the SAME key as `p` (the `--force` overwrite) this needs the pool function to respect keys. -/
theorem update_preserves (e : Env α) (s : State α) (hi : Inv e s) (p : Params) (f : Bool)
    (q : Params) (x : Loaded α) (hpq : norm p ≠ norm q ∨ Respects e)
    (h : load e s q = .loaded x) : load e (upd e s p f).1 q = .loaded x := by
  rcases upd_effect e s p f with hs | ⟨ra, rp, m', fs', hA, hP, hsave, hcase⟩
  · rw [hs]; exact h
  · have hw := WF_openDir hi
    have hw' := saveCanonical_WF hw hA hP hsave
    rcases saveCanonical_spec hsave with ⟨enp, hgp, _, rfl, rfl⟩ | ⟨hgp, rfl, rfl⟩
    · -- overwritten in place
      rcases hcase with ⟨hnone, _⟩ | ⟨_, hs'⟩
      · rw [hgp] at hnone; cases hnone
      · rw [hs']
        obtain ⟨hpm, hpk⟩ := getPool_some hgp
        have hfn := (hw.shape enp hpm).1
        refine load_transfer e s _ q x ?_ ?_ ?_ ?_ h
        · rfl
        · rfl
        · intro en hen hb
          refine ⟨hen, ?_⟩
          obtain ⟨hm, hk⟩ := getPool_some hen
          simp only [fget_fset]
          by_cases hf : enp.filename = en.filename
          · rw [if_pos hf]
            have hidx : enp.index = en.index := by
              rw [hfn, (hw.shape en hm).1] at hf; exact FName.pool.inj hf
            have heq : enp = en := eq_of_index_eq hw.idx hpm hm hidx
            subst heq
            rcases hpq with hne | hr
            · exact absurd (hpk.symm.trans hk) hne
            · obtain ⟨a, pr, p', h1, h2, h3, h4⟩ := hw.holds enp hpm _ hb
              rw [hA] at h1; rw [hP] at h2
              cases h1; cases h2
              rw [h4, hr ra rp p' p (h3.trans hpk)]
          · rw [if_neg hf]; exact hb
        · intro n hn
          simp only [fget_fset]
          rw [if_neg]
          rw [hfn]; exact fun hh => hn _ hh.symm
    · -- a new entry
      rcases hcase with ⟨_, hs'⟩ | ⟨hsome, _⟩
      · rw [hs']
        -- the directory had a metadata.json (else the load could not have succeeded)
        obtain ⟨_, en0, hen0, _⟩ := (load_loaded_iff e s q x).1 h
        cases hmd : s.md with
        | none => rw [openDir_pools_none hmd] at hen0; simp [getPool] at hen0
        | some m0 =>
          have hpools : ∀ (t : State α), t.md = some { (openDir e s) with pools := (openDir e s).pools ++
              [{ filename := .pool (freshIndex (openDir e s).pools),
                 index := freshIndex (openDir e s).pools, key := norm p }] } →
              (openDir e t).pools = (openDir e s).pools ++
              [{ filename := .pool (freshIndex (openDir e s).pools),
                 index := freshIndex (openDir e s).pools, key := norm p }] := by
            intro t ht
            simp only [openDir, ht]
            exact map_norm_eq hw'
          refine load_transfer e s _ q x ?_ ?_ ?_ ?_ h
          · simp only [openDir, hmd, fillVersion_idem]
          · simp only [openDir, hmd]
          · intro en hen hb
            rw [hpools _ rfl]
            refine ⟨getPool_append_of_some hen, ?_⟩
            obtain ⟨hm, _⟩ := getPool_some hen
            simp only [fget_fset]
            rw [if_neg]
            · exact hb
            · rw [(hw.shape en hm).1]
              intro hh
              have := FName.pool.inj hh
              have := lt_freshIndex hm
              omega
          · intro n hn
            simp only [fget_fset]
            rw [if_neg]
            exact fun hh => hn _ hh.symm
      · rw [hgp] at hsome; cases hsome

/-- `update_preserves` along any further history of updates: pools are never affected by
adding new ones -/
theorem updates_preserve (e : Env α) (ps : List (Params × Bool)) (s : State α) (hi : Inv e s)
    (q : Params) (x : Loaded α) (hpq : ∀ pf ∈ ps, norm pf.1 ≠ norm q)
    (h : load e s q = .loaded x) :
    load e (run e s (ps.map fun pf => Op.upd pf.1 pf.2)) q = .loaded x := by
  induction ps generalizing s with
  | nil => exact h
  | cons pf ps ih =>
    simp only [List.map_cons, run, step]
    apply ih _ (upd_inv e s pf.1 pf.2 hi)
    · intro pf' hpf'; exact hpq pf' (List.mem_cons_of_mem _ hpf')
    · exact update_preserves e s hi pf.1 pf.2 q x (Or.inl (hpq pf List.mem_cons_self)) h

/-- **update_exists_noforce_rejects.** With the version gate passed, `updateIndex` without
`--force` for a key that has an entry exits with an error and leaves the directory as it is. -/
theorem update_exists_noforce_rejects (e : Env α) (s : State α) (p : Params)
    (hv : isValid e.cur e.minimal (openDir e s).version = some true)
    (hex : (getPool (openDir e s).pools p).isSome) :
    upd e s p false = (s, .rejectExists) := by
  unfold upd
  simp [hv, hex]

/-- **force_overwrites_in_place.** `updateIndex --force` for a key that has an entry `en`
rewrites exactly the file of that entry with the freshly computed pool; `metadata.json`
(entries, their order, indices and file names) is left as it is. -/
theorem force_overwrites_in_place (e : Env α) (s : State α) (p : Params) (en : Entry)
    (a pr : Blob α) (ra rp : Nat)
    (hv : isValid e.cur e.minimal (openDir e s).version = some true)
    (hen : getPool (openDir e s).pools p = some en)
    (ha : loadAnno s.files = .ok a) (hpr : fget s.files .proteome = some pr)
    (hra : a.ref = some ra) (hrp : pr.ref = some rp) :
    upd e s p true =
      ({ s with files := fset s.files en.filename (.pool (e.poolRaw ra rp p)) }, .done) := by
  unfold upd
  simp [hv, hen, ha, hpr, hra, hrp, saveCanonical]


/-! ## the version gate -/

/-- **version_gate.** If the versions recorded in `metadata.json` are not valid for the
current environment (python or biopython differ, recorded moPepGen older than
`MINIMAL_VERSION`, or not parseable), then `updateIndex` (with or without `--force`) and
every load stop with an error — `InvalidIndexError`, or the `ValueError` of `get_semver` —
and `generateIndex` without `--force` exits because the directory exists; none of them
changes the directory or hands out anything stored in it.  Only `generateIndex --force`
(which rebuilds everything) proceeds. -/
theorem version_gate (e : Env α) (s : State α) (m : Meta) (hm : s.md = some m)
    (hbad : isValid e.cur e.minimal (fillVersion e.cur m.version) ≠ some true) :
    (∀ p f, (upd e s p f).1 = s ∧
        ((upd e s p f).2 = .rejectBadVersion ∨ (upd e s p f).2 = .crashValueError)) ∧
    (∀ q, load e s q = .rejectBadVersion ∨ load e s q = .crashValueError) ∧
    (∀ r p l, gen e s r p false l = (s, .rejectExists)) := by
  have hv : (openDir e s).version = fillVersion e.cur m.version := by simp [openDir, hm]
  refine ⟨?_, ?_, ?_⟩
  · intro p f
    unfold upd
    simp only [hv]
    cases hval : isValid e.cur e.minimal (fillVersion e.cur m.version) with
    | none => simp
    | some b => cases b with
      | false => simp
      | true => exact absurd hval hbad
  · intro q
    unfold load
    simp only [hv]
    cases hval : isValid e.cur e.minimal (fillVersion e.cur m.version) with
    | none => simp
    | some b => cases b with
      | false => simp
      | true => exact absurd hval hbad
  · intro r p l
    simp [gen, dirNonEmpty, hm]

/-- the gate is the documented comparison: same python, same biopython, and the recorded
moPepGen release (before any `-suffix`) at least `MINIMAL_VERSION` as integer tuples -/
theorem isValid_true_iff (cur : Version) (minimal : String) (v : Version) :
    isValid cur minimal v = some true ↔
      cur.py = v.py ∧ cur.bio = v.bio ∧
      ∃ that m, getSemver v.mpg = some that ∧ getSemver minimal = some m ∧ lexLe m that = true := by
  unfold isValid
  by_cases h1 : cur.py = v.py <;> by_cases h2 : cur.bio = v.bio <;> simp [h1, h2]
  cases getSemver v.mpg <;> cases getSemver minimal <;> simp

/-! ## payloads -/

/-- what a completed `generateIndex` leaves behind: all payloads of `r`, one pool (index 1)
for the requested parameters, fresh metadata with the current versions -/
def GenDone (e : Env α) (s' : State α) (r : Nat) (p : Params) : Prop :=
    fget s'.files .genome = some (.data r) ∧ fget s'.files .proteome = some (.data r) ∧
    annoRef s'.files = some r ∧ fget s'.files .geneIdx = some (.data r) ∧
    fget s'.files .txIdx = some (.data r) ∧ fget s'.files .codingTx = some (.data r) ∧
    fget s'.files (.pool 1) = some (.pool (e.poolRaw r r p)) ∧
    s'.md = some { version := e.cur,
                   pools := [{ filename := .pool 1, index := 1, key := norm p }],
                   source := some r }

theorem gen_done (e : Env α) (s s' : State α) (r : Nat) (p : Params) (f l : Bool)
    (h : gen e s r p f l = (s', .done)) : GenDone e s' r p := by
  unfold GenDone
  have body : ∀ t : State α, genBody e t r p l = (s', .done) → GenDone e s' r p := by
    unfold GenDone
    intro t ht
    unfold genBody at ht
    simp only at ht
    cases hg : gtfCopy (fget (fset (fset t.files .genome (.data r)) .proteome (.data r)) .anno) r l with
    | error o =>
      rw [hg] at ht
      simp only [Prod.mk.injEq] at ht
      unfold gtfCopy at hg
      split at hg
      · cases l <;> cases hg
      · split at hg
        · cases hg; cases ht.2
        · split at hg
          · split at hg
            · cases hg; cases ht.2
            · cases hg
          · cases hg
    | ok a =>
      have href := gtfCopy_ok_ref hg
      rw [hg] at ht
      simp only [saveCanonical, getPool, List.find?_nil, register, Option.isSome_none,
        Bool.false_eq_true, if_false, List.isEmpty_nil, if_true, List.nil_append,
        Prod.mk.injEq, and_true] at ht
      subst ht
      refine ⟨by simp, by simp, by simp [annoRef, href], by simp, by simp, by simp, by simp, rfl⟩
  unfold gen at h
  simp only at h
  split at h
  · split at h
    · split at h
      · cases h
      · exact body _ h
    · cases h
  · exact body _ h

/-- `load_references` hands back exactly the stored payloads -/
theorem load_payload (e : Env α) (s : State α) (q : Params) (x : Loaded α)
    (h : load e s q = .loaded x) :
    fget s.files .genome = some x.genome ∧ fget s.files .anno = some x.anno ∧
    fget s.files .proteome = some x.proteome ∧ x.source = (openDir e s).source := by
  obtain ⟨_, en, _, _, hg, ha, hpr, hs⟩ := (load_loaded_iff e s q x).1 h
  exact ⟨hg, loadAnno_ok ha, hpr, hs⟩

/-- updates, loads and version edits never touch a payload file or the recorded source -/
theorem nongen_payload_stable (e : Env α) (s : State α) (hi : Inv e s) (o : Op)
    (ho : ∀ r p f l, o ≠ .gen r p f l) (n : FName) (hn : ∀ i, n ≠ .pool i) :
    fget (step e s o).1.files n = fget s.files n ∧
    ∀ src, s.md.map (·.source) = some src → (step e s o).1.md.map (·.source) = some src := by
  cases o with
  | gen r p f l => exact absurd rfl (ho r p f l)
  | load q => exact ⟨rfl, fun _ h => h⟩
  | tamper v =>
    simp only [step, tamper]
    split <;> simp_all
  | upd p f =>
    simp only [step]
    rcases upd_effect e s p f with hs | ⟨ra, rp, m', fs', hA, hP, hsave, hcase⟩
    · rw [hs]; exact ⟨rfl, fun _ h => h⟩
    · have hw := WF_openDir hi
      rcases saveCanonical_spec hsave with ⟨enp, hgp, _, rfl, rfl⟩ | ⟨hgp, rfl, rfl⟩
      · rcases hcase with ⟨hnone, _⟩ | ⟨_, hs'⟩
        · rw [hgp] at hnone; cases hnone
        · rw [hs']
          refine ⟨?_, fun _ h => h⟩
          simp only [fget_fset]
          rw [if_neg]
          rw [(hw.shape enp (getPool_some hgp).1).1]
          exact fun hh => hn _ hh.symm
      · rcases hcase with ⟨_, hs'⟩ | ⟨hsome, _⟩
        · rw [hs']
          refine ⟨?_, ?_⟩
          · simp only [fget_fset]
            rw [if_neg]
            exact fun hh => hn _ hh.symm
          · intro src hsrc
            cases hmd : s.md with
            | some m0 => simpa [openDir, hmd] using hsrc
            | none => simp [hmd] at hsrc
        · rw [hgp] at hsome; cases hsome

/-- **payload_roundtrip.** After a completed `generateIndex` from reference set `r`, and
any further history of updates, loads and version edits, every successful load returns the
genome, annotation and proteome of `r` (and the source recorded for `r`), and
`load_coding_tx` returns the coding-transcript set of `r`. -/
theorem payload_roundtrip (e : Env α) (s s' : State α) (hi : Inv e s) (r : Nat) (p : Params)
    (f l : Bool) (hgen : gen e s r p f l = (s', .done)) (ops : List Op)
    (hops : ∀ o ∈ ops, ∀ r p f l, o ≠ .gen r p f l) (q : Params) (x : Loaded α)
    (h : load e (run e s' ops) q = .loaded x) :
    x.genome = .data r ∧ x.anno.ref = some r ∧ x.proteome = .data r ∧ x.source = some r ∧
    loadCodingTx (run e s' ops) = some (.data r) := by
  have hi' : Inv e s' := by
    have := gen_inv e s r p f l hi
    rw [hgen] at this; exact this
  obtain ⟨h1, h2, h3, _, _, h6, _, h8⟩ := gen_done e s s' r p f l hgen
  -- payload files and source are those of s' after the history
  have stable : ∀ (ops : List Op) (t : State α), Inv e t →
      (∀ o ∈ ops, ∀ r p f l, o ≠ Op.gen r p f l) →
      (∀ n, (∀ i, n ≠ FName.pool i) → fget (run e t ops).files n = fget t.files n) ∧
      ∀ src, t.md.map (·.source) = some src → (run e t ops).md.map (·.source) = some src := by
    intro ops
    induction ops with
    | nil => intro t _ _; exact ⟨fun _ _ => rfl, fun _ h => h⟩
    | cons o os ih =>
      intro t ht hos
      have hstep := nongen_payload_stable e t ht o (hos o List.mem_cons_self)
      have := ih (step e t o).1 (step_inv e t o ht) (fun o' ho' => hos o' (List.mem_cons_of_mem _ ho'))
      refine ⟨?_, ?_⟩
      · intro n hn
        simp only [run]
        rw [this.1 n hn, (hstep n hn).1]
      · intro src hsrc
        simp only [run]
        exact this.2 src ((hstep .genome (by intro i; simp)).2 src hsrc)
  obtain ⟨hfiles, hsrc⟩ := stable ops s' hi' hops
  obtain ⟨g1, g2, g3, g4⟩ := load_payload e _ q x h
  rw [hfiles .genome (by intro i; simp), h1] at g1
  rw [hfiles .proteome (by intro i; simp), h2] at g3
  rw [hfiles .anno (by intro i; simp)] at g2
  refine ⟨?_, ?_, ?_, ?_, ?_⟩
  · exact (Option.some.inj g1).symm
  · simp only [annoRef, g2] at h3; simpa using h3
  · exact (Option.some.inj g3).symm
  · rw [g4]
    have hsrc' := hsrc (some r) (by rw [h8]; rfl)
    cases hmd : (run e s' ops).md with
    | none => simp [hmd] at hsrc'
    | some m => simp [hmd] at hsrc'; simp [openDir, hmd, hsrc']
  · simp only [loadCodingTx]
    rw [hfiles .codingTx (by intro i; simp), h6]


/-! ## every listed file exists (as long as no generateIndex died on the GTF copy) -/

/-- the directory is absent/empty, or has `metadata.json`, all six payload files and every
pool file the metadata lists -/
def Strong (s : State α) : Prop :=
  (s.md = none → s.files = []) ∧
  ∀ m, s.md = some m →
    (∀ en ∈ m.pools, (fget s.files en.filename).isSome) ∧
    (∀ n ∈ [FName.genome, .proteome, .anno, .geneIdx, .txIdx, .codingTx],
      (fget s.files n).isSome)

theorem wipe_ok_of_present {pools : List Entry} (hidx : (pools.map (·.index)).Nodup)
    (hsh : ∀ en ∈ pools, en.filename = .pool en.index) :
    ∀ (fs : Files α), (∀ en ∈ pools, (fget fs en.filename).isSome) →
      ∃ fs', wipe pools fs = .ok fs' := by
  induction pools with
  | nil => intro fs _; exact ⟨fs, rfl⟩
  | cons x xs ih =>
    intro fs hpres
    simp only [List.map_cons, List.nodup_cons, List.mem_map, not_exists, not_and] at hidx
    simp only [wipe]
    have hx := hpres x List.mem_cons_self
    cases hfx : fget fs x.filename with
    | none => simp [hfx] at hx
    | some b =>
      simp only
      apply ih hidx.2 (fun en hen => hsh en (List.mem_cons_of_mem _ hen))
      intro en hen
      have hne : ¬ x.filename = en.filename := by
        rw [hsh x List.mem_cons_self, hsh en (List.mem_cons_of_mem _ hen)]
        intro hh
        exact hidx.1 en hen (FName.pool.inj hh).symm
      simp only [fget_fdel, if_neg hne]
      exact hpres en (List.mem_cons_of_mem _ hen)

theorem gtfCopy_error {old : Option (Blob α)} {r : Nat} {l : Bool} {o : Outcome α}
    (h : gtfCopy old r l = .error o) : o = .crashFileExists ∨ o = .crashSameFile := by
  unfold gtfCopy at h
  split at h
  · cases l <;> cases h
  · split at h
    · cases h; exact Or.inl rfl
    · split at h
      · split at h
        · cases h; exact Or.inr rfl
        · cases h
      · cases h

theorem genBody_outcome (e : Env α) (t : State α) (r : Nat) (p : Params) (l : Bool) :
    (genBody e t r p l).2 = .done ∨ (genBody e t r p l).2 = .crashFileExists ∨
      (genBody e t r p l).2 = .crashSameFile := by
  unfold genBody
  simp only
  cases hg : gtfCopy (fget (fset (fset t.files .genome (.data r)) .proteome (.data r)) .anno) r l with
  | error o => exact Or.inr (gtfCopy_error hg)
  | ok a =>
    simp [saveCanonical, getPool, register]

theorem fget_isSome_fset {fs : Files α} {n m : FName} {b : Blob α}
    (h : (fget fs m).isSome) : (fget (fset fs n b) m).isSome := by
  rw [fget_fset]; split <;> simp [h]

theorem step_strong (e : Env α) (s : State α) (o : Op) (hi : Inv e s) (hs : Strong s)
    (h1 : (step e s o).2 ≠ .crashFileExists) (h2 : (step e s o).2 ≠ .crashSameFile) :
    Strong (step e s o).1 := by
  cases o with
  | load q => exact hs
  | tamper v =>
    simp only [step, tamper]
    split
    · exact hs
    · rename_i m hm
      refine ⟨by simp, ?_⟩
      intro m' hm'
      simp only [Option.some.injEq] at hm'
      subst hm'
      exact hs.2 m hm
  | upd p f =>
    simp only [step]
    rcases upd_effect e s p f with hs' | ⟨ra, rp, m', fs', hA, hP, hsave, hcase⟩
    · rw [hs']; exact hs
    · cases hmd : s.md with
      | none =>
        have := hs.1 hmd
        simp [annoRef, this, fget] at hA
      | some m =>
        have hpools := openDir_pools hi hmd
        obtain ⟨hp1, hp2⟩ := hs.2 m hmd
        rcases saveCanonical_spec hsave with ⟨enp, hgp, _, rfl, rfl⟩ | ⟨hgp, rfl, rfl⟩
        · rcases hcase with ⟨hnone, _⟩ | ⟨_, hs'⟩
          · rw [hgp] at hnone; cases hnone
          · rw [hs']
            refine ⟨by simp [hmd], ?_⟩
            intro m'' hm''
            simp only [hmd, Option.some.injEq] at hm''
            subst hm''
            exact ⟨fun en hen => fget_isSome_fset (hp1 en hen),
                   fun n hn => fget_isSome_fset (hp2 n hn)⟩
        · rcases hcase with ⟨_, hs'⟩ | ⟨hsome, _⟩
          · rw [hs']
            refine ⟨by simp, ?_⟩
            intro m'' hm''
            simp only [Option.some.injEq] at hm''
            subst hm''
            refine ⟨?_, fun n hn => fget_isSome_fset (hp2 n hn)⟩
            intro en hen
            simp only at hen
            rcases List.mem_append.1 hen with hen | hen
            · exact fget_isSome_fset (hp1 en (hpools ▸ hen))
            · simp only [List.mem_singleton] at hen
              subst hen
              simp
          · rw [hgp] at hsome; cases hsome
  | gen r p f l =>
    simp only [step] at h1 h2 ⊢
    -- a completed run leaves a complete directory, whatever was there before
    have hdone : ∀ s', gen e s r p f l = (s', .done) → Strong s' := by
      intro s' hg
      obtain ⟨g1, g2, g3, g4, g5, g6, g7, g8⟩ := gen_done e s s' r p f l hg
      refine ⟨by simp [g8], ?_⟩
      intro m hm
      rw [g8] at hm
      simp only [Option.some.injEq] at hm
      subst hm
      have g3' : (fget s'.files .anno).isSome := by
        cases h : fget s'.files .anno <;> simp [annoRef, h] at g3 ⊢
      refine ⟨?_, ?_⟩
      · intro en hen
        simp only [List.mem_singleton] at hen
        subst hen
        simp [g7]
      · intro n hn
        simp only [List.mem_cons, List.not_mem_nil, or_false] at hn
        rcases hn with rfl | rfl | rfl | rfl | rfl | rfl <;> simp [*]
    have hbody : ∀ t : State α, gen e s r p f l = genBody e t r p l → Strong (gen e s r p f l).1 := by
      intro t ht
      rcases genBody_outcome e t r p l with hd | hd | hd
      · exact hdone _ (by rw [ht]; exact Prod.ext rfl hd)
      · rw [ht] at h1; exact absurd hd h1
      · rw [ht] at h2; exact absurd hd h2
    by_cases hne : dirNonEmpty s = true
    · cases f with
      | false =>
        have : gen e s r p false l = (s, .rejectExists) := by simp [gen, hne]
        rw [this]; exact hs
      | true =>
        cases hmd : s.md with
        | none =>
          have := hs.1 hmd
          simp [dirNonEmpty, hmd, this] at hne
        | some m =>
          have hw := hi m hmd
          have hpools := openDir_pools hi hmd
          obtain ⟨fs', hwipe⟩ := wipe_ok_of_present (α := α) hw.idx
            (fun en hen => (hw.shape en hen).1) s.files (hs.2 m hmd).1
          apply hbody { s with files := fs' }
          simp [gen, hne, hpools, hwipe]
    · apply hbody s
      simp [gen, hne]

/-- no invocation of the history died in `create_gtf_copy` -/
def NoGtfCrash (e : Env α) (s : State α) (ops : List Op) : Prop :=
  ∀ o ∈ outcomes e s ops, o ≠ .crashFileExists ∧ o ≠ .crashSameFile

/-- **index_inv_strong.** After any history in which no `generateIndex` died while copying /
linking the GTF (`--force --gtf-symlink` onto an existing directory, or `--force` onto a
symlinked one: the known crash that leaves the directory half rebuilt), the directory is
either still absent or complete: `metadata.json`, the six payload files and EVERY listed
pool file exist — together with `index_inv`, every listed file exists and holds the pool of
its key; in particular no load, update or forced regenerate can then fail on a missing file. -/
theorem index_inv_strong (e : Env α) (ops : List Op) (h : NoGtfCrash e State.empty ops) :
    Strong (run e State.empty ops) := by
  have : ∀ (s : State α), Inv e s → Strong s → NoGtfCrash e s ops → Strong (run e s ops) := by
    clear h
    induction ops with
    | nil => intro s _ hs _; exact hs
    | cons o os ih =>
      intro s hi hs hn
      have ho := hn (step e s o).2 (by simp [outcomes])
      apply ih _ (step_inv e s o hi) (step_strong e s o hi hs ho.1 ho.2)
      intro o' ho'
      exact hn o' (by simp only [outcomes, List.mem_cons]; exact Or.inr ho')
  apply this _ _ _ h
  · intro m hm; cases hm
  · exact ⟨fun _ => rfl, fun m hm => by cases hm⟩

/-! ## non-vacuity: a concrete history (generate, add a pool, edit nothing, load) -/

def exP : Params := { enzyme := "trypsin", exc := some "auto", misc := 2, minMw := 500000,
                      minLen := 7, maxLen := 25 }
def exQ : Params := { exP with enzyme := "lysc" }
def exOps : List Op := [.gen 0 exP false false, .gen 1 exQ true false, .gen 0 exQ false false]

example : NoGtfCrash exEnv State.empty exOps := by unfold NoGtfCrash; decide
example : (run exEnv State.empty exOps).md.map (·.pools) =
    some [{ filename := .pool 1, index := 1, key := { exQ with exc := none } }] := by decide
example : norm exP = { exP with exc := some "trypsin_exception" } := by decide
-- Python tuple comparison in `is_valid_mpg_version` (`MINIMAL_VERSION` = 1.3.0)
example : lexLe [1, 3, 0] [1, 4, 6] = true ∧ lexLe [1, 3, 0] [1, 2, 9] = false ∧
    lexLe [1, 3, 0] [1, 3] = false ∧ lexLe [1, 3, 0] [1, 3, 0, 1] = true ∧
    lexLe [1, 3, 0] [2] = true := by decide

end MoPepGen.Props.C12
