import MoPepGen.Lemmas.Rmats
/-!
# C16 — parseRMATS records reproduce the alternative isoform

Layer S (`Model/RmatsSpec.lean`): `applyAS` = the documented meaning of a Deletion /
Insertion / Substitution record on a transcript sequence, `seqOfExons` = the sequence of an
exon list on a strand, `HasJunction`.  Layer M (`Model/Rmats.lean`): the Python, function by
function.  All theorems are for arbitrary exon lists (`pre`, `post` of any length), arbitrary
chromosomes, both strands (`g.strand` is never fixed) and arbitrary thresholds.

Hypotheses are the decidable well-formedness predicates of C11 (`Transcript.WF`: exons
non-empty, ascending, separated by ≥ 1 base; `Transcript.Within`: inside the gene, same strand)
plus `g.loc.stop ≤ chrom.length`; "the event's exons coincide with exons of the transcript" is
the explicit shape `t.exons = pre ++ … ++ post` with the junction ends equal to the row's.
-/
namespace MoPepGen.Props.C16
open MoPepGen MoPepGen.Rmats

/-! ## non-vacuity: concrete values satisfying the hypotheses -/

def exGene : Gene := { strand := .minus, loc := ⟨2, 60⟩ }
def exSpliced : Transcript := { strand := .minus, exons := [⟨4, 9⟩, ⟨12, 20⟩, ⟨25, 31⟩, ⟨40, 52⟩] }
def exRetained : Transcript := { strand := .minus, exons := [⟨4, 9⟩, ⟨12, 31⟩, ⟨40, 52⟩] }
def exRI : RI := { us := 12, ue := 20, ds := 25, de := 31, ijc := 3, sjc := 2 }
def exChrom : List Char := (List.replicate 16 "ACGT".toList).flatten

example : exSpliced.WF ∧ exSpliced.Within exGene ∧ exRetained.WF ∧ exRetained.Within exGene
    ∧ exGene.loc.stop ≤ exChrom.length := by decide
/-- the spliced isoform gets the Insertion of the intron, the retained isoform (alone) the
Deletion; with both annotated nothing is emitted -/
example : riConvert exRI exGene [exSpliced] 1 1 = .ok [(0, ⟨.insertion, 34, 35, 35, 40⟩)] := by
  decide
example : riConvert exRI exGene [exRetained] 1 1 = .ok [(0, ⟨.deletion, 35, 40, 0, 0⟩)] := by
  decide
example : riConvert exRI exGene [exSpliced, exRetained] 1 1 = .ok [] := by decide
example : applyAS exGene exSpliced.exons (seqOfExons exChrom .minus exSpliced.exons)
    (geneSeq exChrom exGene) ⟨.insertion, 34, 35, 35, 40⟩
    = seqOfExons exChrom .minus exRetained.exons := by decide

/-! ## the sequence the records are applied to -/

/-- `seqOfExons` is what `get_transcript_sequence` returns (C11's `txSeq`) -/
theorem txSeq_eq_seqOfExons (chrom : List Char) (t : Transcript) (h : t.exons ≠ []) :
    txSeq chrom t = .ok (seqOfExons chrom t.strand t.exons) := by
  unfold txSeq seqOfExons
  rw [if_neg h]
  cases t.strand <;> rfl

/-! ## RI -/

/-- **Retained intron, spliced isoform.**  For every gene, every list of isoforms, every
threshold pair: a record emitted for a transcript that has the two exons of the event
adjacent (`… U D …`, `U` ending at `upstreamEE`, `D` starting at `downstreamES`), applied to
that transcript's sequence, gives the sequence of the isoform in which the intron is retained
(`U` and `D` fused into one exon), on both strands. -/
theorem ri_retain_spec (chrom : List Char) (g : Gene) (txs : List Transcript) (v : RI)
    (minIjc minSjc : Nat) (out : List (Nat × ASRec)) (i : Nat) (r : ASRec) (t : Transcript)
    (pre post : List Iv) (U D : Iv)
    (hout : riConvert v g txs minIjc minSjc = .ok out) (hm : (i, r) ∈ out)
    (hi : txs[i]? = some t) (he : t.exons = pre ++ U :: D :: post)
    (hw : t.WF) (hg : t.Within g) (hc : g.loc.stop ≤ chrom.length)
    (hU : U.stop = v.ue) (hD : D.start = v.ds) :
    applyAS g t.exons (seqOfExons chrom t.strand t.exons) (geneSeq chrom g) r
      = seqOfExons chrom t.strand (pre ++ ⟨U.start, D.stop⟩ :: post) := by
  have hin := inGene_of_within hw hg
  obtain ⟨hp1, hUne, hq1⟩ := wf_parts hw he
  have he2 : t.exons = (pre ++ [U]) ++ D :: post := by simp [he]
  obtain ⟨hp2, hDne, hq2⟩ := wf_parts hw he2
  have hUD : U.stop < D.start := (hq1 D List.mem_cons_self).1
  have hUin := hin U (by simp [he])
  have hDin := hin D (by simp [he])
  have hwalk : riWalk v.ue v.ds t.exons = (true, 0) := by
    rw [he]
    exact riWalk_spliced_form (fun e h => by have := hp1 e h; omega) hU hD (by omega)
  obtain ⟨s, e, hco, hcase⟩ := riConvert_mem hout hm
  rw [riCoords_eq (by omega) (by omega) (by omega)] at hco
  simp only [Except.ok.injEq, Prod.mk.injEq] at hco
  rcases hcase with ⟨_, _, _, hs0, hr⟩ | ⟨hret, _, _, _⟩
  · -- the Insertion of the intron
    have hA : InGene g (pre ++ [U]) := by
      intro x hx; exact hin x (by rw [he2]; exact List.mem_append_left _ hx)
    have hB : InGene g (D :: post) := by
      intro x hx; exact hin x (by rw [he2]; exact List.mem_append_right _ hx)
    have hDon : InGene g [⟨v.ue, v.ds⟩] := by
      intro x hx; simp only [List.mem_singleton] at hx; subst hx; simp only; omega
    have hA1 : ∀ x ∈ pre ++ [U], x.stop ≤ v.ue := by
      intro x hx
      rcases List.mem_append.mp hx with h | h
      · have := hp1 x h; omega
      · simp only [List.mem_singleton] at h; subst h; omega
    have hB1 : ∀ x ∈ D :: post, v.ds ≤ x.start := by
      intro x hx
      rcases List.mem_cons.mp hx with h | h
      · subst h; omega
      · have := hq2 x h; omega
    have key := apply_insertion (chrom := chrom) (g := g) (A := pre ++ [U]) (B := D :: post)
      (P := match g.strand with | .plus => v.ue | .minus => v.ds) (D := ⟨v.ue, v.ds⟩) (r := r)
      hA hB hDon hc
      (by intro x hx; have := hA1 x hx; cases g.strand <;> simp only <;> omega)
      (by intro x hx; have := hB1 x hx; cases g.strand <;> simp only <;> omega)
      (by rw [hr])
      (by
        rw [hr]; simp only
        obtain ⟨h1, _⟩ := hco
        unfold cut; unfold geneIv at h1
        cases hs : g.strand <;> simp only [hs] at h1 ⊢ <;> omega)
      (by rw [hr]; exact hco.1.symm) (by rw [hr]; exact hco.2.symm)
    rw [hg.1, he2, key]
    have hU' : U = ⟨U.start, v.ue⟩ := by cases U; simp only at hU; subst hU; rfl
    have hD' : D = ⟨v.ds, D.stop⟩ := by cases D; simp only at hD; subst hD; rfl
    have := seqOfExons_merge3 chrom g.strand pre post (a := U.start) (b := v.ue) (c := v.ds)
      (d := D.stop) (by omega) (by omega) (by omega)
    rw [← this, List.append_assoc]
    conv => lhs; rw [hU', hD']
    rfl
  · -- a Deletion is only emitted for transcripts the walk found retained
    obtain ⟨_, t', ht', hpos⟩ := mem_riRetained hret
    rw [Nat.sub_zero, hi] at ht'
    cases ht'
    rw [hwalk] at hpos
    exact absurd hpos (by decide)

/-- **Retained intron, retained isoform.**  A record emitted for a transcript one of whose
exons `R` spans the intron of the event (`R.start < upstreamEE < downstreamES < R.stop`) gives
the sequence of the isoform in which the intron is spliced out (`R` split into
`[R.start, upstreamEE)` and `[downstreamES, R.stop)`), on both strands. -/
theorem ri_splice_spec (chrom : List Char) (g : Gene) (txs : List Transcript) (v : RI)
    (minIjc minSjc : Nat) (out : List (Nat × ASRec)) (i : Nat) (r : ASRec) (t : Transcript)
    (pre post : List Iv) (R : Iv)
    (hout : riConvert v g txs minIjc minSjc = .ok out) (hm : (i, r) ∈ out)
    (hi : txs[i]? = some t) (he : t.exons = pre ++ R :: post)
    (hw : t.WF) (hg : t.Within g) (hc : g.loc.stop ≤ chrom.length)
    (h1 : R.start < v.ue) (h2 : v.ue < v.ds) (h3 : v.ds < R.stop) :
    applyAS g t.exons (seqOfExons chrom t.strand t.exons) (geneSeq chrom g) r
      = seqOfExons chrom t.strand (pre ++ ⟨R.start, v.ue⟩ :: ⟨v.ds, R.stop⟩ :: post) := by
  have hin := inGene_of_within hw hg
  obtain ⟨hp1, hRne, hq1⟩ := wf_parts hw he
  have hRin := hin R (by simp [he])
  have hwalk : riWalk v.ue v.ds t.exons = (false, 1) := by
    rw [he]
    exact riWalk_retained_form (fun e h => by have := hp1 e h; omega) h1 h2 h3
      (fun e h => by have := hq1 e h; omega)
  obtain ⟨s, e, hco, hcase⟩ := riConvert_mem hout hm
  rw [riCoords_eq (by omega) (by omega) (by omega)] at hco
  simp only [Except.ok.injEq, Prod.mk.injEq] at hco
  rcases hcase with ⟨hsp, _, _, _, _⟩ | ⟨_, _, _, hr⟩
  · obtain ⟨_, t', ht', hpos⟩ := mem_riSpliced hsp
    rw [Nat.sub_zero, hi] at ht'
    cases ht'
    rw [hwalk] at hpos
    cases hpos
  · have hpre : InGene g pre := fun x hx => hin x (by rw [he]; exact List.mem_append_left _ hx)
    have hpost : InGene g post := fun x hx =>
      hin x (by rw [he]; exact List.mem_append_right _ (List.mem_cons_of_mem _ hx))
    have hA : InGene g (pre ++ [⟨R.start, v.ue⟩]) := by
      apply hpre.append
      intro x hx; simp only [List.mem_singleton] at hx; subst hx; simp only; omega
    have hM : InGene g [⟨v.ue, v.ds⟩] := by
      intro x hx; simp only [List.mem_singleton] at hx; subst hx; simp only; omega
    have hB : InGene g (⟨v.ds, R.stop⟩ :: post) := by
      intro x hx
      rcases List.mem_cons.mp hx with h | h
      · subst h; simp only; omega
      · exact hpost x h
    have key := apply_deletion (chrom := chrom) (g := g) (A := pre ++ [⟨R.start, v.ue⟩])
      (M := [⟨v.ue, v.ds⟩]) (B := ⟨v.ds, R.stop⟩ :: post) (Ps := v.ue) (Pe := v.ds) (r := r)
      hA hM hB hc
      (by
        intro x hx
        rcases List.mem_append.mp hx with h | h
        · have := hp1 x h; omega
        · simp only [List.mem_singleton] at h; subst h; simp only; omega)
      (by intro x hx; simp only [List.mem_singleton] at hx; subst hx; simp only; omega)
      (by intro x hx; simp only [List.mem_singleton] at hx; subst hx; simp only; omega)
      (by
        intro x hx
        rcases List.mem_cons.mp hx with h | h
        · subst h; simp only; omega
        · have := hq1 x h; omega)
      (by omega) (by rw [hr]) (by rw [hr]; exact hco.1.symm) (by rw [hr]; exact hco.2.symm)
    have hR' : R = ⟨R.start, R.stop⟩ := by cases R; rfl
    have e3 : pre ++ [⟨R.start, v.ue⟩] ++ [⟨v.ue, v.ds⟩] ++ ⟨v.ds, R.stop⟩ :: post
        = pre ++ ⟨R.start, v.ue⟩ :: ⟨v.ue, v.ds⟩ :: ⟨v.ds, R.stop⟩ :: post := by simp
    have hbb : ∀ q, basesBefore g t.exons q
        = basesBefore g (pre ++ [⟨R.start, v.ue⟩] ++ [⟨v.ue, v.ds⟩] ++ ⟨v.ds, R.stop⟩ :: post) q := by
      intro q
      rw [e3, he]
      conv => lhs; rw [hR']
      exact basesBefore_split3 g pre post (by omega) (by omega) (by omega) (by omega) (by omega) q
    have hseq : seqOfExons chrom g.strand t.exons = seqOfExons chrom g.strand
        (pre ++ [⟨R.start, v.ue⟩] ++ [⟨v.ue, v.ds⟩] ++ ⟨v.ds, R.stop⟩ :: post) := by
      rw [e3, he]
      conv => lhs; rw [hR']
      exact (seqOfExons_merge3 chrom g.strand pre post (by omega) (by omega) (by omega)).symm
    rw [hg.1, applyAS_congr hbb, hseq, key]
    simp

/-- RI, no record for an annotated form: if some annotated isoform retains the intron (an
exon spanning `upstreamEE` and reaching beyond `downstreamES`), no Insertion is emitted.
Full statement of the property text; it holds since the `fix:` that tests `< exon_end`
(the unchanged tree tested `< exon_end - 1` and missed `R.stop = v.ds + 1`). -/
theorem ri_no_insertion_when_retained_annotated (g : Gene) (txs : List Transcript)
    (v : RI) (minIjc minSjc : Nat) (out : List (Nat × ASRec)) (t : Transcript)
    (pre post : List Iv) (R : Iv)
    (hout : riConvert v g txs minIjc minSjc = .ok out)
    (ht : t ∈ txs) (hw : t.WF) (he : t.exons = pre ++ R :: post)
    (h1 : R.start < v.ue) (h2 : v.ue < v.ds) (h3 : v.ds < R.stop) :
    ∀ x ∈ out, x.2.kind ≠ .insertion := by
  obtain ⟨hp1, _, hq1⟩ := wf_parts hw he
  have hwalk : riWalk v.ue v.ds t.exons = (false, 1) := by
    rw [he]
    exact riWalk_retained_form (fun e h => by have := hp1 e h; omega) h1 h2 h3
      (fun e h => by have := hq1 e h; omega)
  intro x hx hk
  obtain ⟨i, r⟩ := x
  obtain ⟨s, e, _, hcase⟩ := riConvert_mem hout hx
  rcases hcase with ⟨_, _, hnil, _, _⟩ | ⟨_, _, _, hr⟩
  · exact riRetained_ne_nil ht (by rw [hwalk]; decide) 0 hnil
  · rw [hr] at hk; cases hk

/-- RI: if some isoform has the intron spliced (the junction `upstreamEE → downstreamES`), no
Deletion is emitted -/
theorem ri_no_deletion_when_spliced_annotated (g : Gene) (txs : List Transcript)
    (v : RI) (minIjc minSjc : Nat) (out : List (Nat × ASRec)) (t : Transcript)
    (hout : riConvert v g txs minIjc minSjc = .ok out)
    (ht : t ∈ txs) (hw : t.WF) (hj : HasJunction v.ue v.ds t.exons) :
    ∀ x ∈ out, x.2.kind ≠ .deletion := by
  obtain ⟨pre, U, D, post, he, hU, hD⟩ := hj
  obtain ⟨hp1, _, hq1⟩ := wf_parts hw he
  have hwalk : riWalk v.ue v.ds t.exons = (true, 0) := by
    rw [he]
    exact riWalk_spliced_form (fun e h => by have := hp1 e h; omega) hU hD
      (by have := (hq1 D List.mem_cons_self).1; omega)
  intro x hx hk
  obtain ⟨i, r⟩ := x
  obtain ⟨s, e, _, hcase⟩ := riConvert_mem hout hx
  rcases hcase with ⟨_, _, _, _, hr⟩ | ⟨_, _, hnil, _⟩
  · rw [hr] at hk; cases hk
  · exact riSpliced_ne_nil ht (by rw [hwalk]) 0 hnil

/-- RI: read support below the thresholds ⇒ nothing; more precisely every Insertion needs
`IJC ≥ min_ijc` and every Deletion `SJC ≥ min_sjc` -/
theorem ri_no_emit_below_threshold (g : Gene) (txs : List Transcript) (v : RI)
    (minIjc minSjc : Nat) (out : List (Nat × ASRec))
    (hout : riConvert v g txs minIjc minSjc = .ok out) :
    (∀ x ∈ out, (x.2.kind = .insertion → v.ijc ≥ minIjc) ∧ (x.2.kind = .deletion → v.sjc ≥ minSjc)
      ∧ x.2.kind ≠ .substitution)
    ∧ (v.ijc < minIjc → v.sjc < minSjc → out = []) := by
  have hall : ∀ x ∈ out, (x.2.kind = .insertion → v.ijc ≥ minIjc)
      ∧ (x.2.kind = .deletion → v.sjc ≥ minSjc) ∧ x.2.kind ≠ .substitution := by
    intro x hx
    obtain ⟨i, r⟩ := x
    obtain ⟨s, e, _, hcase⟩ := riConvert_mem hout hx
    rcases hcase with ⟨_, h, _, _, hr⟩ | ⟨_, h, _, hr⟩ <;> subst hr <;> simp [h]
  refine ⟨hall, fun h1 h2 => ?_⟩
  apply List.eq_nil_iff_forall_not_mem.mpr
  intro x hx
  have := hall x hx
  cases hk : x.2.kind
  · have := this.2.1 hk; omega
  · have := this.1 hk; omega
  · exact this.2.2 hk

/-! ## junction novelty and the no-emit rules of SE / A5SS / A3SS / MXE -/

/-- `has_junction` finds every annotated junction of a well-formed transcript (its early
`break` never fires too soon) -/
theorem hasJunction_complete (t : Transcript) (hw : t.WF) (a b : Nat)
    (h : HasJunction a b t.exons) : hasJunction a b t.exons = true := by
  obtain ⟨pre, x, y, post, he, hx, hy⟩ := h
  rw [he]
  exact hasJunction_of_form (he ▸ hw.2.1) (he ▸ hw.2.2) hx hy

/-- `has_junction` only reports junctions that are there (any exon list) -/
theorem hasJunction_sound (a b : Nat) (es : List Iv) (h : hasJunction a b es = true) :
    HasJunction a b es := by
  induction es with
  | nil => simp [hasJunction] at h
  | cons e1 rest ih =>
    cases rest with
    | nil => simp [hasJunction] at h
    | cons e2 rest' =>
      rw [hasJunction_cons2] at h
      by_cases c1 : e2.start > b
      · rw [if_pos c1] at h; cases h
      · rw [if_neg c1] at h
        by_cases c2 : e1.stop = a ∧ e2.start = b
        · exact ⟨[], e1, e2, rest', rfl, c2.1, c2.2⟩
        · rw [if_neg c2] at h
          obtain ⟨pre, x, y, post, he, hx, hy⟩ := ih h
          exact ⟨e1 :: pre, x, y, post, by rw [he]; rfl, hx, hy⟩

/-- SE: all three junctions (skip, upstream-inclusion, downstream-inclusion) annotated in some
isoform ⇒ no record, whatever the counts -/
theorem se_no_emit_when_all_known (v : SE) (g : Gene) (txs : List Transcript)
    (minIjc minSjc : Nat) (h : AllAnnotated txs [v.skipJ, v.upJ, v.downJ]) :
    seConvert v g txs minIjc minSjc = .ok [] := by
  unfold seConvert
  rw [allKnown_of_annotated h]; rfl

/-- A5SS: long and short junction annotated ⇒ no record -/
theorem a5ss_no_emit_when_all_known (v : AxSS) (g : Gene) (txs : List Transcript)
    (minIjc minSjc : Nat)
    (h : AllAnnotated txs [(v.a5Junctions g.strand).1, (v.a5Junctions g.strand).2]) :
    a5Convert v g txs minIjc minSjc = .ok [] := by
  unfold a5Convert
  simp only
  rw [allKnown_of_annotated h]; rfl

/-- A3SS: long and short junction annotated ⇒ no record -/
theorem a3ss_no_emit_when_all_known (v : AxSS) (g : Gene) (txs : List Transcript)
    (minIjc minSjc : Nat)
    (h : AllAnnotated txs [(v.a3Junctions g.strand).1, (v.a3Junctions g.strand).2]) :
    a3Convert v g txs minIjc minSjc = .ok [] := by
  unfold a3Convert
  simp only
  rw [allKnown_of_annotated h]; rfl

/-- MXE: the two junctions the code looks at (first exon → downstream, upstream → second
exon) annotated ⇒ no record -/
theorem mxe_no_emit_when_all_known (v : MXE) (g : Gene) (txs : List Transcript)
    (minIjc minSjc : Nat) (h : AllAnnotated txs [v.firstDownJ, v.secondUpJ]) :
    mxeConvert v g txs minIjc minSjc = .ok [] := by
  unfold mxeConvert
  rw [allKnown_of_annotated h]; rfl

/-- SE: both counts below their thresholds ⇒ no record (if the call returns at all) -/
theorem se_no_emit_below_threshold (v : SE) (g : Gene) (txs : List Transcript)
    (minIjc minSjc : Nat) (out : List (Nat × ASRec)) (h1 : v.ijc < minIjc) (h2 : v.sjc < minSjc)
    (hout : seConvert v g txs minIjc minSjc = .ok out) : out = [] := by
  have hz : ∀ t ∈ txs, seTx v g minIjc minSjc t = .ok [] := by
    intro t _
    have a : ¬ v.sjc ≥ minSjc := by omega
    have b : ¬ v.ijc ≥ minIjc := by omega
    simp only [seTx, a, b, if_false]; rfl
  unfold seConvert at hout
  cases hk : allKnown txs [v.skipJ, v.upJ, v.downJ] with
  | error x => rw [hk] at hout; cases hout
  | ok k =>
    rw [hk] at hout
    cases k with
    | true => cases hout; rfl
    | false =>
      simp only [bind, Except.bind, Bool.false_eq_true, if_false] at hout
      cases hgg : g2gAll g [v.ue - 1, v.es, v.ee - 1, v.ds] with
      | error x => rw [hgg] at hout; cases hout
      | ok u =>
        rw [hgg, overTxs_nil hz 0] at hout
        cases hout; rfl

/-- A5SS / A3SS loop body: both counts below their thresholds ⇒ no record for any transcript -/
theorem axss_no_emit_below_threshold (v : AxSS) (jl jsh : Junction) (un dn : Bool) (g : Gene)
    (minIjc minSjc : Nat) (t : Transcript) (h1 : v.ijc < minIjc) (h2 : v.sjc < minSjc) :
    axTx v jl jsh un dn g minIjc minSjc t = .ok [] := by
  have a : ¬ v.sjc ≥ minSjc := by omega
  have b : ¬ v.ijc ≥ minIjc := by omega
  simp only [axTx, a, b, if_false]; rfl

/-- MXE loop body: `IJC < min_ijc` and `SJC ≤ min_sjc` (the code compares `SJC` strictly) ⇒ no
record for any transcript -/
theorem mxe_no_emit_below_threshold (v : MXE) (g : Gene) (minIjc minSjc : Nat) (t : Transcript)
    (h1 : v.ijc < minIjc) (h2 : v.sjc ≤ minSjc) :
    mxeTx v g minIjc minSjc t = .ok [] := by
  have a : ¬ v.sjc > minSjc := by omega
  have b : ¬ v.ijc ≥ minIjc := by omega
  simp only [mxeTx, a, b, if_false]; rfl

/-! ## SE (partial), A5SS / A3SS / MXE (statements only)

FULL STATEMENTS (not yet proved end to end; the right-hand sides are what the harness checks on
every real record):

* `se_skip_spec` : `t.exons = pre ++ U :: E :: D :: post`, `U.stop = v.ue`, `E = ⟨v.es, v.ee⟩`,
  `D.start = v.ds`, `t.WF`, `t.Within g`, `seTx v g minIjc minSjc t = .ok rs`, `r ∈ rs` →
  `applyAS g t.exons (seqOfExons chrom t.strand t.exons) (geneSeq chrom g) r
     = seqOfExons chrom t.strand (pre ++ U :: D :: post)`
* `se_include_spec` : `t.exons = pre ++ U :: D :: post`, `U.stop = v.ue < v.es < v.ee < v.ds =
  D.start`, same hypotheses → `… = seqOfExons chrom t.strand (pre ++ U :: ⟨v.es, v.ee⟩ :: D :: post)`
* `a5ss_spec`, `a3ss_spec` : the exon adjacent to the flanking exon ends (starts) at the long /
  short site → the record moves that boundary to the short / long site
* `mxe_spec` : `pre ++ U :: F₁ :: D :: post` ↦ `pre ++ U :: F₂ :: D :: post` and back.

What IS proved below for SE, both strands, arbitrary `pre` / `post`: the record that each path
of `convert_to_variant_records` builds once the alignment has found the exons
(`create_downstream_deletion` on the plus strand, `create_upstream_deletion` on the minus
strand, `create_upstream_insertion` for the inclusion form) reproduces the alternative isoform.
Missing: that `align_to_transcript` / `get_interjacent_exons` / `get_*_spanning` return exactly
these indices on the decomposed exon list and that the other two junctions of the event emit
nothing for the transcript — covered by the `aln` and `event` correspondence streams only. -/

/-- SE, skip form, the record of the plus-strand path (`create_downstream_deletion` with the
downstream exon as spanning exon and the skipped exon as the only interjacent one) -/
theorem se_skip_spec_partial_plus_path {chrom : List Char} {g : Gene} {a : Aln}
    {pre post : List Iv} {U E D : Iv} {r : ASRec}
    (hin : InGene g (pre ++ U :: E :: D :: post)) (hc : g.loc.stop ≤ chrom.length)
    (hp : ∀ e ∈ pre, e.stop ≤ U.start) (hU : U.start ≤ U.stop) (hUE : U.stop ≤ E.start)
    (hE : E.start < E.stop) (hED : E.stop ≤ D.start) (hq : ∀ e ∈ post, D.stop ≤ e.start)
    (hDs : D.start = a.j.ds)
    (h : createDownstreamDeletion a g (pre ++ U :: E :: D :: post) ((pre.length + 2 : Nat) : Int)
        [pre.length + 1] = .ok r) :
    applyAS g (pre ++ U :: E :: D :: post)
        (seqOfExons chrom g.strand (pre ++ U :: E :: D :: post)) (geneSeq chrom g) r
      = seqOfExons chrom g.strand (pre ++ U :: D :: post) := by
  have gE : (pre ++ U :: E :: D :: post)[pre.length + 1]? = some E := by
    rw [List.getElem?_append_right (by omega)]; simp
  have gD : (pre ++ U :: E :: D :: post)[pre.length + 2]? = some D := by
    rw [List.getElem?_append_right (by omega)]; simp
  have hEin := hin E (by simp)
  unfold createDownstreamDeletion at h
  simp only [ne_eq, List.cons_ne_self, not_false_eq_true, if_true, firstIdx, lastIdx,
    List.head?_cons, List.getLast?_singleton, bind, Except.bind, pure, Except.pure,
    pyGet_nat _ _ _ gE, pyGet_nat _ _ _ gD, hDs] at h
  have hr : r.kind = .deletion ∧ r.start = (geneIv g ⟨E.start, E.stop⟩).start
      ∧ r.stop = (geneIv g ⟨E.start, E.stop⟩).stop := by
    rw [g2g_ok (by omega) (by omega), g2g_ok (by omega) (by omega)] at h
    unfold mkLoc at h; unfold geneIv
    cases hs : g.strand <;> simp only [hs] at h ⊢
    · rw [if_neg (by omega)] at h
      simp only [Except.ok.injEq] at h; subst h; refine ⟨rfl, ?_, ?_⟩ <;> simp only <;> omega
    · rw [if_neg (by omega)] at h
      simp only [Except.ok.injEq] at h; subst h; refine ⟨rfl, ?_, ?_⟩ <;> simp only <;> omega
  have e1 : pre ++ U :: E :: D :: post = (pre ++ [U]) ++ [E] ++ D :: post := by simp
  have e2 : pre ++ U :: D :: post = (pre ++ [U]) ++ D :: post := by simp
  rw [e1, e2]
  rw [e1] at hin
  exact apply_deletion (chrom := chrom) (Ps := E.start) (Pe := E.stop) hin.left.left hin.left.right
    hin.right hc
    (by
      intro x hx
      rcases List.mem_append.mp hx with h | h
      · have := hp x h; omega
      · simp only [List.mem_singleton] at h; subst h; omega)
    (by intro x hx; simp only [List.mem_singleton] at hx; subst hx; omega)
    (by intro x hx; simp only [List.mem_singleton] at hx; subst hx; omega)
    (by
      intro x hx
      rcases List.mem_cons.mp hx with h | h
      · subst h; omega
      · have := hq x h
        have := hin.right D List.mem_cons_self
        omega)
    (by omega) hr.1 hr.2.1 hr.2.2


/-- SE, skip form, the record of the minus-strand path (`create_upstream_deletion` with the
upstream exon as spanning exon) -/
theorem se_skip_spec_partial_minus_path {chrom : List Char} {g : Gene} {a : Aln}
    {pre post : List Iv} {U E D : Iv} {r : ASRec}
    (hin : InGene g (pre ++ U :: E :: D :: post)) (hc : g.loc.stop ≤ chrom.length)
    (hp : ∀ e ∈ pre, e.stop ≤ U.start) (hU : U.start ≤ U.stop) (hUE : U.stop ≤ E.start)
    (hE : E.start < E.stop) (hED : E.stop ≤ D.start) (hq : ∀ e ∈ post, D.stop ≤ e.start)
    (hUs : U.stop = a.j.ue)
    (h : createUpstreamDeletion a g (pre ++ U :: E :: D :: post) ((pre.length : Nat) : Int)
        [pre.length + 1] = .ok r) :
    applyAS g (pre ++ U :: E :: D :: post)
        (seqOfExons chrom g.strand (pre ++ U :: E :: D :: post)) (geneSeq chrom g) r
      = seqOfExons chrom g.strand (pre ++ U :: D :: post) := by
  have gE : (pre ++ U :: E :: D :: post)[pre.length + 1]? = some E := by
    rw [List.getElem?_append_right (by omega)]; simp
  have gU : (pre ++ U :: E :: D :: post)[pre.length]? = some U := by simp
  have hEin := hin E (by simp)
  unfold createUpstreamDeletion at h
  simp only [ne_eq, List.cons_ne_self, not_false_eq_true, if_true, firstIdx, lastIdx,
    List.head?_cons, List.getLast?_singleton, bind, Except.bind, pure, Except.pure,
    pyGet_nat _ _ _ gE, pyGet_nat _ _ _ gU, hUs] at h
  have hr : r.kind = .deletion ∧ r.start = (geneIv g ⟨E.start, E.stop⟩).start
      ∧ r.stop = (geneIv g ⟨E.start, E.stop⟩).stop := by
    rw [g2g_ok (by omega) (by omega), g2g_ok (by omega) (by omega)] at h
    unfold mkLoc at h; unfold geneIv
    cases hs : g.strand <;> simp only [hs] at h ⊢
    · rw [if_neg (by omega)] at h
      simp only [Except.ok.injEq] at h; subst h; refine ⟨rfl, ?_, ?_⟩ <;> simp only <;> omega
    · rw [if_neg (by omega)] at h
      simp only [Except.ok.injEq] at h; subst h; refine ⟨rfl, ?_, ?_⟩ <;> simp only <;> omega
  have e1 : pre ++ U :: E :: D :: post = (pre ++ [U]) ++ [E] ++ D :: post := by simp
  have e2 : pre ++ U :: D :: post = (pre ++ [U]) ++ D :: post := by simp
  rw [e1, e2]
  rw [e1] at hin
  exact apply_deletion (chrom := chrom) (Ps := E.start) (Pe := E.stop) hin.left.left hin.left.right
    hin.right hc
    (by
      intro x hx
      rcases List.mem_append.mp hx with h | h
      · have := hp x h; omega
      · simp only [List.mem_singleton] at h; subst h; omega)
    (by intro x hx; simp only [List.mem_singleton] at hx; subst hx; omega)
    (by intro x hx; simp only [List.mem_singleton] at hx; subst hx; omega)
    (by
      intro x hx
      rcases List.mem_cons.mp hx with h | h
      · subst h; omega
      · have := hq x h
        have := hin.right D List.mem_cons_self
        omega)
    (by omega) hr.1 hr.2.1 hr.2.2

/-- SE, inclusion: the Insertion `create_upstream_insertion` builds for a transcript with the
two flanking exons adjacent (`… U D …`) from the junction skipped exon → downstream exon -/
theorem se_include_spec_partial {chrom : List Char} {g : Gene} {a : Aln}
    {pre post : List Iv} {U D E : Iv} {r : ASRec}
    (hin : InGene g (pre ++ U :: D :: post)) (hEin : InGene g [E])
    (hc : g.loc.stop ≤ chrom.length)
    (hp : ∀ e ∈ pre, e.stop ≤ U.start) (hU : U.start < U.stop) (hUE : U.stop ≤ E.start)
    (hE : E.start < E.stop) (hED : E.stop ≤ D.start) (hD : D.start < D.stop)
    (hq : ∀ e ∈ post, D.stop ≤ e.start)
    (hdsi : a.dsi = (pre.length : Int) + 1) (hjs : a.j.us = E.start) (hje : a.j.ue = E.stop)
    (hjd : a.j.ds = D.start)
    (h : createUpstreamInsertion a g (pre ++ U :: D :: post) = .ok r) :
    applyAS g (pre ++ U :: D :: post)
        (seqOfExons chrom g.strand (pre ++ U :: D :: post)) (geneSeq chrom g) r
      = seqOfExons chrom g.strand (pre ++ U :: E :: D :: post) := by
  have gU : (pre ++ U :: D :: post)[pre.length]? = some U := by simp
  have hUin := hin U (by simp)
  have hDin := hin D (by simp)
  have hE' := hEin E (by simp)
  have hi : a.dsi - 1 = ((pre.length : Nat) : Int) := by omega
  unfold createUpstreamInsertion at h
  rw [if_neg (by omega)] at h
  simp only [hi, pyGet_nat _ _ _ gU, bind, Except.bind, pure, Except.pure, hjs, hje, hjd] at h
  have hmax : max U.stop E.start = E.start := by omega
  rw [hmax] at h
  have e1 : pre ++ U :: D :: post = (pre ++ [U]) ++ D :: post := by simp
  have e2 : pre ++ U :: E :: D :: post = (pre ++ [U]) ++ E :: D :: post := by simp
  rw [e1] at hin
  have hA1 : ∀ x ∈ pre ++ [U], x.stop ≤ U.stop := by
    intro x hx
    rcases List.mem_append.mp hx with h | h
    · have := hp x h; omega
    · simp only [List.mem_singleton] at h; subst h; omega
  have hB1 : ∀ x ∈ D :: post, D.start ≤ x.start := by
    intro x hx
    rcases List.mem_cons.mp hx with h | h
    · subst h; omega
    · have := hq x h; omega
  rw [e1, e2]
  cases hs : g.strand with
  | plus =>
    simp only [hs] at h
    rw [g2g_ok (by omega) (by omega), g2g_ok (by omega) (by omega),
      g2g_ok (by omega) (by omega)] at h
    simp only [hs, Except.ok.injEq] at h
    rw [← hs]
    exact apply_insertion (chrom := chrom) (P := U.stop) hin.left hin.right hEin hc hA1
      (by intro x hx; have := hB1 x hx; omega) (by rw [← h])
      (by rw [← h]; unfold cut; simp only [hs]; omega)
      (by rw [← h]; unfold geneIv; simp only [hs])
      (by rw [← h]; unfold geneIv; simp only [hs]; omega)
  | minus =>
    simp only [hs] at h
    rw [g2g_ok (by omega) (by omega), g2g_ok (by omega) (by omega),
      g2g_ok (by omega) (by omega)] at h
    simp only [hs, Except.ok.injEq] at h
    rw [← hs]
    exact apply_insertion (chrom := chrom) (P := D.start) hin.left hin.right hEin hc
      (by intro x hx; have := hA1 x hx; omega) hB1 (by rw [← h])
      (by rw [← h]; unfold cut; simp only [hs]; omega)
      (by rw [← h]; unfold geneIv; simp only [hs]; omega)
      (by rw [← h]; unfold geneIv; simp only [hs]; omega)


end MoPepGen.Props.C16
