import MoPepGen.Lemmas.Rmats
import MoPepGen.Lemmas.RmatsEvent
/-!
# C16 — parseRMATS records reproduce the alternative isoform

Layer S (`Model/RmatsSpec.lean`): `applyAS` = the documented meaning of a Deletion /
Insertion / Substitution record on a transcript sequence, `seqOfExons` = the sequence of an
exon list on a strand, `HasJunction`.  Layer M (`Model/Rmats.lean`): the Python, function by
function.  All theorems are for arbitrary exon lists (`pre`, `post` of any length), arbitrary
chromosomes, both strands (`g.strand` is never fixed) and arbitrary thresholds.

Hypotheses are the decidable well-formedness predicates of C11 (`Transcript.WF`: exons
non-empty, ascending, separated by ≥ 1 base; `Transcript.Within`: inside the gene, same strand)
plus `g.loc.stop ≤ chrom.length`; "the event's exons coincide with exons of the transcript" is
the explicit shape `t.exons = pre ++ … ++ post` with the junction ends equal to the row's.

Contents: RI (complete); junction novelty and the no-emit rules of all types; SE / A5SS / A3SS /
MXE end to end (`se_skip_spec`, `se_include_spec`, `se_*_exact`, `a5ss_spec_*`, `a3ss_spec_*`,
`mxe_spec_*`): every record emitted for a transcript that carries one of the two forms of the
event, with the event's exons consecutive in the transcript, reproduces the other form — the
alignment step (`align_to_transcript`, interjacent / spanning exons, the cascade of
`convert_to_variant_records`) is part of the proof (`Lemmas/RmatsAlign.lean`,
`Lemmas/RmatsEvent.lean`).  Transcripts that match an event only partially are outside these
statements (differential streams `aln` / `event` and the direct predicate of the harness).
-/
namespace MoPepGen.Props.C16
open MoPepGen MoPepGen.Rmats

/-! ## non-vacuity: concrete values satisfying the hypotheses -/

def exGene : Gene := { strand := .minus, loc := ⟨2, 60⟩ }
def exSpliced : Transcript := { strand := .minus, exons := [⟨4, 9⟩, ⟨12, 20⟩, ⟨25, 31⟩, ⟨40, 52⟩] }
def exRetained : Transcript := { strand := .minus, exons := [⟨4, 9⟩, ⟨12, 31⟩, ⟨40, 52⟩] }
def exRI : RI := { us := 12, ue := 20, ds := 25, de := 31, ijc := 3, sjc := 2 }
def exChrom : List Char := (List.replicate 16 "ACGT".toList).flatten

example : exSpliced.WF ∧ exSpliced.Within exGene ∧ exRetained.WF ∧ exRetained.Within exGene
    ∧ exGene.loc.stop ≤ exChrom.length := by decide
/-- the spliced isoform gets the Insertion of the intron, the retained isoform (alone) the
Deletion; with both annotated nothing is emitted -/
example : riConvert exRI exGene [exSpliced] 1 1 = .ok [(0, ⟨.insertion, 34, 35, 35, 40⟩)] := by
  decide
example : riConvert exRI exGene [exRetained] 1 1 = .ok [(0, ⟨.deletion, 35, 40, 0, 0⟩)] := by
  decide
example : riConvert exRI exGene [exSpliced, exRetained] 1 1 = .ok [] := by decide
example : applyAS exGene exSpliced.exons (seqOfExons exChrom .minus exSpliced.exons)
    (geneSeq exChrom exGene) ⟨.insertion, 34, 35, 35, 40⟩
    = seqOfExons exChrom .minus exRetained.exons := by decide

/-! ## the sequence the records are applied to -/

/-- `seqOfExons` is what `get_transcript_sequence` returns (C11's `txSeq`) -/
theorem txSeq_eq_seqOfExons (chrom : List Char) (t : Transcript) (h : t.exons ≠ []) :
    txSeq chrom t = .ok (seqOfExons chrom t.strand t.exons) := by
  unfold txSeq seqOfExons
  rw [if_neg h]
  cases t.strand <;> rfl

/-! ## RI -/

/-- **Retained intron, spliced isoform.**  For every gene, every list of isoforms, every
threshold pair: a record emitted for a transcript that has the two exons of the event
adjacent (`… U D …`, `U` ending at `upstreamEE`, `D` starting at `downstreamES`), applied to
that transcript's sequence, gives the sequence of the isoform in which the intron is retained
(`U` and `D` fused into one exon), on both strands. -/
theorem ri_retain_spec (chrom : List Char) (g : Gene) (txs : List Transcript) (v : RI)
    (minIjc minSjc : Nat) (out : List (Nat × ASRec)) (i : Nat) (r : ASRec) (t : Transcript)
    (pre post : List Iv) (U D : Iv)
    (hout : riConvert v g txs minIjc minSjc = .ok out) (hm : (i, r) ∈ out)
    (hi : txs[i]? = some t) (he : t.exons = pre ++ U :: D :: post)
    (hw : t.WF) (hg : t.Within g) (hc : g.loc.stop ≤ chrom.length)
    (hU : U.stop = v.ue) (hD : D.start = v.ds) :
    applyAS g t.exons (seqOfExons chrom t.strand t.exons) (geneSeq chrom g) r
      = seqOfExons chrom t.strand (pre ++ ⟨U.start, D.stop⟩ :: post) := by
  have hin := inGene_of_within hw hg
  obtain ⟨hp1, hUne, hq1⟩ := wf_parts hw he
  have he2 : t.exons = (pre ++ [U]) ++ D :: post := by simp [he]
  obtain ⟨hp2, hDne, hq2⟩ := wf_parts hw he2
  have hUD : U.stop < D.start := (hq1 D List.mem_cons_self).1
  have hUin := hin U (by simp [he])
  have hDin := hin D (by simp [he])
  have hwalk : riWalk v.ue v.ds t.exons = (true, 0) := by
    rw [he]
    exact riWalk_spliced_form (fun e h => by have := hp1 e h; omega) hU hD (by omega)
  obtain ⟨s, e, hco, hcase⟩ := riConvert_mem hout hm
  rw [riCoords_eq (by omega) (by omega) (by omega)] at hco
  simp only [Except.ok.injEq, Prod.mk.injEq] at hco
  rcases hcase with ⟨_, _, _, hs0, hr⟩ | ⟨hret, _, _, _⟩
  · -- the Insertion of the intron
    have hA : InGene g (pre ++ [U]) := by
      intro x hx; exact hin x (by rw [he2]; exact List.mem_append_left _ hx)
    have hB : InGene g (D :: post) := by
      intro x hx; exact hin x (by rw [he2]; exact List.mem_append_right _ hx)
    have hDon : InGene g [⟨v.ue, v.ds⟩] := by
      intro x hx; simp only [List.mem_singleton] at hx; subst hx; simp only; omega
    have hA1 : ∀ x ∈ pre ++ [U], x.stop ≤ v.ue := by
      intro x hx
      rcases List.mem_append.mp hx with h | h
      · have := hp1 x h; omega
      · simp only [List.mem_singleton] at h; subst h; omega
    have hB1 : ∀ x ∈ D :: post, v.ds ≤ x.start := by
      intro x hx
      rcases List.mem_cons.mp hx with h | h
      · subst h; omega
      · have := hq2 x h; omega
    have key := apply_insertion (chrom := chrom) (g := g) (A := pre ++ [U]) (B := D :: post)
      (P := match g.strand with | .plus => v.ue | .minus => v.ds) (D := ⟨v.ue, v.ds⟩) (r := r)
      hA hB hDon hc
      (by intro x hx; have := hA1 x hx; cases g.strand <;> simp only <;> omega)
      (by intro x hx; have := hB1 x hx; cases g.strand <;> simp only <;> omega)
      (by rw [hr])
      (by
        rw [hr]; simp only
        obtain ⟨h1, _⟩ := hco
        unfold cut; unfold geneIv at h1
        cases hs : g.strand <;> simp only [hs] at h1 ⊢ <;> omega)
      (by rw [hr]; exact hco.1.symm) (by rw [hr]; exact hco.2.symm)
    rw [hg.1, he2, key]
    have hU' : U = ⟨U.start, v.ue⟩ := by cases U; simp only at hU; subst hU; rfl
    have hD' : D = ⟨v.ds, D.stop⟩ := by cases D; simp only at hD; subst hD; rfl
    have := seqOfExons_merge3 chrom g.strand pre post (a := U.start) (b := v.ue) (c := v.ds)
      (d := D.stop) (by omega) (by omega) (by omega)
    rw [← this, List.append_assoc]
    conv => lhs; rw [hU', hD']
    rfl
  · -- a Deletion is only emitted for transcripts the walk found retained
    obtain ⟨_, t', ht', hpos⟩ := mem_riRetained hret
    rw [Nat.sub_zero, hi] at ht'
    cases ht'
    rw [hwalk] at hpos
    exact absurd hpos (by decide)

/-- **Retained intron, retained isoform.**  A record emitted for a transcript one of whose
exons `R` spans the intron of the event (`R.start < upstreamEE < downstreamES < R.stop`) gives
the sequence of the isoform in which the intron is spliced out (`R` split into
`[R.start, upstreamEE)` and `[downstreamES, R.stop)`), on both strands. -/
theorem ri_splice_spec (chrom : List Char) (g : Gene) (txs : List Transcript) (v : RI)
    (minIjc minSjc : Nat) (out : List (Nat × ASRec)) (i : Nat) (r : ASRec) (t : Transcript)
    (pre post : List Iv) (R : Iv)
    (hout : riConvert v g txs minIjc minSjc = .ok out) (hm : (i, r) ∈ out)
    (hi : txs[i]? = some t) (he : t.exons = pre ++ R :: post)
    (hw : t.WF) (hg : t.Within g) (hc : g.loc.stop ≤ chrom.length)
    (h1 : R.start < v.ue) (h2 : v.ue < v.ds) (h3 : v.ds < R.stop) :
    applyAS g t.exons (seqOfExons chrom t.strand t.exons) (geneSeq chrom g) r
      = seqOfExons chrom t.strand (pre ++ ⟨R.start, v.ue⟩ :: ⟨v.ds, R.stop⟩ :: post) := by
  have hin := inGene_of_within hw hg
  obtain ⟨hp1, hRne, hq1⟩ := wf_parts hw he
  have hRin := hin R (by simp [he])
  have hwalk : riWalk v.ue v.ds t.exons = (false, 1) := by
    rw [he]
    exact riWalk_retained_form (fun e h => by have := hp1 e h; omega) h1 h2 h3
      (fun e h => by have := hq1 e h; omega)
  obtain ⟨s, e, hco, hcase⟩ := riConvert_mem hout hm
  rw [riCoords_eq (by omega) (by omega) (by omega)] at hco
  simp only [Except.ok.injEq, Prod.mk.injEq] at hco
  rcases hcase with ⟨hsp, _, _, _, _⟩ | ⟨_, _, _, hr⟩
  · obtain ⟨_, t', ht', hpos⟩ := mem_riSpliced hsp
    rw [Nat.sub_zero, hi] at ht'
    cases ht'
    rw [hwalk] at hpos
    cases hpos
  · have hpre : InGene g pre := fun x hx => hin x (by rw [he]; exact List.mem_append_left _ hx)
    have hpost : InGene g post := fun x hx =>
      hin x (by rw [he]; exact List.mem_append_right _ (List.mem_cons_of_mem _ hx))
    have hA : InGene g (pre ++ [⟨R.start, v.ue⟩]) := by
      apply hpre.append
      intro x hx; simp only [List.mem_singleton] at hx; subst hx; simp only; omega
    have hM : InGene g [⟨v.ue, v.ds⟩] := by
      intro x hx; simp only [List.mem_singleton] at hx; subst hx; simp only; omega
    have hB : InGene g (⟨v.ds, R.stop⟩ :: post) := by
      intro x hx
      rcases List.mem_cons.mp hx with h | h
      · subst h; simp only; omega
      · exact hpost x h
    have key := apply_deletion (chrom := chrom) (g := g) (A := pre ++ [⟨R.start, v.ue⟩])
      (M := [⟨v.ue, v.ds⟩]) (B := ⟨v.ds, R.stop⟩ :: post) (Ps := v.ue) (Pe := v.ds) (r := r)
      hA hM hB hc
      (by
        intro x hx
        rcases List.mem_append.mp hx with h | h
        · have := hp1 x h; omega
        · simp only [List.mem_singleton] at h; subst h; simp only; omega)
      (by intro x hx; simp only [List.mem_singleton] at hx; subst hx; simp only; omega)
      (by intro x hx; simp only [List.mem_singleton] at hx; subst hx; simp only; omega)
      (by
        intro x hx
        rcases List.mem_cons.mp hx with h | h
        · subst h; simp only; omega
        · have := hq1 x h; omega)
      (by omega) (by rw [hr]) (by rw [hr]; exact hco.1.symm) (by rw [hr]; exact hco.2.symm)
    have hR' : R = ⟨R.start, R.stop⟩ := by cases R; rfl
    have e3 : pre ++ [⟨R.start, v.ue⟩] ++ [⟨v.ue, v.ds⟩] ++ ⟨v.ds, R.stop⟩ :: post
        = pre ++ ⟨R.start, v.ue⟩ :: ⟨v.ue, v.ds⟩ :: ⟨v.ds, R.stop⟩ :: post := by simp
    have hbb : ∀ q, basesBefore g t.exons q
        = basesBefore g (pre ++ [⟨R.start, v.ue⟩] ++ [⟨v.ue, v.ds⟩] ++ ⟨v.ds, R.stop⟩ :: post) q := by
      intro q
      rw [e3, he]
      conv => lhs; rw [hR']
      exact basesBefore_split3 g pre post (by omega) (by omega) (by omega) (by omega) (by omega) q
    have hseq : seqOfExons chrom g.strand t.exons = seqOfExons chrom g.strand
        (pre ++ [⟨R.start, v.ue⟩] ++ [⟨v.ue, v.ds⟩] ++ ⟨v.ds, R.stop⟩ :: post) := by
      rw [e3, he]
      conv => lhs; rw [hR']
      exact (seqOfExons_merge3 chrom g.strand pre post (by omega) (by omega) (by omega)).symm
    rw [hg.1, applyAS_congr hbb, hseq, key]
    simp

/-- RI, no record for an annotated form: if some annotated isoform retains the intron (an
exon spanning `upstreamEE` and reaching beyond `downstreamES`), no Insertion is emitted.
Full statement of the property text; it holds since the `fix:` that tests `< exon_end`
(the unchanged tree tested `< exon_end - 1` and missed `R.stop = v.ds + 1`). -/
theorem ri_no_insertion_when_retained_annotated (g : Gene) (txs : List Transcript)
    (v : RI) (minIjc minSjc : Nat) (out : List (Nat × ASRec)) (t : Transcript)
    (pre post : List Iv) (R : Iv)
    (hout : riConvert v g txs minIjc minSjc = .ok out)
    (ht : t ∈ txs) (hw : t.WF) (he : t.exons = pre ++ R :: post)
    (h1 : R.start < v.ue) (h2 : v.ue < v.ds) (h3 : v.ds < R.stop) :
    ∀ x ∈ out, x.2.kind ≠ .insertion := by
  obtain ⟨hp1, _, hq1⟩ := wf_parts hw he
  have hwalk : riWalk v.ue v.ds t.exons = (false, 1) := by
    rw [he]
    exact riWalk_retained_form (fun e h => by have := hp1 e h; omega) h1 h2 h3
      (fun e h => by have := hq1 e h; omega)
  intro x hx hk
  obtain ⟨i, r⟩ := x
  obtain ⟨s, e, _, hcase⟩ := riConvert_mem hout hx
  rcases hcase with ⟨_, _, hnil, _, _⟩ | ⟨_, _, _, hr⟩
  · exact riRetained_ne_nil ht (by rw [hwalk]; decide) 0 hnil
  · rw [hr] at hk; cases hk

/-- RI: if some isoform has the intron spliced (the junction `upstreamEE → downstreamES`), no
Deletion is emitted -/
theorem ri_no_deletion_when_spliced_annotated (g : Gene) (txs : List Transcript)
    (v : RI) (minIjc minSjc : Nat) (out : List (Nat × ASRec)) (t : Transcript)
    (hout : riConvert v g txs minIjc minSjc = .ok out)
    (ht : t ∈ txs) (hw : t.WF) (hj : HasJunction v.ue v.ds t.exons) :
    ∀ x ∈ out, x.2.kind ≠ .deletion := by
  obtain ⟨pre, U, D, post, he, hU, hD⟩ := hj
  obtain ⟨hp1, _, hq1⟩ := wf_parts hw he
  have hwalk : riWalk v.ue v.ds t.exons = (true, 0) := by
    rw [he]
    exact riWalk_spliced_form (fun e h => by have := hp1 e h; omega) hU hD
      (by have := (hq1 D List.mem_cons_self).1; omega)
  intro x hx hk
  obtain ⟨i, r⟩ := x
  obtain ⟨s, e, _, hcase⟩ := riConvert_mem hout hx
  rcases hcase with ⟨_, _, _, _, hr⟩ | ⟨_, _, hnil, _⟩
  · rw [hr] at hk; cases hk
  · exact riSpliced_ne_nil ht (by rw [hwalk]) 0 hnil

/-- RI: read support below the thresholds ⇒ nothing; more precisely every Insertion needs
`IJC ≥ min_ijc` and every Deletion `SJC ≥ min_sjc` -/
theorem ri_no_emit_below_threshold (g : Gene) (txs : List Transcript) (v : RI)
    (minIjc minSjc : Nat) (out : List (Nat × ASRec))
    (hout : riConvert v g txs minIjc minSjc = .ok out) :
    (∀ x ∈ out, (x.2.kind = .insertion → v.ijc ≥ minIjc) ∧ (x.2.kind = .deletion → v.sjc ≥ minSjc)
      ∧ x.2.kind ≠ .substitution)
    ∧ (v.ijc < minIjc → v.sjc < minSjc → out = []) := by
  have hall : ∀ x ∈ out, (x.2.kind = .insertion → v.ijc ≥ minIjc)
      ∧ (x.2.kind = .deletion → v.sjc ≥ minSjc) ∧ x.2.kind ≠ .substitution := by
    intro x hx
    obtain ⟨i, r⟩ := x
    obtain ⟨s, e, _, hcase⟩ := riConvert_mem hout hx
    rcases hcase with ⟨_, h, _, _, hr⟩ | ⟨_, h, _, hr⟩ <;> subst hr <;> simp [h]
  refine ⟨hall, fun h1 h2 => ?_⟩
  apply List.eq_nil_iff_forall_not_mem.mpr
  intro x hx
  have := hall x hx
  cases hk : x.2.kind
  · have := this.2.1 hk; omega
  · have := this.1 hk; omega
  · exact this.2.2 hk

/-! ## junction novelty and the no-emit rules of SE / A5SS / A3SS / MXE -/

/-- `has_junction` finds every annotated junction of a well-formed transcript (its early
`break` never fires too soon) -/
theorem hasJunction_complete (t : Transcript) (hw : t.WF) (a b : Nat)
    (h : HasJunction a b t.exons) : hasJunction a b t.exons = true := by
  obtain ⟨pre, x, y, post, he, hx, hy⟩ := h
  rw [he]
  exact hasJunction_of_form (he ▸ hw.2.1) (he ▸ hw.2.2) hx hy

/-- `has_junction` only reports junctions that are there (any exon list) -/
theorem hasJunction_sound (a b : Nat) (es : List Iv) (h : hasJunction a b es = true) :
    HasJunction a b es := by
  induction es with
  | nil => simp [hasJunction] at h
  | cons e1 rest ih =>
    cases rest with
    | nil => simp [hasJunction] at h
    | cons e2 rest' =>
      rw [hasJunction_cons2] at h
      by_cases c1 : e2.start > b
      · rw [if_pos c1] at h; cases h
      · rw [if_neg c1] at h
        by_cases c2 : e1.stop = a ∧ e2.start = b
        · exact ⟨[], e1, e2, rest', rfl, c2.1, c2.2⟩
        · rw [if_neg c2] at h
          obtain ⟨pre, x, y, post, he, hx, hy⟩ := ih h
          exact ⟨e1 :: pre, x, y, post, by rw [he]; rfl, hx, hy⟩

/-- SE: all three junctions (skip, upstream-inclusion, downstream-inclusion) annotated in some
isoform ⇒ no record, whatever the counts -/
theorem se_no_emit_when_all_known (v : SE) (g : Gene) (txs : List Transcript)
    (minIjc minSjc : Nat) (h : AllAnnotated txs [v.skipJ, v.upJ, v.downJ]) :
    seConvert v g txs minIjc minSjc = .ok [] := by
  unfold seConvert
  rw [allKnown_of_annotated h]; rfl

/-- A5SS: long and short junction annotated ⇒ no record -/
theorem a5ss_no_emit_when_all_known (v : AxSS) (g : Gene) (txs : List Transcript)
    (minIjc minSjc : Nat)
    (h : AllAnnotated txs [(v.a5Junctions g.strand).1, (v.a5Junctions g.strand).2]) :
    a5Convert v g txs minIjc minSjc = .ok [] := by
  unfold a5Convert
  simp only
  rw [allKnown_of_annotated h]; rfl

/-- A3SS: long and short junction annotated ⇒ no record -/
theorem a3ss_no_emit_when_all_known (v : AxSS) (g : Gene) (txs : List Transcript)
    (minIjc minSjc : Nat)
    (h : AllAnnotated txs [(v.a3Junctions g.strand).1, (v.a3Junctions g.strand).2]) :
    a3Convert v g txs minIjc minSjc = .ok [] := by
  unfold a3Convert
  simp only
  rw [allKnown_of_annotated h]; rfl

/-- MXE: the two junctions the code looks at (first exon → downstream, upstream → second
exon) annotated ⇒ no record -/
theorem mxe_no_emit_when_all_known (v : MXE) (g : Gene) (txs : List Transcript)
    (minIjc minSjc : Nat) (h : AllAnnotated txs [v.firstDownJ, v.secondUpJ]) :
    mxeConvert v g txs minIjc minSjc = .ok [] := by
  unfold mxeConvert
  rw [allKnown_of_annotated h]; rfl

/-- SE: both counts below their thresholds ⇒ no record (if the call returns at all) -/
theorem se_no_emit_below_threshold (v : SE) (g : Gene) (txs : List Transcript)
    (minIjc minSjc : Nat) (out : List (Nat × ASRec)) (h1 : v.ijc < minIjc) (h2 : v.sjc < minSjc)
    (hout : seConvert v g txs minIjc minSjc = .ok out) : out = [] := by
  have hz : ∀ t ∈ txs, seTx v g minIjc minSjc t = .ok [] := by
    intro t _
    have a : ¬ v.sjc ≥ minSjc := by omega
    have b : ¬ v.ijc ≥ minIjc := by omega
    simp only [seTx, a, b, if_false]; rfl
  unfold seConvert at hout
  cases hk : allKnown txs [v.skipJ, v.upJ, v.downJ] with
  | error x => rw [hk] at hout; cases hout
  | ok k =>
    rw [hk] at hout
    cases k with
    | true => cases hout; rfl
    | false =>
      simp only [bind, Except.bind, Bool.false_eq_true, if_false] at hout
      cases hgg : g2gAll g [v.ue - 1, v.es, v.ee - 1, v.ds] with
      | error x => rw [hgg] at hout; cases hout
      | ok u =>
        rw [hgg, overTxs_nil hz 0] at hout
        cases hout; rfl

/-- A5SS / A3SS loop body: both counts below their thresholds ⇒ no record for any transcript -/
theorem axss_no_emit_below_threshold (v : AxSS) (jl jsh : Junction) (un dn : Bool) (g : Gene)
    (minIjc minSjc : Nat) (t : Transcript) (h1 : v.ijc < minIjc) (h2 : v.sjc < minSjc) :
    axTx v jl jsh un dn g minIjc minSjc t = .ok [] := by
  have a : ¬ v.sjc ≥ minSjc := by omega
  have b : ¬ v.ijc ≥ minIjc := by omega
  simp only [axTx, a, b, if_false]; rfl

/-- MXE loop body: `IJC < min_ijc` and `SJC ≤ min_sjc` (the code compares `SJC` strictly) ⇒ no
record for any transcript -/
theorem mxe_no_emit_below_threshold (v : MXE) (g : Gene) (minIjc minSjc : Nat) (t : Transcript)
    (h1 : v.ijc < minIjc) (h2 : v.sjc ≤ minSjc) :
    mxeTx v g minIjc minSjc t = .ok [] := by
  have a : ¬ v.sjc > minSjc := by omega
  have b : ¬ v.ijc ≥ minIjc := by omega
  simp only [mxeTx, a, b, if_false]; rfl

/-! ## SE, A5SS, A3SS, MXE: the record constructors on the aligned exons (`_partial`)

The three `_partial` theorems below say, for SE on both strands and arbitrary `pre` / `post`, that
the record each path of `convert_to_variant_records` builds *once the alignment has found the
exons* (`create_downstream_deletion` on the plus strand, `create_upstream_deletion` on the minus
strand, `create_upstream_insertion` for the inclusion form) reproduces the alternative isoform.
They assume the indices (`spanning`, `interjacent`, `downstream_start_index`).

The FULL statements follow them (sections "SE, end to end", "A5SS / A3SS, end to end", "MXE, end
to end"): `se_skip_spec`, `se_include_spec`, `a5ss_spec_{long,short}_{plus,minus}`,
`a3ss_spec_{long,short}_{plus,minus}`, `mxe_spec_first`, `mxe_spec_second` and the `_event`
variants.  There the indices are no longer assumed: `Lemmas/RmatsAlign.lean` proves what
`align_to_transcript`, `get_interjacent_exons`, `get_upstream_end_spanning` and
`get_downstream_start_spanning` return on an exon list decomposed around the exons of the event
(under `t.WF`), which branch of the cascade is taken, and that every OTHER junction of the event
either joins two adjacent exons of the transcript (`alignConvert_adjacent`: no record) or can
only emit a record with the same effect. -/

/-- SE, skip form, the record of the plus-strand path (`create_downstream_deletion` with the
downstream exon as spanning exon and the skipped exon as the only interjacent one) -/
theorem se_skip_spec_partial_plus_path {chrom : List Char} {g : Gene} {a : Aln}
    {pre post : List Iv} {U E D : Iv} {r : ASRec}
    (hin : InGene g (pre ++ U :: E :: D :: post)) (hc : g.loc.stop ≤ chrom.length)
    (hp : ∀ e ∈ pre, e.stop ≤ U.start) (hU : U.start ≤ U.stop) (hUE : U.stop ≤ E.start)
    (hE : E.start < E.stop) (hED : E.stop ≤ D.start) (hq : ∀ e ∈ post, D.stop ≤ e.start)
    (hDs : D.start = a.j.ds)
    (h : createDownstreamDeletion a g (pre ++ U :: E :: D :: post) ((pre.length + 2 : Nat) : Int)
        [pre.length + 1] = .ok r) :
    applyAS g (pre ++ U :: E :: D :: post)
        (seqOfExons chrom g.strand (pre ++ U :: E :: D :: post)) (geneSeq chrom g) r
      = seqOfExons chrom g.strand (pre ++ U :: D :: post) := by
  have gE : (pre ++ U :: E :: D :: post)[pre.length + 1]? = some E := by
    rw [List.getElem?_append_right (by omega)]; simp
  have gD : (pre ++ U :: E :: D :: post)[pre.length + 2]? = some D := by
    rw [List.getElem?_append_right (by omega)]; simp
  have hEin := hin E (by simp)
  unfold createDownstreamDeletion at h
  simp only [ne_eq, List.cons_ne_self, not_false_eq_true, if_true, firstIdx, lastIdx,
    List.head?_cons, List.getLast?_singleton, bind, Except.bind, pure, Except.pure,
    pyGet_nat _ _ _ gE, pyGet_nat _ _ _ gD, hDs] at h
  have hr : r.kind = .deletion ∧ r.start = (geneIv g ⟨E.start, E.stop⟩).start
      ∧ r.stop = (geneIv g ⟨E.start, E.stop⟩).stop := by
    rw [g2g_ok (by omega) (by omega), g2g_ok (by omega) (by omega)] at h
    unfold mkLoc at h; unfold geneIv
    cases hs : g.strand <;> simp only [hs] at h ⊢
    · rw [if_neg (by omega)] at h
      simp only [Except.ok.injEq] at h; subst h; refine ⟨rfl, ?_, ?_⟩ <;> simp only <;> omega
    · rw [if_neg (by omega)] at h
      simp only [Except.ok.injEq] at h; subst h; refine ⟨rfl, ?_, ?_⟩ <;> simp only <;> omega
  have e1 : pre ++ U :: E :: D :: post = (pre ++ [U]) ++ [E] ++ D :: post := by simp
  have e2 : pre ++ U :: D :: post = (pre ++ [U]) ++ D :: post := by simp
  rw [e1, e2]
  rw [e1] at hin
  exact apply_deletion (chrom := chrom) (Ps := E.start) (Pe := E.stop) hin.left.left hin.left.right
    hin.right hc
    (by
      intro x hx
      rcases List.mem_append.mp hx with h | h
      · have := hp x h; omega
      · simp only [List.mem_singleton] at h; subst h; omega)
    (by intro x hx; simp only [List.mem_singleton] at hx; subst hx; omega)
    (by intro x hx; simp only [List.mem_singleton] at hx; subst hx; omega)
    (by
      intro x hx
      rcases List.mem_cons.mp hx with h | h
      · subst h; omega
      · have := hq x h
        have := hin.right D List.mem_cons_self
        omega)
    (by omega) hr.1 hr.2.1 hr.2.2


/-- SE, skip form, the record of the minus-strand path (`create_upstream_deletion` with the
upstream exon as spanning exon) -/
theorem se_skip_spec_partial_minus_path {chrom : List Char} {g : Gene} {a : Aln}
    {pre post : List Iv} {U E D : Iv} {r : ASRec}
    (hin : InGene g (pre ++ U :: E :: D :: post)) (hc : g.loc.stop ≤ chrom.length)
    (hp : ∀ e ∈ pre, e.stop ≤ U.start) (hU : U.start ≤ U.stop) (hUE : U.stop ≤ E.start)
    (hE : E.start < E.stop) (hED : E.stop ≤ D.start) (hq : ∀ e ∈ post, D.stop ≤ e.start)
    (hUs : U.stop = a.j.ue)
    (h : createUpstreamDeletion a g (pre ++ U :: E :: D :: post) ((pre.length : Nat) : Int)
        [pre.length + 1] = .ok r) :
    applyAS g (pre ++ U :: E :: D :: post)
        (seqOfExons chrom g.strand (pre ++ U :: E :: D :: post)) (geneSeq chrom g) r
      = seqOfExons chrom g.strand (pre ++ U :: D :: post) := by
  have gE : (pre ++ U :: E :: D :: post)[pre.length + 1]? = some E := by
    rw [List.getElem?_append_right (by omega)]; simp
  have gU : (pre ++ U :: E :: D :: post)[pre.length]? = some U := by simp
  have hEin := hin E (by simp)
  unfold createUpstreamDeletion at h
  simp only [ne_eq, List.cons_ne_self, not_false_eq_true, if_true, firstIdx, lastIdx,
    List.head?_cons, List.getLast?_singleton, bind, Except.bind, pure, Except.pure,
    pyGet_nat _ _ _ gE, pyGet_nat _ _ _ gU, hUs] at h
  have hr : r.kind = .deletion ∧ r.start = (geneIv g ⟨E.start, E.stop⟩).start
      ∧ r.stop = (geneIv g ⟨E.start, E.stop⟩).stop := by
    rw [g2g_ok (by omega) (by omega), g2g_ok (by omega) (by omega)] at h
    unfold mkLoc at h; unfold geneIv
    cases hs : g.strand <;> simp only [hs] at h ⊢
    · rw [if_neg (by omega)] at h
      simp only [Except.ok.injEq] at h; subst h; refine ⟨rfl, ?_, ?_⟩ <;> simp only <;> omega
    · rw [if_neg (by omega)] at h
      simp only [Except.ok.injEq] at h; subst h; refine ⟨rfl, ?_, ?_⟩ <;> simp only <;> omega
  have e1 : pre ++ U :: E :: D :: post = (pre ++ [U]) ++ [E] ++ D :: post := by simp
  have e2 : pre ++ U :: D :: post = (pre ++ [U]) ++ D :: post := by simp
  rw [e1, e2]
  rw [e1] at hin
  exact apply_deletion (chrom := chrom) (Ps := E.start) (Pe := E.stop) hin.left.left hin.left.right
    hin.right hc
    (by
      intro x hx
      rcases List.mem_append.mp hx with h | h
      · have := hp x h; omega
      · simp only [List.mem_singleton] at h; subst h; omega)
    (by intro x hx; simp only [List.mem_singleton] at hx; subst hx; omega)
    (by intro x hx; simp only [List.mem_singleton] at hx; subst hx; omega)
    (by
      intro x hx
      rcases List.mem_cons.mp hx with h | h
      · subst h; omega
      · have := hq x h
        have := hin.right D List.mem_cons_self
        omega)
    (by omega) hr.1 hr.2.1 hr.2.2

/-- SE, inclusion: the Insertion `create_upstream_insertion` builds for a transcript with the
two flanking exons adjacent (`… U D …`) from the junction skipped exon → downstream exon -/
theorem se_include_spec_partial {chrom : List Char} {g : Gene} {a : Aln}
    {pre post : List Iv} {U D E : Iv} {r : ASRec}
    (hin : InGene g (pre ++ U :: D :: post)) (hEin : InGene g [E])
    (hc : g.loc.stop ≤ chrom.length)
    (hp : ∀ e ∈ pre, e.stop ≤ U.start) (hU : U.start < U.stop) (hUE : U.stop ≤ E.start)
    (hE : E.start < E.stop) (hED : E.stop ≤ D.start) (hD : D.start < D.stop)
    (hq : ∀ e ∈ post, D.stop ≤ e.start)
    (hdsi : a.dsi = (pre.length : Int) + 1) (hjs : a.j.us = E.start) (hje : a.j.ue = E.stop)
    (hjd : a.j.ds = D.start)
    (h : createUpstreamInsertion a g (pre ++ U :: D :: post) = .ok r) :
    applyAS g (pre ++ U :: D :: post)
        (seqOfExons chrom g.strand (pre ++ U :: D :: post)) (geneSeq chrom g) r
      = seqOfExons chrom g.strand (pre ++ U :: E :: D :: post) := by
  have gU : (pre ++ U :: D :: post)[pre.length]? = some U := by simp
  have hUin := hin U (by simp)
  have hDin := hin D (by simp)
  have hE' := hEin E (by simp)
  have hi : a.dsi - 1 = ((pre.length : Nat) : Int) := by omega
  unfold createUpstreamInsertion at h
  rw [if_neg (by omega)] at h
  simp only [hi, pyGet_nat _ _ _ gU, bind, Except.bind, pure, Except.pure, hjs, hje, hjd] at h
  have hmax : max U.stop E.start = E.start := by omega
  rw [hmax] at h
  have e1 : pre ++ U :: D :: post = (pre ++ [U]) ++ D :: post := by simp
  have e2 : pre ++ U :: E :: D :: post = (pre ++ [U]) ++ E :: D :: post := by simp
  rw [e1] at hin
  have hA1 : ∀ x ∈ pre ++ [U], x.stop ≤ U.stop := by
    intro x hx
    rcases List.mem_append.mp hx with h | h
    · have := hp x h; omega
    · simp only [List.mem_singleton] at h; subst h; omega
  have hB1 : ∀ x ∈ D :: post, D.start ≤ x.start := by
    intro x hx
    rcases List.mem_cons.mp hx with h | h
    · subst h; omega
    · have := hq x h; omega
  rw [e1, e2]
  cases hs : g.strand with
  | plus =>
    simp only [hs] at h
    rw [g2g_ok (by omega) (by omega), g2g_ok (by omega) (by omega),
      g2g_ok (by omega) (by omega)] at h
    simp only [hs, Except.ok.injEq] at h
    rw [← hs]
    exact apply_insertion (chrom := chrom) (P := U.stop) hin.left hin.right hEin hc hA1
      (by intro x hx; have := hB1 x hx; omega) (by rw [← h])
      (by rw [← h]; unfold cut; simp only [hs]; omega)
      (by rw [← h]; unfold geneIv; simp only [hs])
      (by rw [← h]; unfold geneIv; simp only [hs]; omega)
  | minus =>
    simp only [hs] at h
    rw [g2g_ok (by omega) (by omega), g2g_ok (by omega) (by omega),
      g2g_ok (by omega) (by omega)] at h
    simp only [hs, Except.ok.injEq] at h
    rw [← hs]
    exact apply_insertion (chrom := chrom) (P := D.start) hin.left hin.right hEin hc
      (by intro x hx; have := hA1 x hx; omega) hB1 (by rw [← h])
      (by rw [← h]; unfold cut; simp only [hs]; omega)
      (by rw [← h]; unfold geneIv; simp only [hs]; omega)
      (by rw [← h]; unfold geneIv; simp only [hs]; omega)


/-- the skip junction of an SE event (both ends annotated: `upstream_novel = downstream_novel =
False`) aligned to a transcript that has the cassette exon: `align_to_transcript` finds `U` and
`D`, `get_interjacent_exons` returns exactly the cassette exon, the spanning search finds `D`
(plus) / `U` (minus), and the only record is the Deletion of `E` -/
theorem alignConvert_known_skip {chrom : List Char} {g : Gene} {t : Transcript} {j : Junction}
    {pre post : List Iv} {U E D : Iv} {rs : List ASRec} {r : ASRec}
    (he : t.exons = pre ++ U :: E :: D :: post) (hw : t.WF) (hg : t.Within g)
    (hc : g.loc.stop ≤ chrom.length) (hu : j.ue = U.stop) (hd : j.ds = D.start)
    (h : alignConvert j g t false false = .ok rs) (hr : r ∈ rs) :
    applyAS g t.exons (seqOfExons chrom t.strand t.exons) (geneSeq chrom g) r
      = seqOfExons chrom t.strand (pre ++ U :: D :: post) := by
  have hch := chain3_of_wf hw he
  have hin := inGene_of_within hw hg
  obtain ⟨hp, hP, hPM, hM, hMQ, hQ, hq⟩ := id hch
  have e2 : pre ++ U :: E :: D :: post = (pre ++ [U, E]) ++ D :: post := by simp
  have huei : exonWithEnd t.exons j.ue = (pre.length : Int) := by
    rw [he]; exact exonWithEnd_hit (fun e h => by have := hp e h; omega) hu.symm
  have hdsi : exonWithStart t.exons j.ds = (pre.length : Int) + 2 := by
    rw [he, e2, exonWithStart_hit (by
      intro e h
      simp only [List.mem_append, List.mem_cons, List.not_mem_nil, or_false] at h
      rcases h with h | rfl | rfl
      · have := hp e h; omega
      · omega
      · omega) hd.symm]
    simp
  rw [alignConvert_known] at h
  generalize ha : alnOf j t.exons false false = a at h
  have haj : a.j = j := by rw [← ha]; rfl
  have hau : a.uei = (pre.length : Int) := by rw [← ha]; exact huei
  have had : a.dsi = ((pre ++ [U, E]).length : Int) := by rw [← ha]; simp; exact hdsi
  have hun : a.un = false := by rw [← ha]; rfl
  have hdn : a.dn = false := by rw [← ha]; rfl
  have hinter : getInterjacent a t.exons = .ok [pre.length + 1] := by
    rw [he, getInterjacent_fwd hau (by rw [had]; simp; omega) (by simp), haj,
      interFwd_hit (interjacentTest_true (by omega) (by omega) (by omega))
        (interjacentBreak_false (by omega) (by omega)),
      interFwd_stop (interjacentTest_false (by omega)) (interjacentBreak_true (by omega))]
  rw [convertAln_known hun hdn hinter] at h
  have hp' : ∀ e ∈ pre, e.stop ≤ U.start := fun e h => by have := hp e h; omega
  have hq' : ∀ e ∈ post, D.stop ≤ e.start := fun e h => by have := hq e h; omega
  cases hst : t.strand with
  | plus =>
    have hsp : getDownstreamStartSpanning a t.exons = ((pre.length + 2 : Nat) : Int) := by
      rw [he, getDownstreamStartSpanning_fwd hau, haj]
      unfold idxWhere
      rw [contains_false (by omega)]
      simp only [Bool.false_eq_true, if_false]
      unfold idxWhere
      rw [contains_true (by omega) (by omega)]
      simp only [if_true]
    have hrec := convKnown_plus_del_mem hst (Or.inr (by simp)) hsp h hr
    rw [← hst, hg.1]
    rw [he] at hrec hin ⊢
    exact se_skip_spec_partial_plus_path hin hc hp' (by omega) (by omega) hM (by omega) hq'
      (by rw [haj]; exact hd.symm) hrec
  | minus =>
    have hsp : getUpstreamEndSpanning a t.exons = ((pre.length : Nat) : Int) := by
      rw [he, e2, getUpstreamEndSpanning_bwd (by rw [haj]; omega) had]
      simp only [List.reverse_append, List.reverse_cons, List.reverse_nil, List.nil_append,
        List.cons_append, haj]
      unfold idxWhereDown
      rw [contains_false (by omega)]
      simp only [Bool.false_eq_true, if_false]
      unfold idxWhereDown
      rw [contains_true (by omega) (by omega)]
      simp
    have hrec := convKnown_minus_del_mem hst (Or.inr (by simp)) hsp h hr
    rw [← hst, hg.1]
    rw [he] at hrec hin ⊢
    exact se_skip_spec_partial_minus_path hin hc hp' (by omega) (by omega) hM (by omega) hq'
      (by rw [haj]; exact hu.symm) hrec

/-! ## SE, end to end -/

/-- **Skipped exon, transcript has the cassette exon** (`… U E D …`, `U` ending at
`upstreamEE`, `E` = the event's exon, `D` starting at `downstreamES`).  Every record the loop
body of `SERecord.convert_to_variant_records` emits for that transcript — from any of the three
junctions, any thresholds, both strands — applied to the transcript sequence gives the sequence
of the isoform without `E`.  (The two inclusion junctions `U → E`, `E → D` join adjacent exons of
the transcript and emit nothing; the skip junction emits the Deletion of `E`.) -/
theorem se_skip_spec (chrom : List Char) (g : Gene) (v : SE) (minIjc minSjc : Nat)
    (t : Transcript) (pre post : List Iv) (U E D : Iv) (rs : List ASRec) (r : ASRec)
    (he : t.exons = pre ++ U :: E :: D :: post) (hw : t.WF) (hg : t.Within g)
    (hc : g.loc.stop ≤ chrom.length)
    (hU : U.stop = v.ue) (hE : E = ⟨v.es, v.ee⟩) (hD : D.start = v.ds)
    (h : seTx v g minIjc minSjc t = .ok rs) (hr : r ∈ rs) :
    applyAS g t.exons (seqOfExons chrom t.strand t.exons) (geneSeq chrom g) r
      = seqOfExons chrom t.strand (pre ++ U :: D :: post) := by
  have hch := chain3_of_wf hw he
  rcases seTx_mem h hr with ⟨_, rs', h', hr'⟩ | ⟨_, rs', h', hr'⟩ | ⟨_, rs', h', hr'⟩
  · exact alignConvert_known_skip he hw hg hc hU.symm hD.symm h' hr'
  · rw [alignConvert_adjacent he hch.left (by simp [SE.upJ, hU]) (by simp [SE.upJ, hE])] at h'
    cases h'; cases hr'
  · have he' : t.exons = (pre ++ [U]) ++ E :: D :: post := by simp [he]
    rw [alignConvert_adjacent he' hch.right (by simp [SE.downJ, hE]) (by simp [SE.downJ, hD])] at h'
    cases h'; cases hr'

/-- **Skipped exon, transcript lacks the cassette exon** (`… U D …`, `U` ending at
`upstreamEE`, `D` starting at `downstreamES`, the event's exon strictly inside the intron).
Every record emitted for that transcript gives the sequence of the isoform with the exon
`[exonStart, exonEnd)` included between `U` and `D`, on both strands.  (The skip junction joins
adjacent exons and emits nothing; `U → E` can only emit the downstream Insertion and `E → D`
the upstream Insertion of the same exon.) -/
theorem se_include_spec (chrom : List Char) (g : Gene) (v : SE) (minIjc minSjc : Nat)
    (t : Transcript) (pre post : List Iv) (U D : Iv) (rs : List ASRec) (r : ASRec)
    (he : t.exons = pre ++ U :: D :: post) (hw : t.WF) (hg : t.Within g)
    (hc : g.loc.stop ≤ chrom.length)
    (hU : U.stop = v.ue) (hD : D.start = v.ds)
    (h1 : v.ue < v.es) (h2 : v.es < v.ee) (h3 : v.ee < v.ds)
    (h : seTx v g minIjc minSjc t = .ok rs) (hr : r ∈ rs) :
    applyAS g t.exons (seqOfExons chrom t.strand t.exons) (geneSeq chrom g) r
      = seqOfExons chrom t.strand (pre ++ U :: ⟨v.es, v.ee⟩ :: D :: post) := by
  have hch := chain2_of_wf hw he
  rcases seTx_mem h hr with ⟨_, rs', h', hr'⟩ | ⟨_, rs', h', hr'⟩ | ⟨_, rs', h', hr'⟩
  · rw [alignConvert_adjacent he hch (by simp [SE.skipJ, hU]) (by simp [SE.skipJ, hD])] at h'
    cases h'; cases hr'
  · rw [alignConvert_dn_intron (j := v.upJ) he hw hg hc (by simp [SE.upJ, hU])
      (by simp only [SE.upJ]; omega) (by simp only [SE.upJ]; omega) (by simp only [SE.upJ]; omega)
      h' hr']
    have : min D.start v.ee = v.ee := by omega
    simp only [SE.upJ, this]
  · rw [alignConvert_un_intron (j := v.downJ) he hw hg hc (by simp [SE.downJ, hD])
      (by simp only [SE.downJ]; omega) (by simp only [SE.downJ]; omega)
      (by simp only [SE.downJ]; omega) h' hr']
    have : max U.stop v.es = v.es := by omega
    simp only [SE.downJ, this]

/-- SE, transcript has the cassette exon: the two inclusion junctions `U → E` and `E → D` emit
NO record for it (they join exons that are adjacent in the transcript), whatever the flags'
values would suggest; so every record of `se_skip_spec` comes from the skip junction -/
theorem se_skip_inclusion_junctions_silent (g : Gene) (v : SE) (t : Transcript)
    (pre post : List Iv) (U E D : Iv)
    (he : t.exons = pre ++ U :: E :: D :: post) (hw : t.WF)
    (hU : U.stop = v.ue) (hE : E = ⟨v.es, v.ee⟩) (hD : D.start = v.ds) :
    alignConvert v.upJ g t false true = .ok [] ∧ alignConvert v.downJ g t true false = .ok [] := by
  have hch := chain3_of_wf hw he
  have he' : t.exons = (pre ++ [U]) ++ E :: D :: post := by simp [he]
  exact ⟨alignConvert_adjacent he hch.left (by simp [SE.upJ, hU]) (by simp [SE.upJ, hE]),
    alignConvert_adjacent he' hch.right (by simp [SE.downJ, hE]) (by simp [SE.downJ, hD])⟩

/-- SE, transcript lacks the cassette exon: the skip junction `U → D` emits NO record for it -/
theorem se_include_skip_junction_silent (g : Gene) (v : SE) (t : Transcript)
    (pre post : List Iv) (U D : Iv)
    (he : t.exons = pre ++ U :: D :: post) (hw : t.WF)
    (hU : U.stop = v.ue) (hD : D.start = v.ds) :
    alignConvert v.skipJ g t false false = .ok [] :=
  alignConvert_adjacent he (chain2_of_wf hw he) (by simp [SE.skipJ, hU]) (by simp [SE.skipJ, hD])

/-- **SE, transcript has the cassette exon: the exact output of the loop body.**  For every gene
containing the transcript, both strands, any thresholds: exactly one record, the Deletion of the
gene interval of `E`, iff `SJC ≥ min_sjc` — except that on the minus strand the code also
requires `tx_end > downstream_exon_start + 1` (nothing is emitted when the downstream exon is a
1-nt last exon).  In particular the call never raises and no junction emits anything else. -/
theorem se_skip_exact (g : Gene) (v : SE) (minIjc minSjc : Nat)
    (t : Transcript) (pre post : List Iv) (U E D : Iv)
    (he : t.exons = pre ++ U :: E :: D :: post) (hw : t.WF) (hg : t.Within g)
    (hU : U.stop = v.ue) (hE : E = ⟨v.es, v.ee⟩) (hD : D.start = v.ds) :
    seTx v g minIjc minSjc t
      = .ok (if v.sjc ≥ minSjc ∧ (t.strand = .plus ∨ t.spanStop > v.ds + 1)
          then [⟨.deletion, (geneIv g E).start, (geneIv g E).stop, 0, 0⟩] else []) := by
  obtain ⟨h2, h3⟩ := se_skip_inclusion_junctions_silent g v t pre post U E D he hw hU hE hD
  have h1 := alignConvert_known_skip_exact (j := v.skipJ) he hw hg hU.symm hD.symm
  unfold seTx
  rw [h1, h2, h3]
  simp only [SE.skipJ, delRec]
  by_cases c1 : v.sjc ≥ minSjc <;> by_cases c2 : v.ijc ≥ minIjc <;>
    by_cases c3 : (t.strand = .plus ∨ t.spanStop > v.ds + 1) <;>
    simp [c1, c2, c3, bind, Except.bind, pure, Except.pure]

/-- **SE, transcript lacks the cassette exon: the exact output of the loop body.**  Exactly one
record iff `IJC ≥ min_ijc`: the Insertion of the gene interval of the event's exon after the last
transcript base before the intron (`c` = number of gene bases upstream of the insertion point).
It comes from the junction `E → D`; `U → D` and `U → E` emit nothing. -/
theorem se_include_exact (g : Gene) (v : SE) (minIjc minSjc : Nat)
    (t : Transcript) (pre post : List Iv) (U D : Iv)
    (he : t.exons = pre ++ U :: D :: post) (hw : t.WF) (hg : t.Within g)
    (hU : U.stop = v.ue) (hD : D.start = v.ds)
    (h1 : v.ue < v.es) (h2 : v.es < v.ee) (h3 : v.ee < v.ds) :
    seTx v g minIjc minSjc t
      = .ok (if v.ijc ≥ minIjc
          then
            let c := match g.strand with | .plus => v.ue - g.loc.start | .minus => g.loc.stop - v.ds
            [⟨.insertion, c - 1, c, (geneIv g ⟨v.es, v.ee⟩).start, (geneIv g ⟨v.es, v.ee⟩).stop⟩]
          else []) := by
  have hch := chain2_of_wf hw he
  have ha := se_include_skip_junction_silent g v t pre post U D he hw hU hD
  have hb := alignConvert_dn_intron_silent (g := g) (j := v.upJ) he hw (by simp [SE.upJ, hU])
    (by simp only [SE.upJ]; omega) (by simp only [SE.upJ]; omega)
    (by
      rw [he]
      obtain ⟨hp, hP, hPQ, hQ, hq⟩ := hch
      simp only [SE.upJ]
      chain2_mem hp hq)
  have hc := alignConvert_un_intron_exact (j := v.downJ) he hw hg (by simp [SE.downJ, hD])
    (by simp only [SE.downJ]; omega) (by simp only [SE.downJ]; omega)
    (by simp only [SE.downJ]; omega)
  have hm' : max v.ue v.es = v.es := by omega
  unfold seTx
  rw [ha, hb, hc]
  simp only [SE.downJ, insRec, cut, hU, hD]
  by_cases c1 : v.sjc ≥ minSjc <;> by_cases c2 : v.ijc ≥ minIjc <;>
    cases hs : g.strand <;>
    simp [c1, c2, hm', bind, Except.bind, pure, Except.pure]

/-- `se_skip_spec` for a record of the whole `SERecord.convert_to_variant_records` call: the
record tagged with transcript index `i` -/
theorem se_skip_spec_event (chrom : List Char) (g : Gene) (txs : List Transcript) (v : SE)
    (minIjc minSjc : Nat) (out : List (Nat × ASRec)) (i : Nat) (r : ASRec) (t : Transcript)
    (pre post : List Iv) (U E D : Iv)
    (hout : seConvert v g txs minIjc minSjc = .ok out) (hm : (i, r) ∈ out)
    (hi : txs[i]? = some t) (he : t.exons = pre ++ U :: E :: D :: post)
    (hw : t.WF) (hg : t.Within g) (hc : g.loc.stop ≤ chrom.length)
    (hU : U.stop = v.ue) (hE : E = ⟨v.es, v.ee⟩) (hD : D.start = v.ds) :
    applyAS g t.exons (seqOfExons chrom t.strand t.exons) (geneSeq chrom g) r
      = seqOfExons chrom t.strand (pre ++ U :: D :: post) := by
  obtain ⟨t', rs, ht', h, hr⟩ := seConvert_mem hout hm
  rw [hi] at ht'; cases ht'
  exact se_skip_spec chrom g v minIjc minSjc t pre post U E D rs r he hw hg hc hU hE hD h hr

/-- `se_include_spec` for a record of the whole `SERecord.convert_to_variant_records` call -/
theorem se_include_spec_event (chrom : List Char) (g : Gene) (txs : List Transcript) (v : SE)
    (minIjc minSjc : Nat) (out : List (Nat × ASRec)) (i : Nat) (r : ASRec) (t : Transcript)
    (pre post : List Iv) (U D : Iv)
    (hout : seConvert v g txs minIjc minSjc = .ok out) (hm : (i, r) ∈ out)
    (hi : txs[i]? = some t) (he : t.exons = pre ++ U :: D :: post)
    (hw : t.WF) (hg : t.Within g) (hc : g.loc.stop ≤ chrom.length)
    (hU : U.stop = v.ue) (hD : D.start = v.ds)
    (h1 : v.ue < v.es) (h2 : v.es < v.ee) (h3 : v.ee < v.ds) :
    applyAS g t.exons (seqOfExons chrom t.strand t.exons) (geneSeq chrom g) r
      = seqOfExons chrom t.strand (pre ++ U :: ⟨v.es, v.ee⟩ :: D :: post) := by
  obtain ⟨t', rs, ht', h, hr⟩ := seConvert_mem hout hm
  rw [hi] at ht'; cases ht'
  exact se_include_spec chrom g v minIjc minSjc t pre post U D rs r he hw hg hc hU hD h1 h2 h3 h hr

/-! ## A5SS / A3SS, end to end

The alternative site lies on the exon genomically upstream of the flanking exon for A5SS on `+`
and A3SS on `-` (junctions `(long|short exon) → flanking`, `upstream_novel = True`) and on the
exon downstream of it for A5SS on `-` and A3SS on `+` (junctions `flanking → (long|short exon)`,
`downstream_novel = True`).  In each of the eight theorems the transcript has the two exons of
one form adjacent; every record of the whole `convert_to_variant_records` call tagged with that
transcript moves the exon boundary to the site of the other form: long → short is the Deletion
of the segment between the sites, short → long the Insertion of it.  The junction of the form
the transcript already has joins adjacent exons and emits nothing. -/

/-- A5SS, `+` strand, transcript uses the LONG site (`… L F …`, `L` ending at `longExonEnd`, `F` =
flanking exon): the record gives the isoform whose exon ends at `shortExonEnd` -/
theorem a5ss_spec_long_plus (chrom : List Char) (g : Gene) (txs : List Transcript) (v : AxSS)
    (minIjc minSjc : Nat) (out : List (Nat × ASRec)) (i : Nat) (r : ASRec) (t : Transcript)
    (pre post : List Iv) (L F : Iv) (hs : g.strand = .plus)
    (hout : a5Convert v g txs minIjc minSjc = .ok out) (hm : (i, r) ∈ out)
    (hi : txs[i]? = some t) (he : t.exons = pre ++ L :: F :: post)
    (hw : t.WF) (hg : t.Within g) (hc : g.loc.stop ≤ chrom.length)
    (hL : L.stop = v.le) (hF : F.start = v.fs) (h1 : L.start < v.se) (h2 : v.se < v.le) :
    applyAS g t.exons (seqOfExons chrom t.strand t.exons) (geneSeq chrom g) r
      = seqOfExons chrom t.strand (pre ++ ⟨L.start, v.se⟩ :: F :: post) := by
  obtain ⟨t', rs, ht', h, hr⟩ := a5Convert_mem_plus hs hout hm
  rw [hi] at ht'; cases ht'
  exact axTx_up_long he hw hg hc hL.symm hF.symm hF.symm h1 (by simp only; omega) h hr

/-- A5SS, `+` strand, transcript uses the SHORT site (`… S F …`, `S` ending at `shortExonEnd`):
the record gives the isoform whose exon ends at `longExonEnd` -/
theorem a5ss_spec_short_plus (chrom : List Char) (g : Gene) (txs : List Transcript) (v : AxSS)
    (minIjc minSjc : Nat) (out : List (Nat × ASRec)) (i : Nat) (r : ASRec) (t : Transcript)
    (pre post : List Iv) (S F : Iv) (hs : g.strand = .plus)
    (hout : a5Convert v g txs minIjc minSjc = .ok out) (hm : (i, r) ∈ out)
    (hi : txs[i]? = some t) (he : t.exons = pre ++ S :: F :: post)
    (hw : t.WF) (hg : t.Within g) (hc : g.loc.stop ≤ chrom.length)
    (hS : S.stop = v.se) (hF : F.start = v.fs)
    (h1 : v.se < v.le) (h2 : v.le ≤ v.fs) (h3 : v.ls ≤ v.se) :
    applyAS g t.exons (seqOfExons chrom t.strand t.exons) (geneSeq chrom g) r
      = seqOfExons chrom t.strand (pre ++ ⟨S.start, v.le⟩ :: F :: post) := by
  obtain ⟨t', rs, ht', h, hr⟩ := a5Convert_mem_plus hs hout hm
  rw [hi] at ht'; cases ht'
  exact axTx_up_short he hw hg hc hS.symm hF.symm hF.symm (by simp only; omega)
    (by simp only; omega) (by simp only; omega) h hr

/-- A5SS, `-` strand, transcript uses the LONG site (`… F L …`, `F` = flanking exon, `L` starting
at `longExonStart`): the record gives the isoform whose exon starts at `shortExonStart` -/
theorem a5ss_spec_long_minus (chrom : List Char) (g : Gene) (txs : List Transcript) (v : AxSS)
    (minIjc minSjc : Nat) (out : List (Nat × ASRec)) (i : Nat) (r : ASRec) (t : Transcript)
    (pre post : List Iv) (F L : Iv) (hs : g.strand = .minus)
    (hout : a5Convert v g txs minIjc minSjc = .ok out) (hm : (i, r) ∈ out)
    (hi : txs[i]? = some t) (he : t.exons = pre ++ F :: L :: post)
    (hw : t.WF) (hg : t.Within g) (hc : g.loc.stop ≤ chrom.length)
    (hF : F.stop = v.fe) (hL : L.start = v.ls) (h1 : v.ls < v.ss) (h2 : v.ss < L.stop) :
    applyAS g t.exons (seqOfExons chrom t.strand t.exons) (geneSeq chrom g) r
      = seqOfExons chrom t.strand (pre ++ F :: ⟨v.ss, L.stop⟩ :: post) := by
  obtain ⟨t', rs, ht', h, hr⟩ := a5Convert_mem_minus hs hout hm
  rw [hi] at ht'; cases ht'
  exact axTx_down_long he hw hg hc hF.symm hL.symm hF.symm (by simp only; omega) h2 h hr

/-- A5SS, `-` strand, transcript uses the SHORT site (`… F S …`, `S` starting at
`shortExonStart`): the record gives the isoform whose exon starts at `longExonStart` -/
theorem a5ss_spec_short_minus (chrom : List Char) (g : Gene) (txs : List Transcript) (v : AxSS)
    (minIjc minSjc : Nat) (out : List (Nat × ASRec)) (i : Nat) (r : ASRec) (t : Transcript)
    (pre post : List Iv) (F S : Iv) (hs : g.strand = .minus)
    (hout : a5Convert v g txs minIjc minSjc = .ok out) (hm : (i, r) ∈ out)
    (hi : txs[i]? = some t) (he : t.exons = pre ++ F :: S :: post)
    (hw : t.WF) (hg : t.Within g) (hc : g.loc.stop ≤ chrom.length)
    (hF : F.stop = v.fe) (hS : S.start = v.ss)
    (h1 : v.fe ≤ v.ls) (h2 : v.ls < v.ss) (h3 : v.ss ≤ v.le) :
    applyAS g t.exons (seqOfExons chrom t.strand t.exons) (geneSeq chrom g) r
      = seqOfExons chrom t.strand (pre ++ F :: ⟨v.ls, S.stop⟩ :: post) := by
  obtain ⟨t', rs, ht', h, hr⟩ := a5Convert_mem_minus hs hout hm
  rw [hi] at ht'; cases ht'
  exact axTx_down_short he hw hg hc hF.symm hS.symm hF.symm (by simp only; omega)
    (by simp only; omega) (by simp only; omega) h hr

/-- A3SS, `+` strand, transcript uses the LONG site (`… F L …`, `F` = flanking exon, `L` starting
at `longExonStart`): the record gives the isoform whose exon starts at `shortExonStart` -/
theorem a3ss_spec_long_plus (chrom : List Char) (g : Gene) (txs : List Transcript) (v : AxSS)
    (minIjc minSjc : Nat) (out : List (Nat × ASRec)) (i : Nat) (r : ASRec) (t : Transcript)
    (pre post : List Iv) (F L : Iv) (hs : g.strand = .plus)
    (hout : a3Convert v g txs minIjc minSjc = .ok out) (hm : (i, r) ∈ out)
    (hi : txs[i]? = some t) (he : t.exons = pre ++ F :: L :: post)
    (hw : t.WF) (hg : t.Within g) (hc : g.loc.stop ≤ chrom.length)
    (hF : F.stop = v.fe) (hL : L.start = v.ls) (h1 : v.ls < v.ss) (h2 : v.ss < L.stop) :
    applyAS g t.exons (seqOfExons chrom t.strand t.exons) (geneSeq chrom g) r
      = seqOfExons chrom t.strand (pre ++ F :: ⟨v.ss, L.stop⟩ :: post) := by
  obtain ⟨t', rs, ht', h, hr⟩ := a3Convert_mem_plus hs hout hm
  rw [hi] at ht'; cases ht'
  exact axTx_down_long he hw hg hc hF.symm hL.symm hF.symm (by simp only; omega) h2 h hr

/-- A3SS, `+` strand, transcript uses the SHORT site (`… F S …`, `S` starting at
`shortExonStart`): the record gives the isoform whose exon starts at `longExonStart` -/
theorem a3ss_spec_short_plus (chrom : List Char) (g : Gene) (txs : List Transcript) (v : AxSS)
    (minIjc minSjc : Nat) (out : List (Nat × ASRec)) (i : Nat) (r : ASRec) (t : Transcript)
    (pre post : List Iv) (F S : Iv) (hs : g.strand = .plus)
    (hout : a3Convert v g txs minIjc minSjc = .ok out) (hm : (i, r) ∈ out)
    (hi : txs[i]? = some t) (he : t.exons = pre ++ F :: S :: post)
    (hw : t.WF) (hg : t.Within g) (hc : g.loc.stop ≤ chrom.length)
    (hF : F.stop = v.fe) (hS : S.start = v.ss)
    (h1 : v.fe ≤ v.ls) (h2 : v.ls < v.ss) (h3 : v.ss ≤ v.le) :
    applyAS g t.exons (seqOfExons chrom t.strand t.exons) (geneSeq chrom g) r
      = seqOfExons chrom t.strand (pre ++ F :: ⟨v.ls, S.stop⟩ :: post) := by
  obtain ⟨t', rs, ht', h, hr⟩ := a3Convert_mem_plus hs hout hm
  rw [hi] at ht'; cases ht'
  exact axTx_down_short he hw hg hc hF.symm hS.symm hF.symm (by simp only; omega)
    (by simp only; omega) (by simp only; omega) h hr

/-- A3SS, `-` strand, transcript uses the LONG site (`… L F …`, `L` ending at `longExonEnd`, `F` =
flanking exon): the record gives the isoform whose exon ends at `shortExonEnd` -/
theorem a3ss_spec_long_minus (chrom : List Char) (g : Gene) (txs : List Transcript) (v : AxSS)
    (minIjc minSjc : Nat) (out : List (Nat × ASRec)) (i : Nat) (r : ASRec) (t : Transcript)
    (pre post : List Iv) (L F : Iv) (hs : g.strand = .minus)
    (hout : a3Convert v g txs minIjc minSjc = .ok out) (hm : (i, r) ∈ out)
    (hi : txs[i]? = some t) (he : t.exons = pre ++ L :: F :: post)
    (hw : t.WF) (hg : t.Within g) (hc : g.loc.stop ≤ chrom.length)
    (hL : L.stop = v.le) (hF : F.start = v.fs) (h1 : L.start < v.se) (h2 : v.se < v.le) :
    applyAS g t.exons (seqOfExons chrom t.strand t.exons) (geneSeq chrom g) r
      = seqOfExons chrom t.strand (pre ++ ⟨L.start, v.se⟩ :: F :: post) := by
  obtain ⟨t', rs, ht', h, hr⟩ := a3Convert_mem_minus hs hout hm
  rw [hi] at ht'; cases ht'
  exact axTx_up_long he hw hg hc hL.symm hF.symm hF.symm h1 (by simp only; omega) h hr

/-- A3SS, `-` strand, transcript uses the SHORT site (`… S F …`, `S` ending at `shortExonEnd`):
the record gives the isoform whose exon ends at `longExonEnd` -/
theorem a3ss_spec_short_minus (chrom : List Char) (g : Gene) (txs : List Transcript) (v : AxSS)
    (minIjc minSjc : Nat) (out : List (Nat × ASRec)) (i : Nat) (r : ASRec) (t : Transcript)
    (pre post : List Iv) (S F : Iv) (hs : g.strand = .minus)
    (hout : a3Convert v g txs minIjc minSjc = .ok out) (hm : (i, r) ∈ out)
    (hi : txs[i]? = some t) (he : t.exons = pre ++ S :: F :: post)
    (hw : t.WF) (hg : t.Within g) (hc : g.loc.stop ≤ chrom.length)
    (hS : S.stop = v.se) (hF : F.start = v.fs)
    (h1 : v.se < v.le) (h2 : v.le ≤ v.fs) (h3 : v.ls ≤ v.se) :
    applyAS g t.exons (seqOfExons chrom t.strand t.exons) (geneSeq chrom g) r
      = seqOfExons chrom t.strand (pre ++ ⟨S.start, v.le⟩ :: F :: post) := by
  obtain ⟨t', rs, ht', h, hr⟩ := a3Convert_mem_minus hs hout hm
  rw [hi] at ht'; cases ht'
  exact axTx_up_short he hw hg hc hS.symm hF.symm hF.symm (by simp only; omega)
    (by simp only; omega) (by simp only; omega) h hr

/-! ## MXE, end to end -/

/-- **Mutually exclusive exons, transcript has the first exon** (`… U F₁ D …`).  Every record
the loop body of `MXERecord.convert_to_variant_records` emits for that transcript gives the
isoform with the second exon in its place (`… U F₂ D …`), on both strands: the junction
`F₁ → D` joins adjacent exons and emits nothing, `U → F₂` emits the Substitution of `F₁` by
`F₂`. -/
theorem mxe_spec_first (chrom : List Char) (g : Gene) (v : MXE) (minIjc minSjc : Nat)
    (t : Transcript) (pre post : List Iv) (U F1 D : Iv) (rs : List ASRec) (r : ASRec)
    (he : t.exons = pre ++ U :: F1 :: D :: post) (hw : t.WF) (hg : t.Within g)
    (hc : g.loc.stop ≤ chrom.length)
    (hU : U.stop = v.ue) (hF : F1 = ⟨v.f1s, v.f1e⟩) (hD : D.start = v.ds)
    (h1 : v.f1e ≤ v.f2s) (h2 : v.f2s < v.f2e) (h3 : v.f2e ≤ v.ds)
    (h : mxeTx v g minIjc minSjc t = .ok rs) (hr : r ∈ rs) :
    applyAS g t.exons (seqOfExons chrom t.strand t.exons) (geneSeq chrom g) r
      = seqOfExons chrom t.strand (pre ++ U :: ⟨v.f2s, v.f2e⟩ :: D :: post) := by
  have hch := chain3_of_wf hw he
  rcases mxeTx_mem h hr with ⟨_, rs', h', hr'⟩ | ⟨_, rs', h', hr'⟩
  · have he' : t.exons = (pre ++ [U]) ++ F1 :: D :: post := by simp [he]
    rw [alignConvert_adjacent he' hch.right (by simp [MXE.firstDownJ, hF])
      (by simp [MXE.firstDownJ, hD])] at h'
    cases h'; cases hr'
  · rw [alignConvert_dn_subst (j := v.secondUpJ) he hw hg hc (by simp [MXE.secondUpJ, hU])
      (by simp only [MXE.secondUpJ, hF]; omega) (by simp only [MXE.secondUpJ]; omega)
      (by simp only [MXE.secondUpJ]; omega) h' hr']
    have : min D.start v.f2e = v.f2e := by omega
    simp only [MXE.secondUpJ, this]

/-- **Mutually exclusive exons, transcript has the second exon** (`… U F₂ D …`).  Every record
emitted for that transcript gives the isoform with the first exon in its place, on both
strands: `U → F₂` joins adjacent exons and emits nothing, `F₁ → D` emits the Substitution of
`F₂` by `F₁`. -/
theorem mxe_spec_second (chrom : List Char) (g : Gene) (v : MXE) (minIjc minSjc : Nat)
    (t : Transcript) (pre post : List Iv) (U F2 D : Iv) (rs : List ASRec) (r : ASRec)
    (he : t.exons = pre ++ U :: F2 :: D :: post) (hw : t.WF) (hg : t.Within g)
    (hc : g.loc.stop ≤ chrom.length)
    (hU : U.stop = v.ue) (hF : F2 = ⟨v.f2s, v.f2e⟩) (hD : D.start = v.ds)
    (h1 : v.ue ≤ v.f1s) (h2 : v.f1s < v.f1e) (h3 : v.f1e ≤ v.f2s)
    (h : mxeTx v g minIjc minSjc t = .ok rs) (hr : r ∈ rs) :
    applyAS g t.exons (seqOfExons chrom t.strand t.exons) (geneSeq chrom g) r
      = seqOfExons chrom t.strand (pre ++ U :: ⟨v.f1s, v.f1e⟩ :: D :: post) := by
  have hch := chain3_of_wf hw he
  rcases mxeTx_mem h hr with ⟨_, rs', h', hr'⟩ | ⟨_, rs', h', hr'⟩
  · rw [alignConvert_un_subst (j := v.firstDownJ) he hw hg hc (by simp [MXE.firstDownJ, hD])
      (by simp only [MXE.firstDownJ]; omega) (by simp only [MXE.firstDownJ, hF]; omega)
      (by simp only [MXE.firstDownJ]; omega) h' hr']
    have : max U.stop v.f1s = v.f1s := by omega
    simp only [MXE.firstDownJ, this]
  · rw [alignConvert_adjacent he hch.left (by simp [MXE.secondUpJ, hU])
      (by simp [MXE.secondUpJ, hF])] at h'
    cases h'; cases hr'

/-- `mxe_spec_first` for a record of the whole `MXERecord.convert_to_variant_records` call (after
`list(set(variants))`: a surviving record carries the index of the first transcript that
produced it) -/
theorem mxe_spec_first_event (chrom : List Char) (g : Gene) (txs : List Transcript) (v : MXE)
    (minIjc minSjc : Nat) (out : List (Nat × ASRec)) (i : Nat) (r : ASRec) (t : Transcript)
    (pre post : List Iv) (U F1 D : Iv)
    (hout : mxeConvert v g txs minIjc minSjc = .ok out) (hm : (i, r) ∈ out)
    (hi : txs[i]? = some t) (he : t.exons = pre ++ U :: F1 :: D :: post)
    (hw : t.WF) (hg : t.Within g) (hc : g.loc.stop ≤ chrom.length)
    (hU : U.stop = v.ue) (hF : F1 = ⟨v.f1s, v.f1e⟩) (hD : D.start = v.ds)
    (h1 : v.f1e ≤ v.f2s) (h2 : v.f2s < v.f2e) (h3 : v.f2e ≤ v.ds) :
    applyAS g t.exons (seqOfExons chrom t.strand t.exons) (geneSeq chrom g) r
      = seqOfExons chrom t.strand (pre ++ U :: ⟨v.f2s, v.f2e⟩ :: D :: post) := by
  obtain ⟨t', rs, ht', h, hr⟩ := mxeConvert_mem hout hm
  rw [hi] at ht'; cases ht'
  exact mxe_spec_first chrom g v minIjc minSjc t pre post U F1 D rs r he hw hg hc hU hF hD
    h1 h2 h3 h hr

/-- `mxe_spec_second` for a record of the whole `MXERecord.convert_to_variant_records` call -/
theorem mxe_spec_second_event (chrom : List Char) (g : Gene) (txs : List Transcript) (v : MXE)
    (minIjc minSjc : Nat) (out : List (Nat × ASRec)) (i : Nat) (r : ASRec) (t : Transcript)
    (pre post : List Iv) (U F2 D : Iv)
    (hout : mxeConvert v g txs minIjc minSjc = .ok out) (hm : (i, r) ∈ out)
    (hi : txs[i]? = some t) (he : t.exons = pre ++ U :: F2 :: D :: post)
    (hw : t.WF) (hg : t.Within g) (hc : g.loc.stop ≤ chrom.length)
    (hU : U.stop = v.ue) (hF : F2 = ⟨v.f2s, v.f2e⟩) (hD : D.start = v.ds)
    (h1 : v.ue ≤ v.f1s) (h2 : v.f1s < v.f1e) (h3 : v.f1e ≤ v.f2s) :
    applyAS g t.exons (seqOfExons chrom t.strand t.exons) (geneSeq chrom g) r
      = seqOfExons chrom t.strand (pre ++ U :: ⟨v.f1s, v.f1e⟩ :: D :: post) := by
  obtain ⟨t', rs, ht', h, hr⟩ := mxeConvert_mem hout hm
  rw [hi] at ht'; cases ht'
  exact mxe_spec_second chrom g v minIjc minSjc t pre post U F2 D rs r he hw hg hc hU hF hD
    h1 h2 h3 h hr

/-! ## non-vacuity of the SE / A5SS / A3SS / MXE theorems

Concrete genes on both strands, transcripts satisfying `WF` / `Within`, events whose exons
coincide with the transcript's: the model emits exactly one record, and the theorem applies to it
(every hypothesis is discharged by `rfl` / `decide`). -/

def exPlusGene : Gene := { strand := .plus, loc := ⟨2, 60⟩ }
def exIncl : Transcript := { strand := .minus, exons := [⟨4, 9⟩, ⟨12, 20⟩, ⟨25, 31⟩, ⟨40, 52⟩] }
def exSkip : Transcript := { strand := .minus, exons := [⟨4, 9⟩, ⟨12, 20⟩, ⟨40, 52⟩] }
def exInclP : Transcript := { exIncl with strand := .plus }
def exSkipP : Transcript := { exSkip with strand := .plus }
def exSE : SE := { es := 25, ee := 31, us := 12, ue := 20, ds := 40, de := 52, ijc := 3, sjc := 2 }

example : exIncl.WF ∧ exIncl.Within exGene ∧ exSkip.WF ∧ exSkip.Within exGene ∧ exInclP.WF
    ∧ exInclP.Within exPlusGene ∧ exSkipP.WF ∧ exSkipP.Within exPlusGene := by decide

example : seTx exSE exGene 1 1 exIncl = .ok [⟨.deletion, 29, 35, 0, 0⟩] := by decide
example : seTx exSE exPlusGene 1 1 exInclP = .ok [⟨.deletion, 23, 29, 0, 0⟩] := by decide
example : seTx exSE exGene 1 1 exSkip = .ok [⟨.insertion, 19, 20, 29, 35⟩] := by decide
example : seTx exSE exPlusGene 1 1 exSkipP = .ok [⟨.insertion, 17, 18, 23, 29⟩] := by decide

example : applyAS exGene exIncl.exons (seqOfExons exChrom .minus exIncl.exons)
    (geneSeq exChrom exGene) ⟨.deletion, 29, 35, 0, 0⟩ = seqOfExons exChrom .minus exSkip.exons :=
  se_skip_spec exChrom exGene exSE 1 1 exIncl [⟨4, 9⟩] [] ⟨12, 20⟩ ⟨25, 31⟩ ⟨40, 52⟩
    [⟨.deletion, 29, 35, 0, 0⟩] _ rfl (by decide) (by decide) (by decide) rfl rfl rfl (by decide)
    List.mem_cons_self

example : applyAS exPlusGene exSkipP.exons (seqOfExons exChrom .plus exSkipP.exons)
    (geneSeq exChrom exPlusGene) ⟨.insertion, 17, 18, 23, 29⟩
      = seqOfExons exChrom .plus exInclP.exons :=
  se_include_spec exChrom exPlusGene exSE 1 1 exSkipP [⟨4, 9⟩] [] ⟨12, 20⟩ ⟨40, 52⟩
    [⟨.insertion, 17, 18, 23, 29⟩] _ rfl (by decide) (by decide) (by decide) rfl rfl (by decide)
    (by decide) (by decide) (by decide) List.mem_cons_self

/-- the minus-strand exception of `se_skip_exact`: the downstream exon is a 1-nt last exon, the
skip form is novel, the read support suffices, and nothing is emitted (on `+` the Deletion is) -/
def exOneNt : Transcript := { strand := .minus, exons := [⟨4, 9⟩, ⟨12, 20⟩, ⟨25, 31⟩, ⟨40, 41⟩] }
example : exOneNt.WF ∧ exOneNt.Within exGene := by decide
example : seTx { exSE with de := 41 } exGene 1 1 exOneNt = .ok [] := by decide
example : seTx { exSE with de := 41 } exPlusGene 1 1 { exOneNt with strand := .plus }
    = .ok [⟨.deletion, 23, 29, 0, 0⟩] := by decide

/-- upstream side (A5SS on `+`, A3SS on `-`): long exon `[12, 24)`, short `[12, 20)`, flanking
`[40, 52)` -/
def exAxUp : AxSS := { ls := 12, le := 24, ss := 12, se := 20, fs := 40, fe := 52, ijc := 3, sjc := 2 }
def exLongP : Transcript := { strand := .plus, exons := [⟨4, 9⟩, ⟨12, 24⟩, ⟨40, 52⟩] }
def exLongM : Transcript := { exLongP with strand := .minus }
/-- downstream side (A3SS on `+`, A5SS on `-`): flanking `[4, 9)`, long `[12, 20)`, short
`[15, 20)` -/
def exAxDown : AxSS := { ls := 12, le := 20, ss := 15, se := 20, fs := 4, fe := 9, ijc := 3, sjc := 2 }
def exShortP : Transcript := { strand := .plus, exons := [⟨4, 9⟩, ⟨15, 20⟩, ⟨40, 52⟩] }
def exShortM : Transcript := { exShortP with strand := .minus }

example : exLongP.WF ∧ exLongP.Within exPlusGene ∧ exLongM.WF ∧ exLongM.Within exGene
    ∧ exShortP.WF ∧ exShortP.Within exPlusGene ∧ exShortM.WF ∧ exShortM.Within exGene := by decide

example : a5Convert exAxUp exPlusGene [exLongP] 1 1 = .ok [(0, ⟨.deletion, 18, 22, 0, 0⟩)] := by
  decide
example : a5Convert exAxUp exPlusGene [exSkipP] 1 1 = .ok [(0, ⟨.insertion, 17, 18, 18, 22⟩)] := by
  decide
example : a3Convert exAxUp exGene [exLongM] 1 1 = .ok [(0, ⟨.deletion, 36, 40, 0, 0⟩)] := by decide
example : a3Convert exAxUp exGene [exSkip] 1 1 = .ok [(0, ⟨.insertion, 19, 20, 36, 40⟩)] := by
  decide
example : a3Convert exAxDown exPlusGene [exSkipP] 1 1 = .ok [(0, ⟨.deletion, 10, 13, 0, 0⟩)] := by
  decide
example : a3Convert exAxDown exPlusGene [exShortP] 1 1 = .ok [(0, ⟨.insertion, 6, 7, 10, 13⟩)] := by
  decide
example : a5Convert exAxDown exGene [exSkip] 1 1 = .ok [(0, ⟨.deletion, 45, 48, 0, 0⟩)] := by decide
example : a5Convert exAxDown exGene [exShortM] 1 1 = .ok [(0, ⟨.insertion, 44, 45, 45, 48⟩)] := by
  decide

example : applyAS exPlusGene exLongP.exons (seqOfExons exChrom .plus exLongP.exons)
    (geneSeq exChrom exPlusGene) ⟨.deletion, 18, 22, 0, 0⟩
      = seqOfExons exChrom .plus exSkipP.exons :=
  a5ss_spec_long_plus exChrom exPlusGene [exLongP] exAxUp 1 1
    [(0, ⟨.deletion, 18, 22, 0, 0⟩)] 0 _ exLongP [⟨4, 9⟩] [] ⟨12, 24⟩ ⟨40, 52⟩ rfl (by decide)
    List.mem_cons_self rfl rfl (by decide) (by decide) (by decide) rfl rfl (by decide) (by decide)

example : applyAS exGene exSkip.exons (seqOfExons exChrom .minus exSkip.exons)
    (geneSeq exChrom exGene) ⟨.insertion, 19, 20, 36, 40⟩
      = seqOfExons exChrom .minus exLongM.exons :=
  a3ss_spec_short_minus exChrom exGene [exSkip] exAxUp 1 1
    [(0, ⟨.insertion, 19, 20, 36, 40⟩)] 0 _ exSkip [⟨4, 9⟩] [] ⟨12, 20⟩ ⟨40, 52⟩ rfl (by decide)
    List.mem_cons_self rfl rfl (by decide) (by decide) (by decide) rfl rfl (by decide) (by decide)
    (by decide)

example : applyAS exPlusGene exSkipP.exons (seqOfExons exChrom .plus exSkipP.exons)
    (geneSeq exChrom exPlusGene) ⟨.deletion, 10, 13, 0, 0⟩
      = seqOfExons exChrom .plus exShortP.exons :=
  a3ss_spec_long_plus exChrom exPlusGene [exSkipP] exAxDown 1 1
    [(0, ⟨.deletion, 10, 13, 0, 0⟩)] 0 _ exSkipP [] [⟨40, 52⟩] ⟨4, 9⟩ ⟨12, 20⟩ rfl (by decide)
    List.mem_cons_self rfl rfl (by decide) (by decide) (by decide) rfl rfl (by decide) (by decide)

example : applyAS exGene exShortM.exons (seqOfExons exChrom .minus exShortM.exons)
    (geneSeq exChrom exGene) ⟨.insertion, 44, 45, 45, 48⟩
      = seqOfExons exChrom .minus exSkip.exons :=
  a5ss_spec_short_minus exChrom exGene [exShortM] exAxDown 1 1
    [(0, ⟨.insertion, 44, 45, 45, 48⟩)] 0 _ exShortM [] [⟨40, 52⟩] ⟨4, 9⟩ ⟨15, 20⟩ rfl (by decide)
    List.mem_cons_self rfl rfl (by decide) (by decide) (by decide) rfl rfl (by decide) (by decide)
    (by decide)

def exMXE : MXE :=
  { f1s := 25, f1e := 31, f2s := 33, f2e := 36, us := 12, ue := 20, ds := 40, de := 52, ijc := 3,
    sjc := 2 }
def exSecond : Transcript := { strand := .minus, exons := [⟨4, 9⟩, ⟨12, 20⟩, ⟨33, 36⟩, ⟨40, 52⟩] }
def exSecondP : Transcript := { exSecond with strand := .plus }

example : exSecond.WF ∧ exSecond.Within exGene ∧ exSecondP.WF ∧ exSecondP.Within exPlusGene := by
  decide
example : mxeConvert exMXE exGene [exIncl] 1 1 = .ok [(0, ⟨.substitution, 29, 35, 24, 27⟩)] := by
  unfold mxeConvert; decide
example : mxeConvert exMXE exGene [exSecond] 1 1 = .ok [(0, ⟨.substitution, 24, 27, 29, 35⟩)] := by
  unfold mxeConvert; decide
example : mxeConvert exMXE exPlusGene [exInclP] 1 1
    = .ok [(0, ⟨.substitution, 23, 29, 31, 34⟩)] := by unfold mxeConvert; decide
example : mxeConvert exMXE exPlusGene [exSecondP] 1 1
    = .ok [(0, ⟨.substitution, 31, 34, 23, 29⟩)] := by unfold mxeConvert; decide

example : applyAS exGene exIncl.exons (seqOfExons exChrom .minus exIncl.exons)
    (geneSeq exChrom exGene) ⟨.substitution, 29, 35, 24, 27⟩
      = seqOfExons exChrom .minus exSecond.exons :=
  mxe_spec_first_event exChrom exGene [exIncl] exMXE 1 1
    [(0, ⟨.substitution, 29, 35, 24, 27⟩)] 0 _ exIncl [⟨4, 9⟩] [] ⟨12, 20⟩ ⟨25, 31⟩ ⟨40, 52⟩
    (by unfold mxeConvert; decide)
    List.mem_cons_self rfl rfl (by decide) (by decide) (by decide) rfl rfl rfl (by decide)
    (by decide) (by decide)

example : applyAS exPlusGene exSecondP.exons (seqOfExons exChrom .plus exSecondP.exons)
    (geneSeq exChrom exPlusGene) ⟨.substitution, 31, 34, 23, 29⟩
      = seqOfExons exChrom .plus exInclP.exons :=
  mxe_spec_second_event exChrom exPlusGene [exSecondP] exMXE 1 1
    [(0, ⟨.substitution, 31, 34, 23, 29⟩)] 0 _ exSecondP [⟨4, 9⟩] [] ⟨12, 20⟩ ⟨33, 36⟩ ⟨40, 52⟩
    (by unfold mxeConvert; decide)
    List.mem_cons_self rfl rfl (by decide) (by decide) (by decide) rfl rfl rfl (by decide)
    (by decide) (by decide)

end MoPepGen.Props.C16
