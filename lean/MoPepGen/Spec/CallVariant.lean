/-
Layer S — the DEFINITION the properties C01/C02/C03/C05/C08/C09 speak about:
"the digestion products of the translation of the transcript carrying a
compatible combination of the supplied variants", written without reference to
how moPepGen computes it (no graphs).  Executable, so the driver can evaluate it
on the inputs of the real command.

Scope of this file: linear transcripts (coding / non-coding, cds_start_NF,
mRNA_end_NF, selenocysteine) with SNV / RNA-editing / INDEL records (and their
merged adjacent forms).  Fusion, circRNA and alternative-splicing records are
handled by `Spec/Backbone.lean` which reduces them to this file's `TxIn`.
-/
import MoPepGen.Model.Digest
import MoPepGen.Generated.Codon
namespace MoPepGen.Spec

/-! ### translation -/

def codon (a b c : Char) : Char := (Generated.codonTable.lookup (a, b, c)).getD 'X'

/-- `Bio.Seq.translate` (standard table, no `to_stop`): trailing partial codon dropped. -/
def translate : List Char → List Char
  | a :: b :: c :: rest => codon a b c :: translate rest
  | _ => []

/-! ### inputs -/

/-- compatibility class for merging adjacent records (`find_mnvs_from_adjacent_variants`) -/
inductive VCls where
  | snv      -- SNV, RNAEditingSite
  | indel    -- INDEL
  | other    -- anything that is never merged
  deriving DecidableEq, Repr, Inhabited

/-- a small variant in transcript coordinates, VCF style (`ref` non-empty, `[start,end)` = ref) -/
structure Var where
  start : Nat
  stop  : Nat
  ref   : List Char
  alt   : List Char
  cls   : VCls
  ids   : List Nat          -- ids of the GVF records it stands for (2 for a merged pair)
  /-- first position at which the record counts as touching a Sec codon: `start` in general,
  `start + 1` for an alternative-splicing Deletion (its first base is kept) -/
  touch : Nat := start
  deriving Repr, Inhabited, DecidableEq

structure TxIn where
  seq     : List Char
  coding  : Bool                -- has a known ORF (`is_protein_coding`)
  orfStart : Nat                -- meaningful when `coding`
  orfEnd  : Nat                 -- annotated ORF end (start of the stop codon), when `coding`
  startNF : Bool
  endNF   : Bool
  sec     : List Nat            -- starts of annotated Sec codons (transcript coordinates)
  /-- fusion / circRNA backbones: a non-coding backbone may only open an ORF at an ATG starting
  at or before this position (the start of the acceptor part) -/
  orfLimit : Option Nat := none
  /-- the backbone is a fusion transcript (the mRNA_end_NF rule on the last annotated codon of the
  donor does not apply to its records) -/
  isFusion : Bool := false
  deriving Repr, Inhabited

structure Cfg where
  cleave : CleaveCfg
  sect   : Bool
  w2f    : Bool
  canonical : List Pep

/-! ### which records can be used, and which combinations -/

def startIndex (t : TxIn) : Nat := (if t.coding then t.orfStart else 0) + 3

/-- "start exclusion / end inclusion" form of an indel that sits on the last base of the
start codon (`to_end_inclusion`): the anchor base moves to the right end. -/
def toEndInclusion (seq : List Char) (v : Var) : Var :=
  match seq[v.stop]? with
  | none => v
  | some c => { v with start := v.start + 1, stop := v.stop + 1, touch := v.touch + 1,
                       ref := v.ref.drop 1 ++ [c], alt := v.alt.drop 1 ++ [c] }

/-- The records the statement's "supplied variants" ranges over for transcript `t`:
after the start codon (an indel anchored ON the last start-codon base is re-anchored
to its right end), and — for `mRNA_end_NF` — not touching the last annotated codon. -/
def usable (t : TxIn) (v : Var) : Option Var :=
  let v := if v.start + 1 == startIndex t && v.cls == .indel then toEndInclusion t.seq v else v
  if v.start < startIndex t then none
  else
    let txEnd := if t.coding then t.orfEnd else t.seq.length
    if t.endNF && !t.isFusion && v.start < txEnd && txEnd - 3 < v.stop then none
    else some v

def sameMergeCls (a b : Var) : Bool := a.cls != .other && a.cls == b.cls

/-- merged forms of adjacent records of one class (pairs: `--max-adjacent-as-mnv 2`) -/
def mergedPairs (vs : List Var) : List Var :=
  vs.flatMap fun a => (vs.filter fun b => a.stop == b.start && sameMergeCls a b).map fun b =>
    { start := a.start, stop := b.stop, ref := a.ref ++ b.ref, alt := a.alt ++ b.alt,
      cls := .other, ids := a.ids ++ b.ids, touch := a.touch }

def insertByStart (v : Var) : List Var → List Var
  | [] => [v]
  | w :: ws => if v.start ≤ w.start then v :: w :: ws else w :: insertByStart v ws

def sortByStart (vs : List Var) : List Var := vs.foldr insertByStart []

/-- strictly separated (neither overlapping nor adjacent), in ascending order -/
def separated : List Var → Bool
  | [] => true
  | [_] => true
  | a :: b :: rest => a.stop < b.start && separated (b :: rest)

def sublists {α : Type} : List α → List (List α)
  | [] => [[]]
  | x :: xs => let r := sublists xs; r ++ r.map (x :: ·)

/-- the usable records of `t` together with the merged forms of adjacent pairs -/
def recordPool (t : TxIn) (vs : List Var) : List Var :=
  let us := vs.filterMap (usable t)
  us ++ mergedPairs us

/-- every compatible combination ("haplotype") of the usable records, merged pairs included:
any sub-collection of the pool that, put in ascending order, is strictly separated -/
def haplotypes (t : TxIn) (vs : List Var) : List (List Var) :=
  ((sublists (recordPool t vs)).map sortByStart).filter fun h => !h.isEmpty && separated h

/-! ## a pruned enumerator for the compatible combinations, and the equation the compiler uses

`haplotypes` above is the DEFINITION: all `2^n` sub-collections of the pool, each sorted by
`start`, the non-empty strictly separated ones kept.  That is the clearest way to say "every
compatible combination", and exponential in the pool size whatever the records look like: a
splicing record with several nested records expands into ~20 mutually overlapping forms, of
which only a few dozen combinations are compatible.

`haplotypesFast` extends a sub-collection only by records compatible with everything already
chosen (work proportional to the number of compatible sub-collections).  Proved below, for ALL
record lists — no well-formedness hypothesis (ties in `start`, `stop < start`, duplicates) —

* `separated_sort_eq_pairwiseOk` : `separated (sortByStart s) = pairwiseOk s`,
* `filter_sublists_eq_pruned`    : `(sublists p).filter pairwiseOk = prunedSublists p`,
* `haplotypes_eq_haplotypesFast` : `haplotypes t vs = haplotypesFast t vs` (same list, same order),

and the last one is registered as a `@[csimp]` equation: every definition COMPILED after this
point (`callVariant`, `callBackbone`, `callCirc`, `callCircMixed…`, `witnessCompletion` below,
`Graph.allHaps`, the driver ops) evaluates `haplotypesFast` wherever the source says
`haplotypes`, while every theorem keeps talking about the definition.  `csimp` acts when a
caller is compiled, which is why this block sits HERE, in front of the callers, and not in a
later file (measured: with the equation only imported into the driver the callers kept the
exponential code).  Not an axiom, not `implemented_by`: a kernel-checked equality; what is
trusted is that Lean's compiler honours `csimp`.  Core tactics only (this file is linked into
the native driver). -/

/-! ### the pruned enumerator -/

/-- are `x` and `y` strictly separated once the collection is put in ascending order?  `x` is
the record that comes EARLIER in the unsorted collection: the stable insertion sort
`sortByStart` puts it in front of `y` exactly when `x.start ≤ y.start` (ties keep their order) -/
def compatOrd (x y : Var) : Bool :=
  if x.start ≤ y.start then decide (x.stop < y.start) else decide (y.stop < x.start)

/-- every record is `compatOrd` with every later one -/
def pairwiseOk : List Var → Bool
  | [] => true
  | x :: s => s.all (compatOrd x) && pairwiseOk s

/-- the sub-collections of `p` (in the order of `sublists`) that are pairwise compatible:
`x` is only put in front of those sub-collections of the rest it is compatible with -/
def prunedSublists : List Var → List (List Var)
  | [] => [[]]
  | x :: xs =>
    let r := prunedSublists xs
    r ++ (r.filter fun s => s.all (compatOrd x)).map (x :: ·)

/-- `haplotypes` without the exponential detour -/
def haplotypesFast (t : TxIn) (vs : List Var) : List (List Var) :=
  ((prunedSublists (recordPool t vs)).filter fun s => !s.isEmpty).map sortByStart

/-! ### `sortByStart` -/

theorem mem_insertByStart (x y : Var) : ∀ (l : List Var),
    y ∈ insertByStart x l ↔ y = x ∨ y ∈ l := by
  intro l
  induction l with
  | nil => simp [insertByStart]
  | cons w ws ih =>
    simp only [insertByStart]
    split
    · simp
    · simp only [List.mem_cons, ih]
      constructor
      · rintro (h | h | h)
        · exact Or.inr (Or.inl h)
        · exact Or.inl h
        · exact Or.inr (Or.inr h)
      · rintro (h | h | h)
        · exact Or.inr (Or.inl h)
        · exact Or.inl h
        · exact Or.inr (Or.inr h)

theorem sortByStart_cons' (a : Var) (l : List Var) :
    sortByStart (a :: l) = insertByStart a (sortByStart l) := rfl

theorem mem_sortByStart' (y : Var) : ∀ (l : List Var), y ∈ sortByStart l ↔ y ∈ l := by
  intro l
  induction l with
  | nil => simp [sortByStart]
  | cons a l ih => rw [sortByStart_cons', mem_insertByStart, ih, List.mem_cons]

/-- ascending in `start` (ties allowed) -/
def Ascending (l : List Var) : Prop := l.Pairwise fun a b => a.start ≤ b.start

/-- every earlier record ends before every later one starts -/
def AllSeparated (l : List Var) : Prop := l.Pairwise fun a b => a.stop < b.start

theorem insertByStart_ascending (x : Var) : ∀ (l : List Var),
    Ascending l → Ascending (insertByStart x l) := by
  intro l
  induction l with
  | nil => intro _; simp [insertByStart, Ascending]
  | cons w ws ih =>
    intro hs
    obtain ⟨hw, hws⟩ := List.pairwise_cons.mp hs
    simp only [insertByStart]
    split
    · rename_i hle
      refine List.pairwise_cons.mpr ⟨?_, hs⟩
      intro y hy
      rcases List.mem_cons.mp hy with rfl | hy
      · exact hle
      · exact Nat.le_trans hle (hw y hy)
    · rename_i hnle
      refine List.pairwise_cons.mpr ⟨?_, ih hws⟩
      intro y hy
      rcases (mem_insertByStart x y ws).mp hy with rfl | hy
      · omega
      · exact hw y hy

theorem sortByStart_ascending : ∀ (l : List Var), Ascending (sortByStart l) := by
  intro l
  induction l with
  | nil => exact List.Pairwise.nil
  | cons a l ih => rw [sortByStart_cons']; exact insertByStart_ascending a _ ih

theorem sortByStart_isEmpty (s : List Var) : (sortByStart s).isEmpty = s.isEmpty := by
  cases s with
  | nil => rfl
  | cons a l =>
    rw [sortByStart_cons']
    cases h : sortByStart l with
    | nil => simp [insertByStart]
    | cons w ws =>
      simp only [insertByStart]
      split <;> rfl

/-! ### (a) adjacent-pair separation of the sorted list = pairwise compatibility -/

/-- in an ASCENDING list the adjacent-pair test `separated` already says that every earlier
record ends before every later one starts — whatever the records' own `stop` (also `stop <
start`): `a.stop < b.start ≤ c.start` needs `b.start ≤ c.start`, not `b.start ≤ b.stop` -/
theorem separated_iff_allSeparated : ∀ (l : List Var), Ascending l →
    (separated l = true ↔ AllSeparated l) := by
  intro l
  induction l with
  | nil => intro _; simp [separated, AllSeparated]
  | cons a rest ih =>
    intro hs
    obtain ⟨_, hrest⟩ := List.pairwise_cons.mp hs
    cases rest with
    | nil => simp [separated, AllSeparated]
    | cons b r =>
      obtain ⟨hb, _⟩ := List.pairwise_cons.mp hrest
      have ih' := ih hrest
      simp only [separated, Bool.and_eq_true, decide_eq_true_eq, ih']
      unfold AllSeparated
      constructor
      · rintro ⟨h1, h2⟩
        refine List.pairwise_cons.mpr ⟨?_, h2⟩
        intro y hy
        rcases List.mem_cons.mp hy with rfl | hy
        · exact h1
        · have := hb y hy; omega
      · intro h
        obtain ⟨h1, h2⟩ := List.pairwise_cons.mp h
        exact ⟨h1 b (by simp), h2⟩

/-- inserting `x` into an ascending list keeps it all-separated iff the list was and `x` is
`compatOrd` with each of its records -/
theorem allSeparated_insert (x : Var) : ∀ (l : List Var), Ascending l →
    (AllSeparated (insertByStart x l) ↔ (∀ y ∈ l, compatOrd x y = true) ∧ AllSeparated l) := by
  intro l
  induction l with
  | nil => intro _; simp [insertByStart, AllSeparated]
  | cons w ws ih =>
    intro hs
    obtain ⟨hw, hws⟩ := List.pairwise_cons.mp hs
    have ih' := ih hws
    simp only [insertByStart]
    split
    · rename_i hle
      -- `x` goes in front: every record of the list starts at or behind `x.start`
      have hc : ∀ y ∈ w :: ws, (compatOrd x y = true ↔ x.stop < y.start) := by
        intro y hy
        have : x.start ≤ y.start := by
          rcases List.mem_cons.mp hy with rfl | hy
          · exact hle
          · exact Nat.le_trans hle (hw y hy)
        simp [compatOrd, this]
      unfold AllSeparated
      rw [List.pairwise_cons]
      constructor
      · rintro ⟨h1, h2⟩
        exact ⟨fun y hy => (hc y hy).mpr (h1 y hy), h2⟩
      · rintro ⟨h1, h2⟩
        exact ⟨fun y hy => (hc y hy).mp (h1 y hy), h2⟩
    · rename_i hnle
      -- `w` stays in front of `x`
      have hcw : compatOrd x w = true ↔ w.stop < x.start := by simp [compatOrd, hnle]
      unfold AllSeparated at ih' ⊢
      rw [List.pairwise_cons, List.pairwise_cons, ih']
      constructor
      · rintro ⟨h1, h2, h3⟩
        refine ⟨?_, ?_, h3⟩
        · intro y hy
          rcases List.mem_cons.mp hy with rfl | hy
          · exact hcw.mpr (h1 x ((mem_insertByStart x x ws).mpr (Or.inl rfl)))
          · exact h2 y hy
        · intro y hy
          exact h1 y ((mem_insertByStart x y ws).mpr (Or.inr hy))
      · rintro ⟨h1, h2, h3⟩
        refine ⟨?_, ?_, h3⟩
        · intro y hy
          rcases (mem_insertByStart x y ws).mp hy with rfl | hy
          · exact hcw.mp (h1 w (by simp))
          · exact h2 y hy
        · intro y hy
          exact h1 y (List.mem_cons_of_mem _ hy)

/-- (a), as an equivalence -/
theorem separated_sort_iff_pairwiseOk : ∀ (s : List Var),
    separated (sortByStart s) = true ↔ pairwiseOk s = true := by
  intro s
  induction s with
  | nil => simp [sortByStart, separated, pairwiseOk]
  | cons x s ih =>
    have hasc := sortByStart_ascending s
    rw [sortByStart_cons',
      separated_iff_allSeparated _ (insertByStart_ascending x _ hasc),
      allSeparated_insert x _ hasc, ← separated_iff_allSeparated _ hasc, ih]
    simp only [pairwiseOk, Bool.and_eq_true, List.all_eq_true, mem_sortByStart']

/-- (a): putting `s` in ascending order gives a strictly separated list exactly when the
records of `s` are pairwise `compatOrd` (earlier record first) — for EVERY list `s` -/
theorem separated_sort_eq_pairwiseOk (s : List Var) :
    separated (sortByStart s) = pairwiseOk s := by
  rw [Bool.eq_iff_iff]
  exact separated_sort_iff_pairwiseOk s

/-! ### (b) the pruned enumerator is the filter of `sublists` -/

/-- (b): same list, same order, for every pool -/
theorem filter_sublists_eq_pruned : ∀ (p : List Var),
    (sublists p).filter pairwiseOk = prunedSublists p := by
  intro p
  induction p with
  | nil => rfl
  | cons x xs ih =>
    simp only [sublists, prunedSublists, List.filter_append, List.filter_map, ih]
    congr 2
    rw [← ih, List.filter_filter]
    apply List.filter_congr
    intro s _
    simp [pairwiseOk]

/-! ### (c) the definition equals the pruned enumerator -/

/-- (c): same list, same order, for every transcript and every record list -/
theorem haplotypes_eq_haplotypesFast (t : TxIn) (vs : List Var) :
    haplotypes t vs = haplotypesFast t vs := by
  simp only [haplotypes, haplotypesFast, List.filter_map]
  congr 1
  rw [← filter_sublists_eq_pruned, List.filter_filter]
  apply List.filter_congr
  intro s _
  simp [sortByStart_isEmpty, separated_sort_eq_pairwiseOk]

/-- compiled code evaluates `haplotypesFast` wherever a definition compiled from here on
mentions `haplotypes` -/
@[csimp] theorem haplotypes_eq_fast : @haplotypes = @haplotypesFast := by
  funext t vs
  exact haplotypes_eq_haplotypesFast t vs

/-- the transcript sequence carrying haplotype `h` (ascending, separated) -/
def applyHap (seq : List Char) (h : List Var) : List Char :=
  let rec go (pos : Nat) (rest : List Char) : List Var → List Char
    | [] => rest
    | v :: vs =>
      (rest.take (v.start - pos)) ++ v.alt ++ go v.stop (rest.drop (v.stop - pos)) vs
  go 0 seq h

/-- annotated Sec codons that survive haplotype `h`, at their new positions -/
def secAfter (sec : List Nat) (h : List Var) : List Nat :=
  sec.filterMap fun s =>
    -- convention of the command (and of its brute-force twin): a Sec codon is read as U
    -- only if NO record's location — anchor base included — overlaps it
    let touches := h.any fun v => v.touch < s + 3 && s < v.stop
    if touches then none
    else
      let shift : Int := h.foldl (fun acc v =>
        if v.stop ≤ s then acc + (v.alt.length : Int) - (v.ref.length : Int) else acc) 0
      some ((s : Int) + shift).toNat

/-! ### proteins of a sequence -/

/-- translation from `start` to the first stop; annotated Sec codons in frame read `U`.
Returns the protein and whether a stop codon terminated it. -/
def proteinFrom (seq : List Char) (sec : List Nat) (start : Nat) : Pep × Bool :=
  let aa := translate (seq.drop start)
  let aa := (List.range aa.length).zip aa |>.map fun (i, c) =>
    if c == '*' && sec.contains (start + 3 * i) then 'U' else c
  let prot := aa.takeWhile (· != '*')
  (prot, prot.length < aa.length)

/-- positions of every `ATG` -/
def startCodons (seq : List Char) : List Nat :=
  (List.range seq.length).filter fun i =>
    seq[i]? == some 'A' && seq[i+1]? == some 'T' && seq[i+2]? == some 'G'

/-- the reading frames the statement allows: the known ORF for a coding transcript,
every ATG otherwise -/
def orfStarts (t : TxIn) (seq : List Char) : List Nat :=
  if t.coding then [t.orfStart]
  else match t.orfLimit with
    | none => startCodons seq
    | some lim => (startCodons seq).filter (· ≤ lim)

/-! ### digestion products with the documented N-terminal / alt-translation forms -/

def massOk (c : CleaveCfg) (p : Pep) : Bool :=
  match molWeight c.tab c.water p with
  | some w => decide (c.minMw ≤ w)
  | none => false

def pepOk (c : CleaveCfg) (p : Pep) : Bool :=
  decide (c.minLen ≤ p.length) && decide (p.length ≤ c.maxLen) && massOk c p

/-- all W→F images of `p` for non-empty subsets of its tryptophans -/
def w2fImages (p : Pep) : List Pep :=
  let rec go : Pep → List (Pep × Bool)
    | [] => [([], false)]
    | c :: cs =>
      let r := go cs
      if c == 'W' then (r.map fun (q, b) => (c :: q, b)) ++ (r.map fun (q, _) => ('F' :: q, true))
      else r.map fun (q, b) => (c :: q, b)
  (go p).filterMap fun (q, b) => if b then some q else none

/-- prefixes of `p` ending just before a `U` (selenocysteine read as termination) -/
def sectForms (p : Pep) : List Pep :=
  (List.range p.length).filterMap fun k => if p[k]? == some 'U' then some (p.take k) else none

/-- raw digestion products of one protein: stretches between boundaries with ≤ misc sites
between, plus the Met-removed twin of those starting the protein (unless `nf`);
`dropOpenEnd` drops the products that reach the end of a protein not closed by a stop —
unless that end is itself a cleavage site of the rule as decided on the protein alone (a rule
without look-ahead cuts behind its residue whatever follows, so the product is complete). -/
def rawProducts (c : CleaveCfg) (prot : Pep) (nf : Bool) (dropOpenEnd : Bool) : List Pep :=
  let sites := cleaveSites c.rule c.exc prot
  let bs := bounds sites prot.length
  (List.range (bs.length - 1)).flatMap fun st =>
    (List.range (min (c.misc + 1) (bs.length - (st + 1)))).flatMap fun k =>
      let a := bs.getD st 0
      let b := bs.getD (st + 1 + k) 0
      if dropOpenEnd && b == prot.length && !sites.contains prot.length then []
      else
        let p := slice prot a b
        (if st == 0 && !nf && p.head? == some 'M' then [p.drop 1] else []) ++ [p]

/-- all forms (plain, Sec-terminated, W→F) of the products of one protein -/
def productForms (g : Cfg) (prot : Pep) (nf closed : Bool) (endNF : Bool) : List Pep :=
  let raw := rawProducts g.cleave prot nf (endNF && !closed)
  let secs := if g.sect then
      -- termination at a Sec: the product that would contain the U ends before it.
      -- Convention of the command (shared by its brute-force twin): the Sec-terminated
      -- forms are derived from the REPORTED products only, so for mRNA_end_NF a product
      -- that reaches the open end of the sequence contributes no Sec-terminated form either.
      raw.flatMap sectForms
    else []
  let base := raw ++ secs
  let all := if g.w2f then base ++ base.flatMap w2fImages else base
  all.filter (pepOk g.cleave)

/-! ### compiled form of `productForms`
`productForms` generates every W→F image of every raw product before it applies the length and
mass limits: a product with k tryptophans has 2^k − 1 images, and enzymes with rare sites
(caspases, enterokinase) leave products of several hundred residues.  The images have the
length of their product, so products beyond `maxLen` contribute nothing.  `productFormsFast`
skips them; the two functions are EQUAL (as lists, same order) and the equation is registered
with `@[csimp]` HERE, before the callers below are compiled, so the native driver runs the fast
one wherever `productForms` occurs while every theorem keeps talking about the definition. -/

theorem w2fImages_go_length (p : Pep) : ∀ q ∈ w2fImages.go p, q.1.length = p.length := by
  induction p with
  | nil => intro q hq; simp [w2fImages.go] at hq; subst hq; rfl
  | cons c cs ih =>
    intro q hq
    simp only [w2fImages.go] at hq
    split at hq
    · rcases List.mem_append.mp hq with h | h
      · obtain ⟨r, hr, rfl⟩ := List.mem_map.mp h
        simp [ih r hr]
      · obtain ⟨r, hr, rfl⟩ := List.mem_map.mp h
        simp [ih r hr]
    · obtain ⟨r, hr, rfl⟩ := List.mem_map.mp hq
      simp [ih r hr]

/-- a W→F image has the length of its peptide -/
theorem w2fImages_length (p q : Pep) (h : q ∈ w2fImages p) : q.length = p.length := by
  unfold w2fImages at h
  obtain ⟨⟨r, b⟩, hr, hq⟩ := List.mem_filterMap.mp h
  cases b with
  | false => simp at hq
  | true =>
    simp at hq
    subst hq
    exact w2fImages_go_length p (r, true) hr

theorem filter_flatMap' {α β : Type} (l : List α) (f : α → List β) (p : β → Bool) :
    (l.flatMap f).filter p = l.flatMap fun a => (f a).filter p := by
  induction l with
  | nil => rfl
  | cons a l ih => simp [List.flatMap_cons, List.filter_append, ih]

theorem flatMap_filter_of_nil {α β : Type} (l : List α) (h : α → List β) (q : α → Bool)
    (hq : ∀ a, q a = false → h a = []) : l.flatMap h = (l.filter q).flatMap h := by
  induction l with
  | nil => rfl
  | cons a l ih =>
    cases hqa : q a with
    | true => simp [hqa, List.flatMap_cons, ih]
    | false => simp [hqa, List.flatMap_cons, ih, hq a hqa]

/-- the forms of the products of one protein, W→F images only of products within `maxLen` -/
def productFormsFast (g : Cfg) (prot : Pep) (nf closed : Bool) (endNF : Bool) : List Pep :=
  let raw := rawProducts g.cleave prot nf (endNF && !closed)
  let secs := if g.sect then raw.flatMap sectForms else []
  let base := raw ++ secs
  if g.w2f then
    base.filter (pepOk g.cleave) ++
      ((base.filter fun p => decide (p.length ≤ g.cleave.maxLen)).flatMap fun p =>
        (w2fImages p).filter (pepOk g.cleave))
  else base.filter (pepOk g.cleave)

theorem w2f_filter_nil (c : CleaveCfg) (p : Pep) (h : decide (p.length ≤ c.maxLen) = false) :
    (w2fImages p).filter (pepOk c) = [] := by
  apply List.filter_eq_nil_iff.mpr
  intro q hq
  have hl := w2fImages_length p q hq
  have : ¬ p.length ≤ c.maxLen := by simpa using h
  simp [pepOk, hl, this]

theorem productForms_eq_fast' (g : Cfg) (prot : Pep) (nf closed endNF : Bool) :
    productForms g prot nf closed endNF = productFormsFast g prot nf closed endNF := by
  unfold productForms productFormsFast
  cases hw : g.w2f with
  | false => simp
  | true =>
    simp only [if_true]
    rw [List.filter_append, filter_flatMap']
    congr 1
    exact flatMap_filter_of_nil _ _ (fun p => decide (p.length ≤ g.cleave.maxLen))
      (fun a ha => w2f_filter_nil g.cleave a ha)

@[csimp] theorem productForms_eq_fast : @productForms = @productFormsFast := by
  funext g prot nf closed endNF
  exact productForms_eq_fast' g prot nf closed endNF


/-- every peptide form the transcript sequence `seq` gives under the allowed reading frames -/
def peptidesOf (g : Cfg) (t : TxIn) (seq : List Char) (sec : List Nat) (endNF : Bool) : List Pep :=
  (orfStarts t seq).flatMap fun s =>
    let (prot, closed) := proteinFrom seq sec s
    -- the Met-removed twin is reported whenever the translation starts with M, also for
    -- cds_start_NF transcripts (convention of the command, unlike the canonical pool)
    productForms g prot false closed endNF

/-- peptides of the unmodified transcript (with the requested alt-translation forms) -/
def referencePeptides (g : Cfg) (t : TxIn) : List Pep :=
  peptidesOf g t t.seq t.sec false

/-- S: the set C01/C02 speak about: products of some haplotype's translation, meeting the
limits, that are neither products of the unmodified transcript nor canonical. -/
def callVariant (g : Cfg) (t : TxIn) (vs : List Var) : List Pep :=
  let deny := referencePeptides g t
  ((haplotypes t vs).flatMap fun h =>
      peptidesOf g t (applyHap t.seq h) (secAfter t.sec h) t.endNF).filter fun p =>
    !deny.contains p && !g.canonical.contains p

/-- S: the set for a fusion / circRNA BACKBONE `t` (already assembled from the breakpoints or
the fragments): the backbone itself is the variant, so the empty combination of small records
counts; `deny` = the products of the unmodified donor / host transcript. -/
def callBackbone (g : Cfg) (t : TxIn) (vs : List Var) (deny : List Pep) : List Pep :=
  (([] :: haplotypes t vs).flatMap fun h =>
      -- the start of the acceptor part moves with the indels of the combination that lie before it
      let lim := t.orfLimit.map fun l =>
        ((l : Int) + h.foldl (fun acc v =>
          if v.stop ≤ l then acc + (v.alt.length : Int) - (v.ref.length : Int) else acc) 0).toNat
      peptidesOf g { t with orfLimit := lim } (applyHap t.seq h) (secAfter t.sec h) t.endNF).filter fun p =>
    !deny.contains p && !g.canonical.contains p

/-- S: the set for a circRNA: `circSeq` = the fragments concatenated in transcript order; a
combination of the small records inside the fragments is applied to the ONE molecule, which
is then read around the circle (four copies suffice for peptides of bounded length); every
ATG opens a frame; only peptides closed by a stop codon count. -/
def callCirc (g : Cfg) (circSeq : List Char) (vs : List Var) (deny : List Pep) : List Pep :=
  -- which records are usable: a circle has no 3' end, so the mRNA_end_NF rule on the last
  -- codon does not apply (`endNF := false` here) …
  let tU : TxIn := { seq := circSeq, coding := false, orfStart := 0, orfEnd := 0, startNF := false,
                     endNF := false, sec := [] }
  -- … while the unrolled copies do end openly: products reaching that end do not count
  let t : TxIn := { tU with endNF := true }
  (([] :: haplotypes tU vs).flatMap fun h =>
      let m := applyHap circSeq h
      peptidesOf { g with sect := false } t (m ++ m ++ m ++ m) [] true).filter fun p =>
    !deny.contains p && !g.canonical.contains p

/-- NOT the definition — used only to classify a discrepancy: the set obtained when each of
the (four) passes around the circle may carry its own combination of the records, which is
what a graph with independent bubbles per copy yields -/
def callCircMixed (g : Cfg) (circSeq : List Char) (vs : List Var) (deny : List Pep) : List Pep :=
  let tU : TxIn := { seq := circSeq, coding := false, orfStart := 0, orfEnd := 0, startNF := false,
                     endNF := false, sec := [] }
  let t : TxIn := { tU with endNF := true }
  let copies := ([] :: haplotypes tU vs).map (applyHap circSeq)
  (copies.flatMap fun a => copies.flatMap fun b => copies.flatMap fun c => copies.flatMap fun d =>
      peptidesOf { g with sect := false } t (a ++ b ++ c ++ d) [] true).filter fun p =>
    !deny.contains p && !g.canonical.contains p

/-- NOT the definition — classification only: like `callCircMixed`, but the passes may differ
only in records that keep the reading frame (length change divisible by three); frameshifting
records are carried by all passes or by none -/
def callCircMixedInFrame (g : Cfg) (circSeq : List Char) (vs : List Var) (deny : List Pep) : List Pep :=
  let tU : TxIn := { seq := circSeq, coding := false, orfStart := 0, orfEnd := 0, startNF := false,
                     endNF := false, sec := [] }
  let t : TxIn := { tU with endNF := true }
  let isFs (v : Var) : Bool := ((v.alt.length : Int) - (v.ref.length : Int)) % 3 != 0
  let haps := [] :: haplotypes tU vs
  (haps.flatMap fun ha =>
    let same := haps.filter fun h => (h.filter isFs) == (ha.filter isFs)
    let a := applyHap circSeq ha
    same.flatMap fun hb => same.flatMap fun hc => same.flatMap fun hd =>
      peptidesOf { g with sect := false } t
        (a ++ applyHap circSeq hb ++ applyHap circSeq hc ++ applyHap circSeq hd) [] true).filter
    fun p => !deny.contains p && !g.canonical.contains p

/-- ascending, non-overlapping; adjacency only between two records of one merge class and
never three in a row (what the merged pairs of `haplotypes` allow) -/
def separatedOrPaired : List Var → Bool
  | [] => true
  | [_] => true
  | a :: b :: rest =>
    if a.stop < b.start then separatedOrPaired (b :: rest)
    else if a.stop == b.start && sameMergeCls a b then
      -- `b` must be strictly separated from what follows
      (match rest with
        | [] => true
        | c :: _ => decide (b.stop < c.start)) && separatedOrPaired (b :: rest)
    else false

/-- S (C03): applying exactly the records named by `ids` (all of them usable and mutually
compatible) to the transcript gives a translation of which `p` is a digestion product -/
def witness (g : Cfg) (t : TxIn) (vs : List Var) (ids : List Nat) (p : Pep) : Bool :=
  let us := sortByStart (vs.filterMap (usable t))
  let h := us.filter fun v => v.ids.all ids.contains
  ids.all (fun i => h.any (·.ids.contains i)) && separatedOrPaired h &&
    (peptidesOf g t (applyHap t.seq h) (secAfter t.sec h) t.endNF).contains p

/-- the smallest set of additional record ids that turns `ids` into a witness for `p`
(`none` if no compatible combination containing `ids` yields `p`): used to describe HOW a
header entry fails to be a witness -/
def witnessCompletion (g : Cfg) (t : TxIn) (vs : List Var) (ids : List Nat) (p : Pep) :
    Option (List Nat) :=
  let cands := (haplotypes t vs).filter fun h =>
    ids.all (h.flatMap (·.ids)).contains &&
      (peptidesOf g t (applyHap t.seq h) (secAfter t.sec h) t.endNF).contains p
  let extras := cands.map fun h => (h.flatMap (·.ids)).filter fun i => !ids.contains i
  extras.foldl (fun best e => match best with
    | none => some e
    | some b => if e.length < b.length then some e else some b) none

/-! ### header entries on a circRNA backbone (C03) -/

/-- the reading of a circle that decides which records are usable (the `tU` of `callCirc`) -/
def circHost (circSeq : List Char) : TxIn :=
  { seq := circSeq, coding := false, orfStart := 0, orfEnd := 0, startNF := false,
    endNF := false, sec := [] }

/-- the peptide forms of the ONE molecule that carries the combination `h`, read around the
circle (the inner expression of `callCirc`, see `Props.C03.callCirc_unfold`) -/
def circPeptides (g : Cfg) (circSeq : List Char) (h : List Var) : List Pep :=
  let m := applyHap circSeq h
  peptidesOf { g with sect := false } { circHost circSeq with endNF := true } (m ++ m ++ m ++ m) [] true

/-- S (C03, circRNA backbone): applying exactly the records named by `ids` (all of them usable
inside the circle and mutually compatible) to the one molecule — the same records in EVERY pass
around the circle — gives a translation of which `p` is a digestion product -/
def witnessCirc (g : Cfg) (circSeq : List Char) (vs : List Var) (ids : List Nat) (p : Pep) : Bool :=
  let us := sortByStart (vs.filterMap (usable (circHost circSeq)))
  let h := us.filter fun v => v.ids.all ids.contains
  ids.all (fun i => h.any (·.ids.contains i)) && separatedOrPaired h &&
    (circPeptides g circSeq h).contains p

/-- classification only: the smallest set of additional record ids that turns `ids` into a
witness for `p` on the circle (`none`: no combination containing `ids` yields `p`) -/
def witnessCircCompletion (g : Cfg) (circSeq : List Char) (vs : List Var) (ids : List Nat) (p : Pep) :
    Option (List Nat) :=
  let cands := ([] :: haplotypes (circHost circSeq) vs).filter fun h =>
    ids.all (h.flatMap (·.ids)).contains && (circPeptides g circSeq h).contains p
  let extras := cands.map fun h => (h.flatMap (·.ids)).filter fun i => !ids.contains i
  extras.foldl (fun best e => match best with
    | none => some e
    | some b => if e.length < b.length then some e else some b) none

/-! ### where an omitted record lies relative to the peptide (classification of label defects) -/

/-- the stretch `[a, b)` that record `v ∈ h` occupies in the sequence carrying `h` -/
def appliedSpan (h : List Var) (v : Var) : Nat × Nat :=
  let shift : Int := h.foldl (fun acc w =>
    if w.stop ≤ v.start then acc + (w.alt.length : Int) - (w.ref.length : Int) else acc) 0
  let a := ((v.start : Int) + shift).toNat
  (a, a + max v.alt.length 1)

/-- DNA stretches `[a, b)` of the occurrences of `p` inside the stop-free translation of a
permitted reading frame of `seq` -/
def occurrences (t : TxIn) (seq : List Char) (sec : List Nat) (p : Pep) : List (Nat × Nat) :=
  (orfStarts t seq).flatMap fun s =>
    let prot := (proteinFrom seq sec s).1
    (List.range (prot.length + 1 - p.length)).filterMap fun i =>
      if (prot.drop i).take p.length == p then some (s + 3 * i, s + 3 * (i + p.length)) else none

/-- NOT part of any definition — used only to classify a header entry that is no witness: in the
combination `ids ++ extra` (a witness for `p`), does one of the records the entry OMITS
(`extra`) lie inside the stretch that encodes `p`?  (`false` when `p` is not a plain stretch
of the translation, e.g. a W→F form.) -/
def omittedInside (t : TxIn) (vs : List Var) (ids extra : List Nat) (p : Pep) : Bool :=
  let us := sortByStart (vs.filterMap (usable t))
  let all := ids ++ extra
  let h := us.filter fun v => v.ids.all all.contains
  let seq := applyHap t.seq h
  let occ := occurrences t seq (secAfter t.sec h) p
  (h.filter fun v => v.ids.any extra.contains).any fun v =>
    let (a, b) := appliedSpan h v
    occ.any fun (x, y) => decide (a < y) && decide (x < b)

/-- NOT part of any definition — classification only: like `omittedInside`, but for the
neighbourhood of the peptide: an omitted record ends within one codon in front of the peptide's
first codon or starts within one codon behind its last (it creates or removes the cleavage site
that bounds the peptide). -/
def omittedAdjacent (t : TxIn) (vs : List Var) (ids extra : List Nat) (p : Pep) : Bool :=
  let us := sortByStart (vs.filterMap (usable t))
  let all := ids ++ extra
  let h := us.filter fun v => v.ids.all all.contains
  let seq := applyHap t.seq h
  let occ := occurrences t seq (secAfter t.sec h) p
  (h.filter fun v => v.ids.any extra.contains).any fun v =>
    let (a, b) := appliedSpan h v
    occ.any fun (x, y) =>
      (decide (b ≤ x) && decide (x ≤ b + 3)) || (decide (y ≤ a) && decide (a ≤ y + 3))

/-! ### callNovelORF and callAltTranslation (no variants) -/

/-- S (C08): peptides of every ATG-initiated ORF in three frames of the transcript, minus the
canonical pool; with W→F reassignment also the W→F images of those (non-canonical) peptides.
(A W→F image of a CANONICAL peptide is an alt-translation peptide of a canonical protein —
callAltTranslation's subject — not a novel-ORF peptide.) -/
def novelOrfPeptides (g : Cfg) (seq : List Char) : List Pep :=
  let t : TxIn := { seq := seq, coding := false, orfStart := 0, orfEnd := 0, startNF := false,
                    endNF := false, sec := [] }
  let plain := (peptidesOf { g with sect := false, w2f := false } t seq [] false).filter
    fun p => !g.canonical.contains p
  if g.w2f then
    plain ++ ((plain.flatMap w2fImages).filter fun p => pepOk g.cleave p && !g.canonical.contains p)
  else plain

/-- S (C09): digestion products of the annotated ORF that arise ONLY through Sec termination
and/or W→F substitution (per flags), minus the canonical pool -/
def altTranslationPeptides (g : Cfg) (t : TxIn) : List Pep :=
  let plain := peptidesOf { g with sect := false, w2f := false } t t.seq t.sec t.endNF
  (peptidesOf g t t.seq t.sec t.endNF).filter fun p =>
    !plain.contains p && !g.canonical.contains p

end MoPepGen.Spec
