import MoPepGen.Model.Coord
/-!
# parseRMATS (C16): junction novelty, alignment to a transcript, record construction

Function-by-function models of

* `moPepGen/gtf/TranscriptAnnotationModel.py` : `has_junction`, `get_exon_with_start`,
  `get_exon_with_end`, `get_exon_containing`
* `moPepGen/seqvar/SplicingJunction.py` : `SpliceJunction.is_novel`, `align_to_transcript`,
  `SpliceJunctionTranscriptAlignment.get_interjacent_exons`, `get_upstream_end_spanning`,
  `get_downstream_start_spanning`, the six `create_*` constructors and
  `convert_to_variant_records`
* `moPepGen/parser/RMATSParser/{SE,A5SS,A3SS,MXE,RI}Record.py` :
  `create_splice_junctions`, `create_variant_id` (only its `ValueError`s),
  `convert_to_variant_records`

Conventions: all event coordinates are the integers of the rMATS row (0-based half-open
exons, genomic, ascending on both strands: "upstream" = lower genomic coordinate).  Python
exon indices are `Int` with `-1` = "not found", exactly as in the source (several guards
compare them with `0` / `-1` / `len - 1`).  `raise` → `Except Err`.  A record carries the
fields the property speaks about (type, transcript, `location`, `START/END`,
`DONOR_START/DONOR_END`), not `REF`, the id string or `GENOMIC_POSITION`.
The transcript record's own location (`tx_model.transcript.location`) is taken to be the
exon span (first exon start … last exon end), which is what every GTF the harness writes has.
-/
namespace MoPepGen.Rmats
open MoPepGen

/-- Python exceptions that can leave the modelled functions -/
inductive Err where
  | valueError
  | indexError
deriving DecidableEq, Repr, Inhabited

/-- `VariantRecord.type` of an alternative-splicing record -/
inductive Kind where
  | deletion
  | insertion
  | substitution
deriving DecidableEq, Repr, Inhabited

/-- an emitted record, gene coordinates. `start/stop` = `location.start/end` (= `START/END`
for deletions and substitutions; the base after which the donor is inserted, and that base
+ 1, for insertions). `donorStart/donorStop` = `DONOR_START/DONOR_END` (0 for deletions). -/
structure ASRec where
  kind : Kind
  start : Nat
  stop : Nat
  donorStart : Nat
  donorStop : Nat
deriving DecidableEq, Repr, Inhabited

/-- `SpliceJunction`: upstream exon `[us, ue)`, downstream exon `[ds, de)`; the junction joins
base `ue - 1` to base `ds`. -/
structure Junction where
  us : Nat
  ue : Nat
  ds : Nat
  de : Nat
deriving DecidableEq, Repr, Inhabited

/-! ## exon look-ups -/

/-- first index (counted from `i`) whose exon satisfies `f`, `-1` if none -/
def idxWhere (f : Iv → Bool) : List Iv → Nat → Int
  | [], _ => -1
  | e :: es, i => if f e then (i : Int) else idxWhere f es (i + 1)

/-- search downwards: the list is the reversed prefix `exon[n-1], exon[n-2], …, exon[0]`;
returns the index of the first hit, `-1` if none -/
def idxWhereDown (f : Iv → Bool) : List Iv → Nat → Int
  | [], _ => -1
  | e :: es, n => if f e then ((n - 1 : Nat) : Int) else idxWhereDown f es (n - 1)

/-- `get_exon_with_start` -/
def exonWithStart (es : List Iv) (p : Nat) : Int := idxWhere (fun e => e.start == p) es 0
/-- `get_exon_with_end` -/
def exonWithEnd (es : List Iv) (p : Nat) : Int := idxWhere (fun e => e.stop == p) es 0
/-- `get_exon_containing` -/
def exonContaining (es : List Iv) (p : Nat) : Int := idxWhere (fun e => e.contains p) es 0

/-- Python list indexing `exon[i]` (negative indices wrap, otherwise `IndexError`) -/
def pyGet (es : List Iv) (i : Int) : Except Err Iv :=
  if 0 ≤ i then
    match es[i.toNat]? with
    | some e => .ok e
    | none => .error .indexError
  else if -i ≤ (es.length : Int) then
    match es[(es.length - (-i).toNat)]? with
    | some e => .ok e
    | none => .error .indexError
  else .error .indexError

/-- `TranscriptAnnotationModel.has_junction(FeatureLocation(a, b))` -/
def hasJunction (a b : Nat) : List Iv → Bool
  | e1 :: e2 :: rest =>
    if e2.start > b then false
    else if e1.stop = a ∧ e2.start = b then true
    else hasJunction a b (e2 :: rest)
  | _ => false

/-- `SpliceJunction.is_novel` over the exon lists of all transcripts of the gene -/
def isNovel (txs : List Transcript) (j : Junction) : Bool :=
  !(txs.any fun t => hasJunction j.ue j.ds t.exons)

/-- `is_novel` as called: `FeatureLocation(start=upstream_end, end=downstream_start)` raises a
`ValueError` when the junction is inverted -/
def isNovelE (txs : List Transcript) (j : Junction) : Except Err Bool :=
  if j.ds < j.ue then .error .valueError else .ok (isNovel txs j)

/-- `not j1.is_novel(anno) and not j2.is_novel(anno) and …` (short-circuit `and`) -/
def allKnown (txs : List Transcript) : List Junction → Except Err Bool
  | [] => .ok true
  | j :: js => do
    let n ← isNovelE txs j
    if n then pure false else allKnown txs js

/-! ## alignment -/

/-- `SpliceJunctionTranscriptAlignment` -/
structure Aln where
  j : Junction
  usi : Int
  uei : Int
  dsi : Int
  dei : Int
  un : Bool
  dn : Bool
deriving DecidableEq, Repr, Inhabited

/-- `SpliceJunction.align_to_transcript` (`none` = Python `None`) -/
def align (j : Junction) (es : List Iv) (un dn : Bool) : Option Aln :=
  let usi := exonWithStart es j.us
  let uei := exonWithEnd es j.ue
  let dsi := exonWithStart es j.ds
  let dei := exonWithEnd es j.de
  if un ∧ dsi = -1 then none
  else if dn ∧ uei = -1 then none
  else some ⟨j, usi, uei, dsi, dei, un, dn⟩

/-- is the exon inside the junction's intron: `ue <= start < end <= ds` -/
def interjacentTest (ue ds : Nat) (e : Iv) : Bool :=
  decide (ue ≤ e.start) && decide (e.start < e.stop) && decide (e.stop ≤ ds)

/-- the loop's `break` test -/
def interjacentBreak (ue ds : Nat) (e : Iv) : Bool :=
  decide (e.stop ≤ ue) || decide (e.start ≥ ds)

/-- forward loop of `get_interjacent_exons` over `exon[i], exon[i+1], …` -/
def interFwd (ue ds : Nat) : List Iv → Nat → List Nat
  | [], _ => []
  | e :: es, i =>
    let acc := if interjacentTest ue ds e then [i] else []
    if interjacentBreak ue ds e then acc else acc ++ interFwd ue ds es (i + 1)

/-- backward loop over `exon[n-1], exon[n-2], …` (the list is the reversed prefix); the
result is in visiting order (descending indices) -/
def interBwd (ue ds : Nat) : List Iv → Nat → List Nat
  | [], _ => []
  | e :: es, n =>
    let acc := if interjacentTest ue ds e then [n - 1] else []
    if interjacentBreak ue ds e then acc else acc ++ interBwd ue ds es (n - 1)

/-- `get_interjacent_exons` -/
def getInterjacent (a : Aln) (es : List Iv) : Except Err (List Nat) :=
  if a.uei = 0 ∧ a.dsi = 0 then .error .valueError
  else if a.uei > -1 then
    if a.uei + 1 = (es.length : Int) then .ok []
    else .ok (interFwd a.j.ue a.j.ds (es.drop (a.uei.toNat + 1)) (a.uei.toNat + 1))
  else
    if a.dsi = 0 then .ok []
    else if a.dsi < 0 then .ok []      -- `range(-2, -1, -1)` is empty
    else .ok (interBwd a.j.ue a.j.ds (es.take a.dsi.toNat).reverse a.dsi.toNat).reverse

/-- `get_upstream_end_spanning` -/
def getUpstreamEndSpanning (a : Aln) (es : List Iv) : Int :=
  if a.j.ue = 0 then -1     -- `-1 in location` is false for every exon
  else if a.dsi = -1 then exonContaining es (a.j.ue - 1)
  else if a.dsi < 0 then -1
  else idxWhereDown (fun e => e.contains (a.j.ue - 1)) (es.take a.dsi.toNat).reverse a.dsi.toNat

/-- `get_downstream_start_spanning` -/
def getDownstreamStartSpanning (a : Aln) (es : List Iv) : Int :=
  if a.uei = -1 then exonContaining es a.j.ds
  else if a.uei < -1 then -1
  else idxWhere (fun e => e.contains a.j.ds) (es.drop (a.uei.toNat + 1)) (a.uei.toNat + 1)

/-! ## records -/

def liftG (x : Except CoordErr Nat) : Except Err Nat :=
  match x with
  | .ok v => .ok v
  | .error _ => .error .valueError

/-- `anno.coordinate_genomic_to_gene` (its `ValueError` is the only failure) -/
def g2g (g : Gene) (p : Nat) : Except Err Nat := liftG (genomicToGene g p)

/-- `FeatureLocation(start, end)`: Biopython rejects `end < start` -/
def mkLoc (s e : Nat) : Except Err Unit := if e < s then .error .valueError else .ok ()

/-- `interjacent[0]` -/
def firstIdx (l : List Nat) : Except Err Nat :=
  match l.head? with | some i => .ok i | none => .error .indexError
/-- `interjacent[-1]` -/
def lastIdx (l : List Nat) : Except Err Nat :=
  match l.getLast? with | some i => .ok i | none => .error .indexError

/-- `create_upstream_deletion` -/
def createUpstreamDeletion (a : Aln) (g : Gene) (es : List Iv) (spanning : Int)
    (inter : List Nat) : Except Err ASRec := do
  let sp ← pyGet es spanning
  let gs ← if sp.stop = a.j.ue then do
      let i ← firstIdx inter
      let e ← pyGet es i
      pure e.start
    else pure a.j.ue
  let s ← g2g g gs
  let ge ← if inter ≠ [] then do
      let i ← lastIdx inter
      let e ← pyGet es i
      pure e.stop
    else pure sp.stop
  let e ← g2g g (ge - 1)
  let (s, e) := match g.strand with | .plus => (s, e) | .minus => (e, s)
  let e := e + 1
  mkLoc s e
  pure ⟨.deletion, s, e, 0, 0⟩

/-- `create_downstream_deletion` -/
def createDownstreamDeletion (a : Aln) (g : Gene) (es : List Iv) (spanning : Int)
    (inter : List Nat) : Except Err ASRec := do
  let gs ← if inter ≠ [] then do
      let i ← firstIdx inter
      let e ← pyGet es i
      pure e.start
    else do
      let sp ← pyGet es spanning
      pure sp.start
  let s ← g2g g gs
  let sp ← pyGet es spanning
  let ge ← if a.j.ds = sp.start then do
      let i ← lastIdx inter
      let e ← pyGet es i
      pure e.stop
    else pure a.j.ds
  let e ← g2g g (ge - 1)
  let (s, e) := match g.strand with | .plus => (s, e) | .minus => (e, s)
  let e := e + 1
  mkLoc s e
  pure ⟨.deletion, s, e, 0, 0⟩

/-- `create_upstream_substitution` (the order of the `coordinate_genomic_to_gene` calls is
start, end, donor start, donor end; all raise the same `ValueError`) -/
def createUpstreamSubstitution (a : Aln) (g : Gene) (es : List Iv) (inter : List Nat) :
    Except Err ASRec := do
  let i0 ← firstIdx inter
  let e0 ← pyGet es i0
  let s ← g2g g e0.start
  let i1 ← lastIdx inter
  let e1 ← pyGet es i1
  let e ← g2g g (e1.stop - 1)
  let gds ← if i0 > 0 then do
      let p ← pyGet es ((i0 : Int) - 1)
      pure (max p.stop a.j.us)
    else pure a.j.us
  let d0 ← g2g g gds
  let d1 ← g2g g (a.j.ue - 1)
  let (s, e, d0, d1) := match g.strand with
    | .plus => (s, e, d0, d1)
    | .minus => (e, s, d1, d0)
  mkLoc s (e + 1)
  pure ⟨.substitution, s, e + 1, d0, d1 + 1⟩

/-- `create_downstream_substitution` -/
def createDownstreamSubstitution (a : Aln) (g : Gene) (es : List Iv) (inter : List Nat) :
    Except Err ASRec := do
  let i0 ← firstIdx inter
  let e0 ← pyGet es i0
  let s ← g2g g e0.start
  let i1 ← lastIdx inter
  let e1 ← pyGet es i1
  let e ← g2g g (e1.stop - 1)
  let d0 ← g2g g a.j.ds
  let gde ← if i1 + 1 < es.length then do
      let n ← pyGet es ((i1 : Int) + 1)
      pure (min n.start a.j.de)
    else pure a.j.de
  let d1 ← g2g g (gde - 1)
  let (s, e, d0, d1) := match g.strand with
    | .plus => (s, e, d0, d1)
    | .minus => (e, s, d1, d0)
  mkLoc s (e + 1)
  pure ⟨.substitution, s, e + 1, d0, d1 + 1⟩

/-- `create_upstream_insertion` (`junction.downstream_end` / `upstream_start` are never `None`
for rMATS events) -/
def createUpstreamInsertion (a : Aln) (g : Gene) (es : List Iv) : Except Err ASRec := do
  if a.dsi ≤ 0 then throw .valueError
  let prev ← pyGet es (a.dsi - 1)
  let (ipg, dsg, deg) := match g.strand with
    | .plus => (prev.stop - 1, max prev.stop a.j.us, a.j.ue - 1)
    | .minus => (a.j.ds, a.j.ue - 1, max prev.stop a.j.us)
  let ip ← g2g g ipg
  let d0 ← g2g g dsg
  let d1 ← g2g g deg
  pure ⟨.insertion, ip, ip + 1, d0, d1 + 1⟩

/-- `create_downstream_insertion` -/
def createDownstreamInsertion (a : Aln) (g : Gene) (es : List Iv) : Except Err ASRec := do
  if a.uei = -1 then throw .valueError
  if a.usi = (es.length : Int) - 1 then throw .valueError
  let nxt ← pyGet es (a.uei + 1)
  let (ipg, dsg, deg) := match g.strand with
    | .plus => (a.j.ue - 1, a.j.ds, min (nxt.start - 1) (a.j.de - 1))
    | .minus => (nxt.start, min (nxt.start - 1) (a.j.de - 1), a.j.ds)
  let ip ← g2g g ipg
  let d0 ← g2g g dsg
  let d1 ← g2g g deg
  pure ⟨.insertion, ip, ip + 1, d0, d1 + 1⟩

/-- the `if upstream_novel:` block of `convert_to_variant_records` -/
def convUpstream (a : Aln) (g : Gene) (es : List Iv) (inter : List Nat) :
    Except Err (List ASRec) :=
  if a.uei = -1 ∨ inter ≠ [] then
    let sp := getUpstreamEndSpanning a es
    if sp > -1 then do
      let v ← createUpstreamDeletion a g es sp inter
      pure [v]
    else if inter ≠ [] then do
      let v ← createUpstreamSubstitution a g es inter
      pure [v]
    else if a.dsi > 0 then do
      let v ← createUpstreamInsertion a g es
      pure [v]
    else pure []
  else pure []

/-- the `if downstream_novel:` block -/
def convDownstream (a : Aln) (g : Gene) (es : List Iv) (inter : List Nat) :
    Except Err (List ASRec) :=
  if a.dsi = -1 ∨ inter ≠ [] then
    let sp := getDownstreamStartSpanning a es
    if sp > -1 then do
      let v ← createDownstreamDeletion a g es sp inter
      pure [v]
    else if inter ≠ [] then do
      let v ← createDownstreamSubstitution a g es inter
      pure [v]
    else if -1 < a.dei ∧ a.dei < (es.length : Int) - 1 then do
      let v ← createDownstreamInsertion a g es
      pure [v]
    else pure []
  else pure []

/-- the `if not downstream_novel and not upstream_novel:` block -/
def convKnown (a : Aln) (g : Gene) (t : Transcript) (inter : List Nat) :
    Except Err (List ASRec) :=
  let es := t.exons
  let upAligned := match t.strand with
    | .plus => decide (a.uei ≠ -1)
    | .minus => decide (a.dsi ≠ -1)
  let afterStart := match t.strand with
    | .plus => decide (t.spanStart < a.j.ue)
    | .minus => decide (t.spanStop > a.j.ds + 1)
  if upAligned && afterStart then
    match t.strand with
    | .plus =>
      if a.dsi = -1 ∨ inter ≠ [] then
        let sp := getDownstreamStartSpanning a es
        if sp > -1 then do
          let v ← createDownstreamDeletion a g es sp inter
          pure [v]
        else if inter ≠ [] then do
          let v ← createDownstreamSubstitution a g es inter
          pure [v]
        else pure []
      else pure []
    | .minus =>
      let sp := getUpstreamEndSpanning a es
      if a.uei = -1 ∨ inter ≠ [] then
        if sp > -1 then do
          let v ← createUpstreamDeletion a g es sp inter
          pure [v]
        else if inter ≠ [] then do
          let v ← createUpstreamSubstitution a g es inter
          pure [v]
        else pure []
      else pure []
  else pure []

/-- `SpliceJunctionTranscriptAlignment.convert_to_variant_records` -/
def convertAln (a : Aln) (g : Gene) (t : Transcript) : Except Err (List ASRec) := do
  let inter ← getInterjacent a t.exons
  let v1 ← if a.un then convUpstream a g t.exons inter else pure []
  let v2 ← if a.dn then convDownstream a g t.exons inter else pure []
  let v3 ← if !a.dn && !a.un then convKnown a g t inter else pure []
  pure (v1 ++ v2 ++ v3)

/-- `aln = junction.align_to_transcript(tx, un, dn); if aln: variants += aln.convert…` -/
def alignConvert (j : Junction) (g : Gene) (t : Transcript) (un dn : Bool) :
    Except Err (List ASRec) :=
  match align j t.exons un dn with
  | none => .ok []
  | some a => convertAln a g t

/-! ## the five event classes -/

/-- run `f` over the transcripts of the gene in order, tagging each record with the index of
its transcript in `gene_model.transcripts` -/
def overTxs (f : Transcript → Except Err (List ASRec)) :
    List Transcript → Nat → Except Err (List (Nat × ASRec))
  | [], _ => .ok []
  | t :: ts, i => do
    let r ← f t
    let rs ← overTxs f ts (i + 1)
    pure (r.map (fun x => (i, x)) ++ rs)

/-- a sequence of `coordinate_genomic_to_gene` calls of which only the failure matters
(`create_variant_id`) -/
def g2gAll (g : Gene) : List Nat → Except Err Unit
  | [] => .ok ()
  | p :: ps => do
    let _ ← g2g g p
    g2gAll g ps

/-- `SERecord` (the fields used) -/
structure SE where
  es : Nat
  ee : Nat
  us : Nat
  ue : Nat
  ds : Nat
  de : Nat
  ijc : Nat
  sjc : Nat
deriving DecidableEq, Repr, Inhabited

def SE.skipJ (v : SE) : Junction := ⟨v.us, v.ue, v.ds, v.de⟩
def SE.upJ (v : SE) : Junction := ⟨v.us, v.ue, v.es, v.ee⟩
def SE.downJ (v : SE) : Junction := ⟨v.es, v.ee, v.ds, v.de⟩

/-- body of the `for tx_id in tx_ids` loop of `SERecord.convert_to_variant_records` -/
def seTx (v : SE) (g : Gene) (minIjc minSjc : Nat) (t : Transcript) :
    Except Err (List ASRec) := do
  let a ← if v.sjc ≥ minSjc then alignConvert v.skipJ g t false false else pure []
  let b ← if v.ijc ≥ minIjc then do
      let x ← alignConvert v.upJ g t false true
      let y ← alignConvert v.downJ g t true false
      pure (x ++ y)
    else pure []
  pure (a ++ b)

/-- `SERecord.convert_to_variant_records` -/
def seConvert (v : SE) (g : Gene) (txs : List Transcript) (minIjc minSjc : Nat) :
    Except Err (List (Nat × ASRec)) :=
  do
  let k ← allKnown txs [v.skipJ, v.upJ, v.downJ]
  if k then pure []
  else
    g2gAll g [v.ue - 1, v.es, v.ee - 1, v.ds]
    overTxs (seTx v g minIjc minSjc) txs 0

/-- `A5SSRecord` / `A3SSRecord` (same fields) -/
structure AxSS where
  ls : Nat
  le : Nat
  ss : Nat
  se : Nat
  fs : Nat
  fe : Nat
  ijc : Nat
  sjc : Nat
deriving DecidableEq, Repr, Inhabited

/-- `A5SSRecord.create_splice_junctions` -/
def AxSS.a5Junctions (v : AxSS) : Strand → Junction × Junction
  | .plus => (⟨v.ls, v.le, v.fs, v.fe⟩, ⟨v.ss, v.se, v.fs, v.fe⟩)
  | .minus => (⟨v.fs, v.fe, v.ls, v.le⟩, ⟨v.fs, v.fe, v.ss, v.se⟩)

/-- `A3SSRecord.create_splice_junctions` -/
def AxSS.a3Junctions (v : AxSS) : Strand → Junction × Junction
  | .plus => (⟨v.fs, v.fe, v.ls, v.le⟩, ⟨v.fs, v.fe, v.ss, v.se⟩)
  | .minus => (⟨v.ls, v.le, v.fs, v.fe⟩, ⟨v.ss, v.se, v.fs, v.fe⟩)

/-- loop body shared by A5SS and A3SS -/
def axTx (v : AxSS) (jl jsh : Junction) (un dn : Bool) (g : Gene) (minIjc minSjc : Nat)
    (t : Transcript) : Except Err (List ASRec) := do
  let a ← if v.ijc ≥ minIjc then alignConvert jl g t un dn else pure []
  let b ← if v.sjc ≥ minSjc then alignConvert jsh g t un dn else pure []
  pure (a ++ b)

/-- `A5SSRecord.convert_to_variant_records` -/
def a5Convert (v : AxSS) (g : Gene) (txs : List Transcript) (minIjc minSjc : Nat) :
    Except Err (List (Nat × ASRec)) :=
  let (jl, jsh) := v.a5Junctions g.strand
  do
  let k ← allKnown txs [jl, jsh]
  if k then pure []
  else
    (match g.strand with
      | .plus => g2gAll g [v.le - 1, v.se - 1, v.fs]
      | .minus => g2gAll g [v.ls, v.ss, v.fe - 1])
    let (un, dn) := match g.strand with | .plus => (true, false) | .minus => (false, true)
    overTxs (axTx v jl jsh un dn g minIjc minSjc) txs 0

/-- `A3SSRecord.convert_to_variant_records` -/
def a3Convert (v : AxSS) (g : Gene) (txs : List Transcript) (minIjc minSjc : Nat) :
    Except Err (List (Nat × ASRec)) :=
  let (jl, jsh) := v.a3Junctions g.strand
  do
  let k ← allKnown txs [jl, jsh]
  if k then pure []
  else
    (match g.strand with
      | .plus => g2gAll g [v.fe - 1, v.ls, v.ss]
      | .minus => g2gAll g [v.fs, v.le - 1, v.se - 1])
    let (un, dn) := match g.strand with | .plus => (false, true) | .minus => (true, false)
    overTxs (axTx v jl jsh un dn g minIjc minSjc) txs 0

/-- `MXERecord` -/
structure MXE where
  f1s : Nat
  f1e : Nat
  f2s : Nat
  f2e : Nat
  us : Nat
  ue : Nat
  ds : Nat
  de : Nat
  ijc : Nat
  sjc : Nat
deriving DecidableEq, Repr, Inhabited

def MXE.firstDownJ (v : MXE) : Junction := ⟨v.f1s, v.f1e, v.ds, v.de⟩
def MXE.secondUpJ (v : MXE) : Junction := ⟨v.us, v.ue, v.f2s, v.f2e⟩

/-- loop body of `MXERecord.convert_to_variant_records` (note the strict `>` on `sjc`) -/
def mxeTx (v : MXE) (g : Gene) (minIjc minSjc : Nat) (t : Transcript) :
    Except Err (List ASRec) := do
  let a ← if v.ijc ≥ minIjc then alignConvert v.firstDownJ g t true false else pure []
  let b ← if v.sjc > minSjc then alignConvert v.secondUpJ g t false true else pure []
  pure (a ++ b)

/-- `list(set(variants))` as a list without order: `VariantRecord.__eq__`/`__hash__` do not look
at `TRANSCRIPT_ID`, so equal records of *different* transcripts collapse and the first one
inserted survives -/
def dedupFirst : List (Nat × ASRec) → List (Nat × ASRec) → List (Nat × ASRec)
  | [], acc => acc.reverse
  | x :: xs, acc => if acc.any (fun y => y.2 == x.2) then dedupFirst xs acc
                    else dedupFirst xs (x :: acc)

/-- `MXERecord.convert_to_variant_records`; the order of the returned list is that of first
insertion, the Python's is the set's (the driver sorts both) -/
def mxeConvert (v : MXE) (g : Gene) (txs : List Transcript) (minIjc minSjc : Nat) :
    Except Err (List (Nat × ASRec)) :=
  do
  let k ← allKnown txs [v.firstDownJ, v.secondUpJ]
  if k then pure []
  else
    g2gAll g [v.ue - 1, v.f1s, v.f1e - 1, v.f2s, v.f2e - 1, v.ds]
    let l ← overTxs (mxeTx v g minIjc minSjc) txs 0
    pure (dedupFirst l [])

/-- `RIRecord` (`riExonStart/End` are not used by the code) -/
structure RI where
  us : Nat
  ue : Nat
  ds : Nat
  de : Nat
  ijc : Nat
  sjc : Nat
deriving DecidableEq, Repr, Inhabited

/-- `exon_start < upstream_exon_end < downstream_exon_start < exon_end`
(after the `fix:`; the unchanged tree tested `< exon_end - 1`) -/
def riRetainedTest (ue ds : Nat) (e : Iv) : Bool :=
  decide (e.start < ue) && decide (ue < ds) && decide (ds < e.stop)

/-- the exon walk of `RIRecord.convert_to_variant_records` for one transcript:
(appended to `spliced_in_ref`?, number of times appended to `retained_in_ref`) -/
def riWalk (ue ds : Nat) : List Iv → Bool × Nat
  | [] => (false, 0)
  | e :: rest =>
    if e.stop = ue then
      match rest with
      | [] => (false, 0)
      | e2 :: rest2 =>
        if e2.start = ds then (true, 0)
        else
          let r := riWalk ue ds rest2
          (r.1, r.2 + (if riRetainedTest ue ds e2 then 1 else 0))
    else
      let r := riWalk ue ds rest
      (r.1, r.2 + (if riRetainedTest ue ds e then 1 else 0))

/-- indices (with multiplicity) of the transcripts in `spliced_in_ref` -/
def riSpliced (ue ds : Nat) : List Transcript → Nat → List Nat
  | [], _ => []
  | t :: ts, i =>
    (if (riWalk ue ds t.exons).1 then [i] else []) ++ riSpliced ue ds ts (i + 1)

/-- indices (with multiplicity) of the transcripts in `retained_in_ref` -/
def riRetained (ue ds : Nat) : List Transcript → Nat → List Nat
  | [], _ => []
  | t :: ts, i =>
    List.replicate (riWalk ue ds t.exons).2 i ++ riRetained ue ds ts (i + 1)

/-- `start_gene`, `end_gene` of `RIRecord.convert_to_variant_records` (after the strand swap and
`end_gene += 1`): the gene-coordinate interval of the intron `[ue, ds)` -/
def riCoords (v : RI) (g : Gene) : Except Err (Nat × Nat) := do
  let a ← g2g g v.ue
  let b ← g2g g (v.ds - 1)
  match g.strand with
  | .plus => pure (a, b + 1)
  | .minus => pure (b, a + 1)

/-- the `if not retained_in_ref and ijc >= min_ijc` block: one Insertion per spliced transcript.
(`insert_position = start_gene - 1` would be `-1` for `start_gene = 0`: outside the model,
rendered as an error when a record would carry it.) -/
def riIns (s e : Nat) (spliced : List Nat) : Except Err (List (Nat × ASRec)) :=
  if s = 0 then (if spliced = [] then .ok [] else .error .valueError)
  else .ok (spliced.map fun i => (i, (⟨.insertion, s - 1, s, s, e⟩ : ASRec)))

/-- the `if not spliced_in_ref and sjc >= min_sjc` block: one Deletion per retained transcript -/
def riDel (s e : Nat) (retained : List Nat) : Except Err (List (Nat × ASRec)) :=
  match mkLoc s e with
  | .error x => .error x
  | .ok _ => .ok (retained.map fun i => (i, (⟨.deletion, s, e, 0, 0⟩ : ASRec)))

/-- `RIRecord.convert_to_variant_records` -/
def riConvert (v : RI) (g : Gene) (txs : List Transcript) (minIjc minSjc : Nat) :
    Except Err (List (Nat × ASRec)) :=
  let spliced := riSpliced v.ue v.ds txs 0
  let retained := riRetained v.ue v.ds txs 0
  match riCoords v g with
  | .error x => .error x
  | .ok (s, e) =>
    match (if retained = [] ∧ v.ijc ≥ minIjc then riIns s e spliced else .ok []) with
    | .error x => .error x
    | .ok ins =>
      match (if spliced = [] ∧ v.sjc ≥ minSjc then riDel s e retained else .ok []) with
      | .error x => .error x
      | .ok del => .ok (ins ++ del)

end MoPepGen.Rmats
