/-!
# Model of the moPepGen index directory (property C12)

Layer M, import-free.  Follows `/repo/moPepGen/index.py`, `cli/generate_index.py`,
`cli/update_index.py`, `cli/common.py:load_references` (index branch), `version.py`
and `params.py:CleavageParams` function by function.

* the directory is `State`: `md` = content of `metadata.json` (absent = no file),
  `files` = every other file (name ↦ blob);
* a reference data set (genome FASTA + GTF + proteome FASTA given to `generateIndex`)
  is an opaque id `r : Nat`; pickles / GTF copies made from it are `Blob.data r`;
* the content of a canonical pool is the abstract parameter
  `poolRaw annoRef protRef rawArgs` — what `create_unique_peptide_pool` returns for the
  annotation / proteome objects in hand and the *raw* command-line arguments
  (the code passes `args.cleavage_exception` unnormalised);
* `raise` → an `Outcome` constructor (`reject…` for the rejections the property names,
  `crash…` for every other exception), mutation → returned `State`.
-/
namespace MoPepGen.IndexDir

/-! ## cleavage parameters (`params.py`) -/

/-- The six cleavage arguments after the CLI's `int()` / `float()` conversions.
`minMw` is in 1/1000 Da, so Python's `500 == 500.0` is equality here. `exc = none` is
Python `None`. -/
structure Params where
  enzyme : String
  exc : Option String
  misc : Int
  minMw : Int
  minLen : Int
  maxLen : Int
deriving DecidableEq, Repr, Inhabited

/-- `CleavageParams.__init__` followed by `jsonfy(graph_params=False)`: the value
that is stored in `metadata.json` and compared by `get_canonical_pool`.
`exception == 'auto'` becomes `'trypsin_exception'` for trypsin and `None` otherwise. -/
def norm (p : Params) : Params :=
  if p.exc = some "auto" then
    { p with exc := if p.enzyme = "trypsin" then some "trypsin_exception" else none }
  else p

/-! ## versions (`version.py`) -/

/-- `MetaVersion` fields; `""` also stands for JSON `null`. -/
structure Version where
  py : String
  bio : String
  mpg : String
deriving DecidableEq, Repr, Inhabited

/-- `MetaVersion.__init__`: `self.x = x or <current>` -/
def fillVersion (cur v : Version) : Version :=
  { py := if v.py = "" then cur.py else v.py,
    bio := if v.bio = "" then cur.bio else v.bio,
    mpg := if v.mpg = "" then cur.mpg else v.mpg }

/-- `int(x)` on a version component: ASCII digits only (the harness never produces
signs, blanks or underscores, which Python's `int` would also accept). `none` = ValueError -/
def parseNat? (s : String) : Option Nat :=
  if s.isEmpty || !s.all Char.isDigit then none
  else some (s.foldl (fun n c => 10 * n + (c.toNat - 48)) 0)

/-- `MetaVersion.get_semver`: `tuple(int(x) for x in version.split('-')[0].split('.'))` -/
def getSemver (v : String) : Option (List Nat) :=
  (((v.splitOn "-").headD "").splitOn ".").mapM parseNat?

/-- Python tuple comparison `a <= b` (lexicographic, a proper prefix is smaller) -/
def lexLe : List Nat → List Nat → Bool
  | [], _ => true
  | _ :: _, [] => false
  | a :: as, b :: bs => a < b || (a == b && lexLe as bs)

/-- `MetaVersion.is_valid` evaluated on the current version (`self`), with Python's
short-circuit `and`; `none` = `ValueError` out of `get_semver`. -/
def isValid (cur : Version) (minimal : String) (v : Version) : Option Bool :=
  if cur.py ≠ v.py then some false
  else if cur.bio ≠ v.bio then some false
  else match getSemver v.mpg with
    | none => none
    | some that => match getSemver minimal with
      | none => none
      | some m => some (lexLe m that)

/-! ## files -/

/-- file names inside the index directory (`IndexDir.__init__`,
`GenomicAnnotationOnDisk.get_index_files`, `register_canonical_pool`);
`pool i` is `f"canonical_peptides_{i:03}.pkl"` (rendered by `FName.render`). -/
inductive FName where
  | genome | proteome | anno | geneIdx | txIdx | codingTx
  | pool (i : Nat)
deriving DecidableEq, Repr, Inhabited

def pad3 (i : Nat) : String :=
  (if i < 10 then "00" else if i < 100 then "0" else "") ++ toString i

def FName.render : FName → String
  | .genome => "genome.pkl"
  | .proteome => "proteome.pkl"
  | .anno => "annotation.gtf"
  | .geneIdx => "annotation_gene.idx"
  | .txIdx => "annotation_tx.idx"
  | .codingTx => "coding_transcripts.pkl"
  | .pool i => "canonical_peptides_" ++ pad3 i ++ ".pkl"

/-- file contents: data derived from reference set `r`, a pickled peptide pool, or
(only `annotation.gtf` under `--gtf-symlink`) a symbolic link to the GTF of reference set
`target`, whose current content is the GTF of `content` (`target = content` unless a later
copy wrote through the link) -/
inductive Blob (α : Type) where
  | data (r : Nat)
  | pool (x : α)
  | link (target content : Nat)
deriving DecidableEq, Repr, Inhabited

/-- the reference set whose data is read when the file is opened -/
def Blob.ref {α} : Blob α → Option Nat
  | .data r => some r
  | .pool _ => none
  | .link _ c => some c

abbrev Files (α : Type) := List (FName × Blob α)

def fget {α} : Files α → FName → Option (Blob α)
  | [], _ => none
  | (m, b) :: fs, n => if m = n then some b else fget fs n

/-- `os.remove` (when the file exists) -/
def fdel {α} : Files α → FName → Files α
  | [], _ => []
  | (m, b) :: fs, n => if m = n then fdel fs n else (m, b) :: fdel fs n

/-- `open(name, 'wb')` + dump: create or overwrite -/
def fset {α} (fs : Files α) (n : FName) (b : Blob α) : Files α := (n, b) :: fdel fs n

/-! ## metadata (`index.py`) -/

/-- `CanonicalPoolMetadata` -/
structure Entry where
  filename : FName
  index : Nat
  key : Params
deriving DecidableEq, Repr, Inhabited

/-- `IndexMetadata`; `source` is the GTF flavour detected from reference set `r` -/
structure Meta where
  version : Version
  pools : List Entry
  source : Option Nat
deriving DecidableEq, Repr, Inhabited

/-- the directory: `metadata.json` (if present) and all other files -/
structure State (α : Type) where
  md : Option Meta
  files : Files α

def State.empty {α} : State α := { md := none, files := [] }

/-- what the environment supplies: current runtime versions, `MINIMAL_VERSION`, and the
peptide pool computed from (annotation of ref `a`, proteome of ref `b`, raw arguments) -/
structure Env (α : Type) where
  cur : Version
  minimal : String
  poolRaw : Nat → Nat → Params → α

/-- values handed back by `load_references(index_dir=…, load_proteome=True)` -/
structure Loaded (α : Type) where
  pool : Blob α
  genome : Blob α
  anno : Blob α
  source : Option Nat
  proteome : Blob α
deriving DecidableEq, Repr

inductive Outcome (α : Type) where
  | done
  | loaded (x : Loaded α)
  | rejectExists        -- `sys.exit(1)`: directory / pool already exists
  | rejectNoPool        -- ValueError 'No canonical peptide pool match…'
  | rejectBadVersion    -- err.InvalidIndexError
  | crashFileExists     -- os.symlink onto an existing annotation.gtf
  | crashSameFile       -- shutil.copy2 of a GTF onto the symlink that points to it
  | crashFileNotFound
  | crashValueError
  | crashOther
deriving DecidableEq, Repr

/-- `IndexMetadata.get_canonical_pool`: first entry whose jsonified parameters equal
the jsonified (already normalised) request -/
def getPool (pools : List Entry) (p : Params) : Option Entry :=
  pools.find? (fun en => decide (en.key = norm p))

/-- `max(it.index for it in pools)` -/
def maxIndex : List Entry → Nat
  | [] => 0
  | en :: es => max en.index (maxIndex es)

/-- `IndexMetadata.register_canonical_pool`; `none` = ValueError 'already exists' -/
def register (m : Meta) (p : Params) : Option (Meta × Entry) :=
  if (getPool m.pools p).isSome then none
  else
    let index := if m.pools.isEmpty then 1 else maxIndex m.pools + 1
    let en : Entry := { filename := .pool index, index := index, key := norm p }
    some ({ m with pools := m.pools ++ [en] }, en)

/-- `IndexDir.__init__`: `load_metadata` when `metadata.json` exists (every entry goes
through `CleavageParams(**…)`, the version through `MetaVersion(**…)`), else `init_metadata` -/
def openDir {α} (e : Env α) (s : State α) : Meta :=
  match s.md with
  | some m => { version := fillVersion e.cur m.version,
                pools := m.pools.map (fun en => { en with key := norm en.key }),
                source := m.source }
  | none => { version := e.cur, pools := [], source := none }

/-- `IndexDir.save_canonical_peptides`; `none` = ValueError from `register` -/
def saveCanonical {α} (m : Meta) (fs : Files α) (x : α) (p : Params) (override : Bool) :
    Option (Meta × Files α) :=
  match getPool m.pools p with
  | some en =>
    if !override then
      match register m p with
      | none => none
      | some (m', en') => some (m', fset fs en'.filename (.pool x))
    else some (m, fset fs en.filename (.pool x))
  | none =>
    match register m p with
    | none => none
    | some (m', en') => some (m', fset fs en'.filename (.pool x))

/-- `IndexDir.wipe_canonical_peptides`: `os.remove` each listed file in order;
`.error fs'` = FileNotFoundError at the first missing one (earlier ones are gone) -/
def wipe {α} : List Entry → Files α → Except (Files α) (Files α)
  | [], fs => .ok fs
  | en :: es, fs =>
    match fget fs en.filename with
    | none => .error fs
    | some _ => wipe es (fdel fs en.filename)

/-- `IndexDir.load_annotation`: opens `annotation.gtf` (FileNotFoundError) then
`load_index` (ValueError when an `.idx` file is missing) -/
def loadAnno {α} (fs : Files α) : Except (Outcome α) (Blob α) :=
  match fget fs .anno with
  | none => .error .crashFileNotFound
  | some a =>
    if (fget fs .geneIdx).isNone || (fget fs .txIdx).isNone then .error .crashValueError
    else .ok a

/-- `any(index_dir.path.iterdir())` -/
def dirNonEmpty {α} (s : State α) : Bool := s.md.isSome || !s.files.isEmpty

/-- `IndexDir.create_gtf_copy` for an uncompressed `.gtf`: `os.symlink` refuses an existing
name (FileExistsError); `shutil.copy2` follows an existing symlink: SameFileError when it
points to the file being copied, otherwise the link target is overwritten. Returns the new
content of `annotation.gtf`. -/
def gtfCopy {α} (old : Option (Blob α)) (r : Nat) (symlink : Bool) :
    Except (Outcome α) (Blob α) :=
  match old with
  | none => .ok (if symlink then .link r r else .data r)
  | some b =>
    if symlink then .error .crashFileExists
    else match b with
      | .link t _ => if t = r then .error .crashSameFile else .ok (.link t r)
      | _ => .ok (.data r)

/-- body of `generate_index` after the exists/force gate; the in-memory metadata is
`init_metadata()` (either freshly constructed or re-initialised after the wipe) -/
def genBody {α} (e : Env α) (s : State α) (r : Nat) (p : Params) (symlink : Bool) :
    State α × Outcome α :=
  let m0 : Meta := { version := e.cur, pools := [], source := none }
  let f1 := fset (fset s.files .genome (.data r)) .proteome (.data r)
  -- save_annotation → create_gtf_copy
  match gtfCopy (fget f1 .anno) r symlink with
  | .error o => ({ s with files := f1 }, o)
  | .ok a =>
    let f2 := fset (fset (fset f1 .anno a) .geneIdx (.data r)) .txIdx (.data r)
    match saveCanonical m0 f2 (e.poolRaw r r p) p false with
    | none => ({ s with files := f2 }, .crashValueError)
    | some (m1, f3) =>
      let f4 := fset f3 .codingTx (.data r)
      ({ md := some { m1 with source := some r }, files := f4 }, .done)

/-- `cli.generate_index` -/
def gen {α} (e : Env α) (s : State α) (r : Nat) (p : Params) (force symlink : Bool) :
    State α × Outcome α :=
  let m := openDir e s
  if dirNonEmpty s then
    if force then
      match wipe m.pools s.files with
      | .error fs' => ({ s with files := fs' }, .crashFileNotFound)
      | .ok fs' => genBody e { s with files := fs' } r p symlink
    else (s, .rejectExists)
  else genBody e s r p symlink

/-- `cli.update_index` -/
def upd {α} (e : Env α) (s : State α) (p : Params) (force : Bool) : State α × Outcome α :=
  let m := openDir e s
  match isValid e.cur e.minimal m.version with
  | none => (s, .crashValueError)
  | some false => (s, .rejectBadVersion)
  | some true =>
    let poolExists := (getPool m.pools p).isSome
    if poolExists && !force then (s, .rejectExists)
    else
      match loadAnno s.files with
      | .error o => (s, o)
      | .ok a =>
        match fget s.files .proteome with
        | none => (s, .crashFileNotFound)
        | some pr =>
          match a.ref, pr.ref with
          | some ra, some rp =>
            match saveCanonical m s.files (e.poolRaw ra rp p) p force with
            | none => (s, .crashValueError)
            | some (m', fs') =>
              if !poolExists then ({ md := some m', files := fs' }, .done)
              else ({ s with files := fs' }, .done)
          | _, _ => (s, .crashOther)

/-- `cli.common.load_references(args with index_dir, load_genome=True,
load_canonical_peptides=True, load_proteome=True, cleavage_params=CleavageParams(p…))` -/
def load {α} (e : Env α) (s : State α) (p : Params) : Outcome α :=
  let m := openDir e s
  match isValid e.cur e.minimal m.version with
  | none => .crashValueError
  | some false => .rejectBadVersion
  | some true =>
    match getPool m.pools p with
    | none => .rejectNoPool
    | some en =>
      match fget s.files en.filename with
      | none => .crashFileNotFound
      | some b =>
        match fget s.files .genome with
        | none => .crashFileNotFound
        | some g =>
          match loadAnno s.files with
          | .error o => o
          | .ok a =>
            match fget s.files .proteome with
            | none => .crashFileNotFound
            | some pr => .loaded { pool := b, genome := g, anno := a, source := m.source,
                                   proteome := pr }

/-- `IndexDir(path).load_coding_tx()`; `none` = FileNotFoundError -/
def loadCodingTx {α} (s : State α) : Option (Blob α) := fget s.files .codingTx

/-- an edit of the `version` object inside `metadata.json` (no-op without the file) -/
def tamper {α} (s : State α) (v : Version) : State α :=
  match s.md with
  | none => s
  | some m => { s with md := some { m with version := v } }

inductive Op where
  | gen (r : Nat) (p : Params) (force symlink : Bool)
  | upd (p : Params) (force : Bool)
  | load (p : Params)
  | tamper (v : Version)
deriving DecidableEq, Repr

def step {α} (e : Env α) (s : State α) : Op → State α × Outcome α
  | .gen r p f l => gen e s r p f l
  | .upd p f => upd e s p f
  | .load p => (s, load e s p)
  | .tamper v => (tamper s v, .done)

/-- state after a history of invocations on an initially empty / absent directory -/
def run {α} (e : Env α) (s : State α) : List Op → State α
  | [] => s
  | o :: os => run e (step e s o).1 os

/-- outcomes of the successive invocations -/
def outcomes {α} (e : Env α) (s : State α) : List Op → List (Outcome α)
  | [] => []
  | o :: os => (step e s o).2 :: outcomes e (step e s o).1 os

end MoPepGen.IndexDir
