/-
Layer M for moPepGen/aa/VariantPeptideLabel.py (`VariantSourceSet`,
`LabelSourceMapping`, `VariantPeptideInfo.from_variant_peptide`),
moPepGen/aa/PeptidePoolSplitter.py (`append_order*`, `create_wildcard_map`,
`split`), moPepGen/aa/VariantPeptidePool.py (`add_peptide`,
`remove_redundant_headers`), moPepGen/cli/encode_fasta.py and
moPepGen/aa/PeptidePoolSummarizer.py (`NoncanonicalPeptideSummaryTable`,
`write_summary_table`).
-/
import MoPepGen.Model.Filter
namespace MoPepGen

abbrev Src := String
/-- a Python `set` of sources, as a duplicate-free list (equality = `sameSet`) -/
abbrev SrcSet := List Src

def setInsert (x : Src) (s : SrcSet) : SrcSet := if s.contains x then s else s ++ [x]
def subsetB (a b : SrcSet) : Bool := a.all b.contains
def sameSet (a b : SrcSet) : Bool := subsetB a b && subsetB b a
def ofList (l : List Src) : SrcSet := l.foldl (fun s x => setInsert x s) []

/-- a key of the `order` dict: a plain string or a `frozenset` -/
inductive OKey where
  | one (s : Src)
  | many (s : SrcSet)
  deriving Repr

def OKey.same : OKey → OKey → Bool
  | .one a, .one b => a == b
  | .many a, .many b => sameSet a b
  | _, _ => false

/-- `order` / `levels_map`: dict in insertion order -/
abbrev Order := List (OKey × Nat)

def Order.level? (o : Order) (k : OKey) : Option Nat :=
  match o.find? (fun kv => kv.1.same k) with
  | some kv => some kv.2
  | none => none

def Order.has (o : Order) (k : OKey) : Bool := (o.level? k).isSome

/-- `max(self.order.values()) + 1 if self.order else 0` -/
def Order.next (o : Order) : Nat :=
  match o with
  | [] => 0
  | _ => o.foldl (fun m kv => max m kv.2) 0 + 1

abbrev GroupMap := List (Src × Src)
def GroupMap.get? (g : GroupMap) (s : Src) : Option Src :=
  match g.reverse.find? (fun kv => kv.1 == s) with
  | some kv => some kv.2
  | none => none
/-- `if element in group_map: element = group_map[element]` -/
def GroupMap.app (g : GroupMap) (s : Src) : Src := (g.get? s).getD s

/-- M: `append_order` (splitter and summarizer); returns the new order and the
source added to `self.sources` (splitter only), if any -/
def appendOrder (g : GroupMap) (o : Order) (source : Src) : Order × Option Src :=
  if o.has (.one source) then (o, none)
  else
    let s := g.app source
    if o.has (.one s) then (o, none)
    else (o ++ [(.one s, o.next)], some s)

/-- M: `append_order_internal_sources` -/
def appendInternal (g : GroupMap) (o : Order) (srcs : SrcSet) : Order × SrcSet :=
  Generated.sourcesInternal.foldl (fun (acc : Order × SrcSet) source =>
    let s := g.app source
    if acc.1.has (.one s) then acc
    else
      let (o', add) := appendOrder g acc.1 s
      (o', match add with | some x => setInsert x acc.2 | none => acc.2)) (o, srcs)

/-! ### VariantSourceSet ordering -/

/-- M: `to_int()`; `none` = KeyError -/
def toInt (o : Order) (s : SrcSet) : Option (List Nat) :=
  match o.level? (.many s) with
  | some n => some [n]
  | none => (s.mapM fun x => o.level? (.one x)).map sortDedup

def lexGt : List Nat → List Nat → Bool
  | i :: is, j :: js => if i > j then true else if i < j then false else lexGt is js
  | _, _ => false

/-- M: the comparison of `__gt__` on the two `to_int()` lists (after `self == other`) -/
def intsGt (a b : List Nat) : Bool :=
  if a.length > b.length then true
  else if a.length < b.length then false
  else lexGt a b

/-- `not (a > b)` on `to_int` images — the order used to sort -/
def intsLe (a b : List Nat) : Bool := !intsGt a b

/-- M: `VariantSourceSet.__gt__(self, other)`: `self == other` (set equality) first, then the
two `to_int()` lists; `none` = KeyError raised by `to_int` -/
def srcGt (o : Order) (a b : SrcSet) : Option Bool :=
  if sameSet a b then some false
  else
    match toInt o a, toInt o b with
    | some x, some y => some (intsGt x y)
    | _, _ => none

/-- the keys of `levels_map` that `to_int` / `__gt__` look up for the source sets `sets`:
`frozenset(s)` for each set and every element of each set -/
def keysOf (sets : List SrcSet) : List OKey :=
  sets.map OKey.many ++ sets.flatMap fun s => s.map OKey.one

/-- the level map is injective on the keys `ks` (two keys with the same level are the same
key) — decidable; holds for every `ks` when the levels of `o` are pairwise distinct
(`Order.levelsDistinct`), which every order built by the CLIs satisfies -/
def Order.injOn (o : Order) (ks : List OKey) : Bool :=
  ks.all fun k1 => ks.all fun k2 =>
    match o.level? k1, o.level? k2 with
    | some n, some m => n != m || k1.same k2
    | _, _ => true

def nodupB : List Nat → Bool
  | [] => true
  | x :: xs => !xs.contains x && nodupB xs

/-- the values of `levels_map` are pairwise distinct (`enumerate` positions of `--order-source`,
then `max + 1` for every appended source) -/
def Order.levelsDistinct (o : Order) : Bool := nodupB (o.map (·.2))

/-! ### label → source -/

/-- one GVF: its `##source=`, `##parser=` and the (gene id, label) of its records, in file order -/
structure Gvf where
  source : Src
  parser : String
  labels : List (Field × Field)

/-- M: `LabelSourceMapping.add_variant` / `add_circ_rna` over all GVFs, then `get_source`:
the first file that mentions (gene, label) wins -/
def sourceFirst (gvfs : List Gvf) (gene label : Field) : Option Src :=
  match gvfs.find? (fun g => g.labels.contains (gene, label)) with
  | some g => some g.source
  | none => none

/-- M: `LabelSourceMapping.add_record` over all GVFs, then `get_source`: the last file wins -/
def sourceLast (gvfs : List Gvf) (gene label : Field) : Option Src :=
  sourceFirst gvfs.reverse gene label

/-! ### from_variant_peptide -/

def lookupField (m : List (Field × Field)) (k : Field) : Option Field :=
  match m.reverse.find? (fun kv => kv.1 == k) with
  | some kv => some kv.2
  | none => none

/-- `var_ids` of one identifier: (gene id or None, labels), in dict order -/
def identVarIds (tx2gene : List (Field × Field)) (d : Ident) :
    Except PErr (List (Option Field × List Field)) :=
  match d.kind with
  | .novel => .ok [(d.geneId, d.v0)]
  | .circ =>
    match circTxId d.backbone with
    | .error e => .error e
    | .ok tx =>
      match lookupField tx2gene tx with
      | none => .error .keyError
      | some g => .ok [(some g, d.backbone :: d.v1)]
  | .fusion =>
    match fusionTxIds d.backbone with
    | .error e => .error e
    | .ok [t1, t2] =>
      match lookupField tx2gene t1 with
      | none => .error .keyError
      | some g1 =>
        match lookupField tx2gene t2 with
        | none => .error .keyError
        | some g2 =>
          let first := d.v1 ++ [d.backbone] ++ d.v0
          if g2 != g1 then .ok [(some g1, first), (some g2, d.v2)]
          else .ok [(some g1, first ++ d.v2)]
    | .ok _ => .error .valueError
  | .base =>
    match lookupField tx2gene d.backbone with
    | none => .error .keyError
    | some g => .ok [(some g, d.v1)]

structure SrcEnv where
  tx2gene : List (Field × Field)
  /-- `label_map.get_source` -/
  getSource : Field → Field → Option Src
  group : GroupMap
  order : Order
  /-- `wildcard_map` (empty for summarizeFasta) -/
  wildcard : List (SrcSet × SrcSet)

/-- M: `VariantSourceSet.add(element, group_map)`; ValueError when no level is defined -/
def addSource (env : SrcEnv) (s : SrcSet) (x : Src) : Except PErr SrcSet :=
  let y := env.group.app x
  if env.order.has (.one y) then .ok (setInsert y s) else .error .valueError

def addLabels (env : SrcEnv) (gene : Option Field) : SrcSet → List Field → Except PErr SrcSet
  | s, [] => .ok s
  | s, v :: vs =>
    let ty := variantType v
    let r :=
      if ty == Generated.secTerminationType then addSource env s Generated.sourceSecTermination
      else if Generated.codonReassignTypes.contains ty then
        addSource env s Generated.sourceCodonReassign
      else
        match gene with
        | none => .error .sourceNotFound
        | some g =>
          match env.getSource g v with
          | none => .error .sourceNotFound
          | some src => addSource env s src
    match r with
    | .error e => .error e
    | .ok s' => addLabels env gene s' vs

def addGenes (env : SrcEnv) : SrcSet → List (Option Field × List Field) → Except PErr SrcSet
  | s, [] => .ok s
  | s, (g, ls) :: rest =>
    match addLabels env g s ls with
    | .error e => .error e
    | .ok s' => addGenes env s' rest

/-- `wildcard_map[frozenset(info.sources)]` or unchanged -/
def applyWildcard (w : List (SrcSet × SrcSet)) (s : SrcSet) : SrcSet :=
  match w.find? (fun kv => sameSet kv.1 s) with
  | some kv => kv.2
  | none => s

/-- M: one iteration of `from_variant_peptide` with `check_source=True`:
(normalised label, its source set) -/
def entryInfo (env : SrcEnv) (e : Entry) : Except PErr (Entry × SrcSet) :=
  match parseEntry e with
  | .error x => .error x
  | .ok d =>
    match identVarIds env.tx2gene d with
    | .error x => .error x
    | .ok vids =>
      let s0 : Except PErr SrcSet :=
        if d.orf.isSome then addSource env [] Generated.sourceNovelOrf else .ok []
      match s0 with
      | .error x => .error x
      | .ok s1 =>
        match addGenes env s1 vids with
        | .error x => .error x
        | .ok s2 =>
          let s3 := applyWildcard env.wildcard s2
          -- `VariantSourceSet(sources)` validates every element but '+' and '*'
          if s3.all (fun x => x == "+" || x == "*" || env.order.has (.one x)) then .ok (d.str, s3)
          else .error .valueError

def headerInfos (env : SrcEnv) : Header → Except PErr (List (Entry × SrcSet))
  | [] => .ok []
  | e :: es =>
    match entryInfo env e with
    | .error x => .error x
    | .ok i =>
      match headerInfos env es with
      | .error x => .error x
      | .ok is => .ok (i :: is)

/-! ### sort -/

def insertBy {α} (le : α → α → Bool) (x : α) : List α → List α
  | [] => [x]
  | y :: ys => if le x y then x :: y :: ys else y :: insertBy le x ys

/-- a sort by `le` (the order of equal-level entries after Python's `list.sort()` with the
partial `__lt__` is not specified; headers are compared as multisets) -/
def isort {α} (le : α → α → Bool) (l : List α) : List α := l.foldr (insertBy le) []

/-- infos with their `to_int` image; KeyError when a level is missing -/
def withInts (o : Order) : List (Entry × SrcSet) → Except PErr (List (List Nat × (Entry × SrcSet)))
  | [] => .ok []
  | i :: is =>
    match toInt o i.2 with
    | none => .error .keyError
    | some n =>
      match withInts o is with
      | .error e => .error e
      | .ok r => .ok ((n, i) :: r)

def sortInfos (o : Order) (infos : List (Entry × SrcSet)) :
    Except PErr (List (List Nat × (Entry × SrcSet))) :=
  match withInts o infos with
  | .error e => .error e
  | .ok l => .ok (isort (fun a b => intsLe a.1 b.1) l)

/-! ### split -/

/-- a database key: the sources in level order, the wildcard suffix, the kind -/
inductive DbKey where
  | sources (names : List Src) (suffix : String)
  | additional (names : List Src) (suffix : String)
  | remaining
  deriving DecidableEq, Repr

/-- M: `VariantSourceSet.__str__` (without the final join) -/
def setStr (o : Order) (s : SrcSet) : List Src × String :=
  let levels := (isort (fun (a b : OKey × Nat) => a.2 ≤ b.2) o).filterMap fun kv =>
    match kv.1 with
    | .one x => some x
    | .many _ => none
  (levels.filter (fun x => s.contains x && x != "+" && x != "*"),
   if s.contains "*" then "ALL" else if s.contains "+" then "PLUS" else "")

/-- `VariantSourceSet.levels` without the frozenset keys: the plain keys of the order by level —
the list `write_summary_table` draws its source combinations from -/
def Order.plain (o : Order) : List Src :=
  (isort (fun (a b : OKey × Nat) => a.2 ≤ b.2) o).filterMap fun kv =>
    match kv.1 with
    | .one x => some x
    | .many _ => none

def DbKey.render : DbKey → String
  | .sources n suf => "-".intercalate (n ++ (if suf == "" then [] else [suf]))
  | .additional n suf => "-".intercalate (n ++ (if suf == "" then [] else [suf])) ++ "-additional"
  | .remaining => "Remaining"

structure SplitCfg where
  env : SrcEnv
  maxGroups : Int
  additional : List SrcSet

/-- M: the key choice at the end of the loop body of `split` -/
def chooseKey (c : SplitCfg) (s : SrcSet) : DbKey :=
  if (s.length : Int) ≤ c.maxGroups then
    let (n, suf) := setStr c.env.order s
    .sources n suf
  else
    match c.additional.find? (fun a => subsetB a s) with
    | some a => let (n, suf) := setStr c.env.order a; .additional n suf
    | none => .remaining

/-- M: loop body of `split`: (database key, rewritten record) -/
def splitPep (c : SplitCfg) (p : PRec) : Except PErr (DbKey × PRec) :=
  match headerInfos c.env p.header with
  | .error e => .error e
  | .ok infos =>
    match sortInfos c.env.order infos with
    | .error e => .error e
    | .ok [] => .error .indexError
    | .ok (i :: is) =>
      .ok (chooseKey c i.2.2, ⟨p.seq, (i :: is).map (·.2.1)⟩)

def splitAssign (c : SplitCfg) : List PRec → Except PErr (List (DbKey × PRec))
  | [] => .ok []
  | p :: ps =>
    match splitPep c p with
    | .error e => .error e
    | .ok a =>
      match splitAssign c ps with
      | .error e => .error e
      | .ok r => .ok (a :: r)

abbrev Dbs := List (DbKey × List PRec)

/-- M: `add_peptide_to_database` -/
def addToDb (dbs : Dbs) (k : DbKey) (p : PRec) : Dbs :=
  match dbs with
  | [] => [(k, [p])]
  | (k', ps) :: rest => if k' = k then (k', ps ++ [p]) :: rest else (k', ps) :: addToDb rest k p

/-- M: `PeptidePoolSplitter.split` -/
def split (c : SplitCfg) (pool : List PRec) : Except PErr Dbs :=
  match splitAssign c pool with
  | .error e => .error e
  | .ok as => .ok (as.foldl (fun dbs a => addToDb dbs a.1 a.2) [])

/-! ### create_wildcard_map and the order bookkeeping of the CLI -/

/-- all sub-lists of length `k` (`itertools.combinations`) -/
def combos {α} : Nat → List α → List (List α)
  | 0, _ => [[]]
  | _ + 1, [] => []
  | k + 1, x :: xs => (combos k xs).map (x :: ·) ++ combos (k + 1) xs

def isWild (x : Src) : Bool := x == "+" || x == "*"

/-- M: `create_wildcard_map`; `none` = the "Invalid wildcard" ValueError.
`allSources` is `self.sources`. -/
def wildcardMap (o : Order) (allSources : SrcSet) : Option (List (SrcSet × SrcSet)) :=
  (isort (fun (a b : OKey × Nat) => a.2 ≤ b.2) o).foldlM (fun (m : List (SrcSet × SrcSet)) kv =>
    let sources : SrcSet := match kv.1 with | .one x => [x] | .many s => s
    if !(sources.any isWild) then
      some (if m.any (fun e => sameSet e.1 sources) then m else m ++ [(sources, sources)])
    else if sources.contains "+" && sources.contains "*" then none
    else
      let indiv := allSources.filter (fun x => !sources.contains x)
      let start := if sources.contains "*" then 0 else 1
      let base := sources.filter (fun x => !isWild x)
      let exps := ((List.range indiv.length).filter (start ≤ ·)).flatMap fun i =>
        (combos i indiv).map fun extra => ofList (base ++ extra)
      some (exps.foldl (fun m e =>
        if m.any (fun x => sameSet x.1 e) then m else m ++ [(e, sources)]) m)) []

/-- M: `PeptidePoolSplitter.__init__`: `self.sources` from the order keys (after the `fix:`
that tests `isinstance(source_group, str)`: a plain key is one source name). -/
def initSources (o : Order) : SrcSet :=
  o.foldl (fun s kv =>
    let elems : List Src := match kv.1 with
      | .one x => [x]
      | .many m => m
    (elems.filter (fun x => !isWild x)).foldl (fun s x => setInsert x s) s) []

/-- M: the order/sources state after `load_gvf` for every GVF and
`append_order_internal_sources` (splitFasta) -/
def splitterOrder (g : GroupMap) (o0 : Order) (gvfs : List Gvf) : Order × SrcSet :=
  let st := gvfs.foldl (fun (acc : Order × SrcSet) f =>
    if acc.1.has (.one f.source) then acc
    else
      let (o', add) := appendOrder g acc.1 f.source
      (o', match add with | some x => setInsert x acc.2 | none => acc.2)) (o0, initSources o0)
  appendInternal g st.1 st.2

/-- M: summarizeFasta: `append_order(metadata.source)` per GVF, then the internal sources -/
def summarizerOrder (g : GroupMap) (o0 : Order) (gvfs : List Gvf) : Order :=
  let o := gvfs.foldl (fun acc f => (appendOrder g acc f.source).1) o0
  (appendInternal g o []).1

/-! ### merge -/

/-- M: `add_peptide(..., skip_checking=True)`: append the label to the record with the same
sequence, else add the record -/
def addPeptide (pool : List PRec) (p : PRec) : List PRec :=
  match pool with
  | [] => [p]
  | q :: qs => if q.seq = p.seq then ⟨q.seq, q.header ++ p.header⟩ :: qs else q :: addPeptide qs p

/-- M: `mergeFasta` without `--dedup-header`: first file loaded, the others added -/
def mergePools : List (List PRec) → List PRec
  | [] => []
  | first :: rest => rest.foldl (fun pool f => (loadPool f).foldl addPeptide pool) (loadPool first)

/-- key of `remove_redundant_headers`: `entry.rsplit('|', 1)[0]` -/
def unversioned (e : Entry) : Entry := if e.length ≤ 1 then e else e.dropLast

/-- M: `remove_redundant_headers` on one header -/
def dedupHeader (h : Header) : Header :=
  h.foldl (fun acc e => if acc.any (fun x => unversioned x == unversioned e) then acc else acc ++ [e]) []

/-! ### encode -/

structure DecoyCfg where
  str : List Char
  prefixPos : Bool       -- 'prefix' / 'suffix'

def DecoyCfg.isDecoy (c : DecoyCfg) (h : List Char) : Bool :=
  if c.prefixPos then c.str.isPrefixOf h else c.str.reverse.isPrefixOf h.reverse
def DecoyCfg.real (c : DecoyCfg) (h : List Char) : List Char :=
  if c.prefixPos then h.drop c.str.length
  else if c.str.length == 0 then []          -- `header[:-0]`
  else h.take (h.length - c.str.length)
def DecoyCfg.wrap (c : DecoyCfg) (i : List Char) : List Char :=
  if c.prefixPos then c.str ++ i else i ++ c.str

structure EncState where
  mapper : List (List Char × List Char) := []   -- id_mapper, insertion order
  dict : List (List Char × List Char) := []     -- lines of the .dict file (id, header)
  next : Nat := 0                               -- number of uuid4() calls so far
  out : List (List Char × Pep) := []

def lookupHdr (m : List (List Char × List Char)) (h : List Char) : Option (List Char) :=
  match m.find? (fun kv => kv.1 == h) with
  | some kv => some kv.2
  | none => none

/-- M: one iteration of the loop in `encode_fasta`; `uuid k` is the k-th `uuid4()` -/
def encodeStep (c : DecoyCfg) (uuid : Nat → List Char) (st : EncState) (r : List Char × Pep) :
    EncState :=
  let isD := c.isDecoy r.1
  let header := if isD then c.real r.1 else r.1
  let (index, st') :=
    match lookupHdr st.mapper header with
    | some i => (i, st)
    | none =>
      let i := uuid st.next
      (i, { st with mapper := st.mapper ++ [(header, i)], dict := st.dict ++ [(i, header)],
                    next := st.next + 1 })
  let index' := if isD then c.wrap index else index
  { st' with out := st'.out ++ [(index', r.2)] }

def encode (c : DecoyCfg) (uuid : Nat → List Char) (recs : List (List Char × Pep)) : EncState :=
  recs.foldl (encodeStep c uuid) {}

/-- decoding with the `.dict` file: strip the decoy mark, look the id up, put the mark back -/
def decode (c : DecoyCfg) (dict : List (List Char × List Char)) (h : List Char) :
    Option (List Char) :=
  if c.isDecoy h then (lookupHdr dict (c.real h)).map c.wrap else lookupHdr dict h

/-! ### summarize -/

/-- the summary table `data`: source set ↦ (n_total, miscleavage counts) -/
abbrev SumTable := List (SrcSet × Nat × List (Nat × Nat))

def bump (l : List (Nat × Nat)) (k : Nat) : List (Nat × Nat) :=
  match l with
  | [] => [(k, 1)]
  | (k', n) :: rest => if k' = k then (k', n + 1) :: rest else (k', n) :: bump rest k

/-- M: `increment_total` + `increment_misc` -/
def sumAdd (t : SumTable) (s : SrcSet) (misc : Nat) : SumTable :=
  match t with
  | [] => [(s, 1, [(misc, 1)])]
  | (s', n, m) :: rest =>
    if sameSet s' s then (s', n + 1, bump m misc) :: rest else (s', n, m) :: sumAdd rest s misc

/-- M: the source set `add_entry` counts a peptide under -/
def sumSources (env : SrcEnv) (p : PRec) : Except PErr SrcSet :=
  match headerInfos env p.header with
  | .error e => .error e
  | .ok infos =>
    match sortInfos env.order infos with
    | .error e => .error e
    | .ok [] => .error .indexError
    | .ok (i :: _) => .ok i.2.2

/-- per peptide: the source set it is counted under and its miscleavage count -/
def sumKeys (env : SrcEnv) (rule : Re) (exc : Option Re) :
    List PRec → Except PErr (List (SrcSet × Nat))
  | [] => .ok []
  | p :: ps =>
    match sumSources env p with
    | .error e => .error e
    | .ok s =>
      match sumKeys env rule exc ps with
      | .error e => .error e
      | .ok r => .ok ((s, (cleaveSites rule exc p.seq).length) :: r)

/-- M: `count_peptide_source` -/
def summarize (env : SrcEnv) (rule : Re) (exc : Option Re) (pool : List PRec) :
    Except PErr SumTable :=
  match sumKeys env rule exc pool with
  | .error e => .error e
  | .ok ks => .ok (ks.foldl (fun t k => sumAdd t k.1 k.2) [])

def SumTable.total (t : SumTable) : Nat := (t.map (·.2.1)).sum

/-- `n_total` of the row of the source combination `s` (0 when the table has no such key) —
what `get_stringified_summary_entry` prints -/
def SumTable.count (t : SumTable) (s : SrcSet) : Nat :=
  match t.find? (fun e => sameSet e.1 s) with
  | some e => e.2.1
  | none => 0

/-! ### the two commands under the same options -/

/-- the options `splitFasta` and `summarizeFasta` share: parsed `--order-source`,
`--group-source`, the GVF files (in command-line order) and the annotation's transcript → gene map -/
structure CliOpts where
  order0 : Order
  group : GroupMap
  gvfs : List Gvf
  tx2gene : List (Field × Field)

/-- the order both commands end up with (`splitterOrder … .1 = summarizerOrder …`, proved) -/
def CliOpts.order (x : CliOpts) : Order := summarizerOrder x.group x.order0 x.gvfs

/-- M: `split_fasta` after loading: `VariantSourceSet(x)` for every `--additional-split`,
`create_wildcard_map`, `split` -/
def cliSplit (x : CliOpts) (maxGroups : Int) (additional : List SrcSet) (pool : List PRec) :
    Except PErr Dbs :=
  let os := splitterOrder x.group x.order0 x.gvfs
  if !(additional.all fun a => a.all fun y => isWild y || os.1.has (.one y)) then .error .valueError
  else
    match wildcardMap os.1 os.2 with
    | none => .error .valueError
    | some wm =>
      split { env := { tx2gene := x.tx2gene, getSource := sourceFirst x.gvfs, group := x.group,
                       order := os.1, wildcard := wm },
              maxGroups := maxGroups, additional := additional } pool

/-- the environment `summarize_fasta` counts in -/
def CliOpts.sumEnv (x : CliOpts) : SrcEnv :=
  { tx2gene := x.tx2gene, getSource := sourceLast x.gvfs, group := x.group,
    order := x.order, wildcard := [] }

/-- M: `summarize_fasta` after loading: `count_peptide_source` -/
def cliSummarize (x : CliOpts) (rule : Re) (exc : Option Re) (pool : List PRec) :
    Except PErr SumTable :=
  summarize x.sumEnv rule exc pool

/-- no key of the order contains a wildcard character (`+`, `*`) -/
def Order.noWildKeys (o : Order) : Bool :=
  o.all fun kv => match kv.1 with
    | .one x => !isWild x
    | .many s => !s.any isWild

def nodupS : List Src → Bool
  | [] => true
  | x :: xs => !xs.contains x && nodupS xs

/-- the combination keys of the order are sets (duplicate-free lists) -/
def Order.keysAreSets (o : Order) : Bool :=
  o.all fun kv => match kv.1 with
    | .one _ => true
    | .many s => nodupS s

/-- no (gene id, label) occurs in GVFs of two different sources -/
def noSharedLabel (gvfs : List Gvf) : Bool :=
  gvfs.all fun g1 => gvfs.all fun g2 =>
    g1.source == g2.source || g1.labels.all fun l => !g2.labels.contains l

def SumTable.get (t : SumTable) (s : SrcSet) : Option (Nat × List (Nat × Nat)) :=
  match t.find? (fun e => sameSet e.1 s) with
  | some e => some e.2
  | none => none

/-- M: `get_parsers_from_source`; `none` = KeyError -/
def parsersOf (g : GroupMap) (parserOf : List (Src × String)) (source : Src) :
    Option (List String) :=
  let members := g.filterMap fun kv => if kv.2 == source then some kv.1 else none
  let srcs := if members.isEmpty then [source] else members
  (srcs.filter (fun s => !Generated.sourcesInternal.contains s)).mapM fun s =>
    match parserOf.reverse.find? (fun kv => kv.1 == s) with
    | some kv => some kv.2
    | none => none

def mepOf (p : String) : Option (List String) := Generated.mutuallyExclusiveParsers.lookup p

/-- M: `contains_exclusive_sources`; `none` = KeyError -/
def containsExclusive (g : GroupMap) (parserOf : List (Src × String)) (comb : List Src) :
    Option Bool := do
  let ps ← comb.mapM (parsersOf g parserOf)
  pure (ps.any fun parsers =>
    !parsers.isEmpty && ps.any fun others =>
      !others.isEmpty && parsers.all fun x =>
        (mepOf x).isSome && others.all fun y =>
          match mepOf y with
          | some l => l.contains x
          | none => false)

end MoPepGen
