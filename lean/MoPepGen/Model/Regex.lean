/-
Layer M/S for the cleavage-rule expressions (moPepGen/aa/expasy_rules.py,
AminoAcidSeqRecord.iter_enzymatic_cleave_sites*).

Every expression of the three tables is an alternation of fixed-width
alternatives, each a look-behind class sequence, exactly ONE consumed class
and a look-ahead class sequence.  The translator normalises the source text to
that form (and refuses anything else).

No imports: this file is linked into the native driver.
-/
namespace MoPepGen

/-- A character class of the rule tables. -/
inductive Cls where
  | pos (cs : List Char)      -- `[ABC]` or a literal
  | neg (cs : List Char)      -- `[^ABC]`
  | word                      -- `\w`
  deriving Repr, DecidableEq, Inhabited

/-- Python `re`'s `\w` restricted to ASCII (the harness only sends ASCII). -/
def isWordChar (c : Char) : Bool := c.isAlphanum || c == '_'

def Cls.test : Cls → Char → Bool
  | .pos cs, c => cs.contains c
  | .neg cs, c => !cs.contains c
  | .word,   c => isWordChar c

/-- One alternative of a site pattern: `(?<=lb)core(?=la)`. -/
structure Alt where
  lb   : List Cls
  core : Cls
  la   : List Cls
  deriving Repr, DecidableEq, Inhabited

/-- A site pattern (EXPASY_RULES): alternatives, tried left to right. -/
abbrev Re := List Alt
/-- A range pattern (EXPASY_RULES2): alternatives, each a plain class sequence. -/
abbrev Re2 := List (List Cls)

/-- `clsSeq cs t`: `t` starts with `cs.length` characters matching `cs`. -/
def clsSeq : List Cls → List Char → Bool
  | [], _ => true
  | _ :: _, [] => false
  | c :: cs, x :: xs => c.test x && clsSeq cs xs

def Alt.flat (a : Alt) : List Cls := a.lb ++ a.core :: a.la
def Alt.width (a : Alt) : Nat := a.lb.length + 1 + a.la.length

/-- The alternative matches with its consumed residue at index `i` of `s`
(so the reported cleavage site is `i+1`). -/
def Alt.matchAt (a : Alt) (s : List Char) (i : Nat) : Bool :=
  a.lb.length ≤ i && clsSeq a.flat (s.drop (i - a.lb.length))

/-- Some alternative matches with its consumed residue at index `i`. -/
def Re.matchAt (r : Re) (s : List Char) (i : Nat) : Bool := r.any (·.matchAt s i)

/-- Index of the first (leftmost in the pattern) alternative that matches at `i`;
this is the one Python's backtracking engine reports. -/
def Re.firstAlt (r : Re) (s : List Char) (i : Nat) : Option Nat :=
  r.findIdx? (·.matchAt s i)

/-- Model of `re.finditer(p, s)` for a width-1 pattern: scan from `pos`,
on a match at `pos` yield `pos` and resume at `pos+1` (= match end),
otherwise advance by one.  `fuel` = remaining length. Returns the START
indices of the matches. -/
def Re.finditerFrom (r : Re) (s : List Char) : Nat → Nat → List Nat
  | _, 0 => []
  | pos, fuel + 1 =>
    if r.matchAt s pos then pos :: Re.finditerFrom r s (pos + 1) fuel
    else Re.finditerFrom r s (pos + 1) fuel

def Re.finditer (r : Re) (s : List Char) : List Nat := r.finditerFrom s 0 s.length

/-- `[x.end() for x in re.finditer(p, s)]` -/
def Re.ends (r : Re) (s : List Char) : List Nat := (r.finditer s).map (· + 1)

/-- Range pattern: alternative `cs` matches starting at `j`. -/
def Re2.matchAt (r : Re2) (s : List Char) (j : Nat) : Option Nat :=
  (r.find? (fun cs => clsSeq cs (s.drop j))).map (·.length)

/-- Model of `regex.finditer(p, s, overlapped=True)`: one match per start
position (leftmost alternative), all start positions in ascending order.
Returns `(start, end)`. -/
def Re2.finditerOverlapped (r : Re2) (s : List Char) : List (Nat × Nat) :=
  (List.range (s.length + 1)).filterMap fun j =>
    (r.matchAt s j).map fun w => (j, j + w)

end MoPepGen
