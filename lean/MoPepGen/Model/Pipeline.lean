/-
Layer P — the orchestration of `callVariant`
(moPepGen/cli/call_variant_peptide.py: `call_variant_peptide` dispatch loop and
result loop, `call_variant_peptides_wrapper`, `caller_reducer`;
moPepGen/svgraph/VariantPeptideTable.py: `is_valid`, `add_peptide`,
`load_peptide`, `write_fasta`), with the per-unit graph callers as DATA:
whatever `call_peptide_main/fusion/circ_rna` return (or that they raise) is an
input of the model, so every theorem about it holds for any behaviour of the
graph algorithm.
-/
import MoPepGen.Model.Digest
namespace MoPepGen.Pipe

abbrev Label := Nat
/-- `peptide_map` of one per-unit call: ordered `seq ↦ labels`. -/
abbrev PepMap := List (Pep × List Label)
/-- result of one per-unit caller: `none` = it raised -/
abbrev UnitRes := Option PepMap

/-! ### call_variant_peptides_wrapper -/

/-- `val = peptide_anno.setdefault(seq, {}); if label not in val: val[label] = …` -/
def addLabels (old new : List Label) : List Label :=
  new.foldl (fun acc l => if acc.contains l then acc else acc ++ [l]) old

/-- `add_peptide_anno` for one sequence (ordered dict: first insertion fixes the position) -/
def addSeq : PepMap → Pep → List Label → PepMap
  | [], s, ls => [(s, addLabels [] ls)]
  | (t, old) :: rest, s, ls =>
    if t == s then (t, addLabels old ls) :: rest else (t, old) :: addSeq rest s ls

def addPeptideAnno (a : PepMap) (x : PepMap) : PepMap :=
  x.foldl (fun acc e => addSeq acc e.1 e.2) a

/-- The units of one transcript, with the results of their callers. -/
structure TxUnits where
  /-- `variant_series.transcriptional` non-empty and (`not noncanonical_transcripts` or has AS) -/
  hasMain : Bool
  main    : UnitRes
  fusions : List UnitRes
  circs   : List UnitRes
  deriving Inhabited

structure WrapOut where
  anno  : PepMap
  flags : Bool × Bool × Bool      -- success_flags (variant, fusion, circRNA)
  deriving Inhabited

/-- one `try/except` unit: `none` = the exception propagates (no --skip-failed) -/
def stepUnit (skip : Bool) (acc : PepMap × Bool) (r : UnitRes) : Option (PepMap × Bool) :=
  match r with
  | some m => some (addPeptideAnno acc.1 m, acc.2)
  | none => if skip then some (acc.1, false) else none

def stepUnits (skip : Bool) : PepMap × Bool → List UnitRes → Option (PepMap × Bool)
  | acc, [] => some acc
  | acc, r :: rs => match stepUnit skip acc r with
    | none => none
    | some acc' => stepUnits skip acc' rs

/-- M: `call_variant_peptides_wrapper` (after the `fix:` that makes the circRNA handler
`continue`). `none` = the command aborts with the unit's exception. -/
def wrapper (skip : Bool) (u : TxUnits) : Option WrapOut :=
  match (if u.hasMain then stepUnit skip ([], true) u.main else some ([], true)) with
  | none => none
  | some (a0, f0) =>
    match stepUnits skip (a0, true) u.fusions with
    | none => none
    | some (a1, f1) =>
      match stepUnits skip (a1, true) u.circs with
      | none => none
      | some (a2, f2) => some { anno := a2, flags := (f0, f1, f2) }

/-! ### dispatch loop -/

/-- M: the batching loop of `call_variant_peptide` (after the `fix:`):
`i` counts every transcript; flush when the batch is full or at the last transcript. -/
def dispatchGo {α : Type} (threads : Nat) : List (Option α) → List α → List (List α)
  | [], _ => []
  | g :: rest, cur =>
    let cur' := match g with | some d => cur ++ [d] | none => cur
    if (threads ≤ cur'.length || rest.isEmpty) && !cur'.isEmpty then
      cur' :: dispatchGo threads rest []
    else dispatchGo threads rest cur'

def dispatch {α : Type} (threads : Nat) (gathered : List (Option α)) : List (List α) :=
  dispatchGo threads gathered []

/-- M of the loop on the UNCHANGED tree (kept to state what was wrong):
`i` only counts dispatched transcripts. -/
def dispatchOldGo {α : Type} (threads total : Nat) : List (Option α) → Nat → List α → List (List α)
  | [], _, _ => []
  | none :: rest, i, cur => dispatchOldGo threads total rest i cur
  | some d :: rest, i, cur =>
    let cur' := cur ++ [d]
    if ((i + 1) % threads == 0 || i + 1 == total) && !cur'.isEmpty then
      cur' :: dispatchOldGo threads total rest (i + 1) []
    else dispatchOldGo threads total rest (i + 1) cur'

def dispatchOld {α : Type} (threads : Nat) (gathered : List (Option α)) : List (List α) :=
  dispatchOldGo threads gathered.length gathered 0 []

/-! ### result loop, table, FASTA -/

structure Limits where
  minMw  : Int
  minLen : Nat
  maxLen : Nat
  tab    : List (Char × Nat)
  water  : Nat
  canonical : List Pep

/-- M: `VariantPeptideTable.is_valid`; `none` = ValueError from molecular_weight -/
def isValid (c : Limits) (p : Pep) : Option Bool :=
  match molWeight c.tab c.water p with
  | none => none
  | some w =>
    some (!(decide (w < c.minMw)) && !(decide (p.length < c.minLen) || decide (c.maxLen < p.length))
      && !c.canonical.contains p)

/-- table state: rows written (`add_peptide` calls) and `index` (ordered dict seq ↦ row groups) -/
structure Table where
  rows  : List (Pep × Label)
  index : List (Pep × List Label)
  deriving Inhabited

def indexAdd : List (Pep × List Label) → Pep → Label → List (Pep × List Label)
  | [], s, l => [(s, [l])]
  | (t, ls) :: rest, s, l => if t == s then (t, ls ++ [l]) :: rest else (t, ls) :: indexAdd rest s l

def Table.add (t : Table) (s : Pep) (l : Label) : Table :=
  { rows := t.rows ++ [(s, l)], index := indexAdd t.index s l }

/-- one wrapper result through the result loop; `none` = `is_valid` raised -/
def Table.addResult (c : Limits) (t : Table) : PepMap → Option Table
  | [] => some t
  | (s, ls) :: rest =>
    match isValid c s with
    | none => none
    | some true => Table.addResult c (ls.foldl (fun t l => t.add s l) t) rest
    | some false => Table.addResult c t rest

structure Tally where
  processed : Nat := 0
  failedVariant : Nat := 0
  failedFusion : Nat := 0
  failedCirc : Nat := 0
  totalPeptides : Nat := 0
  deriving Inhabited, DecidableEq

structure RunOut where
  table : Table
  tally : Tally
  batches : List (List Nat)      -- indices of the transcripts in each dispatched batch
  deriving Inhabited

def processResult (c : Limits) (acc : Table × Tally) (w : WrapOut) : Option (Table × Tally) :=
  match acc.1.addResult c w.anno with
  | none => none
  | some t => some (t, { acc.2 with
      totalPeptides := acc.2.totalPeptides + w.anno.length
      failedVariant := acc.2.failedVariant + (if w.flags.1 then 0 else 1)
      failedFusion := acc.2.failedFusion + (if w.flags.2.1 then 0 else 1)
      failedCirc := acc.2.failedCirc + (if w.flags.2.2 then 0 else 1) })

def processAll (c : Limits) (skip : Bool) : Table × Tally → List TxUnits → Option (Table × Tally)
  | acc, [] => some acc
  | acc, u :: us =>
    match wrapper skip u with
    | none => none
    | some w => match processResult c acc w with
      | none => none
      | some acc' => processAll c skip acc' us

/-- M: `call_variant_peptide` from the gathered dispatches to the table.
`gathered[i] = none` when `gather_data_for_call_variant` skipped transcript `i`.
`none` = the command aborts (no FASTA is written). -/
def runAll (c : Limits) (skip : Bool) (threads : Nat) (gathered : List (Option TxUnits)) :
    Option (Table × Tally) :=
  let batches := dispatch threads gathered
  match processAll c skip ({ rows := [], index := [] }, {}) batches.flatten with
  | none => none
  | some (t, ty) => some (t, { ty with processed := (gathered.filterMap id).length })

/-- FASTA written by `write_fasta`: one record per `index` key, header = the set of labels -/
def Table.fasta (t : Table) : List (Pep × List Label) :=
  t.index.map fun (s, ls) => (s, ls.eraseDups)

/-! ### caller_reducer -/

/-- M: the retry loop of `caller_reducer`: `mv`/`av` are the remaining
`--max-variants-per-node` / `--additional-variants-per-misc` schedules, `cur` the
current `(max_variants_per_node, additional_variants_per_misc)`, `timesOut k` says whether
the `k`-th attempt times out. Returns the parameters of the attempt that completes, or
`none` for "Failed to finish transcript". `fuel` bounds the number of attempts. -/
def reducer (timesOut : Nat → Bool) : Nat → Nat → List Int → List Int → Int × Int → Option (Int × Int)
  | 0, _, _, _, _ => none
  | fuel + 1, k, mv, av, cur =>
    if !timesOut k then some cur
    else
      let mv' := mv.drop 1
      let mvNext : Option (List Int) :=
        if mv'.isEmpty then (if cur.1 - 1 ≤ 0 then none else some [cur.1 - 1]) else some mv'
      match mvNext with
      | none => none
      | some mv'' =>
        let av' := av.drop 1
        let av'' := if av'.isEmpty then [0] else av'
        reducer timesOut fuel (k + 1) mv'' av'' (mv''.headD 0, av''.headD 0)

end MoPepGen.Pipe

namespace MoPepGen.Pipe

/-- M: `VariantPeptidePool.add_peptide` (callNovelORF / callAltTranslation, `skip_checking=False`):
the pool as an ordered list `seq ↦ header entries`; `none` = ValueError from molecular_weight. -/
def poolAdd (c : Limits) (pool : List (Pep × List Label)) (s : Pep) (l : Label) :
    Option (List (Pep × List Label)) :=
  match isValid c s with
  | none => none
  | some true => some (indexAdd pool s l)
  | some false => some pool

def poolAddAll (c : Limits) : List (Pep × List Label) → List (Pep × Label) →
    Option (List (Pep × List Label))
  | pool, [] => some pool
  | pool, (s, l) :: rest => match poolAdd c pool s l with
    | none => none
    | some pool' => poolAddAll c pool' rest

end MoPepGen.Pipe
