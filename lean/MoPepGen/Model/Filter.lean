/-
Layer M for moPepGen/aa/VariantPeptidePool.py (`load`, `filter`) and
moPepGen/cli/filter_fasta.py (`load_expression_table`, miscleavage option).
Layer S: `KeepRule` — the keep rule of property C19 as a proposition.
-/
import MoPepGen.Model.Label
import MoPepGen.Model.Digest
import MoPepGen.Generated.Expasy
namespace MoPepGen

/-- a pool record: sequence and FASTA title (split into entries/fields) -/
structure PRec where
  seq : Pep
  header : Header
  deriving DecidableEq, Repr

/-- M: `VariantPeptidePool.load`: records go into a `set` keyed by the sequence,
so of several records with one sequence the first is kept. -/
def loadPool : List PRec → List PRec
  | [] => []
  | p :: ps => p :: (loadPool ps).filter (fun q => q.seq != p.seq)

/-- `dict[key]` on a dict built by successive assignment (last assignment wins) -/
def lookupLast (tab : List (Field × Int)) (k : Field) : Option Int :=
  match tab.reverse.find? (fun kv => kv.1 == k) with
  | some kv => some kv.2
  | none => none

/-- M: `load_expression_table` on lines already `rstrip().split(delim)`-ed, values
already converted by `float()` (given as exact scaled integers).
`none` value = `float()` raised. -/
def loadExprs (rows : List (List Field × Option Int)) (txCol : Nat) :
    Except PErr (List (Field × Int)) :=
  match rows with
  | [] => .ok []
  | (fields, q) :: rest =>
    match fields[txCol]? with
    | none => .error .indexError
    | some tx =>
      match q with
      | none => .error .valueError
      | some v =>
        match loadExprs rest txCol with
        | .error e => .error e
        | .ok t => .ok ((tx, v) :: t)

structure FCfg where
  /-- `exprs` (None when no table is given), file order -/
  exprs : Option (List (Field × Int))
  cutoff : Option Int
  coding : List Field
  keepNoncoding : Bool
  keepCoding : Bool
  keepCanonical : Bool
  denylist : Option (List Pep)
  miscLo : Option Int
  miscHi : Option Int
  rule : Re
  exc : Option Re

/-- what `filter` looks at in one header entry -/
structure EntryView where
  txs : List Field
  fusion : Bool
  circ : Bool
  splice : Bool
  deriving DecidableEq, Repr

/-- M: `get_transcript_ids`, `is_fusion`, `is_circ_rna`, `is_splice_altering` on
`original_label` (each re-parses the label). -/
def entryView (l : Entry) : Except PErr EntryView :=
  match parseEntry l with
  | .error e => .error e
  | .ok d =>
    match d.txIds with
    | .error e => .error e
    | .ok txs => .ok ⟨txs, d.kind == .fusion, d.kind == .circ, d.isSpliceAltering⟩

/-- M: `all(exprs[tx] >= cutoff for tx in tx_ids)` (sequential, stops at the first
False; KeyError for a missing transcript, TypeError for cutoff None) -/
def allExpressed (tab : List (Field × Int)) (cutoff : Option Int) :
    List Field → Except PErr Bool
  | [] => .ok true
  | tx :: rest =>
    match lookupLast tab tx with
    | none => .error .keyError
    | some x =>
      match cutoff with
      | none => .error .typeError
      | some c => if c ≤ x then allExpressed tab cutoff rest else .ok false

/-- M: body of the `for entry in peptide_entries` loop in `filter` -/
def keepView (c : FCfg) (denied : Bool) (v : EntryView) : Except PErr Bool :=
  let allNoncoding := !(v.txs.any fun x => c.coding.contains x)
  let allCoding := v.txs.all fun x => c.coding.contains x
  let isCanonical := !v.circ && (match v.txs.head? with
                                 | some t => c.coding.contains t | none => false)
  if denied && !(c.keepCanonical && isCanonical) then .ok false
  else if c.keepNoncoding && allNoncoding then .ok true
  else if c.keepCoding && allCoding then .ok true
  else
    match c.exprs with
    | none => .ok true
    | some tab =>
      if v.fusion || v.circ || v.splice then .ok true
      else allExpressed tab c.cutoff v.txs

def keepEntry (c : FCfg) (denied : Bool) (l : Entry) : Except PErr Bool :=
  match entryView l with
  | .error e => .error e
  | .ok v => keepView c denied v

/-- the entries of one peptide that are kept, in order -/
def keepLabels (c : FCfg) (denied : Bool) : List Entry → Except PErr (List Entry)
  | [] => .ok []
  | l :: ls =>
    match keepEntry c denied l with
    | .error e => .error e
    | .ok b =>
      match keepLabels c denied ls with
      | .error e => .error e
      | .ok r => .ok (if b then l :: r else r)

/-- M: one iteration of `from_variant_peptide_minimal`: parse the entry, (for a fusion
evaluate `first_tx_id`/`second_tx_id`, which may raise), keep `str(variant_id)` -/
def normLabel (e : Entry) : Except PErr Entry :=
  match parseEntry e with
  | .error x => .error x
  | .ok d =>
    if d.kind == .fusion then
      match fusionTxIds d.backbone with
      | .error x => .error x
      | .ok _ => .ok d.str
    else .ok d.str

/-- M: `from_variant_peptide_minimal` -/
def normHeader : Header → Except PErr (List Entry)
  | [] => .ok []
  | e :: es =>
    match normLabel e with
    | .error x => .error x
    | .ok l =>
      match normHeader es with
      | .error x => .error x
      | .ok ls => .ok (l :: ls)

def miscCount (c : FCfg) (s : Pep) : Int := ((cleaveSites c.rule c.exc s).length : Nat)

/-- the miscleavage test at the top of the loop body -/
def miscOk (c : FCfg) (s : Pep) : Bool :=
  (match c.miscLo with | some lo => decide (lo ≤ miscCount c s) | none => true) &&
  (match c.miscHi with | some hi => decide (miscCount c s ≤ hi) | none => true)

def isDenied (c : FCfg) (s : Pep) : Bool :=
  match c.denylist with
  | some dl => dl.contains s
  | none => false

/-- M: body of `for peptide in self.peptides` in `filter`;
`none` = peptide dropped -/
def filterPep (c : FCfg) (p : PRec) : Except PErr (Option PRec) :=
  if !miscOk c p.seq then .ok none
  else
    match normHeader p.header with
    | .error e => .error e
    | .ok labels =>
      match keepLabels c (isDenied c p.seq) labels with
      | .error e => .error e
      | .ok [] => .ok none
      | .ok (k :: ks) => .ok (some ⟨p.seq, k :: ks⟩)

/-- M: `VariantPeptidePool.filter` -/
def filterPool (c : FCfg) : List PRec → Except PErr (List PRec)
  | [] => .ok []
  | p :: ps =>
    match filterPep c p with
    | .error e => .error e
    | .ok r =>
      match filterPool c ps with
      | .error e => .error e
      | .ok rs => .ok (match r with | some q => q :: rs | none => rs)

/-! ### Layer S -/

/-- S: the keep rule of C19 for one entry, given what the entry *is*
(its transcripts, whether it is a fusion / circRNA / splice-altering entry) -/
def KeepRule (c : FCfg) (denied : Bool) (v : EntryView) : Prop :=
  -- not denylisted unless canonical and keep-canonical
  (denied = true → c.keepCanonical = true ∧ v.circ = false ∧
      ∃ t, v.txs.head? = some t ∧ t ∈ c.coding) ∧
  -- exemptions, or expression of all transcripts at or above the cutoff
  ((c.keepNoncoding = true ∧ ∀ t ∈ v.txs, t ∉ c.coding) ∨
   (c.keepCoding = true ∧ ∀ t ∈ v.txs, t ∈ c.coding) ∨
   c.exprs = none ∨
   v.fusion = true ∨ v.circ = true ∨ v.splice = true ∨
   ∃ tab, c.exprs = some tab ∧
     ∀ t ∈ v.txs, ∃ x k, lookupLast tab t = some x ∧ c.cutoff = some k ∧ k ≤ x)

/-- the type of a variant identifier: the text before its first `'-'` -/
def variantType (x : Field) : Field := (splitOnC '-' x).headD []

/-- S: splice-altering by *type*: the entry is a base-variant entry carrying a variant
whose type is one of the alternative-splicing types -/
def Ident.hasSpliceVariant (d : Ident) : Bool :=
  d.kind == .base && d.v1.any fun x => Generated.altSpliceTypes.contains (variantType x)

/-- M: enzyme option ↦ (rule, exception): `'trypsin_exception' if enzyme == 'trypsin'` -/
def enzymeRules (name : String) : Option (Re × Option Re) :=
  match Generated.expasyRules.lookup name with
  | none => none
  | some r =>
    if name == "trypsin" then
      match Generated.expasyRules.lookup "trypsin_exception" with
      | some e => some (r, some e)
      | none => none
    else some (r, none)

end MoPepGen
