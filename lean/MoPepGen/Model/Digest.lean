/-
Layer M for moPepGen/aa/AminoAcidSeqRecord.py (site enumeration, enzymatic_cleave)
and moPepGen/aa/AminoAcidSeqDict.py (create_unique_peptide_pool),
plus Layer S: the positional definition of a cleavage site and of a
digestion product.
-/
import MoPepGen.Model.Regex
namespace MoPepGen

abbrev Pep := List Char

/-- `s[a:b]` for `a ≤ b ≤ |s|` (Python slicing on in-range bounds). -/
def slice (s : Pep) (a b : Nat) : Pep := (s.drop a).take (b - a)

/-! ### sites -/

/-- `[x.end() for x in re.finditer(exception, seq)]`, `[]` when no exception. -/
def excEnds (exc : Option Re) (s : Pep) : List Nat :=
  match exc with
  | none => []
  | some e => e.ends s

/-- M: `iter_enzymatic_cleave_sites(rule, exception)` as a list. -/
def cleaveSites (rule : Re) (exc : Option Re) (s : Pep) : List Nat :=
  (rule.ends s).filter fun e => !(excEnds exc s).contains e

/-- S: position `i` (1 ≤ i ≤ |s|) is a cleavage site: the rule matches with its
consumed residue at `i-1` and no exception alternative matches there. -/
def isSite (rule : Re) (exc : Option Re) (s : Pep) (i : Nat) : Bool :=
  0 < i && rule.matchAt s (i - 1) &&
    !(match exc with | none => false | some e => e.matchAt s (i - 1))

/-- M: `iter_enzymatic_cleave_sites_with_range`. `none` = the
"Inconsistent cleavage sites found" ValueError. -/
def cleaveSitesWithRange (rule : Re) (rule2 : Re2) (exc : Option Re) (s : Pep) :
    Option (List (Nat × (Nat × Nat))) :=
  let sites := rule.ends s
  let ranges := rule2.finditerOverlapped s
  if sites.length != ranges.length then none
  else some ((sites.zip ranges).filter fun sr => !(excEnds exc s).contains sr.1)

/-- M: `iter_stop_sites` -/
def stopSites (s : Pep) : List Nat :=
  (List.range s.length).filter fun i => s[i]? == some '*'

def insertSorted (x : Nat) : List Nat → List Nat
  | [] => [x]
  | y :: ys => if x < y then x :: y :: ys else if x == y then y :: ys else y :: insertSorted x ys

/-- sorted, de-duplicated (`list(set(l)); l.sort()`) -/
def sortDedup (l : List Nat) : List Nat := l.foldr insertSorted []

/-- M: `find_all_cleave_and_stop_sites` -/
def cleaveAndStopSites (rule : Re) (exc : Option Re) (s : Pep) : List Nat :=
  let st := stopSites s
  let stEnd := (st.filter (· + 1 < s.length)).map (· + 1)
  let stStart := st.filter (0 < ·)
  sortDedup (cleaveSites rule exc s ++ stStart ++ stEnd)

/-! ### mass -/

/-- `Bio.SeqUtils.molecular_weight(seq, 'protein')` in 1e-4 Da;
`none` = ValueError (letter without a weight). -/
def molWeight (tab : List (Char × Nat)) (water : Nat) (p : Pep) : Option Int :=
  let rec go : Pep → Option Int
    | [] => some 0
    | c :: cs => match tab.lookup c, go cs with
      | some w, some r => some (w + r)
      | _, _ => none
  (go p).map fun tot => tot - ((p.length : Int) - 1) * water

structure CleaveCfg where
  rule   : Re
  exc    : Option Re
  misc   : Nat
  minMw  : Int          -- 1e-4 Da
  minLen : Nat
  maxLen : Nat
  tab    : List (Char × Nat)
  water  : Nat

/-- `update_peptides`: `none` = ValueError from molecular_weight,
`some true` = appended, `some false` = dropped. -/
def CleaveCfg.keep (c : CleaveCfg) (p : Pep) : Option Bool :=
  if p.contains 'X' then some false
  else match molWeight c.tab c.water p with
    | none => none
    | some w => some (decide (w > c.minMw) && decide (c.minLen ≤ p.length) && decide (p.length ≤ c.maxLen))

/-- boundaries `[0] + sites + [len]` -/
def bounds (sites : List Nat) (n : Nat) : List Nat := 0 :: (sites ++ [n])

/-- The candidates the two nested `while` loops of `enzymatic_cleave` visit, in order. -/
def cleaveCandidates (s : Pep) (bs : List Nat) (misc : Nat) (nf : Bool) : List Pep :=
  (List.range (bs.length - 1)).flatMap fun st =>
    (List.range (min (misc + 1) (bs.length - (st + 1)))).flatMap fun k =>
      let p := slice s (bs.getD st 0) (bs.getD (st + 1 + k) 0)
      (if st == 0 && !nf && p.head? == some 'M' then [p.drop 1] else []) ++ [p]

/-- `mapM`-like filter: `none` if any `keep` raises. -/
def filterKeep (c : CleaveCfg) : List Pep → Option (List Pep)
  | [] => some []
  | p :: ps => match c.keep p, filterKeep c ps with
    | some true, some r => some (p :: r)
    | some false, some r => some r
    | _, _ => none

/-- M: `enzymatic_cleave` (`none` = ValueError). -/
def enzymaticCleave (c : CleaveCfg) (s : Pep) (nf : Bool) : Option (List Pep) :=
  filterKeep c (cleaveCandidates s (bounds (cleaveSites c.rule c.exc s) s.length) c.misc nf)

/-! ### pool -/

def lstripX : Pep → Pep
  | 'X' :: cs => lstripX cs
  | cs => cs

def cutAtStop (s : Pep) : Pep := s.takeWhile (· != '*')

def iToL (p : Pep) : Pep := p.map fun c => if c == 'I' then 'L' else c

/-- the protein as `create_unique_peptide_pool` digests it -/
def prepProtein (s : Pep) : Pep := cutAtStop (lstripX s)

/-- M: `create_unique_peptide_pool` as the list of added strings (a set in Python);
input: (sequence, cds_start_nf) per proteome entry. `none` = ValueError. -/
def peptidePool (c : CleaveCfg) : List (Pep × Bool) → Option (List Pep)
  | [] => some []
  | (s, nf) :: rest =>
    match enzymaticCleave c (prepProtein s) nf, peptidePool c rest with
    | some ps, some r => some (ps.flatMap (fun p => [p, iToL p]) ++ r)
    | _, _ => none

end MoPepGen
