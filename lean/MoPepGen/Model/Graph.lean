/-
Layer G — refinement checkpoints inside the graph algorithm of `callVariant`.

The graph algorithm (ThreeFrameTVG.create_variant_graph → fit_into_codons → translate →
PeptideVariantGraph.create_cleavage_graph → call_variant_peptides, ≈ 8 k lines of Python) is
not modelled function by function.  What is modelled is what each stage's graph DENOTES:
a graph is a finite set of labelled nodes with successor lists; its language is the set of
labels of its maximal paths.  After every stage the real graph is dumped by the harness and
the checkpoint predicate of this file is evaluated on it by the native driver:

  CP1  create_variant_graph   language of frame f  =  { (applyHap seq h).drop f | h compatible }
  CP2  fit_into_codons        same language, every inner node a whole number of codons
  CP3  translate              language = translations (Sec read as U) of those sequences
  CP4  create_cleavage_graph  same language, every cleavage site of every path is a node boundary

`Lemmas/Graph.lean` proves: `pathsFrom` enumerates exactly the maximal paths; the position
automaton that `apply_variant` builds (alt attached between the reference node ending at
`start` and the one starting at `stop`) accepts exactly the separated sub-collections with
their `applyHap` sequences; node-wise translation of a codon-aligned path is the translation
of its sequence; and if the node boundaries of a path contain the cleavage sites then every
digestion product of the path's protein is a concatenation of consecutive whole nodes.
-/
import MoPepGen.Spec.CallVariant
namespace MoPepGen.Graph
open MoPepGen MoPepGen.Spec

/-- a dumped graph node: `TVGNode` / `PVGNode` reduced to what a path denotes -/
structure GNode where
  seq : List Char
  vars : List Nat            -- ids of the GVF records the node carries
  out : List Nat             -- successor node indices
  rf : Nat := 0              -- reading_frame_index
  cleavage : Bool := false   -- PVGNode.cleavage
  isStop : Bool := false     -- the graph's shared end sentinel (`PeptideVariantGraph.stop`)
  deriving Repr, Inhabited

abbrev Graph := Array GNode

def isStopNode (g : Graph) (i : Nat) : Bool :=
  match g[i]? with
  | some n => n.isStop
  | none => false

/-- successors a path can enter (the end sentinel is not part of any path) -/
def succs (g : Graph) (i : Nat) : List Nat :=
  match g[i]? with
  | some n => n.out.filter fun o => !isStopNode g o
  | none => []

/-- all maximal paths (node indices) starting at `i`, by depth-first search with fuel; a
graph with a cycle reachable from `i` runs out of fuel and reports no path through it -/
def pathsFrom (g : Graph) : Nat → Nat → List (List Nat)
  | 0, _ => []
  | fuel + 1, i =>
    if i < g.size then
      if (succs g i).isEmpty then [[i]]
      else (succs g i).flatMap fun o => (pathsFrom g fuel o).map (i :: ·)
    else []

def paths (g : Graph) (i : Nat) : List (List Nat) := pathsFrom g (g.size + 1) i

def nodeSeq (g : Graph) (i : Nat) : List Char := (g[i]?.map (·.seq)).getD []
def nodeVars (g : Graph) (i : Nat) : List Nat := (g[i]?.map (·.vars)).getD []

def pathSeq (g : Graph) (p : List Nat) : List Char := p.flatMap (nodeSeq g)
def pathVars (g : Graph) (p : List Nat) : List Nat := p.flatMap (nodeVars g)

/-- positions (in `pathSeq`) at which a new node starts, first node excluded; with
`onlyCleavage` only those whose node is flagged `cleavage` -/
def boundaries (g : Graph) (onlyCleavage : Bool) : List Nat → List Nat
  | [] => []
  | i :: rest =>
    let rec go (pos : Nat) : List Nat → List Nat
      | [] => []
      | j :: js =>
        let here := if !onlyCleavage || ((g[j]?.map (·.cleavage)).getD false) then [pos] else []
        here ++ go (pos + (nodeSeq g j).length) js
    go (nodeSeq g i).length rest

/-! ### what the stages must denote (definitional layer) -/

/-- every compatible combination, the empty one included -/
def allHaps (t : TxIn) (vs : List Var) : List (List Var) := [] :: haplotypes t vs

def hapIds (h : List Var) : List Nat := h.flatMap (·.ids)

/-- CP1 / CP2: the DNA language of reading frame `f` -/
def tvgLang (t : TxIn) (vs : List Var) (f : Nat) : List (List Char × List Nat) :=
  (allHaps t vs).map fun h => ((applyHap t.seq h).drop f, hapIds h)

/-- translation of the whole frame (no stop at `*`), annotated Sec codons in frame read `U` -/
def fullTranslation (seq : List Char) (sec : List Nat) (start : Nat) : List Char :=
  let aa := translate (seq.drop start)
  (List.range aa.length).zip aa |>.map fun (i, c) =>
    if c == '*' && sec.contains (start + 3 * i) then 'U' else c

/-- CP3 / CP4: the protein language of reading frame `f` -/
def protLang (t : TxIn) (vs : List Var) (f : Nat) : List (List Char) :=
  (allHaps t vs).map fun h => fullTranslation (applyHap t.seq h) (secAfter t.sec h) f

/-- every inner node of the path is a whole number of codons -/
def codonAligned (g : Graph) (p : List Nat) : Bool :=
  p.dropLast.all fun i => (nodeSeq g i).length % 3 == 0

/-- node-wise translation of a path (what `ThreeFrameTVG.translate` does, node by node) -/
def translatePath (g : Graph) (p : List Nat) : List Char := p.flatMap fun i => translate (nodeSeq g i)

/-- trailing stop symbols removed (`translate` marks the end of a frame with an extra `*`
whenever the last node is shorter than a codon) -/
def stripEnd (w : List Char) : List Char := (w.reverse.dropWhile (· == '*')).reverse

/-- stop-delimited segments of a protein with their offsets -/
def stopSegments (w : List Char) : List (Nat × List Char) :=
  let rec go (off : Nat) (cur : List Char) : List Char → List (Nat × List Char)
    | [] => [(off, cur.reverse)]
    | c :: cs => if c == '*' then (off, cur.reverse) :: go (off + cur.length + 1) [] cs
                 else go off (c :: cur) cs
  go 0 [] w

/-- the positions CP4 requires to be node boundaries: the cleavage sites of every
stop-delimited segment and both sides of every stop symbol (inner positions only) -/
def requiredCuts (rule : Re) (exc : Option Re) (w : List Char) : List Nat :=
  ((stopSegments w).flatMap fun (off, seg) =>
      ((cleaveSites rule exc seg).map (· + off)) ++ [off, off + seg.length]).filter
    fun x => 0 < x && x < w.length

end MoPepGen.Graph
